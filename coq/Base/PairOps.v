(* Complex numbers as PAIRS over an arbitrary record of scalar ("real") operations, with the textbook formulas.
   This is the single definition of which
     - Base/FloatOps.v (IEEE doubles, executed by vm_compute in every solver correspondence) is the
       PrimFloat instance: `FloatOps = PairOps FloatScalar` holds BY CONVERSION (Base/RoundedOps.v,
       FloatOps_is_PairOps, proved by eq_refl), and
     - Base/RoundedOps.v `RndOps` is the instance over the real numbers in which every scalar operation is
       followed by an arbitrary rounding function.
   Hence a statement about `PairOps K` for all K / about RndOps for all rounding functions is a statement about the
   very formulas the float correspondence executes.  No proofs here. *)
From Coq Require Import ZArith Bool.
From BL Require Import Base.Ops.

Record Scalar := mkScalar {
  T : Type;
  k0 : T; k1 : T; k2 : T; khalf : T;          (* the literals 0, 1, 2, 0.5 *)
  k_add : T -> T -> T; k_sub : T -> T -> T; k_mul : T -> T -> T; k_div : T -> T -> T;
  k_opp : T -> T; k_abs : T -> T; k_sqrt : T -> T;
  k_exp : T -> T; k_cos : T -> T; k_sin : T -> T;
  k_eqb : T -> T -> bool; k_leb : T -> T -> bool; k_ltb : T -> T -> bool;
  k_ofZ : Z -> T; k_pi : T;
  k_round32 : T -> T;                          (* storage rounding to single precision *)
  k_trunc : T -> Z
}.

Section Pair.
Variable K : Scalar.
Notation T := (T K).
Definition PC : Type := (T * T)%type.

Definition pc_add (a b : PC) : PC := (k_add K (fst a) (fst b), k_add K (snd a) (snd b)).
Definition pc_sub (a b : PC) : PC := (k_sub K (fst a) (fst b), k_sub K (snd a) (snd b)).
Definition pc_mul (a b : PC) : PC :=
  (k_sub K (k_mul K (fst a) (fst b)) (k_mul K (snd a) (snd b)),
   k_add K (k_mul K (fst a) (snd b)) (k_mul K (snd a) (fst b))).
Definition pc_opp (a : PC) : PC := (k_opp K (fst a), k_opp K (snd a)).
Definition pc_div (a b : PC) : PC :=
  if k_eqb K (snd b) (k0 K) then (k_div K (fst a) (fst b), k_div K (snd a) (fst b)) else
  let d := k_add K (k_mul K (fst b) (fst b)) (k_mul K (snd b) (snd b)) in
  (k_div K (k_add K (k_mul K (fst a) (fst b)) (k_mul K (snd a) (snd b))) d,
   k_div K (k_sub K (k_mul K (snd a) (fst b)) (k_mul K (fst a) (snd b))) d).
Definition pc_sqrt (a : PC) : PC :=
  let '(x, y) := a in
  if k_eqb K x (k0 K) && k_eqb K y (k0 K) then (k0 K, k0 K) else
  if k_eqb K y (k0 K) then (if k_leb K (k0 K) x then (k_sqrt K x, k0 K) else (k0 K, k_sqrt K (k_opp K x))) else
  let h := k_sqrt K (k_add K (k_mul K x x) (k_mul K y y)) in
  let t := k_sqrt K (k_mul K (k_add K (k_abs K x) h) (khalf K)) in
  if k_leb K (k0 K) x then (t, k_div K y (k_mul K (k2 K) t))
  else (k_div K (k_abs K y) (k_mul K (k2 K) t), if k_ltb K y (k0 K) then k_opp K t else t).
Definition pc_exp (a : PC) : PC :=
  let e := k_exp K (fst a) in
  if k_eqb K (snd a) (k0 K) then (e, k0 K) else (k_mul K e (k_cos K (snd a)), k_mul K e (k_sin K (snd a))).

Definition PairOps : Ops := {|
  C := PC;
  c0 := (k0 K, k0 K); c1 := (k1 K, k0 K);
  cadd := pc_add; cmul := pc_mul; csub := pc_sub; cdiv := pc_div;
  copp := pc_opp; cinv := fun a => pc_div (k1 K, k0 K) a;
  ci := (k0 K, k1 K);
  cofZ := fun z => (k_ofZ K z, k0 K);
  cpi := (k_pi K, k0 K);
  csqrt := pc_sqrt;
  cexp := pc_exp;
  cre := fun a => (fst a, k0 K);
  cround := fun a => (k_round32 K (fst a), k_round32 K (snd a));
  ctrunc := fun a => k_trunc K (fst a);
  cltb := fun a b => k_ltb K (fst a) (fst b)
|}.
End Pair.
