(* ROUNDED real arithmetic as an instance of Ops.

   RndOps m : complex numbers are pairs of reals, the formulas are the textbook ones of Base/PairOps.v, and EVERY
   scalar operation (+ - * / negation, absolute value, sqrt, integer conversion, pi) is followed by the rounding
   function `rnd m : R -> R`, about which nothing is assumed here; storage to single precision is a second arbitrary
   function `rnd32 m`; exp, cos, sin are arbitrary functions `m_exp m`, `m_cos m`, `m_sin m` (libm routines are not
   correctly rounded, so they are not even assumed to be roundings of the mathematical functions).
   Rounded arithmetic is not a field: no `Laws` instance exists for RndOps, and none is used by Proofs/RoundedScaling.v.

   The same file shows that the executable IEEE instance is the SAME construction:  FloatOps = PairOps FloatScalar
   by conversion — Base/FloatOps.v itself is untouched. *)
From Coq Require Import ZArith Reals Bool PrimFloat.
From BL Require Import Base.Ops Base.PairOps Base.FloatOps.

(* ------------------------------------------------------------------ the float instance is PairOps *)

Definition FloatScalar : Scalar := {|
  T := float;
  k0 := 0%float; k1 := 1%float; k2 := 2%float; khalf := 0.5%float;
  k_add := PrimFloat.add; k_sub := PrimFloat.sub; k_mul := PrimFloat.mul; k_div := PrimFloat.div;
  k_opp := PrimFloat.opp; k_abs := PrimFloat.abs; k_sqrt := PrimFloat.sqrt;
  k_exp := fexp; k_cos := fcos; k_sin := fsin;
  k_eqb := PrimFloat.eqb; k_leb := PrimFloat.leb; k_ltb := PrimFloat.ltb;
  k_ofZ := fofZ; k_pi := 0x1.921fb54442d18p+1%float;
  k_round32 := fround32;
  k_trunc := ftrunc
|}.

Lemma FloatOps_is_PairOps : FloatOps = PairOps FloatScalar.
Proof. reflexivity. Qed.

(* ------------------------------------------------------------------ rounded reals *)

Record RMode := mkRMode {
  rnd : R -> R;          (* rounding of every arithmetic result *)
  rnd32 : R -> R;        (* storage rounding of complex64 arrays *)
  m_exp : R -> R; m_cos : R -> R; m_sin : R -> R
}.

Local Open Scope R_scope.

Definition Reqb (x y : R) : bool := if Req_EM_T x y then true else false.
Definition Rleb (x y : R) : bool := if Rle_dec x y then true else false.
Definition Rltb (x y : R) : bool := if Rlt_dec x y then true else false.
(* int(x): truncation toward zero *)
Definition Rtrunc (x : R) : Z := if Rle_dec 0 x then Int_part x else (- Int_part (- x))%Z.

Definition RndScalar (m : RMode) : Scalar := {|
  T := R;
  k0 := 0; k1 := 1; k2 := 2; khalf := / 2;
  k_add := fun x y => rnd m (x + y); k_sub := fun x y => rnd m (x - y);
  k_mul := fun x y => rnd m (x * y); k_div := fun x y => rnd m (x / y);
  k_opp := fun x => rnd m (- x); k_abs := fun x => rnd m (Rabs x); k_sqrt := fun x => rnd m (R_sqrt.sqrt x);
  k_exp := m_exp m; k_cos := m_cos m; k_sin := m_sin m;
  k_eqb := Reqb; k_leb := Rleb; k_ltb := Rltb;
  k_ofZ := fun z => rnd m (IZR z); k_pi := rnd m PI;
  k_round32 := rnd32 m;
  k_trunc := Rtrunc
|}.

Definition RndOps (m : RMode) : Ops := PairOps (RndScalar m).

(* exact real arithmetic is the instance with the identity rounding *)
Definition ExactMode : RMode := mkRMode (fun x => x) (fun x => x) exp cos sin.
