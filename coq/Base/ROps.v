(* Non-vacuity witness for the bundle `Laws`: the complex numbers (Coquelicot's C = R * R) with the
   usual exponential and the principal square root satisfy every law.  Hence the premise
   `Laws O` under which the theorems of this development are proved is satisfiable.
   Nothing is postulated here; only the real-number foundations of the standard library are used
   (listed by the last command of the file). *)
From Coq Require Import ZArith Reals Field Ring Lra.
From Coquelicot Require Import Complex.
From BL Require Import Base.Ops Base.Laws.

Local Open Scope R_scope.

(* Coquelicot's type of complex numbers; `C` alone is ambiguous with the projection Ops.C *)
Notation CC := Complex.C (only parsing).

(* ------------------------------------------------------------------------------------------ *)
(* operations that Coquelicot does not provide                                                   *)

Definition Cexp (z : CC) : CC := (exp (fst z) * cos (snd z), exp (fst z) * sin (snd z)).

Definition Rsgn (b : R) : R := if Rle_dec 0 b then 1 else -1.

(* principal square root: with r = |z|,  sqrt z = ( sqrt((r+a)/2), sgn(b) sqrt((r-a)/2) ),
   where sgn 0 = +1 so that sqrt of a negative real is +i sqrt(-a) *)
Definition Cnorm (z : CC) : R := sqrt (fst z * fst z + snd z * snd z).
Definition Csqrt (z : CC) : CC :=
  (sqrt ((Cnorm z + fst z) / 2), Rsgn (snd z) * sqrt ((Cnorm z - fst z) / 2)).

Definition Cre (z : CC) : CC := RtoC (fst z).

Definition ROps : Ops :=
  mkOps CC (RtoC 0) (RtoC 1) Cplus Cmult Cminus Cdiv Copp Cinv
        Ci (fun z => RtoC (IZR z)) (RtoC PI) Csqrt Cexp Cre
        (fun z => z) (fun z => Int_part (fst z))
        (fun a b => if Rlt_dec (fst a) (fst b) then true else false).

(* the derived operations are the ones asked for *)
Lemma ROps_sub_def (a b : CC) : csub ROps a b = Cplus a (Copp b).
Proof. reflexivity. Qed.
Lemma ROps_div_def (a b : CC) : cdiv ROps a b = Cmult a (Cinv b).
Proof. reflexivity. Qed.

(* ------------------------------------------------------------------------------------------ *)
(* square root                                                                                   *)

Lemma Cnorm_sq (a b : R) : Cnorm (a, b) * Cnorm (a, b) = a * a + b * b.
Proof.
  unfold Cnorm; cbn [fst snd]. apply sqrt_sqrt.
  pose proof (Rle_0_sqr a) as Ha. pose proof (Rle_0_sqr b) as Hb. unfold Rsqr in Ha, Hb. lra.
Qed.

Lemma Cnorm_nonneg (z : CC) : 0 <= Cnorm z.
Proof. unfold Cnorm. apply sqrt_pos. Qed.

Lemma Cnorm_ge_abs (a b : R) : Rabs a <= Cnorm (a, b).
Proof.
  unfold Cnorm; cbn [fst snd].
  rewrite <- (sqrt_Rsqr_abs a). apply sqrt_le_1_alt. unfold Rsqr.
  pose proof (Rle_0_sqr b) as Hb. unfold Rsqr in Hb. lra.
Qed.

Lemma Rsgn_sq (b : R) : Rsgn b * Rsgn b = 1.
Proof. unfold Rsgn. destruct (Rle_dec 0 b); ring. Qed.

Lemma Rsgn_abs (b : R) : Rsgn b * Rabs b = b.
Proof.
  unfold Rsgn. destruct (Rle_dec 0 b) as [Hb|Hb].
  - rewrite Rabs_pos_eq by exact Hb. ring.
  - rewrite Rabs_left by lra. ring.
Qed.

Lemma Csqrt_sqr (z : CC) : Cmult (Csqrt z) (Csqrt z) = z.
Proof.
  destruct z as [a b].
  pose proof (Cnorm_sq a b) as Hrr.
  pose proof (Cnorm_ge_abs a b) as Hra.
  unfold Csqrt. cbn [fst snd]. set (r := Cnorm (a, b)) in *.
  assert (Hlo : - r <= a <= r).
  { pose proof (Rle_abs a) as H1. pose proof (Rle_abs (- a)) as H2.
    rewrite Rabs_Ropp in H2. split; lra. }
  destruct Hlo as [Hlo Hhi].
  assert (Hp : 0 <= (r + a) / 2) by lra.
  assert (Hq : 0 <= (r - a) / 2) by lra.
  set (p := sqrt ((r + a) / 2)). set (q := sqrt ((r - a) / 2)).
  assert (Hpp : p * p = (r + a) / 2) by (apply sqrt_sqrt; exact Hp).
  assert (Hqq : q * q = (r - a) / 2) by (apply sqrt_sqrt; exact Hq).
  assert (Hpq : p * q = Rabs b / 2).
  { unfold p, q. rewrite <- sqrt_mult_alt by exact Hp.
    replace ((r + a) / 2 * ((r - a) / 2)) with (Rsqr (b / 2)).
    - rewrite sqrt_Rsqr_abs. unfold Rdiv. rewrite Rabs_mult.
      rewrite (Rabs_pos_eq (/ 2)) by lra. reflexivity.
    - unfold Rsqr.
      replace ((r + a) / 2 * ((r - a) / 2)) with ((r * r - a * a) / 4) by field.
      rewrite Hrr. field. }
  unfold Cmult. cbn [fst snd]. f_equal.
  - replace (p * p - Rsgn b * q * (Rsgn b * q))
      with (p * p - (Rsgn b * Rsgn b) * (q * q)) by ring.
    rewrite Rsgn_sq, Hpp, Hqq. field.
  - replace (p * (Rsgn b * q) + Rsgn b * q * p) with (2 * Rsgn b * (p * q)) by ring.
    rewrite Hpq. transitivity (Rsgn b * Rabs b); [field | apply Rsgn_abs].
Qed.

(* ------------------------------------------------------------------------------------------ *)
(* exponential                                                                                   *)

Lemma Cexp_0 : Cexp (RtoC 0) = RtoC 1.
Proof.
  unfold Cexp, RtoC. cbn [fst snd]. rewrite exp_0, cos_0, sin_0. f_equal; ring.
Qed.

Lemma Cexp_plus (x y : CC) : Cexp (Cplus x y) = Cmult (Cexp x) (Cexp y).
Proof.
  destruct x as [a b]. destruct y as [c d].
  unfold Cexp, Cplus, Cmult. cbn [fst snd].
  rewrite exp_plus, cos_plus, sin_plus. f_equal; ring.
Qed.

Lemma Ci_mult_R (x : R) : Cmult Ci (RtoC x) = (0, x).
Proof. unfold Cmult, Ci, RtoC. cbn [fst snd]. f_equal; ring. Qed.

Lemma Cexp_cis (x : R) : Cexp (Cmult Ci (RtoC x)) = (cos x, sin x).
Proof.
  rewrite Ci_mult_R. unfold Cexp. cbn [fst snd]. rewrite exp_0. f_equal; ring.
Qed.

Lemma Cexp_cis_2pi : Cexp (Cmult Ci (Cmult (RtoC 2) (RtoC PI))) = RtoC 1.
Proof.
  rewrite <- RtoC_mult, Cexp_cis, cos_2PI, sin_2PI. reflexivity.
Qed.

(* cos (2 y) = 1 forces y to be an integer multiple of pi *)
Lemma cos_double_eq_1 (y : R) : cos (2 * y) = 1 -> exists m : Z, y = IZR m * PI.
Proof.
  intros Hc. apply sin_eq_0_0.
  rewrite cos_2a_sin in Hc.
  assert (Hs : sin y * sin y = 0) by lra.
  destruct (Rmult_integral _ _ Hs) as [H|H]; exact H.
Qed.

Lemma root_prim_R (n : nat) (k : Z) : n <> 0%nat ->
  Cexp (Cmult Ci (Cmult (Cmult (RtoC 2) (RtoC PI))
                        (Cdiv (RtoC (IZR k)) (RtoC (IZR (Z.of_nat n)))))) = RtoC 1 ->
  (Z.of_nat n | k)%Z.
Proof.
  intros Hn He.
  assert (Hnz : IZR (Z.of_nat n) <> 0).
  { intros E. apply Hn. apply Nat2Z.inj. apply eq_IZR_R0. exact E. }
  rewrite <- (RtoC_div _ _ Hnz) in He.
  rewrite <- !RtoC_mult in He.
  rewrite Cexp_cis in He.
  unfold RtoC in He.
  assert (Hc : cos (2 * PI * (IZR k / IZR (Z.of_nat n))) = 1).
  { exact (f_equal fst He). }
  replace (2 * PI * (IZR k / IZR (Z.of_nat n)))
    with (2 * (PI * (IZR k / IZR (Z.of_nat n)))) in Hc by ring.
  destruct (cos_double_eq_1 _ Hc) as [m Hm].
  exists m.
  apply eq_IZR. rewrite mult_IZR.
  assert (Hpi : PI <> 0) by exact PI_neq0.
  assert (Hq : IZR k / IZR (Z.of_nat n) = IZR m).
  { apply (Rmult_eq_reg_l PI); [|exact Hpi]. rewrite Hm. ring. }
  rewrite <- Hq. field. exact Hnz.
Qed.

(* ------------------------------------------------------------------------------------------ *)
(* real part                                                                                     *)

Lemma Cre_fix_snd (s : CC) : Cre s = s -> snd s = 0.
Proof.
  destruct s as [a b]. unfold Cre, RtoC. cbn [fst snd]. intros H.
  symmetry. exact (f_equal snd H).
Qed.

Lemma Cre_mul_real (s x : CC) : Cre s = s -> Cre (Cmult s x) = Cmult s (Cre x).
Proof.
  intros Hs. pose proof (Cre_fix_snd s Hs) as Hb.
  destruct s as [a b]. destruct x as [c d]. cbn [fst snd] in Hb. subst b.
  unfold Cre, Cmult, RtoC. cbn [fst snd]. f_equal; ring.
Qed.

Lemma Cre_inv_real (s : CC) : Cre s = s -> Cre (Cdiv (RtoC 1) s) = Cdiv (RtoC 1) s.
Proof.
  intros Hs. pose proof (Cre_fix_snd s Hs) as Hb.
  destruct s as [a b]. cbn [fst snd] in Hb. subst b.
  unfold Cre, Cdiv, Cmult, Cinv, RtoC. cbn [fst snd]. f_equal.
  unfold Rdiv. ring.
Qed.

(* ------------------------------------------------------------------------------------------ *)
(* the bundle                                                                                    *)

Theorem ROps_laws : Laws ROps.
Proof.
  constructor; cbn.
  - (* L_field *) exact C_field_theory.
  - (* L_ofZ_0 *) reflexivity.
  - (* L_ofZ_1 *) reflexivity.
  - (* L_ofZ_add *) intros a b. rewrite plus_IZR. apply RtoC_plus.
  - (* L_ofZ_mul *) intros a b. rewrite mult_IZR. apply RtoC_mult.
  - (* L_ofZ_opp *) intros a. rewrite opp_IZR. apply RtoC_opp.
  - (* L_char0 *) intros a Ha E. apply Ha. apply eq_IZR_R0. apply RtoC_inj. exact E.
  - (* L_i2 *) unfold Cmult, Copp, Ci, RtoC. cbn [fst snd]. f_equal; ring.
  - (* L_sqrt *) exact Csqrt_sqr.
  - (* L_exp_0 *) exact Cexp_0.
  - (* L_exp_add *) exact Cexp_plus.
  - (* L_cis_2pi *) exact Cexp_cis_2pi.
  - (* L_pi_nz *) intros E. apply PI_neq0. apply RtoC_inj. exact E.
  - (* L_re_add *) intros x y. unfold Cre. cbn [Cplus fst]. apply RtoC_plus.
  - (* L_re_0 *) reflexivity.
  - (* L_re_ofZ *) intros z. reflexivity.
  - (* L_re_idem *) intros x. reflexivity.
  - (* L_re_mul_real *) exact Cre_mul_real.
  - (* L_re_inv_real *) exact Cre_inv_real.
  - (* L_root_prim *) exact root_prim_R.
  - (* L_ltb_irrefl *) intros x. destruct (Rlt_dec (fst x) (fst x)) as [H|H]; [exfalso; exact (Rlt_irrefl _ H)|reflexivity].
  - (* L_trunc_0 *) change (Int_part (INR 0) = 0%Z). apply Int_part_INR.
Qed.

Print Assumptions ROps_laws.
