(* The laws under which theorems about the Ops-polymorphic model are proved.  They enter every
   theorem as a hypothesis `Laws O` (never as an axiom).  They are the laws of the complex field
   with its exponential and principal square root; IEEE rounding does not satisfy them and is
   not covered by the theorems (DESIGN.md section 8). *)
From Coq Require Import ZArith Field Ring.
From BL Require Import Base.Ops.

Record Laws (O : Ops) : Prop := mkLaws {
  L_field : field_theory (c0 O) (c1 O) (cadd O) (cmul O) (csub O) (copp O) (cdiv O) (cinv O) (@eq (C O));
  L_ofZ_0 : cofZ O 0%Z = c0 O;
  L_ofZ_1 : cofZ O 1%Z = c1 O;
  L_ofZ_add : forall a b, cofZ O (a + b)%Z = cadd O (cofZ O a) (cofZ O b);
  L_ofZ_mul : forall a b, cofZ O (a * b)%Z = cmul O (cofZ O a) (cofZ O b);
  L_ofZ_opp : forall a, cofZ O (- a)%Z = copp O (cofZ O a);
  L_char0 : forall a, a <> 0%Z -> cofZ O a <> c0 O;
  L_i2 : cmul O (ci O) (ci O) = copp O (c1 O);
  L_sqrt : forall x, cmul O (csqrt O x) (csqrt O x) = x;
  L_exp_0 : cexp O (c0 O) = c1 O;
  L_exp_add : forall x y, cexp O (cadd O x y) = cmul O (cexp O x) (cexp O y);
  L_cis_2pi : cexp O (cmul O (ci O) (cmul O (cofZ O 2%Z) (cpi O))) = c1 O;
  L_pi_nz : cpi O <> c0 O;
  L_re_add : forall x y, cre O (cadd O x y) = cadd O (cre O x) (cre O y);
  L_re_0 : cre O (c0 O) = c0 O;
  (* reals are the fixed points of cre; they form a subfield and cre is linear over them *)
  L_re_ofZ : forall z, cre O (cofZ O z) = cofZ O z;
  L_re_idem : forall x, cre O (cre O x) = cre O x;
  L_re_mul_real : forall s x, cre O s = s -> cre O (cmul O s x) = cmul O s (cre O x);
  L_re_inv_real : forall s, cre O s = s -> cre O (cdiv O (c1 O) s) = cdiv O (c1 O) s;
  (* primitivity of roots of unity: exp(2 pi i k/n) = 1 only when n divides k *)
  L_root_prim : forall (n : nat) (k : Z), n <> 0%nat ->
     cexp O (cmul O (ci O) (cmul O (cmul O (cofZ O 2%Z) (cpi O)) (cdiv O (cofZ O k) (cofZ O (Z.of_nat n))))) = c1 O ->
     (Z.of_nat n | k)%Z;
  (* the order test is irreflexive (used for `xm**2 + ym**2 > 0.0` at the origin) *)
  L_ltb_irrefl : forall x, cltb O x x = false;
  (* int(0.0) = 0 (a zero halo pads nothing) *)
  L_trunc_0 : ctrunc O (c0 O) = 0%Z
}.

Section Facts.
Variable O : Ops.
Hypothesis L : Laws O.
Notation "0" := (c0 O) : ops_scope. Notation "1" := (c1 O) : ops_scope.
Infix "+" := (cadd O) : ops_scope. Infix "*" := (cmul O) : ops_scope.
Infix "-" := (csub O) : ops_scope. Infix "/" := (cdiv O) : ops_scope.
Notation "- x" := (copp O x) : ops_scope.
Local Open Scope ops_scope.
Add Field OF : (L_field O L).

Lemma ofZ_2 : cofZ O 2%Z = 1 + 1.
Proof. change 2%Z with (1 + 1)%Z. rewrite L_ofZ_add, L_ofZ_1 by exact L. reflexivity. Qed.
Lemma ofZ_3 : cofZ O 3%Z = 1 + 1 + 1.
Proof. change 3%Z with (2 + 1)%Z. rewrite L_ofZ_add, L_ofZ_1, ofZ_2 by exact L. reflexivity. Qed.
Lemma ofZ_6 : cofZ O 6%Z = (1 + 1) * (1 + 1 + 1).
Proof. change 6%Z with (2 * 3)%Z. rewrite L_ofZ_mul, ofZ_2, ofZ_3 by exact L. reflexivity. Qed.
Lemma two_nz : 1 + 1 <> 0.
Proof. rewrite <- ofZ_2. apply L_char0; [exact L|discriminate]. Qed.
Lemma three_nz : 1 + 1 + 1 <> 0.
Proof. rewrite <- ofZ_3. apply L_char0; [exact L|discriminate]. Qed.
Lemma three_nz' : 1 + (1 + 1) <> 0.
Proof. intros E. apply three_nz. rewrite <- E. ring. Qed.
Lemma one_nz : 1 <> 0.
Proof. rewrite <- (L_ofZ_1 O L). apply L_char0; [exact L|discriminate]. Qed.
Lemma ofN_nz (n : nat) : n <> 0%nat -> cofZ O (Z.of_nat n) <> 0.
Proof. intros H. apply L_char0; [exact L|]. intros E. apply H. apply Nat2Z.inj. exact E. Qed.

Lemma half_two : cofQ O 1%Z 2%Z * (1 + 1) = 1.
Proof. unfold cofQ. rewrite (L_ofZ_1 O L), ofZ_2. field. exact two_nz. Qed.

Lemma mul_zero_l x : 0 * x = 0. Proof. ring. Qed.
Lemma integral x y : x * y = 0 -> x = 0 \/ y = 0 -> True. Proof. auto. Qed.
Lemma mul_nz x y : x <> 0 -> y <> 0 -> x * y <> 0.
Proof.
  intros Hx Hy E. apply Hy.
  transitivity (1 / x * (x * y)); [field; exact Hx|]. rewrite E. ring.
Qed.
Lemma div_nz x y : x <> 0 -> y <> 0 -> x / y <> 0.
Proof.
  intros Hx Hy E. apply Hx. transitivity (x / y * y); [field; exact Hy|]. rewrite E. ring.
Qed.
End Facts.

(* rewrite the integer literals the model uses into sums of 1 so that ring/field see them *)
Ltac zlits O L :=
  unfold cofQ; rewrite ?(ofZ_6 O L), ?(ofZ_3 O L), ?(ofZ_2 O L), ?(L_ofZ_1 O L), ?(L_ofZ_0 O L).

(* side conditions left by `field`: products of hypotheses and small numerals *)
Ltac solve_nz O L :=
  repeat split; repeat (apply (mul_nz O L));
  try first [ assumption | apply (one_nz O L) | apply (two_nz O L) | apply (three_nz O L) | apply (three_nz' O L) ].
