(* IEEE-double instance of Ops, used only to EXECUTE the model in the correspondence check.
   Complex numbers are pairs with textbook formulas; sin/cos/exp are implemented in Gallina
   (Cody-Waite reduction + Taylor kernels, accurate to a few ulp — the correspondence compares
   with a tolerance that is orders of magnitude larger).  No theorem is about this file. *)
From Coq Require Import ZArith PrimFloat Uint63 List Bool.
Open Scope bool_scope.
From BL Require Import Base.Ops.
Import ListNotations.
Open Scope float_scope.

Definition rnd (x : float) : float := (x + 0x1.8p52) - 0x1.8p52.   (* nearest integer, |x| < 2^51 *)

(* kernels on [-pi/4, pi/4] *)
Definition ksin (r : float) : float :=
  let s := r * r in
  r * (1 + s * (-0x1.5555555555555p-3 + s * (0x1.1111111111111p-7 + s * (-0x1.a01a01a01a01ap-13
    + s * (0x1.71de3a556c734p-19 + s * (-0x1.ae64567f544e4p-26 + s * (0x1.6124613a86d09p-33
    + s * (-0x1.ae7f3e733b81fp-41 + s * 0x1.952c77030ad4ap-49)))))))).
Definition kcos (r : float) : float :=
  let s := r * r in
  1 + s * (-0.5 + s * (0x1.5555555555555p-5 + s * (-0x1.6c16c16c16c17p-10 + s * (0x1.a01a01a01a01ap-16
    + s * (-0x1.27e4fb7789f5cp-22 + s * (0x1.1eed8eff8d898p-29 + s * (-0x1.93974a8c07c9dp-37
    + s * 0x1.ae7f3e733b81fp-45))))))).

Definition reduce_pio2 (x : float) : float * float :=   (* (k, r) with x = k*pi/2 + r *)
  let k := rnd (x * 0x1.45f306dc9c883p-1) in
  let r := ((x - k * 0x1.921fb544p+0) - k * 0x1.0b4611a6p-34) - k * 0x1.3198a2e037073p-69 in
  (k, r).

Definition quadrant (k : float) : float := k - 4 * rnd (k * 0.25 - 0.375).

Definition fsin (x : float) : float :=
  let '(k, r) := reduce_pio2 x in
  let q := quadrant k in
  if q =? 0 then ksin r else if q =? 1 then kcos r else if q =? 2 then - ksin r else - kcos r.
Definition fcos (x : float) : float :=
  let '(k, r) := reduce_pio2 x in
  let q := quadrant k in
  if q =? 0 then kcos r else if q =? 1 then - ksin r else if q =? 2 then - kcos r else ksin r.

(* 2^k for an integer-valued float k, |k| <= 2047 *)
Definition pow2f (k : float) : float :=
  let neg := k <? 0 in
  let a := abs k in
  let stepb (st : float * float) (w : float) (cp cn : float) : float * float :=
    let '(a, acc) := st in
    if w <=? a then (a - w, acc * (if neg then cn else cp)) else (a, acc) in
  let st := (a, 1) in
  let st := stepb st 1024 0x1p+1023 0x1p-1024 in
  let st := match st with (a', acc) => if (1024 <=? a) && negb neg then (a', acc * 2) else st end in
  let st := stepb st 512 0x1p+512 0x1p-512 in
  let st := stepb st 256 0x1p+256 0x1p-256 in
  let st := stepb st 128 0x1p+128 0x1p-128 in
  let st := stepb st 64 0x1p+64 0x1p-64 in
  let st := stepb st 32 0x1p+32 0x1p-32 in
  let st := stepb st 16 0x1p+16 0x1p-16 in
  let st := stepb st 8 0x1p+8 0x1p-8 in
  let st := stepb st 4 0x1p+4 0x1p-4 in
  let st := stepb st 2 0x1p+2 0x1p-2 in
  let st := stepb st 1 0x1p+1 0x1p-1 in
  snd st.

Definition fexp (x : float) : float :=
  if x <? -745.2 then 0 else if 709.8 <? x then infinity else
  let k := rnd (x * 0x1.71547652b82fep+0) in
  let r := (x - k * 0x1.62e42feep-1) - k * 0x1.a39ef35793c76p-33 in
  let p := 1 + r * (1 + r * (0.5 + r * (0x1.5555555555555p-3 + r * (0x1.5555555555555p-5
    + r * (0x1.1111111111111p-7 + r * (0x1.6c16c16c16c17p-10 + r * (0x1.a01a01a01a01ap-13
    + r * (0x1.a01a01a01a01ap-16 + r * (0x1.71de3a556c734p-19 + r * (0x1.27e4fb7789f5cp-22
    + r * (0x1.ae64567f544e4p-26 + r * (0x1.1eed8eff8d898p-29 + r * 0x1.6124613a86d09p-33)))))))))))) in
  p * pow2f k.

Definition fofZ (z : Z) : float :=
  match z with
  | Z0 => 0
  | Zpos p => of_uint63 (Uint63.of_Z (Zpos p))
  | Zneg p => - of_uint63 (Uint63.of_Z (Zpos p))
  end.

(* truncation toward zero of a float to Z (|x| < 2^51) *)
Definition ftrunc (x : float) : Z :=
  let a := abs x in
  let r := rnd a in
  let fl := if a <? r then r - 1 else r in
  let m := Uint63.to_Z (normfr_mantissa (fst (frshiftexp fl))) in
  (* fl = m * 2^(e-53) where e = exponent from frshiftexp *)
  let e := (Uint63.to_Z (snd (frshiftexp fl)) - 2101)%Z in
  let v := if (fl =? 0)%float then 0%Z else Z.shiftl m (e - 53)%Z in
  if x <? 0 then (- v)%Z else v.

(* round a double to the nearest single (normal range; Veltkamp splitting keeps 24 bits) *)
Definition fround32 (x : float) : float :=
  if abs x <? 0x1p-126 then x else
  if 0x1.fffffep+127 <? abs x then (if x <? 0 then neg_infinity else infinity) else
  let t := x * 0x1.0000002p+29 in
  t - (t - x).

Definition FC : Type := float * float.
Definition fc_add (a b : FC) : FC := (fst a + fst b, snd a + snd b).
Definition fc_sub (a b : FC) : FC := (fst a - fst b, snd a - snd b).
Definition fc_mul (a b : FC) : FC :=
  (fst a * fst b - snd a * snd b, fst a * snd b + snd a * fst b).
Definition fc_opp (a : FC) : FC := (- fst a, - snd a).
Definition fc_div (a b : FC) : FC :=
  if snd b =? 0 then (fst a / fst b, snd a / fst b) else
  let d := fst b * fst b + snd b * snd b in
  ((fst a * fst b + snd a * snd b) / d, (snd a * fst b - fst a * snd b) / d).
Definition fc_sqrt (a : FC) : FC :=
  let '(x, y) := a in
  if (x =? 0) && (y =? 0) then (0, 0) else
  if y =? 0 then (if 0 <=? x then (PrimFloat.sqrt x, 0) else (0, PrimFloat.sqrt (- x))) else
  let h := PrimFloat.sqrt (x * x + y * y) in
  let t := PrimFloat.sqrt ((abs x + h) * 0.5) in
  if 0 <=? x then (t, y / (2 * t))
  else (abs y / (2 * t), if y <? 0 then - t else t).
Definition fc_exp (a : FC) : FC :=
  let e := fexp (fst a) in
  if snd a =? 0 then (e, 0) else (e * fcos (snd a), e * fsin (snd a)).

Definition FloatOps : Ops := {|
  C := FC;
  c0 := (0, 0); c1 := (1, 0);
  cadd := fc_add; cmul := fc_mul; csub := fc_sub; cdiv := fc_div;
  copp := fc_opp; cinv := fun a => fc_div (1, 0) a;
  ci := (0, 1);
  cofZ := fun z => (fofZ z, 0);
  cpi := (0x1.921fb54442d18p+1, 0);
  csqrt := fc_sqrt;
  cexp := fc_exp;
  cre := fun a => (fst a, 0);
  cround := fun a => (fround32 (fst a), fround32 (snd a));
  ctrunc := fun a => ftrunc (fst a);
  cltb := fun a b => fst a <? fst b
|}.

Definition fr (x : float) : FC := (x, 0).
