(* One carrier, three uses: the numerical model is written once over a record of operations.
   - under field laws (Section hypotheses, never axioms) the theorems are proved;
   - instantiated with IEEE doubles (FloatOps) the same definitions run under vm_compute.
   The carrier C plays the role of numpy's complex128; real quantities are embedded in it. *)
From Coq Require Import ZArith List.
Import ListNotations.

Set Primitive Projections.
Record Ops := mkOps {
  C : Type;
  c0 : C; c1 : C;
  cadd : C -> C -> C; cmul : C -> C -> C; csub : C -> C -> C; cdiv : C -> C -> C;
  copp : C -> C; cinv : C -> C;
  ci : C;                 (* 1j *)
  cofZ : Z -> C;          (* integer literal / int -> float conversion *)
  cpi : C;                (* np.pi *)
  csqrt : C -> C;         (* np.sqrt on complex: principal branch *)
  cexp : C -> C;          (* np.exp on complex *)
  cre : C -> C;           (* .real *)
  cround : C -> C;        (* storage rounding of complex64 arrays ("single" precision) *)
  ctrunc : C -> Z;        (* int(x) on a real *)
  cltb : C -> C -> bool   (* x < y on reals *)
}.

Unset Primitive Projections.
Declare Scope ops_scope.
Delimit Scope ops_scope with ops.

Section Derived.
Variable O : Ops.
Definition cofQ (p : Z) (q : Z) : C O := cdiv O (cofZ O p) (cofZ O q).
Definition csq (x : C O) : C O := cmul O x x.
Definition ccube (x : C O) : C O := cmul O (cmul O x x) x.
Definition cis (x : C O) : C O := cexp O (cmul O (ci O) x).
Definition cmax (x y : C O) : C O := if cltb O x y then y else x.
Fixpoint csum (l : list (C O)) : C O :=
  match l with [] => c0 O | x :: r => cadd O x (csum r) end.
End Derived.
