(* Facts about the complex instance ROps that discharge the extra hypotheses some theorems carry:
   the principal square root has non-negative real part (so the top condition of C01 selects the
   DECAYING continuation) and scales as sqrt(z/s^2) = sqrt(z)/s for real s > 0 (the hypothesis of
   C07's length scaling). *)
From Coq Require Import ZArith Reals Field Ring Lra.
From Coquelicot Require Import Complex.
From BL Require Import Base.Ops Base.Laws Base.ROps Model.Solver.
Local Open Scope R_scope.

Lemma Csqrt_re_nonneg (z : Complex.C) : 0 <= fst (Csqrt z).
Proof. unfold Csqrt. cbn [fst]. apply sqrt_pos. Qed.

Lemma Cnorm_scale (a b s : R) : 0 < s -> Cnorm (a / (s * s), b / (s * s)) = Cnorm (a, b) / (s * s).
Proof.
  intros Hs. unfold Cnorm. cbn [fst snd].
  replace (a / (s * s) * (a / (s * s)) + b / (s * s) * (b / (s * s)))
    with ((a * a + b * b) / ((s * s) * (s * s))) by (field; lra).
  assert (Hss : 0 < s * s) by (apply Rmult_lt_0_compat; exact Hs).
  rewrite sqrt_div_alt by (apply Rmult_lt_0_compat; exact Hss).
  rewrite sqrt_square by lra. reflexivity.
Qed.

Lemma Rsgn_scale (b s : R) : 0 < s -> Rsgn (b / (s * s)) = Rsgn b.
Proof.
  intros Hs. assert (Hss : 0 < s * s) by (apply Rmult_lt_0_compat; exact Hs).
  unfold Rsgn. destruct (Rle_dec 0 (b / (s * s))) as [H1|H1]; destruct (Rle_dec 0 b) as [H2|H2]; try reflexivity.
  - exfalso. apply H2. apply Rmult_le_reg_r with (/ (s * s)); [apply Rinv_0_lt_compat; exact Hss|]. unfold Rdiv in H1. lra.
  - exfalso. apply H1. unfold Rdiv. apply Rmult_le_pos; [exact H2|]. left. apply Rinv_0_lt_compat. exact Hss.
Qed.

Lemma sqrt_over_sq (x s : R) : 0 < s -> sqrt (x / (s * s)) = sqrt x / s.
Proof.
  intros Hs. assert (Hss : 0 < s * s) by (apply Rmult_lt_0_compat; exact Hs).
  rewrite sqrt_div_alt by exact Hss. rewrite sqrt_square by lra. reflexivity.
Qed.

(* sqrt(z / s^2) = sqrt(z) / s for real s > 0 — in the vocabulary of Ops *)
Theorem ROps_sqrt_scale (z : Complex.C) (s : R) : 0 < s ->
  csqrt ROps (cdiv ROps z (cmul ROps (RtoC s) (RtoC s))) = cdiv ROps (csqrt ROps z) (RtoC s).
Proof.
  intros Hs. destruct z as [a b]. cbn [csqrt cdiv cmul ROps].
  assert (Hss : 0 < s * s) by (apply Rmult_lt_0_compat; exact Hs).
  assert (Hdiv : Cdiv (a, b) (Cmult (RtoC s) (RtoC s)) = (a / (s * s), b / (s * s))).
  { unfold Cdiv, Cmult, Cinv, RtoC. cbn [fst snd]. f_equal; field; lra. }
  rewrite Hdiv. unfold Csqrt. cbn [fst snd].
  rewrite Cnorm_scale, Rsgn_scale by exact Hs.
  replace ((Cnorm (a, b) / (s * s) + a / (s * s)) / 2) with (((Cnorm (a, b) + a) / 2) / (s * s)) by (field; lra).
  replace ((Cnorm (a, b) / (s * s) - a / (s * s)) / 2) with (((Cnorm (a, b) - a) / 2) / (s * s)) by (field; lra).
  rewrite !sqrt_over_sq by exact Hs.
  unfold Cdiv, Cmult, Cinv, RtoC. cbn [fst snd]. f_equal; field; lra.
Qed.

(* the eigenvalue of the top condition has non-negative real part *)
Theorem ROps_eigval_decays (Kx Ky u v Kz lx ly : Complex.C) :
  0 <= fst (Model.Solver.eigval ROps Kx Ky u v Kz lx ly).
Proof. unfold Model.Solver.eigval. apply Csqrt_re_nonneg. Qed.
