(* Executable instance of Model/NetcdfAsm.v for the correspondence check: every opaque type is Z
   (tower names, time labels and field blocks are integer tokens; doubles are their IEEE bit patterns
   as unsigned 64-bit integers; NaN is the token -1; a never-assigned zero block is the token 0). *)
From Coq Require Import List ZArith Bool.
From BL Require Import Model.NetcdfAsm.
Import ListNotations.
Open Scope Z_scope.

Definition zres := @result Z Z Z Z.
Definition zresults := @results Z Z Z Z Z.
Definition ztower := @tower Z Z.
Definition zdataset := @dataset Z Z Z Z Z.

Definition nanZ : Z := -1.
Definition zeroZ : Z := 0.

Definition asmZ (rs : zresults) (tws : list ztower) : option zdataset :=
  assemble Z.eqb (fun t : Z => t) nanZ zeroZ rs tws.
Definition asmZ_orig (rs : zresults) (tws : list ztower) : option zdataset :=
  assemble_orig Z.eqb (fun t : Z => t) nanZ zeroZ rs tws.

Definition zlen {X : Type} (l : list X) : Z := Z.of_nat (length l).

(* every (tower name, time label) pair selected on the dataset *)
Definition sel_all (d : zdataset) : list (list Z) :=
  flat_map (fun nm => map (fun lab =>
      match sel_block Z.eqb Z.eqb d nm lab with
      | Some (a, b) => [nm; lab; a; b]
      | None => [nm; lab; -999]
      end) (d_time d)) (d_tower d).

Definition sel_meta (d : zdataset) : list (list Z) :=
  map (fun nm => match sel_tower Z.eqb d nm with
                 | Some s => [nm; ts_lat s; ts_lon s; ts_zm s] ++ ts_fp s ++ ts_conc s
                 | None => [nm; -999] end) (d_tower d) ++
  map (fun lab => match sel_time Z.eqb d lab with
                  | Some s => [lab; tm_ustar s; tm_mol s; tm_ws s; tm_wd s] ++ tm_fp s ++ tm_conc s
                  | None => [lab; -999] end) (d_time d).

Definition enc_ds (d : zdataset) : list (list Z) :=
  [ [zlen (d_fp d); zlen (d_conc d); zlen (d_tower d)];
    d_x d; d_y d; match d_z d with Some z => 1 :: z | None => [0] end;
    d_time d; d_tower d; concat (d_fp d); concat (d_conc d);
    d_ustar d; d_mol d; d_ws d; d_wd d; d_lat d; d_lon d; d_zm d ] ++ sel_all d ++ sel_meta d.

Definition enc (o : option zdataset) : option (list (list Z)) := option_map enc_ds o.

Fixpoint nc_lz_eqb (a b : list Z) : bool :=
  match a, b with [], [] => true | x :: a, y :: b => Z.eqb x y && nc_lz_eqb a b | _, _ => false end.
Fixpoint nc_llz_eqb (a b : list (list Z)) : bool :=
  match a, b with [], [] => true | x :: a, y :: b => nc_lz_eqb x y && nc_llz_eqb a b | _, _ => false end.
Definition nc_out_eqb (a b : option (list (list Z))) : bool :=
  match a, b with None, None => true | Some a, Some b => nc_llz_eqb a b | _, _ => false end.

(* index of the first differing row (for diagnostics), -1 when equal, -2 raise/no-raise mismatch *)
Fixpoint first_diff (i : Z) (a b : list (list Z)) : Z :=
  match a, b with
  | [], [] => -1
  | x :: a, y :: b => if nc_lz_eqb x y then first_diff (i + 1) a b else i
  | _, _ => i
  end.
Definition diff_at (a b : option (list (list Z))) : Z :=
  match a, b with None, None => -1 | Some a, Some b => first_diff 0 a b | _, _ => -2 end.

Definition agree (rs : zresults) (tws : list ztower) (expected : option (list (list Z))) : Z :=
  diff_at (enc (asmZ rs tws)) expected.
Definition agree_orig (rs : zresults) (tws : list ztower) (expected : option (list (list Z))) : Z :=
  diff_at (enc (asmZ_orig rs tws)) expected.
