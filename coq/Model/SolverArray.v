(* Statement-by-statement ARRAY model of the plumbing of bldfm.solver.steady_state_transport_solver.

   Model/Solver.v has the plumbing in "frequency-set form".  This file follows the array operations of the
   source one by one:

     q0 = np.pad(q0, ((py, py), (px, px)))            a_pad
     fft2(q0, norm="forward")                          a_fft2 false NormForward   (definitional 2-D DFT)
     fftshift / ifftshift [axes=(1, 2)]                a_shift false / true       (numpy: rolls by n//2, -(n//2))
     fftq0[dly : dly + nly, dlx : dlx + nlx]           a_slice
     np.ones((nly, nlx)) / nxe / nye                   ones_arr
     fftfreq, 2 pi / dx / nxe * ilx, np.meshgrid       lx_arr, ly_arr, mesh_x, mesh_y
     msk (all but [0, 0]), X[msk], tfftp[:, msk] = ..  msk, msk_idx, gather, spec_at (scatter by position in msk)
     tfftp * shift                                     a_mul
     np.pad(tfftp, ((0,0), (dly, nye-nly-dly), ...))   a_pad
     fft2(., norm="backward") / ifft2(., norm="forward"), .real, p[:, py : nye - py, px : nxe - px]

   Arrays are (rank flag, rows, cols, index function level -> row -> column -> C); every operation acts
   plane by plane on the last two axes (the level axis is never padded, shifted or transformed).  The 1-D
   index maps are those of Proofs/Plumbing.v, applied per axis.  The per-mode algebra is NOT duplicated:
   mode_levels_l below is Solver.mode_levels_q with the wavenumbers passed as values (as the code passes
   Lx[msk], Ly[msk]) and delegates to Solver.ivp / eigval / alpha / rho; the mean mode is Solver.mean_levels_q.

   The second half defines a small description language for the plumbing statements (plumb_op, zexp) and
   its interpreter run_ops: harness/py2coq_plumbing.py translates the CURRENT source into such descriptions
   (build/C11/GenPlumbing.v) and coq/Bridge/PlumbingBridge.v proves on every run that they are interpreted to
   exactly the pipelines fwd_pipe / back_pipe used by solve_array, for all arrays and all sizes.

   No proofs here.  Proofs/ArrayRefine.v: solve_array cell = Solver.solve cell. *)
From Coq Require Import ZArith List Bool.
From BL Require Import Base.Ops Model.Solver Proofs.Plumbing.
Import ListNotations.

Inductive fft_norm := NormBackward | NormForward.
Inductive shift_axes := AxesAll | Axes12.
(* the integer variables of the source that index expressions of the plumbing may mention *)
Inductive ivar := Vpy | Vpx | Vnye | Vnxe | Vnly | Vnlx | Vdly | Vdlx.
Inductive zexp :=
| ZV (v : ivar) | ZC (c : Z)
| ZAdd (a b : zexp) | ZSub (a b : zexp) | ZMul (a b : zexp) | ZFloorDiv (a b : zexp).
(* the two phase-shift arrays:  shift = np.exp(1j*(Lx*(xm + px*dx) + ...)),  np.exp(1j*(Lx*(xm - xmx/2) + ...)) *)
Inductive svar := ShiftFp | ShiftCtr.

Inductive plumb_op :=
| OpPad2 (ylo yhi xlo xhi : zexp)                 (* np.pad(x, ((ylo, yhi), (xlo, xhi)), mode="constant", constant_values=0.0) *)
| OpPad3 (llo lhi ylo yhi xlo xhi : zexp)         (* the same on a 3-D array *)
| OpFft2 (inverse : bool) (nrm : fft_norm)        (* fft2 / ifft2 (x, norm=...) : last two axes *)
| OpShift (inv : bool) (ax : shift_axes)          (* fftshift / ifftshift (x) or (x, axes=(1, 2)) *)
| OpSlice2 (ylo yhi xlo xhi : zexp)               (* x[ylo:yhi, xlo:xhi] *)
| OpSlice3 (ylo yhi xlo xhi : zexp)               (* x[:, ylo:yhi, xlo:xhi] *)
| OpReal                                          (* x.real *)
| OpMulShift (s : svar).                          (* x * shift *)

Section SolverArray.
Variable O : Ops.
Notation C := (C O).
Notation "0" := (c0 O) : ops_scope. Notation "1" := (c1 O) : ops_scope.
Infix "+" := (cadd O) : ops_scope. Infix "*" := (cmul O) : ops_scope.
Infix "-" := (csub O) : ops_scope. Infix "/" := (cdiv O) : ops_scope.
Notation "- x" := (copp O x) : ops_scope.
Local Open Scope ops_scope.
Notation ofZ := (cofZ O).
Notation args := (args O).
Notation geom := (geom O).

(* ------------------------------------------------------------------ arrays and their operations *)

Record arr := mkArr { ar_rank3 : bool; ar_rows : Z; ar_cols : Z; ar_at : Z -> Z -> Z -> C }.

(* sum over 0 <= u < n *)
Definition zsum (n : Z) (f : Z -> C) : C := csum O (map (fun u => f (Z.of_nat u)) (seq 0%nat (Z.to_nat n))).

(* 2 pi (v j / rows + u i / cols) *)
Definition dft_phase (rows cols v u j i : Z) : C :=
  twopi O * (ofZ (v * j) / ofZ rows + ofZ (u * i) / ofZ cols).

(* numpy.fft.fft2 / ifft2 by definition; norm="forward" scales the forward transform by 1/(rows*cols),
   norm="backward" the inverse one *)
Definition fft_scale (inverse : bool) (nrm : fft_norm) (rows cols : Z) : C :=
  match inverse, nrm with
  | false, NormForward | true, NormBackward => 1 / ofZ (rows * cols)
  | _, _ => 1
  end.

Definition a_fft2 (inverse : bool) (nrm : fft_norm) (x : arr) : arr :=
  mkArr (ar_rank3 x) (ar_rows x) (ar_cols x) (fun k v u =>
    fft_scale inverse nrm (ar_rows x) (ar_cols x) *
    zsum (ar_rows x) (fun j => zsum (ar_cols x) (fun i =>
      ar_at x k j i * cis O (if inverse then dft_phase (ar_rows x) (ar_cols x) v u j i
                             else - dft_phase (ar_rows x) (ar_cols x) v u j i)))).

(* fftshift (inv = false) / ifftshift (inv = true) over the last two axes *)
Definition a_shift (inv : bool) (x : arr) : arr :=
  mkArr (ar_rank3 x) (ar_rows x) (ar_cols x) (fun k j i =>
    if inv then ifftshift (ar_rows x) (fun j' => ifftshift (ar_cols x) (ar_at x k j') i) j
    else fftshift (ar_rows x) (fun j' => fftshift (ar_cols x) (ar_at x k j') i) j).

Definition a_pad (ylo yhi xlo xhi : Z) (x : arr) : arr :=
  mkArr (ar_rank3 x) (ylo + ar_rows x + yhi)%Z (xlo + ar_cols x + xhi)%Z (fun k j i =>
    pad 0 ylo (ar_rows x) (fun j' => pad 0 xlo (ar_cols x) (ar_at x k j') i) j).

(* x[..., ylo:yhi, xlo:xhi] for 0 <= lo <= hi <= size (Proofs/ArrayRefine.v: slices_in_range) *)
Definition a_slice (ylo yhi xlo xhi : Z) (x : arr) : arr :=
  mkArr (ar_rank3 x) (yhi - ylo)%Z (xhi - xlo)%Z (fun k j i =>
    slice ylo (fun j' => slice xlo (ar_at x k j') i) j).

Definition a_real (x : arr) : arr :=
  mkArr (ar_rank3 x) (ar_rows x) (ar_cols x) (fun k j i => cre O (ar_at x k j i)).

(* x * s with s of shape (rows, cols) broadcast over the levels *)
Definition a_mul (x : arr) (s : Z -> Z -> C) : arr :=
  mkArr (ar_rank3 x) (ar_rows x) (ar_cols x) (fun k j i => ar_at x k j i * s j i).

(* ------------------------------------------------------------------ the pipelines of the source *)

(* dispersion branch:  q0 -> pad -> fft2(norm="forward") -> fftshift -> [dly:dly+nly, dlx:dlx+nlx] -> ifftshift *)
Definition fwd_pipe (py px nye nxe nly nlx : Z) (q : arr) : arr :=
  let dly := start nye nly in let dlx := start nxe nlx in
  a_shift true (a_slice dly (dly + nly) dlx (dlx + nlx)
    (a_shift false (a_fft2 false NormForward (a_pad py py px px q)))).

(* footprint branch:  tfftq0 = np.ones((nly, nlx), dtype=np.complex128) / nxe / nye *)
Definition ones_arr (nye nxe nly nlx : Z) : arr :=
  mkArr false nly nlx (fun _ _ _ => 1 / ofZ nxe / ofZ nye).

(* tfftp -> fftshift(axes=(1,2)) -> pad -> ifftshift(axes=(1,2)) -> fft2(backward) | ifft2(forward) -> .real -> crop *)
Definition back_pipe (fp : bool) (py px nye nxe nly nlx : Z) (t : arr) : arr :=
  let dly := start nye nly in let dlx := start nxe nlx in
  let f := a_shift true (a_pad dly (nye - nly - dly) dlx (nxe - nlx - dlx) (a_shift false t)) in
  let p := a_real (if fp then a_fft2 false NormBackward f else a_fft2 true NormForward f) in
  a_slice py (nye - py) px (nxe - px) p.

(* ------------------------------------------------------------------ wavenumbers, mask, gather / scatter *)

(* ilx = fftfreq(nlx, d=1.0/nlx);  lx = 2.0*np.pi/dx/nxe*ilx *)
Definition lx_arr (g : geom) : Z -> C :=
  fun tx => wavenumber O (g_dx O g) (g_nxe O g) (zfftfreq (Z.of_nat (g_nlx O g)) tx).
Definition ly_arr (g : geom) : Z -> C :=
  fun ty => wavenumber O (g_dy O g) (g_nye O g) (zfftfreq (Z.of_nat (g_nly O g)) ty).
(* Lx, Ly = np.meshgrid(lx, ly)   (default indexing 'xy': shape (len(ly), len(lx))) *)
Definition mesh_x (lx : Z -> C) : Z -> Z -> C := fun ty tx => lx tx.
Definition mesh_y (ly : Z -> C) : Z -> Z -> C := fun ty tx => ly ty.

(* msk = np.ones((nly, nlx), dtype=bool); msk[0, 0] = False.   Index pairs are (tx, ty) as in Solver.modes_of,
   which lists the (nly, nlx) array in C order *)
Definition msk (t : nat * nat) : bool := negb (Nat.eqb (fst t) 0%nat && Nat.eqb (snd t) 0%nat).
Definition msk_idx (g : geom) : list (nat * nat) := filter msk (modes_of O g).
(* X[msk] : the selected entries in C order *)
Definition gather (g : geom) (X : Z -> Z -> C) : list C :=
  map (fun t => X (Z.of_nat (snd t)) (Z.of_nat (fst t))) (msk_idx g).

Fixpoint index_of (t : nat * nat) (l : list (nat * nat)) : option nat :=
  match l with
  | [] => None
  | x :: r => if Nat.eqb (fst x) (fst t) && Nat.eqb (snd x) (snd t) then Some 0%nat
              else match index_of t r with Some m => Some (S m) | None => None end
  end.

(* Solver.mode_levels_q with the wavenumbers as values *)
Definition mode_levels_l (a : args) (g : geom) (lx ly qh : C) : list (C * C) :=
  let pr := a_prof O a in
  let nz := g_nz O g in
  let KzN := topN O (p_Kz O pr) nz in
  let eig := eigval O (topN O (p_Kx O pr) nz) (topN O (p_Ky O pr) nz) (topN O (p_u O pr) nz) (topN O (p_v O pr) nz) KzN lx ly in
  if a_analytic O a then
    let Kzinv := 1 / KzN in
    map (fun l => let h := nth0 O (a_z O a) l - nth0 O (a_z O a) 0%nat in
                  let Q := rho O a (qh * cexp O (- eig * h)) in
                  (rho O a (Q * Kzinv / eig), Q)) (a_levels O a)
  else
    let layers := layers_of O (a_z O a) pr in
    let '(st1, rp1, rq1) := ivp O lx ly layers (a_levels O a) (1, 0) in
    let '(st2, rp2, rq2) := ivp O lx ly layers (a_levels O a) (0, qh) in
    let al := alpha O KzN eig (fst st1) (snd st1) (fst st2) (snd st2) in
    map (fun r => (rho O a (al * fst (fst r) + fst (snd r)), rho O a (al * snd (fst r) + snd (snd r))))
        (combine (combine rp1 rq1) (combine rp2 rq2)).

(* the flattened per-mode computation on (Lx[msk], Ly[msk], tfftq0[msk]): one list of per-level (P, Q) per selected mode *)
Definition modes_flat (a : args) (g : geom) (tq0 : Z -> Z -> C) : list (list (C * C)) :=
  map (fun m => mode_levels_l a g (fst (fst m)) (snd (fst m)) (snd m))
      (combine (combine (gather g (mesh_x (lx_arr g))) (gather g (mesh_y (ly_arr g)))) (gather g tq0)).

(* tfftp / tfftq after  tfft?[:, msk] = <per-mode result>  and the mean-mode assignments to [.., 0, 0]:
   entry (ty, tx) selected by msk receives the column of its position in msk's C order *)
Definition spec_at (a : args) (g : geom) (tq0 : Z -> Z -> C) (sel : C * C -> C) : Z -> Z -> Z -> C :=
  fun k ty tx =>
    match index_of (Z.to_nat tx, Z.to_nat ty) (msk_idx g) with
    | Some m => sel (nth (Z.to_nat k) (nth m (modes_flat a g tq0) []) (0, 0))
    | None => sel (nth (Z.to_nat k) (mean_levels_q O a g (tq0 0%Z 0%Z) (a_p000 O a)) (0, 0))
    end.

(* shift = np.exp(1j * (Lx*(xm + px*dx) + Ly*(ym + py*dy)))   /   np.exp(1j * (Lx*(xm - xmx/2) + Ly*(ym - ymx/2))) *)
Definition shift_fp_arr (a : args) (g : geom) : Z -> Z -> C :=
  fun ty tx => cis O (shift_arg_fp O (mesh_x (lx_arr g) ty tx) (mesh_y (ly_arr g) ty tx)
                                   (a_xm O a) (a_ym O a) (g_dx O g) (g_dy O g) (g_px O g) (g_py O g)).
Definition shift_ctr_arr (a : args) (g : geom) : Z -> Z -> C :=
  fun ty tx => cis O (shift_arg_ctr O (mesh_x (lx_arr g) ty tx) (mesh_y (ly_arr g) ty tx)
                                    (a_xm O a) (a_ym O a) (a_xmx O a) (a_ymx O a)).
Definition shift_env (a : args) (g : geom) (s : svar) : Z -> Z -> C :=
  match s with ShiftFp => shift_fp_arr a g | ShiftCtr => shift_ctr_arr a g end.

(* if footprint: t * shift   elif xm**2 + ym**2 > 0.0: t * shift   (else: untouched) *)
Definition apply_shift (a : args) (g : geom) (t : arr) : arr :=
  if a_footprint O a then a_mul t (shift_fp_arr a g)
  else if cltb O 0 (a_xm O a * a_xm O a + a_ym O a * a_ym O a) then a_mul t (shift_ctr_arr a g)
  else t.

(* ------------------------------------------------------------------ the solver, array form *)

Definition src_arr (a : args) (g : geom) : arr :=
  mkArr false (Z.of_nat (g_ny O g)) (Z.of_nat (g_nx O g))
        (fun _ j i => nth (Z.to_nat i) (nth (Z.to_nat j) (a_q0 O a) []) 0).

Definition zpy (g : geom) := Z.of_nat (g_py O g).
Definition zpx (g : geom) := Z.of_nat (g_px O g).
Definition znye (g : geom) := Z.of_nat (g_nye O g).
Definition znxe (g : geom) := Z.of_nat (g_nxe O g).
Definition znly (g : geom) := Z.of_nat (g_nly O g).
Definition znlx (g : geom) := Z.of_nat (g_nlx O g).

(* tfftq0 *)
Definition tq0_arr (a : args) (g : geom) : arr :=
  if a_footprint O a then ones_arr (znye g) (znxe g) (znly g) (znlx g)
  else fwd_pipe (zpy g) (zpx g) (znye g) (znxe g) (znly g) (znlx g) (src_arr a g).

(* tfftp (sel = fst) / tfftq (sel = snd) before the shift *)
Definition spec_arr (a : args) (g : geom) (sel : C * C -> C) : arr :=
  mkArr true (znly g) (znlx g) (spec_at a g (ar_at (tq0_arr a g) 0%Z) sel).

(* conc (sel = fst) / flx (sel = snd) *)
Definition field_arr (a : args) (g : geom) (sel : C * C -> C) : arr :=
  back_pipe (a_footprint O a) (zpy g) (zpx g) (znye g) (znxe g) (znly g) (znlx g)
            (apply_shift a g (spec_arr a g sel)).

Definition solve_array (a : args) : (arr * arr) + error :=
  match geometry O a with
  | inr e => inr e
  | inl g => inl (field_arr a g fst, field_arr a g snd)
  end.

(* ------------------------------------------------------------------ description language of the plumbing *)

Definition ienv := ivar -> Z.

Fixpoint zeval (e : ienv) (x : zexp) : Z :=
  match x with
  | ZV v => e v
  | ZC c => c
  | ZAdd a b => (zeval e a + zeval e b)%Z
  | ZSub a b => (zeval e a - zeval e b)%Z
  | ZMul a b => (zeval e a * zeval e b)%Z
  | ZFloorDiv a b => (zeval e a / zeval e b)%Z
  end.

(* one statement; None = the statement is not one the model describes for an array of this rank
   (a 2-D pad on a 3-D array, a padded level axis, fftshift over the level axis, ...) *)
Definition run_op (e : ienv) (se : svar -> Z -> Z -> C) (op : plumb_op) (x : arr) : option arr :=
  match op with
  | OpPad2 a b c d =>
      if ar_rank3 x then None else Some (a_pad (zeval e a) (zeval e b) (zeval e c) (zeval e d) x)
  | OpPad3 l0 l1 a b c d =>
      if ar_rank3 x && Z.eqb (zeval e l0) 0 && Z.eqb (zeval e l1) 0
      then Some (a_pad (zeval e a) (zeval e b) (zeval e c) (zeval e d) x) else None
  | OpFft2 inv nrm => Some (a_fft2 inv nrm x)
  | OpShift inv AxesAll => if ar_rank3 x then None else Some (a_shift inv x)
  | OpShift inv Axes12 => if ar_rank3 x then Some (a_shift inv x) else None
  | OpSlice2 a b c d =>
      if ar_rank3 x then None else Some (a_slice (zeval e a) (zeval e b) (zeval e c) (zeval e d) x)
  | OpSlice3 a b c d =>
      if ar_rank3 x then Some (a_slice (zeval e a) (zeval e b) (zeval e c) (zeval e d) x) else None
  | OpReal => Some (a_real x)
  | OpMulShift s => Some (a_mul x (se s))
  end.

Fixpoint run_ops (e : ienv) (se : svar -> Z -> Z -> C) (ops : list plumb_op) (x : arr) : option arr :=
  match ops with
  | [] => Some x
  | op :: r => match run_op e se op x with Some y => run_ops e se r y | None => None end
  end.

(* the integer variables as the source binds them (nxe, nye, dlx, dly: Bridge/PlumbBridge.v) *)
Definition mk_env (py px nye nxe nly nlx : Z) : ienv :=
  fun v => match v with
           | Vpy => py | Vpx => px | Vnye => nye | Vnxe => nxe | Vnly => nly | Vnlx => nlx
           | Vdly => start nye nly | Vdlx => start nxe nlx
           end.

(* np.ones(shape, dtype=np.complex128) / d1 / d2 ... *)
Definition run_ones (e : ienv) (shape : zexp * zexp) (divs : list zexp) : arr :=
  mkArr false (zeval e (fst shape)) (zeval e (snd shape))
        (fun _ _ _ => fold_left (fun acc d => acc / ofZ (zeval e d)) divs 1).

(* which multiplication by `shift` the source performs in each branch *)
Definition shift_ops (fp recentre : bool) : list plumb_op :=
  if fp then [OpMulShift ShiftFp] else if recentre then [OpMulShift ShiftCtr] else [].

End SolverArray.
