(* Model of bldfm.config_parser.MetConfig: n_timesteps, get_step, validate.
   Values are opaque tokens of a type A (timestamps of a type T); the code only moves them around. *)
From Coq Require Import List Arith Bool.
Import ListNotations.

Section Met.
Context {A T : Type}.

Inductive fld := Scalar (a : A) | Lst (l : list A).

Record met := mkMet {
  m_ustar : option fld;        (* None = not given *)
  m_mol : fld;
  m_wind_speed : fld;
  m_wind_dir : fld;
  m_z0 : option A;
  m_timestamps : option (list T)
}.

Definition fld_len (f : fld) : option nat :=
  match f with Scalar _ => None | Lst l => Some (length l) end.

Definition ofld_len (f : option fld) : option nat :=
  match f with None => None | Some f => fld_len f end.

(* lengths of the list-valued fields among the four, in the order ustar, mol, wind_speed, wind_dir *)
Definition list_lengths (m : met) : list nat :=
  let add o acc := match o with Some n => n :: acc | None => acc end in
  add (ofld_len (m_ustar m)) (add (fld_len (m_mol m)) (add (fld_len (m_wind_speed m))
      (add (fld_len (m_wind_dir m)) []))).

(* n_timesteps: the length of the first list-valued field, else 1 *)
Definition n_timesteps (m : met) : nat :=
  match list_lengths m with n :: _ => n | [] => 1 end.

Definition all_eq (n : nat) (l : list nat) : bool := forallb (Nat.eqb n) l.

(* validate: true = accepted.  The number of steps the lists (or, with none, the scalars) define
   is n; a timestamps list must have exactly that length. *)
Definition validate (m : met) : bool :=
  match m_ustar m, m_z0 m with
  | None, None => false
  | _, _ =>
    let ok_ts n := match m_timestamps m with None => true | Some ts => Nat.eqb (length ts) n end in
    match list_lengths m with
    | [] => ok_ts 1
    | n :: rest => all_eq n rest && ok_ts n
    end
  end.

Inductive stamp := Stamp (t : T) | Index (i : nat).

Record step := mkStep {
  s_ustar : option A; s_mol : A; s_wind_speed : A; s_wind_dir : A;
  s_z0 : option A; s_stamp : stamp }.

(* _get(val, idx): Python raises IndexError when idx is out of range -> None here *)
Definition get (f : fld) (i : nat) : option A :=
  match f with Scalar a => Some a | Lst l => nth_error l i end.

Definition get_step (m : met) (i : nat) : option step :=
  let ou := match m_ustar m with None => Some None
            | Some f => match get f i with Some a => Some (Some a) | None => None end end in
  match ou, get (m_mol m) i, get (m_wind_speed m) i, get (m_wind_dir m) i with
  | Some u, Some mo, Some ws, Some wd =>
    match m_timestamps m with
    | None => Some (mkStep u mo ws wd (m_z0 m) (Index i))
    | Some ts => match nth_error ts i with
                 | Some t => Some (mkStep u mo ws wd (m_z0 m) (Stamp t))
                 | None => None end
    end
  | _, _, _, _ => None
  end.

(* what a driver sees: the configuration is rejected, or it runs range(n_timesteps) *)
Definition series (m : met) : option (list (option step)) :=
  if validate m then Some (map (get_step m) (seq 0 (n_timesteps m))) else None.

End Met.
Arguments fld : clear implicits.
Arguments met : clear implicits.
Arguments step : clear implicits.
Arguments stamp : clear implicits.
