(* Model of the source-area BASE FUNCTIONS of bldfm/utils.py over Coq's reals, one grid cell at a time
   (numpy evaluates the expressions elementwise on the broadcast coordinate arrays; the harness checks shape and
   every element).  NO proofs here.

     def source_area_contribution(flx):            return flx.copy()
     def source_area_circular(X, Y, meas_pt):      xm, ym = meas_pt
                                                   return -((X - xm) ** 2 + (Y - ym) ** 2)
     def source_area_upwind(X, Y, meas_pt, wind):  xm, ym = meas_pt;  u, v = wind
                                                   speed = np.sqrt(u**2 + v**2)
                                                   u_hat, v_hat = u / speed, v / speed
                                                   return u_hat * (X - xm) + v_hat * (Y - ym)
     def source_area_crosswind(X, Y, meas_pt, wind): ... same preamble ...
                                                   return -((-v_hat * (X - xm) + u_hat * (Y - ym)) ** 2)
     def source_area_sector(X, Y, meas_pt, wind):  xm, ym = meas_pt;  u, v = wind
                                                   theta = np.arctan2(Y - ym, X - xm)
                                                   theta_upwind = np.arctan2(-v, -u)
                                                   theta_rel = theta - theta_upwind
                                                   theta_rel = np.arctan2(np.sin(theta_rel), np.cos(theta_rel))
                                                   return -np.abs(theta_rel)

   `atan2` is the definition of Model/KM.v (numpy's principal value in (-pi, pi], arctan2(0,0) = 0), the one the
   slice translator maps `np.arctan2` to.

   Degenerate inputs.  wind = (0,0): Python divides by speed = 0.0 (numpy scalar division: nan, RuntimeWarning), so
   upwind/crosswind are NaN everywhere; in Coq x / 0 = x * / 0 is an unspecified real, so every theorem about
   sa_upwind / sa_crosswind assumes 0 < u*u + v*v.  cell = tower in the sector function: numpy's arctan2(+0,+0)
   is 0, as is the model's atan2 0 0, so the value is -|theta_upwind| (SourceAreaBaseProofs.sector_at_tower).
   Signed zeros (arctan2(-0.0, negative) = -pi where the real function gives +pi) change theta_upwind by 2 pi,
   which the re-wrapping through sin/cos removes: the returned value is the same up to rounding. *)
From Coq Require Import Reals.
From BL Require Import Model.KM.
Open Scope R_scope.

(* ---------------------------------------------------------------------------------------------- *)
(* the code *)

Definition sa_contribution (flx : R) : R := flx.

Definition sa_circular (x y xm ym : R) : R :=
  - ((x - xm) * (x - xm) + (y - ym) * (y - ym)).

Definition sa_speed (u v : R) : R := sqrt (u * u + v * v).

Definition sa_upwind (x y xm ym u v : R) : R :=
  u / sa_speed u v * (x - xm) + v / sa_speed u v * (y - ym).

Definition sa_crosswind (x y xm ym u v : R) : R :=
  - ((- (v / sa_speed u v) * (x - xm) + u / sa_speed u v * (y - ym))
     * (- (v / sa_speed u v) * (x - xm) + u / sa_speed u v * (y - ym))).

Definition sa_theta_rel (x y xm ym u v : R) : R :=
  atan2 (y - ym) (x - xm) - atan2 (- v) (- u).

Definition sa_sector (x y xm ym u v : R) : R :=
  - Rabs (atan2 (sin (sa_theta_rel x y xm ym u v)) (cos (sa_theta_rel x y xm ym u v))).

(* ---------------------------------------------------------------------------------------------- *)
(* yardsticks of the theorems (geometry; not code) *)

(* squared and plain Euclidean distance between two points *)
Definition dist2 (x y a b : R) : R := (x - a) * (x - a) + (y - b) * (y - b).
Definition dist (x y a b : R) : R := sqrt (dist2 x y a b).

(* signed coordinate of the cell along the wind vector (u, v), origin at the tower *)
Definition along (x y xm ym u v : R) : R := ((x - xm) * u + (y - ym) * v) / sa_speed u v.

(* foot of the perpendicular from the cell onto the wind axis {tower + t (u, v)} *)
Definition foot_x (x y xm ym u v : R) : R := xm + along x y xm ym u v * (u / sa_speed u v).
Definition foot_y (x y xm ym u v : R) : R := ym + along x y xm ym u v * (v / sa_speed u v).

(* mirror image of the cell in the wind axis *)
Definition mirror_x (x y xm ym u v : R) : R := 2 * foot_x x y xm ym u v - x.
Definition mirror_y (x y xm ym u v : R) : R := 2 * foot_y x y xm ym u v - y.

(* the cell turned about the tower by the angle a *)
Definition turn_x (a x y xm ym : R) : R := xm + cos a * (x - xm) - sin a * (y - ym).
Definition turn_y (a x y xm ym : R) : R := ym + sin a * (x - xm) + cos a * (y - ym).

(* scalar and cross product of the UPWIND direction -(u, v) with the displacement cell - tower *)
Definition up_dot (x y xm ym u v : R) : R := (x - xm) * (- u) + (y - ym) * (- v).
Definition up_cross (x y xm ym u v : R) : R := (y - ym) * (- u) - (x - xm) * (- v).

(* cosine of the angle between cell - tower and the upwind direction *)
Definition up_cosangle (x y xm ym u v : R) : R :=
  up_dot x y xm ym u v / (dist x y xm ym * sa_speed u v).

(* the cell lies on the open ray from the tower into the upwind direction *)
Definition on_upwind_ray (x y xm ym u v : R) : Prop :=
  exists t : R, 0 < t /\ x - xm = t * (- u) /\ y - ym = t * (- v).
