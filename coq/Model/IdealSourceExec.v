(* Executable twin of the INDICATOR shapes of Model/IdealSource.v over the rationals, used by the correspondence of C13
   (the implementation's 0/1 pattern on inputs whose float evaluation is exactly decidable against the model's).
   NO proofs here: Proofs/IdealSourceExecProofs.v proves  ideal_source_cell (reals) = 1 or 0 according to
   q_source_cell (rationals)  for every shape string other than "point", every size and every rational argument.
   The Gaussian shape is compared through interval-certified goals on the real model directly. *)
From Coq Require Import QArith String List Bool ZArith.
Import ListNotations.
Open Scope Q_scope.

Definition qabs (q : Q) : Q := if Qle_bool 0 q then q else - q.
Definition qltb (a b : Q) : bool := negb (Qle_bool b a).

Definition q_linspace (start stop : Q) (num i : nat) : Q :=
  match num with
  | O => start
  | S O => start
  | _ => inject_Z (Z.of_nat i) * ((stop - start) / (inject_Z (Z.of_nat num) - 1)) + start
  end.

Definition q_loc (xmx ymx : Q) (src_loc : option (Q * Q)) : Q * Q :=
  match src_loc with
  | None => (xmx / 2, ymx / 2)
  | Some p => p
  end.

Definition q_diamond (xmx xs ys X Y : Q) : bool :=
  qltb (qabs (X - xs) + qabs (Y - ys)) (xmx / 12).

(* sqrt s < r  <->  0 < r and s < r^2   (s >= 0) *)
Definition q_circle (xmx xs ys X Y : Q) : bool :=
  qltb 0 (xmx / 12) && qltb ((X - xs) * (X - xs) + (Y - ys) * (Y - ys)) ((xmx / 12) * (xmx / 12)).

Definition q_indicator (shape : string) (xmx xs ys X Y : Q) : bool :=
  let q0 := false in
  let q0 := if String.eqb shape "diamond" then q_diamond xmx xs ys X Y else q0 in
  let q0 := if String.eqb shape "circle" then q_circle xmx xs ys X Y else q0 in
  q0.

Definition q_source_cell (shape : string) (nx ny : nat) (xmx ymx : Q) (src_loc : option (Q * Q)) (j i : nat) : bool :=
  q_indicator shape xmx (fst (q_loc xmx ymx src_loc)) (snd (q_loc xmx ymx src_loc))
    (q_linspace 0 xmx nx i) (q_linspace 0 ymx ny j).

Definition q_source (shape : string) (nx ny : nat) (xmx ymx : Q) (src_loc : option (Q * Q)) : list (list bool) :=
  map (fun j => map (fun i => q_source_cell shape nx ny xmx ymx src_loc j i) (seq 0 nx)) (seq 0 ny).

(* observed pattern: rows of 0 / 1 / anything else = "not compared" (a cell whose float evaluation is a rounding
   toss-up against the exact comparison; the harness counts them) *)
Definition agree_cell (b : bool) (z : Z) : bool :=
  match z with
  | 0%Z => negb b
  | 1%Z => b
  | _ => true
  end.

Fixpoint bad_in_row (j : Z) (i : Z) (m : list bool) (o : list Z) : list (Z * Z) :=
  match m, o with
  | [], [] => []
  | b :: m', z :: o' => (if agree_cell b z then [] else [(j, i)]) ++ bad_in_row j (i + 1)%Z m' o'
  | _, _ => [(j, (-1)%Z)]
  end.

Fixpoint bad_in_rows (j : Z) (m : list (list bool)) (o : list (list Z)) : list (Z * Z) :=
  match m, o with
  | [], [] => []
  | r :: m', s :: o' => bad_in_row j 0%Z r s ++ bad_in_rows (j + 1)%Z m' o'
  | _, _ => [((-1)%Z, (-1)%Z)]
  end.

(* the (row, column) pairs on which the implementation's pattern differs from the model's; (-1,-1) / (j,-1): the shapes differ *)
Definition ideal_disagreements (shape : string) (nx ny : nat) (xmx ymx : Q) (src_loc : option (Q * Q))
    (obs : list (list Z)) : list (Z * Z) :=
  bad_in_rows 0%Z (q_source shape nx ny xmx ymx src_loc) obs.
