(* Executable encodings of Model/Interface.v outcomes for the correspondence check.
   plumb: all token types are Z.  parse: tokens are symbolic terms `tm` over Z (the free interpretation of
   float(), latlon_to_xy and the literal defaults), so the parser model is evaluated without choosing them. *)
From Coq Require Import List ZArith Bool String.
From BL Require Import Model.Met Model.MetExec Model.Interface.
Import ListNotations.
Open Scope Z_scope.

Definition eo (o : option Z) : Z := match o with Some a => a | None => -1 end.
Definition eb (b : bool) : Z := if b then 1 else 0.
Definition elist (l : list Z) : list Z := Z.of_nat (List.length l) :: l.
Definition eolist (o : option (list Z)) : list Z := match o with None => [-1] | Some l => elist l end.

Definition enc_wind (w : wind_call Z) : list Z := [w_speed w; w_dir w].
Definition enc_wout (o : wind_out Z) : list Z :=
  match o with WindU c => -101 :: enc_wind c | WindV c => -102 :: enc_wind c end.
Definition enc_prof (p : prof_call Z) : list Z :=
  [Z.of_nat (pc_n p); pc_meas_height p] ++ enc_wout (fst (pc_wind p)) ++ enc_wout (snd (pc_wind p))
  ++ [eo (pc_ustar p); eo (pc_z0 p); pc_mol p; pc_closure p].
Definition enc_source (s : source Z Z) : list Z :=
  match s with
  | Supplied f => [-201; f]
  | Ideal nxy dom sl sh => [-202; fst nxy; snd nxy; fst dom; snd dom] ++ eolist sl ++ [sh]
  end.
Definition enc_levels (l : levels) : list Z :=
  match l with
  | LvList l => -301 :: elist (map Z.of_nat l)
  | LvScalar n => [-302; Z.of_nat n]
  end.
Definition enc_solver (s : solver_call Z Z Z) : list Z :=
  enc_source (sc_srf_flx s) ++ enc_prof (sc_zprof s) ++ [fst (sc_domain s); snd (sc_domain s)]
  ++ enc_levels (sc_levels s) ++ elist (sc_modes s)
  ++ [fst (sc_meas_pt s); snd (sc_meas_pt s); eb (sc_footprint s); eb (sc_analytic s); eo (sc_halo s);
      sc_precision s; eo (sc_cache s)].
Definition enc_stamp (s : stamp Z) : list Z :=
  match s with Stamp t => [-401; t] | Index i => [-402; Z.of_nat i] end.
Definition enc_params (s : step Z Z) : list Z :=
  [eo (s_ustar s); s_mol s; s_wind_speed s; s_wind_dir s; eo (s_z0 s)] ++ enc_stamp (s_stamp s).
Definition enc_labels (l : labels Z Z) : list Z :=
  [l_tower_name l; fst (l_tower_xy l); snd (l_tower_xy l)] ++ enc_stamp (l_timestamp l)
  ++ enc_params (l_params l).
Definition enc_calls (o : option (call_record Z Z Z Z)) : list Z :=
  match o with
  | None => [-999]
  | Some cr => enc_wind (cr_wind cr) ++ enc_prof (cr_prof cr) ++ enc_source (cr_source cr)
               ++ enc_solver (cr_solver cr) ++ enc_labels (cr_labels cr)
  end.

Definition agree_plumb (cfg : config Z Z) (tw : tower Z) (i : nat) (flux cache : option Z)
    (expected : list Z) : bool :=
  lz_eqb (enc_calls (plumb_c cfg tw i flux cache)) expected.

(* ---- parser ---- *)
Inductive tm := Tk (z : Z) | TFloat (t : tm) | TGeoX (a b c d : tm) | TGeoY (a b c d : tm).

Fixpoint enc_tm (t : tm) : list Z :=
  match t with
  | Tk z => [0; z]
  | TFloat t => 1 :: enc_tm t
  | TGeoX a b c d => 2 :: enc_tm a ++ enc_tm b ++ enc_tm c ++ enc_tm d
  | TGeoY a b c d => 3 :: enc_tm a ++ enc_tm b ++ enc_tm c ++ enc_tm d
  end.
Definition enc_otm (o : option tm) : list Z := match o with None => [-1] | Some t => enc_tm t end.
Definition enc_tms (l : list tm) : list Z := Z.of_nat (List.length l) :: flat_map enc_tm l.
Definition enc_otms (o : option (list tm)) : list Z := match o with None => [-1] | Some l => enc_tms l end.
Definition enc_fld (f : fld tm) : list Z :=
  match f with Scalar a => -501 :: enc_tm a | Lst l => -502 :: enc_tms l end.
Definition enc_ofld (o : option (fld tm)) : list Z := match o with None => [-1] | Some f => enc_fld f end.
Definition enc_onats (o : option (list nat)) : list Z :=
  match o with None => [-1] | Some l => elist (map Z.of_nat l) end.

Definition enc_tower (t : tower tm) : list Z :=
  enc_tm (t_name t) ++ enc_tm (t_lat t) ++ enc_tm (t_lon t) ++ enc_tm (t_zm t) ++ enc_tm (t_x t) ++ enc_tm (t_y t).
Definition enc_domain (d : domain tm) : list Z :=
  enc_tm (d_nx d) ++ enc_tm (d_ny d) ++ enc_tm (d_xmax d) ++ enc_tm (d_ymax d) ++ [Z.of_nat (d_nz d)]
  ++ enc_tms (d_modes d) ++ enc_otm (d_halo d) ++ enc_otm (d_ref_lat d) ++ enc_otm (d_ref_lon d)
  ++ enc_onats (d_output_levels d) ++ [eb (d_full_output d)].
Definition enc_met (m : met tm tm) : list Z :=
  enc_ofld (m_ustar m) ++ enc_fld (m_mol m) ++ enc_fld (m_wind_speed m) ++ enc_fld (m_wind_dir m)
  ++ enc_otm (m_z0 m) ++ enc_otms (m_timestamps m).
Definition enc_solvercfg (s : solvercfg tm) : list Z :=
  enc_tm (sv_closure s) ++ enc_tm (sv_precision s) ++ [eb (sv_footprint s)] ++ enc_tm (sv_shape s)
  ++ [eb (sv_analytic s)] ++ enc_otms (sv_src_loc s).
Definition enc_config (c : config tm tm) : list Z :=
  enc_domain (c_domain c) ++ (Z.of_nat (List.length (c_towers c)) :: flat_map enc_tower (c_towers c))
  ++ enc_met (c_met c) ++ enc_solvercfg (c_solver c)
  ++ enc_tm (o_format (c_output c)) ++ enc_tm (o_directory (c_output c))
  ++ enc_tm (pl_num_threads (c_parallel c)) ++ enc_tm (pl_max_workers (c_parallel c))
  ++ [eb (pl_use_cache (c_parallel c))].
Definition enc_outcome (o : outcome (config tm tm)) : list Z :=
  match o with Parsed c => 1 :: enc_config c | Raises => [-2] | IllShaped => [-3] end.

(* the defaults record D and the zero token are supplied per run by the harness, which reads the literal defaults
   off the implementation and gives them tokens *)
Definition parse_tm (D : defaults tm) (zero : tm) (r : raw tm) : outcome (config tm tm) :=
  parse D TFloat TGeoX TGeoY zero r.

Definition agree_parse (D : defaults tm) (zero : tm) (r : raw tm) (expected : list Z) : bool :=
  lz_eqb (enc_outcome (parse_tm D zero r)) expected.
