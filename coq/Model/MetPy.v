(* MetPy — the fragment of Python that bldfm.config_parser.MetConfig.{n_timesteps, get_step, validate}
   is written in, as a deep embedding (syntax `expr`/`stmt`/`fundef`, generated from the CURRENT source by
   harness/py2coq_met.py into Gen/GenMet.v) with a total, executable, big-step interpreter, and the
   embedding of a `Met.met` record as the Python object `self`.

   What the interpreter stands for (and what the translator enforces syntactically, fail closed):
   * values: None, bool, non-negative int, str, opaque scalars (`VAtom`, a forcing value; `VStamp`, one
     timestamp), the list-valued fields as they came from the configuration (`VListA`, `VListT`: arbitrary
     length, opaque entries), tuples built by the code, dicts with string keys (insertion-ordered), sets of ints;
   * containers built by the code have VALUE semantics here; this is faithful because the translator rejects
     every program in which a container that is mutated (`x[k] = v`, `x.pop()`) could be reached through a second
     name (mutated names are bound only by a dict display / `set(...)`, and are used bare only as receiver,
     `len` argument, truth test or `return` value);
   * there is no arithmetic, so ints stay non-negative (lengths, the step index, literals);
   * `set.pop()` is defined on singletons (returns the element) and on the empty set (KeyError); on larger sets
     the element Python would return is unspecified and the interpreter answers `Unsupported`;
   * anything the fragment has no meaning for (truth value or `len` of an opaque scalar, unknown attribute,
     comparison of non-ints, ...) is the outcome `Err Unsupported`/`TypeError`/`NameError`/`AttributeError`,
     none of which is in the image of the encoders below — a bridge lemma cannot hold for such a program.
   No proofs in this file. *)
From Coq Require Import List String Arith Bool.
From BL Require Import Model.Met.
Import ListNotations.
Open Scope string_scope.
Open Scope list_scope.

Inductive exn := ValueError | IndexError | KeyError | TypeError | NameError | AttributeError | Unsupported.

Inductive res (X : Type) := Ok (x : X) | Err (e : exn).
Arguments Ok {X} x.
Arguments Err {X} e.

(* ---------------------------------------------------------------- syntax *)

Inductive cmpop := CEq | CNe | CLt | CLe | CGt | CGe.

Inductive expr :=
| ENone
| EInt (n : nat)
| EStr (s : string)
| EVar (x : string)                       (* a local name *)
| ESelf (f : string)                      (* self.f *)
| EGetattr (e : expr)                     (* getattr(self, e) *)
| EIsList (e : expr)                      (* isinstance(e, list) *)
| ELen (e : expr)                         (* len(e) *)
| EIndex (e i : expr)                     (* e[i] *)
| EIsNone (e : expr)                      (* e is None *)
| EIsNotNone (e : expr)                   (* e is not None *)
| ECmp (op : cmpop) (a b : expr)          (* a op b, ints *)
| EAnd (a b : expr)                       (* a and b (short-circuit, yields an operand) *)
| EOr (a b : expr)
| ENot (e : expr)
| EIfExp (c a b : expr)                   (* a if c else b *)
| ETuple (es : list expr)                 (* (e1, ..., en) *)
| EDict (kvs : list (string * expr))      (* {"k1": e1, ...} *)
| ECall (f : string) (args : list expr)   (* call of a function defined by a local `def` *)
| ESet (e : expr)                         (* set(e) *)
| EValues (e : expr)                      (* e.values() *)
| EPop (x : string).                      (* x.pop() on a local set *)

Inductive stmt :=
| SAssign (x : string) (e : expr)         (* x = e *)
| SSetItem (x : string) (k v : expr)      (* x[k] = v, x a local dict *)
| SIf (c : expr) (th el : list stmt)
| SFor (x : string) (it : expr) (body : list stmt)
| SReturn (e : expr)
| SRaise (ex : exn)                       (* raise Ex(<message, not evaluated>) *)
| SDef (f : string) (ps : list string) (body : list stmt).

Record fundef := mkFun { f_params : list string; f_body : list stmt }.

(* default of a dataclass field, as far as the model distinguishes it *)
Inductive dflt := DNone | DScalar | DRequired.

(* ---------------------------------------------------------------- values *)

Section Sem.
Context {A T : Type}.

Inductive value :=
| VNone
| VBool (b : bool)
| VInt (n : nat)
| VStr (s : string)
| VAtom (a : A)
| VStamp (t : T)
| VListA (l : list A)
| VListT (l : list T)
| VTuple (l : list value)
| VDict (d : list (string * value))
| VSet (s : list nat).

Definition env := list (string * value).

(* The interpreter is written in continuation-passing style with final answer type `res value` (the outcome of
   the method call): `eval fe e en k` evaluates e in the local environment en and hands value and (possibly
   updated) environment to k; `exec fe kret s en k` runs a statement, `kret` receives the value of a `return`,
   k the environment after normal completion.  (CPS rather than a state-and-error monad for one reason: on
   symbolic inputs — lists of unknown length, an unknown index — normalisation then yields a small decision tree
   over the stuck observations `nth_error l i`, `length l =? length l'` with fully evaluated leaves.) *)
Definition answer := res value.
Definition fun_t := list value -> (value -> answer) -> answer.
Definition fenv := list (string * fun_t).

Fixpoint lookup {X} (k : string) (l : list (string * X)) : option X :=
  match l with [] => None | (k', v) :: l => if String.eqb k k' then Some v else lookup k l end.

(* update in place when the key exists, else append: Python's dict order *)
Fixpoint upd {X} (k : string) (v : X) (l : list (string * X)) : list (string * X) :=
  match l with
  | [] => [(k, v)]
  | (k', v') :: l => if String.eqb k k' then (k, v) :: l else (k', v') :: upd k v l
  end.

(* size of a container the code built (kept apart from List.length, which is only applied to field lists) *)
Fixpoint count {X} (l : list X) : nat := match l with [] => 0 | _ :: l => S (count l) end.

Definition nonempty {X} (l : list X) : bool := match l with [] => false | _ => true end.

(* sets of ints: duplicate-free lists in insertion order *)
Fixpoint set_mem (n : nat) (s : list nat) (k : bool -> answer) : answer :=
  match s with [] => k false | x :: s => if Nat.eqb n x then k true else set_mem n s k end.

Definition set_add (n : nat) (s : list nat) (k : list nat -> answer) : answer :=
  set_mem n s (fun b => if b then k s else k (s ++ [n])).

Fixpoint set_of (ns acc : list nat) (k : list nat -> answer) : answer :=
  match ns with [] => k acc | n :: ns => set_add n acc (fun acc' => set_of ns acc' k) end.

Fixpoint ints_of (vs : list value) : option (list nat) :=
  match vs with
  | [] => Some []
  | VInt n :: vs => match ints_of vs with Some ns => Some (n :: ns) | None => None end
  | _ => None
  end.

Definition truthy (v : value) (k : bool -> answer) : answer :=
  match v with
  | VNone => k false
  | VBool b => k b
  | VInt n => k (negb (Nat.eqb n 0))
  | VStr s => k (negb (String.eqb s ""))
  | VListA l => k (nonempty l)
  | VListT l => k (nonempty l)
  | VTuple l => k (nonempty l)
  | VDict d => k (nonempty d)
  | VSet s => k (nonempty s)
  | VAtom _ | VStamp _ => Err Unsupported
  end.

(* isinstance(v, list): the list-valued configuration fields; the code itself builds tuples, dicts, sets only *)
Definition is_list (v : value) : bool :=
  match v with VListA _ | VListT _ => true | _ => false end.

Definition py_len (v : value) (k : value -> answer) : answer :=
  match v with
  | VListA l => k (VInt (List.length l))
  | VListT l => k (VInt (List.length l))
  | VTuple l => k (VInt (count l))
  | VDict d => k (VInt (count d))
  | VSet s => k (VInt (count s))
  | VStr _ | VAtom _ | VStamp _ => Err Unsupported
  | VNone | VBool _ | VInt _ => Err TypeError
  end.

Definition py_index (v i : value) (k : value -> answer) : answer :=
  match v, i with
  | VListA l, VInt n => match nth_error l n with Some a => k (VAtom a) | None => Err IndexError end
  | VListT l, VInt n => match nth_error l n with Some t => k (VStamp t) | None => Err IndexError end
  | VTuple l, VInt n => match nth_error l n with Some x => k x | None => Err IndexError end
  | VDict d, VStr key => match lookup key d with Some x => k x | None => Err KeyError end
  | (VNone | VBool _ | VInt _), _ => Err TypeError
  | _, _ => Err Unsupported
  end.

Definition py_cmp (op : cmpop) (a b : value) (k : value -> answer) : answer :=
  match a, b with
  | VInt x, VInt y =>
    k (VBool match op with
             | CEq => Nat.eqb x y | CNe => negb (Nat.eqb x y)
             | CLt => Nat.ltb x y | CLe => Nat.leb x y
             | CGt => Nat.ltb y x | CGe => Nat.leb y x end)
  | _, _ => Err Unsupported
  end.

Definition is_none (v : value) : bool := match v with VNone => true | _ => false end.

(* ---------------------------------------------------------------- interpreter *)

Variable self : string -> option value.

Definition get_attr (f : string) (k : value -> answer) : answer :=
  match self f with Some v => k v | None => Err AttributeError end.

Fixpoint eval (fe : fenv) (e : expr) (en : env) (k : value -> env -> answer) {struct e} : answer :=
  match e with
  | ENone => k VNone en
  | EInt n => k (VInt n) en
  | EStr s => k (VStr s) en
  | EVar x => match lookup x en with Some v => k v en | None => Err NameError end
  | ESelf f => get_attr f (fun v => k v en)
  | EGetattr e =>
    eval fe e en (fun v en => match v with VStr f => get_attr f (fun v => k v en) | _ => Err TypeError end)
  | EIsList e => eval fe e en (fun v en => k (VBool (is_list v)) en)
  | ELen e => eval fe e en (fun v en => py_len v (fun n => k n en))
  | EIndex e i => eval fe e en (fun v en => eval fe i en (fun iv en => py_index v iv (fun x => k x en)))
  | EIsNone e => eval fe e en (fun v en => k (VBool (is_none v)) en)
  | EIsNotNone e => eval fe e en (fun v en => k (VBool (negb (is_none v))) en)
  | ECmp op a b => eval fe a en (fun va en => eval fe b en (fun vb en => py_cmp op va vb (fun r => k r en)))
  | EAnd a b => eval fe a en (fun va en => truthy va (fun t => if t then eval fe b en k else k va en))
  | EOr a b => eval fe a en (fun va en => truthy va (fun t => if t then k va en else eval fe b en k))
  | ENot e => eval fe e en (fun v en => truthy v (fun t => k (VBool (negb t)) en))
  | EIfExp c a b => eval fe c en (fun vc en => truthy vc (fun t => if t then eval fe a en k else eval fe b en k))
  | ETuple es =>
    (fix go (es : list expr) (en : env) (k : list value -> env -> answer) {struct es} : answer :=
       match es with
       | [] => k [] en
       | e :: es => eval fe e en (fun v en => go es en (fun vs en => k (v :: vs) en))
       end) es en (fun vs en => k (VTuple vs) en)
  | EDict kvs =>
    (fix go (kvs : list (string * expr)) (d : list (string * value)) (en : env) {struct kvs} : answer :=
       match kvs with
       | [] => k (VDict d) en
       | (key, e) :: kvs => eval fe e en (fun v en => go kvs (upd key v d) en)
       end) kvs [] en
  | ECall f args =>
    (fix go (es : list expr) (en : env) (k : list value -> env -> answer) {struct es} : answer :=
       match es with
       | [] => k [] en
       | e :: es => eval fe e en (fun v en => go es en (fun vs en => k (v :: vs) en))
       end) args en (fun vs en => match lookup f fe with
                                 | Some g => g vs (fun v => k v en)
                                 | None => Err NameError
                                 end)
  | ESet e =>
    eval fe e en (fun v en =>
      match v with
      | VTuple vs => match ints_of vs with
                     | Some ns => set_of ns [] (fun s => k (VSet s) en)
                     | None => Err Unsupported
                     end
      | _ => Err Unsupported
      end)
  | EValues e =>
    eval fe e en (fun v en => match v with VDict d => k (VTuple (map snd d)) en | _ => Err Unsupported end)
  | EPop x =>
    match lookup x en with
    | Some (VSet []) => Err KeyError
    | Some (VSet [n]) => k (VInt n) (upd x (VSet []) en)
    | Some _ => Err Unsupported
    | None => Err NameError
    end
  end.

Fixpoint bind_params (ps : list string) (args : list value) : option env :=
  match ps, args with
  | [], [] => Some []
  | p :: ps, a :: args => match bind_params ps args with Some en => Some (upd p a en) | None => None end
  | _, _ => None
  end.

Fixpoint exec (fe : fenv) (kret : value -> answer) (s : stmt) (en : env) (k : env -> fenv -> answer)
  {struct s} : answer :=
  let block := fix block (fe : fenv) (kret : value -> answer) (ss : list stmt) (en : env)
                         (k : env -> fenv -> answer) {struct ss} : answer :=
    match ss with
    | [] => k en fe
    | s :: ss => exec fe kret s en (fun en' fe' => block fe' kret ss en' k)
    end in
  match s with
  | SAssign x e => eval fe e en (fun v en => k (upd x v en) fe)
  | SSetItem x ke ve =>
    eval fe ke en (fun kv en => eval fe ve en (fun v en =>
      match lookup x en, kv with
      | Some (VDict d), VStr key => k (upd x (VDict (upd key v d)) en) fe
      | Some _, _ => Err Unsupported
      | None, _ => Err NameError
      end))
  | SIf c th el =>
    eval fe c en (fun vc en => truthy vc (fun t =>
      if t then block fe kret th en k else block fe kret el en k))
  | SFor x it body =>
    eval fe it en (fun v en =>
      match v with
      | VTuple vs =>
        (fix loop (vs : list value) (fe : fenv) (en : env) {struct vs} : answer :=
           match vs with
           | [] => k en fe
           | v :: vs => block fe kret body (upd x v en) (fun en' fe' => loop vs fe' en')
           end) vs fe en
      | _ => Err Unsupported
      end)
  | SReturn e => eval fe e en (fun v _ => kret v)
  | SRaise ex => Err ex
  | SDef f ps body =>
    (* the function sees `self` and its own parameters; falling off its end returns None *)
    k en (upd f (fun args kr => match bind_params ps args with
                                | Some en0 => block fe kr body en0 (fun _ _ => kr VNone)
                                | None => Err TypeError
                                end) fe)
  end.

Fixpoint exec_block (fe : fenv) (kret : value -> answer) (ss : list stmt) (en : env)
                    (k : env -> fenv -> answer) {struct ss} : answer :=
  match ss with
  | [] => k en fe
  | s :: ss => exec fe kret s en (fun en' fe' => exec_block fe' kret ss en' k)
  end.

(* a method call  self.f(args)  (or the read of a property, args = []) *)
Definition call (f : fundef) (args : list value) : answer :=
  match bind_params (f_params f) args with
  | Some en => exec_block [] (fun v => Ok v) (f_body f) en (fun _ _ => Ok VNone)
  | None => Err TypeError
  end.

End Sem.
Arguments value : clear implicits.

(* ---------------------------------------------------------------- a `met` record as the object `self` *)

Section Obj.
Context {A T : Type}.

Definition py_fld (f : fld A) : value A T := match f with Scalar a => VAtom a | Lst l => VListA l end.

Definition self_of (m : met A T) (name : string) : option (value A T) :=
  if String.eqb name "ustar" then Some (match m_ustar m with None => VNone | Some f => py_fld f end)
  else if String.eqb name "mol" then Some (py_fld (m_mol m))
  else if String.eqb name "wind_speed" then Some (py_fld (m_wind_speed m))
  else if String.eqb name "wind_dir" then Some (py_fld (m_wind_dir m))
  else if String.eqb name "z0" then Some (match m_z0 m with None => VNone | Some a => VAtom a end)
  else if String.eqb name "timestamps" then Some (match m_timestamps m with None => VNone | Some l => VListT l end)
  else None.

(* the dataclass fields the record `met` stands for: name, in declaration order, and what an omitted field means
   (None = "not given" for the three optional ones; a scalar for the others, hence never None) *)
Definition met_fields : list (string * dflt) :=
  [("ustar", DNone); ("mol", DScalar); ("wind_speed", DScalar); ("wind_dir", DScalar);
   ("z0", DNone); ("timestamps", DNone)].

Definition call_method (m : met A T) (f : fundef) (args : list (value A T)) : res (value A T) :=
  call (self_of m) f args.

(* encoders: what each outcome of the model looks like as a Python outcome *)
Definition enc_nat (n : nat) : res (value A T) := Ok (VInt n).

Definition enc_opt (o : option A) : value A T := match o with Some a => VAtom a | None => VNone end.

Definition enc_stamp (s : stamp T) : value A T := match s with Stamp t => VStamp t | Index i => VInt i end.

(* get_step: IndexError <-> None; the dict carries "z0" exactly when z0 was given *)
Definition enc_step (o : option (step A T)) : res (value A T) :=
  match o with
  | None => Err IndexError
  | Some s =>
    Ok (VDict ([("ustar", enc_opt (s_ustar s)); ("mol", VAtom (s_mol s));
                ("wind_speed", VAtom (s_wind_speed s)); ("wind_dir", VAtom (s_wind_dir s))]
               ++ match s_z0 s with Some z => [("z0", VAtom z)] | None => [] end
               ++ [("timestamp", enc_stamp (s_stamp s))]))
  end.

(* validate: returns None (accepted) or raises ValueError (rejected) *)
Definition enc_validate (b : bool) : res (value A T) := if b then Ok VNone else Err ValueError.

End Obj.
