(* Syntax and semantics of the terms that harness/py2coq_cache.py extracts on every run from
   src/bldfm/cache.py (GreensFunctionCache._compute_key / get / put / clear) and from the cache
   block of src/bldfm/solver.py::steady_state_transport_solver (tie B of property C15).

     field / field_tok       the fields of Model.Cache.request a key can depend on
     kparam, canon           a parameter of _compute_key and the canonical form fed to the hash
     sarg                    an expression of the solver that is passed to cache.get / cache.put
     gflow / run_get         statement skeleton of `get`, interpreted on the model's store
     pflow / put_ops         statement skeleton of `put`, interpreted as a sequence of Cache.op
     sflow / run_solver      the cache block of the solver, interpreted as one model step
     model_*                 the hand-written terms for the repaired code (what Model/Cache.v says)

   The interpreters are total functions with an explicit "stuck" / "raise" outcome, so that a flow
   the model has no counterpart for (a narrower `except`, a write straight to the final path, a
   lookup before the halo is resolved, a dropped guard) is a DIFFERENT function of store and
   request, and the bridge lemma `interpretation = Model.Cache step` fails.
   No proofs in this file. *)
From Coq Require Import List Arith Bool String.
From BL Require Import Model.Cache.
Import ListNotations.

(* ------------------------------------------------------------------ request fields *)

Inductive field :=
| FNy | FNx | FValues | FZ | FU | FV | FKx | FKy | FKz | FXmax | FYmax | FLevels | FModes | FMeas
| FBg | FFootprint | FAnalytic | FHaloRaw | FHaloResolved | FPrecision.

Section Fields.
Context {T : Type} (hmax : T -> T -> T).

Definition field_tok (r : request T) (f : field) : ktok T :=
  match f with
  | FNy => KT (r_ny r) | FNx => KT (r_nx r) | FValues => KT (r_values r)
  | FZ => KT (r_z r) | FU => KT (r_u r) | FV => KT (r_v r)
  | FKx => KT (r_kx r) | FKy => KT (r_ky r) | FKz => KT (r_kz r)
  | FXmax => KT (r_xmax r) | FYmax => KT (r_ymax r)
  | FLevels => KT (r_levels r) | FModes => KT (r_modes r) | FMeas => KT (r_meas r)
  | FBg => KT (r_bg r)
  | FFootprint => KB (r_footprint r) | FAnalytic => KB (r_analytic r)
  | FHaloRaw => KO (r_halo r)
  | FHaloResolved => KT (resolve_halo hmax r)
  | FPrecision => KT (r_precision r)
  end.

(* what is fed to the hash when the key is built from the fields fs, in order *)
Definition key_of (fs : list field) (r : request T) : list (ktok T) := map (field_tok r) fs.

End Fields.

(* Model.Cache.key as a field list *)
Definition model_key_fields : list field :=
  [FZ; FU; FV; FKx; FKy; FKz; FXmax; FYmax; FModes; FMeas; FHaloResolved; FPrecision;
   FLevels; FNy; FNx; FAnalytic; FBg].

(* ------------------------------------------------------------------ _compute_key *)

(* the parameters of GreensFunctionCache._compute_key, by name *)
Inductive kparam :=
| KpZ | KpProfiles | KpDomain | KpModes | KpMeasPt | KpHalo | KpPrecision
| KpLevels | KpShape | KpAnalytic | KpBg.

Definition kparam_idx (k : kparam) : nat :=
  match k with
  | KpZ => 0 | KpProfiles => 1 | KpDomain => 2 | KpModes => 3 | KpMeasPt => 4 | KpHalo => 5
  | KpPrecision => 6 | KpLevels => 7 | KpShape => 8 | KpAnalytic => 9 | KpBg => 10
  end.
Definition kparam_eqb (a b : kparam) : bool := Nat.eqb (kparam_idx a) (kparam_idx b).

(* the canonical form of a parameter that reaches h.update(...) *)
Inductive canon :=
| CArrayBytes      (* np.asarray(x).tobytes() *)
| CEachArrayBytes  (* for arr in x: np.asarray(arr).tobytes() *)
| CStr             (* str(x).encode() *)
| CText            (* x.encode() *)
| CReprIntList     (* repr component:  None if x is None else np.atleast_1d(x).tolist() *)
| CReprIntTuple    (* repr component:  None if x is None else tuple(int(n) for n in x) *)
| CReprBool        (* repr component:  bool(x) *)
| CReprFloat.      (* repr component:  float(x) *)

Definition model_key_params : list kparam :=
  [KpZ; KpProfiles; KpDomain; KpModes; KpMeasPt; KpHalo; KpPrecision; KpLevels; KpShape; KpAnalytic; KpBg].

(* the hashed parameters in hashing order, with the canonical form applied; the tokens of
   Model.Cache stand for the VALUE of that canonical form (harness/props/c15.py::coq_request) *)
Definition model_key_feeds : list (kparam * canon) :=
  [(KpZ, CArrayBytes); (KpProfiles, CEachArrayBytes); (KpDomain, CArrayBytes); (KpModes, CArrayBytes);
   (KpMeasPt, CArrayBytes); (KpHalo, CStr); (KpPrecision, CText);
   (KpLevels, CReprIntList); (KpShape, CReprIntTuple); (KpAnalytic, CReprBool); (KpBg, CReprFloat)].

(* the seven positional parameters that get / put forward to _compute_key *)
Definition model_fwd_params : list kparam :=
  [KpZ; KpProfiles; KpDomain; KpModes; KpMeasPt; KpHalo; KpPrecision].

(* ------------------------------------------------------------------ solver arguments *)

(* expressions of steady_state_transport_solver that may be passed to cache.get / cache.put *)
Inductive sarg :=
| AZ | AProfiles | ADomain | AModes | AMeasPt
| AHalo            (* the local `halo`: the caller's value, or max(domain) once resolved *)
| APrecision | ALevels
| AShape           (* np.shape(srf_flx) *)
| AAnalytic | ABg
| ASrfFlx | AFootprint.

(* the request fields an argument consists of; `resolved` = the statement
   `if halo is None: halo = max(domain)` has been executed *)
Definition sarg_fields (resolved : bool) (a : sarg) : list field :=
  match a with
  | AZ => [FZ] | AProfiles => [FU; FV; FKx; FKy; FKz] | ADomain => [FXmax; FYmax]
  | AModes => [FModes] | AMeasPt => [FMeas]
  | AHalo => [if resolved then FHaloResolved else FHaloRaw]
  | APrecision => [FPrecision] | ALevels => [FLevels] | AShape => [FNy; FNx]
  | AAnalytic => [FAnalytic] | ABg => [FBg]
  | ASrfFlx => [FNy; FNx; FValues] | AFootprint => [FFootprint]
  end.

(* a call binds parameters of _compute_key to (the fields of) argument values *)
Definition binding := list (kparam * list field).

Fixpoint bound (b : binding) (k : kparam) : option (list field) :=
  match b with
  | [] => None
  | (k', v) :: b' => if kparam_eqb k k' then Some v else bound b' k
  end.

Definition bind_kw (resolved : bool) (kw : list (kparam * sarg)) : binding :=
  map (fun ka => (fst ka, sarg_fields resolved (snd ka))) kw.

(* positional arguments against the forwarded parameters; None when the numbers differ *)
Fixpoint bind_pos (resolved : bool) (ps : list kparam) (pos : list sarg) : option binding :=
  match ps, pos with
  | [], [] => Some []
  | k :: ps', a :: pos' =>
      match bind_pos resolved ps' pos' with
      | Some b => Some ((k, sarg_fields resolved a) :: b)
      | None => None
      end
  | _, _ => None
  end.

(* the fields that reach the hash, in hashing order; None when a hashed parameter is not passed
   (it would silently take its default) *)
Fixpoint feeds_fields (feeds : list (kparam * canon)) (b : binding) : option (list field) :=
  match feeds with
  | [] => Some []
  | (k, _) :: feeds' =>
      match bound b k, feeds_fields feeds' b with
      | Some v, Some l => Some (v ++ l)
      | _, _ => None
      end
  end.

Definition call_fields (feeds : list (kparam * canon)) (ps : list kparam) (resolved : bool)
           (pos : list sarg) (extra : option binding) : option (list field) :=
  match bind_pos resolved ps pos, extra with
  | Some b, Some kw => feeds_fields feeds (b ++ kw)
  | _, _ => None
  end.

(* ------------------------------------------------------------------ stored members *)

(* the five parts of a result ((X, Y, Z), conc, flx) *)
Inductive slot := SlGridX | SlGridY | SlGridZ | SlConc | SlFlx.
Definition all_slots : list slot := [SlGridX; SlGridY; SlGridZ; SlConc; SlFlx].
Definition slot_idx (s : slot) : nat :=
  match s with SlGridX => 0 | SlGridY => 1 | SlGridZ => 2 | SlConc => 3 | SlFlx => 4 end.
Definition slot_eqb (a b : slot) : bool := Nat.eqb (slot_idx a) (slot_idx b).

(* put: member name -> the part it stores;  get: part of the answer -> member it is read from *)
Fixpoint stored_as (pm : list (string * slot)) (name : string) : option slot :=
  match pm with
  | [] => None
  | (n, s) :: pm' => if String.eqb n name then Some s else stored_as pm' name
  end.
Fixpoint read_from (gm : list (slot * string)) (s : slot) : option string :=
  match gm with
  | [] => None
  | (s', n) :: gm' => if slot_eqb s s' then Some n else read_from gm' s
  end.

(* every part of the answer is read from the member that stores that very part, and nothing
   else is stored or read *)
Definition roundtrip_ok (pm : list (string * slot)) (gm : list (slot * string)) : bool :=
  forallb (fun s => match read_from gm s with
                    | Some n => match stored_as pm n with Some s' => slot_eqb s s' | None => false end
                    | None => false
                    end) all_slots
  && Nat.eqb (List.length pm) 5 && Nat.eqb (List.length gm) 5.

Definition model_put_members : list (string * slot) :=
  [("X", SlGridX); ("Y", SlGridY); ("Z", SlGridZ); ("conc", SlConc); ("flx", SlFlx)]%string.
Definition model_get_members : list (slot * string) :=
  [(SlGridX, "X"); (SlGridY, "Y"); (SlGridZ, "Z"); (SlConc, "conc"); (SlFlx, "flx")]%string.

(* ------------------------------------------------------------------ exception classes *)

Inductive exc := EBaseException | EException | EOSError | ENarrow.   (* ENarrow: anything else *)

(* an unreadable entry makes np.load / zipfile raise OSError, ValueError, EOFError, KeyError,
   BadZipFile, tokenize.TokenError, ...: only the two widest classes catch all of them *)
Definition catches_unreadable (e : exc) : bool :=
  match e with EBaseException | EException => true | _ => false end.
Definition catches_oserror (e : exc) : bool :=
  match e with ENarrow => false | _ => true end.

(* ------------------------------------------------------------------ get *)

Inductive gflow :=
| GSkip
| GSeq (a b : gflow)
| GKey                   (* key = self._compute_key(<forwarded parameters>, **extra) *)
| GPath                  (* path = self.cache_dir / f"{key}.npz" *)
| GIfExists (body : gflow)                       (* if path.exists(): body *)
| GTryLoad (e : exc) (handler orelse : gflow)    (* try: with np.load(path) as data: result = <five members>
                                                    except e: handler   else: orelse *)
| GUnlink (ignore : exc)                         (* try: path.unlink()  except ignore: pass *)
| GReturnLoaded          (* return result *)
| GReturnNone.           (* return None *)

Definition gseq (l : list gflow) : gflow := fold_right GSeq GSkip l.

Section Get.
Context {H : Type} (H_eqb : H -> H -> bool) {R : Type}.

Record genv := mkGenv { g_fs : store H R; g_key : option H; g_path : option (path H); g_loaded : option R }.

Inductive gres :=
| GCont (e : genv)
| GRet (v : option R) (fs : store H R)
| GRaise                 (* an exception leaves get *)
| GStuck.                (* a name is used before it is bound *)

Fixpoint run_g (fl : gflow) (kh : H) (e : genv) : gres :=
  match fl with
  | GSkip => GCont e
  | GSeq a b => match run_g a kh e with GCont e' => run_g b kh e' | x => x end
  | GKey => GCont (mkGenv (g_fs e) (Some kh) (g_path e) (g_loaded e))
  | GPath => match g_key e with
             | Some h => GCont (mkGenv (g_fs e) (g_key e) (Some (Final h)) (g_loaded e))
             | None => GStuck
             end
  | GIfExists body =>
      match g_path e with
      | None => GStuck
      | Some q => match lookup H_eqb q (g_fs e) with Some _ => run_g body kh e | None => GCont e end
      end
  | GTryLoad ex handler orelse =>
      match g_path e with
      | None => GStuck
      | Some q =>
          match lookup H_eqb q (g_fs e) with
          | Some (Valid p) => run_g orelse kh (mkGenv (g_fs e) (g_key e) (g_path e) (Some p))
          | _ => if catches_unreadable ex then run_g handler kh e else GRaise
          end
      end
  | GUnlink ig =>
      match g_path e with
      | None => GStuck
      | Some q =>
          match lookup H_eqb q (g_fs e) with
          | Some _ => GCont (mkGenv (remove H_eqb q (g_fs e)) (g_key e) (g_path e) (g_loaded e))
          | None => if catches_oserror ig then GCont e else GRaise
          end
      end
  | GReturnLoaded => match g_loaded e with Some p => GRet (Some p) (g_fs e) | None => GStuck end
  | GReturnNone => GRet None (g_fs e)
  end.

(* falling off the end of a Python function returns None *)
Definition run_get (fl : gflow) (kh : H) (fs : store H R) : gres :=
  match run_g fl kh (mkGenv fs None None None) with
  | GCont e => GRet None (g_fs e)
  | x => x
  end.

End Get.

Definition model_get_flow : gflow :=
  gseq [GKey; GPath; GIfExists (gseq [GTryLoad EException (gseq [GUnlink EOSError]) (gseq [GReturnLoaded])]);
        GReturnNone].

(* ------------------------------------------------------------------ put *)

Inductive pflow :=
| PSkip
| PSeq (a b : pflow)
| PKey                   (* key = self._compute_key(<forwarded parameters>, **extra) *)
| PPath                  (* path = self.cache_dir / f"{key}.npz" *)
| PUnpackGrid            (* X, Y, Z = grid *)
| PMkstemp (same_dir prefix_is_key suffix_tmp : bool)
                         (* fd, tmp = tempfile.mkstemp(dir=self.cache_dir, prefix=key, suffix=".tmp") *)
| PTry (body : pflow) (e : exc) (handler : pflow)
| PSavezTmp              (* with os.fdopen(fd, "wb") as f: np.savez(f, <members>) *)
| PSavezFinal            (* np.savez(path, <members>): the ORIGINAL write, straight to <key>.npz *)
| PReplace               (* os.replace(tmp, path) *)
| PUnlinkTmp (ignore : exc)   (* try: os.unlink(tmp)  except ignore: pass *)
| PReraise.              (* raise *)

Definition pseq (l : list pflow) : pflow := fold_right PSeq PSkip l.

Section Put.
Context {H : Type} {R : Type}.

Record penv := mkPenv { p_key : option H; p_final : option H; p_tmp : option H; p_ops : list (op H R) }.

(* the primitive file operations of a put that is not interrupted by an exception
   (n+1 write() calls for the payload p; the handler of a try is not entered) *)
Fixpoint run_p (fl : pflow) (kh : H) (p : R) (n : nat) (e : penv) : option penv :=
  match fl with
  | PSkip => Some e
  | PSeq a b => match run_p a kh p n e with Some e' => run_p b kh p n e' | None => None end
  | PKey => Some (mkPenv (Some kh) (p_final e) (p_tmp e) (p_ops e))
  | PPath => match p_key e with
             | Some h => Some (mkPenv (p_key e) (Some h) (p_tmp e) (p_ops e))
             | None => None
             end
  | PUnpackGrid => Some e
  | PMkstemp sd pk st =>
      (* only a file <key>*.tmp in the cache directory is the model's `Tmp key` *)
      if sd && pk && st then
        match p_key e with
        | Some h => Some (mkPenv (p_key e) (p_final e) (Some h) (p_ops e))
        | None => None
        end
      else None
  | PTry body _ _ => run_p body kh p n e
  | PSavezTmp =>
      match p_tmp e with
      | Some h => Some (mkPenv (p_key e) (p_final e) (p_tmp e)
                               (p_ops e ++ map (fun i => WriteTmp h (Nat.eqb i n) p) (seq 0 (S n))))
      | None => None
      end
  | PSavezFinal =>
      match p_final e with
      | Some h => Some (mkPenv (p_key e) (p_final e) (p_tmp e)
                               (p_ops e ++ map (fun i => WriteFinal h (Nat.eqb i n) p) (seq 0 (S n))))
      | None => None
      end
  | PReplace =>
      match p_tmp e, p_final e with
      | Some _, Some h => Some (mkPenv (p_key e) (p_final e) None (p_ops e ++ [Rename h]))
      | _, _ => None
      end
  | PUnlinkTmp _ => None      (* removing the temporary file on the normal path: no counterpart *)
  | PReraise => None
  end.

Definition put_ops (fl : pflow) (kh : H) (p : R) (n : nat) : option (list (op H R)) :=
  match run_p fl kh p n (mkPenv None None None []) with
  | Some e => Some (p_ops e)
  | None => None
  end.

End Put.

(* the failure path: every try that contains a write must catch everything, remove the temporary
   file (ignoring a failing unlink) and re-raise; it must not touch the final path *)
Fixpoint writes (fl : pflow) : bool :=
  match fl with
  | PSeq a b => writes a || writes b
  | PTry b _ h => writes b || writes h
  | PSavezTmp | PSavezFinal | PReplace => true
  | _ => false
  end.

Fixpoint flat (fl : pflow) : list pflow :=
  match fl with
  | PSkip => []
  | PSeq a b => flat a ++ flat b
  | x => [x]
  end.

Definition cleanup_ok (h : pflow) : bool :=
  match flat h with
  | [PUnlinkTmp ig; PReraise] => catches_oserror ig
  | _ => false
  end.

Fixpoint guarded (fl : pflow) : bool :=      (* no write outside a try with a proper handler *)
  match fl with
  | PSeq a b => guarded a && guarded b
  | PTry b e h => catches_unreadable e && cleanup_ok h && negb (writes h)
  | PSavezTmp | PSavezFinal | PReplace => false
  | _ => true
  end.

Definition model_put_flow : pflow :=
  pseq [PKey; PPath; PUnpackGrid; PMkstemp true true true;
        PTry (pseq [PSavezTmp; PReplace]) EBaseException (pseq [PUnlinkTmp EOSError; PReraise])].

(* ------------------------------------------------------------------ clear *)

Section Clear.
Context {H : Type} {R : Type}.
Definition glob_hits (globs : list string) (q : path H) : bool :=
  match q with
  | Final _ => existsb (String.eqb "*.npz") globs
  | Tmp _ => existsb (String.eqb "*.tmp") globs
  end.
Definition run_clear (globs : list string) (fs : store H R) : store H R :=
  filter (fun qe => negb (glob_hits globs (fst qe))) fs.
End Clear.

Definition model_clear_globs : list string := ["*.npz"; "*.tmp"]%string.

(* ------------------------------------------------------------------ the solver's cache block *)

Inductive conj := CCacheNotNone | CFootprint.

Inductive sflow :=
| SSkip
| SSeq (a b : sflow)
| SResolveHalo                       (* if halo is None: halo = max(domain) *)
| SIf (guard : list conj) (body : sflow)     (* if <conjunction>: body *)
| SExtra (kw : list (kparam * sarg))  (* cache_extra = dict(k=<expr>, ...) *)
| SGet (pos : list sarg)              (* cached = cache.get(<pos>, **cache_extra) *)
| SIfHitReturn                        (* if cached is not None: return cached *)
| SBody                               (* the numerical body; ends with result = (grid, conc, flx) *)
| SPut (pos : list sarg)              (* cache.put(<pos>, *result, **cache_extra) *)
| SReturnResult.                      (* return result *)

Definition sseq (l : list sflow) : sflow := fold_right SSeq SSkip l.

(* static reading: the fields hashed by the first get (want_put = false) / put (true) *)
Inductive scan_res := Found (o : option (list field)) | Go (resolved : bool) (extra : option binding).

Fixpoint scan (feeds : list (kparam * canon)) (gps pps : list kparam) (want_put : bool)
         (fl : sflow) (resolved : bool) (extra : option binding) : scan_res :=
  match fl with
  | SSeq a b => match scan feeds gps pps want_put a resolved extra with
                | Found o => Found o
                | Go r e => scan feeds gps pps want_put b r e
                end
  | SResolveHalo => Go true extra
  | SIf _ body => scan feeds gps pps want_put body resolved extra
  | SExtra kw => Go resolved (Some (bind_kw resolved kw))
  | SGet pos => if want_put then Go resolved extra
                else Found (call_fields feeds gps resolved pos extra)
  | SPut pos => if want_put then Found (call_fields feeds pps resolved pos extra)
                else Go resolved extra
  | _ => Go resolved extra
  end.

Definition get_key_fields feeds gps pps fl : option (list field) :=
  match scan feeds gps pps false fl false None with Found o => o | Go _ _ => None end.
Definition put_key_fields feeds gps pps fl : option (list field) :=
  match scan feeds gps pps true fl false None with Found o => o | Go _ _ => None end.

Section Solver.
Context {T : Type} (hmax : T -> T -> T).
Context {H : Type} (H_eqb : H -> H -> bool) {R : Type}.
Context (hash : list (ktok T) -> H) (solve : request T -> R) (nchunks : R -> nat).
(* the extracted pieces of cache.py *)
Context (feeds : list (kparam * canon)) (gps pps : list kparam) (gf : gflow) (pf : pflow).

Record senv := mkSenv {
  s_resolved : bool; s_extra : option binding;
  s_cached : option (option R);     (* the local `cached`, once bound *)
  s_looked : bool;                  (* cache.get has been called *)
  s_result : option R;              (* the local `result`, once bound *)
  s_st : state H R }.

Inductive sres := SCont (e : senv) | SRet (p : R) (o : outcome) (st : state H R) | SStuck.

Definition eval_conj (c : call T) (g : conj) : bool :=
  match g with CCacheNotNone => c_cache c | CFootprint => r_footprint (c_req c) end.

Fixpoint run_s (fl : sflow) (c : call T) (e : senv) : sres :=
  match fl with
  | SSkip => SCont e
  | SSeq a b => match run_s a c e with SCont e' => run_s b c e' | x => x end
  | SResolveHalo => SCont (mkSenv true (s_extra e) (s_cached e) (s_looked e) (s_result e) (s_st e))
  | SIf g body => if forallb (eval_conj c) g then run_s body c e else SCont e
  | SExtra kw => SCont (mkSenv (s_resolved e) (Some (bind_kw (s_resolved e) kw)) (s_cached e)
                               (s_looked e) (s_result e) (s_st e))
  | SGet pos =>
      match call_fields feeds gps (s_resolved e) pos (s_extra e) with
      | None => SStuck
      | Some fs =>
          match run_get H_eqb gf (hash (key_of hmax fs (c_req c))) (st_fs (s_st e)) with
          | GRet v fs' => SCont (mkSenv (s_resolved e) (s_extra e) (Some v) true (s_result e)
                                        (mkState fs' (st_solves (s_st e))))
          | _ => SStuck
          end
      end
  | SIfHitReturn =>
      match s_cached e with
      | Some (Some p) => SRet p Hit (s_st e)
      | Some None => SCont e
      | None => SStuck
      end
  | SBody => SCont (mkSenv (s_resolved e) (s_extra e) (s_cached e) (s_looked e)
                           (Some (solve (c_req c)))
                           (mkState (st_fs (s_st e)) (S (st_solves (s_st e)))))
  | SPut pos =>
      match s_result e, call_fields feeds pps (s_resolved e) pos (s_extra e) with
      | Some p, Some fs =>
          match put_ops pf (hash (key_of hmax fs (c_req c))) p (nchunks p) with
          | Some ops => SCont (mkSenv (s_resolved e) (s_extra e) (s_cached e) (s_looked e) (s_result e)
                                      (mkState (run_ops H_eqb ops (st_fs (s_st e))) (st_solves (s_st e))))
          | None => SStuck
          end
      | _, _ => SStuck
      end
  | SReturnResult =>
      match s_result e with
      | Some p => SRet p (if s_looked e then Miss else Bypass) (s_st e)
      | None => SStuck
      end
  end.

Definition run_solver (fl : sflow) (c : call T) (st : state H R) : option (R * outcome * state H R) :=
  match run_s fl c (mkSenv false None None false None st) with
  | SRet p o st' => Some (p, o, st')
  | _ => None
  end.

End Solver.

Definition model_get_pos : list sarg := [AZ; AProfiles; ADomain; AModes; AMeasPt; AHalo; APrecision].
Definition model_extra : list (kparam * sarg) :=
  [(KpLevels, ALevels); (KpShape, AShape); (KpAnalytic, AAnalytic); (KpBg, ABg)].

Definition model_solver_flow : sflow :=
  sseq [SResolveHalo;
        SIf [CCacheNotNone; CFootprint] (sseq [SExtra model_extra; SGet model_get_pos; SIfHitReturn]);
        SBody;
        SIf [CCacheNotNone; CFootprint] (sseq [SPut model_get_pos]);
        SReturnResult].
