(* Description language for bldfm/io.py and its meaning on the records of Model/NetcdfAsm.v  (tie (B) of C18).

   harness/py2coq_io.py executes the CURRENT body of save_footprints_to_netcdf symbolically (once for each value of
   the 2-D / 3-D test), resolves every local name, and emits what reaches `xr.Dataset(...)` and `ds.to_netcdf(...)`
   as a closed term [save_d]: for every data variable / coordinate its name, its dimension names, its attributes
   and a [data_d] saying how its values are computed from `results` and `config`.  load_footprints_from_netcdf is
   emitted as a [load_d].  This file defines the terms and what they MEAN:

     run_save : save_d -> results -> towers -> option (dataset * lossy encoding entries)      (None = Python raises)
     run_load : load_d -> (file -> dataset) -> file -> option dataset

   numpy arrays that are allocated with np.zeros and filled by the loop nest are modelled operationally: an array is
   a shape and an index->value map ([farr]), `a[i, j] = v` is [fset] (IndexError = None), the loops are [fold_left]s
   over `enumerate(...)` in source order ([loop_fill]).  Index expressions `G[0, 0, :]` are interpreted generically
   on nested lists ([index_mesh]).  Things the model of the property does not have (a sort, a dtype cast, labels
   made from range(n), the timestamp object itself used as label, the initial value of a float vector) are the
   fields of [extras]: a description that uses one of them means something that depends on it, hence cannot be
   proved equal to Model.NetcdfAsm.assemble.  No proofs here. *)
From Coq Require Import List Arith Bool String.
From BL Require Import Model.NetcdfAsm.
Import ListNotations.
Local Open Scope string_scope.
Local Open Scope nat_scope.

(* ---------- the terms ---------- *)

(* tower_names = ... *)
Inductive names_d :=
| NKeys          (* list(results.keys()) / list(results) *)
| NSorted        (* sorted(results) / sorted(results.keys()) *)
| NConfig.       (* [t.name for t in config.towers] *)

Inductive idx_d := I0 | IAll.                    (* `0` and `:` inside G[...] *)
Inductive gcomp := GX | GY | GZ.                 (* position 0 / 1 / 2 of first_result["grid"] *)
Inductive fkey := KFlx | KConc.                  (* r["flx"], r["conc"] *)
Inductive pkey := PUstar | PMol | PWs | PWd.     (* r["params"]["ustar" | "mol" | "wind_speed" | "wind_dir"] *)
Inductive tfield := TLat | TLon | TZm.           (* tower.lat / .lon / .z_m *)

(* one entry of the shape tuple handed to np.zeros *)
Inductive dim_d :=
| DNTime                                   (* len(results[tower_names[0]]) *)
| DNTowers                                 (* len(tower_names) *)
| DShape (k : fkey) (rank i : nat).        (* component i of `a0, .., a(rank-1) = first_result[k].shape` *)

Inductive loop_d :=
| LByName        (* for ti, nm in enumerate(tower_names): for t, r in enumerate(results[nm]): *)
| LByPosition.   (* for ti, steps in enumerate(results.values()): for t, r in enumerate(steps): *)
Inductive ix_d := IxT | IxTi.                    (* the loop counters used as array indices *)
Inductive guard_d := GAlways | GTi0.             (* unguarded / inside `if ti == 0:` *)
Inductive cell_d := CBlock (k : fkey) | CMet (p : pkey).
Inductive conv_d := TStr | TRaw.                 (* str(r["timestamp"]) / r["timestamp"] *)
Inductive meta_d :=
| MByName        (* [{t.name: t for t in config.towers}[nm].f for nm in tower_names] *)
| MByPosition.   (* [t.f for t in config.towers] *)

Inductive data_d :=
| DFill (shape : list dim_d) (dtype : option string) (lp : loop_d) (ix : list ix_d) (g : guard_d)
        (c : cell_d) (cast : option string)      (* np.zeros(shape[, dtype]) filled by `a[ix] = cell[.astype(cast)]` *)
| DCoordIdx (g : gcomp) (p : list idx_d)                   (* G[p] *)
| DCoordIf2 (g : gcomp) (p : list idx_d) (g' : gcomp)      (* G[p] if G.ndim == 2 else G' *)
| DStamps (cv : conv_d)                    (* [cv(r["timestamp"]) for r in results[tower_names[0]]] (loop or comprehension) *)
| DRange                                   (* list(range(n_time)) / np.arange(n_time) *)
| DNames (n : names_d)
| DMeta (m : meta_d) (f : tfield).

Inductive attr_v := AStr (s : string) | AConfig (path : list string).
Inductive enc_v := EBool (b : bool) | ENat (n : nat) | EStr (s : string) | EOpaque (s : string).

Record var_d := mkVar { v_name : string; v_dims : list string; v_data : data_d; v_attrs : list (string * attr_v) }.

(* what reaches xr.Dataset(data_vars, coords=, attrs=) and ds.to_netcdf(path, encoding=) *)
Record ds_d := mkDsD {
  dd_vars : list var_d; dd_coords : list var_d; dd_attrs : list (string * attr_v);
  dd_enc : list (string * list (string * enc_v)) }.

Record save_d := mkSaveD {
  sv_names : names_d;
  sv_is3d : fkey * nat;          (* is_3d = first_result[k].ndim == n *)
  sv_3d : ds_d;                  (* the body with every `if is_3d` resolved to True *)
  sv_2d : ds_d }.                (* ... to False *)

(* load_footprints_from_netcdf, statement by statement *)
Inductive load_s :=
| LPath                          (* p = Path(filepath) *)
| LRaiseIfMissing                (* if not p.exists(): raise FileNotFoundError(...) *)
| LOpen (kw : list string)       (* ds = xr.open_dataset(p, **kw) : the keyword names *)
| LReturnOpened.                 (* return ds *)
Definition load_d := list load_s.

(* ---------- normal form of a dataset description: the fourteen members of the model's dataset, by NAME ---------- *)

Record ds_norm := mkNorm {
  n_fp : list string * data_d; n_conc : list string * data_d;
  n_ustar : list string * data_d; n_mol : list string * data_d; n_ws : list string * data_d; n_wd : list string * data_d;
  n_lat : list string * data_d; n_lon : list string * data_d; n_zm : list string * data_d;
  n_x : list string * data_d; n_y : list string * data_d; n_z : option (list string * data_d);
  n_time : list string * data_d; n_tower : list string * data_d;
  n_lossy : list (string * string) }.       (* (variable, encoding key) pairs that change the stored values *)

Definition find_var (nm : string) (l : list var_d) : option (list string * data_d) :=
  match find (fun v => String.eqb (v_name v) nm) l with
  | Some v => Some (v_dims v, v_data v)
  | None => None
  end.

Definition var_names : list string :=
  ["footprint"; "concentration"; "ustar"; "mol"; "wind_speed"; "wind_dir"; "tower_lat"; "tower_lon"; "tower_z"].
Definition coord_names : list string := ["x"; "y"; "z"; "time"; "tower"].
Definition known (l : list string) (vs : list var_d) : bool :=
  forallb (fun v => existsb (String.eqb (v_name v)) l) vs.

(* encoding keys that only concern compression / layout (the library hypothesis read (write d) = d covers them) *)
Definition layout_keys : list string := ["zlib"; "complevel"; "shuffle"; "fletcher32"; "contiguous"; "chunksizes"].
Definition lossy (enc : list (string * list (string * enc_v))) : list (string * string) :=
  flat_map (fun e => map (fun kv => (fst e, fst kv))
                         (filter (fun kv => negb (existsb (String.eqb (fst kv)) layout_keys)) (snd e))) enc.

Definition normalize (d : ds_d) : option ds_norm :=
  if known var_names (dd_vars d) && known coord_names (dd_coords d) then
    match find_var "footprint" (dd_vars d), find_var "concentration" (dd_vars d),
          find_var "ustar" (dd_vars d), find_var "mol" (dd_vars d),
          find_var "wind_speed" (dd_vars d), find_var "wind_dir" (dd_vars d),
          find_var "tower_lat" (dd_vars d), find_var "tower_lon" (dd_vars d), find_var "tower_z" (dd_vars d) with
    | Some fp, Some cc, Some us, Some mo, Some ws, Some wd, Some la, Some lo, Some zm =>
      match find_var "x" (dd_coords d), find_var "y" (dd_coords d),
            find_var "time" (dd_coords d), find_var "tower" (dd_coords d) with
      | Some x, Some y, Some ti, Some tw =>
        Some (mkNorm fp cc us mo ws wd la lo zm x y (find_var "z" (dd_coords d)) ti tw (lossy (dd_enc d)))
      | _, _, _, _ => None
      end
    | _, _, _, _, _, _, _, _, _ => None
    end
  else None.

(* ---------- numpy arrays: shape + index -> value ---------- *)

Record farr (X : Type) := mkArr { a_n1 : nat; a_n2 : nat; a_f : nat -> nat -> X }.
Arguments mkArr {X}. Arguments a_n1 {X}. Arguments a_n2 {X}. Arguments a_f {X}.

Definition fzeros {X : Type} (zero : X) (n1 n2 : nat) : farr X := mkArr n1 n2 (fun _ _ => zero).
(* a[i, j] = v ; IndexError when out of bounds *)
Definition fset {X : Type} (i j : nat) (v : X) (a : farr X) : option (farr X) :=
  if (i <? a_n1 a) && (j <? a_n2 a)
  then Some (mkArr (a_n1 a) (a_n2 a) (fun i' j' => if (i' =? i) && (j' =? j) then v else a_f a i' j'))
  else None.
Definition to_list2 {X : Type} (a : farr X) : list (list X) :=
  map (fun i => map (fun j => a_f a i j) (seq 0 (a_n2 a))) (seq 0 (a_n1 a)).
Definition to_list1 {X : Type} (a : farr X) : list X := map (fun i => a_f a i 0) (seq 0 (a_n1 a)).

(* enumerate(l) *)
Fixpoint enum_from {X : Type} (k : nat) (l : list X) : list (nat * X) :=
  match l with [] => [] | x :: l => (k, x) :: enum_from (S k) l end.

(* for ti, steps in enumerate(cols): for t, r in enumerate(steps): if g t ti: a[ix t ti] = val r *)
Definition loop_fill {R X : Type} (cols : list (list R)) (ix : nat -> nat -> nat * nat) (g : nat -> nat -> bool)
    (val : R -> X) (a0 : farr X) : option (farr X) :=
  fold_left (fun acc c =>
      fold_left (fun acc' e =>
          match acc' with
          | None => None
          | Some a => if g (fst e) (fst c) then fset (fst (ix (fst e) (fst c))) (snd (ix (fst e) (fst c))) (val (snd e)) a
                      else Some a
          end) (enum_from 0 (snd c)) acc)
    (enum_from 0 cols) (Some a0).

(* ---------- meaning ---------- *)

Section Interp.
Context {N L T V F A : Type}.
Context (eqbN : N -> N -> bool) (str : T -> L) (nanV : V) (zeroF : F).

Record extras := mkX {
  x_sortN : list N -> list N;            (* sorted(...) *)
  x_natlab : nat -> L;                   (* the label range(n)[i] becomes *)
  x_rawlab : T -> L;                     (* the label a timestamp object becomes when it is not passed through str() *)
  x_castF : string -> F -> F;            (* block.astype(dtype) / storing into an array of that dtype *)
  x_castV : string -> V -> V;
  x_zeroV : V }.                         (* np.zeros((n,))[i] *)
Context (E : extras).

Notation result := (@result T V F A).
Notation results := (@results N T V F A).
Notation tower := (@tower N V).
Notation dataset := (@dataset N L V F A).
Notation mesh := (@mesh A).

Definition eval_names (n : names_d) (rs : results) (tws : list tower) : list N :=
  match n with
  | NKeys => names rs
  | NSorted => x_sortN E (names rs)
  | NConfig => map (@tw_name N V) tws
  end.

(* tower_names, results[tower_names[0]], results[tower_names[0]][0] *)
Record ctx := mkCtx { c_names : list N; c_l0 : list result; c_r0 : result }.
Definition mk_ctx (nd : names_d) (rs : results) (tws : list tower) : option ctx :=
  match eval_names nd rs tws with
  | [] => None                                          (* tower_names[0] : IndexError *)
  | n0 :: _ =>
    match assoc eqbN n0 rs with
    | None => None                                      (* results[...] : KeyError *)
    | Some [] => None                                   (* [...][0] : IndexError *)
    | Some (r0 :: l0') => Some (mkCtx (eval_names nd rs tws) (r0 :: l0') r0)
    end
  end.

Definition eval_dim (c : ctx) (d : dim_d) : option nat :=
  match d with
  | DNTime => Some (List.length (c_l0 c))
  | DNTowers => Some (List.length (c_names c))
  | DShape _ _ _ => None
  end.

Definition fkey_eqb (a b : fkey) : bool :=
  match a, b with KFlx, KFlx => true | KConc, KConc => true | _, _ => false end.

(* the trailing entries of the shape are exactly the unpacked shape of one field of the first result, of the rank
   the branch stands for *)
Definition block_shape_ok (is3d : bool) (l : list dim_d) : bool :=
  match l with
  | [DShape k 3 0; DShape k' 3 1; DShape k'' 3 2] => is3d && fkey_eqb k k' && fkey_eqb k k''
  | [DShape k 2 0; DShape k' 2 1] => negb is3d && fkey_eqb k k'
  | _ => false
  end.

Definition cols (lp : loop_d) (c : ctx) (rs : results) : option (list (list result)) :=
  match lp with
  | LByName => traverse (fun nm => assoc eqbN nm rs) (c_names c)       (* results[nm] : KeyError *)
  | LByPosition => Some (map snd rs)
  end.

Definition ix2 (l : list ix_d) : option (nat -> nat -> nat * nat) :=
  match l with
  | [IxT; IxTi] => Some (fun t ti => (t, ti))
  | [IxTi; IxT] => Some (fun t ti => (ti, t))
  | _ => None
  end.
Definition ix1 (l : list ix_d) : option (nat -> nat -> nat * nat) :=
  match l with
  | [IxT] => Some (fun t ti => (t, 0))
  | [IxTi] => Some (fun t ti => (ti, 0))
  | _ => None
  end.
Definition guard_of (g : guard_d) (t ti : nat) : bool := match g with GAlways => true | GTi0 => ti =? 0 end.

Definition opt_cast {X : Type} (f : string -> X -> X) (o : option string) (x : X) : X :=
  match o with None => x | Some s => f s x end.

Definition fsel (k : fkey) (r : result) : F := match k with KFlx => r_flx r | KConc => r_conc r end.
Definition psel (p : pkey) (r : result) : V :=
  match p with PUstar => ustar_val nanV r | PMol => r_mol r | PWs => r_ws r | PWd => r_wd r end.

(* a (time, tower, *block) array of whole blocks *)
Definition eval_blocks (is3d : bool) (c : ctx) (rs : results) (d : data_d) : option (list (list F)) :=
  match d with
  | DFill (d1 :: d2 :: rest) dt lp ix g (CBlock k) cast =>
    if block_shape_ok is3d rest then
      match eval_dim c d1, eval_dim c d2, cols lp c rs, ix2 ix with
      | Some n1, Some n2, Some cs, Some ixf =>
        option_map to_list2
          (loop_fill cs ixf (guard_of g) (fun r => opt_cast (x_castF E) dt (opt_cast (x_castF E) cast (fsel k r)))
                     (fzeros zeroF n1 n2))
      | _, _, _, _ => None
      end
    else None
  | _ => None
  end.

(* a float vector: met series (filled) or tower metadata (list comprehension) *)
Definition tsel (f : tfield) (t : tower) : V := match f with TLat => tw_lat t | TLon => tw_lon t | TZm => tw_zm t end.

Definition eval_series (c : ctx) (rs : results) (tws : list tower) (d : data_d) : option (list V) :=
  match d with
  | DFill [d1] dt lp ix g (CMet p) cast =>
    match eval_dim c d1, cols lp c rs, ix1 ix with
    | Some n1, Some cs, Some ixf =>
      option_map to_list1
        (loop_fill cs ixf (guard_of g) (fun r => opt_cast (x_castV E) dt (opt_cast (x_castV E) cast (psel p r)))
                   (fzeros (x_zeroV E) n1 1))
    | _, _, _ => None
    end
  | DMeta MByName f => option_map (map (tsel f)) (traverse (fun nm => tower_by_name eqbN nm tws) (c_names c))
  | DMeta MByPosition f => Some (map (tsel f) tws)
  | _ => None
  end.

(* numpy basic indexing with `0` and `:` on nested lists; the result must be 1-D (exactly one `:`) *)
Definition sel {X : Type} (i : idx_d) (l : list X) : option (list X) :=
  match i with
  | IAll => Some l
  | I0 => match l with x :: _ => Some [x] | [] => None end
  end.
Definition n_all (p : list idx_d) : nat := List.length (filter (fun i => match i with IAll => true | I0 => false end) p).

Definition index_mesh (m : mesh) (p : list idx_d) : option (list A) :=
  if n_all p =? 1 then
    match m, p with
    | M1 l, [a] => sel a l
    | M2 l, [a; b] =>
      match sel a l with
      | Some rows => option_map (@List.concat A) (traverse (sel b) rows)
      | None => None
      end
    | M3 l, [a; b; c] =>
      match sel a l with
      | Some planes =>
        option_map (fun x => List.concat (List.concat x))
          (traverse (fun pl => match sel b pl with Some rows => traverse (sel c) rows | None => None end) planes)
      | None => None
      end
    | _, _ => None
    end
  else None.

Definition grid_of (r : result) (g : gcomp) : mesh := match g with GX => r_X r | GY => r_Y r | GZ => r_Z r end.

Definition eval_coord (c : ctx) (d : data_d) : option (list A) :=
  match d with
  | DCoordIdx g p => index_mesh (grid_of (c_r0 c) g) p
  | DCoordIf2 g p g' =>
    match grid_of (c_r0 c) g with
    | M2 _ => index_mesh (grid_of (c_r0 c) g) p
    | _ => match grid_of (c_r0 c) g' with M1 l => Some l | _ => None end     (* a coordinate must be 1-D *)
    end
  | _ => None
  end.

Definition eval_labels (c : ctx) (d : data_d) : option (list L) :=
  match d with
  | DStamps TStr => Some (map (fun r => str (r_stamp r)) (c_l0 c))
  | DStamps TRaw => Some (map (fun r => x_rawlab E (r_stamp r)) (c_l0 c))
  | DRange => Some (map (x_natlab E) (seq 0 (List.length (c_l0 c))))
  | _ => None
  end.

Definition eval_tower_names (c : ctx) (rs : results) (tws : list tower) (d : data_d) : option (list N) :=
  match d with DNames n => Some (eval_names n rs tws) | _ => None end.

Definition dims_eqb (a b : list string) : bool :=
  (List.length a =? List.length b) && forallb (fun p => String.eqb (fst p) (snd p)) (combine a b).

(* member with the dimension names the model's layout stands for *)
Definition member {R : Type} (dims : list string) (ev : data_d -> option R) (v : list string * data_d) : option R :=
  if dims_eqb (fst v) dims then ev (snd v) else None.

Definition block_dims (is3d : bool) : list string := if is3d then ["z"; "y"; "x"] else ["y"; "x"].

(* xr.Dataset raises on conflicting sizes for a dimension: a variable along `tower` must be as long as the coordinate *)
Definition sized {X : Type} (n : nat) (o : option (list X)) : option (list X) :=
  match o with Some l => if List.length l =? n then Some l else None | None => None end.

Definition eval_norm (is3d : bool) (c : ctx) (n : ds_norm) (rs : results) (tws : list tower)
  : option (dataset * list (string * string)) :=
  let bl := member ("time" :: "tower" :: block_dims is3d) (eval_blocks is3d c rs) in
  let tv := member ["time"] (eval_series c rs tws) in
  match member ["x"] (eval_coord c) (n_x n), member ["y"] (eval_coord c) (n_y n),
        match n_z n with None => Some None | Some v => option_map (@Some (list A)) (member ["z"] (eval_coord c) v) end,
        member ["time"] (eval_labels c) (n_time n), member ["tower"] (eval_tower_names c rs tws) (n_tower n) with
  | Some x, Some y, Some z, Some tl, Some tn =>
    let wv := fun v => sized (List.length tn) (member ["tower"] (eval_series c rs tws) v) in
    match bl (n_fp n), bl (n_conc n), tv (n_ustar n), tv (n_mol n), tv (n_ws n), tv (n_wd n),
          wv (n_lat n), wv (n_lon n), wv (n_zm n) with
    | Some fp, Some cc, Some us, Some mo, Some ws, Some wd, Some la, Some lo, Some zm =>
      Some (mkDs x y z tl tn fp cc us mo ws wd la lo zm, n_lossy n)
    | _, _, _, _, _, _, _, _, _ => None
    end
  | _, _, _, _, _ => None
  end.

Definition run_ds (is3d : bool) (c : ctx) (d : ds_d) (rs : results) (tws : list tower) :=
  match normalize d with Some n => eval_norm is3d c n rs tws | None => None end.

(* the Dataset handed to to_netcdf, and the encoding entries that are not mere compression/layout *)
Definition run_save (sd : save_d) (rs : results) (tws : list tower) : option (dataset * list (string * string)) :=
  match mk_ctx (sv_names sd) rs tws with
  | None => None
  | Some c =>
    match sv_is3d sd with
    | (KFlx, 3) => run_ds (r_3d (c_r0 c)) c (if r_3d (c_r0 c) then sv_3d sd else sv_2d sd) rs tws
    | _ => None                                  (* not the test the model's r_3d stands for *)
    end
  end.

(* load: the opened dataset is returned as it is; decoding switches are not the library call of the hypothesis *)
Context {file : Type} (read : file -> dataset).
Definition run_load (ld : load_d) (f : file) : option dataset :=
  match filter (fun s => match s with LPath | LRaiseIfMissing => false | _ => true end) ld with
  | [LOpen []; LReturnOpened] => Some (read f)
  | _ => None
  end.

End Interp.

(* ---------- the canonical description (what the model is a model of) ---------- *)

(* ks: the field whose unpacked shape gives the trailing extents (blocks are opaque: any field of the first result) *)
Definition canon_block (is3d : bool) (ks k : fkey) : data_d :=
  DFill (DNTime :: DNTowers :: (if is3d then [DShape ks 3 0; DShape ks 3 1; DShape ks 3 2]
                                else [DShape ks 2 0; DShape ks 2 1]))
        None LByName [IxT; IxTi] GAlways (CBlock k) None.
Definition canon_met (p : pkey) : data_d := DFill [DNTime] None LByName [IxT] GTi0 (CMet p) None.

Definition canon_norm (is3d : bool) (m : meta_d) (ks1 ks2 : fkey) : ds_norm :=
  let bd := "time" :: "tower" :: (if is3d then ["z"; "y"; "x"] else ["y"; "x"]) in
  mkNorm (bd, canon_block is3d ks1 KFlx) (bd, canon_block is3d ks2 KConc)
         (["time"], canon_met PUstar) (["time"], canon_met PMol) (["time"], canon_met PWs) (["time"], canon_met PWd)
         (["tower"], DMeta m TLat) (["tower"], DMeta m TLon) (["tower"], DMeta m TZm)
         (if is3d then (["x"], DCoordIdx GX [I0; I0; IAll]) else (["x"], DCoordIf2 GX [I0; IAll] GX))
         (if is3d then (["y"], DCoordIdx GY [I0; IAll; I0]) else (["y"], DCoordIf2 GY [IAll; I0] GY))
         (if is3d then Some (["z"], DCoordIdx GZ [IAll; I0; I0]) else None)
         (["time"], DStamps TStr) (["tower"], DNames NKeys) [].

(* CF metadata: every variable / coordinate carries long_name and units (except the two label coordinates), the
   global attributes are the listed ones and the three configuration values come from the named fields *)
Definition attr_keys (v : var_d) : list string := map fst (v_attrs v).
Definition cf_ok (v : var_d) : bool :=
  match attr_keys v with
  | [a; b] => (String.eqb a "long_name" && String.eqb b "units") || (String.eqb a "units" && String.eqb b "long_name")
  | [] => String.eqb (v_name v) "time" || String.eqb (v_name v) "tower"
  | _ => false
  end && forallb (fun kv => match snd kv with AStr _ => true | AConfig _ => false end) (v_attrs v).

Definition model_global_attrs : list (string * option (list string)) :=
  [("Conventions", None); ("title", None); ("source", None);
   ("closure", Some ["solver"; "closure"]); ("domain_xmax", Some ["domain"; "xmax"]);
   ("domain_ymax", Some ["domain"; "ymax"])].
Definition attr_kind (kv : string * attr_v) : string * option (list string) :=
  (fst kv, match snd kv with AStr _ => None | AConfig p => Some p end).

Definition metadata_ok (d : ds_d) : bool := forallb cf_ok (dd_vars d) && forallb cf_ok (dd_coords d).

(* ---------- a concrete description: what the translator emitted for the tree the model was written for (used by the
   non-vacuity Examples of Properties/C18.v; m = MByName is the code, m = MByPosition the ORIGINAL positional labelling) ---------- *)

Definition ex_save_3d (m : meta_d) : ds_d :=
  (mkDsD
     [
      mkVar "footprint" ["time"; "tower"; "z"; "y"; "x"] (DFill [DNTime; DNTowers; (DShape KFlx 3 0); (DShape KFlx 3 1); (DShape KFlx 3 2)] None LByName [IxT; IxTi] GAlways (CBlock KFlx) None) [("long_name", AStr "flux footprint"); ("units", AStr "m^-2")]; 
      mkVar "concentration" ["time"; "tower"; "z"; "y"; "x"] (DFill [DNTime; DNTowers; (DShape KFlx 3 0); (DShape KFlx 3 1); (DShape KFlx 3 2)] None LByName [IxT; IxTi] GAlways (CBlock KConc) None) [("long_name", AStr "concentration field"); ("units", AStr "scalar_unit")]; 
      mkVar "ustar" ["time"] (DFill [DNTime] None LByName [IxT] GTi0 (CMet PUstar) None) [("long_name", AStr "friction velocity"); ("units", AStr "m s^-1")]; 
      mkVar "mol" ["time"] (DFill [DNTime] None LByName [IxT] GTi0 (CMet PMol) None) [("long_name", AStr "Monin-Obukhov length"); ("units", AStr "m")]; 
      mkVar "wind_speed" ["time"] (DFill [DNTime] None LByName [IxT] GTi0 (CMet PWs) None) [("long_name", AStr "wind speed"); ("units", AStr "m s^-1")]; 
      mkVar "wind_dir" ["time"] (DFill [DNTime] None LByName [IxT] GTi0 (CMet PWd) None) [("long_name", AStr "wind direction"); ("units", AStr "degrees")]; 
      mkVar "tower_lat" ["tower"] (DMeta m TLat) [("long_name", AStr "tower latitude"); ("units", AStr "degrees_north")]; 
      mkVar "tower_lon" ["tower"] (DMeta m TLon) [("long_name", AStr "tower longitude"); ("units", AStr "degrees_east")]; 
      mkVar "tower_z" ["tower"] (DMeta m TZm) [("long_name", AStr "measurement height"); ("units", AStr "m")]]
     [
      mkVar "x" ["x"] (DCoordIdx GX [I0; I0; IAll]) [("long_name", AStr "easting"); ("units", AStr "m")]; 
      mkVar "y" ["y"] (DCoordIdx GY [I0; IAll; I0]) [("long_name", AStr "northing"); ("units", AStr "m")]; 
      mkVar "time" ["time"] (DStamps TStr) []; 
      mkVar "tower" ["tower"] (DNames NKeys) []; 
      mkVar "z" ["z"] (DCoordIdx GZ [IAll; I0; I0]) [("long_name", AStr "height"); ("units", AStr "m")]]
     [("Conventions", AStr "CF-1.8"); ("title", AStr "BLDFM footprint output"); ("source", AStr "BLDFM v1.0"); ("closure", AConfig ["solver"; "closure"]); ("domain_xmax", AConfig ["domain"; "xmax"]); ("domain_ymax", AConfig ["domain"; "ymax"])]
     [("footprint", [("zlib", EBool true); ("complevel", ENat 4)]); ("concentration", [("zlib", EBool true); ("complevel", ENat 4)])]).

Definition ex_save_2d (m : meta_d) : ds_d :=
  (mkDsD
     [
      mkVar "footprint" ["time"; "tower"; "y"; "x"] (DFill [DNTime; DNTowers; (DShape KFlx 2 0); (DShape KFlx 2 1)] None LByName [IxT; IxTi] GAlways (CBlock KFlx) None) [("long_name", AStr "flux footprint"); ("units", AStr "m^-2")]; 
      mkVar "concentration" ["time"; "tower"; "y"; "x"] (DFill [DNTime; DNTowers; (DShape KFlx 2 0); (DShape KFlx 2 1)] None LByName [IxT; IxTi] GAlways (CBlock KConc) None) [("long_name", AStr "concentration field"); ("units", AStr "scalar_unit")]; 
      mkVar "ustar" ["time"] (DFill [DNTime] None LByName [IxT] GTi0 (CMet PUstar) None) [("long_name", AStr "friction velocity"); ("units", AStr "m s^-1")]; 
      mkVar "mol" ["time"] (DFill [DNTime] None LByName [IxT] GTi0 (CMet PMol) None) [("long_name", AStr "Monin-Obukhov length"); ("units", AStr "m")]; 
      mkVar "wind_speed" ["time"] (DFill [DNTime] None LByName [IxT] GTi0 (CMet PWs) None) [("long_name", AStr "wind speed"); ("units", AStr "m s^-1")]; 
      mkVar "wind_dir" ["time"] (DFill [DNTime] None LByName [IxT] GTi0 (CMet PWd) None) [("long_name", AStr "wind direction"); ("units", AStr "degrees")]; 
      mkVar "tower_lat" ["tower"] (DMeta m TLat) [("long_name", AStr "tower latitude"); ("units", AStr "degrees_north")]; 
      mkVar "tower_lon" ["tower"] (DMeta m TLon) [("long_name", AStr "tower longitude"); ("units", AStr "degrees_east")]; 
      mkVar "tower_z" ["tower"] (DMeta m TZm) [("long_name", AStr "measurement height"); ("units", AStr "m")]]
     [
      mkVar "x" ["x"] (DCoordIf2 GX [I0; IAll] GX) [("long_name", AStr "easting"); ("units", AStr "m")]; 
      mkVar "y" ["y"] (DCoordIf2 GY [IAll; I0] GY) [("long_name", AStr "northing"); ("units", AStr "m")]; 
      mkVar "time" ["time"] (DStamps TStr) []; 
      mkVar "tower" ["tower"] (DNames NKeys) []]
     [("Conventions", AStr "CF-1.8"); ("title", AStr "BLDFM footprint output"); ("source", AStr "BLDFM v1.0"); ("closure", AConfig ["solver"; "closure"]); ("domain_xmax", AConfig ["domain"; "xmax"]); ("domain_ymax", AConfig ["domain"; "ymax"])]
     [("footprint", [("zlib", EBool true); ("complevel", ENat 4)]); ("concentration", [("zlib", EBool true); ("complevel", ENat 4)])]).

Definition ex_save (m : meta_d) : save_d := mkSaveD NKeys (KFlx, 3) (ex_save_3d m) (ex_save_2d m).

