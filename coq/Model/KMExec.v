(* Executable (rational) versions of the discrete parts of Model/KM.v, run by vm_compute in the correspondence:
   the wrap / bin / window predicates of estimateZ0's smoothing loop and the cell-centre coordinates and
   counts of estimateFootprint's grid.  Proofs/KMProofs.v ties them to the real-number model (Q2R). *)
From Coq Require Import QArith Qround ZArith List Bool.
Import ListNotations.
Open Scope Q_scope.

Definition Qltb (a b : Q) : bool := if Qlt_le_dec a b then true else false.
Definition Qleb (a b : Q) : bool := if Qlt_le_dec b a then false else true.

Definition wrappedQ (kk wd : Q) : Q :=
  if Qltb kk 90 then (if Qltb 270 wd then wd - 360 else wd)
  else if Qltb 270 kk then (if Qltb wd 90 then wd + 360 else wd)
  else wd.
Definition in_binQ (kk wd : Q) : bool := Qleb kk wd && Qltb wd (kk + 1).
Definition in_windowQ (kk w wd : Q) : bool :=
  Qleb (kk - w) (wrappedQ kk wd) && Qltb (wrappedQ kk wd) (kk + 1 + w).

(* for the observation with direction wd: Some (mask over all observations) of the window of its bin
   kk = floor wd, or None when wd is outside [0, 360) (the observation keeps the initial nan) *)
Definition window_mask (w : Q) (wds : list Q) (wd : Q) : option (list bool) :=
  let kk := Qfloor wd in
  if ((0 <=? kk) && (kk <? 360))%Z then Some (map (in_windowQ (inject_Z kk) w) wds) else None.

(* grid: np.arange(lo + res/2, hi, res) has ceil((hi - lo)/res - 1/2) entries, entry j = lo + (j + 1/2) res;
   np.arange(hi - res/2, lo, -res) likewise descending *)
Definition grid_count (lo hi res : Q) : Z := Z.max 0 (Qceiling ((hi - lo) / res - (1 # 2))).
Definition grid_xcQ (xmin res : Q) (j : Z) : Q := xmin + (inject_Z j + (1 # 2)) * res.
Definition grid_ycQ (ymax res : Q) (i : Z) : Q := ymax - (inject_Z i + (1 # 2)) * res.

Fixpoint Qeq_list (a b : list Q) : bool :=
  match a, b with
  | [], [] => true
  | x :: a', y :: b' => Qeq_bool x y && Qeq_list a' b'
  | _, _ => false
  end.
Definition grid_ok (xmin xmax ymin ymax res : Q) (xs ys : list Q) : bool :=
  (Z.of_nat (length xs) =? grid_count xmin xmax res)%Z &&
  (Z.of_nat (length ys) =? grid_count ymin ymax res)%Z &&
  Qeq_list xs (map (fun j => grid_xcQ xmin res (Z.of_nat j)) (seq 0 (length xs))) &&
  Qeq_list ys (map (fun i => grid_ycQ ymax res (Z.of_nat i)) (seq 0 (length ys))).
