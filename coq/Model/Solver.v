(* Model of bldfm.solver.steady_state_transport_solver and ivp_solver, written once over Ops.

   Per-mode algebra (Ti, layer step, eigenvalue, shooting coefficient, trapezoidal mean mode,
   level recording, analytic branch, phase shifts) follows the source expression by expression
   (these kernels are also re-extracted from the source on every run and bridged, Bridge/SolverBridge.v).
   The array plumbing pad -> fft2 -> fftshift -> slice -> ifftshift ... fftshift -> pad -> ifftshift ->
   fft2/ifft2 -> crop is modelled in "frequency-set" form: retained index t of an axis carries
   the integer frequency fftfreq(nl)[t] and lives at index (freq mod n) of the padded spectrum
   (Proofs/Plumbing.v proves that the code's shift/slice/pad index arithmetic is this map);
   pyFFTW is modelled by the definition of the DFT. *)
From Coq Require Import ZArith List Bool.
From BL Require Import Base.Ops.
Import ListNotations.

Section Solver.
Variable O : Ops.
Notation C := (C O).
Notation "0" := (c0 O) : ops_scope. Notation "1" := (c1 O) : ops_scope.
Infix "+" := (cadd O) : ops_scope. Infix "*" := (cmul O) : ops_scope.
Infix "-" := (csub O) : ops_scope. Infix "/" := (cdiv O) : ops_scope.
Notation "- x" := (copp O x) : ops_scope.
Local Open Scope ops_scope.
Notation ofZ := (cofZ O).
Notation ofN n := (cofZ O (Z.of_nat n)).
Notation i_ := (ci O).
Definition two : C := ofZ 2%Z.
Definition half : C := cofQ O 1%Z 2%Z.
Definition sixth : C := cofQ O 1%Z 6%Z.

(* ------------------------------------------------------------------ kernels (bridged) *)

(* Ti = -(Kx[i]*Lx**2 + Ky[i]*Ly**2) - 1j*u[i]*Lx - 1j*v[i]*Ly *)
Definition Tsym (Kx Ky u v lx ly : C) : C :=
  - (Kx * (lx * lx) + Ky * (ly * ly)) - i_ * u * lx - i_ * v * ly.

Definition coef_a (Kzinv Ti dz : C) : C := 1 - half * Kzinv * Ti * (dz * dz).
Definition coef_b (Kzinv Ti dz : C) : C := - Kzinv * dz + sixth * (Kzinv * Kzinv) * Ti * (dz * dz * dz).
Definition coef_c (Kzinv Ti dz : C) : C := Ti * dz - sixth * Kzinv * (Ti * Ti) * (dz * dz * dz).
Definition coef_d (Kzinv Ti dz : C) : C := 1 - half * Kzinv * Ti * (dz * dz).

(* one layer of ivp_solver: (p, q) at node i  ->  (p, q) at node i+1 *)
Record layer := mkLayer { l_Kx : C; l_Ky : C; l_u : C; l_v : C; l_Kz : C; l_dz : C }.

Definition step (lx ly : C) (L : layer) (st : C * C) : C * C :=
  let Ti := Tsym (l_Kx L) (l_Ky L) (l_u L) (l_v L) lx ly in
  let Kzinv := 1 / l_Kz L in
  let dz := l_dz L in
  (coef_a Kzinv Ti dz * fst st + coef_b Kzinv Ti dz * snd st,
   coef_c Kzinv Ti dz * fst st + coef_d Kzinv Ti dz * snd st).

(* eigval = sqrt(Kx/Kz*Lx**2 + Ky/Kz*Ly**2 + 1j*u/Kz*Lx + 1j*v/Kz*Ly) at the top node *)
Definition eig_radicand (Kx Ky u v Kz lx ly : C) : C :=
  let Kzinv := 1 / Kz in
  (Kx * Kzinv) * (lx * lx) + (Ky * Kzinv) * (ly * ly) + i_ * u * Kzinv * lx + i_ * v * Kzinv * ly.
Definition eigval (Kx Ky u v Kz lx ly : C) : C := csqrt O (eig_radicand Kx Ky u v Kz lx ly).

(* alpha = -(q2 - Kz*eig*p2) / (q1 - Kz*eig*p1) *)
Definition alpha (KzN eig p1 q1 p2 q2 : C) : C :=
  - (q2 - KzN * eig * p2) / (q1 - KzN * eig * p1).

(* trapezoidal update of the mean mode: p00 - q00*dz*(0.5/Kz_i + 0.5/Kz_{i+1}) *)
Definition mean_update (p00 q00 dz Kz0 Kz1 : C) : C :=
  p00 - q00 * dz * (half / Kz0 + half / Kz1).

(* wavenumber: lx = 2*pi/dx/nxe * ilx *)
Definition wavenumber (dx : C) (n : nat) (k : Z) : C := two * cpi O / dx / ofN n * ofZ k.

(* footprint shift argument  Lx*(xm + px*dx) + Ly*(ym + py*dy)  [repaired code] *)
Definition shift_arg_fp (lx ly xm ym dx dy : C) (px py : nat) : C :=
  lx * (xm + ofN px * dx) + ly * (ym + ofN py * dy).
(* dispersion re-centring shift argument  Lx*(xm - xmx/2) + Ly*(ym - ymx/2) *)
Definition shift_arg_ctr (lx ly xm ym xmx ymx : C) : C :=
  lx * (xm - xmx / two) + ly * (ym - ymx / two).

(* ------------------------------------------------------------------ level recording *)

(* for k in range(nlvls): if levels[k] == i: rec[k] = x   [repaired code: by position] *)
Definition record (levels : list nat) (i : nat) (x : C) (rec : list C) : list C :=
  map (fun lr => if Nat.eqb (fst lr) i then x else snd lr) (combine levels rec).

Definition zeros (n : nat) : list C := repeat 0 n.

Fixpoint ivp_loop (lx ly : C) (layers : list layer) (i : nat) (levels : list nat)
         (st : C * C) (rp rq : list C) : (C * C) * list C * list C :=
  match layers with
  | [] => (st, rp, rq)
  | L :: rest =>
      ivp_loop lx ly rest (S i) levels (step lx ly L st)
               (record levels i (fst st) rp) (record levels i (snd st) rq)
  end.

(* ivp_solver for one mode: final state and the recorded levels *)
Definition ivp (lx ly : C) (layers : list layer) (levels : list nat) (st0 : C * C)
  : (C * C) * list C * list C :=
  let '(st, rp, rq) := ivp_loop lx ly layers 0%nat levels st0
                                 (zeros (length levels)) (zeros (length levels)) in
  (st, record levels (length layers) (fst st) rp, record levels (length layers) (snd st) rq).

(* mean mode: running trapezoid with recording by position *)
Fixpoint mean_loop (q00 : C) (dzs Kzs : list C) (i : nat) (levels : list nat) (p00 : C) (rec : list C)
  : C * list C :=
  match dzs, Kzs with
  | dz :: dzs', Kz0 :: ((Kz1 :: _) as Kzs') =>
      mean_loop q00 dzs' Kzs' (S i) levels (mean_update p00 q00 dz Kz0 Kz1) (record levels i p00 rec)
  | _, _ => (p00, record levels i p00 rec)
  end.

(* ------------------------------------------------------------------ arguments *)

Record profiles := mkProf { p_u : list C; p_v : list C; p_Kx : list C; p_Ky : list C; p_Kz : list C }.

Record args := mkArgs {
  a_q0 : list (list C);          (* ny rows of nx values *)
  a_z : list C;
  a_prof : profiles;
  a_xmx : C; a_ymx : C;
  a_levels : list nat;
  a_nlx : nat; a_nly : nat;
  a_xm : C; a_ym : C;
  a_p000 : C;
  a_footprint : bool; a_analytic : bool;
  a_halo : option C;
  a_single : bool
}.

Inductive error := ModesOdd | NegativePad | LevelIndex | EmptyGrid.

Definition nth0 (l : list C) (i : nat) : C := nth i l 0%ops.

Fixpoint diffs (z : list C) : list C :=
  match z with a :: ((b :: _) as r) => (b - a) :: diffs r | _ => [] end.

Fixpoint mk_layers (Kx Ky u v Kz dz : list C) : list layer :=
  match Kx, Ky, u, v, Kz, dz with
  | a :: Kx, b :: Ky, c :: u, d :: v, e :: Kz, f :: dz => mkLayer a b c d e f :: mk_layers Kx Ky u v Kz dz
  | _, _, _, _, _, _ => []
  end.

Definition layers_of (z : list C) (pr : profiles) : list layer :=
  mk_layers (p_Kx pr) (p_Ky pr) (p_u pr) (p_v pr) (p_Kz pr) (diffs z).

(* numpy.fft.fftfreq(n, d=1/n)[t] as an integer *)
Definition fftfreq (n : nat) (t : nat) : Z :=
  if (Z.of_nat t <=? (Z.of_nat n - 1) / 2)%Z then Z.of_nat t else (Z.of_nat t - Z.of_nat n)%Z.

(* geometry derived from the arguments *)
Record geom := mkGeom {
  g_nx : nat; g_ny : nat; g_nz : nat;
  g_dx : C; g_dy : C;
  g_px : nat; g_py : nat;
  g_nxe : nat; g_nye : nat;
  g_nlx : nat; g_nly : nat          (* after the clamp *)
}.

Definition geometry (a : args) : geom + error :=
  if Nat.odd (a_nlx a) || Nat.odd (a_nly a) then inr ModesOdd else
  let ny := length (a_q0 a) in
  let nx := length (hd [] (a_q0 a)) in
  let nz := length (a_z a) in
  let dx := a_xmx a / ofN nx in
  let dy := a_ymx a / ofN ny in
  let halo := match a_halo a with Some h => h | None => cmax O (a_xmx a) (a_ymx a) end in
  let px := ctrunc O (halo / dx) in
  let py := ctrunc O (halo / dy) in
  if (px <? 0)%Z || (py <? 0)%Z then inr NegativePad else
  let px := Z.to_nat px in let py := Z.to_nat py in
  let nxe := (nx + 2 * px)%nat in
  let nye := (ny + 2 * py)%nat in
  let '(nlx, nly) := if (nxe <? a_nlx a)%nat || (nye <? a_nly a)%nat then (nxe, nye)
                     else (a_nlx a, a_nly a) in
  if existsb (fun l => (nz <=? l)%nat) (a_levels a) then inr LevelIndex else
  inl (mkGeom nx ny nz dx dy px py nxe nye nlx nly).

Definition halo_of (a : args) : C :=
  match a_halo a with Some h => h | None => cmax O (a_xmx a) (a_ymx a) end.

(* ------------------------------------------------------------------ transforms *)

Definition twopi : C := two * cpi O.

(* phase 2*pi*(ky*j/nye + kx*i/nxe) *)
Definition phase (g : geom) (kx ky : Z) (i j : nat) : C :=
  twopi * (ofZ (ky * Z.of_nat j) / ofN (g_nye g) + ofZ (kx * Z.of_nat i) / ofN (g_nxe g)).

(* forward-normalised DFT of the zero-padded source at integer frequency (kx, ky) *)
Definition src_hat (a : args) (g : geom) (kx ky : Z) : C :=
  let scale := 1 / ofN (g_nxe g) / ofN (g_nye g) in
  scale *
  csum O (map (fun jr =>
        csum O (map (fun ix => snd ix * cis O (- phase g kx ky (fst ix + g_px g)%nat (fst jr + g_py g)%nat))
                    (combine (seq 0%nat (g_nx g)) (snd jr))))
      (combine (seq 0%nat (g_ny g)) (a_q0 a))).

(* the truncated spectrum tfftq0[ty, tx] *)
Definition q0_hat (a : args) (g : geom) (tx ty : nat) : C :=
  if a_footprint a then 1 / ofN (g_nxe g) / ofN (g_nye g)
  else src_hat a g (fftfreq (g_nlx g) tx) (fftfreq (g_nly g) ty).

(* ------------------------------------------------------------------ per-mode solution *)

Definition rho (a : args) (x : C) : C := if a_single a then cround O x else x.

Definition topN (l : list C) (nz : nat) : C := nth0 l (pred nz).

(* levels-by-levels (P_l, Q_l) of a non-mean mode whose source amplitude is qh *)
Definition mode_levels_q (a : args) (g : geom) (tx ty : nat) (qh : C) : list (C * C) :=
  let pr := a_prof a in
  let nz := g_nz g in
  let lx := wavenumber (g_dx g) (g_nxe g) (fftfreq (g_nlx g) tx) in
  let ly := wavenumber (g_dy g) (g_nye g) (fftfreq (g_nly g) ty) in
  let KzN := topN (p_Kz pr) nz in
  let eig := eigval (topN (p_Kx pr) nz) (topN (p_Ky pr) nz) (topN (p_u pr) nz) (topN (p_v pr) nz) KzN lx ly in
  if a_analytic a then
    let Kzinv := 1 / KzN in
    map (fun l => let h := nth0 (a_z a) l - nth0 (a_z a) 0%nat in
                  let Q := rho a (qh * cexp O (- eig * h)) in
                  (rho a (Q * Kzinv / eig), Q)) (a_levels a)
  else
    let layers := layers_of (a_z a) pr in
    let '(st1, rp1, rq1) := ivp lx ly layers (a_levels a) (1, 0) in
    let '(st2, rp2, rq2) := ivp lx ly layers (a_levels a) (0, qh) in
    let al := alpha KzN eig (fst st1) (snd st1) (fst st2) (snd st2) in
    map (fun r => (rho a (al * fst (fst r) + fst (snd r)), rho a (al * snd (fst r) + snd (snd r))))
        (combine (combine rp1 rq1) (combine rp2 rq2)).

Definition mode_levels (a : args) (g : geom) (tx ty : nat) : list (C * C) :=
  mode_levels_q a g tx ty (q0_hat a g tx ty).

(* mean mode (P_l, Q_l) for mean source amplitude q00 and background p000 *)
Definition mean_levels_q (a : args) (g : geom) (q00 p000 : C) : list (C * C) :=
  let Q := rho a q00 in
  if a_analytic a then
    let Kzinv := 1 / topN (p_Kz (a_prof a)) (g_nz g) in
    map (fun l => let h := nth0 (a_z a) l - nth0 (a_z a) 0%nat in
                  (rho a (p000 - q00 * Kzinv * h), Q)) (a_levels a)
  else
    let '(_, rec) := mean_loop q00 (diffs (a_z a)) (p_Kz (a_prof a)) 0%nat (a_levels a) p000
                               (zeros (length (a_levels a))) in
    map (fun p => (rho a p, Q)) rec.

Definition mean_levels (a : args) (g : geom) : list (C * C) :=
  mean_levels_q a g (q0_hat a g 0%nat 0%nat) (a_p000 a).

Definition spectrum (a : args) (g : geom) (tx ty : nat) : list (C * C) :=
  match tx, ty with 0%nat, 0%nat => mean_levels a g | _, _ => mode_levels a g tx ty end.

(* phase shift applied to every retained mode (the mean mode has lx = ly = 0) *)
Definition shift (a : args) (g : geom) (tx ty : nat) : C :=
  let lx := wavenumber (g_dx g) (g_nxe g) (fftfreq (g_nlx g) tx) in
  let ly := wavenumber (g_dy g) (g_nye g) (fftfreq (g_nly g) ty) in
  if a_footprint a then cis O (shift_arg_fp lx ly (a_xm a) (a_ym a) (g_dx g) (g_dy g) (g_px g) (g_py g))
  else if cltb O 0 (a_xm a * a_xm a + a_ym a * a_ym a)
       then cis O (shift_arg_ctr lx ly (a_xm a) (a_ym a) (a_xmx a) (a_ymx a))
       else 1.

(* ------------------------------------------------------------------ synthesis and crop *)

Definition modes_of (g : geom) : list (nat * nat) :=
  flat_map (fun ty => map (fun tx => (tx, ty)) (seq 0%nat (g_nlx g))) (seq 0%nat (g_nly g)).

(* shifted spectra: for every retained mode, its frequencies and per-level (P, Q) *)
Definition table (a : args) (g : geom) : list ((Z * Z) * list (C * C)) :=
  map (fun t => let s := shift a g (fst t) (snd t) in
                ((fftfreq (g_nlx g) (fst t), fftfreq (g_nly g) (snd t)),
                 map (fun pq => (fst pq * s, snd pq * s)) (spectrum a g (fst t) (snd t))))
      (modes_of g).

(* fft2(., norm="backward").real in footprint mode, ifft2(., norm="forward").real otherwise,
   evaluated at padded index (i, j) *)
Definition synth (a : args) (g : geom) (sel : C * C -> C) (tab : list ((Z * Z) * list (C * C)))
           (l : nat) (i j : nat) : C :=
  cre O (csum O (map (fun e =>
     let ph := phase g (fst (fst e)) (snd (fst e)) i j in
     sel (nth l (snd e) (0, 0)) * cis O (if a_footprint a then - ph else ph)) tab)).

Definition field (a : args) (g : geom) (sel : C * C -> C) (tab : list ((Z * Z) * list (C * C)))
  : list (list (list C)) :=
  map (fun l => map (fun j => map (fun i => synth a g sel tab l (i + g_px g)%nat (j + g_py g)%nat)
                                  (seq 0%nat (g_nx g))) (seq 0%nat (g_ny g)))
      (seq 0%nat (length (a_levels a))).

Record result := mkResult {
  r_x : list C; r_y : list C; r_z : list C;          (* coordinates: x_i, y_j, z[levels] *)
  r_conc : list (list (list C));
  r_flx : list (list (list C));
  r_shape : list nat                                 (* shape after np.squeeze *)
}.

Definition squeeze_shape (s : list nat) : list nat := filter (fun n => negb (Nat.eqb n 1%nat)) s.

Definition solve (a : args) : result + error :=
  match geometry a with
  | inr e => inr e
  | inl g =>
    let tab := table a g in
    inl (mkResult
      (map (fun i => ofN i * (a_xmx a / ofN (g_nx g))) (seq 0%nat (g_nx g)))
      (map (fun j => ofN j * (a_ymx a / ofN (g_ny g))) (seq 0%nat (g_ny g)))
      (map (fun l => nth0 (a_z a) l) (a_levels a))
      (field a g fst tab)
      (field a g snd tab)
      (squeeze_shape [length (a_levels a); g_ny g; g_nx g]))
  end.

End Solver.
