(* Executable instance of Model/Drivers.v for the correspondence check: towers are (position, name token),
   the single run of tower number k at step i is the pair (k, i). *)
From Coq Require Import List ZArith Bool.
From BL Require Import Model.Drivers.
Import ListNotations.

Definition xtower := (nat * Z)%type.
Definition xname (t : xtower) : Z := snd t.
Definition xsingle (t : xtower) (i : nat) : nat * nat := (fst t, i).
Definition xdict := list (Z * list (nat * nat)).

Definition xmultitower (n : nat) (towers : list xtower) : xdict := multitower xname Z.eq_dec xsingle n towers.
Definition xpar_towers n towers sched : option xdict := par_towers xname Z.eq_dec xsingle n towers sched.
Definition xpar_time n towers scheds : option xdict := par_time xname Z.eq_dec xsingle n towers scheds.
Definition xpar_both n towers sched : option xdict := par_both xname Z.eq_dec xsingle n towers sched.

Fixpoint pairs_eqb (a b : list (nat * nat)) : bool :=
  match a, b with
  | [], [] => true
  | (x, y) :: a, (x', y') :: b => Nat.eqb x x' && Nat.eqb y y' && pairs_eqb a b
  | _, _ => false
  end.
Fixpoint xdict_eqb (a b : xdict) : bool :=
  match a, b with
  | [], [] => true
  | (k, v) :: a, (k', v') :: b => Z.eqb k k' && pairs_eqb v v' && xdict_eqb a b
  | _, _ => false
  end.
Definition oxdict_eqb (a : option xdict) (b : xdict) : bool :=
  match a with Some a => xdict_eqb a b | None => false end.

(* schedule number k of the "time" strategy from a list *)
Definition nth_sched (l : list (list event)) (k : nat) : list event := nth k l [].
