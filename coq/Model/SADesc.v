(* Array-program language for the tie (B) of the ARRAY part of C20, and its meaning.

   harness/py2coq_sa.py transliterates the CURRENT bodies of
       bldfm.utils.get_source_area,
       bldfm.plotting.footprint.extract_percentile_contour,
       bldfm.plotting._common._maybe_slice_level
   statement by statement into closed terms of the types below (build/C20/GenSA.v); it interprets nothing.
   What a piece of syntax MEANS is fixed here, by `run_fn` (an interpreter over exact rationals):

     * an n-d array is a dtype KIND tag (integer / floating), a shape, and its elements in C order;
       `ravel()` and `reshape` therefore only change the shape, `x[i]` on the first axis cuts the i-th block;
     * `np.argsort` is NOT given a meaning: it is the Section variable `argsort` (any function; the bridge
       lemmas assume `argsort_ok`: it returns a permutation that sorts non-decreasingly; nothing about ties);
       `x[::-1]` is `rev`, `x[order]` is the model's `gather` (indices must be in range), `np.cumsum` the model's
       `cumsum`, `np.searchsorted(a, v)` (side left) the model's `searchsorted_left`;
     * `np.empty_like` allocates an array filled with the Section variable `junk` (any value; numpy gives no
       guarantee), `np.zeros_like` one filled with 0; both keep the dtype kind and the shape;
     * `x[lo:hi] = e` and `x[order] = e` store INTO x: the values are cast to x's dtype kind (an integer x
       truncates floating values, `trunc_int` of Model/SourceArea.v) and the lengths have to agree exactly
       (numpy's broadcasting of a length-1 right-hand side is outside the fragment: no value);
     * Python ints are Z (negative indices wrap once, `min` is Python's), floats and numpy scalars are Q (the
       dtype of a scalar is not tracked), `float(.)` converts;
     * anything the interpreter has no rule for (a type error, an index out of range, a missing name, a call
       of an unknown function, a body that ends without `return`) has NO value (None).
   Value semantics (no aliasing) is faithful because the translator rejects every program in which an array
   that is stored into could be reachable under a second name (see py2coq_sa.py).

   coq/Bridge/SABridge.v proves, on every run, that the interpreted generated programs equal
   SourceArea.get_source_area / slice_level / extract_percentile_contour for ALL inputs.
   No proofs in this file. *)
From Coq Require Import String List Arith ZArith QArith Qabs Bool Permutation.
From BL Require Import Model.SourceArea.
Import ListNotations.
Open Scope string_scope.
Open Scope list_scope.
Open Scope Q_scope.

(* ------------------------------------------------------------------ syntax (closed terms) *)

Inductive dtype := DInt | DFloat.          (* dtype KIND: 'i'/'u' | 'f' *)

Inductive lit := LInt (z : Z) | LFloat (q : Q).       (* parameter defaults *)

Inductive npfun := NArgsort | NCumsum | NZerosLike | NEmptyLike | NAbs.
Inductive binop := BAdd | BSub | BMul.

Inductive expr :=
| EName (x : string)
| EInt (z : Z)                            (* integer literal *)
| ETuple (l : list expr)                  (* a, b, ... *)
| ENdim (e : expr)                        (* e.ndim *)
| EShape (e : expr)                       (* e.shape *)
| ERavel (e : expr)                       (* e.ravel()      (C order; any argument is rejected) *)
| EReshape (e sh : expr)                  (* e.reshape(sh) *)
| ENp (f : npfun) (e : expr)              (* np.f(e) *)
| ESearchsorted (a v : expr)              (* np.searchsorted(a, v)   (side left; any keyword is rejected) *)
| ERev (e : expr)                         (* e[::-1] *)
| ESlice (e : expr) (lo hi : option Z)    (* e[lo:hi] *)
| EIndex (e i : expr)                     (* e[i] *)
| EIndex2 (e i j : expr)                  (* e[i, j] *)
| EBin (op : binop) (a b : expr)          (* a + b, a - b, a * b *)
| EEq (a b : expr)                        (* a == b *)
| EIfExp (c a b : expr)                   (* a if c else b *)
| ECall (f : string) (args : list expr)   (* f(args)  for a function of the table *)
| EMin (a b : expr)                       (* min(a, b) *)
| ELen (e : expr)                         (* len(e) *)
| EFloat (e : expr).                      (* float(e) *)

Inductive stmt :=
| SAssign (x : string) (e : expr)                         (* x = e *)
| SUnpack (xs : list string) (e : expr)                   (* x, y, .. = e *)
| SSetSlice (x : string) (lo hi : option Z) (e : expr)    (* x[lo:hi] = e *)
| SSetIndex (x : string) (i e : expr)                     (* x[i] = e *)
| SIf (c : expr) (th el : list stmt)
| SReturn (e : expr).

Record fn_desc := mkFn {
  fd_name : string;
  fd_params : list (string * option lit);
  fd_body : list stmt }.

(* ------------------------------------------------------------------ values *)

Inductive value :=
| VArr (dt : dtype) (sh : list nat) (data : list Q)
| VIdx (idx : list nat)                   (* the 1-D index array returned by argsort *)
| VNum (q : Q)
| VInt (z : Z)
| VBool (b : bool)
| VShape (sh : list nat)                  (* e.shape: usable only as the argument of reshape *)
| VTuple (l : list value).

Definition env := list (string * value).

Fixpoint lookup {A} (x : string) (rho : list (string * A)) : option A :=
  match rho with
  | [] => None
  | (y, v) :: r => if String.eqb x y then Some v else lookup x r
  end.

Definition prod_shape (sh : list nat) : nat := fold_right Nat.mul 1%nat sh.

(* what the bridge lemmas require of numpy's argsort *)
Definition asc_list (l : list Q) : Prop :=
  forall i j, (i <= j)%nat -> (j < length l)%nat -> nth i l 0 <= nth j l 0.
Definition sorts_asc (x : list Q) (o : list nat) : Prop :=
  Permutation o (seq 0 (length x)) /\ asc_list (gather x o).
Definition argsort_ok (argsort : list Q -> list nat) : Prop := forall x, sorts_asc x (argsort x).

(* ------------------------------------------------------------------ array primitives *)

(* the store of `vals` at the positions `idx` into an existing buffer (the model's scatter starts from zeros) *)
Definition scatter_into (acc : list Q) (idx : list nat) (vals : list Q) : list Q :=
  fold_left (fun acc iv => upd acc (fst iv) (snd iv)) (combine idx vals) acc.

(* values of kind `src` stored into an array of kind `dst` *)
Definition cast_list (dst src : dtype) (l : list Q) : list Q :=
  match dst, src with
  | DInt, DFloat => map trunc_int l
  | _, _ => l
  end.

(* Python index normalisation for an axis of length n: negative indices wrap once *)
Definition norm_index (n : nat) (z : Z) : option nat :=
  let z' := (if z <? 0 then z + Z.of_nat n else z)%Z in
  if ((0 <=? z') && (z' <? Z.of_nat n))%Z then Some (Z.to_nat z') else None.

(* Python slice bound normalisation (step 1) *)
Definition norm_bound (n : nat) (dflt : nat) (b : option Z) : nat :=
  match b with
  | None => dflt
  | Some z => if (z <? 0)%Z then Z.to_nat (Z.max 0 (z + Z.of_nat n)) else Nat.min (Z.to_nat z) n
  end.

Definition slice_list (l : list Q) (lo hi : option Z) : list Q :=
  let n := length l in
  let a := norm_bound n 0%nat lo in
  let b := norm_bound n n hi in
  firstn (b - a) (skipn a l).

Definition set_slice_list (l : list Q) (lo hi : option Z) (src : list Q) : option (list Q) :=
  let n := length l in
  let a := norm_bound n 0%nat lo in
  let b := norm_bound n n hi in
  if Nat.eqb (length src) (b - a) then Some (firstn a l ++ src ++ skipn (a + (b - a)) l) else None.

Definition in_range (n : nat) (idx : list nat) : bool := forallb (fun i => (i <? n)%nat) idx.

Definition qop (op : binop) : Q -> Q -> Q :=
  match op with BAdd => Qplus | BSub => Qminus | BMul => Qmult end.
Definition zop (op : binop) : Z -> Z -> Z :=
  match op with BAdd => Z.add | BSub => Z.sub | BMul => Z.mul end.

Definition lit_value (l : lit) : value := match l with LInt z => VInt z | LFloat q => VNum q end.

(* x[i] for an integer i on the first axis *)
Definition index_int (v : value) (z : Z) : option value :=
  match v with
  | VArr dt (n :: sh) d =>
    match norm_index n z with
    | Some i =>
      match sh with
      | [] => Some (VNum (nth i d 0))
      | _ => let m := prod_shape sh in Some (VArr dt sh (firstn m (skipn (i * m) d)))
      end
    | None => None
    end
  | _ => None
  end.

Definition index_value (v i : value) : option value :=
  match i with
  | VInt z => index_int v z
  | VIdx idx =>
    match v with
    | VArr dt [_] d => if in_range (length d) idx then Some (VArr dt [length idx] (gather d idx)) else None
    | _ => None
    end
  | _ => None
  end.

Definition bin_value (op : binop) (a b : value) : option value :=
  match a, b with
  | VInt x, VInt y => Some (VInt (zop op x y))
  | VNum x, VNum y => Some (VNum (qop op x y))
  | VInt x, VNum y => Some (VNum (qop op (inject_Z x) y))
  | VNum x, VInt y => Some (VNum (qop op x (inject_Z y)))
  | VArr dt sh d, VNum y => Some (VArr DFloat sh (map (fun x => qop op x y) d))
  | VArr dt sh d, VInt y => Some (VArr dt sh (map (fun x => qop op x (inject_Z y)) d))
  | VNum x, VArr dt sh d => Some (VArr DFloat sh (map (fun y => qop op x y) d))
  | VInt x, VArr dt sh d => Some (VArr dt sh (map (fun y => qop op (inject_Z x) y) d))
  | _, _ => None
  end.

Definition len_value (v : value) : option value :=
  match v with
  | VArr _ (n :: _) _ => Some (VInt (Z.of_nat n))
  | VIdx l => Some (VInt (Z.of_nat (length l)))
  | VTuple l => Some (VInt (Z.of_nat (length l)))
  | _ => None
  end.

Fixpoint bind_params (ps : list (string * option lit)) (args : list value) : option env :=
  match ps, args with
  | [], [] => Some []
  | [], _ :: _ => None
  | (x, _) :: ps, v :: args =>
    match bind_params ps args with Some r => Some ((x, v) :: r) | None => None end
  | (x, Some l) :: ps, [] =>
    match bind_params ps [] with Some r => Some ((x, lit_value l) :: r) | None => None end
  | (_, None) :: _, [] => None
  end.

Fixpoint bind_names (xs : list string) (vs : list value) (rho : env) : option env :=
  match xs, vs with
  | [], [] => Some rho
  | x :: xs, v :: vs => bind_names xs vs ((x, v) :: rho)
  | _, _ => None
  end.

(* ------------------------------------------------------------------ the interpreter *)

Section Interp.
Variable argsort : list Q -> list nat.      (* numpy's argsort: not modelled *)
Variable junk : Q.                          (* contents of np.empty_like: not specified *)
Variable call : string -> list value -> option value.   (* the described functions that may be called *)

Definition np_value (f : npfun) (v : value) : option value :=
  match f, v with
  | NArgsort, VArr _ [_] d => Some (VIdx (argsort d))
  | NCumsum, VArr dt _ d => Some (VArr dt [length d] (cumsum d))
  | NZerosLike, VArr dt sh d => Some (VArr dt sh (repeat 0 (length d)))
  | NEmptyLike, VArr dt sh d => Some (VArr dt sh (repeat junk (length d)))
  | NAbs, VNum q => Some (VNum (Qabs q))
  | NAbs, VInt z => Some (VInt (Z.abs z))
  | NAbs, VArr dt sh d => Some (VArr dt sh (map Qabs d))
  | _, _ => None
  end.

Fixpoint eval (rho : env) (e : expr) {struct e} : option value :=
  match e with
  | EName x => lookup x rho
  | EInt z => Some (VInt z)
  | ETuple l =>
    match (fix evs (l : list expr) : option (list value) :=
             match l with
             | [] => Some []
             | e :: r => match eval rho e, evs r with Some v, Some vs => Some (v :: vs) | _, _ => None end
             end) l with
    | Some vs => Some (VTuple vs)
    | None => None
    end
  | ENdim e => match eval rho e with Some (VArr _ sh _) => Some (VInt (Z.of_nat (length sh))) | _ => None end
  | EShape e => match eval rho e with Some (VArr _ sh _) => Some (VShape sh) | _ => None end
  | ERavel e => match eval rho e with Some (VArr dt _ d) => Some (VArr dt [length d] d) | _ => None end
  | EReshape e sh =>
    match eval rho e, eval rho sh with
    | Some (VArr dt _ d), Some (VShape s) => if Nat.eqb (prod_shape s) (length d) then Some (VArr dt s d) else None
    | _, _ => None
    end
  | ENp f e => match eval rho e with Some v => np_value f v | None => None end
  | ESearchsorted a v =>
    match eval rho a, eval rho v with
    | Some (VArr _ [_] d), Some (VNum q) => Some (VInt (Z.of_nat (searchsorted_left d q)))
    | Some (VArr _ [_] d), Some (VInt z) => Some (VInt (Z.of_nat (searchsorted_left d (inject_Z z))))
    | _, _ => None
    end
  | ERev e =>
    match eval rho e with
    | Some (VIdx l) => Some (VIdx (rev l))
    | Some (VArr dt [n] d) => Some (VArr dt [n] (rev d))
    | _ => None
    end
  | ESlice e lo hi =>
    match eval rho e with
    | Some (VArr dt [_] d) => let r := slice_list d lo hi in Some (VArr dt [length r] r)
    | _ => None
    end
  | EIndex e i =>
    match eval rho e, eval rho i with Some v, Some iv => index_value v iv | _, _ => None end
  | EIndex2 e i j =>
    match eval rho e, eval rho i, eval rho j with
    | Some v, Some (VInt zi), Some (VInt zj) =>
      match index_int v zi with Some w => index_int w zj | None => None end
    | _, _, _ => None
    end
  | EBin op a b => match eval rho a, eval rho b with Some x, Some y => bin_value op x y | _, _ => None end
  | EEq a b =>
    match eval rho a, eval rho b with Some (VInt x), Some (VInt y) => Some (VBool (Z.eqb x y)) | _, _ => None end
  | EIfExp c a b =>
    match eval rho c with Some (VBool true) => eval rho a | Some (VBool false) => eval rho b | _ => None end
  | ECall f args =>
    match (fix evs (l : list expr) : option (list value) :=
             match l with
             | [] => Some []
             | e :: r => match eval rho e, evs r with Some v, Some vs => Some (v :: vs) | _, _ => None end
             end) args with
    | Some vs => call f vs
    | None => None
    end
  | EMin a b =>
    match eval rho a, eval rho b with Some (VInt x), Some (VInt y) => Some (VInt (Z.min x y)) | _, _ => None end
  | ELen e => match eval rho e with Some v => len_value v | None => None end
  | EFloat e =>
    match eval rho e with Some (VNum q) => Some (VNum q) | Some (VInt z) => Some (VNum (inject_Z z)) | _ => None end
  end.

(* outcome of a statement: the new environment, and the returned value if a `return` was executed *)
Fixpoint exec (rho : env) (s : stmt) {struct s} : option (env * option value) :=
  match s with
  | SAssign x e => match eval rho e with Some v => Some ((x, v) :: rho, None) | None => None end
  | SUnpack xs e =>
    match eval rho e with
    | Some (VTuple vs) => match bind_names xs vs rho with Some rho' => Some (rho', None) | None => None end
    | _ => None
    end
  | SSetSlice x lo hi e =>
    match lookup x rho, eval rho e with
    | Some (VArr dt [n] d), Some (VArr dts [_] s) =>
      match set_slice_list d lo hi (cast_list dt dts s) with
      | Some d' => Some ((x, VArr dt [n] d') :: rho, None)
      | None => None
      end
    | _, _ => None
    end
  | SSetIndex x i e =>
    match lookup x rho, eval rho i, eval rho e with
    | Some (VArr dt [n] d), Some (VIdx idx), Some (VArr dts [_] s) =>
      if Nat.eqb (length s) (length idx) && in_range (length d) idx
      then Some ((x, VArr dt [n] (scatter_into d idx (cast_list dt dts s))) :: rho, None)
      else None
    | _, _, _ => None
    end
  | SIf c th el =>
    match eval rho c with
    | Some (VBool b) =>
      (fix blk (rho : env) (l : list stmt) : option (env * option value) :=
         match l with
         | [] => Some (rho, None)
         | s :: r => match exec rho s with Some (rho', None) => blk rho' r | o => o end
         end) rho (if b then th else el)
    | _ => None
    end
  | SReturn e => match eval rho e with Some v => Some (rho, Some v) | None => None end
  end.

Fixpoint exec_block (rho : env) (l : list stmt) : option (env * option value) :=
  match l with
  | [] => Some (rho, None)
  | s :: r => match exec rho s with Some (rho', None) => exec_block rho' r | o => o end
  end.

Definition run_fn (fd : fn_desc) (args : list value) : option value :=
  match bind_params (fd_params fd) args with
  | Some rho => match exec_block rho (fd_body fd) with Some (_, Some v) => Some v | _ => None end
  | None => None
  end.
End Interp.

Definition no_calls (f : string) (args : list value) : option value := None.

(* a function that calls nothing *)
Definition run_leaf (argsort : list Q -> list nat) (junk : Q) (fd : fn_desc) (args : list value) : option value :=
  run_fn argsort junk no_calls fd args.

(* a function that may call the (leaf) functions of `table`, by the name under which they are defined *)
Definition run_with (argsort : list Q -> list nat) (junk : Q) (table : list fn_desc)
    (fd : fn_desc) (args : list value) : option value :=
  run_fn argsort junk
    (fun f vs => match lookup f (map (fun d => (fd_name d, d)) table) with
                 | Some d => run_leaf argsort junk d vs
                 | None => None
                 end) fd args.

(* ------------------------------------------------------------------ the model's nested arrays as values *)

Definition shape_of (a : arr) : list nat :=
  match a with
  | A1 l => [length l]
  | A2 rows => [length rows; length (hd [] rows)]
  | A3 L => [length L; length (hd [] L); length (hd [] (hd [] L))]
  end.

Definition enc (dt : dtype) (a : arr) : value := VArr dt (shape_of a) (ravel a).

(* rectangular nested lists (what an ndarray is) *)
Definition rect2 (nx : nat) (rows : list (list Q)) : Prop := Forall (fun r => length r = nx) rows.
Definition rect3 (ny nx : nat) (L : list (list (list Q))) : Prop :=
  Forall (fun rows => length rows = ny /\ rect2 nx rows) L.
Definition rect (a : arr) : Prop :=
  match a with
  | A1 _ => True
  | A2 rows => rect2 (length (hd [] rows)) rows
  | A3 L => rect3 (length (hd [] L)) (length (hd [] (hd [] L))) L
  end.

(* the level exists in every array that _maybe_slice_level cuts (otherwise Python raises IndexError); Zv is the third
   component of the grid, of which the property says nothing: it only has to be sliceable when it is sliced *)
Definition level_ok (flx X Y : arr) (Zv : value) (level : nat) : Prop :=
  match flx with
  | A3 L =>
    (level < length L)%nat /\
    match X, Y with
    | A3 XL, A3 YL => (level < length XL)%nat /\ (level < length YL)%nat /\ index_int Zv (Z.of_nat level) <> None
    | _, _ => True
    end
  | _ => True
  end.

(* the coordinate arrays have the two entries the cell size is read from: X[0,0], X[0,1] / X[0], X[1] and
   Y[0,0], Y[1,0] / Y[0], Y[1] (otherwise Python raises IndexError; the model of SourceArea.v reads a default there) *)
Definition grid_ok_x (X : arr) : Prop :=
  match X with
  | A1 l => (2 <= length l)%nat
  | A2 rows => (1 <= length rows)%nat /\ (2 <= length (hd [] rows))%nat
  | A3 _ => False
  end.
Definition grid_ok_y (Y : arr) : Prop :=
  match Y with
  | A1 l => (2 <= length l)%nat
  | A2 rows => (2 <= length rows)%nat /\ (1 <= length (hd [] rows))%nat
  | A3 _ => False
  end.

(* the Python result `(float(level), float(area))` of the model's pair *)
Definition pct_result (r : option (Q * Q)) : option value :=
  match r with Some (l, a) => Some (VTuple [VNum l; VNum a]) | None => None end.

(* the expected parameter lists (names and defaults), compared by the bridge *)
Definition params_get_source_area : list (string * option lit) := [("f", None); ("g", None)].
Definition params_maybe_slice_level : list (string * option lit) :=
  [("field", None); ("grid", None); ("level", Some (LInt 0))].
Definition params_extract_percentile_contour : list (string * option lit) :=
  [("flx", None); ("grid", None); ("pct", Some (LFloat (4 # 5))); ("level", Some (LInt 0))].
