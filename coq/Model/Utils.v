(* Model of the array helpers of bldfm/utils.py that the properties name beside the solver.
   No proofs here.

   point_measurement(f, g) = np.sum(f * g): element-wise product of two equally shaped 2-D arrays,
   summed over all cells (the "footprint x source convolution at a point" of C02). *)
From Coq Require Import ZArith List.
From BL Require Import Base.Ops.
Import ListNotations.

Section Utils.
Variable O : Ops.
Notation C := (C O).

(* rows are zipped, then cells: numpy would raise on shapes that do not broadcast; equal shapes
   are a premise of every statement about it *)
Definition point_measurement (f g : list (list C)) : C :=
  csum O (map (fun fg => csum O (map (fun xy => cmul O (fst xy) (snd xy)) (combine (fst fg) (snd fg))))
              (combine f g)).

End Utils.
