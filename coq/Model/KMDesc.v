(* Descriptions of the two public functions of bldfm/ffm_kormann_meixner.py as the whole-function translator
   harness/py2coq_km.py reads them from the CURRENT source (build/<id>/GenKMFun.v), and their interpreters.
   NO proofs here (Proofs/KMBridgeLemmas.v; per run Bridge/KMFunBridge.v).

   estimateZ0: every array of the function is indexed by the observation; all statements except the median
   are elementwise, so the translator carries every local array as its elementwise defining expression over
   the observation record (zm, ws, wd, ustar, mo_len at that index), the loop variable kk and half_wd_win,
   following re-bindings, `.copy()`, masked stores (`a[m] = e[m]` = where(m, e, a)), `np.where`, scalar
   `if/elif/else` on kk / half_wd_win.  What remains is the control structure, kept in the description:
   the length check, the early exit, the initial value of the result, the range of the loop, and the one
   store of the loop body  `res[idx1] = np.nanmedian(src[idx2])`.
   nan is `None`; numpy.nanmedian is a Section variable as in Model/KM.v.

   estimateFootprint: every array is indexed by the cell (row i, column j); the description keeps the two
   np.arange calls of the meshgrid, the cell-centre coordinates, the early exit (test, warning, returned
   triple) and the returned triple, as functions of the arguments of the call. *)
From Coq Require Import Reals List ZArith Bool.
From BL Require Import Model.KM.
Import ListNotations.
Open Scope R_scope.

(* ---------------------------------------------------------------------------------------------- *)
(* estimateZ0 *)
Record obs : Type := mkObs { o_zm : R; o_ws : R; o_wd : R; o_ustar : R; o_L : R }.

(* the parameters whose len() the code compares with len(zm) *)
Inductive zpar : Type := PWs | PWd | PUstar | PL.

Record z0desc : Type := mkZ0Desc {
  zd_checked : list zpar;                  (* `n_obs != len(p)` for these p, else RuntimeError *)
  zd_early : R -> bool;                    (* half_wd_win |-> test of the early `return` before the loop *)
  zd_early_ret : obs -> option R;          (* the array it returns *)
  zd_init : obs -> option R;               (* the result array before the loop *)
  zd_lo : Z; zd_hi : Z;                    (* for kk in range(lo, hi) *)
  zd_idx1 : obs -> R -> R -> bool;         (* observation, kk, half_wd_win |-> mask of the store *)
  zd_idx2 : obs -> R -> R -> bool;         (* mask of the median *)
  zd_src : obs -> R -> R -> option R;      (* the array the median is taken of *)
}.

Definition zrange (lo hi : Z) : list R := map (fun k => IZR (lo + Z.of_nat k)) (seq 0 (Z.to_nat (hi - lo))).

Section RunZ0.
Variable nanmedian : list (option R) -> option R.

(* one iteration: res[idx1] = nanmedian(src[idx2]) *)
Definition z0_median (d : z0desc) (os : list obs) (h kk : R) : option R :=
  nanmedian (map (fun o => zd_src d o kk h) (filter (fun o => zd_idx2 d o kk h) os)).
Definition z0_iter (d : z0desc) (os : list obs) (h : R) (acc : list (option R)) (kk : R) : list (option R) :=
  map (fun oa => if zd_idx1 d (fst oa) kk h then z0_median d os h kk else snd oa) (combine os acc).

Definition run_z0 (d : z0desc) (os : list obs) (h : R) : list (option R) :=
  if zd_early d h then map (zd_early_ret d) os
  else fold_left (z0_iter d os h) (zrange (zd_lo d) (zd_hi d)) (map (zd_init d) os).
End RunZ0.

(* ---------------------------------------------------------------------------------------------- *)
(* estimateFootprint *)
Record fpargs : Type := mkFp {
  a_p : kmpar;                                   (* zm z0 ws ustar mo_len sigma_v *)
  a_xmin : R; a_xmax : R; a_ymin : R; a_ymax : R;  (* grid_domain *)
  a_res : R; a_mx : R; a_my : R;                 (* grid_res, mxy[0], mxy[1] *)
  a_wd : option R                                (* wd=None *)
}.

Record fpdesc : Type := mkFpDesc {
  fd_cols : fpargs -> R * R * R;     (* (start, stop, step) of the np.arange whose length is the number of columns *)
  fd_rows : fpargs -> R * R * R;     (* ... rows *)
  fd_exit : fpargs -> bool;          (* test of the early `return` *)
  fd_exit_warns : bool;              (* warnings.warn(...) on that path *)
  fd_exit_ret : fpargs -> nat -> nat -> R * R * R;             (* returned triple at [i, j] on that path *)
  fd_ret : (R -> R) -> fpargs -> nat -> nat -> R * R * R;      (* Gamma |-> returned triple at [i, j] *)
}.

Definition run_fp (Gamma : R -> R) (d : fpdesc) (a : fpargs) (i j : nat) : R * R * R :=
  if fd_exit d a then fd_exit_ret d a i j else fd_ret d Gamma a i j.

(* the model's answer: cell centres and the per-cell function of Model/KM.v (its early exit U < 0 is inside cell_g) *)
Definition fp_model (Gamma : R -> R) (a : fpargs) (i j : nat) : R * R * R :=
  let gx := grid_xc (a_xmin a) (a_res a) j in
  let gy := grid_yc (a_ymax a) (a_res a) i in
  (gx, gy, match a_wd a with
           | None => cell_aligned Gamma (a_p a) (a_res a) (a_mx a) (a_my a) gx gy
           | Some wd => cell_wd Gamma (a_p a) (a_res a) (a_mx a) (a_my a) wd gx gy
           end).

(* np.arange(start, stop, step)[j] *)
Definition arange_nth (start step : R) (j : nat) : R := start + INR j * step.
