(* Model of the drivers of bldfm.interface: run_bldfm_timeseries, run_bldfm_multitower and the three
   strategies of run_bldfm_parallel, over an abstract PURE single run
       single : tower -> time index -> result.
   What is modelled and not taken from the code:
   - Python dict semantics (insertion order; assigning to an existing key overwrites the value and keeps
     the key's first position): `dict_set`;
   - the documented semantics of concurrent.futures.Executor.map: results are yielded in the order in
     which the tasks were SUBMITTED, whatever the order in which the workers complete them:
     `pool_map f tasks sched`, where the schedule `sched` is the list of completion events
     (worker id, task index) in the order in which they happen;
   - Python slicing flat[idx : idx + n] = firstn n (skipn idx flat) (slices clip, they never raise). *)
From Coq Require Import List Arith Bool Permutation.
Import ListNotations.

Section Drivers.
Context {Tw N R : Type}.
Variable name : Tw -> N.
Variable N_eq_dec : forall a b : N, {a = b} + {a <> b}.
Variable single : Tw -> nat -> R.

(* ---- Python dict as an association list in insertion order ---- *)
Section Dict.
Context {V : Type}.

Fixpoint dict_set (d : list (N * V)) (k : N) (v : V) : list (N * V) :=
  match d with
  | [] => [(k, v)]
  | (k', v') :: r => if N_eq_dec k k' then (k', v) :: r else (k', v') :: dict_set r k v
  end.

Fixpoint dict_get (d : list (N * V)) (k : N) : option V :=
  match d with
  | [] => None
  | (k', v') :: r => if N_eq_dec k k' then Some v' else dict_get r k
  end.

(* {name: res for name, res in pairs} *)
Definition dict_of_pairs (l : list (N * V)) : list (N * V) :=
  fold_left (fun d kv => dict_set d (fst kv) (snd kv)) l [].
End Dict.

(* the distinct keys of a list of names in the order of their first occurrence *)
Fixpoint first_occ (seen l : list N) : list N :=
  match l with
  | [] => []
  | k :: r => if in_dec N_eq_dec k seen then first_occ seen r else k :: first_occ (seen ++ [k]) r
  end.

(* ---- serial drivers ---- *)

(* run_bldfm_timeseries: for i in range(n): results.append(run_bldfm_single(config, tower, met_index=i)) *)
Definition timeseries (n : nat) (tw : Tw) : list R := map (single tw) (seq 0 n).

(* run_bldfm_multitower: for tower in config.towers: results[tower.name] = run_bldfm_timeseries(config, tower) *)
Definition multitower (n : nat) (towers : list Tw) : list (N * list R) :=
  fold_left (fun d tw => dict_set d (name tw) (timeseries n tw)) towers [].

(* ---- the process pool ---- *)
Section Pool.
Context {X Y : Type}.

Fixpoint set_nth (l : list (option Y)) (j : nat) (y : option Y) : list (option Y) :=
  match l, j with
  | [], _ => []
  | _ :: r, 0 => y :: r
  | x :: r, S j => x :: set_nth r j y
  end.

(* a completion event: worker `fst e` finished task number `snd e` (numbered by submission) *)
Definition event := (nat * nat)%type.

(* one result slot per submitted task; a completion writes f(task j) into slot j *)
Definition complete (f : X -> Y) (tasks : list X) (slots : list (option Y)) (e : event) : list (option Y) :=
  match nth_error tasks (snd e) with
  | Some x => set_nth slots (snd e) (Some (f x))
  | None => slots
  end.

Definition pool_slots (f : X -> Y) (tasks : list X) (sched : list event) : list (option Y) :=
  fold_left (complete f tasks) sched (repeat None (length tasks)).

Fixpoint collect (l : list (option Y)) : option (list Y) :=
  match l with
  | [] => Some []
  | None :: _ => None
  | Some y :: r => match collect r with Some r' => Some (y :: r') | None => None end
  end.

(* list(pool.map(f, tasks)): the slots read in submission order; None = a task never completed *)
Definition pool_map (f : X -> Y) (tasks : list X) (sched : list event) : option (list Y) :=
  collect (pool_slots f tasks sched).
End Pool.

(* a schedule of a pool with `workers` processes for `ntasks` submitted tasks: every event happens on one of
   the workers and every task completes exactly once, in ANY order *)
Definition valid_sched (workers ntasks : nat) (sched : list event) : Prop :=
  Forall (fun e => fst e < workers) sched /\ Permutation (map snd sched) (seq 0 ntasks).

(* ---- run_bldfm_parallel ---- *)

(* "towers": tasks = towers, worker returns (tower.name, timeseries); results = {name: res for name, res in futures} *)
Definition par_towers (n : nat) (towers : list Tw) (sched : list event) : option (list (N * list R)) :=
  match pool_map (fun tw => (name tw, timeseries n tw)) towers sched with
  | Some prs => Some (dict_of_pairs prs)
  | None => None
  end.

(* "time": one pool per tower (tower number k runs under schedule `scheds k`);
   results[tower.name] = list(pool.map(_worker_single, [(config, tower, i) for i in range(n_time)])) *)
Fixpoint par_time_loop (n : nat) (towers : list Tw) (k : nat) (scheds : nat -> list event)
         (d : list (N * list R)) : option (list (N * list R)) :=
  match towers with
  | [] => Some d
  | tw :: r =>
    match pool_map (single tw) (seq 0 n) (scheds k) with
    | Some l => par_time_loop n r (S k) scheds (dict_set d (name tw) l)
    | None => None
    end
  end.
Definition par_time (n : nat) (towers : list Tw) (scheds : nat -> list event) :=
  par_time_loop n towers 0 scheds [].

(* "both": flat task list in tower-major order, then results[tower.name] = flat[idx : idx + n_time]; idx += n_time *)
Definition both_tasks (n : nat) (towers : list Tw) : list (Tw * nat) :=
  flat_map (fun tw => map (pair tw) (seq 0 n)) towers.

Fixpoint chunk_loop (n : nat) (towers : list Tw) (idx : nat) (flat : list R)
         (d : list (N * list R)) : list (N * list R) :=
  match towers with
  | [] => d
  | tw :: r => chunk_loop n r (idx + n) flat (dict_set d (name tw) (firstn n (skipn idx flat)))
  end.

Definition par_both (n : nat) (towers : list Tw) (sched : list event) : option (list (N * list R)) :=
  match pool_map (fun p => single (fst p) (snd p)) (both_tasks n towers) sched with
  | Some flat => Some (chunk_loop n towers 0 flat [])
  | None => None
  end.

End Drivers.
