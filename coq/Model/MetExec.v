(* Executable encoding of Met outcomes for the correspondence check (values are Z tokens). *)
From Coq Require Import List ZArith Bool.
From BL Require Import Model.Met.
Import ListNotations.
Open Scope Z_scope.

Definition enc_opt (o : option Z) : Z := match o with Some a => a | None => -1 end.

Definition enc_step (o : option (step Z Z)) : list Z :=
  match o with
  | None => [-999]
  | Some s => [enc_opt (s_ustar s); s_mol s; s_wind_speed s; s_wind_dir s; enc_opt (s_z0 s);
               match s_stamp s with Stamp t => t | Index i => Z.of_nat i end]
  end.

Definition enc_series (m : met Z Z) : option (list (list Z)) :=
  match series m with None => None | Some l => Some (map enc_step l) end.

Fixpoint lz_eqb (a b : list Z) : bool :=
  match a, b with [], [] => true | x :: a, y :: b => Z.eqb x y && lz_eqb a b | _, _ => false end.
Fixpoint llz_eqb (a b : list (list Z)) : bool :=
  match a, b with [], [] => true | x :: a, y :: b => lz_eqb x y && llz_eqb a b | _, _ => false end.
Definition out_eqb (a b : option (list (list Z))) : bool :=
  match a, b with None, None => true | Some a, Some b => llz_eqb a b | _, _ => false end.

Definition agree (m : met Z Z) (expected : option (list (list Z))) : bool :=
  out_eqb (enc_series m) expected.
