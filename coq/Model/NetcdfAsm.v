(* Model of bldfm.io.save_footprints_to_netcdf / load_footprints_from_netcdf (REPAIRED code: tower
   metadata looked up by NAME; `assemble_orig` keeps the original positional labelling for the
   refutation).  Executable, no proofs.

   Types (all opaque to the code, which only moves the values around):
     N tower names, T timestamps, L time labels (text, `str(ts)`), V doubles that are passed through
     (met values, tower metadata), F whole field blocks (one 2-D or 3-D array), A coordinate values.
   `None` of an [option] result = "the Python code raises" (IndexError/KeyError/ValueError).
   xarray / netCDF4 / zlib are NOT modelled: `write`/`read` are Section variables. *)
From Coq Require Import List Arith Bool.
Import ListNotations.

Section Netcdf.
Context {N L T V F A : Type}.
Context (eqbN : N -> N -> bool) (eqbL : L -> L -> bool).
Context (str : T -> L).          (* Python's str() on a timestamp *)
Context (nanV : V).              (* what numpy stores for `ustar_data[t] = None` *)
Context (zeroF : F).             (* a block of np.zeros that was never assigned *)

(* numpy coordinate meshes as nested lists: 1-D, 2-D [y][x], 3-D [z][y][x] *)
Inductive mesh := M1 (l : list A) | M2 (l : list (list A)) | M3 (l : list (list (list A))).

(* one result dict of run_bldfm_single: grid=(X,Y,Z), flx, conc, timestamp, params *)
Record result := mkRes {
  r_X : mesh; r_Y : mesh; r_Z : mesh;
  r_3d : bool;                   (* flx.ndim == 3 *)
  r_flx : F; r_conc : F;
  r_stamp : T;
  r_ustar : option V;            (* params["ustar"] is None with roughness-length forcing *)
  r_mol : V; r_ws : V; r_wd : V }.

Record tower := mkTower { tw_name : N; tw_lat : V; tw_lon : V; tw_zm : V }.

(* the results dict in iteration order *)
Definition results := list (N * list result).
Definition names (rs : results) : list N := map fst rs.

Fixpoint traverse {X Y : Type} (f : X -> option Y) (l : list X) : option (list Y) :=
  match l with
  | [] => Some []
  | a :: l => match f a, traverse f l with Some b, Some bs => Some (b :: bs) | _, _ => None end
  end.

(* results[name] *)
Fixpoint assoc (k : N) (rs : results) : option (list result) :=
  match rs with
  | [] => None
  | (k', v) :: rs => if eqbN k k' then Some v else assoc k rs
  end.
Definition steps_of (rs : results) (nm : N) : list result :=
  match assoc nm rs with Some l => l | None => [] end.

(* {t.name: t for t in config.towers}[name]: the LAST tower of that name wins; None = KeyError *)
Fixpoint tower_by_name (nm : N) (tws : list tower) : option tower :=
  match tws with
  | [] => None
  | t :: tws => match tower_by_name nm tws with
                | Some t' => Some t'
                | None => if eqbN nm (tw_name t) then Some t else None
                end
  end.

(* coordinate extraction: 3-D X[0,0,:], Y[0,:,0], Z[:,0,0]; 2-D X[0,:] / X, Y[:,0] / Y *)
Definition x_of (is3d : bool) (m : mesh) : option (list A) :=
  if is3d then match m with M3 ((row :: _) :: _) => Some row | _ => None end
  else match m with M2 (row :: _) => Some row | M1 l => Some l | _ => None end.
Definition y_of (is3d : bool) (m : mesh) : option (list A) :=
  if is3d then match m with M3 (plane :: _) => traverse (@hd_error A) plane | _ => None end
  else match m with M2 rows => traverse (@hd_error A) rows | M1 l => Some l | _ => None end.
Definition z_of (m : mesh) : option (list A) :=
  match m with
  | M3 planes => traverse (fun plane => match plane with (a :: _) :: _ => Some a | _ => None end) planes
  | _ => None
  end.
Definition zopt (is3d : bool) (m : mesh) : option (option (list A)) :=
  if is3d then option_map (@Some (list A)) (z_of m) else Some None.

(* data[t][ti] = results[names[ti]][t][field]; never-assigned blocks stay zero *)
Definition block (sel : result -> F) (rs : results) (t : nat) (nm : N) : F :=
  match nth_error (steps_of rs nm) t with Some r => sel r | None => zeroF end.
Definition data (sel : result -> F) (rs : results) (n_time : nat) : list (list F) :=
  map (fun t => map (block sel rs t) (names rs)) (seq 0 n_time).

Definition ustar_val (r : result) : V := match r_ustar r with Some u => u | None => nanV end.

Record dataset := mkDs {
  d_x : list A; d_y : list A; d_z : option (list A);
  d_time : list L; d_tower : list N;
  d_fp : list (list F); d_conc : list (list F);        (* [time][tower] *)
  d_ustar : list V; d_mol : list V; d_ws : list V; d_wd : list V;
  d_lat : list V; d_lon : list V; d_zm : list V }.

(* label vectors *)
Definition labels_by_name (nms : list N) (tws : list tower) : option (list tower) :=
  traverse (fun nm => tower_by_name nm tws) nms.
(* ORIGINAL code: [t.lat for t in config.towers]; xarray raises on a length mismatch *)
Definition labels_positional (nms : list N) (tws : list tower) : option (list tower) :=
  if Nat.eqb (length tws) (length nms) then Some tws else None.

Definition assemble_gen (labels : list N -> list tower -> option (list tower))
    (rs : results) (tws : list tower) : option dataset :=
  match names rs with
  | [] => None                                      (* tower_names[0] *)
  | n0 :: _ =>
    let l0 := steps_of rs n0 in
    match l0 with
    | [] => None                                    (* results[tower_names[0]][0] *)
    | r0 :: _ =>
      let n_time := length l0 in
      if existsb (fun nm => Nat.ltb n_time (length (steps_of rs nm))) (names rs) then None
      else
        let is3d := r_3d r0 in
        match x_of is3d (r_X r0), y_of is3d (r_Y r0), zopt is3d (r_Z r0), labels (names rs) tws with
        | Some x, Some y, Some z, Some tl =>
          Some (mkDs x y z (map (fun r => str (r_stamp r)) l0) (names rs)
                  (data r_flx rs n_time) (data r_conc rs n_time)
                  (map ustar_val l0) (map r_mol l0) (map r_ws l0) (map r_wd l0)
                  (map tw_lat tl) (map tw_lon tl) (map tw_zm tl))
        | _, _, _, _ => None
        end
    end
  end.

Definition assemble := assemble_gen labels_by_name.
Definition assemble_orig := assemble_gen labels_positional.

(* the library: Dataset -> file -> Dataset *)
Context {file : Type} (write : dataset -> file) (read : file -> dataset).
Definition save (rs : results) (tws : list tower) : option file := option_map write (assemble rs tws).
Definition load (f : file) : dataset := read f.

(* selection on the loaded dataset: ds.sel(tower=name), ds.sel(time=label) *)
Fixpoint index_of {X : Type} (eqb : X -> X -> bool) (k : X) (l : list X) : option nat :=
  match l with
  | [] => None
  | a :: l => if eqb k a then Some 0 else option_map S (index_of eqb k l)
  end.

Definition get2 {X : Type} (m : list (list X)) (i j : nat) : option X :=
  match nth_error m i with Some row => nth_error row j | None => None end.

Record tower_slice := mkTS { ts_fp : list F; ts_conc : list F; ts_lat : V; ts_lon : V; ts_zm : V }.
Record time_slice := mkTM { tm_fp : list F; tm_conc : list F;
                            tm_ustar : V; tm_mol : V; tm_ws : V; tm_wd : V }.

Definition sel_tower (d : dataset) (nm : N) : option tower_slice :=
  match index_of eqbN nm (d_tower d) with
  | None => None
  | Some i =>
    match traverse (fun row => nth_error row i) (d_fp d), traverse (fun row => nth_error row i) (d_conc d),
          nth_error (d_lat d) i, nth_error (d_lon d) i, nth_error (d_zm d) i with
    | Some a, Some b, Some la, Some lo, Some z => Some (mkTS a b la lo z)
    | _, _, _, _, _ => None
    end
  end.

Definition sel_time (d : dataset) (lab : L) : option time_slice :=
  match index_of eqbL lab (d_time d) with
  | None => None
  | Some t =>
    match nth_error (d_fp d) t, nth_error (d_conc d) t,
          nth_error (d_ustar d) t, nth_error (d_mol d) t, nth_error (d_ws d) t, nth_error (d_wd d) t with
    | Some a, Some b, Some u, Some m, Some w, Some wd => Some (mkTM a b u m w wd)
    | _, _, _, _, _, _ => None
    end
  end.

(* ds.sel(tower=name, time=label): one block of each array *)
Definition sel_block (d : dataset) (nm : N) (lab : L) : option (F * F) :=
  match index_of eqbN nm (d_tower d), index_of eqbL lab (d_time d) with
  | Some i, Some t =>
    match get2 (d_fp d) t i, get2 (d_conc d) t i with
    | Some a, Some b => Some (a, b)
    | _, _ => None
    end
  | _, _ => None
  end.

(* numpy.meshgrid as the solver / the tests build the grids (used to state "the same coordinates") *)
Definition mesh3_X (xs ys zs : list A) : mesh := M3 (map (fun _ => map (fun _ => xs) ys) zs).
Definition mesh3_Y (xs ys zs : list A) : mesh := M3 (map (fun _ => map (fun y => map (fun _ => y) xs) ys) zs).
Definition mesh3_Z (xs ys zs : list A) : mesh := M3 (map (fun z => map (fun _ => map (fun _ => z) xs) ys) zs).
Definition mesh2_X (xs ys : list A) : mesh := M2 (map (fun _ => xs) ys).
Definition mesh2_Y (xs ys : list A) : mesh := M2 (map (fun y => map (fun _ => y) xs) ys).

End Netcdf.
