(* Model of the command-line driver bldfm.cli: cmd_run (what `bldfm run config.yaml [--dry-run] [--plot]` does) and,
   of _save_plots, the facts the properties speak about.  No proofs here.

   Everything the driver only hands on is abstract (a `world`):
       w_load path                       load_config(args.config); None = it raises (nothing else happens then)
       w_towers c, w_nsteps c            config.towers, config.met.n_timesteps
       w_name tw                         tower.name (used by the relation to Drivers.multitower only)
       w_par_num_threads / _max_workers / _use_cache c     config.parallel.<field>
       w_single rt c tw i                run_bldfm_single(config, tower, met_index=i) EXECUTED UNDER the runtime
                                         settings rt (bldfm.config.NUM_THREADS / MAX_WORKERS / USE_CACHE as the driver
                                         left them when the call is made: the single run reads them)
       w_item r key                      result[key]
       w_str d                           what an f-string replacement field {d} renders (format(d, ""))
       w_unpack2 d                       a, b = d
   What is modelled and not taken from the code: Python's list.append / for / range, attribute stores into the module
   bldfm.config (a record of three optional values: None = left as it was), string concatenation of f-string parts,
   `if args.dry_run: ...; return`, `if args.plot:`; of matplotlib only "one figure is saved per savefig call under the
   given file name; it shows the field / grid handed to plot_footprint_field on its axes and a marker at the point
   handed to ax.plot". *)
From Coq Require Import List Arith Bool String.
Import ListNotations.

(* argparse.Namespace(config=..., dry_run=..., plot=...) *)
Record cli_args (Path : Type) := mkArgs { a_config : Path; a_dry_run : bool; a_plot : bool }.
Arguments mkArgs {Path}. Arguments a_config {Path}. Arguments a_dry_run {Path}. Arguments a_plot {Path}.

(* the three attributes of the module bldfm.config the driver stores into; None = not stored by the driver *)
Record rt (V : Type) := mkRt { rt_num_threads : option V; rt_max_workers : option V; rt_use_cache : option V }.
Arguments mkRt {V}. Arguments rt_num_threads {V}. Arguments rt_max_workers {V}. Arguments rt_use_cache {V}.
Definition rt0 {V : Type} : rt V := mkRt None None None.
Definition rt_set_num_threads {V : Type} (v : V) (s : rt V) : rt V := mkRt (Some v) (rt_max_workers s) (rt_use_cache s).
Definition rt_set_max_workers {V : Type} (v : V) (s : rt V) : rt V := mkRt (rt_num_threads s) (Some v) (rt_use_cache s).
Definition rt_set_use_cache {V : Type} (v : V) (s : rt V) : rt V := mkRt (rt_num_threads s) (rt_max_workers s) (Some v).

(* one saved figure *)
Record plot (D : Type) := mkPlot { p_file : string; p_field : D; p_grid : D; p_marker : D * D }.
Arguments mkPlot {D}. Arguments p_file {D}. Arguments p_field {D}. Arguments p_grid {D}. Arguments p_marker {D}.

(* what one invocation of cmd_run did *)
Record outcome (V R D : Type) := mkOut {
  o_loaded : bool;            (* load_config returned (false: it raised and nothing else happened) *)
  o_rt : rt V;                (* stores into bldfm.config *)
  o_results : list R;         (* the single runs performed = the list `results`, in the order they were made *)
  o_plots : list (plot D)     (* the figures saved, in order *)
}.
Arguments mkOut {V R D}. Arguments o_loaded {V R D}. Arguments o_rt {V R D}. Arguments o_results {V R D}. Arguments o_plots {V R D}.

Record world (Path Cfg Tw N V R D : Type) := mkWorld {
  w_load : Path -> option Cfg;
  w_towers : Cfg -> list Tw;
  w_nsteps : Cfg -> nat;
  w_name : Tw -> N;
  w_eqdec : forall a b : N, {a = b} + {a <> b};
  w_par_num_threads : Cfg -> V;
  w_par_max_workers : Cfg -> V;
  w_par_use_cache : Cfg -> V;
  w_single : rt V -> Cfg -> Tw -> nat -> R;
  w_item : R -> string -> D;
  w_str : D -> string;
  w_unpack2 : D -> D * D
}.
Arguments mkWorld {Path Cfg Tw N V R D}.
Arguments w_load {Path Cfg Tw N V R D}. Arguments w_towers {Path Cfg Tw N V R D}. Arguments w_nsteps {Path Cfg Tw N V R D}.
Arguments w_name {Path Cfg Tw N V R D}. Arguments w_eqdec {Path Cfg Tw N V R D}.
Arguments w_par_num_threads {Path Cfg Tw N V R D}. Arguments w_par_max_workers {Path Cfg Tw N V R D}.
Arguments w_par_use_cache {Path Cfg Tw N V R D}. Arguments w_single {Path Cfg Tw N V R D}.
Arguments w_item {Path Cfg Tw N V R D}. Arguments w_str {Path Cfg Tw N V R D}. Arguments w_unpack2 {Path Cfg Tw N V R D}.

Section Cli.
Context {Path Cfg Tw N V R D : Type}.
Variable W : world Path Cfg Tw N V R D.

(* runtime_config.NUM_THREADS = config.parallel.num_threads; .MAX_WORKERS = ...max_workers; .USE_CACHE = ...use_cache *)
Definition configured_rt (c : Cfg) : rt V :=
  mkRt (Some (w_par_num_threads W c)) (Some (w_par_max_workers W c)) (Some (w_par_use_cache W c)).

(* for tower in config.towers: for t in range(config.met.n_timesteps): run_bldfm_single(config, tower, met_index=t) *)
Definition runs_of (c : Cfg) : list (Tw * nat) :=
  flat_map (fun tw => map (pair tw) (seq 0 (w_nsteps W c))) (w_towers W c).

Definition results_of (c : Cfg) : list R :=
  map (fun p => w_single W (configured_rt c) c (fst p) (snd p)) (runs_of c).

(* f"plots/footprint_{name}_t{ts}.png" with name = result["tower_name"], ts = result["timestamp"] *)
Definition plot_name_of (name ts : D) : string :=
  ("plots/footprint_" ++ w_str W name ++ "_t" ++ w_str W ts ++ ".png")%string.

Definition plot_of (r : R) : plot D :=
  mkPlot (plot_name_of (w_item W r "tower_name") (w_item W r "timestamp"))
         (w_item W r "flx") (w_item W r "grid") (w_unpack2 W (w_item W r "tower_xy")).

(* _save_plots(results, logger) *)
Definition save_plots (results : list R) : list (plot D) := map plot_of results.

Definition cmd_run (args : cli_args Path) : outcome V R D :=
  match w_load W (a_config args) with
  | None => mkOut false rt0 [] []
  | Some c =>
    if a_dry_run args then mkOut true rt0 [] []
    else
      let res := results_of c in
      mkOut true (configured_rt c) res (if a_plot args then save_plots res else [])
  end.

(* the single runs of an invocation as (tower, step) pairs *)
Definition cli_runs (args : cli_args Path) : list (Tw * nat) :=
  match w_load W (a_config args) with
  | None => []
  | Some c => if a_dry_run args then [] else runs_of c
  end.

End Cli.

(* the TRACING world of W: the single run returns the pair (tower, step) it was asked for (and the settings it ran
   under); everything else as in W.  o_results (cmd_run (trace W) args) is the literal list of calls. *)
Definition trace {Path Cfg Tw N V R D : Type} (W : world Path Cfg Tw N V R D) (d0 : D)
  : world Path Cfg Tw N V (rt V * (Tw * nat)) D :=
  mkWorld (w_load W) (w_towers W) (w_nsteps W) (w_name W) (w_eqdec W)
          (w_par_num_threads W) (w_par_max_workers W) (w_par_use_cache W)
          (fun s _ tw i => (s, (tw, i))) (fun _ _ => d0) (w_str W) (w_unpack2 W).
