(* Model of bldfm.utils.parallelize together with numba's on-disk cache and fork.

   `parallelize(func)` keeps a per-process memo `_compiled[use_parallel]`; a missing entry is created by
   numba.jit(nopython=True, parallel=use_parallel, cache=True)(target) and, on the first call, numba loads machine
   code from its on-disk cache when an entry exists under the NAME of `target` (qualified name + source file +
   type signature; the `parallel` option is NOT part of the key), otherwise compiles the requested flavour and
   stores it under that name.  Modelled, not verified: this behaviour of numba, and that a process forked from a
   parent that has started OpenMP threads is terminated ("fork() called from a process already using GNU
   OpenMP") as soon as it runs threaded code itself.

   naming scheme `name_of`: the unrepaired code uses ONE name for both flavours; the repaired code gives each
   flavour its own name. *)
From Coq Require Import List Arith Bool.
Import ListNotations.

Inductive flavour := Serial | Threaded.
Definition flavour_eqb (a b : flavour) : bool :=
  match a, b with Serial, Serial | Threaded, Threaded => true | _, _ => false end.

Section KernelCache.
Variable name_of : flavour -> nat.

(* the on-disk cache: entry name |-> flavour of the machine code stored under it *)
Definition disk := list (nat * flavour).
Fixpoint disk_get (c : disk) (k : nat) : option flavour :=
  match c with [] => None | (k', f) :: r => if Nat.eqb k k' then Some f else disk_get r k end.

(* a process: the memo of parallelize (requested flavour |-> code actually held), whether OpenMP threads have been
   started in it, and whether it was forked from a process that had started them *)
Record proc := mkProc { memo_serial : option flavour; memo_threaded : option flavour; omp : bool; from_omp : bool }.
Definition fresh_proc : proc := mkProc None None false false.
Definition memo (p : proc) (want : flavour) : option flavour :=
  match want with Serial => memo_serial p | Threaded => memo_threaded p end.
Definition set_memo (p : proc) (want got : flavour) : proc :=
  match want with
  | Serial => mkProc (Some got) (memo_threaded p) (omp p) (from_omp p)
  | Threaded => mkProc (memo_serial p) (Some got) (omp p) (from_omp p)
  end.

(* what code a request for `want` gets in process p, and the new disk cache / memo *)
Definition obtain (c : disk) (p : proc) (want : flavour) : flavour * disk * proc :=
  match memo p want with
  | Some got => (got, c, p)
  | None =>
    match disk_get c (name_of want) with
    | Some got => (got, c, set_memo p want got)
    | None => (want, (name_of want, want) :: c, set_memo p want want)
    end
  end.

(* one solve in process p with bldfm.config.NUM_THREADS = threads; None = the process is terminated *)
Definition wanted (threads : nat) : flavour := if 1 <? threads then Threaded else Serial.
Definition solve (c : disk) (p : proc) (threads : nat) : disk * option proc :=
  let '(got, c', p') := obtain c p (wanted threads) in
  match got with
  | Serial => (c', Some p')
  | Threaded => if from_omp p' then (c', None)
                else (c', Some (mkProc (memo_serial p') (memo_threaded p') true (from_omp p')))
  end.

(* fork: the child inherits the memo; _worker_single / _worker_timeseries then set NUM_THREADS = 1 *)
Definition fork (p : proc) : proc := mkProc (memo_serial p) (memo_threaded p) false (omp p).
Definition worker_solve (c : disk) (parent : proc) : disk * option proc := solve c (fork parent) 1.

(* any number of earlier solves, each in a NEW process with its own thread setting (earlier program runs) *)
Fixpoint earlier_runs (c : disk) (threads : list nat) : disk :=
  match threads with [] => c | t :: r => earlier_runs (fst (solve c fresh_proc t)) r end.

(* any number of solves inside one process *)
Fixpoint solves (c : disk) (p : proc) (threads : list nat) : disk * option proc :=
  match threads with
  | [] => (c, Some p)
  | t :: r => match solve c p t with (c', Some p') => solves c' p' r | (c', None) => (c', None) end
  end.

(* does a pool worker survive after these earlier program runs and these solves of its parent? *)
Definition worker_ok (earlier parent_solves : list nat) : bool :=
  match solves (earlier_runs [] earlier) fresh_proc parent_solves with
  | (c, Some p) => match snd (worker_solve c p) with Some _ => true | None => false end
  | (_, None) => false
  end.
End KernelCache.

Definition shared_name (f : flavour) : nat := 0.                                   (* unrepaired *)
Definition own_name (f : flavour) : nat := match f with Serial => 1 | Threaded => 2 end.  (* repaired *)
