(* Model of the Green's-function disk cache of BLDFM as REPAIRED by the C15 fixes
   (src/bldfm/cache.py, and the get -> solve -> put flow at the top and bottom of
   solver.steady_state_transport_solver), plus a model of the ORIGINAL key/write logic
   (suffix _orig) that documents what the fixes repair.

   Contents of solver arguments are opaque tokens of a type T (the cache only hashes them).
   SHA-256 is not modelled: `hash` is a Section variable (injectivity is a hypothesis of the
   theorems, not of this file).  The numerical solver is the Section variable `solve`.
   No proofs in this file. *)
From Coq Require Import List Arith Bool.
Import ListNotations.

Section Cache.
Context {T : Type}.                 (* token: the content of one solver argument *)
Context (T_eqb : T -> T -> bool).   (* decidable equality on tokens *)
Context (hmax : T -> T -> T).       (* max(xmax, ymax): the default halo *)
Context {H : Type}.                 (* digests = file names *)
Context (H_eqb : H -> H -> bool).
Context {R : Type}.                 (* results (grid, conc, flx) *)

(* ---- requests: EVERY parameter of steady_state_transport_solver except `cache` ---- *)
Record request := mkReq {
  r_ny : T; r_nx : T;               (* srf_flx.shape = (ny, nx) *)
  r_values : T;                     (* srf_flx contents *)
  r_z : T;
  r_u : T; r_v : T; r_kx : T; r_ky : T; r_kz : T;   (* profiles *)
  r_xmax : T; r_ymax : T;           (* domain *)
  r_levels : T;                     (* the list of output level indices *)
  r_modes : T;
  r_meas : T;                       (* meas_pt *)
  r_bg : T;                         (* srf_bg_conc *)
  r_footprint : bool;
  r_analytic : bool;
  r_halo : option T;                (* None = default *)
  r_precision : T }.

Definition with_values (r : request) (v : T) : request :=
  mkReq (r_ny r) (r_nx r) v (r_z r) (r_u r) (r_v r) (r_kx r) (r_ky r) (r_kz r)
        (r_xmax r) (r_ymax r) (r_levels r) (r_modes r) (r_meas r) (r_bg r)
        (r_footprint r) (r_analytic r) (r_halo r) (r_precision r).

Definition with_halo (r : request) (h : option T) : request :=
  mkReq (r_ny r) (r_nx r) (r_values r) (r_z r) (r_u r) (r_v r) (r_kx r) (r_ky r) (r_kz r)
        (r_xmax r) (r_ymax r) (r_levels r) (r_modes r) (r_meas r) (r_bg r)
        (r_footprint r) (r_analytic r) h (r_precision r).

(* solver.py: `if halo is None: halo = max(domain)` — now BEFORE the cache lookup *)
Definition resolve_halo (r : request) : T :=
  match r_halo r with Some h => h | None => hmax (r_xmax r) (r_ymax r) end.

(* ---- keys: exactly the fields fed to the hash, in order ---- *)
Inductive ktok := KT (t : T) | KB (b : bool) | KO (o : option T).

(* repaired _compute_key as called by the repaired solver *)
Definition key (r : request) : list ktok :=
  [KT (r_z r); KT (r_u r); KT (r_v r); KT (r_kx r); KT (r_ky r); KT (r_kz r);
   KT (r_xmax r); KT (r_ymax r); KT (r_modes r); KT (r_meas r);
   KT (resolve_halo r); KT (r_precision r);
   KT (r_levels r); KT (r_ny r); KT (r_nx r); KB (r_analytic r); KT (r_bg r)].

(* original _compute_key: str(halo) of whatever the caller passes, nothing else *)
Definition key_orig (h : option T) (r : request) : list ktok :=
  [KT (r_z r); KT (r_u r); KT (r_v r); KT (r_kx r); KT (r_ky r); KT (r_kz r);
   KT (r_xmax r); KT (r_ymax r); KT (r_modes r); KT (r_meas r);
   KO h; KT (r_precision r)].
Definition key_orig_get (r : request) := key_orig (r_halo r) r.              (* raw halo *)
Definition key_orig_put (r : request) := key_orig (Some (resolve_halo r)) r. (* resolved *)

Definition ktok_eqb (a b : ktok) : bool :=
  match a, b with
  | KT x, KT y => T_eqb x y
  | KB x, KB y => Bool.eqb x y
  | KO None, KO None => true
  | KO (Some x), KO (Some y) => T_eqb x y
  | _, _ => false
  end.

Fixpoint key_eqb (a b : list ktok) : bool :=
  match a, b with
  | [], [] => true
  | x :: a', y :: b' => ktok_eqb x y && key_eqb a' b'
  | _, _ => false
  end.

Context (hash : list ktok -> H).
Context (solve : request -> R).
Context (nchunks : R -> nat).       (* np.savez issues nchunks p + 1 writes for payload p *)

(* ---- the cache directory ---- *)
Inductive entry := Valid (p : R) | Corrupt.     (* Corrupt: np.load / zipfile raise on it *)
Inductive path := Final (h : H) | Tmp (h : H).  (* <key>.npz | <key>*.tmp, same directory *)

Definition path_eqb (a b : path) : bool :=
  match a, b with
  | Final x, Final y => H_eqb x y
  | Tmp x, Tmp y => H_eqb x y
  | _, _ => false
  end.

Definition store := list (path * entry).

Fixpoint lookup (q : path) (fs : store) : option entry :=
  match fs with
  | [] => None
  | (q', e) :: fs' => if path_eqb q q' then Some e else lookup q fs'
  end.

Fixpoint remove (q : path) (fs : store) : store :=
  match fs with
  | [] => []
  | (q', e) :: fs' => if path_eqb q q' then remove q fs' else (q', e) :: remove q fs'
  end.

Definition set (q : path) (e : entry) (fs : store) : store := (q, e) :: remove q fs.

(* ---- primitive file operations (a crash can fall between any two) ---- *)
Inductive op :=
| WriteTmp (h : H) (last : bool) (p : R)    (* one write() to the temporary file of key h *)
| Rename (h : H)                            (* os.replace(tmp, final): atomic *)
| WriteFinal (h : H) (last : bool) (p : R). (* ORIGINAL code: write() straight to <key>.npz *)

Definition written (last : bool) (p : R) : entry := if last then Valid p else Corrupt.

Definition apply_op (fs : store) (o : op) : store :=
  match o with
  | WriteTmp h last p => set (Tmp h) (written last p) fs
  | Rename h => match lookup (Tmp h) fs with
                | Some e => set (Final h) e (remove (Tmp h) fs)
                | None => fs
                end
  | WriteFinal h last p => set (Final h) (written last p) fs
  end.

Definition run_ops (ops : list op) (fs : store) : store := fold_left apply_op ops fs.

(* repaired put: n+1 writes to the temporary file (complete after the last), then rename *)
Definition write_ops (h : H) (p : R) (n : nat) : list op :=
  map (fun i => WriteTmp h (Nat.eqb i n) p) (seq 0 (S n)) ++ [Rename h].

(* original put: np.savez(path, ...) *)
Definition write_ops_orig (h : H) (p : R) (n : nat) : list op :=
  map (fun i => WriteFinal h (Nat.eqb i n) p) (seq 0 (S n)).

(* repaired get: unreadable entry -> unlink, miss *)
Definition get (fs : store) (r : request) : option R * store :=
  let q := Final (hash (key r)) in
  match lookup q fs with
  | Some (Valid p) => (Some p, fs)
  | Some Corrupt => (None, remove q fs)
  | None => (None, fs)
  end.

Definition put (fs : store) (r : request) (p : R) : store :=
  run_ops (write_ops (hash (key r)) p (nchunks p)) fs.

(* ---- one solver call ---- *)
Record call := mkCall { c_cache : bool; c_req : request }.   (* cache=... attached or not *)
Inductive outcome := Hit | Miss | Bypass.
Record state := mkState { st_fs : store; st_solves : nat }.  (* st_solves: solver body runs *)

Definition cached (c : call) : bool := c_cache c && r_footprint (c_req c).

Definition solve_with_cache (c : call) (st : state) : R * outcome * state :=
  let r := c_req c in
  if cached c then
    match get (st_fs st) r with
    | (Some p, fs) => (p, Hit, mkState fs (st_solves st))
    | (None, fs) =>
        let p := solve r in
        (p, Miss, mkState (put fs r p) (S (st_solves st)))
    end
  else (solve r, Bypass, mkState (st_fs st) (S (st_solves st))).

(* the same call, but the process is killed after k primitive write operations of its put
   (no answer is delivered) *)
Definition killed_call (c : call) (k : nat) (st : state) : state :=
  let r := c_req c in
  if cached c then
    match get (st_fs st) r with
    | (Some _, fs) => mkState fs (st_solves st)
    | (None, fs) =>
        let p := solve r in
        mkState (run_ops (firstn k (write_ops (hash (key r)) p (nchunks p))) fs)
                (S (st_solves st))
    end
  else mkState (st_fs st) (S (st_solves st)).

Inductive event := Run (c : call) | Killed (c : call) (k : nat).

(* answers of the completed calls, oldest first *)
Fixpoint run_history (evs : list event) (st : state) : list (call * R * outcome) * state :=
  match evs with
  | [] => ([], st)
  | Run c :: evs' =>
      let '(p, o, st') := solve_with_cache c st in
      let '(l, st'') := run_history evs' st' in
      ((c, p, o) :: l, st'')
  | Killed c k :: evs' => run_history evs' (killed_call c k st)
  end.

(* ---- ORIGINAL code: raw halo at get, resolved at put, direct write, np.load raises ---- *)
Definition solve_with_cache_orig (c : call) (st : state) : option (R * outcome * state) :=
  let r := c_req c in
  if cached c then
    match lookup (Final (hash (key_orig_get r))) (st_fs st) with
    | Some (Valid p) => Some (p, Hit, st)
    | Some Corrupt => None                          (* BadZipFile / EOFError / ValueError *)
    | None =>
        let p := solve r in
        Some (p, Miss,
              mkState (run_ops (write_ops_orig (hash (key_orig_put r)) p (nchunks p)) (st_fs st))
                      (S (st_solves st)))
    end
  else Some (solve r, Bypass, mkState (st_fs st) (S (st_solves st))).

Definition killed_call_orig (c : call) (k : nat) (st : state) : state :=
  let r := c_req c in
  let p := solve r in
  mkState (run_ops (firstn k (write_ops_orig (hash (key_orig_put r)) p (nchunks p))) (st_fs st))
          (S (st_solves st)).

End Cache.

Arguments request : clear implicits.
Arguments ktok : clear implicits.
Arguments call : clear implicits.
Arguments event : clear implicits.
Arguments entry : clear implicits.
Arguments path : clear implicits.
Arguments op : clear implicits.
Arguments store : clear implicits.
Arguments state : clear implicits.
