(* Boolean checkers and comparison functions used by the C20 correspondence (evaluated by vm_compute).
   Soundness of sorts_desc_b w.r.t. sorts_desc is proved in Proofs/SourceAreaProofs.v. *)
From Coq Require Import List Arith QArith Qabs Bool ZArith.
From BL Require Import Model.SourceArea.
Import ListNotations.
Open Scope Q_scope.

Definition is_perm_b (n : nat) (order : list nat) : bool :=
  Nat.eqb (length order) n && forallb (fun i => existsb (Nat.eqb i) order) (seq 0 n).

Fixpoint desc_b (l : list Q) : bool :=
  match l with
  | x :: r => match r with y :: _ => Qle_bool y x && desc_b r | [] => true end
  | [] => true
  end.

Definition sorts_desc_b (x : list Q) (order : list nat) : bool :=
  is_perm_b (length x) order && desc_b (gather x order).

(* dyadic literals: numerators over one common denominator *)
Definition dy (d : positive) (l : list Z) : list Q := map (fun z => Qmake z d) l.
Definition ix (l : list Z) : list nat := map Z.to_nat l.

Fixpoint lq_eqb (a b : list Q) : bool :=
  match a, b with
  | [], [] => true
  | x :: a, y :: b => Qeq_bool x y && lq_eqb a b
  | _, _ => false
  end.

(* result codes: 0 agree; 1 the order passed in is not a permutation sorting g non-increasingly;
   2 the implementation's result differs from the model's; 3 malformed case;
   4 the result differs from the model but equals the UNREPAIRED model (integer g: truncated) *)
Definition gsa_case (g_is_integer : bool) (f g : list Q) (order : list nat) (expected : list Q) : Z :=
  if negb (Nat.eqb (length f) (length g)) then 3%Z
  else if negb (sorts_desc_b g order) then 1%Z
  else if lq_eqb (get_source_area f order) expected then 0%Z
  else if lq_eqb (get_source_area_unrepaired g_is_integer f order) expected then 4%Z else 2%Z.

Definition opt_pair_eqb (o : option (Q * Q)) (l a : Q) : bool :=
  match o with Some (l', a') => Qeq_bool l' l && Qeq_bool a' a | None => false end.

(* percentile case: the field that is searched (after slicing) must be sorted by idx; the result
   must agree with the linear-search model AND with the binary-search model *)
Definition pct_case (flx X Y : arr) (pct : Q) (level : nat) (idx : list nat) (exp_level exp_area : Q) : Z :=
  match slice_level flx X Y level with
  | None => 3%Z
  | Some (fld, X', Y') =>
    if negb (sorts_desc_b (ravel fld) idx) then 1%Z
    else
      match dx_of X', dy_of Y' with
      | Some dx, Some dy_ =>
        if opt_pair_eqb (extract_percentile_contour flx X Y pct level idx) exp_level exp_area
           && opt_pair_eqb (percentile_flat_bin (ravel fld) idx (dx * dy_) pct) exp_level exp_area
        then 0%Z else 2%Z
      | _, _ => 3%Z
      end
  end.

(* base functions, exact on dyadic inputs *)
Definition circ_case (X Y : list Q) (xm ym : Q) (expected : list Q) : Z :=
  if lq_eqb (source_area_circular X Y xm ym) expected then 0%Z else 2%Z.

Definition wind_ok (u v speed : Q) : bool :=
  Qeq_bool (speed * speed) (u * u + v * v) && Qle_bool 0 speed && negb (Qeq_bool speed 0).

Definition upwind_case (X Y : list Q) (xm ym u v speed : Q) (expected : list Q) : Z :=
  if negb (wind_ok u v speed) then 1%Z
  else if lq_eqb (source_area_upwind X Y xm ym u v speed) expected then 0%Z else 2%Z.

Definition crosswind_case (X Y : list Q) (xm ym u v speed : Q) (expected : list Q) : Z :=
  if negb (wind_ok u v speed) then 1%Z
  else if lq_eqb (source_area_crosswind X Y xm ym u v speed) expected then 0%Z else 2%Z.

Definition contrib_case (flx expected : list Q) : Z :=
  if lq_eqb (source_area_contribution flx) expected then 0%Z else 2%Z.
