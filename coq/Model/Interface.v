(* Model of bldfm.interface.run_bldfm_single (argument plumbing) and of bldfm.config_parser
   (parse_config_dict / load_config: required keys, defaults, post-init).

   Scalars the code only moves around (floats, strings, tower names, sizes handed through) are opaque
   tokens of a type A; timestamps have a type T; a user-supplied surface-flux array has a type F and a cache
   object a type K.  What the code computes with is concrete: nz and the output levels (nat), the flags
   (bool).  A call of an external function is represented by the record of the arguments it receives; a value
   RETURNED by such a call and handed on is represented by the call that produced it (WindU c / WindV c: the
   two components returned by the compute_wind_fields call c; the field sc_zprof of a solver call: the pair
   (z, profiles) returned by that vertical_profiles call; Ideal ..: the array returned by that ideal_source
   call). *)
From Coq Require Import List Arith Bool String.
From BL Require Import Model.Met.
Import ListNotations.

(* ------------------------------------------------------------------ configuration dataclasses *)
Section Cfg.
Context {A T : Type}.

Record tower := mkTower { t_name : A; t_lat : A; t_lon : A; t_zm : A; t_x : A; t_y : A }.

Record domain := mkDomain {
  d_nx : A; d_ny : A; d_xmax : A; d_ymax : A; d_nz : nat;
  d_modes : list A;                      (* tuple(modes) *)
  d_halo : option A; d_ref_lat : option A; d_ref_lon : option A;
  d_output_levels : option (list nat); d_full_output : bool }.

Record solvercfg := mkSolverCfg {
  sv_closure : A; sv_precision : A; sv_footprint : bool; sv_shape : A; sv_analytic : bool;
  sv_src_loc : option (list A) }.

Record outputcfg := mkOutputCfg { o_format : A; o_directory : A }.

Record parallelcfg := mkParallelCfg { pl_num_threads : A; pl_max_workers : A; pl_use_cache : bool }.

Record config := mkConfig {
  c_domain : domain; c_towers : list tower; c_met : met A T;
  c_solver : solvercfg; c_output : outputcfg; c_parallel : parallelcfg }.
End Cfg.
Arguments tower : clear implicits.
Arguments domain : clear implicits.
Arguments solvercfg : clear implicits.
Arguments outputcfg : clear implicits.
Arguments parallelcfg : clear implicits.
Arguments config : clear implicits.

(* ------------------------------------------------------------------ run_bldfm_single *)
Section Plumb.
Context {A T F K : Type}.

(* compute_wind_fields(u_rot, wind_dir) *)
Record wind_call := mkWind { w_speed : A; w_dir : A }.
Inductive wind_out := WindU (c : wind_call) | WindV (c : wind_call).

(* vertical_profiles(n=, meas_height=, wind=, ustar= | z0=, mol=, closure=); every other argument is left
   at its default.  pc_ustar / pc_z0 = None: the argument is not passed (or passed as None, its default) *)
Record prof_call := mkProf {
  pc_n : nat; pc_meas_height : A; pc_wind : wind_out * wind_out;
  pc_ustar : option A; pc_z0 : option A; pc_mol : A; pc_closure : A }.

(* the surface flux: the caller's array, or ideal_source(nxy, domain, src_loc=, shape=) *)
Inductive source :=
| Supplied (f : F)
| Ideal (nxy : A * A) (dom : A * A) (src_loc : option (list A)) (shape : A).

(* levels: a list of level indices or the scalar nz *)
Inductive levels := LvList (l : list nat) | LvScalar (n : nat).

(* steady_state_transport_solver(srf_flx=, z=, profiles=, domain=, levels=, modes=, meas_pt=, footprint=,
   analytic=, halo=, precision=, cache=); srf_bg_conc is left at its default *)
Record solver_call := mkSolve {
  sc_srf_flx : source; sc_zprof : prof_call; sc_domain : A * A; sc_levels : levels; sc_modes : list A;
  sc_meas_pt : A * A; sc_footprint : bool; sc_analytic : bool; sc_halo : option A; sc_precision : A;
  sc_cache : option K }.

Record labels := mkLabels {
  l_tower_name : A; l_tower_xy : A * A; l_timestamp : stamp T; l_params : step A T }.

Record call_record := mkCalls {
  cr_wind : wind_call; cr_prof : prof_call; cr_source : source; cr_solver : solver_call;
  cr_labels : labels }.

(* if dom.output_levels: .. elif dom.full_output: list(range(dom.nz + 1)) else: dom.nz
   (an empty list is falsy in Python) *)
Definition levels_rule (d : domain A) : levels :=
  match d_output_levels d with
  | Some (x :: r) => LvList (x :: r)
  | _ => if d_full_output d then LvList (seq 0 (S (d_nz d))) else LvScalar (d_nz d)
  end.

Definition source_rule (cfg : config A T) (flux : option F) : source :=
  match flux with
  | Some f => Supplied f
  | None => Ideal (d_nx (c_domain cfg), d_ny (c_domain cfg)) (d_xmax (c_domain cfg), d_ymax (c_domain cfg))
                  (sv_src_loc (c_solver cfg)) (sv_shape (c_solver cfg))
  end.

(* z0_val = met_step.get("z0"); if z0_val is not None: (z0=z0_val, no ustar) else: (ustar=met_step["ustar"]) *)
Definition prof_rule (cfg : config A T) (tw : tower A) (s : step A T) (w : wind_call) : prof_call :=
  match s_z0 s with
  | Some z0 => mkProf (d_nz (c_domain cfg)) (t_zm tw) (WindU w, WindV w) None (Some z0) (s_mol s)
                      (sv_closure (c_solver cfg))
  | None => mkProf (d_nz (c_domain cfg)) (t_zm tw) (WindU w, WindV w) (s_ustar s) None (s_mol s)
                   (sv_closure (c_solver cfg))
  end.

(* the calls run_bldfm_single(config, tower, met_index, surface_flux, cache) makes, and its labels;
   None: MetConfig.get_step raises IndexError *)
Definition plumb_c (cfg : config A T) (tw : tower A) (i : nat) (flux : option F) (cache : option K)
  : option call_record :=
  match get_step (c_met cfg) i with
  | None => None
  | Some s =>
    let dom := c_domain cfg in
    let sol := c_solver cfg in
    let w := mkWind (s_wind_speed s) (s_wind_dir s) in
    let p := prof_rule cfg tw s w in
    let src := source_rule cfg flux in
    let sc := mkSolve src p (d_xmax dom, d_ymax dom) (levels_rule dom) (d_modes dom) (t_x tw, t_y tw)
                      (sv_footprint sol) (sv_analytic sol) (d_halo dom) (sv_precision sol) cache in
    Some (mkCalls w p src sc (mkLabels (t_name tw) (t_x tw, t_y tw) (s_stamp s) s))
  end.

(* cache=None is the default of run_bldfm_single *)
Definition plumb (cfg : config A T) (tw : tower A) (i : nat) (flux : option F) : option call_record :=
  plumb_c cfg tw i flux None.

(* The numerical routines are not modelled here: an arbitrary function of the solver call (which contains,
   as terms, the calls that produced its array arguments). *)
Section Run.
Context {G : Type}.
Variable solve : solver_call -> G.

Record result := mkResult { r_out : G; r_labels : labels }.

(* the low-level pipeline called by hand with explicit numbers *)
Definition by_hand (speed dir : A) (n : nat) (zm : A) (ustar z0 : option A) (mol closure : A) (src : source)
    (dom : A * A) (lv : levels) (modes : list A) (meas_pt : A * A) (footprint analytic : bool)
    (halo : option A) (precision : A) (cache : option K) : G :=
  let w := mkWind speed dir in                                         (* u, v = compute_wind_fields(..) *)
  let p := mkProf n zm (WindU w, WindV w) ustar z0 mol closure in      (* z, profiles = vertical_profiles(..) *)
  solve (mkSolve src p dom lv modes meas_pt footprint analytic halo precision cache).

Definition run_single (cfg : config A T) (tw : tower A) (i : nat) (flux : option F) (cache : option K)
  : option result :=
  match plumb_c cfg tw i flux cache with
  | Some cr => Some (mkResult (solve (cr_solver cr)) (cr_labels cr))
  | None => None
  end.
End Run.

End Plumb.
Arguments wind_call : clear implicits.
Arguments wind_out : clear implicits.
Arguments prof_call : clear implicits.
Arguments source : clear implicits.
Arguments solver_call : clear implicits.
Arguments labels : clear implicits.
Arguments call_record : clear implicits.
Arguments result : clear implicits.

(* ------------------------------------------------------------------ config_parser *)
Section Parse.
Context {A : Type}.

(* values of a section dictionary as YAML / a Python literal delivers them *)
Inductive sval :=
| SNull | SAtom (a : A) | SBool (b : bool) | SNat (n : nat) | SSeq (l : list A) | SNats (l : list nat).
Definition sdict := list (string * sval).

Inductive rval := RNull | RSection (d : sdict) | RTowers (l : list sdict).
Definition raw := list (string * rval).

Fixpoint lookup {V : Type} (d : list (string * V)) (k : string) : option V :=
  match d with
  | [] => None
  | (k', v) :: r => if String.eqb k k' then Some v else lookup r k
  end.

(* Parsed: a configuration object is returned.  Raises: Python raises (missing section -> ValueError,
   missing required key -> KeyError, MetConfig.validate -> ValueError, missing file -> FileNotFoundError).
   IllShaped: a value has a shape outside this model (e.g. a list where a scalar is expected); no claim. *)
Inductive outcome (X : Type) := Parsed (x : X) | Raises | IllShaped.
Arguments Parsed {X}. Arguments Raises {X}. Arguments IllShaped {X}.

Definition bind {X Y : Type} (o : outcome X) (k : X -> outcome Y) : outcome Y :=
  match o with Parsed x => k x | Raises => Raises | IllShaped => IllShaped end.
Notation "x <- e ;; k" := (bind e (fun x => k)) (at level 61, e at next level, right associativity).

(* d["k"] *)
Definition req_atom (d : sdict) (k : string) : outcome A :=
  match lookup d k with None => Raises | Some (SAtom a) => Parsed a | Some _ => IllShaped end.
Definition req_nat (d : sdict) (k : string) : outcome nat :=
  match lookup d k with None => Raises | Some (SNat n) => Parsed n | Some _ => IllShaped end.
(* d.get("k"): None when the key is absent or null *)
Definition opt_atom (d : sdict) (k : string) : outcome (option A) :=
  match lookup d k with
  | None | Some SNull => Parsed None | Some (SAtom a) => Parsed (Some a) | Some _ => IllShaped end.
Definition opt_seq (d : sdict) (k : string) : outcome (option (list A)) :=
  match lookup d k with
  | None | Some SNull => Parsed None | Some (SSeq l) => Parsed (Some l) | Some _ => IllShaped end.
Definition opt_nats (d : sdict) (k : string) : outcome (option (list nat)) :=
  match lookup d k with
  | None | Some SNull => Parsed None | Some (SNats l) => Parsed (Some l) | Some _ => IllShaped end.
(* d.get("k", default): the default ONLY when the key is absent *)
Definition def_atom (d : sdict) (k : string) (dflt : A) : outcome A :=
  match lookup d k with None => Parsed dflt | Some (SAtom a) => Parsed a | Some _ => IllShaped end.
Definition def_bool (d : sdict) (k : string) (dflt : bool) : outcome bool :=
  match lookup d k with None => Parsed dflt | Some (SBool b) => Parsed b | Some _ => IllShaped end.
Definition def_seq (d : sdict) (k : string) (dflt : list A) : outcome (list A) :=
  match lookup d k with None => Parsed dflt | Some (SSeq l) => Parsed l | Some _ => IllShaped end.
Definition def_fld (d : sdict) (k : string) (dflt : A) : outcome (fld A) :=
  match lookup d k with
  | None => Parsed (Scalar dflt) | Some (SAtom a) => Parsed (Scalar a) | Some (SSeq l) => Parsed (Lst l)
  | Some _ => IllShaped end.
Definition opt_fld (d : sdict) (k : string) : outcome (option (fld A)) :=
  match lookup d k with
  | None | Some SNull => Parsed None | Some (SAtom a) => Parsed (Some (Scalar a))
  | Some (SSeq l) => Parsed (Some (Lst l)) | Some _ => IllShaped end.

(* the literal defaults written in config_parser.py, as tokens:
   modes [512, 512]; mol 1e9; wind_speed 5.0; wind_dir 270.0; closure "MOST"; precision "single";
   surface_flux_shape "diamond"; format "netcdf"; directory "./output"; num_threads 1; max_workers 1.
   full_output, footprint, analytic, use_cache: False. *)
Record defaults := mkDefaults {
  df_modes : list A; df_mol : A; df_wind_speed : A; df_wind_dir : A; df_closure : A; df_precision : A;
  df_shape : A; df_format : A; df_directory : A; df_num_threads : A; df_max_workers : A;
  df_full_output : bool; df_footprint : bool; df_analytic : bool; df_use_cache : bool }.

Variable D : defaults.
Variable to_float : A -> A.                 (* float(x) *)
Variable geo_x geo_y : A -> A -> A -> A -> A. (* the two components of latlon_to_xy(lat, lon, ref_lat, ref_lon) *)
Variable zero : A.                          (* 0.0, the dataclass default of TowerConfig.x / .y *)

Definition parse_tower (d : sdict) : outcome (tower A) :=
  name <- req_atom d "name" ;; lat <- req_atom d "lat" ;; lon <- req_atom d "lon" ;; zm <- req_atom d "z_m" ;;
  Parsed (mkTower name lat lon zm zero zero).

Fixpoint parse_towers (l : list sdict) : outcome (list (tower A)) :=
  match l with
  | [] => Parsed []
  | d :: r => t <- parse_tower d ;; ts <- parse_towers r ;; Parsed (t :: ts)
  end.

Definition parse_domain (d : sdict) : outcome (domain A) :=
  modes <- def_seq d "modes" (df_modes D) ;;
  ol <- opt_nats d "output_levels" ;;
  nx <- req_atom d "nx" ;; ny <- req_atom d "ny" ;;
  xmax <- req_atom d "xmax" ;; ymax <- req_atom d "ymax" ;;
  nz <- req_nat d "nz" ;;
  halo <- opt_atom d "halo" ;; rlat <- opt_atom d "ref_lat" ;; rlon <- opt_atom d "ref_lon" ;;
  fo <- def_bool d "full_output" (df_full_output D) ;;
  Parsed (mkDomain nx ny (to_float xmax) (to_float ymax) nz modes halo rlat rlon ol fo).

Definition parse_met (d : sdict) : outcome (met A A) :=
  ustar <- opt_fld d "ustar" ;;
  mol <- def_fld d "mol" (df_mol D) ;;
  ws <- def_fld d "wind_speed" (df_wind_speed D) ;;
  wd <- def_fld d "wind_dir" (df_wind_dir D) ;;
  z0 <- opt_atom d "z0" ;;
  ts <- opt_seq d "timestamps" ;;
  Parsed (mkMet ustar mol ws wd z0 ts).

Definition default_solver : solvercfg A :=
  mkSolverCfg (df_closure D) (df_precision D) (df_footprint D) (df_shape D) (df_analytic D) None.
Definition parse_solver (o : option sdict) : outcome (solvercfg A) :=
  match o with
  | None => Parsed default_solver
  | Some d =>
    src <- opt_seq d "src_loc" ;;
    cl <- def_atom d "closure" (df_closure D) ;;
    pr <- def_atom d "precision" (df_precision D) ;;
    fp <- def_bool d "footprint" (df_footprint D) ;;
    sh <- def_atom d "surface_flux_shape" (df_shape D) ;;
    an <- def_bool d "analytic" (df_analytic D) ;;
    Parsed (mkSolverCfg cl pr fp sh an src)
  end.

Definition default_output : outputcfg A := mkOutputCfg (df_format D) (df_directory D).
Definition parse_output (o : option sdict) : outcome (outputcfg A) :=
  match o with
  | None => Parsed default_output
  | Some d =>
    f <- def_atom d "format" (df_format D) ;; dir <- def_atom d "directory" (df_directory D) ;;
    Parsed (mkOutputCfg f dir)
  end.

Definition default_parallel : parallelcfg A := mkParallelCfg (df_num_threads D) (df_max_workers D) (df_use_cache D).
Definition parse_parallel (o : option sdict) : outcome (parallelcfg A) :=
  match o with
  | None => Parsed default_parallel
  | Some d =>
    nt <- def_atom d "num_threads" (df_num_threads D) ;;
    mw <- def_atom d "max_workers" (df_max_workers D) ;;
    uc <- def_bool d "use_cache" (df_use_cache D) ;;
    Parsed (mkParallelCfg nt mw uc)
  end.

(* raw["k"] of a mandatory section *)
Definition req_section (r : raw) (k : string) : outcome sdict :=
  match lookup r k with None => Raises | Some (RSection d) => Parsed d | Some _ => IllShaped end.
(* raw.get("k"): None when absent or null *)
Definition opt_section (r : raw) (k : string) : outcome (option sdict) :=
  match lookup r k with
  | None | Some RNull => Parsed None | Some (RSection d) => Parsed (Some d) | Some _ => IllShaped end.

(* BLDFMConfig.__post_init__: local tower coordinates when both reference coordinates are given *)
Definition place (dom : domain A) (t : tower A) : tower A :=
  match d_ref_lat dom, d_ref_lon dom with
  | Some rlat, Some rlon =>
    mkTower (t_name t) (t_lat t) (t_lon t) (t_zm t)
            (geo_x (t_lat t) (t_lon t) rlat rlon) (geo_y (t_lat t) (t_lon t) rlat rlon)
  | _, _ => t
  end.

(* parse_config_dict *)
Definition parse (r : raw) : outcome (config A A) :=
  match lookup r "domain", lookup r "towers", lookup r "met" with
  | None, _, _ | _, None, _ | _, _, None => Raises
  | Some vd, Some vt, Some vm =>
    dom <- match vd with RSection d => parse_domain d | _ => IllShaped end ;;
    tws <- match vt with RTowers l => parse_towers l | _ => IllShaped end ;;
    m <- match vm with RSection d => parse_met d | _ => IllShaped end ;;
    so <- opt_section r "solver" ;; sol <- parse_solver so ;;
    oo <- opt_section r "output" ;; out <- parse_output oo ;;
    po <- opt_section r "parallel" ;; par <- parse_parallel po ;;
    if validate m then Parsed (mkConfig dom (map (place dom) tws) m sol out par) else Raises
  end.

(* load_config(path): yaml.safe_load of the file, then parse_config_dict.  The YAML library is not modelled:
   `yaml_load` is what it returns for a path (None: the file does not exist). *)
Section Load.
Context {P : Type}.
Variable yaml_load : P -> option raw.
Definition load (p : P) : outcome (config A A) :=
  match yaml_load p with None => Raises | Some r => parse r end.
End Load.

End Parse.
Arguments sval : clear implicits.
Arguments sdict : clear implicits.
Arguments rval : clear implicits.
Arguments raw : clear implicits.
Arguments defaults : clear implicits.
Arguments Parsed {X}. Arguments Raises {X}. Arguments IllShaped {X}.
