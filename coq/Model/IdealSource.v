(* Model of bldfm/utils.py::ideal_source over Coq's reals, one cell of the returned (ny, nx) array at a time.
   NO proofs here (Proofs/IdealSourceProofs.v); the code as it is:

     def ideal_source(nxy, domain, src_loc=None, shape="diamond"):
         nx, ny = nxy
         xmx, ymx = domain
         dx = xmx / nx
         dy = ymx / ny                                   # computed, never used
         if src_loc is None:
             src_loc = (xmx / 2, ymx / 2)
         xs, ys = src_loc
         x = np.linspace(0.0, xmx, nx)                   # END POINTS INCLUDED: node i = i * xmx/(nx-1), not i*dx
         y = np.linspace(0.0, ymx, ny)
         X, Y = np.meshgrid(x, y)                        # X[j,i] = x[i], Y[j,i] = y[j]; shape (ny, nx)
         q0 = np.zeros([ny, nx])
         if shape == "diamond":
             R0 = xmx / 12
             R = np.abs(X - xs) + np.abs(Y - ys)
             q0 = np.where(R < R0, 1.0, 0.0)
         if shape == "circle":
             R0 = xmx / 12                               # xmx, also for the extent in y
             R = np.sqrt((X - xs) ** 2 + (Y - ys) ** 2)
             q0 = np.where(R < R0, 1.0, 0.0)
         if shape == "point":
             sig = 4.0 * dx                              # dx, also for the extent in y
             Rsq = (X - xs) ** 2 + (Y - ys) ** 2
             q0 = np.exp(-Rsq / 2.0 / sig**2) / sig / np.sqrt(2.0 * np.pi)
         return q0                                       # any other shape string: the zeros

   numpy.linspace(start, stop, num) (endpoint=True), as numpy 2.x computes it:
       div = num - 1;  y = arange(0, num);  if div > 0: y = y * ((stop - start) / div)  else: y = y * (stop - start)
       y += start;  if num > 1: y[-1] = stop
   so num = 1 gives the single node `start` (no division), num = 0 the empty array, and over the reals the last node
   i = num-1 is `stop` anyway.  nx, ny are Python integers (np.zeros / np.linspace reject anything else; negative
   values raise ValueError): `nat`.  nx = 0 or ny = 0 with Python numbers raises ZeroDivisionError in `dx` / `dy`
   (ideal_raises); the cell functions below are then never evaluated (there is no cell).

   Degenerate inputs over R: x / 0 is an unspecified real in Coq, and the only divisions by a variable are
   xmx / INR nx (shape "point"; nx = 0 raises before) and the linspace step (guarded by the match on num). *)
From Coq Require Import Reals String List Bool Arith.
Import ListNotations.
Open Scope R_scope.

(* numpy.linspace(start, stop, num)[i] for i < num *)
Definition np_linspace (start stop : R) (num i : nat) : R :=
  match num with
  | O => start
  | S O => start
  | _ => INR i * ((stop - start) / (INR num - 1)) + start
  end.

(* the signature's default for `shape` (the default of src_loc is None: option type below) *)
Definition ideal_default_shape : string := "diamond"%string.

(* ZeroDivisionError in `dx = xmx / nx` / `dy = ymx / ny` (Python numbers) *)
Definition ideal_raises (nx ny : nat) : bool := (nx =? 0)%nat || (ny =? 0)%nat.

(* shape of the returned array: (rows, columns) *)
Definition ideal_shape (nx ny : nat) : nat * nat := (ny, nx).

(* src_loc after the `if src_loc is None` statement *)
Definition ideal_loc (xmx ymx : R) (src_loc : option (R * R)) : R * R :=
  match src_loc with
  | None => (xmx / 2, ymx / 2)
  | Some p => p
  end.

Definition ideal_x (nx : nat) (xmx : R) (i : nat) : R := np_linspace 0 xmx nx i.
Definition ideal_y (ny : nat) (ymx : R) (j : nat) : R := np_linspace 0 ymx ny j.

Definition ideal_R0 (xmx : R) : R := xmx / 12.
Definition ideal_l1 (xs ys X Y : R) : R := Rabs (X - xs) + Rabs (Y - ys).
Definition ideal_rsq (xs ys X Y : R) : R := (X - xs) * (X - xs) + (Y - ys) * (Y - ys).

Definition ideal_diamond (xmx xs ys X Y : R) : R :=
  if Rlt_dec (ideal_l1 xs ys X Y) (ideal_R0 xmx) then 1 else 0.

Definition ideal_circle (xmx xs ys X Y : R) : R :=
  if Rlt_dec (sqrt (ideal_rsq xs ys X Y)) (ideal_R0 xmx) then 1 else 0.

Definition ideal_sigma (nx : nat) (xmx : R) : R := 4 * (xmx / INR nx).

Definition ideal_point (nx : nat) (xmx xs ys X Y : R) : R :=
  exp (- ideal_rsq xs ys X Y / 2 / (ideal_sigma nx xmx * ideal_sigma nx xmx))
  / ideal_sigma nx xmx / sqrt (2 * PI).

(* the three independent `if shape == ...` statements, in source order, acting on q0 *)
Definition ideal_value (shape : string) (nx : nat) (xmx xs ys X Y : R) : R :=
  let q0 := 0 in
  let q0 := if String.eqb shape "diamond" then ideal_diamond xmx xs ys X Y else q0 in
  let q0 := if String.eqb shape "circle" then ideal_circle xmx xs ys X Y else q0 in
  let q0 := if String.eqb shape "point" then ideal_point nx xmx xs ys X Y else q0 in
  q0.

(* cell (row j, column i) for a given source location *)
Definition ideal_cell (shape : string) (nx ny : nat) (xmx ymx xs ys : R) (j i : nat) : R :=
  ideal_value shape nx xmx xs ys (ideal_x nx xmx i) (ideal_y ny ymx j).

(* cell (row j, column i) of ideal_source((nx, ny), (xmx, ymx), src_loc, shape) *)
Definition ideal_source_cell (shape : string) (nx ny : nat) (xmx ymx : R) (src_loc : option (R * R))
    (j i : nat) : R :=
  ideal_cell shape nx ny xmx ymx (fst (ideal_loc xmx ymx src_loc)) (snd (ideal_loc xmx ymx src_loc)) j i.

(* the returned array, row by row *)
Definition ideal_source (shape : string) (nx ny : nat) (xmx ymx : R) (src_loc : option (R * R))
    : list (list R) :=
  map (fun j => map (fun i => ideal_source_cell shape nx ny xmx ymx src_loc j i) (seq 0 nx)) (seq 0 ny).

(* ---------------------------------------------------------------------------------------------- *)
(* yardsticks of the theorems (not code) *)

(* the solver's cell coordinate: column i of the flux array sits at i * dx, dx = xmx / nx (C11: bit-equal) *)
Definition solver_x (nx : nat) (xmx : R) (i : nat) : R := INR i * (xmx / INR nx).

(* the documented Gaussian: exp(-r^2 / (2 sigma^2)) / (sigma sqrt(2 pi)) *)
Definition gauss1 (sigma rsq : R) : R := exp (- rsq / (2 * (sigma * sigma))) / (sigma * sqrt (2 * PI)).

Definition scale_loc (c : R) (src_loc : option (R * R)) : option (R * R) :=
  match src_loc with
  | None => None
  | Some p => Some (c * fst p, c * snd p)
  end.
