(* Executable instance of Model/Cache.v used by the correspondence and by the non-vacuity /
   refutation witnesses: tokens are integers, the digest of a key is the key itself (an
   injective "hash"), and the solver is the most discriminating function that satisfies the
   two solver hypotheses: it returns the request itself with the halo resolved and, in
   footprint mode, the source VALUES erased.  No proofs in this file. *)
From Coq Require Import List Arith Bool ZArith.
From BL Require Import Model.Cache.
Import ListNotations.
Local Open Scope Z_scope.

Definition ZR := request Z.
Definition zkey := list (ktok Z).

Definition hash_x (k : zkey) : zkey := k.
Definition H_eqb_x : zkey -> zkey -> bool := key_eqb Z.eqb.

Definition norm_x (r : ZR) : ZR :=
  with_halo (if r_footprint r then with_values r 0 else r) (Some (resolve_halo Z.max r)).
Definition solve_x : ZR -> ZR := norm_x.
Definition nchunks_x (_ : ZR) : nat := 4%nat.   (* X, Y, Z, conc, flx: five writes *)

Definition key_x : ZR -> zkey := key Z.max.
Definition step_x := @solve_with_cache Z Z.max zkey H_eqb_x ZR hash_x solve_x nchunks_x.
Definition killed_x := @killed_call Z Z.max zkey H_eqb_x ZR hash_x solve_x nchunks_x.
Definition step_orig_x := @solve_with_cache_orig Z Z.max zkey H_eqb_x ZR hash_x solve_x nchunks_x.
Definition killed_orig_x := @killed_call_orig Z Z.max zkey H_eqb_x ZR hash_x solve_x nchunks_x.
Definition history_x := @run_history Z Z.max zkey H_eqb_x ZR hash_x solve_x nchunks_x.
Definition lookup_x := @lookup zkey H_eqb_x ZR.
Definition set_x := @set zkey H_eqb_x ZR.

Definition state_x := state zkey ZR.
Definition st0 : state_x := mkState [] 0%nat.

(* ---- scenarios of the correspondence ---- *)
Inductive xevent :=
| XRun (cache : bool) (i : nat)   (* call the solver with request i, cache attached or not *)
| XKilled (i : nat) (k : nat)     (* the same with cache, killed after k write operations *)
| XDamage (i : nat).              (* environment: the entry of request i becomes unreadable *)

Definition dflt : ZR :=
  mkReq 0 0 0 0 0 0 0 0 0 0 0 0 0 0 0 false false None 0.

Definition req_at (reqs : list ZR) (i : nat) : ZR := nth i reqs dflt.

Definition outcome_code (o : outcome) : Z :=
  match o with Miss => 0 | Hit => 1 | Bypass => 2 end.

(* 1 if <key of request j>.npz exists (readable or not), else 0 *)
Definition present (reqs : list ZR) (st : state_x) (j : nat) : Z :=
  match lookup_x (Final (hash_x (key_x (req_at reqs j)))) (st_fs st) with
  | Some _ => 1 | None => 0 end.

(* number of files <key>.npz in the directory *)
Definition n_final (st : state_x) : Z :=
  Z.of_nat (length (filter (fun pe => match fst pe with Final _ => true | Tmp _ => false end) (st_fs st))).

Definition observe (reqs : list ZR) (idxs : list nat) (code : Z) (st : state_x) : list Z :=
  code :: Z.of_nat (st_solves st) :: n_final st :: map (present reqs st) idxs.

(* one line per event: [code; solver runs so far; #entries; presence bit per keyed request] *)
Fixpoint run_scenario (reqs : list ZR) (idxs : list nat) (evs : list xevent) (st : state_x)
  : list (list Z) :=
  match evs with
  | [] => []
  | XRun cache i :: evs' =>
      let '(_, o, st') := step_x (mkCall cache (req_at reqs i)) st in
      observe reqs idxs (outcome_code o) st' :: run_scenario reqs idxs evs' st'
  | XKilled i k :: evs' =>
      let st' := killed_x (mkCall true (req_at reqs i)) k st in
      observe reqs idxs 3 st' :: run_scenario reqs idxs evs' st'
  | XDamage i :: evs' =>
      let st' := mkState (set_x (Final (hash_x (key_x (req_at reqs i)))) (Corrupt) (st_fs st))
                         (st_solves st) in
      observe reqs idxs 4 st' :: run_scenario reqs idxs evs' st'
  end.

(* for each keyed request, the first keyed request with the same key *)
Fixpoint first_same (reqs : list ZR) (k : zkey) (idxs : list nat) : Z :=
  match idxs with
  | [] => -1
  | j :: idxs' => if H_eqb_x (key_x (req_at reqs j)) k then Z.of_nat j else first_same reqs k idxs'
  end.

Definition key_classes (reqs : list ZR) (idxs : list nat) : list Z :=
  map (fun i => first_same reqs (key_x (req_at reqs i)) idxs) idxs.

Definition scenario (reqs : list ZR) (idxs : list nat) (evs : list xevent) : list (list Z) :=
  key_classes reqs idxs :: run_scenario reqs idxs evs st0.

(* ---- concrete requests for the witnesses ---- *)
(* ny nx values z u v kx ky kz xmax ymax levels modes meas bg footprint analytic halo precision *)
Definition base : ZR := mkReq 4 6 1 2 3 4 5 6 7 12 8 9 10 11 0 true false None 1.
Definition base_levels : ZR := mkReq 4 6 1 2 3 4 5 6 7 12 8 99 10 11 0 true false None 1.
Definition base_shape : ZR := mkReq 6 6 1 2 3 4 5 6 7 12 8 9 10 11 0 true false None 1.
Definition base_analytic : ZR := mkReq 4 6 1 2 3 4 5 6 7 12 8 9 10 11 0 true true None 1.
Definition base_bg : ZR := mkReq 4 6 1 2 3 4 5 6 7 12 8 9 10 11 5 true false None 1.
Definition base_values : ZR := mkReq 4 6 77 2 3 4 5 6 7 12 8 9 10 11 0 true false None 1.
Definition base_halo12 : ZR := mkReq 4 6 1 2 3 4 5 6 7 12 8 9 10 11 0 true false (Some 12%Z) 1.
Definition base_halo8 : ZR := mkReq 4 6 1 2 3 4 5 6 7 12 8 9 10 11 0 true false (Some 8%Z) 1.
