(* Model of bldfm/utils.py compute_wind_fields, over Coq's reals.

     def compute_wind_fields(u_rot, wind_dir):
         wind_dir = np.deg2rad(wind_dir)
         u = -u_rot * np.sin(wind_dir)
         v = -u_rot * np.cos(wind_dir)
         return u, v

   wind_dir: degrees clockwise from north, the direction the wind blows FROM.
   (u, v): eastward, northward components.  No proofs in this file. *)
From Coq Require Import Reals.
Open Scope R_scope.

Definition deg2rad (d : R) : R := d * PI / 180.

Definition compute_wind_fields (u_rot wind_dir : R) : R * R :=
  (- u_rot * sin (deg2rad wind_dir), - u_rot * cos (deg2rad wind_dir)).
