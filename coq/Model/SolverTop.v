(* Description language for the TOP LEVEL of bldfm.solver.steady_state_transport_solver and its interpreter.

   harness/py2coq_solvertop.py walks the body of the CURRENT function once, symbolically (every scalar / index local
   is replaced by its defining expression over the ARGUMENTS OF THE CALL, conditional re-bindings become
   conditional expressions), and emits build/<id>/GenSolverTop.v : a term  gen_solver_top : top_desc  made of

     * scalar / index / boolean EXPRESSIONS (texp / tzexp / tbexp) over the atoms of a call: the sizes nx, ny, nz,
       nlvls, the increments dx, dy, the pad widths px, py, the padded extents nxe, nye, the mode counts after the
       clamp, the band starts dlx, dly, the np.linspace arguments of the output coordinates, the condition of the
       scalar-levels normalisation;
     * a flat list of GUARDED STEPS in source order (the guard is the conjunction of the enclosing `if` tests):
       raise statements, the np.pad of the source (ValueError for a negative width), z[levels] (IndexError) and
       REFERENCES to the pieces other translators re-extract and bridge (plumbing pipelines: GenPlumbing.v;
       ivp_solver and the mean-mode block: GenKernel.v; per-mode expressions: the slices of GenSolver.v; the cache
       block: C15's translator);
     * the composition of the result: np.meshgrid arguments / indexing, the order of the grid tuple, np.squeeze.

   run_top interprets such a description on the arguments of a call and returns what the call returns (a result or
   the error that is raised FIRST); solve_top is the model's answer (Solver.geometry, SolverArray.field_arr, the
   coordinates of Solver.solve, plus the precision check that Solver.args cannot express).
   coq/Bridge/SolverTopBridge.v proves on every run  run_top gen_solver_top t = solve_top t  for ALL t.

   No proofs here. *)
From Coq Require Import ZArith List Bool.
From BL Require Import Base.Ops Model.Solver Model.SolverArray Proofs.Plumbing.
Import ListNotations.

(* ------------------------------------------------------------------ the call *)

Inductive prec := PrecSingle | PrecDouble | PrecOther.          (* precision == "single" / "double" / anything else *)
Inductive levels_arg := LvScalar (l : nat) | LvList (ls : list nat).   (* np.ndim(levels) == 0 or a 1-D sequence *)

Definition levels_list (l : levels_arg) : list nat := match l with LvScalar l => [l] | LvList ls => ls end.
Definition levels_scalar (l : levels_arg) : bool := match l with LvScalar _ => true | LvList _ => false end.
Definition prec_single (p : prec) : bool := match p with PrecSingle => true | _ => false end.
Definition prec_double (p : prec) : bool := match p with PrecDouble => true | _ => false end.

(* atoms of a call that expressions may mention *)
Inductive zatom := ZaNlx | ZaNly            (* modes[0], modes[1] *)
                 | ZaRows | ZaCols          (* srf_flx.shape[0], srf_flx.shape[1] *)
                 | ZaLenZ                   (* len(z) *)
                 | ZaNlvls.                 (* len(levels) after the scalar normalisation *)
Inductive catom := CaXmx | CaYmx | CaXm | CaYm | CaHalo | CaP000.
Inductive batom := BaFootprint | BaAnalytic                   (* truth value of the argument *)
                 | BaHaloNone                                  (* halo is None *)
                 | BaPrecSingle | BaPrecDouble                 (* precision == "single", == "double" *)
                 | BaLevelsScalar                              (* np.ndim(levels) == 0 *)
                 | BaRecentre.                                 (* the guard bridged by the slice recentre_guard: xm**2 + ym**2 > 0.0 *)

Inductive texp :=
| TC (a : catom) | TofZ (z : tzexp) | TQ (n d : Z)
| TAdd (a b : texp) | TSub (a b : texp) | TMul (a b : texp) | TDiv (a b : texp) | TNeg (a : texp)
| TMax (a b : texp) | TIte (c : tbexp) (a b : texp)
with tzexp :=
| TZ (a : zatom) | TZc (c : Z)
| TZAdd (a b : tzexp) | TZSub (a b : tzexp) | TZMul (a b : tzexp) | TZFloorDiv (a b : tzexp) | TZMod (a b : tzexp)
| TZTrunc (e : texp)                                           (* int(e) *)
| TZIte (c : tbexp) (a b : tzexp)
with tbexp :=
| TB (a : batom) | TBc (b : bool)
| TBor (a b : tbexp) | TBand (a b : tbexp) | TBnot (a : tbexp)
| TBZlt (a b : tzexp) | TBZle (a b : tzexp) | TBZeq (a b : tzexp)
| TBClt (a b : texp).

(* ------------------------------------------------------------------ pieces the other translators cover *)

Inductive piece :=
| PcCacheGet | PcCachePut                       (* the cache block (C15: harness/py2coq_cache.py) *)
| PcPadSrc                                      (* q0 = np.pad(q0, ((py, py), (px, px)))           [plumbing] *)
| PcSrcOnes                                     (* tfftq0 = np.ones((nly, nlx)) / nxe / nye          [plumbing gen_ones] *)
| PcSrcFwd                                      (* fft2 -> fftshift -> slice -> ifftshift            [plumbing gen_fwd] *)
| PcFreq                                        (* ilx, ily = fftfreq(..); lx, ly                    [slices lx, ly] *)
| PcMesh                                        (* Lx, Ly = np.meshgrid(lx, ly)                      [plumbing gen_mesh] *)
| PcMask                                        (* msk = np.ones(.., bool); msk[0, 0] = False        [plumbing gen_msk] *)
| PcOneZero                                     (* one, zero = np.ones(..)[msk], np.zeros(..)[msk] *)
| PcEigval                                      (* Kzinv, KxKzinv, KyKzinv, eigval                   [slice eigval] *)
| PcAlloc (single : bool)                       (* tfftp, tfftq = np.zeros((nlvls, nly, nlx), complex64 | complex128) *)
| PcPresetP                                     (* tfftp[0, 0, 0] = p000 *)
| PcMeanQ                                       (* tfftq[:, 0, 0] = tfftq0[0, 0] *)
| PcAnH | PcAnP0 | PcAnMean | PcAnQ | PcAnP     (* analytic branch                                   [slices an_*] *)
| PcThreads                                     (* the thread set-up block (C12) *)
| PcIvp1 | PcIvp2                               (* ivp_solver((one, zero), ..), ivp_solver((zero, tfftq0[msk]), ..)  [GenKernel] *)
| PcAlpha | PcAlpha0 | PcCombP | PcCombQ        (* alpha; tfftp[0, msk] = alpha; the two combinations [slices] *)
| PcMeanMode                                    (* the trapezoid block                               [GenKernel.gen_mean_mode] *)
| PcShiftFp | PcShiftCtr                        (* shift = ..; tfftp = tfftp * shift; tfftq = ..     [slices shift_*, plumbing] *)
| PcBack                                        (* fftshift, pad, ifftshift, fft2 | ifft2, .real, crop [plumbing gen_conc / gen_flx] *)
| PcDiffZ | PcUnpackProfiles.                   (* dz = np.diff(z); u, v, Kx, Ky, Kz = profiles       [read by the kernel / slices] *)

Definition piece_id (p : piece) : nat :=
  match p with
  | PcCacheGet => 0 | PcCachePut => 1 | PcPadSrc => 2 | PcSrcOnes => 3 | PcSrcFwd => 4 | PcFreq => 5 | PcMesh => 6
  | PcMask => 7 | PcOneZero => 8 | PcEigval => 9 | PcAlloc true => 10 | PcAlloc false => 11 | PcPresetP => 12
  | PcMeanQ => 13 | PcAnH => 14 | PcAnP0 => 15 | PcAnMean => 16 | PcAnQ => 17 | PcAnP => 18 | PcThreads => 19
  | PcIvp1 => 20 | PcIvp2 => 21 | PcAlpha => 22 | PcAlpha0 => 23 | PcCombP => 24 | PcCombQ => 25 | PcMeanMode => 26
  | PcShiftFp => 27 | PcShiftCtr => 28 | PcBack => 29 | PcDiffZ => 30 | PcUnpackProfiles => 31
  end%nat.
Definition piece_eqb (p q : piece) : bool := Nat.eqb (piece_id p) (piece_id q).
Definition pmem (p : piece) (l : list piece) : bool := existsb (piece_eqb p) l.

(* what a piece reads must have been produced before it runs (data dependencies of the source as the model has them) *)
Definition needs (p : piece) : list piece :=
  match p with
  | PcSrcFwd => [PcPadSrc]
  | PcMesh => [PcFreq]
  | PcOneZero => [PcMask]
  | PcEigval => [PcMesh; PcMask; PcUnpackProfiles]
  | PcPresetP | PcMeanQ => []          (* + an allocation and the source spectrum: see have_alloc / have_src *)
  | PcAnH => []
  | PcAnP0 => [PcEigval]
  | PcAnMean => [PcAnH; PcPresetP]
  | PcAnQ => [PcAnH; PcEigval]
  | PcAnP => [PcAnQ]
  | PcIvp1 => [PcOneZero; PcMesh; PcUnpackProfiles]
  | PcIvp2 => [PcOneZero; PcMesh; PcUnpackProfiles]
  | PcAlpha => [PcIvp1; PcIvp2; PcEigval]
  | PcAlpha0 => [PcAlpha]
  | PcCombP | PcCombQ => [PcAlpha]
  | PcMeanMode => [PcPresetP; PcDiffZ; PcUnpackProfiles]
  | PcShiftFp | PcShiftCtr => [PcMesh; PcMeanQ]
  | PcBack => [PcMeanQ]
  | _ => []
  end.
(* a dead store must not come after the store that is meant to overwrite it *)
Definition not_after (p : piece) : list piece :=
  match p with
  | PcAnP0 => [PcAnP] | PcAlpha0 => [PcCombP] | PcPresetP => [PcAnMean; PcMeanMode]
  | PcAlloc _ => [PcPresetP; PcMeanQ]
  | _ => []
  end.
(* stores into the spectra: need the allocation, must precede the shift and the backward pipeline;
   readers of tfftq0: need one of the two source branches *)
Definition is_store (p : piece) : bool :=
  match p with
  | PcPresetP | PcMeanQ | PcAnP0 | PcAnMean | PcAnQ | PcAnP | PcAlpha0 | PcCombP | PcCombQ | PcMeanMode => true
  | _ => false end.
Definition reads_src (p : piece) : bool :=
  match p with PcMeanQ | PcAnP0 | PcAnMean | PcAnQ | PcIvp2 | PcMeanMode => true | _ => false end.
Definition is_dead_store (p : piece) : bool := match p with PcAnP0 | PcAlpha0 => true | _ => false end.

Definition can_run (p : piece) (done : list piece) : bool :=
  negb (pmem p done) &&
  forallb (fun q => pmem q done) (needs p) &&
  forallb (fun q => negb (pmem q done)) (not_after p) &&
  (if is_store p then (pmem (PcAlloc true) done || pmem (PcAlloc false) done)
                      && negb (pmem PcShiftFp done || pmem PcShiftCtr done || pmem PcBack done) else true) &&
  (if reads_src p then pmem PcSrcOnes done || pmem PcSrcFwd done else true) &&
  (match p with
   | PcShiftFp | PcShiftCtr => negb (pmem PcBack done)
   | PcCacheGet => match done with [] => true | _ => false end        (* before anything is computed *)
   | _ => true end).

(* ------------------------------------------------------------------ steps *)

Inductive terror := TErr (e : error) | TBadPrecision | TNotModelled.
(* TNotModelled: the description does something Model/Solver.v has no counterpart of (a piece run twice, before what
   it reads exists, a missing piece, len() of a scalar, ...): never equal to an outcome of solve_top *)

Inductive tstep :=
| SRaiseIf (e : terror)                        (* raise ...                         (under its guard) *)
| SLevelsNorm                                  (* levels = np.array([levels])       (under its guard) *)
| SPadSource (ylo yhi xlo xhi : tzexp)         (* q0 = np.pad(q0, ((ylo, yhi), (xlo, xhi)), ..): ValueError for a negative width *)
| SIndexLevels                                 (* z[levels] : IndexError when an entry is >= len(z) *)
| SPiece (p : piece).

Record lin_desc := mkLin { ln_start : texp; ln_stop : texp; ln_num : tzexp; ln_endpoint : bool }.
(* an argument of np.meshgrid: z[levels] or a np.linspace(...) array *)
Inductive mesh_in := MZlev | MLin (d : lin_desc).

Record top_desc := mkTopDesc {
  td_steps : list (tbexp * tstep);
  td_nx : tzexp; td_ny : tzexp; td_nz : tzexp; td_nlvls : tzexp;
  td_dx : texp; td_dy : texp;
  td_px : tzexp; td_py : tzexp; td_nxe : tzexp; td_nye : tzexp;
  td_nlx : tzexp; td_nly : tzexp;                 (* after the clamp *)
  td_dlx : tzexp; td_dly : tzexp;
  td_mesh_in : list mesh_in;                      (* np.meshgrid(z[levels], y, x, ...) with x, y = np.linspace(...) *)
  td_mesh_ij : bool;                              (* indexing="ij" *)
  td_grid : list (nat * bool);                    (* grid = (np.squeeze(X), np.squeeze(Y), np.squeeze(Z)): which output of meshgrid, squeezed? *)
  td_conc_squeezed : bool; td_flx_squeezed : bool (* result = (grid, np.squeeze(conc), np.squeeze(flx)) *)
}.

Section Top.
Variable O : Ops.
Notation C := (C O).
Notation "0" := (c0 O) : ops_scope. Notation "1" := (c1 O) : ops_scope.
Infix "+" := (cadd O) : ops_scope. Infix "*" := (cmul O) : ops_scope.
Infix "-" := (csub O) : ops_scope. Infix "/" := (cdiv O) : ops_scope.
Notation "- x" := (copp O x) : ops_scope.
Local Open Scope ops_scope.
Notation ofZ := (cofZ O).
Notation args := (args O).
Notation geom := (geom O).

(* a_levels and a_single of t_a are not read: the call gives them as t_levels / t_prec *)
Record targs := mkTArgs { t_a : args; t_levels : levels_arg; t_prec : prec }.

Definition top_args (t : targs) : args :=
  let a := t_a t in
  mkArgs O (a_q0 O a) (a_z O a) (a_prof O a) (a_xmx O a) (a_ymx O a) (levels_list (t_levels t))
         (a_nlx O a) (a_nly O a) (a_xm O a) (a_ym O a) (a_p000 O a) (a_footprint O a) (a_analytic O a) (a_halo O a)
         (prec_single (t_prec t)).

(* ------------------------------------------------------------------ evaluation of expressions on a call *)

Definition ev_zatom (t : targs) (x : zatom) : Z :=
  let a := t_a t in
  match x with
  | ZaNlx => Z.of_nat (a_nlx O a) | ZaNly => Z.of_nat (a_nly O a)
  | ZaRows => Z.of_nat (length (a_q0 O a)) | ZaCols => Z.of_nat (length (hd [] (a_q0 O a)))
  | ZaLenZ => Z.of_nat (length (a_z O a))
  | ZaNlvls => Z.of_nat (length (levels_list (t_levels t)))
  end.
Definition ev_catom (t : targs) (x : catom) : C :=
  let a := t_a t in
  match x with
  | CaXmx => a_xmx O a | CaYmx => a_ymx O a | CaXm => a_xm O a | CaYm => a_ym O a
  | CaHalo => match a_halo O a with Some h => h | None => 0 end
  | CaP000 => a_p000 O a
  end.
Definition recentre (a : args) : bool := cltb O 0 (a_xm O a * a_xm O a + a_ym O a * a_ym O a).
Definition ev_batom (t : targs) (x : batom) : bool :=
  let a := t_a t in
  match x with
  | BaFootprint => a_footprint O a | BaAnalytic => a_analytic O a
  | BaHaloNone => match a_halo O a with Some _ => false | None => true end
  | BaPrecSingle => prec_single (t_prec t) | BaPrecDouble => prec_double (t_prec t)
  | BaLevelsScalar => levels_scalar (t_levels t)
  | BaRecentre => recentre a
  end.

Fixpoint evc (t : targs) (e : texp) : C :=
  match e with
  | TC a => ev_catom t a | TofZ z => ofZ (evz t z) | TQ n d => cofQ O n d
  | TAdd a b => evc t a + evc t b | TSub a b => evc t a - evc t b
  | TMul a b => evc t a * evc t b | TDiv a b => evc t a / evc t b | TNeg a => - evc t a
  | TMax a b => cmax O (evc t a) (evc t b)
  | TIte c a b => if evb t c then evc t a else evc t b
  end
with evz (t : targs) (e : tzexp) : Z :=
  match e with
  | TZ a => ev_zatom t a | TZc c => c
  | TZAdd a b => (evz t a + evz t b)%Z | TZSub a b => (evz t a - evz t b)%Z | TZMul a b => (evz t a * evz t b)%Z
  | TZFloorDiv a b => (evz t a / evz t b)%Z | TZMod a b => (evz t a mod evz t b)%Z
  | TZTrunc e => ctrunc O (evc t e)
  | TZIte c a b => if evb t c then evz t a else evz t b
  end
with evb (t : targs) (e : tbexp) : bool :=
  match e with
  | TB a => ev_batom t a | TBc b => b
  | TBor a b => evb t a || evb t b | TBand a b => evb t a && evb t b | TBnot a => negb (evb t a)
  | TBZlt a b => (evz t a <? evz t b)%Z | TBZle a b => (evz t a <=? evz t b)%Z | TBZeq a b => (evz t a =? evz t b)%Z
  | TBClt a b => cltb O (evc t a) (evc t b)
  end.

(* ------------------------------------------------------------------ the steps *)

Definition bad_level (a : args) : bool := existsb (fun l => (length (a_z O a) <=? l)%nat) (a_levels O a).

(* state: the pieces that ran (most recent first) and whether `levels` has been normalised *)
Definition run_step (t : targs) (s : tstep) (st : list piece * bool) : (list piece * bool) + terror :=
  let '(done, normed) := st in
  match s with
  | SRaiseIf e => inr e
  | SLevelsNorm => if levels_scalar (t_levels t) && negb normed then inl (done, true) else inr TNotModelled
  | SPadSource a b c d =>
      if (evz t a <? 0)%Z || (evz t b <? 0)%Z || (evz t c <? 0)%Z || (evz t d <? 0)%Z then inr (TErr NegativePad)
      else if can_run PcPadSrc done then inl (PcPadSrc :: done, normed) else inr TNotModelled
  | SIndexLevels =>
      if levels_scalar (t_levels t) && negb normed then inr TNotModelled
      else if bad_level (top_args t) then inr (TErr LevelIndex) else inl st
  | SPiece p => if can_run p done then inl (p :: done, normed) else inr TNotModelled
  end.

Fixpoint run_steps (t : targs) (l : list (tbexp * tstep)) (st : list piece * bool) : (list piece * bool) + terror :=
  match l with
  | [] => inl st
  | (g, s) :: r =>
      match (if evb t g then run_step t s st else inl st) with
      | inl st' => run_steps t r st'
      | inr e => inr e
      end
  end.

(* the pieces a call must have run when the result is assembled *)
Definition expected (a : args) (single : bool) : list piece :=
  [PcPadSrc; PcFreq; PcMesh; PcMask; PcEigval; PcAlloc single; PcPresetP; PcMeanQ; PcBack; PcUnpackProfiles]
  ++ (if a_footprint O a then [PcSrcOnes; PcShiftFp] else PcSrcFwd :: (if recentre a then [PcShiftCtr] else []))
  ++ (if a_analytic O a then [PcAnH; PcAnMean; PcAnQ; PcAnP]
      else [PcOneZero; PcThreads; PcIvp1; PcIvp2; PcAlpha; PcCombP; PcCombQ; PcMeanMode; PcDiffZ]).
(* may have run without effect on the result *)
Definition harmless (a : args) (p : piece) : bool :=
  match p with
  | PcCacheGet | PcCachePut | PcOneZero | PcDiffZ | PcThreads => true
  | PcAnP0 => a_analytic O a | PcAlpha0 => negb (a_analytic O a)
  | _ => false end.
Definition complete (t : targs) (st : list piece * bool) : bool :=
  let a := t_a t in
  let ex := expected a (prec_single (t_prec t)) in
  forallb (fun p => pmem p (fst st)) ex &&
  forallb (fun p => pmem p ex || harmless a p) (fst st) &&
  Bool.eqb (snd st) (levels_scalar (t_levels t)).

(* ------------------------------------------------------------------ output coordinates and the result *)

(* np.linspace(start, stop, num, endpoint): start + i * ((stop - start) / div), div = num - 1 | num *)
Record lin_val := mkLinVal { lv_start : C; lv_stop : C; lv_num : Z; lv_endpoint : bool }.
Definition lin_at (v : lin_val) (i : nat) : C :=
  lv_start v + ofZ (Z.of_nat i) * ((lv_stop v - lv_start v) / ofZ (if lv_endpoint v then lv_num v - 1 else lv_num v)%Z).
Definition lin_list (v : lin_val) : list C := map (lin_at v) (seq 0%nat (Z.to_nat (lv_num v))).
Definition ev_lin (t : targs) (d : lin_desc) : lin_val :=
  mkLinVal (evc t (ln_start d)) (evc t (ln_stop d)) (evz t (ln_num d)) (ln_endpoint d).

Inductive mesh_val := MVZlev (zl : list C) | MVLin (v : lin_val).
Definition ev_mesh (t : targs) (zl : list C) (m : mesh_in) : mesh_val :=
  match m with MZlev => MVZlev zl | MLin d => MVLin (ev_lin t d) end.

Record tresult := mkTResult {
  tr_mesh_in : list mesh_val; tr_mesh_ij : bool;   (* Z, Y, X = np.meshgrid(z[levels], y, x, indexing="ij") *)
  tr_grid : list (nat * bool);                     (* the grid tuple: outputs 2, 1, 0 of meshgrid (X, Y, Z), each squeezed *)
  tr_conc : arr O; tr_flx : arr O;                 (* (nlvls, ny, nx) before np.squeeze *)
  tr_squeezed : bool * bool;
  tr_shape : list nat                              (* shape of conc / flx after np.squeeze *)
}.

Definition geom_from (d : top_desc) (t : targs) : geom :=
  mkGeom O (Z.to_nat (evz t (td_nx d))) (Z.to_nat (evz t (td_ny d))) (Z.to_nat (evz t (td_nz d)))
         (evc t (td_dx d)) (evc t (td_dy d))
         (Z.to_nat (evz t (td_px d))) (Z.to_nat (evz t (td_py d)))
         (Z.to_nat (evz t (td_nxe d))) (Z.to_nat (evz t (td_nye d)))
         (Z.to_nat (evz t (td_nlx d))) (Z.to_nat (evz t (td_nly d))).

Definition run_top (d : top_desc) (t : targs) : tresult + terror :=
  match run_steps t (td_steps d) ([], false) with
  | inr e => inr e
  | inl st =>
      if negb (complete t st) then inr TNotModelled else
      let a := top_args t in
      let g := geom_from d t in
      (* the band starts the plumbing pipelines use are those of the model; nlvls is the number of level slots *)
      if negb ((evz t (td_dlx d) =? start (znxe O g) (znlx O g))%Z && (evz t (td_dly d) =? start (znye O g) (znly O g))%Z
               && (evz t (td_nlvls d) =? Z.of_nat (length (a_levels O a)))%Z) then inr TNotModelled else
      inl (mkTResult (map (ev_mesh t (map (fun l => nth0 O (a_z O a) l) (a_levels O a))) (td_mesh_in d))
                     (td_mesh_ij d) (td_grid d)
                     (field_arr O a g fst) (field_arr O a g snd)
                     (td_conc_squeezed d, td_flx_squeezed d)
                     (squeeze_shape [length (a_levels O a); g_ny O g; g_nx O g]))
  end.

(* ------------------------------------------------------------------ the model's answer *)

(* Solver.geometry, case by case *)
Definition odd_modes (a : args) : bool := Nat.odd (a_nlx O a) || Nat.odd (a_nly O a).
Definition raw_nx (a : args) : nat := length (hd [] (a_q0 O a)).
Definition raw_ny (a : args) : nat := length (a_q0 O a).
Definition raw_dx (a : args) : C := a_xmx O a / ofZ (Z.of_nat (raw_nx a)).
Definition raw_dy (a : args) : C := a_ymx O a / ofZ (Z.of_nat (raw_ny a)).
Definition raw_px (a : args) : Z := ctrunc O (halo_of O a / raw_dx a).
Definition raw_py (a : args) : Z := ctrunc O (halo_of O a / raw_dy a).
Definition neg_pad (a : args) : bool := (raw_px a <? 0)%Z || (raw_py a <? 0)%Z.

Definition geom_of (a : args) : geom :=
  let nx := raw_nx a in let ny := raw_ny a in
  let px := Z.to_nat (raw_px a) in let py := Z.to_nat (raw_py a) in
  let nxe := (nx + 2 * px)%nat in let nye := (ny + 2 * py)%nat in
  let clamp := (nxe <? a_nlx O a)%nat || (nye <? a_nly O a)%nat in
  mkGeom O nx ny (length (a_z O a)) (raw_dx a) (raw_dy a) px py nxe nye
         (if clamp then nxe else a_nlx O a) (if clamp then nye else a_nly O a).

Definition bad_prec (t : targs) : bool := match t_prec t with PrecOther => true | _ => false end.

(* the order of the errors: odd modes (ValueError) before anything else; a negative pad width (np.pad's ValueError); the
   precision check; then the level index (IndexError at z[levels]) *)
Definition solve_top (t : targs) : tresult + terror :=
  let a := top_args t in
  match geometry O a with
  | inr LevelIndex => if bad_prec t then inr TBadPrecision else inr (TErr LevelIndex)
  | inr e => inr (TErr e)
  | inl g =>
      if bad_prec t then inr TBadPrecision else
      inl (mkTResult [MVZlev (map (fun l => nth0 O (a_z O a) l) (a_levels O a));
                      MVLin (mkLinVal (ofZ 0%Z) (a_ymx O a) (Z.of_nat (g_ny O g)) false);
                      MVLin (mkLinVal (ofZ 0%Z) (a_xmx O a) (Z.of_nat (g_nx O g)) false)] true
                     [(2, true); (1, true); (0, true)]%nat
                     (field_arr O a g fst) (field_arr O a g snd)
                     (true, true)
                     (squeeze_shape [length (a_levels O a); g_ny O g; g_nx O g]))
  end.

End Top.
