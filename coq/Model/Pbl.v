(* Model of bldfm.pbl_model (vertical_profiles, psi, phi) and of the reference model's copies
   _phiM, _phiC, _psiM in bldfm.ffm_kormann_meixner, over Coq's reals.

   The model mirrors the source formula by formula (each scalar formula below is re-proved equal
   to the formula re-extracted from the current source by the slice translator, Bridge/PblBridge.v).
   What is NOT a scalar formula and is modelled by hand:
     * the branch structure `if z0 is None / elif ustar is None / else raise` (resolve),
     * `np.arange(0.0, zetamx + dzeta, dzeta)`: numpy allocates ceil((stop-start)/step) elements and
       fills element i with start + i*step.  The model takes the REAL quotient
       (zetamx + dzeta)/dzeta and its exact ceiling (`ceilZ`, built on `up`); node i is INR i * dzeta.
       Floating point: numpy evaluates the same quotient in binary64 and then takes ceil, so the two
       counts agree unless the real quotient lies within a few ulps of an integer; the correspondence
       certifies for each generated case that it is at distance > 1e-9 from the integers (cases closer
       than that are not generated), and compares len(z) exactly,
     * np.log of a non-positive number is NaN/-inf in numpy and 0 in Coq: every theorem that uses
       a logarithm proves (or assumes, where stated) that its argument is positive.
   No proofs in this file. *)
From Coq Require Import Reals ZArith List.
Import ListNotations.
Open Scope R_scope.

(* ---- constants of the source *)
Definition kap : R := 2 / 5.           (* kap = 0.4 *)
Definition c_l : R := 169 / 200.       (* cl = 0.845 *)
Definition c_m : R := 107 / 1250.      (* cm = 0.0856 *)
Definition c_h : R := 51 / 250.        (* ch = 0.204 *)

(* ---- stability functions (pbl_model.psi, pbl_model.phi) *)
Definition xi_of (x : R) : R := Rpower (1 - 16 * x) (1 / 4).
Definition psi_of_xi (xi : R) : R :=
  -2 * ln (1 / 2 * (1 + xi)) - ln (1 / 2 * (1 + xi * xi)) + 2 * atan xi - 1 / 2 * PI.
Definition psi_unstable (x : R) : R := psi_of_xi (xi_of x).
Definition psi_stable (x : R) : R := 5 * x.
(* np.where(x > 0.0, 5.0*x, <Businger-Dyer>) *)
Definition psi (x : R) : R := if Rlt_dec 0 x then psi_stable x else psi_unstable x.

Definition phi_stable (x : R) : R := 1 + 5 * x.
Definition phi_unstable (x : R) : R := Rpower (1 - 16 * x) (- (1 / 2)).
Definition phi (x : R) : R := if Rlt_dec 0 x then phi_stable x else phi_unstable x.

(* The Businger-Dyer flux-gradient function for momentum.  pbl_model has no copy of it; it is what
   ffm_kormann_meixner._phiM computes (km_phiM below) and what psi integrates. *)
Definition phim (x : R) : R := if Rlt_dec 0 x then 1 + 5 * x else Rpower (1 - 16 * x) (- (1 / 4)).

(* ---- the reference model's copies: masked stores
        f = zeros; sflag = L < 0; f[sflag] = unstable; sflag = L >= 0; f[sflag] = stable
      i.e. the later store wins where its mask holds. *)
Definition km_phiM (zm L : R) : R :=
  if Rle_dec 0 L then 1 + 5 * zm / L
  else if Rlt_dec L 0 then Rpower (1 - 16 * zm / L) (- (1 / 4)) else 0.
Definition km_phiC (zm L : R) : R :=
  if Rle_dec 0 L then 1 + 5 * zm / L
  else if Rlt_dec L 0 then Rpower (1 - 16 * zm / L) (- (1 / 2)) else 0.
Definition km_psiM (zm L : R) : R :=
  if Rle_dec 0 L then 5 * zm / L
  else if Rlt_dec L 0 then psi_of_xi (Rpower (1 - 16 * zm / L) (1 / 4)) else 0.

(* ---- closure at the measurement height *)
Inductive closure := CONSTANT | MOST | MOSTM | OAAHOC.

Definition absum (um vm : R) : R := sqrt (um * um + vm * vm).
Definition z0_of_ustar (zm absum ustar mol : R) : R :=
  zm * exp (- kap * absum / ustar + psi (zm / mol)).
Definition ustar_of_z0 (zm absum z0 mol : R) : R :=
  absum * kap / (ln (zm / z0) + psi (zm / mol)).
Definition z0_oaahoc (zm absum tke ustar : R) : R :=
  zm * exp (- c_m * c_l * absum * sqrt tke / (ustar * ustar)).

(* (z0, ustar) after the first if-chain; None = the call raises (ValueError when both are given,
   TypeError from arithmetic on None when the needed one is missing).  OAAHOC always overwrites z0. *)
Definition resolve (c : closure) (zm absum : R) (ustar z0 : option R) (mol tke : R) : option (R * R) :=
  match c with
  | OAAHOC => match ustar with
              | Some us => Some (z0_oaahoc zm absum tke us, us)
              | None => None
              end
  | _ => match z0, ustar with
         | None, Some us => Some (z0_of_ustar zm absum us mol, us)
         | Some z, None => Some (z, ustar_of_z0 zm absum z mol)
         | _, _ => None
         end
  end.

(* ---- stretched grid *)
Definition h_default (meas_height : R) : R := 2 * meas_height.
Definition zmx_default (meas_height : R) : R := 2 * meas_height.

Definition bb (zm z0 h : R) : R := zm / (exp (- z0 / h) - exp (- zm / h)).
Definition aa (zm z0 h : R) : R := bb zm z0 h * exp (- z0 / h).
Definition zetamx (zm z0 h zmx : R) : R := aa zm z0 h - bb zm z0 h * exp (- zmx / h).
Definition dzeta (zm : R) (n : nat) : R := zm / INR n.

(* exact ceiling of a real *)
Definition ceilZ (q : R) : Z := (1 - up (- q))%Z.

(* len(np.arange(0.0, zetamx + dzeta, dzeta)) *)
Definition nnodes (zm z0 h zmx : R) (n : nat) : Z :=
  ceilZ ((zetamx zm z0 h zmx + dzeta zm n) / dzeta zm n).

Definition zeta (zm : R) (n i : nat) : R := INR i * dzeta zm n.
Definition z_of_zeta (h a b zt : R) : R := - h * ln (- (zt - a) / b).
Definition znode (zm z0 h : R) (n i : nat) : R :=
  z_of_zeta h (aa zm z0 h) (bb zm z0 h) (zeta zm n i).

(* ---- profiles: everything vertical_profiles uses after the closure has been resolved *)
Record env := mkEnv {
  e_zm : R; e_um : R; e_vm : R;
  e_z0 : R; e_ustar : R;
  e_mol : R; e_prsc : R; e_tke : R;
  e_h : R; e_zmx : R; e_n : nat
}.

Definition opt_default (o : option R) (d : R) : R := match o with Some x => x | None => d end.

Definition make_env (c : closure) (n : nat) (zm um vm : R) (ustar z0 : option R)
    (mol prsc tke : R) (domain_height stretch : option R) : option env :=
  match resolve c zm (absum um vm) ustar z0 mol tke with
  | Some (z, us) =>
      Some (mkEnv zm um vm z us mol prsc tke
                  (opt_default stretch (h_default zm)) (opt_default domain_height (zmx_default zm)) n)
  | None => None
  end.

Definition e_absum (E : env) : R := absum (e_um E) (e_vm E).
Definition e_nnodes (E : env) : Z := nnodes (e_zm E) (e_z0 E) (e_h E) (e_zmx E) (e_n E).
Definition e_znode (E : env) (i : nat) : R := znode (e_zm E) (e_z0 E) (e_h E) (e_n E) i.

Definition absu_most (ustar z0 mol z : R) : R := ustar / kap * (ln (z / z0) + psi (z / mol)).
Definition absu_oaahoc (ustar z0 tke z : R) : R := ustar * ustar / c_m / c_l / sqrt tke * ln (z / z0).
Definition K_most (ustar mol prsc z : R) : R := kap * ustar * z / phi (z / mol) / prsc.
Definition K_const (ustar zm prsc : R) : R := kap * ustar * zm / prsc.
Definition K_oaahoc (tke z : R) : R := c_h * c_l * z * sqrt tke.
Definition dir_u (um absum absu : R) : R := um / absum * absu.
Definition Kx_mostm (K u v : R) : R := K * (v * v) / (u * u + v * v).
Definition Ky_mostm (K u v : R) : R := K * (u * u) / (u * u + v * v).

(* wind speed along the measured direction at height z *)
Definition absu_at (c : closure) (E : env) (z : R) : R :=
  match c with
  | CONSTANT => e_absum E
  | MOST | MOSTM => absu_most (e_ustar E) (e_z0 E) (e_mol E) z
  | OAAHOC => absu_oaahoc (e_ustar E) (e_z0 E) (e_tke E) z
  end.

Definition u_at (c : closure) (E : env) (z : R) : R :=
  match c with
  | CONSTANT => e_um E
  | _ => dir_u (e_um E) (e_absum E) (absu_at c E z)
  end.
Definition v_at (c : closure) (E : env) (z : R) : R :=
  match c with
  | CONSTANT => e_vm E
  | _ => dir_u (e_vm E) (e_absum E) (absu_at c E z)
  end.

(* the scalar K of each branch (Kz of every closure) *)
Definition K_at (c : closure) (E : env) (z : R) : R :=
  match c with
  | CONSTANT => K_const (e_ustar E) (e_zm E) (e_prsc E)
  | MOST | MOSTM => K_most (e_ustar E) (e_mol E) (e_prsc E) z
  | OAAHOC => K_oaahoc (e_tke E) z
  end.
Definition Kz_at := K_at.
Definition Kx_at (c : closure) (E : env) (z : R) : R :=
  match c with
  | MOSTM => Kx_mostm (K_at c E z) (u_at c E z) (v_at c E z)
  | _ => K_at c E z
  end.
Definition Ky_at (c : closure) (E : env) (z : R) : R :=
  match c with
  | MOSTM => Ky_mostm (K_at c E z) (u_at c E z) (v_at c E z)
  | _ => K_at c E z
  end.

Definition u_node c E i := u_at c E (e_znode E i).
Definition v_node c E i := v_at c E (e_znode E i).
Definition Kx_node c E i := Kx_at c E (e_znode E i).
Definition Ky_node c E i := Ky_at c E (e_znode E i).
Definition Kz_node c E i := Kz_at c E (e_znode E i).

(* the returned arrays, as a list of rows (z, u, v, Kx, Ky, Kz) *)
Definition row (c : closure) (E : env) (i : nat) : R * R * R * R * R * R :=
  (e_znode E i, u_node c E i, v_node c E i, Kx_node c E i, Ky_node c E i, Kz_node c E i).
Definition profiles (c : closure) (E : env) : list (R * R * R * R * R * R) :=
  map (row c E) (seq 0 (Z.to_nat (e_nnodes E))).

Definition vertical_profiles (c : closure) (n : nat) (zm um vm : R) (ustar z0 : option R)
    (mol prsc tke : R) (domain_height stretch : option R) : option (list (R * R * R * R * R * R)) :=
  match make_env c n zm um vm ustar z0 mol prsc tke domain_height stretch with
  | Some E => Some (profiles c E)
  | None => None
  end.

(* interface.run_bldfm_single calls vertical_profiles(n = nz, meas_height = z_m, no domain_height,
   no stretch) and, by default, asks the solver for level index nz. *)
Definition interface_level (nz : nat) : nat := nz.

Definition row_z (r : R * R * R * R * R * R) : R := let '(z, _, _, _, _, _) := r in z.
