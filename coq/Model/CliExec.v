(* Concrete worlds for Model/Cli.v: used by the non-vacuity Examples of Properties/C16Cli.v and by the differential
   correspondence of harness/props/c16.py (the model is run with vm_compute on the worlds the harness observed).  No proofs.
   Towers are numbers, tower k is named (names k); the single run of tower k at step i is the pair (k, i); the items of a
   result are strings: its tower's name, the rendering of its step's timestamp, otherwise the key itself. *)
From Coq Require Import String Ascii List Arith Bool.
From BL Require Import Model.Cli.
Import ListNotations.

Definition ex_item (names stamps : nat -> string) (r : nat * nat) (key : string) : string :=
  if String.eqb key "tower_name" then names (fst r)
  else if String.eqb key "timestamp" then stamps (snd r)
  else key.

Definition ex_world_gen (ok : bool) (towers : list nat) (n : nat) (names stamps : nat -> string) : world unit unit nat string nat (nat * nat) string :=
  mkWorld (fun _ => if ok then Some tt else None) (fun _ => towers) (fun _ => n) names string_dec (fun _ => 4) (fun _ => 2) (fun _ => 1)
          (fun _ _ tw i => (tw, i)) (ex_item names stamps) (fun s => s) (fun s => (s, s)).

Definition ex_names (k : nat) : string := if Nat.eqb k 0 then "A" else if Nat.eqb k 1 then "B" else "A".


Definition ex_stamps (i : nat) : string := if Nat.eqb i 0 then "0" else if Nat.eqb i 1 then "1" else "2".
Definition ex_world (towers : list nat) (n : nat) (names : nat -> string) := ex_world_gen true towers n names ex_stamps.

(* ---- the world of the differential correspondence (harness/props/c16.py: cli_correspondence) ----
   tower k of the configuration is the number k, named (table names k); step i is labelled (table stamps i) - what
   str(timestamp) gives in Python; the single run returns (the settings in force, (k, i)); an item of a result is
   (text, (k, i)) with text = the tower's name / the step's label / the key itself; a, b = d gives (text.0, ..), (text.1, ..) *)
Definition table (l : list string) (k : nat) : string := nth k l ""%string.

Definition datum := (string * (nat * nat))%type.
Definition obs_result := (rt nat * (nat * nat))%type.

Definition obs_item (names stamps : list string) (r : obs_result) (key : string) : datum :=
  (if String.eqb key "tower_name" then table names (fst (snd r))
   else if String.eqb key "timestamp" then table stamps (snd (snd r))
   else key, snd r).

Definition obs_world (ok : bool) (ntowers n : nat) (names stamps : list string) (nt mw uc : nat)
  : world unit unit nat string nat obs_result datum :=
  mkWorld (fun _ => if ok then Some tt else None) (fun _ => seq 0 ntowers) (fun _ => n) (table names) string_dec
          (fun _ => nt) (fun _ => mw) (fun _ => uc)
          (fun s _ tw i => (s, (tw, i))) (obs_item names stamps) (fun d => fst d)
          (fun d => ((fst d ++ ".0", snd d), (fst d ++ ".1", snd d))%string).

Definition obs_plot := (string * datum * datum * (datum * datum))%type.
Definition observation := (bool * rt nat * list obs_result * list obs_plot)%type.

(* what the model says the invocation does *)
Definition obs_model (ok : bool) (ntowers n : nat) (names stamps : list string) (nt mw uc : nat) (dry plot : bool) : observation :=
  let out := cmd_run (obs_world ok ntowers n names stamps nt mw uc) (mkArgs tt dry plot) in
  (o_loaded out, o_rt out, o_results out, map (fun p => (p_file p, p_field p, p_grid p, p_marker p)) (o_plots out)).

(* boolean comparison of two observations *)
Definition onat_eqb (a b : option nat) : bool :=
  match a, b with Some x, Some y => Nat.eqb x y | None, None => true | _, _ => false end.
Definition rt_eqb (a b : rt nat) : bool :=
  onat_eqb (rt_num_threads a) (rt_num_threads b) && onat_eqb (rt_max_workers a) (rt_max_workers b) && onat_eqb (rt_use_cache a) (rt_use_cache b).
Definition datum_eqb (a b : datum) : bool :=
  String.eqb (fst a) (fst b) && Nat.eqb (fst (snd a)) (fst (snd b)) && Nat.eqb (snd (snd a)) (snd (snd b)).
Definition result_eqb (a b : obs_result) : bool :=
  rt_eqb (fst a) (fst b) && Nat.eqb (fst (snd a)) (fst (snd b)) && Nat.eqb (snd (snd a)) (snd (snd b)).
Definition plot_eqb (a b : obs_plot) : bool :=
  match a, b with (fa, da, ga, (xa, ya)), (fb, db, gb, (xb, yb)) =>
    String.eqb fa fb && datum_eqb da db && datum_eqb ga gb && datum_eqb xa xb && datum_eqb ya yb end.
Fixpoint list_eqb {X : Type} (e : X -> X -> bool) (a b : list X) : bool :=
  match a, b with
  | [], [] => true
  | x :: a', y :: b' => e x y && list_eqb e a' b'
  | _, _ => false
  end.
Definition obs_eqb (a b : observation) : bool :=
  match a, b with (la, ra, ca, pa), (lb, rb, cb, pb) =>
    Bool.eqb la lb && rt_eqb ra rb && list_eqb result_eqb ca cb && list_eqb plot_eqb pa pb end.

(* agreement of the model with an observed invocation; and, when they disagree, which component does *)
Definition obs_agree (ok : bool) (ntowers n : nat) (names stamps : list string) (nt mw uc : nat) (dry plot : bool) (seen : observation) : bool :=
  obs_eqb (obs_model ok ntowers n names stamps nt mw uc dry plot) seen.
