(* Model of the process-global state a solve touches (C12).

   bldfm keeps four pieces of state outside the arguments of steady_state_transport_solver:
     config.NUM_THREADS                      (config.py:9, read at every solve)
     numba's runtime thread count            (set by solver.py `set_num_threads(config.NUM_THREADS)`)
     fft_manager._fft_manager                (singleton; its num_threads; FFTManager.__init__ writes
                                              pyfftw.config.NUM_THREADS)
     parallelize's `_compiled` dict          (utils.py:166-177; one numba dispatcher per parallel flag)
   This file is an executable state machine over exactly these, mirroring the source statement by
   statement.  The numerical work enters as Section variables indexed by everything the runtime
   state can feed into it (compiled variant, numba thread count, pyfftw thread count), so that
   "the state cannot influence the result" is a theorem about the machine plus NAMED oracle
   equalities about the kernels (Proofs/RuntimeProofs.v), never a definition.
   No proofs in this file. *)
From Coq Require Import List Arith Bool.
Import ListNotations.

(* ------------------------------------------------------------------ state *)

Record state := mkState {
  cfg_threads : nat;        (* bldfm.config.NUM_THREADS *)
  numba_threads : nat;      (* numba.get_num_threads() *)
  mgr : option nat;         (* fft_manager._fft_manager: None, or Some num_threads of the live manager *)
  pyfftw_threads : nat;     (* pyfftw.config.NUM_THREADS: what a pyfftw.interfaces transform uses *)
  compiled : list bool;     (* keys of parallelize's _compiled, in insertion order *)
  mgr_creations : nat       (* number of FFTManager.__init__ calls so far *)
}.

(* a fresh interpreter: config.NUM_THREADS = 1, no manager, nothing compiled; numba's and pyfftw's
   initial thread counts come from the environment (NUMBA_NUM_THREADS / cpu count, OMP_NUM_THREADS) *)
Definition init (numba0 pyfftw0 : nat) : state := mkState 1 numba0 None pyfftw0 [] 0.

Definition set_cfg (n : nat) (s : state) : state :=
  mkState n (numba_threads s) (mgr s) (pyfftw_threads s) (compiled s) (mgr_creations s).
Definition set_numba (n : nat) (s : state) : state :=
  mkState (cfg_threads s) n (mgr s) (pyfftw_threads s) (compiled s) (mgr_creations s).
Definition set_mgr (m : option nat) (s : state) : state :=
  mkState (cfg_threads s) (numba_threads s) m (pyfftw_threads s) (compiled s) (mgr_creations s).

(* FFTManager(num_threads=n):  self.num_threads = n; pyfftw.config.NUM_THREADS = n; (cache enable,
   wisdom load, atexit registration are not state a solve reads) *)
Definition create_mgr (n : nat) (s : state) : state :=
  mkState (cfg_threads s) (numba_threads s) (Some n) n (compiled s) (S (mgr_creations s)).

(* fft_manager.get_fft_manager(num_threads=n):
     if _fft_manager is not None and _fft_manager.num_threads != num_threads: _fft_manager = None
     if _fft_manager is None: _fft_manager = FFTManager(num_threads=num_threads, ...)            *)
Definition get_fft_manager (n : nat) (s : state) : state :=
  let s1 := match mgr s with
            | Some t => if Nat.eqb t n then s else set_mgr None s
            | None => s
            end in
  match mgr s1 with
  | None => create_mgr n s1
  | Some _ => s1
  end.

(* fft_manager.reset_fft_manager(): _fft_manager = None   (pyfftw.config.NUM_THREADS is left as it is) *)
Definition reset_fft_manager (s : state) : state := set_mgr None s.

(* utils.parallelize.wrapper:  use_parallel = config.NUM_THREADS > 1
                               if use_parallel not in _compiled: _compiled[use_parallel] = numba.jit(...)
   returns the new state and (variant used, numba thread count in force at the call) *)
Definition use_parallel (s : state) : bool := (1 <? cfg_threads s)%nat.
Definition ensure_compiled (par : bool) (s : state) : state :=
  if existsb (Bool.eqb par) (compiled s) then s
  else mkState (cfg_threads s) (numba_threads s) (mgr s) (pyfftw_threads s) (compiled s ++ [par]) (mgr_creations s).
Definition call_parallelized (s : state) : state * (bool * nat) :=
  let par := use_parallel s in
  (ensure_compiled par s, (par, numba_threads s)).

(* module-level fft_manager.fft2 / ifft2:  manager = get_fft_manager()   [default num_threads=1]
                                            return manager.fft2(...)   -> pyfftw.interfaces, threads=None
   returns the new state and the thread count the transform runs with (pyfftw.config.NUM_THREADS) *)
Definition call_fft (s : state) : state * nat :=
  let s1 := get_fft_manager 1 s in (s1, pyfftw_threads s1).

(* what the state fed into the numerical work of one solve *)
Record usage := mkUsage {
  u_pre : option nat;               (* threads of fft2(q0); None in footprint mode (no transform) *)
  u_k1 : option (bool * nat);       (* first ivp_solver call: (variant, numba threads); None if analytic *)
  u_k2 : option (bool * nat);       (* second ivp_solver call *)
  u_post_p : nat;                   (* threads of the final transform of the concentration spectrum *)
  u_post_q : nat                    (* threads of the final transform of the flux spectrum *)
}.

(* the state seen by a solve in a fresh single-threaded process *)
Definition pure_usage (footprint analytic : bool) : usage :=
  mkUsage (if footprint then None else Some 1%nat)
          (if analytic then None else Some (false, 1%nat))
          (if analytic then None else Some (false, 1%nat)) 1 1.

(* steady_state_transport_solver, the statements that touch global state, in source order
   (cache=None; argument errors are raised before any of them) *)
Definition run_solve (footprint analytic : bool) (s : state) : state * usage :=
  (* solver.py:145  fftq0 = fft2(q0, norm="forward")     [dispersion only] *)
  let '(s1, pre) := if footprint then (s, None)
                    else let '(s', t) := call_fft s in (s', Some t) in
  (* solver.py:202  if analytic: numpy only.   else: *)
  let '(s4, k1, k2) :=
    if analytic then (s1, None, None) else
    (* solver.py:220-227  thread set-up *)
    let s2 := if (1 <? cfg_threads s1)%nat
              then get_fft_manager (cfg_threads s1) (set_numba (cfg_threads s1) s1)
              else get_fft_manager 1 s1 in
    (* solver.py:229, 233  two ivp_solver calls through parallelize *)
    let '(s3, k1) := call_parallelized s2 in
    let '(s4, k2) := call_parallelized s3 in
    (s4, Some k1, Some k2) in
  (* solver.py:297-302  p = fft2/ifft2(fftp).real ; q = fft2/ifft2(fftq).real *)
  let '(s5, tp) := call_fft s4 in
  let '(s6, tq) := call_fft s5 in
  (s6, mkUsage pre k1 k2 tp tq).

(* A call need not return: the solver raises
     - before touching any global state (odd `modes`, negative halo: solver.py:103, np.pad),
     - after the source transform (unknown `precision`, solver.py:197; analytic branch with a level
       index outside z, solver.py:206),
     - at the very end (numerical branch with a level index outside z: `z[levels]` in the meshgrid,
       solver.py:311, after both final transforms).
   Which of these happens is a function of the arguments alone. *)
Inductive outcome := Returns | RaisesBefore | RaisesAfterSource | RaisesAtEnd.

Definition run_call (footprint analytic : bool) (oc : outcome) (s : state) : state * option usage :=
  match oc with
  | RaisesBefore => (s, None)
  | RaisesAfterSource => (if footprint then s else fst (call_fft s), None)
  | RaisesAtEnd => (fst (run_solve footprint analytic s), None)
  | Returns => let '(s', u) := run_solve footprint analytic s in (s', Some u)
  end.

(* ------------------------------------------------------------------ numerics and histories *)

Section Runtime.
Variable A : Type.                 (* the arguments of a solve, opaque *)
Variables src kout mid fld : Type. (* truncated source spectrum; ivp_solver output; level spectra; field *)

Variable flat : A -> src.                               (* footprint: np.ones/nxe/nye, no transform *)
Variable fft_src : nat -> A -> src.                     (* fft2(q0) + shift/slice, on t pyfftw threads *)
Variable closed : A -> src -> mid.                      (* analytic branch: numpy only *)
Variable kernel : bool -> nat -> A -> src -> bool -> kout.
   (* ivp_solver: compiled variant `parallel=b`, n numba threads, arguments, source spectrum,
      which of the two initial value problems *)
Variable combine : A -> src -> kout -> kout -> mid.     (* alpha, linear combination, mean mode, shift, pad: numpy *)
Variable fft_out : nat -> A -> mid -> bool -> fld.      (* final fft2/ifft2 of p (false) / q (true), crop *)

Record sargs := mkSargs { s_args : A; s_analytic : bool; s_footprint : bool; s_outcome : outcome }.

Inductive op := SetThreads (n : nat) | ResetMgr | Solve (a : sargs).

Definition dflt (k : option (bool * nat)) : bool * nat :=
  match k with Some x => x | None => (false, 1%nat) end.

(* the result of a solve as a function of what the state fed in *)
Definition solve_with (u : usage) (a : sargs) : fld * fld :=
  let x := s_args a in
  let q := if s_footprint a then flat x
           else fft_src (match u_pre u with Some t => t | None => 1%nat end) x in
  let m := if s_analytic a then closed x q
           else combine x q (kernel (fst (dflt (u_k1 u))) (snd (dflt (u_k1 u))) x q false)
                            (kernel (fst (dflt (u_k2 u))) (snd (dflt (u_k2 u))) x q true) in
  (fft_out (u_post_p u) x m false, fft_out (u_post_q u) x m true).

(* the same call in a fresh state: serial variant, one thread everywhere *)
Definition solve_pure (a : sargs) : fld * fld :=
  solve_with (pure_usage (s_footprint a) (s_analytic a)) a.

Definition step (o : op) (s : state) : state * option (fld * fld) :=
  match o with
  | SetThreads n => (set_cfg n s, None)                       (* bldfm.config.NUM_THREADS = n *)
  | ResetMgr => (reset_fft_manager s, None)
  | Solve a => let '(s', u) := run_call (s_footprint a) (s_analytic a) (s_outcome a) s in
               (s', option_map (fun u => solve_with u a) u)
  end.

Fixpoint run (ops : list op) (s : state) : state * list (option (fld * fld)) :=
  match ops with
  | [] => (s, [])
  | o :: r => let '(s1, out) := step o s in
              let '(s2, outs) := run r s1 in (s2, out :: outs)
  end.

(* what history independence demands of every op *)
Definition expected (o : op) : option (fld * fld) :=
  match o with
  | Solve a => match s_outcome a with Returns => Some (solve_pure a) | _ => None end
  | _ => None
  end.

(* the state component alone (no numerics involved): what the bookkeeping correspondence evaluates *)
Definition step_state (o : op) (s : state) : state :=
  match o with
  | SetThreads n => set_cfg n s
  | ResetMgr => reset_fft_manager s
  | Solve a => fst (run_call (s_footprint a) (s_analytic a) (s_outcome a) s)
  end.

Definition exec (ops : list op) (s : state) : state := fold_left (fun s o => step_state o s) ops s.

(* states after each op *)
Fixpoint trace (ops : list op) (s : state) : list state :=
  match ops with
  | [] => []
  | o :: r => let s1 := step_state o s in s1 :: trace r s1
  end.

(* usages of the solves of a history, in order *)
Fixpoint usages (ops : list op) (s : state) : list usage :=
  match ops with
  | [] => []
  | o :: r => let s1 := step_state o s in
              match o with
              | Solve a => match snd (run_call (s_footprint a) (s_analytic a) (s_outcome a) s) with
                           | Some u => u :: usages r s1
                           | None => usages r s1
                           end
              | _ => usages r s1
              end
  end.

End Runtime.
