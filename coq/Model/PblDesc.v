(* PblDesc — the fragment of Python/numpy that bldfm.pbl_model.{vertical_profiles, psi, phi} are written in,
   as a deep embedding (syntax `expr`/`stmt`/`fundef`/`efun`, generated from the CURRENT source by
   harness/py2coq_pbl.py into Gen/GenPblFun.v) with a total interpreter over Coq's reals, and the statement
   `vp_matches` of what a call of vertical_profiles yields according to Model/Pbl.v.

   What the interpreter stands for (the translator enforces the syntactic side, fail closed):
   * values: None, a number (real), the int `n`, a string, a bool, a tuple, and a NODE ARRAY
       VArr id shape len f   --   a 1-d numpy array with `len` elements, element i = f i,
     `id` is the identity of the array OBJECT (a fresh id is allocated by every numpy operation that creates an
     array; a plain name binding `Kx = Ky = Kz = K` keeps the id: this is how the description says which returned
     arrays are shared), `shape` identifies the np.arange call the length comes from (elementwise operations
     between arrays of different shape ids are outside the fragment: Unsupported);
   * arithmetic is that of Model/Pbl.v: exact, total reals (x/0 = 0, ln of a non-positive number = 0); the only
     division by zero that is given Python's meaning is the one by the int `n` (ZeroDivisionError);
   * np.arange(a, b, c): length = exact ceiling of (b-a)/c, element i = a + i*c (see Model/Pbl.v);
   * np.array(x)[..., np.newaxis] of a number is kept as that number (a shape-(1,) array broadcasts like a
     scalar), np.squeeze(x).item() of a number is that number;
   * psi/phi are called through `fenv` (name -> function on reals, applied elementwise to arrays); the functions
     themselves are described by `efun` and evaluated by `evalR` (np.where = if-then-else on Rlt_dec, np.nan = 0 as
     in Bridge/PblBridge.v, np.power(b, e, dtype=complex).real = Rpower);
   * logger.<level>(fmt, e1, ..) evaluates e1.. (z[0] raises IndexError and max/min raise ValueError on an empty
     array) and has no other effect; raise Ex(..) does not evaluate its message.
   Tests whose outcome depends on a real number or on n are kept as applications of the opaque `guard`, so that
   symbolic execution does not duplicate the continuation.
   No proofs in this file. *)
From Coq Require Import Reals ZArith List String Bool Arith.
From BL Require Import Model.Pbl.
Import ListNotations.
Open Scope string_scope.
Open Scope list_scope.

Inductive exn := ValueError | TypeError | IndexError | ZeroDivisionError | NameError | Unsupported.

Inductive res (X : Type) := Ok (x : X) | Err (e : exn).
Arguments Ok {X} x.
Arguments Err {X} e.

(* ---------------------------------------------------------------- syntax *)

Inductive unop := UNeg | USqrt | UExp | ULog | UAtan.
Inductive binop := BAdd | BSub | BMul | BDiv.

Inductive expr :=
| ENone
| ENum (r : R)                        (* numeric literal, exact decimal value *)
| EStr (s : string)
| EVar (x : string)
| EPi                                 (* np.pi *)
| ENan                                (* np.nan *)
| EUn (op : unop) (e : expr)
| EBin (op : binop) (a b : expr)
| EPowN (e : expr) (n : nat)          (* e ** n, n an integer literal *)
| EPowC (a b : expr)                  (* np.power(a, b, dtype=complex).real *)
| EWhereGt (x y a b : expr)           (* np.where(x > y, a, b) *)
| ECall (f : string) (e : expr)       (* f(e), f a module-level elementwise function (psi, phi) *)
| EIsNone (e : expr)                  (* e is None *)
| EStrEq (e : expr) (s : string)      (* e == "s" *)
| ENot (e : expr)
| EAnd (a b : expr)
| EOr (a b : expr)
| EIfExp (c a b : expr)               (* a if c else b *)
| ETuple (es : list expr)
| EArange (a b c : expr)              (* np.arange(a, b, c) *)
| EOnesLike (e : expr)                (* np.ones(len(e)) *)
| ESqueezeItem (e : expr)             (* np.squeeze(e).item() *)
| ENewaxis (e : expr)                 (* np.array(e)[..., np.newaxis] *)
| EIndex (e : expr) (i : nat)         (* e[i], i an integer literal *)
| EMax (e : expr)                     (* max(e) *)
| EMin (e : expr).                    (* min(e) *)

Inductive stmt :=
| SAssign (xs : list string) (e : expr)   (* x1 = x2 = ... = e: every name bound to the same object *)
| SUnpack (xs : list string) (e : expr)   (* x1, .., xn = e *)
| SIf (c : expr) (th el : list stmt)
| SRaise (ex : exn)
| SReturn (e : expr)
| SLog (es : list expr).

Inductive dflt := DReq | DNone | DNum (r : R) | DStr (s : string).

Record fundef := mkFun { f_params : list (string * dflt); f_body : list stmt }.

(* an elementwise function of one argument: x1 = e1; ...; return e *)
Record efun := mkEFun { ef_param : string; ef_lets : list (string * expr); ef_ret : expr }.

(* ---------------------------------------------------------------- values *)

Inductive value :=
| VNone
| VNum (r : R)
| VInt (n : nat)
| VStr (s : string)
| VBool (b : bool)
| VTuple (l : list value)
| VArr (id shape : nat) (len : Z) (f : nat -> R).

Definition answer := res value.
Definition locals := list (string * value).
Definition fenv := list (string * (R -> R)).

Fixpoint lookup {X} (k : string) (l : list (string * X)) : option X :=
  match l with [] => None | (k', v) :: l => if String.eqb k k' then Some v else lookup k l end.

Fixpoint upd {X} (k : string) (v : X) (l : list (string * X)) : list (string * X) :=
  match l with
  | [] => [(k, v)]
  | (k', v') :: l => if String.eqb k k' then (k, v) :: l else (k', v') :: upd k v l
  end.

Fixpoint upd_all {X} (ks : list string) (v : X) (l : list (string * X)) : list (string * X) :=
  match ks with [] => l | k :: ks => upd_all ks v (upd k v l) end.

(* kept opaque during symbolic execution *)
Definition guard (b : bool) (e : exn) (k : answer) : answer := if b then k else Err e.
Definition int_nonzero (n : nat) : bool := negb (Nat.eqb n 0).
Definition len_positive (len : Z) : bool := (0 <? len)%Z.
Definition str_eq (a b : string) : bool := String.eqb a b.

Definition un_sem (op : unop) (x : R) : R :=
  match op with UNeg => (- x)%R | USqrt => sqrt x | UExp => exp x | ULog => ln x | UAtan => atan x end.
Definition bin_sem (op : binop) (x y : R) : R :=
  match op with BAdd => (x + y)%R | BSub => (x - y)%R | BMul => (x * y)%R | BDiv => (x / y)%R end.
Fixpoint pown (x : R) (n : nat) : R :=
  match n with O => 1%R | S O => x | S m => (x * pown x m)%R end.

(* max / min of a non-empty array (the value is only ever logged) *)
Definition arr_fold (op : R -> R -> R) (len : Z) (f : nat -> R) : R :=
  fold_left op (map f (seq 1 (Z.to_nat len - 1))) (f O).
Definition arange_len (a b c : R) : Z := ceilZ ((b - a) / c).

(* ---------------------------------------------------------------- elementwise functions on reals *)

Fixpoint evalR (en : list (string * R)) (e : expr) : option R :=
  match e with
  | ENum r => Some r
  | EPi => Some PI
  | ENan => Some 0%R
  | EVar x => lookup x en
  | EUn op a => match evalR en a with Some x => Some (un_sem op x) | None => None end
  | EBin op a b =>
    match evalR en a, evalR en b with Some x, Some y => Some (bin_sem op x y) | _, _ => None end
  | EPowN a n => match evalR en a with Some x => Some (pown x n) | None => None end
  | EPowC a b =>
    match evalR en a, evalR en b with Some x, Some y => Some (Rpower x y) | _, _ => None end
  | EWhereGt x y a b =>
    match evalR en x, evalR en y, evalR en a, evalR en b with
    | Some xv, Some yv, Some av, Some bv => Some (if Rlt_dec yv xv then av else bv)
    | _, _, _, _ => None
    end
  | _ => None
  end.

Fixpoint eval_lets (en : list (string * R)) (ls : list (string * expr)) (ret : expr) : option R :=
  match ls with
  | [] => evalR en ret
  | (x, e) :: ls => match evalR en e with Some v => eval_lets (upd x v en) ls ret | None => None end
  end.

Definition efun_eval (d : efun) (x : R) : option R := eval_lets [(ef_param d, x)] (ef_lets d) (ef_ret d).
Definition efun_sem (d : efun) (x : R) : R := match efun_eval d x with Some r => r | None => 0%R end.

(* ---------------------------------------------------------------- interpreter (CPS, allocation counter nx) *)

Definition truthy (v : value) (k : bool -> answer) : answer :=
  match v with
  | VNone => k false
  | VBool b => k b
  | _ => Err Unsupported
  end.

Definition is_none (v : value) : bool := match v with VNone => true | _ => false end.

Definition lift1 (g : R -> R) (v : value) (nx : nat) (k : value -> nat -> answer) : answer :=
  match v with
  | VNum r => k (VNum (g r)) nx
  | VInt n => k (VNum (g (INR n))) nx
  | VArr _ sh len f => k (VArr nx sh len (fun i => g (f i))) (S nx)
  | VNone => Err TypeError
  | _ => Err Unsupported
  end.

Definition as_num (v : value) : option R :=
  match v with VNum r => Some r | VInt n => Some (INR n) | _ => None end.

Definition lift2 (g : R -> R -> R) (a b : value) (nx : nat) (k : value -> nat -> answer) : answer :=
  match a, b with
  | VNone, _ | _, VNone => Err TypeError
  | VArr _ sa la fa, VArr _ sb lb fb =>
    if Nat.eqb sa sb then k (VArr nx sa la (fun i => g (fa i) (fb i))) (S nx) else Err Unsupported
  | VArr _ sa la fa, _ =>
    match as_num b with Some y => k (VArr nx sa la (fun i => g (fa i) y)) (S nx) | None => Err Unsupported end
  | _, VArr _ sb lb fb =>
    match as_num a with Some x => k (VArr nx sb lb (fun i => g x (fb i))) (S nx) | None => Err Unsupported end
  | _, _ =>
    match as_num a, as_num b with Some x, Some y => k (VNum (g x y)) nx | _, _ => Err Unsupported end
  end.

Definition py_div (a b : value) (nx : nat) (k : value -> nat -> answer) : answer :=
  match b with
  | VInt n => guard (int_nonzero n) ZeroDivisionError (lift2 Rdiv a b nx k)
  | _ => lift2 Rdiv a b nx k
  end.

Fixpoint eval (fe : fenv) (e : expr) (en : locals) (nx : nat) (k : value -> nat -> answer) {struct e} : answer :=
  match e with
  | ENone => k VNone nx
  | ENum r => k (VNum r) nx
  | EStr s => k (VStr s) nx
  | EVar x => match lookup x en with Some v => k v nx | None => Err NameError end
  | EPi => k (VNum PI) nx
  | EUn op a => eval fe a en nx (fun v nx => lift1 (un_sem op) v nx k)
  | EBin op a b =>
    eval fe a en nx (fun va nx => eval fe b en nx (fun vb nx =>
      match op with
      | BDiv => py_div va vb nx k
      | _ => lift2 (bin_sem op) va vb nx k
      end))
  | EPowN a n => eval fe a en nx (fun v nx => lift1 (fun x => pown x n) v nx k)
  | ECall f a =>
    eval fe a en nx (fun v nx =>
      match lookup f fe with Some g => lift1 g v nx k | None => Err NameError end)
  | EIsNone a => eval fe a en nx (fun v nx => k (VBool (is_none v)) nx)
  | EStrEq a s =>
    eval fe a en nx (fun v nx =>
      match v with VStr s' => k (VBool (str_eq s' s)) nx | VNone => k (VBool false) nx | _ => Err Unsupported end)
  | ENot a => eval fe a en nx (fun v nx => truthy v (fun t => k (VBool (negb t)) nx))
  | EAnd a b => eval fe a en nx (fun va nx => truthy va (fun t => if t then eval fe b en nx k else k va nx))
  | EOr a b => eval fe a en nx (fun va nx => truthy va (fun t => if t then k va nx else eval fe b en nx k))
  | EIfExp c a b => eval fe c en nx (fun vc nx => truthy vc (fun t => if t then eval fe a en nx k else eval fe b en nx k))
  | ETuple es =>
    (fix go (es : list expr) (nx : nat) (k : list value -> nat -> answer) {struct es} : answer :=
       match es with
       | [] => k [] nx
       | e :: es => eval fe e en nx (fun v nx => go es nx (fun vs nx => k (v :: vs) nx))
       end) es nx (fun vs nx => k (VTuple vs) nx)
  | EArange a b c =>
    eval fe a en nx (fun va nx => eval fe b en nx (fun vb nx => eval fe c en nx (fun vc nx =>
      match as_num va, as_num vb, as_num vc with
      | Some x, Some y, Some d => k (VArr nx nx (arange_len x y d) (fun i => (x + INR i * d)%R)) (S nx)
      | _, _, _ => Err Unsupported
      end)))
  | EOnesLike a =>
    eval fe a en nx (fun v nx =>
      match v with VArr _ sh len _ => k (VArr nx sh len (fun _ => 1%R)) (S nx) | _ => Err Unsupported end)
  | ESqueezeItem a =>
    eval fe a en nx (fun v nx => match v with VNum r => k (VNum r) nx | _ => Err Unsupported end)
  | ENewaxis a =>
    eval fe a en nx (fun v nx => match v with VNum r => k (VNum r) nx | _ => Err Unsupported end)
  | EIndex a i =>
    eval fe a en nx (fun v nx =>
      match v, i with
      | VArr _ _ len f, O => guard (len_positive len) IndexError (k (VNum (f O)) nx)
      | VTuple l, _ => match nth_error l i with Some x => k x nx | None => Err IndexError end
      | VNone, _ => Err TypeError
      | _, _ => Err Unsupported
      end)
  | EMax a =>
    eval fe a en nx (fun v nx =>
      match v with
      | VArr _ _ len f => guard (len_positive len) ValueError (k (VNum (arr_fold Rmax len f)) nx)
      | _ => Err Unsupported
      end)
  | EMin a =>
    eval fe a en nx (fun v nx =>
      match v with
      | VArr _ _ len f => guard (len_positive len) ValueError (k (VNum (arr_fold Rmin len f)) nx)
      | _ => Err Unsupported
      end)
  | ENan | EPowC _ _ | EWhereGt _ _ _ _ => Err Unsupported
  end.

Fixpoint bind_names (xs : list string) (vs : list value) (en : locals) : option locals :=
  match xs, vs with
  | [], [] => Some en
  | x :: xs, v :: vs => bind_names xs vs (upd x v en)
  | _, _ => None
  end.

Fixpoint exec (fe : fenv) (kret : value -> answer) (s : stmt) (en : locals) (nx : nat) (k : locals -> nat -> answer)
  {struct s} : answer :=
  let block := fix block (ss : list stmt) (en : locals) (nx : nat) (k : locals -> nat -> answer) {struct ss} : answer :=
    match ss with
    | [] => k en nx
    | s :: ss => exec fe kret s en nx (fun en' nx' => block ss en' nx' k)
    end in
  match s with
  | SAssign xs e => eval fe e en nx (fun v nx => k (upd_all xs v en) nx)
  | SUnpack xs e =>
    eval fe e en nx (fun v nx =>
      match v with
      | VTuple vs => match bind_names xs vs en with Some en' => k en' nx | None => Err ValueError end
      | VNone => Err TypeError
      | _ => Err Unsupported
      end)
  | SIf c th el => eval fe c en nx (fun vc nx => truthy vc (fun t => if t then block th en nx k else block el en nx k))
  | SRaise ex => Err ex
  | SReturn e => eval fe e en nx (fun v _ => kret v)
  | SLog es =>
    (fix go (es : list expr) (nx : nat) {struct es} : answer :=
       match es with
       | [] => k en nx
       | e :: es => eval fe e en nx (fun _ nx => go es nx)
       end) es nx
  end.

Fixpoint exec_block (fe : fenv) (kret : value -> answer) (ss : list stmt) (en : locals) (nx : nat)
                    (k : locals -> nat -> answer) {struct ss} : answer :=
  match ss with
  | [] => k en nx
  | s :: ss => exec fe kret s en nx (fun en' nx' => exec_block fe kret ss en' nx' k)
  end.

(* an argument of a keyword call: always given, or optionally given (number / string) *)
Inductive supplied_arg := Given (v : value) | OptNum (o : option R) | OptStr (o : option string).

Definition opt_str (o : option string) (d : string) : string := match o with Some s => s | None => d end.
Definition opt_value {X} (f : X -> value) (o : option X) : value := match o with Some x => f x | None => VNone end.

(* the value a parameter is bound to: the supplied one, else its default.  (Arranged so that an optional
   argument over a default of its own kind is ONE value, `opt_default o d`, not a case distinction.) *)
Definition arg_value (s : option supplied_arg) (d : dflt) : option value :=
  match s, d with
  | Some (Given v), _ => Some v
  | Some (OptNum o), DNum r => Some (VNum (opt_default o r))
  | Some (OptNum o), DNone => Some (opt_value VNum o)
  | Some (OptNum o), DStr s => Some (match o with Some r => VNum r | None => VStr s end)
  | Some (OptNum o), DReq => match o with Some r => Some (VNum r) | None => None end
  | Some (OptStr o), DStr s => Some (VStr (opt_str o s))
  | Some (OptStr o), DNone => Some (opt_value VStr o)
  | Some (OptStr o), DNum r => Some (match o with Some s => VStr s | None => VNum r end)
  | Some (OptStr o), DReq => match o with Some s => Some (VStr s) | None => None end
  | None, DReq => None
  | None, DNone => Some VNone
  | None, DNum r => Some (VNum r)
  | None, DStr s => Some (VStr s)
  end.

(* keyword call of f: a supplied name must be a parameter; a parameter that is not supplied takes its default *)
Fixpoint bind_params (ps : list (string * dflt)) (supplied : list (string * supplied_arg)) (en : locals) : option locals :=
  match ps with
  | [] => Some en
  | (p, d) :: ps =>
    match arg_value (lookup p supplied) d with
    | Some v => bind_params ps supplied (upd p v en)
    | None => None
    end
  end.

Fixpoint all_params (ps : list (string * dflt)) (supplied : list (string * supplied_arg)) : bool :=
  match supplied with
  | [] => true
  | (x, _) :: s => match lookup x ps with Some _ => all_params ps s | None => false end
  end.

Definition call (fe : fenv) (f : fundef) (supplied : list (string * supplied_arg)) : answer :=
  if all_params (f_params f) supplied then
    match bind_params (f_params f) supplied [] with
    | Some en => exec_block fe (fun v => Ok v) (f_body f) en O (fun _ _ => Ok VNone)
    | None => Err TypeError
    end
  else Err TypeError.

(* ---------------------------------------------------------------- a call of vertical_profiles *)

(* arguments as the callers pass them (by keyword); None = not passed.  Numbers are reals, n an int,
   wind a pair, closure a string. *)
Record vp_args := mkArgs {
  a_n : nat; a_zm : R; a_um : R; a_vm : R;
  a_ustar : option R; a_z0 : option R; a_mol : option R; a_prsc : option R;
  a_closure : option string; a_domain_height : option R; a_stretch : option R;
  a_z0_min : option R; a_z0_max : option R; a_tke : option R
}.

Definition supplied (a : vp_args) : list (string * supplied_arg) :=
  [("n", Given (VInt (a_n a))); ("meas_height", Given (VNum (a_zm a)));
   ("wind", Given (VTuple [VNum (a_um a); VNum (a_vm a)]));
   ("ustar", OptNum (a_ustar a)); ("z0", OptNum (a_z0 a)); ("mol", OptNum (a_mol a)); ("prsc", OptNum (a_prsc a));
   ("closure", OptStr (a_closure a)); ("domain_height", OptNum (a_domain_height a)); ("stretch", OptNum (a_stretch a));
   ("z0_min", OptNum (a_z0_min a)); ("z0_max", OptNum (a_z0_max a)); ("tke", OptNum (a_tke a))].

(* the signature as the model knows it *)
Definition vp_signature : list (string * dflt) :=
  [("n", DReq); ("meas_height", DReq); ("wind", DReq); ("ustar", DNone); ("z0", DNone); ("mol", DNum 1000000000);
   ("prsc", DNum 1); ("closure", DStr "MOST"); ("domain_height", DNone); ("stretch", DNone);
   ("z0_min", DNum (1 / 1000)); ("z0_max", DNum 2); ("tke", DNone)].

(* what Model/Pbl.v says about the call *)
Definition closure_of_string (s : string) : option closure :=
  if str_eq s "CONSTANT" then Some CONSTANT
  else if str_eq s "MOST" then Some MOST
  else if str_eq s "MOSTM" then Some MOSTM
  else if str_eq s "OAAHOC" then Some OAAHOC
  else None.

(* the exception behind `resolve = None` *)
Definition resolve_exn (c : closure) (ustar z0 : option R) : exn :=
  match c, z0, ustar with
  | OAAHOC, _, _ => TypeError            (* None ** 2 *)
  | _, None, _ => TypeError              (* absum / None *)
  | _, Some _, _ => ValueError           (* "Either z0 or ustar must be provided." *)
  end.

Inductive outcome := Raises (e : exn) | Returns (c : closure) (E : Pbl.env).

Definition mol_default : R := 1000000000.
Definition prsc_default : R := 1.
Definition tke_default : R := 1.
Definition closure_default : string := "MOST".

Definition vp_outcome (a : vp_args) : outcome :=
  match closure_of_string (opt_str (a_closure a) closure_default) with
  | None => Raises ValueError
  | Some c =>
    match make_env c (a_n a) (a_zm a) (a_um a) (a_vm a) (a_ustar a) (a_z0 a)
                   (opt_default (a_mol a) mol_default) (opt_default (a_prsc a) prsc_default)
                   (opt_default (a_tke a) tke_default) (a_domain_height a) (a_stretch a) with
    | None => Raises (resolve_exn c (a_ustar a) (a_z0 a))
    | Some E =>
      if int_nonzero (a_n a) then
        if len_positive (e_nnodes E) then Returns c E else Raises IndexError
      else Raises ZeroDivisionError
    end
  end.

Fixpoint distinct (l : list nat) : bool :=
  match l with [] => true | x :: l => negb (existsb (Nat.eqb x) l) && distinct l end.

(* which returned arrays are one object *)
Definition alias_ok (c : closure) (iz iu iv ikx iky ikz : nat) : bool :=
  match c with
  | MOSTM => distinct [iz; iu; iv; ikx; iky; ikz]
  | _ => Nat.eqb ikx ikz && Nat.eqb iky ikz && distinct [iz; iu; iv; ikz]
  end.

Definition vp_matches (r : answer) (o : outcome) : Prop :=
  match o with
  | Raises e => r = Err e
  | Returns c E =>
    match r with
    | Ok (VTuple [VArr iz _ nz fz;
                  VTuple [VArr iu _ nu fu; VArr iv _ nv fv; VArr ikx _ nkx fkx; VArr iky _ nky fky; VArr ikz _ nkz fkz]]) =>
      nz = e_nnodes E /\ nu = nz /\ nv = nz /\ nkx = nz /\ nky = nz /\ nkz = nz /\
      (forall i, fz i = e_znode E i) /\
      (forall i, fu i = u_node c E i) /\ (forall i, fv i = v_node c E i) /\
      (forall i, fkx i = Kx_node c E i) /\ (forall i, fky i = Ky_node c E i) /\ (forall i, fkz i = Kz_node c E i) /\
      alias_ok c iz iu iv ikx iky ikz = true
    | _ => False
    end
  end.
