(* The few Python / numpy list operations that the whole-function translator harness/py2coq_kernel.py emits
   (Gen.GenKernel, regenerated from /repo/src/bldfm/solver.py on every run), read for ONE horizontal mode:
   the arrays over modes are elementwise, the level axis of fftp/fftq/tfftp is a list of slots, profile arrays
   are lists indexed by node.  No proofs here (Proofs/KernelBridgeLemmas.v). *)
From Coq Require Import ZArith List.
From BL Require Import Base.Ops Model.Solver.
Import ListNotations.

Section KernelPy.
Variable O : Ops.
Notation C := (C O).

(* range(e) for a Python int e: empty when e <= 0 *)
Definition pyrange (e : Z) : list nat := seq 0%nat (Z.to_nat e).

(* np.zeros((e, nxy), dtype=np.complex128), one mode: e slots holding 0 *)
Definition pyzeros (e : Z) : list C := zeros O (Z.to_nat e).

(* a[k, ...] = x   (k a loop index of range(len(a)): in range; the total version leaves a short list alone) *)
Fixpoint pyset {A : Type} (l : list A) (k : nat) (x : A) : list A :=
  match l, k with
  | [], _ => []
  | _ :: t, 0%nat => x :: t
  | h :: t, S k' => h :: pyset t k' x
  end.

(* enumerate(l) *)
Definition pyenumerate {A : Type} (l : list A) : list (nat * A) := combine (seq 0%nat (length l)) l.

(* np.diff(z): the model's own reading, Solver.diffs *)
Definition pydiff (z : list C) : list C := diffs O z.

(* x[e] for a profile array and an index expression the translator has shown to be a non-negative int *)
Definition pyget (l : list C) (k : nat) : C := nth k l (c0 O).

(* levels[k] == e,  e a Python int *)
Definition pylevel_eq (lv : nat) (e : Z) : bool := Z.eqb (Z.of_nat lv) e.

(* the model's results in the order of ivp_solver's return statement *)
Definition flat4 (r : (C * C) * list C * list C) : C * C * list C * list C :=
  let '(st, rp, rq) := r in (fst st, snd st, rp, rq).

End KernelPy.
