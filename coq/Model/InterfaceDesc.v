(* Description language for the tie (B) of C13, and its interpretation into the types of Model/Interface.v.

   harness/py2coq_interface.py transliterates the CURRENT source of bldfm.interface.run_bldfm_single and of the
   parser functions / dataclasses of bldfm.config_parser into closed terms of the types below (Gen/GenInterface.v,
   Gen/GenConfigParser.v); it does no interpretation of its own.  What a piece of syntax MEANS is fixed here:

     run_desc sigs fd cfg tw i flux cache : option call_record
       executes the statements of the description `fd` on an environment in which the five arguments of
       run_bldfm_single are bound, with Python's None a value of its own (VNone), `is None` / `is not None` /
       truthiness as in Python (truthiness of an opaque number is UNKNOWN -> the run has no value), the four
       pipeline functions as constructors of the model's call records (positional arguments bound through the
       callee's own signature `sigs`, every keyword has to be one the model knows, nothing may be called twice),
       and returns the calls made and the labels of the returned dictionary.
     place_desc pi lx cfg t : option tower
       BLDFMConfig.__post_init__ / TowerConfig.compute_local_xy on one tower.

   coq/Bridge/InterfaceBridge.v and ConfigParserBridge.v prove, on every run, that these equal Interface.plumb_c /
   Interface.place for ALL arguments, and that the parser tables extracted from the source equal the tables below
   (tbl_tower .. tbl_load), which Proofs/InterfaceBridgeLemmas.v relates to the Interface.parse functions once and
   for all.  No proofs in this file. *)
From Coq Require Import List Arith Bool String ZArith.
From BL Require Import Model.Met Model.Interface.
Import ListNotations.
Open Scope string_scope.
Open Scope list_scope.

(* ------------------------------------------------------------------ syntax (no type arguments: closed terms) *)
Inductive ex :=
| EName (x : string)                 (* x *)
| EAttr (e : ex) (f : string)        (* e.f *)
| ESub (e : ex) (k : string)         (* e["k"] *)
| EGet (e : ex) (k : string)         (* e.get("k") *)
| EGetStep (e i : ex)                (* e.get_step(i) *)
| ETuple (a b : ex)                  (* (a, b) *)
| EListRange (e : ex)                (* list(range(e)) *)
| EAdd (a b : ex)                    (* a + b *)
| ENat (n : nat)                     (* non-negative integer literal *)
| ENone
| EBool (b : bool).

Inductive cond :=
| CIsNone (e : ex)                   (* e is None *)
| CIsNotNone (e : ex)                (* e is not None *)
| CTruthy (e : ex)                   (* if e: *)
| CAnd (a b : cond).                 (* a and b *)

Inductive stmt :=
| SAssign (targets : list string) (e : ex)                                         (* x = e  /  x, y = e *)
| SCall (targets : list string) (fn : string) (pos : list ex) (kw : list (string * ex))  (* x, y = fn(pos.., k=e..) *)
| SIf (c : cond) (th el : list stmt).

Record fn_desc := mkFn {
  fd_params : list (string * option ex);    (* parameter, default *)
  fd_body : list stmt;
  fd_return : list (string * ex) }.         (* return {"k": e, ..} *)

(* BLDFMConfig.__post_init__:   if <pi_cond>: for <tower> in <pi_over>: <tower>.<pi_method>(<pi_args>) ; <pi_then>.validate() *)
Record post_init_desc := mkPostInit {
  pi_cond : cond; pi_over : ex; pi_method : string; pi_args : list ex; pi_validated : ex }.
(* TowerConfig.compute_local_xy(self, <lx_params>):   self.<t1>, self.<t2> = <lx_fn>(<lx_args>) *)
Record local_xy_desc := mkLocalXY {
  lx_name : string; lx_params : list string; lx_targets : list string; lx_fn : string; lx_args : list ex }.

(* literals of the parser defaults *)
Inductive lit :=
| LNone | LBool (b : bool) | LInt (z : Z) | LFloat (num den : Z) | LStr (s : string)
| LSeq (l : list lit)                (* list or tuple display *)
| LFactory (cls : string).           (* field(default_factory=cls) *)

Inductive acc := AReq | AOpt | ADef.                        (* d["k"] | d.get("k") | d.get("k", <literal>) *)
Inductive conv := CvId | CvFloat | CvTuple | CvTupleIfNotNone. (* x | float(x) | tuple(x) | if x is not None: x = tuple(x) *)
Record row := mkRow { r_field : string; r_key : string; r_acc : acc; r_conv : conv }.
(* def _parse_x(d): [if d is None: return Cls()]  ...  return Cls(field=.., ..): rows in evaluation order *)
Record section_desc := mkSection { sd_fn : string; sd_class : string; sd_none_default : bool; sd_rows : list row }.

(* parse_config_dict: how each field of BLDFMConfig is obtained from raw *)
Inductive top_acc := TReq | TOpt | TReqEach.      (* f(raw["k"]) | f(raw.get("k")) | [f(t) for t in raw["k"]] *)
Record top_row := mkTop { tr_field : string; tr_key : string; tr_acc : top_acc; tr_fn : string }.
Record top_desc := mkTopDesc {
  td_required : list string;                      (* if "k" not in raw: raise ValueError, in order *)
  td_rows : list top_row; td_class : string }.
(* load_config: raise unless the file exists; raw = <ld_loader>(open file); return <ld_parser>(raw) *)
Record load_desc := mkLoad { ld_loader : string; ld_parser : string }.

(* the d.get literals per (parser function, field) and the dataclass defaults per (class, field);
   None = the field has no default *)
Definition lit_table := list (string * list (string * lit)).
Definition class_table := list (string * list (string * option lit)).

(* ------------------------------------------------------------------ the tables of the parser model *)
(* Interface.parse_tower .. parse_parallel read, in this order (Proofs/InterfaceBridgeLemmas.v: tbl_sound) *)
Definition tbl_tower := mkSection "_parse_tower" "TowerConfig" false
  [mkRow "name" "name" AReq CvId; mkRow "lat" "lat" AReq CvId; mkRow "lon" "lon" AReq CvId; mkRow "z_m" "z_m" AReq CvId].
Definition tbl_domain := mkSection "_parse_domain" "DomainConfig" false
  [mkRow "modes" "modes" ADef CvTuple; mkRow "output_levels" "output_levels" AOpt CvId;
   mkRow "nx" "nx" AReq CvId; mkRow "ny" "ny" AReq CvId; mkRow "xmax" "xmax" AReq CvFloat; mkRow "ymax" "ymax" AReq CvFloat;
   mkRow "nz" "nz" AReq CvId; mkRow "halo" "halo" AOpt CvId; mkRow "ref_lat" "ref_lat" AOpt CvId;
   mkRow "ref_lon" "ref_lon" AOpt CvId; mkRow "full_output" "full_output" ADef CvId].
Definition tbl_met := mkSection "_parse_met" "MetConfig" false
  [mkRow "ustar" "ustar" AOpt CvId; mkRow "mol" "mol" ADef CvId; mkRow "wind_speed" "wind_speed" ADef CvId;
   mkRow "wind_dir" "wind_dir" ADef CvId; mkRow "z0" "z0" AOpt CvId; mkRow "timestamps" "timestamps" AOpt CvId].
Definition tbl_solver := mkSection "_parse_solver" "SolverConfig" true
  [mkRow "src_loc" "src_loc" AOpt CvTupleIfNotNone; mkRow "closure" "closure" ADef CvId;
   mkRow "precision" "precision" ADef CvId; mkRow "footprint" "footprint" ADef CvId;
   mkRow "surface_flux_shape" "surface_flux_shape" ADef CvId; mkRow "analytic" "analytic" ADef CvId].
Definition tbl_output := mkSection "_parse_output" "OutputConfig" true
  [mkRow "format" "format" ADef CvId; mkRow "directory" "directory" ADef CvId].
Definition tbl_parallel := mkSection "_parse_parallel" "ParallelConfig" true
  [mkRow "num_threads" "num_threads" ADef CvId; mkRow "max_workers" "max_workers" ADef CvId;
   mkRow "use_cache" "use_cache" ADef CvId].
Definition tbl_sections := [tbl_tower; tbl_domain; tbl_met; tbl_solver; tbl_output; tbl_parallel].

(* Interface.parse: the three mandatory sections are looked for first, then the six parts in this order *)
Definition tbl_top := mkTopDesc ["domain"; "towers"; "met"]
  [mkTop "domain" "domain" TReq "_parse_domain"; mkTop "towers" "towers" TReqEach "_parse_tower";
   mkTop "met" "met" TReq "_parse_met"; mkTop "solver" "solver" TOpt "_parse_solver";
   mkTop "output" "output" TOpt "_parse_output"; mkTop "parallel" "parallel" TOpt "_parse_parallel"]
  "BLDFMConfig".
(* Interface.load *)
Definition tbl_load := mkLoad "yaml.safe_load" "parse_config_dict".

(* ---- consistency of the literal defaults: the parser model has ONE default per key (Interface.defaults) and one
   token `zero` for TowerConfig.x and .y *)
Fixpoint lit_eqb (a b : lit) {struct a} : bool :=
  match a, b with
  | LNone, LNone => true
  | LBool x, LBool y => Bool.eqb x y
  | LInt x, LInt y => Z.eqb x y
  | LFloat n d, LFloat n' d' => Z.eqb n n' && Z.eqb d d'
  | LStr x, LStr y => String.eqb x y
  | LSeq l, LSeq l' =>
    (fix go (l l' : list lit) {struct l} : bool :=
       match l, l' with
       | [], [] => true
       | x :: r, y :: r' => lit_eqb x y && go r r'
       | _, _ => false
       end) l l'
  | LFactory x, LFactory y => String.eqb x y
  | _, _ => false
  end.

Definition mem (k : string) (l : list string) : bool := existsb (String.eqb k) l.

(* one row against the dataclass: d.get("k", lit) -> the class default is the same literal; d.get("k") -> the class
   default is None; d["k"] -> nothing to compare *)
Definition row_consistent (lits : list (string * lit)) (cls : list (string * option lit)) (r : row) : bool :=
  match r_acc r with
  | AReq => match lookup cls (r_field r) with Some _ => true | None => false end
  | AOpt => match lookup cls (r_field r), lookup lits (r_field r) with
            | Some (Some LNone), None => true | _, _ => false end
  | ADef => match lookup cls (r_field r), lookup lits (r_field r) with
            | Some (Some c), Some l => lit_eqb c l | _, _ => false end
  end.

(* every field of the class is either set by the parser function or has a default *)
Definition fields_covered (cls : list (string * option lit)) (rows : list row) : bool :=
  forallb (fun p => mem (fst p) (map r_field rows) || match snd p with Some _ => true | None => false end) cls.

Definition section_consistent (lt : lit_table) (ct : class_table) (s : section_desc) : bool :=
  match lookup ct (sd_class s) with
  | None => false
  | Some cls =>
    let lits := match lookup lt (sd_fn s) with Some l => l | None => [] end in
    forallb (row_consistent lits cls) (sd_rows s) && fields_covered cls (sd_rows s)
    && Nat.eqb (List.length lits) (List.length (filter (fun r => match r_acc r with ADef => true | _ => false end) (sd_rows s)))
  end.

(* shapes the model gives the defaults: df_modes a sequence, the four flags booleans, the rest scalars *)
Definition is_flag (l : lit) := match l with LBool _ => true | _ => false end.
Definition is_seq (l : lit) := match l with LSeq _ => true | _ => false end.
Definition is_scalar (l : lit) :=
  match l with LInt _ | LFloat _ _ | LStr _ => true | _ => false end.
Definition shape_ok (lt : lit_table) : bool :=
  let get f k := match lookup lt f with Some l => lookup l k | None => None end in
  let chk (p : lit -> bool) f k := match get f k with Some l => p l | None => false end in
  chk is_seq "_parse_domain" "modes" && chk is_flag "_parse_domain" "full_output"
  && chk is_scalar "_parse_met" "mol" && chk is_scalar "_parse_met" "wind_speed" && chk is_scalar "_parse_met" "wind_dir"
  && chk is_scalar "_parse_solver" "closure" && chk is_scalar "_parse_solver" "precision"
  && chk is_flag "_parse_solver" "footprint" && chk is_scalar "_parse_solver" "surface_flux_shape"
  && chk is_flag "_parse_solver" "analytic"
  && chk is_scalar "_parse_output" "format" && chk is_scalar "_parse_output" "directory"
  && chk is_scalar "_parse_parallel" "num_threads" && chk is_scalar "_parse_parallel" "max_workers"
  && chk is_flag "_parse_parallel" "use_cache".

(* TowerConfig.x and .y: not set by _parse_tower, one and the same scalar default (the model's `zero`) *)
Definition tower_xy_default (ct : class_table) : bool :=
  match lookup ct "TowerConfig" with
  | Some cls => match lookup cls "x", lookup cls "y" with
                | Some (Some a), Some (Some b) => is_scalar a && lit_eqb a b
                | _, _ => false end
  | None => false
  end.

(* BLDFMConfig: domain, towers, met without default; the optional parts default to their class *)
Definition top_class_ok (ct : class_table) (t : top_desc) : bool :=
  match lookup ct (td_class t) with
  | Some cls =>
    Nat.eqb (List.length cls) (List.length (td_rows t)) &&
    forallb (fun r => match lookup cls (tr_field r), tr_acc r with
                      | Some None, (TReq | TReqEach) => true
                      | Some (Some (LFactory c)), TOpt =>
                        existsb (fun s => String.eqb (sd_fn s) (tr_fn r) && String.eqb (sd_class s) c && sd_none_default s)
                                tbl_sections
                      | _, _ => false end) (td_rows t)
  | None => false
  end.

Definition defaults_consistent (lt : lit_table) (ct : class_table) : bool :=
  forallb (section_consistent lt ct) tbl_sections && shape_ok lt && tower_xy_default ct && top_class_ok ct tbl_top.

(* ------------------------------------------------------------------ values and evaluation *)
(* The evaluator is written in continuation-passing style: wherever Python's control flow depends on an input
   (get_step raising, `is None`, truthiness) the rest of the run sits INSIDE the branches of the match on that
   input.  Run on symbolic arguments the result is therefore a decision tree whose leaves are call records -
   which is how the bridge lemmas are proved for all arguments (vm_compute, then one case split per test). *)
Section Run.
Context {A T F K : Type}.

Inductive val :=
| VConfig (c : config A T) | VDomain (d : domain A) | VSolverCfg (s : solvercfg A) | VMet (m : met A T)
| VTower (t : tower A) | VStep (s : step A T)
| VA (a : A)                          (* an opaque scalar *)
| VList (l : list A) | VNat (n : nat) | VNats (l : list nat) | VBool (b : bool)
| VStampV (s : stamp T)
| VNone
(* a value that is None or a scalar / a list / an array / a cache object: VOptA None is Python's None,
   VOptA (Some a) the scalar a *)
| VOptA (o : option A) | VOptList (o : option (list A)) | VOptNats (o : option (list nat))
| VOptF (o : option F) | VOptK (o : option K)
| VWindU | VWindV                     (* the two values returned by THE compute_wind_fields call *)
| VZ | VProfiles                      (* the two values returned by THE vertical_profiles call *)
| VIdeal                              (* the array returned by THE ideal_source call *)
| VGrid | VConc | VFlx                (* the three values returned by THE solver call *)
| VTup (l : list val).

(* dataclass field name -> projection of the model record *)
Definition domain_field (d : domain A) (f : string) : option val :=
  lookup [("nx", VA (d_nx d)); ("ny", VA (d_ny d)); ("xmax", VA (d_xmax d)); ("ymax", VA (d_ymax d));
          ("nz", VNat (d_nz d)); ("modes", VList (d_modes d)); ("halo", VOptA (d_halo d));
          ("ref_lat", VOptA (d_ref_lat d)); ("ref_lon", VOptA (d_ref_lon d));
          ("output_levels", VOptNats (d_output_levels d)); ("full_output", VBool (d_full_output d))] f.
Definition solver_field (s : solvercfg A) (f : string) : option val :=
  lookup [("closure", VA (sv_closure s)); ("precision", VA (sv_precision s)); ("footprint", VBool (sv_footprint s));
          ("surface_flux_shape", VA (sv_shape s)); ("analytic", VBool (sv_analytic s));
          ("src_loc", VOptList (sv_src_loc s))] f.
Definition tower_field (t : tower A) (f : string) : option val :=
  lookup [("name", VA (t_name t)); ("lat", VA (t_lat t)); ("lon", VA (t_lon t)); ("z_m", VA (t_zm t));
          ("x", VA (t_x t)); ("y", VA (t_y t))] f.
Definition config_field (c : config A T) (f : string) : option val :=
  lookup [("domain", VDomain (c_domain c)); ("solver", VSolverCfg (c_solver c)); ("met", VMet (c_met c))] f.

Definition attr (v : val) (f : string) : option val :=
  match v with
  | VConfig c => config_field c f
  | VDomain d => domain_field d f
  | VSolverCfg s => solver_field s f
  | VTower t => tower_field t f
  | _ => None
  end.

(* the dictionary MetConfig.get_step returns (Model/Met.v: step): "ustar" (possibly None), "mol", "wind_speed",
   "wind_dir", "timestamp" always, "z0" only when given *)
Definition step_always (s : step A T) (k : string) : option val :=
  lookup [("ustar", VOptA (s_ustar s)); ("mol", VA (s_mol s)); ("wind_speed", VA (s_wind_speed s));
          ("wind_dir", VA (s_wind_dir s)); ("timestamp", VStampV (s_stamp s))] k.

Definition env := list (string * val).

(* MetConfig.get_step (Model/Met.v: get_step; see run_desc below) *)
Variable gs : met A T -> nat -> option (step A T).

Section Eval.
Context {R : Type}.   (* the answer type; None: no value *)

Fixpoint eval (E : env) (e : ex) (k : val -> option R) {struct e} : option R :=
  match e with
  | EName x => match lookup E x with Some v => k v | None => None end
  | EAttr e f => eval E e (fun v => match attr v f with Some w => k w | None => None end)
  | ESub e key =>                       (* s["k"]: KeyError for a missing key *)
    eval E e (fun v =>
      match v with
      | VStep s => if key =? "z0" then match s_z0 s with Some z => k (VA z) | None => None end
                   else match step_always s key with Some w => k w | None => None end
      | _ => None
      end)
  | EGet e key =>                       (* s.get("k"): None for a missing key *)
    eval E e (fun v =>
      match v with
      | VStep s => if key =? "z0" then k (VOptA (s_z0 s))
                   else match step_always s key with Some w => k w | None => k VNone end
      | _ => None
      end)
  | EGetStep e i =>
    eval E e (fun vm => eval E i (fun vi =>
      match vm, vi with
      | VMet m, VNat n => match gs m n with Some s => k (VStep s) | None => None end
      | _, _ => None
      end))
  | ETuple a b => eval E a (fun x => eval E b (fun y => k (VTup [x; y])))
  | EListRange e => eval E e (fun v => match v with VNat n => k (VNats (seq 0 n)) | _ => None end)
  | EAdd a b => eval E a (fun x => eval E b (fun y =>
      match x, y with VNat n, VNat m => k (VNat (n + m)) | _, _ => None end))
  | ENat n => k (VNat n)
  | ENone => k VNone
  | EBool b => k (VBool b)
  end.

Fixpoint evals (E : env) (l : list ex) (k : list val -> option R) {struct l} : option R :=
  match l with
  | [] => k []
  | e :: r => eval E e (fun v => evals E r (fun vs => k (v :: vs)))
  end.
Fixpoint eval_kws (E : env) (l : list (string * ex)) (k : list (string * val) -> option R) {struct l} : option R :=
  match l with
  | [] => k []
  | (n, e) :: r => eval E e (fun v => eval_kws E r (fun vs => k ((n, v) :: vs)))
  end.

Definition is_nil {X : Type} (l : list X) : bool := match l with [] => true | _ => false end.

(* v is None *)
Definition test_none (v : val) (k : bool -> option R) : option R :=
  match v with
  | VNone => k true
  | VOptA o => match o with Some _ => k false | None => k true end
  | VOptList o => match o with Some _ => k false | None => k true end
  | VOptNats o => match o with Some _ => k false | None => k true end
  | VOptF o => match o with Some _ => k false | None => k true end
  | VOptK o => match o with Some _ => k false | None => k true end
  | _ => k false
  end.
(* bool(v); the truth value of an opaque scalar (VA, VOptA (Some _)), array or object is not known: no value *)
Definition test_truthy (v : val) (k : bool -> option R) : option R :=
  match v with
  | VNone => k false
  | VBool b => if b then k true else k false
  | VNats l => k (negb (is_nil l))
  | VList l => k (negb (is_nil l))
  | VTup l => k (negb (is_nil l))
  | VNat n => k (negb (Nat.eqb n 0))
  | VOptNats o => match o with Some (_ :: _) => k true | Some [] => k false | None => k false end
  | VOptList o => match o with Some (_ :: _) => k true | Some [] => k false | None => k false end
  | VOptA o => match o with Some _ => None | None => k false end
  | VOptF o => match o with Some _ => None | None => k false end
  | VOptK o => match o with Some _ => None | None => k false end
  | _ => None
  end.

Fixpoint eval_cond (E : env) (c : cond) (k : bool -> option R) {struct c} : option R :=
  match c with
  | CIsNone e => eval E e (fun v => test_none v k)
  | CIsNotNone e => eval E e (fun v => test_none v (fun b => k (negb b)))
  | CTruthy e => eval E e (fun v => test_truthy v k)
  | CAnd a b => eval_cond E a (fun x => if x then eval_cond E b k else k false)
  end.
End Eval.

(* ---- calls ---- *)
Definition args := list (string * val).

Fixpoint bind_pos (sig : list string) (pos : list val) : option args :=
  match pos, sig with
  | [], _ => Some []
  | v :: r, p :: s => match bind_pos s r with Some b => Some ((p, v) :: b) | None => None end
  | _ :: _, [] => None
  end.
Fixpoint nodup_keys (l : list string) : bool :=
  match l with [] => true | k :: r => negb (mem k r) && nodup_keys r end.
(* positional arguments take the callee's parameter names in order; a keyword must be a parameter of the callee and
   must not repeat (TypeError otherwise) *)
Definition bind_args (sig : list string) (pos : list val) (kw : args) : option args :=
  match bind_pos sig pos with
  | Some b => let all := b ++ kw in
              if nodup_keys (map fst all) && forallb (fun k => mem k sig) (map fst all) then Some all else None
  | None => None
  end.
Definition only_keys (allowed : list string) (a : args) : bool := forallb (fun k => mem k allowed) (map fst a).

Definition as_A (o : option val) : option A := match o with Some (VA a) => Some a | _ => None end.
Definition as_pairA (o : option val) : option (A * A) :=
  match o with Some (VTup [VA a; VA b]) => Some (a, b) | _ => None end.
Definition as_nat (o : option val) : option nat := match o with Some (VNat n) => Some n | _ => None end.
Definition as_bool (o : option val) : option bool := match o with Some (VBool b) => Some b | _ => None end.
Definition as_list (o : option val) : option (list A) := match o with Some (VList l) => Some l | _ => None end.
(* an argument that may be left out, be None, or be a value *)
Definition as_optA (o : option val) : option (option A) :=
  match o with None | Some VNone => Some None | Some (VA a) => Some (Some a) | Some (VOptA x) => Some x | _ => None end.
Definition as_optList (o : option val) : option (option (list A)) :=
  match o with None | Some VNone => Some None | Some (VList l) => Some (Some l) | Some (VOptList x) => Some x
  | _ => None end.
Definition as_optK (o : option val) : option (option K) :=
  match o with None | Some VNone => Some None | Some (VOptK x) => Some x | _ => None end.
Definition as_wout (w : wind_call A) (v : val) : option (wind_out A) :=
  match v with VWindU => Some (WindU w) | VWindV => Some (WindV w) | _ => None end.
Definition as_wind (w : wind_call A) (o : option val) : option (wind_out A * wind_out A) :=
  match o with
  | Some (VTup [a; b]) => match as_wout w a, as_wout w b with Some x, Some y => Some (x, y) | _, _ => None end
  | _ => None
  end.
Definition as_levels (o : option val) : option levels :=
  match o with
  | Some (VNats l) | Some (VOptNats (Some l)) => Some (LvList l)
  | Some (VNat n) => Some (LvScalar n)
  | _ => None
  end.
(* the surface flux handed to the solver: the caller's array (not None) or what THE ideal_source call returned *)
Definition as_source (ideal : option (source A F)) (o : option val) : option (source A F) :=
  match o with
  | Some (VOptF (Some f)) => Some (Supplied f)
  | Some VIdeal => ideal
  | _ => None
  end.

(* compute_wind_fields(u_rot, wind_dir) *)
Definition call_wind (a : args) : option (wind_call A) :=
  if only_keys ["u_rot"; "wind_dir"] a then
    match as_A (lookup a "u_rot"), as_A (lookup a "wind_dir") with
    | Some s, Some d => Some (mkWind s d) | _, _ => None end
  else None.

(* vertical_profiles(n, meas_height, wind, ustar=None, z0=None, mol, closure); any other keyword: no value *)
Definition call_prof (w : wind_call A) (a : args) : option (prof_call A) :=
  if only_keys ["n"; "meas_height"; "wind"; "ustar"; "z0"; "mol"; "closure"] a then
    match as_nat (lookup a "n"), as_A (lookup a "meas_height"), as_wind w (lookup a "wind"),
          as_optA (lookup a "ustar"), as_optA (lookup a "z0"), as_A (lookup a "mol"), as_A (lookup a "closure") with
    | Some n, Some zm, Some wd, Some us, Some z0, Some mol, Some cl => Some (mkProf n zm wd us z0 mol cl)
    | _, _, _, _, _, _, _ => None
    end
  else None.

(* ideal_source(nxy, domain, src_loc=None, shape) *)
Definition call_ideal (a : args) : option (source A F) :=
  if only_keys ["nxy"; "domain"; "src_loc"; "shape"] a then
    match as_pairA (lookup a "nxy"), as_pairA (lookup a "domain"), as_optList (lookup a "src_loc"),
          as_A (lookup a "shape") with
    | Some n, Some d, Some sl, Some sh => Some (Ideal n d sl sh)
    | _, _, _, _ => None
    end
  else None.

(* steady_state_transport_solver(srf_flx, z, profiles, domain, levels, modes, meas_pt, footprint, analytic,
   halo=None, precision, cache=None); z and profiles have to be the pair returned by the profile call *)
Definition call_solver (ideal : option (source A F)) (p : prof_call A) (a : args) : option (solver_call A F K) :=
  if only_keys ["srf_flx"; "z"; "profiles"; "domain"; "levels"; "modes"; "meas_pt"; "footprint"; "analytic"; "halo";
                "precision"; "cache"] a then
    match lookup a "z", lookup a "profiles" with
    | Some VZ, Some VProfiles =>
      match as_source ideal (lookup a "srf_flx"), as_pairA (lookup a "domain"), as_levels (lookup a "levels"),
            as_list (lookup a "modes"), as_pairA (lookup a "meas_pt"), as_bool (lookup a "footprint"),
            as_bool (lookup a "analytic"), as_optA (lookup a "halo"), as_A (lookup a "precision"),
            as_optK (lookup a "cache") with
      | Some src, Some dom, Some lv, Some mo, Some mp, Some fp, Some an, Some ha, Some pr, Some ca =>
        Some (mkSolve src p dom lv mo mp fp an ha pr ca)
      | _, _, _, _, _, _, _, _, _, _ => None
      end
    | _, _ => None
    end
  else None.

(* the environment and the (at most one) call made so far of each pipeline function *)
Record state := mkState {
  st_env : env; st_wind : option (wind_call A); st_prof : option (prof_call A);
  st_ideal : option (source A F); st_solve : option (solver_call A F K) }.

(* x = v   /   x1, .., xn = v  (v a tuple of length n) *)
Definition assign (targets : list string) (v : val) (E : env) : option env :=
  match targets with
  | [] => None
  | [x] => Some ((x, v) :: E)
  | _ => match v with
         | VTup l => if Nat.eqb (List.length l) (List.length targets) then Some (combine targets l ++ E) else None
         | _ => None
         end
  end.

Definition sigs_t := list (string * list string).

(* targets = fn(args): the new state *)
Definition do_call (targets : list string) (fn : string) (a : args) (st : state) : option state :=
  if fn =? "compute_wind_fields" then
    match st_wind st, call_wind a with
    | None, Some w =>
      match assign targets (VTup [VWindU; VWindV]) (st_env st) with
      | Some E => Some (mkState E (Some w) (st_prof st) (st_ideal st) (st_solve st)) | None => None end
    | _, _ => None
    end
  else if fn =? "vertical_profiles" then
    match st_wind st, st_prof st with
    | Some w, None =>
      match call_prof w a, assign targets (VTup [VZ; VProfiles]) (st_env st) with
      | Some p, Some E => Some (mkState E (st_wind st) (Some p) (st_ideal st) (st_solve st))
      | _, _ => None end
    | _, _ => None
    end
  else if fn =? "ideal_source" then
    match st_ideal st, call_ideal a, assign targets VIdeal (st_env st) with
    | None, Some s, Some E => Some (mkState E (st_wind st) (st_prof st) (Some s) (st_solve st))
    | _, _, _ => None
    end
  else if fn =? "steady_state_transport_solver" then
    match st_prof st, st_solve st with
    | Some p, None =>
      match call_solver (st_ideal st) p a, assign targets (VTup [VGrid; VConc; VFlx]) (st_env st) with
      | Some sc, Some E => Some (mkState E (st_wind st) (st_prof st) (st_ideal st) (Some sc))
      | _, _ => None end
    | _, _ => None
    end
  else None.

Section Exec.
Context {R : Type}.
Variable sigs : sigs_t.

Fixpoint exec (s : stmt) (st : state) (k : state -> option R) {struct s} : option R :=
  match s with
  | SAssign targets e =>
    eval (st_env st) e (fun v =>
      match assign targets v (st_env st) with
      | Some E => k (mkState E (st_wind st) (st_prof st) (st_ideal st) (st_solve st))
      | None => None end)
  | SCall targets fn pos kw =>
    match lookup sigs fn with
    | Some sig =>
      evals (st_env st) pos (fun pv => eval_kws (st_env st) kw (fun kv =>
        match bind_args sig pv kv with
        | Some a => match do_call targets fn a st with Some st' => k st' | None => None end
        | None => None
        end))
    | None => None
    end
  | SIf c th el =>
    let fix go (l : list stmt) (st : state) (k : state -> option R) {struct l} : option R :=
      match l with
      | [] => k st
      | x :: r => exec x st (fun st' => go r st' k)
      end in
    eval_cond (st_env st) c (fun b => if b then go th st k else go el st k)
  end.

Fixpoint exec_list (l : list stmt) (st : state) (k : state -> option R) {struct l} : option R :=
  match l with
  | [] => k st
  | x :: r => exec x st (fun st' => exec_list r st' k)
  end.
End Exec.

(* the returned dictionary: grid / conc / flx are the solver's three values, untouched; the four labels *)
Definition ret_labels (r : list (string * val)) : option (labels A T) :=
  if Nat.eqb (List.length r) 7 then
    match lookup r "grid", lookup r "conc", lookup r "flx" with
    | Some VGrid, Some VConc, Some VFlx =>
      match as_A (lookup r "tower_name"), as_pairA (lookup r "tower_xy"), lookup r "timestamp", lookup r "params" with
      | Some n, Some xy, Some (VStampV st), Some (VStep s) => Some (mkLabels n xy st s)
      | _, _, _, _ => None
      end
    | _, _, _ => None
    end
  else None.

(* run_bldfm_single(config, tower, met_index, surface_flux, cache) as described by fd.
   None: some step has no value (an exception in Python - for the source as it is only MetConfig.get_step's
   IndexError - or a construct whose meaning is not determined by the model, e.g. the truth value of a number) *)
Definition run_desc_with (sigs : sigs_t) (fd : fn_desc) (cfg : config A T) (tw : tower A) (i : nat)
    (flux : option F) (cache : option K) : option (call_record A T F K) :=
  let E0 : env := [("config", VConfig cfg); ("tower", VTower tw); ("met_index", VNat i);
                   ("surface_flux", VOptF flux); ("cache", VOptK cache)] in
  exec_list sigs (fd_body fd) (mkState E0 None None None None) (fun st =>
    eval_kws (st_env st) (fd_return fd) (fun r =>
      match st_wind st, st_prof st, st_solve st, ret_labels r with
      | Some w, Some p, Some sc, Some lb =>
        let src := match st_ideal st with Some s => s | None => sc_srf_flx sc end in
        Some (mkCalls w p src sc lb)
      | _, _, _, _ => None
      end)).

(* the signature the model assumes: plumb = plumb_c with cache=None; index 0 and no flux by default *)
Definition model_params : list (string * option ex) :=
  [("config", None); ("tower", None); ("met_index", Some (ENat 0)); ("surface_flux", Some ENone); ("cache", Some ENone)].

(* ---- BLDFMConfig.__post_init__ on one tower ---- *)
Variable geo_x geo_y : A -> A -> A -> A -> A.   (* the two components of latlon_to_xy *)

Definition place_desc_with (pi : post_init_desc) (lx : local_xy_desc) (cfg : config A T) (t : tower A) : option (tower A) :=
  let E : env := [("self", VConfig cfg)] in
  eval_cond E (pi_cond pi) (fun b =>
    if b then
      (* tower.compute_local_xy(args): parameters bound positionally after self *)
      if (pi_method pi =? lx_name lx) && (lx_fn lx =? "latlon_to_xy") then
        evals E (pi_args pi) (fun av =>
          if Nat.eqb (List.length av) (List.length (lx_params lx)) then
            let E' : env := ("self", VTower t) :: combine (lx_params lx) av in
            evals E' (lx_args lx) (fun xs =>
              match map (fun v => as_optA (Some v)) xs, lx_targets lx with
              | [Some (Some a); Some (Some b); Some (Some c); Some (Some d)], ["x"; "y"] =>
                Some (mkTower (t_name t) (t_lat t) (t_lon t) (t_zm t) (geo_x a b c d) (geo_y a b c d))
              | _, _ => None
              end)
          else None)
      else None
    else Some t).

End Run.
Arguments val : clear implicits.
Arguments state : clear implicits.

(* with MetConfig.get_step as modelled in Model/Met.v *)
Definition run_desc {A T F K : Type} := @run_desc_with A T F K (@get_step A T).
(* the interpreter's F and K (flux array, cache object) do not occur in a configuration *)
Definition place_desc {A T : Type} := @place_desc_with A T unit unit (@get_step A T).

(* the loop runs over self.towers and the met section is validated afterwards: Interface.parse maps `place` over
   the towers and accepts only if Met.validate does *)
Definition model_over : ex := EAttr (EName "self") "towers".
Definition model_validated : ex := EAttr (EName "self") "met".
