(* Running the functions of Gen.GenKernel (translated from the current solver.py) on IEEE doubles and comparing with
   what the implementation's ivp_solver / mean mode returned (harness/kernelcorr.py: validation of the translator's
   per-mode reading of the arrays; no theorem is about this file). *)
From Coq Require Import ZArith PrimFloat List Bool.
From BL Require Import Base.Ops Base.FloatOps Model.Solver Model.SolverExec.
Import ListNotations.
Open Scope float_scope.

(* (max deviation, scale, same length) over real and imaginary parts *)
Fixpoint devc (m e : list FC) (acc : float * float * bool) : float * float * bool :=
  match m, e with
  | [], [] => acc
  | x :: m, y :: e =>
      let '(d, s, ok) := acc in
      devc m e (fmaxabs (fmaxabs d (fst x - fst y)) (snd x - snd y), fmaxabs (fmaxabs s (fst y)) (snd y), ok)
  | _, _ => (fst (fst acc), snd (fst acc), false)
  end.

(* result of gen_ivp_solver for one mode against the implementation's (p, q, recorded p, recorded q) of that mode *)
Definition ivp_compare (got : FC * FC * list FC * list FC) (ep eq : FC) (erp erq : list FC) : float * float * bool :=
  let '(p, q, rp, rq) := got in
  devc rq erq (devc rp erp (devc [p; q] [ep; eq] (0, 0, true))).

(* the column of gen_mean_mode against the horizontal means of the concentration (real parts) *)
Definition mean_compare (got : FC * list FC) (e : list float) : float * float * bool :=
  devc (snd got) (map fr e) (0, 0, true).
