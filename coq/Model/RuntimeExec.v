(* Encoders used by the C12 bookkeeping correspondence (harness/props/c12.py): the model's state and
   usage after every op of a history as integer lists, compared inside Coq with what the worker
   process observed.  No proofs. *)
From Coq Require Import List ZArith Bool.
From BL Require Import Model.Runtime.
Import ListNotations.
Open Scope Z_scope.

Definition zn (n : nat) : Z := Z.of_nat n.

(* keys of _compiled in insertion order, base 3: False -> digit 1, True -> digit 2 *)
Definition enc_compiled (l : list bool) : Z :=
  fold_left (fun acc (b : bool) => acc * 3 + (if b then 2 else 1)) l 0.

(* [config.NUM_THREADS; numba.get_num_threads(); manager threads or -1; pyfftw.config.NUM_THREADS;
    compiled keys; FFTManager creations] *)
Definition enc_state (s : state) : list Z :=
  [zn (cfg_threads s); zn (numba_threads s);
   match mgr s with Some t => zn t | None => -1 end;
   zn (pyfftw_threads s); enc_compiled (compiled s); zn (mgr_creations s)].

(* the state-reading calls of one solve in source order:
   transform -> [0; pyfftw threads]     ivp_solver call -> [1; variant; numba threads] *)
Definition enc_kernel (k : option (bool * nat)) : list Z :=
  match k with Some (p, n) => [1; if p : bool then 1 else 0; zn n] | None => [] end.
Definition enc_usage (u : usage) : list Z :=
  (match u_pre u with Some t => [0; zn t] | None => [] end)
  ++ enc_kernel (u_k1 u) ++ enc_kernel (u_k2 u) ++ [0; zn (u_post_p u); 0; zn (u_post_q u)].

(* histories as the harness writes them *)
Inductive hop := HThreads (n : nat) | HReset | HSolve (footprint analytic : bool) (oc : outcome).
Definition to_op (h : hop) : op unit :=
  match h with
  | HThreads n => SetThreads unit n
  | HReset => ResetMgr unit
  | HSolve fp an oc => Solve unit (mkSargs unit tt an fp oc)
  end.

(* state-reading calls a raising call got to make *)
Definition enc_raised (fp an : bool) (oc : outcome) (s : state) : list Z :=
  match oc with
  | RaisesBefore => []
  | RaisesAfterSource => if fp then [] else [0; zn (snd (call_fft s))]
  | RaisesAtEnd | Returns => enc_usage (snd (run_solve fp an s))
  end.

(* per op: state after the op, followed for a returning solve by 9 and the usage, for a raising
   call by 8 and the calls it got to make *)
Fixpoint enc_history (ops : list hop) (s : state) : list (list Z) :=
  match ops with
  | [] => []
  | h :: r =>
      let s1 := step_state unit (to_op h) s in
      (enc_state s1 ++ match h with
                       | HSolve fp an Returns => 9 :: enc_usage (snd (run_solve fp an s))
                       | HSolve fp an oc => 8 :: enc_raised fp an oc s
                       | _ => []
                       end) :: enc_history r s1
  end.

Fixpoint zlist_eqb (a b : list Z) : bool :=
  match a, b with
  | [], [] => true
  | x :: a', y :: b' => Z.eqb x y && zlist_eqb a' b'
  | _, _ => false
  end.

(* indices of the ops at which observation and model differ; -1 if the lengths differ *)
Fixpoint disagree_from (i : Z) (m o : list (list Z)) : list Z :=
  match m, o with
  | [], [] => []
  | x :: m', y :: o' => (if zlist_eqb x y then [] else [i]) ++ disagree_from (i + 1) m' o'
  | _, _ => [-1]
  end.

Definition disagree (numba0 pyfftw0 : nat) (ops : list hop) (observed : list (list Z)) : list Z :=
  disagree_from 0 (enc_history ops (init numba0 pyfftw0)) observed.
