(* Model of ONE cache file (one key of bldfm.cache.GreensFunctionCache) shared by the worker processes of a
   pool (strategy "towers" with parallel.use_cache: every worker runs run_bldfm_timeseries, which creates a
   cache object on the same directory .bldfm_cache).  Each worker runs, per solve:
       cached = cache.get(..)            -- path.exists() and np.load(path)
       if cached is None: result = solve(..); cache.put(.., result)
   The operations below are the individually atomic file-system steps; a schedule is ANY list of them (any
   interleaving of any number of workers).
   put, two variants:
     - in place (np.savez(path, ..)): the file exists, incomplete, from WriteBegin until the last active
       writer's WriteEnd;
     - atomic  (np.savez(tmp, ..); os.replace(tmp, path)): the complete file appears in one step.
   get, two variants:
     - strict:   np.load on an incomplete file raises and the exception propagates (Crash);
     - tolerant: an unreadable file counts as a miss.
   Modelled, not verified: np.load either returns the complete content or raises (an incomplete .npz is never
   read as a valid different array). *)
From Coq Require Import List.
Import ListNotations.

Section PoolCache.
Context {V : Type}.

(* Partial k: k >= 1 in-place writers are active *)
Inductive file := Absent | Partial (k : nat) | Complete (v : V).

Inductive op :=
| Get                 (* strict cache.get *)
| GetTolerant         (* cache.get that treats an unreadable file as a miss *)
| WriteBegin          (* in-place put: file created / truncated *)
| WriteEnd (v : V)    (* in-place put: np.savez returns *)
| PutAtomic (v : V).  (* atomic put: os.replace(tmp, path) *)

(* what a get observes; Crash = np.load raises (EOFError / BadZipFile / ValueError) and nobody catches it *)
Inductive obs := Miss | Hit (v : V) | Crash.

Definition read (f : file) : obs :=
  match f with Absent => Miss | Partial _ => Crash | Complete v => Hit v end.
Definition read_tolerant (f : file) : obs :=
  match f with Absent => Miss | Partial _ => Miss | Complete v => Hit v end.

Definition write (f : file) (o : op) : file :=
  match o with
  | Get | GetTolerant => f
  | WriteBegin => match f with Partial k => Partial (S k) | _ => Partial 1 end
  | WriteEnd v => match f with Partial (S (S k)) => Partial (S k) | Partial _ => Complete v | _ => f end
  | PutAtomic v => match f with Partial k => Partial k | _ => Complete v end
  end.

(* the observations of the gets of a schedule, in order *)
Fixpoint run (f : file) (tr : list op) : list obs :=
  match tr with
  | [] => []
  | Get :: r => read f :: run f r
  | GetTolerant :: r => read_tolerant f :: run f r
  | o :: r => run (write f o) r
  end.

(* what the worker that made the observation returns for this solve: its own result v0 on a miss, the
   file's content on a hit; None = the exception propagates and run_bldfm_parallel raises *)
Definition worker_result (v0 : V) (o : obs) : option V :=
  match o with Miss => Some v0 | Hit v => Some v | Crash => None end.

End PoolCache.
