(* Running Model/Solver.v on IEEE doubles and comparing with the implementation's output
   (used only by the correspondence check; no theorem is about this file). *)
From Coq Require Import ZArith PrimFloat List Bool.
From BL Require Import Base.Ops Base.FloatOps Model.Solver.
Import ListNotations.
Open Scope float_scope.

Definition fmaxabs (a b : float) : float :=
  let b := abs b in if (b =? b) then (if a <? b then b else a) else nan.

Fixpoint dev1 (m : list FC) (e : list float) (acc : float * float * bool) : float * float * bool :=
  match m, e with
  | [], [] => acc
  | x :: m, y :: e =>
      let '(d, s, ok) := acc in
      dev1 m e (fmaxabs d (fst x - y), fmaxabs s y, ok)
  | _, _ => (fst (fst acc), snd (fst acc), false)
  end.
Fixpoint dev2 (m : list (list FC)) (e : list (list float)) acc :=
  match m, e with
  | [], [] => acc
  | x :: m, y :: e => dev2 m e (dev1 x y acc)
  | _, _ => (fst (fst acc), snd (fst acc), false)
  end.
Fixpoint dev3 (m : list (list (list FC))) (e : list (list (list float))) acc :=
  match m, e with
  | [], [] => acc
  | x :: m, y :: e => dev3 m e (dev2 x y acc)
  | _, _ => (fst (fst acc), snd (fst acc), false)
  end.

Fixpoint eq1 (m : list FC) (e : list float) : bool :=
  match m, e with
  | [], [] => true
  | x :: m, y :: e => (fst x =? y) && eq1 m e
  | _, _ => false
  end.
Fixpoint eqn (a b : list nat) : bool :=
  match a, b with [], [] => true | x :: a, y :: b => Nat.eqb x y && eqn a b | _, _ => false end.

Record expected := mkExp {
  e_x : list float; e_y : list float; e_z : list float;
  e_conc : list (list (list float)); e_flx : list (list (list float));
  e_shape : list nat }.

(* (code, dev_conc, scale_conc, dev_flx, scale_flx, structure_ok)
   code 0 = the model returns a result; 1 ModesOdd, 2 NegativePad, 3 LevelIndex, 4 EmptyGrid *)
Definition compare (a : args FloatOps) (e : expected) : Z * float * float * float * float * bool :=
  match solve FloatOps a with
  | inr ModesOdd => (1%Z, 0, 0, 0, 0, true)
  | inr NegativePad => (2%Z, 0, 0, 0, 0, true)
  | inr LevelIndex => (3%Z, 0, 0, 0, 0, true)
  | inr EmptyGrid => (4%Z, 0, 0, 0, 0, true)
  | inl r =>
    let '(dc, sc, okc) := dev3 (r_conc _ r) (e_conc e) (0, 0, true) in
    let '(df, sf, okf) := dev3 (r_flx _ r) (e_flx e) (0, 0, true) in
    (0%Z, dc, sc, df, sf,
     okc && okf && eq1 (r_x _ r) (e_x e) && eq1 (r_y _ r) (e_y e) && eq1 (r_z _ r) (e_z e)
         && eqn (r_shape _ r) (e_shape e))
  end.

Definition err_code (a : args FloatOps) : Z :=
  match solve FloatOps a with
  | inr ModesOdd => 1%Z | inr NegativePad => 2%Z | inr LevelIndex => 3%Z | inr EmptyGrid => 4%Z
  | inl _ => 0%Z end.

Definition R1 (l : list float) : list FC := map fr l.
Definition R2 (l : list (list float)) : list (list FC) := map R1 l.
