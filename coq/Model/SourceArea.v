(* Model of bldfm.utils.get_source_area, the five source_area_* base functions and
   bldfm.plotting.footprint.extract_percentile_contour (with plotting._common._maybe_slice_level).

   Arithmetic is exact (Q).  numpy's argsort is NOT modelled: the descending order
   `np.argsort(x)[::-1]` is an ARGUMENT (`order` / `idx`) of the model functions; the theorems
   constrain it only by "is a permutation of the cells that sorts x non-increasingly"
   (`sorts_desc`), the correspondence passes the concrete order numpy returned.

   get_source_area is modelled for the repaired code (fix_C20.diff): the result array takes the
   dtype of the cumulative sums.  The unrepaired code allocates it with `np.empty_like(g_flat)`,
   i.e. with the dtype of the base field g, and truncates every value when g is an integer
   array; that cast has no counterpart here (the correspondence exhibits it). *)
From Coq Require Import List Arith QArith Qabs Bool ZArith Permutation.
Import ListNotations.
Open Scope Q_scope.

(* ---------- flat arrays ---------- *)

Definition sumQ (l : list Q) : Q := fold_right Qplus 0 l.

(* x[idx] (fancy indexing with an index array) *)
Definition gather (x : list Q) (idx : list nat) : list Q := map (fun i => nth i x 0) idx.

(* np.cumsum: out[0] = x[0], out[i] = out[i-1] + x[i] *)
Fixpoint cumsum_from (acc : Q) (l : list Q) : list Q :=
  match l with [] => [] | x :: r => (acc + x) :: cumsum_from (acc + x) r end.
Definition cumsum (l : list Q) : list Q := cumsum_from 0 l.

(* M_shifted = zeros_like(M_cum); M_shifted[1:] = M_cum[:-1] *)
Definition shift (l : list Q) : list Q :=
  match l with [] => [] | _ :: _ => 0 :: removelast l end.

(* out[i] = v *)
Fixpoint upd (l : list Q) (i : nat) (v : Q) : list Q :=
  match l, i with
  | [], _ => []
  | _ :: r, O => v :: r
  | x :: r, S i => x :: upd r i v
  end.

(* out = empty(n); out[idx] = vals   (assignments in index order, the last one wins) *)
Definition scatter (n : nat) (idx : list nat) (vals : list Q) : list Q :=
  fold_left (fun acc iv => upd acc (fst iv) (snd iv)) (combine idx vals) (repeat 0 n).

(* get_source_area(f, g) on the flattened arrays; order = np.argsort(g_flat)[::-1] *)
Definition get_source_area (f : list Q) (order : list nat) : list Q :=
  let f_sorted := gather f order in
  let M_cum := cumsum f_sorted in
  let M_shifted := shift M_cum in
  scatter (length order) order M_shifted.

(* The UNREPAIRED code allocates the result with `np.empty_like(g_flat)`, i.e. in g's dtype; for an
   integer-typed g the assignment `g_rescaled[order] = M_shifted` casts every value with C
   truncation.  Kept only to name the defect (Example C20_unrepaired_integer_g_refuted) and to let
   the correspondence say which of the two models a tree follows. *)
Definition trunc_int (q : Q) : Q := inject_Z (Z.quot (Qnum q) (Zpos (Qden q))).

Definition get_source_area_unrepaired (g_is_integer : bool) (f : list Q) (order : list nat) : list Q :=
  let f_sorted := gather f order in
  let M_cum := cumsum f_sorted in
  let M_shifted := shift M_cum in
  scatter (length order) order (if g_is_integer then map trunc_int M_shifted else M_shifted).

(* ---------- what is required of the order ---------- *)

Definition desc (l : list Q) : Prop :=
  forall i j, (i <= j)%nat -> (j < length l)%nat -> nth j l 0 <= nth i l 0.

(* order is a permutation of the cells 0..n-1 that sorts x non-increasingly *)
Definition sorts_desc (x : list Q) (order : list nat) : Prop :=
  Permutation order (seq 0 (length x)) /\ desc (gather x order).

Definition nonneg (f : list Q) : Prop := Forall (fun v => 0 <= v) f.

(* ---------- the property's own sums (brute force over all cells) ---------- *)

Definition Qlt_bool (a b : Q) : bool := negb (Qle_bool b a).

Definition sum_over (f : list Q) (cells : list nat) : Q := sumQ (gather f cells).

(* sum of f over the cells whose g is strictly larger than at c *)
Definition S_gt (f g : list Q) (c : nat) : Q :=
  sum_over f (filter (fun i => Qlt_bool (nth c g 0) (nth i g 0)) (seq 0 (length f))).

(* sum of f over the cells other than c whose g is larger or equal *)
Definition S_ge_other (f g : list Q) (c : nat) : Q :=
  sum_over f (filter (fun i => negb (Nat.eqb i c) && Qle_bool (nth c g 0) (nth i g 0)) (seq 0 (length f))).

(* ---------- percentile contour ---------- *)

(* np.searchsorted(a, v) (side='left') on a non-decreasing array: the number of leading
   entries that are < v = the first index whose entry is >= v *)
Fixpoint searchsorted_left (a : list Q) (v : Q) : nat :=
  match a with
  | [] => 0%nat
  | x :: r => if Qle_bool v x then 0%nat else S (searchsorted_left r v)
  end.

(* numpy's actual algorithm (binary search; npy_binsearch.cpp, side left):
   lo=0, hi=n; while lo<hi: mid = lo + (hi-lo)/2; if a[mid] < v then lo=mid+1 else hi=mid *)
Fixpoint bsearch_left (fuel : nat) (a : list Q) (v : Q) (lo hi : nat) : nat :=
  match fuel with
  | O => lo
  | S fuel =>
    if (lo <? hi)%nat then
      let mid := (lo + (hi - lo) / 2)%nat in
      if Qlt_bool (nth mid a 0) v then bsearch_left fuel a v (S mid) hi
      else bsearch_left fuel a v lo mid
    else lo
  end.
Definition searchsorted_left_bin (a : list Q) (v : Q) : nat :=
  bsearch_left (S (length a)) a v 0 (length a).

(* body of extract_percentile_contour after slicing; idx = np.argsort(flat)[::-1].
   Python raises IndexError on an empty field (cumsum[-1]): None. *)
Definition percentile_flat (flat : list Q) (idx : list nat) (cell_area pct : Q) : option (Q * Q) :=
  match flat with
  | [] => None
  | _ =>
    let sorted_vals := gather flat idx in
    let cs := map (fun x => x * cell_area) (cumsum sorted_vals) in
    let total := last cs 0 in
    let target := pct * total in
    let k := searchsorted_left cs target in
    let level := nth (Nat.min k (length sorted_vals - 1)) sorted_vals 0 in
    let area := (inject_Z (Z.of_nat k) + 1) * cell_area in
    Some (level, area)
  end.

(* the same with numpy's binary search (used to cross-check the linear specification) *)
Definition percentile_flat_bin (flat : list Q) (idx : list nat) (cell_area pct : Q) : option (Q * Q) :=
  match flat with
  | [] => None
  | _ =>
    let sorted_vals := gather flat idx in
    let cs := map (fun x => x * cell_area) (cumsum sorted_vals) in
    let total := last cs 0 in
    let target := pct * total in
    let k := searchsorted_left_bin cs target in
    let level := nth (Nat.min k (length sorted_vals - 1)) sorted_vals 0 in
    let area := (inject_Z (Z.of_nat k) + 1) * cell_area in
    Some (level, area)
  end.

(* ---------- n-d arrays, _maybe_slice_level, cell size ---------- *)

Inductive arr :=
| A1 (l : list Q)
| A2 (rows : list (list Q))
| A3 (levels : list (list (list Q))).

(* C-order ravel *)
Definition ravel (a : arr) : list Q :=
  match a with
  | A1 l => l
  | A2 rows => concat rows
  | A3 levels => concat (map (@concat Q) levels)
  end.

(* _maybe_slice_level(field, (X, Y, Z), level): a 3-D field is cut at `level`; the grid is cut
   only when X is 3-D (Y is then 3-D as well in every grid the solver returns).  None = a
   combination outside the property's quantifier. *)
Definition slice_level (fld X Y : arr) (level : nat) : option (arr * arr * arr) :=
  match fld with
  | A3 L =>
    let fld' := A2 (nth level L []) in
    match X, Y with
    | A3 XL, A3 YL => Some (fld', A2 (nth level XL []), A2 (nth level YL []))
    | A3 _, _ => None
    | _, _ => Some (fld', X, Y)
    end
  | _ => Some (fld, X, Y)
  end.

(* dx = |X[0,1]-X[0,0]| if X.ndim == 2 else |X[1]-X[0]| *)
Definition dx_of (X : arr) : option Q :=
  match X with
  | A2 rows => let r0 := nth 0 rows [] in Some (Qabs (nth 1 r0 0 - nth 0 r0 0))
  | A1 l => Some (Qabs (nth 1 l 0 - nth 0 l 0))
  | A3 _ => None
  end.

(* dy = |Y[1,0]-Y[0,0]| if Y.ndim == 2 else |Y[1]-Y[0]| *)
Definition dy_of (Y : arr) : option Q :=
  match Y with
  | A2 rows => Some (Qabs (nth 0 (nth 1 rows []) 0 - nth 0 (nth 0 rows []) 0))
  | A1 l => Some (Qabs (nth 1 l 0 - nth 0 l 0))
  | A3 _ => None
  end.

(* extract_percentile_contour(flx, (X, Y, _), pct, level); idx = np.argsort(sliced.ravel())[::-1] *)
Definition extract_percentile_contour (flx X Y : arr) (pct : Q) (level : nat) (idx : list nat)
  : option (Q * Q) :=
  match slice_level flx X Y level with
  | None => None
  | Some (fld, X', Y') =>
    match dx_of X', dy_of Y' with
    | Some dx, Some dy => percentile_flat (ravel fld) idx (dx * dy) pct
    | _, _ => None
    end
  end.

(* ---------- base functions (elementwise on flattened coordinate arrays) ---------- *)

Fixpoint map2 (h : Q -> Q -> Q) (a b : list Q) : list Q :=
  match a, b with x :: a, y :: b => h x y :: map2 h a b | _, _ => [] end.

Definition sq (x : Q) : Q := x * x.

Definition source_area_contribution (flx : list Q) : list Q := flx.

(* -((X - xm)**2 + (Y - ym)**2) *)
Definition source_area_circular (X Y : list Q) (xm ym : Q) : list Q :=
  map2 (fun x y => - (sq (x - xm) + sq (y - ym))) X Y.

(* speed = sqrt(u**2+v**2) is not computable in Q: it is an argument, constrained by
   speed*speed == u*u+v*v, speed >= 0 where it matters *)
Definition source_area_upwind (X Y : list Q) (xm ym u v speed : Q) : list Q :=
  let u_hat := u / speed in let v_hat := v / speed in
  map2 (fun x y => u_hat * (x - xm) + v_hat * (y - ym)) X Y.

Definition source_area_crosswind (X Y : list Q) (xm ym u v speed : Q) : list Q :=
  let u_hat := u / speed in let v_hat := v / speed in
  map2 (fun x y => - sq ((- v_hat) * (x - xm) + u_hat * (y - ym))) X Y.

(* source_area_sector uses arctan2/sin/cos: not modelled as a formula; its values enter
   get_source_area only through the order they induce (passed as data). *)
