(* Model of bldfm/ffm_kormann_meixner.py (Kormann & Meixner 2001 reference footprint) over Coq's reals.
   NO proofs here.  The model mirrors the code as REPAIRED by fix_C19_dtype.diff (the stability helpers
   convert their arguments to float arrays first); the unrepaired integer path is modelled separately at
   the end (`*_trunc`) so that the defect can be stated.

   The Gamma function is defined in no installed Coq library: it is a Section variable here; theorems
   that need it assume only `forall x, 0 < x -> 0 < Gamma x`.  For the interval-certified
   correspondence the two values the code asks scipy for (Gamma mu and Gamma (1/r)) are arguments of
   the `*_g` definitions ("Gamma values as data").

   Python's `**` on a positive base is `Rpower`; on the physically consistent inputs of the property
   every base is positive (zm, 1 - 16 zm/L for L < 0, kappa r^2/U, Xi, and x under the mask x > 0).
   Division by zero (L = 0 falls into the stable branch `mo_len >= 0` exactly as the code's masks do and
   evaluates 5*zm/0; numpy gives inf/nan there) has no meaning in the model: the theorems assume L <> 0. *)
From Coq Require Import Reals List ZArith Bool.
Import ListNotations.
Open Scope R_scope.

(* ---------------------------------------------------------------------------------------------- *)
(* numpy.arctan2 (principal value in (-pi, pi]; arctan2(0,0) = 0) *)
Definition atan2 (y x : R) : R :=
  if Rlt_dec 0 x then atan (y / x)
  else if Rlt_dec x 0 then (if Rle_dec 0 y then atan (y / x) + PI else atan (y / x) - PI)
  else if Rlt_dec 0 y then PI / 2
  else if Rlt_dec y 0 then - (PI / 2)
  else 0.

Definition vk : R := 2 / 5.   (* von_karman = 0.4 *)

(* ---------------------------------------------------------------------------------------------- *)
(* stability helpers: result array of zeros, then the masks `mo_len < 0` and `mo_len >= 0` *)
Definition zeta (zm L : R) : R := Rpower (1 - 16 * zm / L) (1 / 4).

Definition phiM (zm L : R) : R :=
  if Rlt_dec L 0 then Rpower (1 - 16 * zm / L) (- (1 / 4)) else 1 + 5 * zm / L.

Definition phiC (zm L : R) : R :=
  if Rlt_dec L 0 then Rpower (1 - 16 * zm / L) (- (1 / 2)) else 1 + 5 * zm / L.

Definition psiM (zm L : R) : R :=
  if Rlt_dec L 0 then
    - 2 * ln (1 / 2 * (1 + zeta zm L)) - ln (1 / 2 * (1 + zeta zm L * zeta zm L))
    + 2 * atan (zeta zm L) - PI * (1 / 2)
  else 5 * zm / L.

Definition nParam (zm L : R) : R :=
  if Rlt_dec L 0 then (1 - 24 * zm / L) / (1 - 16 * zm / L) else 1 / (1 + 5 * zm / L).

Definition mParam (zm ws ustar L : R) : R := ustar * phiM zm L / (vk * ws).

(* ---------------------------------------------------------------------------------------------- *)
(* the chain of estimateFootprint *)
Definition kappa (zm ustar phic n : R) : R := vk * zm * ustar / (phic * Rpower zm n).
Definition Ucoef (ustar zm z0 psim m : R) : R := ustar * (ln (zm / z0) + psim) / (vk * Rpower zm m).
Definition rshape (m n : R) : R := 2 + m - n.
Definition muc (m r : R) : R := (1 + m) / r.
Definition Xic (U zm r kap : R) : R := U * Rpower zm r / (r * r * kap).
Definition mrc (m r : R) : R := m / r.
(* A with the value of Gamma(1/r) as data *)
Definition Acoef_g (ginvr U r sv kap mr : R) : R := U / (ginvr * sv) * Rpower (kap * (r * r) / U) mr.
Definition numc (Xi mu : R) : R := 1 / sqrt (2 * PI) * Rpower Xi mu.

(* grid_ffm = zeros; grid_ffm[x > 0] = ...  (gmm is the value of Gamma(mu)) *)
Definition cell_expr (res num A x y mr mu Xi gmm : R) : R :=
  if Rlt_dec 0 x then
    res * res * num * A * Rpower x (mr - 2 - mu)
    * exp (- Xi / x - 1 / 2 * ((gmm * y * A * Rpower x (mr - 1)) * (gmm * y * A * Rpower x (mr - 1))))
  else 0.

Record kmpar : Type := mkPar { p_zm : R; p_z0 : R; p_ws : R; p_ustar : R; p_L : R; p_sv : R }.

Definition m_of (p : kmpar) := mParam (p_zm p) (p_ws p) (p_ustar p) (p_L p).
Definition n_of (p : kmpar) := nParam (p_zm p) (p_L p).
Definition kappa_of (p : kmpar) := kappa (p_zm p) (p_ustar p) (phiC (p_zm p) (p_L p)) (n_of p).
Definition U_of (p : kmpar) := Ucoef (p_ustar p) (p_zm p) (p_z0 p) (psiM (p_zm p) (p_L p)) (m_of p).
Definition r_of (p : kmpar) := rshape (m_of p) (n_of p).
Definition mu_of (p : kmpar) := muc (m_of p) (r_of p).
Definition Xi_of (p : kmpar) := Xic (U_of p) (p_zm p) (r_of p) (kappa_of p).
Definition mr_of (p : kmpar) := mrc (m_of p) (r_of p).
Definition A_of_g (ginvr : R) (p : kmpar) := Acoef_g ginvr (U_of p) (r_of p) (p_sv p) (kappa_of p) (mr_of p).
Definition num_of (p : kmpar) := numc (Xi_of p) (mu_of p).

(* value of one cell whose wind-aligned coordinates relative to the receptor are (x, y); the early exit
   `if U < 0: return zeros`; gmu, ginvr are the values of Gamma(mu) and Gamma(1/r) *)
Definition cell_g (gmu ginvr : R) (p : kmpar) (res x y : R) : R :=
  if Rlt_dec (U_of p) 0 then 0
  else cell_expr res (num_of p) (A_of_g ginvr p) x y (mr_of p) (mu_of p) (Xi_of p) gmu.

(* ---------------------------------------------------------------------------------------------- *)
(* coordinates *)
(* the output grid: column j, row i (np.meshgrid of the two np.arange calls) *)
Definition grid_xc (xmin res : R) (j : nat) : R := xmin + (INR j + 1 / 2) * res.
Definition grid_yc (ymax res : R) (i : nat) : R := ymax - (INR i + 1 / 2) * res.

(* wd is None: shift only *)
Definition al_x (gx mx : R) : R := gx - mx.
Definition al_y (gy my : R) : R := gy - my.
(* wd given: shift, polar coordinates, add deg2rad(wd) - pi/2 to the angle *)
Definition rot_x (gx gy mx my wd : R) : R :=
  sqrt ((gx - mx) * (gx - mx) + (gy - my) * (gy - my))
  * cos (atan2 (gy - my) (gx - mx) + wd * PI / 180 - PI * (1 / 2)).
Definition rot_y (gx gy mx my wd : R) : R :=
  sqrt ((gx - mx) * (gx - mx) + (gy - my) * (gy - my))
  * sin (atan2 (gy - my) (gx - mx) + wd * PI / 180 - PI * (1 / 2)).

(* ---------------------------------------------------------------------------------------------- *)
(* estimateZ0 *)
Definition z0raw (zm L ws ustar : R) : R := zm * exp (psiM zm L - vk * ws / ustar).
(* z0[z0 > 1000] = nan : nan is None *)
Definition z0clean (z0 : R) : option R := if Rlt_dec 1000 z0 then None else Some z0.

(* the wrap of the wind directions for the bin kk *)
Definition wrapped (kk wd : R) : R :=
  if Rlt_dec kk 90 then (if Rlt_dec 270 wd then wd - 360 else wd)
  else if Rlt_dec 270 kk then (if Rlt_dec wd 90 then wd + 360 else wd)
  else wd.
Definition in_bin (kk wd : R) : bool :=
  if Rle_dec kk wd then (if Rlt_dec wd (kk + 1) then true else false) else false.
Definition in_window (kk w wd : R) : bool :=
  if Rle_dec (kk - w) (wrapped kk wd) then (if Rlt_dec (wrapped kk wd) (kk + 1 + w) then true else false) else false.

(* z0[idx2] : the entries whose wind direction is in the window of bin kk, in their order *)
Fixpoint select (kk w : R) (wds : list R) (zs : list (option R)) : list (option R) :=
  match wds, zs with
  | wd :: wds', z :: zs' => if in_window kk w wd then z :: select kk w wds' zs' else select kk w wds' zs'
  | _, _ => []
  end.

Section WithGamma.
Variable Gamma : R -> R.

Definition Acoef (U r sv kap mr : R) : R := Acoef_g (Gamma (1 / r)) U r sv kap mr.
Definition A_of (p : kmpar) : R := A_of_g (Gamma (1 / r_of p)) p.
Definition cell (p : kmpar) (res x y : R) : R := cell_g (Gamma (mu_of p)) (Gamma (1 / r_of p)) p res x y.

(* estimateFootprint(..., wd=None)[2][i, j] and estimateFootprint(..., wd=wd)[2][i, j] at the cell centre (gx, gy) *)
Definition cell_aligned (p : kmpar) (res mx my gx gy : R) : R := cell p res (al_x gx mx) (al_y gy my).
Definition cell_wd (p : kmpar) (res mx my wd gx gy : R) : R := cell p res (rot_x gx gy mx my wd) (rot_y gx gy mx my wd).

(* ---- the published closed form (Kormann & Meixner 2001):
   Eq. (21)  f^y(x) = 1/Gamma(mu) * xi^mu / x^(1+mu) * exp(-xi/x)          crosswind-integrated footprint
   Eq. (18)  ubar(x) = Gamma(mu)/Gamma(1/r) * (r^2 kappa/U)^(m/r) * U * x^(m/r)   effective plume velocity
   p. 212    sigma(x) = sigma_v * x / ubar(x)
   Eq. (9)   D_y(x,y) = 1/(sqrt(2 pi) sigma) * exp(-y^2/(2 sigma^2))       crosswind distribution
   footprint phi(x,y) = f^y(x) * D_y(x,y); the code returns phi * cell area. *)
Definition fy (mu xi x : R) : R := / Gamma mu * Rpower xi mu / Rpower x (1 + mu) * exp (- xi / x).
Definition ubar (mu r m kap U x : R) : R :=
  Gamma mu / Gamma (1 / r) * Rpower (r * r * kap / U) (m / r) * U * Rpower x (m / r).
Definition sigma_y (sv ub x : R) : R := sv * x / ub.
Definition Dy (sig y : R) : R := / (sqrt (2 * PI) * sig) * exp (- (y * y) / (2 * (sig * sig))).
Definition paper (p : kmpar) (res x y : R) : R :=
  res * res * fy (mu_of p) (Xi_of p) x
  * Dy (sigma_y (p_sv p) (ubar (mu_of p) (r_of p) (m_of p) (kappa_of p) (U_of p) x) x) y.

End WithGamma.

(* ---------------------------------------------------------------------------------------------- *)
(* the smoothing loop of estimateZ0: for kk in range(360): z0med[idx1] = nanmedian(z0[idx2]).
   An observation with direction wd is assigned in the one iteration kk = floor(wd) (if 0 <= kk < 360),
   otherwise it keeps the initial nan.  nanmedian is not modelled (Section variable). *)
Section Smoothing.
Variable nanmedian : list (option R) -> option R.

Definition z0med_bin (kk w : R) (wds : list R) (zs : list (option R)) : option R := nanmedian (select kk w wds zs).

Definition z0med_obs (w : R) (wds : list R) (zs : list (option R)) (wd : R) : option R :=
  let kk := Int_part wd in
  if ((0 <=? kk) && (kk <? 360))%Z then z0med_bin (IZR kk) w wds zs else None.

Definition raw_list (zms Ls wss uss : list R) : list (option R) :=
  map (fun q => match q with (zm, L, ws, us) => z0clean (z0raw zm L ws us) end)
      (combine (combine (combine zms Ls) wss) uss).

(* estimateZ0(zm, ws, wd, ustar, L, half_wd_win = w)[i] where wd = nth i wds *)
Definition estimateZ0_obs (w : R) (zms Ls wss uss wds : list R) (i : nat) : option R :=
  let zs := raw_list zms Ls wss uss in
  if Rlt_dec w 1 then nth i zs None
  else z0med_obs w wds zs (nth i wds 0).

End Smoothing.

(* rotation of a wind direction by d degrees, wrapped into [0, 360) *)
Definition rotdeg (d wd : R) : R := if Rlt_dec (wd + d) 360 then wd + d else wd + d - 360.

(* ---------------------------------------------------------------------------------------------- *)
(* the UNREPAIRED integer path: `np.zeros_like(zm)` with an integer-typed zm allocates an integer array and
   numpy truncates the assigned float values toward zero *)
Definition Rtrunc (r : R) : R := if Rle_dec 0 r then IZR (Int_part r) else - IZR (Int_part (- r)).
Definition phiM_trunc (zm L : R) : R := Rtrunc (phiM zm L).
Definition phiC_trunc (zm L : R) : R := Rtrunc (phiC zm L).
Definition psiM_trunc (zm L : R) : R := Rtrunc (psiM zm L).
Definition nParam_trunc (zm L : R) : R := Rtrunc (nParam zm L).

(* ---------------------------------------------------------------------------------------------- *)
(* np.sum(grid_ffm) for the wind-aligned grid (wd=None): rows i < ny, columns j < nx *)
Fixpoint rsum (n : nat) (f : nat -> R) : R := match n with O => 0 | S k => rsum k f + f k end.
Definition grid_total (Gamma : R -> R) (p : kmpar) (res mx my xmin ymax : R) (nx ny : nat) : R :=
  rsum ny (fun i => rsum nx (fun j => cell_aligned Gamma p res mx my (grid_xc xmin res j) (grid_yc ymax res i))).
