(* Description language for the process-global state handling of bldfm (tie (B) of C12).

   harness/py2coq_runtime.py transliterates the CURRENT source of fft_manager.py, config.py, utils.parallelize and
   the state-touching skeleton of solver.steady_state_transport_solver into closed terms of the types below
   (build/C12/GenRuntime.v).  This file gives those terms a MEANING: an interpreter over a `world` (the state of
   Model/Runtime.v plus the contents of parallelize's `_compiled` dict) that also records the sequence of
   transform / kernel invocations with the thread / variant arguments in force.  coq/Bridge/RuntimeBridge.v then
   proves, for ALL worlds and ops, that the interpreted description equals Model/Runtime.v.

   Python semantics covered (everything else has no value -> the interpreter returns None -> the bridge lemma fails):
     values        None, non-negative ints, True/False, str literals, the FFTManager object (carried by its
                   num_threads), the decorated function / its renamed copies, numba dispatchers, and OPAQUE
                   (arrays and everything numerical: may be passed around, never tested, never stored in tracked state);
     expressions   reads of the four global cells, `.num_threads`, comparisons, `is None`, not/and/or (operand
                   semantics), conditional expressions, str +, `k in _compiled`, `_compiled[k]` (KeyError = no value),
                   types.FunctionType(func.__code__, ..., name, ...), numba.jit(nopython=, parallel=, cache=)(target);
     statements    local assignment, writes of the global cells (`global` resolution is done by the translator with
                   Python's scoping rule), `self.num_threads = e`, `target.__qualname__ = e`, `_compiled[k] = v`,
                   if/else, calls of translated functions with positional / keyword / default binding, FFTManager(...),
                   method calls on the manager, the pyfftw transform, the call of a dispatcher, `return`,
                   `raise` under a condition on the numerical arguments (a numbered raise point: the interpreter is
                   told which one fires, if any).
   No proofs in this file. *)
From Coq Require Import List Arith Bool String.
From BL Require Import Model.Runtime.
Import ListNotations.
Open Scope string_scope.

(* ------------------------------------------------------------------ syntax *)

(* config.NUM_THREADS | numba's thread count (set_num_threads / get_num_threads) | fft_manager._fft_manager |
   pyfftw.config.NUM_THREADS *)
Inductive gcell := GCfg | GNumba | GMgr | GPyfftw.

(* a numba dispatcher: the options it was jitted with and the (relative) name it is cached under *)
Record kinfo := mkK { k_par : bool; k_nopython : bool; k_cache : bool; k_name : string; k_qualname : string }.

Inductive val :=
| VNone
| VNat (n : nat)
| VBool (b : bool)
| VStr (s : string)
| VMgr (threads : nat)               (* an FFTManager instance; num_threads is written in __init__ only *)
| VFun (name qualname : string)      (* the decorated function or a copy made with types.FunctionType *)
| VKernel (k : kinfo)
| VOpaque.

Inductive cmp := CGt | CGe | CLt | CLe | CEq | CNe.

Inductive expr :=
| EConst (v : val)
| EVar (x : string)
| EGlobal (g : gcell)
| EThreadsOf (e : expr)
| ECmp (c : cmp) (a b : expr)
| EIsNone (e : expr)
| ENot (e : expr)
| EAnd (a b : expr)
| EOr (a b : expr)
| EIfExp (c a b : expr)
| EConcat (a b : expr)
| EInCompiled (k : expr)
| ECompiledGet (k : expr)
| EFunc
| ERetarget (name : expr)
| EJit (nopython parallel cache target : expr)
| EOpaqueE.

Inductive callee :=
| CFun (f : string)                  (* a translated module-level function *)
| CNew                               (* FFTManager(...) *)
| CMethod (recv : expr) (m : string) (* <manager>.m(...) *).

Inductive stmt :=
| SAssign (x : string) (e : expr)
| SSetGlobal (g : gcell) (e : expr)
| SSetSelfThreads (e : expr)
| SSetFunAttr (x attr : string) (e : expr)
| SCompiledSet (k v : expr)
| SIf (c : expr) (a b : list stmt)
| SCall (x : option string) (f : callee) (args : list (option string * expr))
| STransform (x : option string) (inverse : bool) (threads : option expr)
| SKernel (x : option string) (k : expr)
| SExtern (name : string)
| SRaisePoint (i : nat)
| SReturn (e : expr).

Record fdef := mkF { f_params : list (string * option val); f_varargs : bool; f_body : list stmt }.
Definition program := list (string * fdef).

(* ------------------------------------------------------------------ worlds *)

(* parallelize's `_compiled` dict: the slots of the keys False / True, the insertion order of those keys, and the
   entries under any other key (a correct wrapper never makes one; a wrapper keyed by something else is still
   translated and then refuted by the bridge) *)
Record world := mkW {
  w_cfg : nat; w_numba : nat; w_mgr : option nat; w_pyfftw : nat;
  w_false : option kinfo; w_true : option kinfo; w_order : list bool; w_other : list (val * kinfo);
  w_creations : nat }.

(* the state of Model/Runtime.v a world stands for *)
Definition abs (w : world) : state :=
  mkState (w_cfg w) (w_numba w) (w_mgr w) (w_pyfftw w) (w_order w) (w_creations w).

Definition is_some {T : Type} (o : option T) : bool := match o with Some _ => true | None => false end.
Definition slot_par (b : bool) (o : option kinfo) : bool :=
  match o with Some ki => Bool.eqb (k_par ki) b | None => true end.

(* the order list names exactly the filled slots, and the slot of a flag holds the dispatcher compiled with that flag
   (true of the empty dict the decorator starts with; the bridge proves it is preserved) *)
Definition dict_okb (w : world) : bool :=
  Bool.eqb (existsb (Bool.eqb false) (w_order w)) (is_some (w_false w))
  && Bool.eqb (existsb (Bool.eqb true) (w_order w)) (is_some (w_true w))
  && slot_par false (w_false w) && slot_par true (w_true w).

Inductive event :=
| EvT (inverse : bool) (threads : nat)   (* a pyfftw transform and the thread count it runs with *)
| EvK (par : bool) (numba : nat).        (* an ivp_solver dispatcher call: variant, numba threads in force *)

Inductive ctl := CNormal | CReturn (v : val) | CRaise (i : nat).

Definition locals := list (string * val).

Fixpoint lget (x : string) (l : locals) : option val :=
  match l with
  | [] => None
  | (y, v) :: r => if String.eqb x y then Some v else lget x r
  end.

Definition lset (x : option string) (v : val) (l : locals) : locals :=
  match x with Some y => (y, v) :: l | None => l end.

Definition val_eqb (a b : val) : bool :=
  match a, b with
  | VNone, VNone => true
  | VNat n, VNat m => Nat.eqb n m
  | VBool x, VBool y => Bool.eqb x y
  | VStr s, VStr t => String.eqb s t
  | _, _ => false
  end.

Fixpoint other_get (k : val) (d : list (val * kinfo)) : option kinfo :=
  match d with
  | [] => None
  | (k', v) :: r => if val_eqb k k' then Some v else other_get k r
  end.

Fixpoint other_set (k : val) (v : kinfo) (d : list (val * kinfo)) : list (val * kinfo) :=
  match d with
  | [] => [(k, v)]
  | (k', v') :: r => if val_eqb k k' then (k', v) :: r else (k', v') :: other_set k v r
  end.

Definition dict_get (k : val) (w : world) : option kinfo :=
  match k with
  | VBool true => w_true w
  | VBool false => w_false w
  | _ => other_get k (w_other w)
  end.

Definition dict_mem (k : val) (w : world) : bool := is_some (dict_get k w).

Definition dict_set (k : val) (v : kinfo) (w : world) : world :=
  match k with
  | VBool true =>
      mkW (w_cfg w) (w_numba w) (w_mgr w) (w_pyfftw w) (w_false w) (Some v)
          (if is_some (w_true w) then w_order w else w_order w ++ [true]) (w_other w) (w_creations w)
  | VBool false =>
      mkW (w_cfg w) (w_numba w) (w_mgr w) (w_pyfftw w) (Some v) (w_true w)
          (if is_some (w_false w) then w_order w else w_order w ++ [false]) (w_other w) (w_creations w)
  | _ =>
      mkW (w_cfg w) (w_numba w) (w_mgr w) (w_pyfftw w) (w_false w) (w_true w) (w_order w)
          (other_set k v (w_other w)) (w_creations w)
  end.

(* ------------------------------------------------------------------ expressions *)

Definition truthy (v : val) : option bool :=
  match v with
  | VNone => Some false
  | VNat n => Some (negb (Nat.eqb n 0))
  | VBool b => Some b
  | VStr s => Some (negb (String.eqb s ""))
  | VMgr _ | VFun _ _ | VKernel _ => Some true
  | VOpaque => None
  end.

Definition cmp_nat (c : cmp) (a b : nat) : bool :=
  match c with
  | CGt => Nat.ltb b a | CGe => Nat.leb b a | CLt => Nat.ltb a b | CLe => Nat.leb a b
  | CEq => Nat.eqb a b | CNe => negb (Nat.eqb a b)
  end.

Definition cmp_val (c : cmp) (a b : val) : option bool :=
  match a, b with
  | VNat x, VNat y => Some (cmp_nat c x y)
  | VBool x, VBool y => match c with CEq => Some (Bool.eqb x y) | CNe => Some (negb (Bool.eqb x y)) | _ => None end
  | VStr x, VStr y => match c with CEq => Some (String.eqb x y) | CNe => Some (negb (String.eqb x y)) | _ => None end
  | VNone, VNone => match c with CEq => Some true | CNe => Some false | _ => None end
  | _, _ => None
  end.

Definition func_name := "<name>".
Definition func_qualname := "<qualname>".

Fixpoint eval (w : world) (l : locals) (e : expr) : option val :=
  match e with
  | EConst v => Some v
  | EVar x => lget x l
  | EGlobal GCfg => Some (VNat (w_cfg w))
  | EGlobal GNumba => Some (VNat (w_numba w))
  | EGlobal GMgr => Some (match w_mgr w with Some t => VMgr t | None => VNone end)
  | EGlobal GPyfftw => Some (VNat (w_pyfftw w))
  | EThreadsOf e => match eval w l e with Some (VMgr t) => Some (VNat t) | _ => None end
  | ECmp c a b => match eval w l a, eval w l b with
                  | Some x, Some y => option_map VBool (cmp_val c x y)
                  | _, _ => None
                  end
  | EIsNone e => match eval w l e with
                 | Some VOpaque => None
                 | Some VNone => Some (VBool true)
                 | Some _ => Some (VBool false)
                 | None => None
                 end
  | ENot e => match eval w l e with
              | Some v => option_map (fun b => VBool (negb b)) (truthy v)
              | None => None
              end
  | EAnd a b => match eval w l a with
                | Some v => match truthy v with Some true => eval w l b | Some false => Some v | None => None end
                | None => None
                end
  | EOr a b => match eval w l a with
               | Some v => match truthy v with Some true => Some v | Some false => eval w l b | None => None end
               | None => None
               end
  | EIfExp c a b => match eval w l c with
                    | Some v => match truthy v with Some true => eval w l a | Some false => eval w l b | None => None end
                    | None => None
                    end
  | EConcat a b => match eval w l a, eval w l b with
                   | Some (VStr s), Some (VStr t) => Some (VStr (s ++ t))
                   | _, _ => None
                   end
  | EInCompiled k => match eval w l k with
                     | Some VOpaque => None
                     | Some v => Some (VBool (dict_mem v w))
                     | None => None
                     end
  | ECompiledGet k => match eval w l k with
                      | Some VOpaque => None
                      | Some v => option_map VKernel (dict_get v w)
                      | None => None
                      end
  | EFunc => Some (VFun func_name func_qualname)
  | ERetarget n => match eval w l n with Some (VStr s) => Some (VFun s s) | _ => None end
  | EJit np par ca t =>
      match eval w l np, eval w l par, eval w l ca, eval w l t with
      | Some (VBool a), Some (VBool b), Some (VBool c), Some (VFun n q) => Some (VKernel (mkK b a c n q))
      | _, _, _, _ => None
      end
  | EOpaqueE => Some VOpaque
  end.

Fixpoint eval_args (w : world) (l : locals) (args : list (option string * expr)) : option (list (option string * val)) :=
  match args with
  | [] => Some []
  | (n, e) :: r => match eval w l e, eval_args w l r with
                   | Some v, Some vs => Some ((n, v) :: vs)
                   | _, _ => None
                   end
  end.

(* ------------------------------------------------------------------ argument binding *)

Fixpoint kw_take (x : string) (kws : list (option string * val)) : option (val * list (option string * val)) :=
  match kws with
  | [] => None
  | (Some y, v) :: r => if String.eqb x y then Some (v, r)
                        else match kw_take x r with Some (v', r') => Some (v', (Some y, v) :: r') | None => None end
  | (None, v) :: r => match kw_take x r with Some (v', r') => Some (v', (None, v) :: r') | None => None end
  end.

Fixpoint bind_kw (params : list (string * option val)) (kws : list (option string * val)) (acc : locals) : option locals :=
  match params with
  | [] => match kws with [] => Some acc | _ => None end
  | (x, d) :: ps => match kw_take x kws with
                    | Some (v, kws') => bind_kw ps kws' ((x, v) :: acc)
                    | None => match d with Some v => bind_kw ps kws ((x, v) :: acc) | None => None end
                    end
  end.

Fixpoint bind_go (params : list (string * option val)) (args : list (option string * val)) (acc : locals) : option locals :=
  match args with
  | (None, v) :: rest => match params with
                         | (x, _) :: ps => bind_go ps rest ((x, v) :: acc)
                         | [] => None
                         end
  | _ => bind_kw params args acc
  end.

Definition bind (fd : fdef) (args : list (option string * val)) : option locals :=
  if f_varargs fd then Some [] else bind_go (f_params fd) args [].

Fixpoint find_fn (f : string) (p : program) : option fdef :=
  match p with
  | [] => None
  | (g, d) :: r => if String.eqb f g then Some d else find_fn f r
  end.

(* ------------------------------------------------------------------ statements *)

Definition set_global (g : gcell) (v : val) (w : world) : option world :=
  match g, v with
  | GCfg, VNat n => Some (mkW n (w_numba w) (w_mgr w) (w_pyfftw w) (w_false w) (w_true w) (w_order w) (w_other w) (w_creations w))
  | GNumba, VNat n => Some (mkW (w_cfg w) n (w_mgr w) (w_pyfftw w) (w_false w) (w_true w) (w_order w) (w_other w) (w_creations w))
  | GPyfftw, VNat n => Some (mkW (w_cfg w) (w_numba w) (w_mgr w) n (w_false w) (w_true w) (w_order w) (w_other w) (w_creations w))
  | GMgr, VNone => Some (mkW (w_cfg w) (w_numba w) None (w_pyfftw w) (w_false w) (w_true w) (w_order w) (w_other w) (w_creations w))
  | GMgr, VMgr t => Some (mkW (w_cfg w) (w_numba w) (Some t) (w_pyfftw w) (w_false w) (w_true w) (w_order w) (w_other w) (w_creations w))
  | _, _ => None
  end.

Definition created (w : world) : world :=
  mkW (w_cfg w) (w_numba w) (w_mgr w) (w_pyfftw w) (w_false w) (w_true w) (w_order w) (w_other w) (S (w_creations w)).

Definition result := option (world * list event * ctl).

(* append of statement lists (a definition of its own, so that the bridge tactics can keep List.app folded) *)
Fixpoint sapp (a b : list stmt) : list stmt :=
  match a with
  | [] => b
  | s :: r => s :: sapp r b
  end.

(* what happens after a block: the world, the locals, the events so far, how the block ended *)
Definition kont := world -> locals -> list event -> ctl -> result.

Definition init_name := "FFTManager.__init__".

(* The interpreter is written in continuation-passing style with the events as an accumulator, and a conditional
   runs `branch ++ rest`: a test on a symbolic thread count then sits at the top of the term with fully evaluated
   branches, which keeps the symbolic executions of the bridge lemmas small.  (`a ++ r` is what Python does: a
   `return` / `raise` inside `a` ends the block.) *)
Fixpoint exec (fuel : nat) (p : program) (stop : option nat) (b : list stmt) (w : world) (l : locals)
              (evs : list event) (k : kont) {struct fuel} : result :=
  match fuel with
  | 0 => None
  | S f =>
    match b with
    | [] => k w l evs CNormal
    | s :: r =>
        match s with
        | SAssign x e => match eval w l e with Some v => exec f p stop r w ((x, v) :: l) evs k | None => None end
        | SSetGlobal g e => match eval w l e with
                            | Some v => match set_global g v w with Some w' => exec f p stop r w' l evs k | None => None end
                            | None => None
                            end
        | SSetSelfThreads e => match eval w l e with
                               | Some (VNat n) => exec f p stop r w (("self", VMgr n) :: l) evs k
                               | _ => None
                               end
        | SSetFunAttr x attr e =>
            match lget x l, eval w l e with
            | Some (VFun n q), Some (VStr s) =>
                if String.eqb attr "qualname" then exec f p stop r w ((x, VFun n s) :: l) evs k
                else if String.eqb attr "name" then exec f p stop r w ((x, VFun s q) :: l) evs k
                else None
            | _, _ => None
            end
        | SCompiledSet kx v =>
            match eval w l kx, eval w l v with
            | Some VOpaque, _ => None
            | Some kv, Some (VKernel ki) => exec f p stop r (dict_set kv ki w) l evs k
            | _, _ => None
            end
        | SIf c a b' =>
            match eval w l c with
            | Some v => match truthy v with
                        | Some true => exec f p stop (sapp a r) w l evs k
                        | Some false => exec f p stop (sapp b' r) w l evs k
                        | None => None
                        end
            | None => None
            end
        | SCall x callee args =>
            match eval_args w l args with
            | None => None
            | Some vs =>
              match callee with
              | CFun g =>
                  match find_fn g p with
                  | None => None
                  | Some fd =>
                    match bind fd vs with
                    | None => None
                    | Some l0 =>
                      exec f p stop (f_body fd) w l0 evs
                        (fun w' _ evs' c =>
                           match c with
                           | CNormal => exec f p stop r w' (lset x VNone l) evs' k
                           | CReturn v => exec f p stop r w' (lset x v l) evs' k
                           | CRaise i => k w' l evs' (CRaise i)
                           end)
                    end
                  end
              | CNew =>
                  match find_fn init_name p with
                  | None => None
                  | Some fd =>
                    match bind fd ((None, VOpaque) :: vs) with
                    | None => None
                    | Some l0 =>
                      exec f p stop (f_body fd) w l0 evs
                        (fun w' l' evs' c =>
                           match c with
                           | CNormal =>
                               match lget "self" l' with
                               | Some (VMgr n) => exec f p stop r (created w') (lset x (VMgr n) l) evs' k
                               | _ => None
                               end
                           | CReturn _ => None
                           | CRaise i => k w' l evs' (CRaise i)
                           end)
                    end
                  end
              | CMethod recv m =>
                  match eval w l recv with
                  | Some (VMgr t) =>
                    match find_fn ("FFTManager." ++ m) p with
                    | None => None
                    | Some fd =>
                      match bind fd ((None, VMgr t) :: vs) with
                      | None => None
                      | Some l0 =>
                        exec f p stop (f_body fd) w l0 evs
                          (fun w' _ evs' c =>
                             match c with
                             | CNormal => exec f p stop r w' (lset x VNone l) evs' k
                             | CReturn v => exec f p stop r w' (lset x v l) evs' k
                             | CRaise i => k w' l evs' (CRaise i)
                             end)
                      end
                    end
                  | _ => None
                  end
              end
            end
        | STransform x inv th =>
            match th with
            | None => exec f p stop r w (lset x VOpaque l) (evs ++ [EvT inv (w_pyfftw w)])%list k
            | Some e => match eval w l e with
                        | Some (VNat t) => exec f p stop r w (lset x VOpaque l) (evs ++ [EvT inv t])%list k
                        | _ => None
                        end
            end
        | SKernel x kx =>
            match eval w l kx with
            | Some (VKernel ki) => exec f p stop r w (lset x VOpaque l) (evs ++ [EvK (k_par ki) (w_numba w)])%list k
            | _ => None
            end
        | SExtern _ => exec f p stop r w l evs k
        | SRaisePoint i =>
            match stop with
            | Some j => if Nat.eqb i j then k w l evs (CRaise i) else exec f p stop r w l evs k
            | None => exec f p stop r w l evs k
            end
        | SReturn e => match eval w l e with Some v => k w l evs (CReturn v) | None => None end
        end
    end
  end.

Definition FUEL := 400.

(* a call of a translated function from outside: (world after, events, how it ended) *)
Definition call_fn (p : program) (stop : option nat) (f : string) (args : list (option string * val)) (w : world)
  : option (world * list event * ctl) :=
  match find_fn f p with
  | None => None
  | Some fd =>
    match bind fd args with
    | None => None
    | Some l0 =>
      exec FUEL p stop (f_body fd) w l0 [] (fun w' _ ev c => Some (w', ev, c))
    end
  end.

(* ------------------------------------------------------------------ what Model/Runtime.v expects *)

Definition kernel_events (k : option (bool * nat)) : list event :=
  match k with Some (pr, n) => [EvK pr n] | None => [] end.

(* the state-reading calls of a returning solve, in source order: the source transform is a forward one;
   footprint mode ends with two forward transforms, dispersion mode with two inverse ones (solver.py:295-302) *)
Definition usage_events (footprint : bool) (u : usage) : list event :=
  ((match u_pre u with Some t => [EvT false t] | None => [] end)
   ++ kernel_events (u_k1 u) ++ kernel_events (u_k2 u)
   ++ [EvT (negb footprint) (u_post_p u); EvT (negb footprint) (u_post_q u)])%list.

Definition call_events (footprint analytic : bool) (oc : outcome) (s : state) : list event :=
  match oc with
  | RaisesBefore => []
  | RaisesAfterSource => if footprint then [] else [EvT false (snd (call_fft s))]
  | RaisesAtEnd | Returns => usage_events footprint (snd (run_solve footprint analytic s))
  end.

(* reading a usage back off an event sequence *)
Definition usage_of_events (evs : list event) : option usage :=
  match evs with
  | [EvT _ a; EvT _ b] => Some (mkUsage None None None a b)
  | [EvT _ t; EvT _ a; EvT _ b] => Some (mkUsage (Some t) None None a b)
  | [EvK p1 n1; EvK p2 n2; EvT _ a; EvT _ b] => Some (mkUsage None (Some (p1, n1)) (Some (p2, n2)) a b)
  | [EvT _ t; EvK p1 n1; EvK p2 n2; EvT _ a; EvT _ b] => Some (mkUsage (Some t) (Some (p1, n1)) (Some (p2, n2)) a b)
  | _ => None
  end.

(* ------------------------------------------------------------------ ops of Model/Runtime.v, interpreted *)

Definition solver_name := "steady_state_transport_solver".

(* the arguments of a solve as far as the state handling can see them: footprint, analytic, cache=None
   (the disk cache is C15's subject); every other argument is numerical (opaque) or keeps its default *)
Definition entry_args (fd : fdef) (footprint analytic : bool) : list (option string * val) :=
  map (fun xd : string * option val =>
         let x := fst xd in
         (Some x,
          if String.eqb x "footprint" then VBool footprint
          else if String.eqb x "analytic" then VBool analytic
          else if String.eqb x "cache" then VNone
          else match snd xd with Some v => v | None => VOpaque end))
      (f_params fd).

Definition run_solver (p : program) (stop : option nat) (footprint analytic : bool) (w : world)
  : option (world * list event * ctl) :=
  match find_fn solver_name p with
  | None => None
  | Some fd => call_fn p stop solver_name (entry_args fd footprint analytic) w
  end.

(* Raise points are numbered by the translator in source order.  Which of them stands for which outcome of
   Model/Runtime.v is found by running the description once (dispersion mode, numerical branch, fresh world) with
   that raise point firing and counting the state-reading calls made before it: none = RaisesBefore, exactly the
   source transform = RaisesAfterSource.  (The bridge lemmas then prove the effect for ALL worlds and modes.) *)
Definition probe_world := mkW 1 1 None 1 None None [] [] 0.

Definition raise_events (p : program) (i : nat) : option (list event) :=
  match run_solver p (Some i) false false probe_world with
  | Some (_, ev, CRaise _) => Some ev
  | _ => None
  end.

Definition first_raise_with (p : program) (n : nat) (nev : nat) : nat :=
  match find (fun i => match raise_events p i with Some ev => Nat.eqb (List.length ev) nev | None => false end) (seq 0 n) with
  | Some i => i
  | None => n
  end.

(* which raise point stands for which outcome: ib = a raise point in front of every state access,
   ia = one between the source transform and the thread set-up *)
Definition stop_of (ib ia : nat) (oc : outcome) : option nat :=
  match oc with RaisesBefore => Some ib | RaisesAfterSource => Some ia | RaisesAtEnd | Returns => None end.

Section Ops.
Variable A : Type.
Variables src kout mid fld : Type.
Variable flat : A -> src.
Variable fft_src : nat -> A -> src.
Variable closed : A -> src -> mid.
Variable kernel : bool -> nat -> A -> src -> bool -> kout.
Variable combine : A -> src -> kout -> kout -> mid.
Variable fft_out : nat -> A -> mid -> bool -> fld.

(* one op of Model/Runtime.v executed on the description: the new world, the events, and the numerical result
   computed from the thread / variant arguments the description's events carry *)
Definition desc_step (p : program) (ib ia : nat) (o : op A) (w : world)
  : option (world * list event * option (fld * fld)) :=
  match o with
  | SetThreads _ n =>                    (* user code: bldfm.config.NUM_THREADS = n *)
      match set_global GCfg (VNat n) w with Some w' => Some (w', [], None) | None => None end
  | ResetMgr _ =>
      match call_fn p None "reset_fft_manager" [] w with
      | Some (w', ev, _) => Some (w', ev, None)
      | None => None
      end
  | Solve _ a =>
      match run_solver p (stop_of ib ia (s_outcome A a)) (s_footprint A a) (s_analytic A a) w with
      | Some (w', ev, c) =>
          match s_outcome A a, c with
          | Returns, CReturn _ =>
              match usage_of_events ev with
              | Some u => Some (w', ev, Some (solve_with A src kout mid fld flat fft_src closed kernel combine fft_out u a))
              | None => None
              end
          | RaisesAtEnd, CReturn _ => Some (w', ev, None)      (* z[levels] fails after both final transforms *)
          | RaisesBefore, CRaise _ | RaisesAfterSource, CRaise _ => Some (w', ev, None)
          | _, _ => None
          end
      | None => None
      end
  end.

Fixpoint desc_run (p : program) (ib ia : nat) (ops : list (op A)) (w : world)
  : option (world * list (option (fld * fld))) :=
  match ops with
  | [] => Some (w, [])
  | o :: r => match desc_step p ib ia o w with
              | Some (w1, _, out) => match desc_run p ib ia r w1 with
                                     | Some (w2, outs) => Some (w2, out :: outs)
                                     | None => None
                                     end
              | None => None
              end
  end.

End Ops.

(* ------------------------------------------------------------------ a fresh interpreter, from the module-level statements *)

Fixpoint assoc (x : string) (l : list (string * val)) : option val :=
  match l with
  | [] => None
  | (y, v) :: r => if String.eqb x y then Some v else assoc x r
  end.

(* config.py's NUM_THREADS, fft_manager.py's `_fft_manager = <value>`, the EMPTY dict parallelize creates per decorated
   function (the translator accepts `_compiled = {}` only); numba's and pyfftw's initial thread counts come from the
   environment *)
Definition init_world (config_globals fft_globals : list (string * val)) (compiled0 : list (val * kinfo))
                      (numba0 pyfftw0 : nat) : option world :=
  match compiled0 with
  | [] =>
    match assoc "NUM_THREADS" config_globals, assoc "_fft_manager" fft_globals with
    | Some (VNat n), Some VNone => Some (mkW n numba0 None pyfftw0 None None [] [] 0)
    | _, _ => None
    end
  | _ => None
  end.

(* the dispatcher the wrapper compiles for a flag, read off the description: run the wrapper from an empty dict *)
Definition compiled_for (p : program) (wrapper : string) (flag : bool) : option kinfo :=
  match call_fn p None wrapper [] (mkW (if flag then 2 else 1) 1 None 1 None None [] [] 0) with
  | Some (w', _, _) => dict_get (VBool flag) w'
  | None => None
  end.
