(* Model of the tower geolocation transforms, over Coq's reals.

   bldfm/config_parser.py
     _EARTH_RADIUS = 6_371_000.0
     def latlon_to_xy(lat, lon, ref_lat, ref_lon):
         lat_r = math.radians(lat); lon_r = math.radians(lon)
         ref_lat_r = math.radians(ref_lat); ref_lon_r = math.radians(ref_lon)
         x = _EARTH_RADIUS * (lon_r - ref_lon_r) * math.cos(ref_lat_r)
         y = _EARTH_RADIUS * (lat_r - ref_lat_r)
         return x, y
     TowerConfig.compute_local_xy(ref_lat, ref_lon): self.x, self.y = latlon_to_xy(self.lat, self.lon, ref_lat, ref_lon)
     BLDFMConfig.__post_init__: if ref_lat is not None and ref_lon is not None: for every tower compute_local_xy

   bldfm/plotting/_geo.py
     def xy_to_latlon(x, y, ref_lat, ref_lon):
         R = 6_371_000.0
         lats = ref_lat + np.degrees(y / R)
         lons = ref_lon + np.degrees(x / (R * np.cos(np.radians(ref_lat))))
         return lats, lons

   No proofs in this file. *)
From Coq Require Import Reals List.
Import ListNotations.
Open Scope R_scope.

Definition earth_radius : R := 6371000.
Definition radians (d : R) : R := d * PI / 180.
Definition degrees (r : R) : R := r * 180 / PI.

(* (x, y): easting, northing in metres *)
Definition latlon_to_xy (lat lon ref_lat ref_lon : R) : R * R :=
  (earth_radius * (radians lon - radians ref_lon) * cos (radians ref_lat),
   earth_radius * (radians lat - radians ref_lat)).

(* (lats, lons) in degrees *)
Definition xy_to_latlon (x y ref_lat ref_lon : R) : R * R :=
  (ref_lat + degrees (y / earth_radius),
   ref_lon + degrees (x / (earth_radius * cos (radians ref_lat)))).

(* --- configuration step: TowerConfig / BLDFMConfig.__post_init__ ------------------------- *)
Record tower := mkTower { t_lat : R; t_lon : R; t_x : R; t_y : R }.

(* _parse_tower leaves x = y = 0.0 (dataclass defaults) *)
Definition parse_tower (lat lon : R) : tower := mkTower lat lon 0 0.

Definition compute_local_xy (t : tower) (ref_lat ref_lon : R) : tower :=
  let p := latlon_to_xy (t_lat t) (t_lon t) ref_lat ref_lon in
  mkTower (t_lat t) (t_lon t) (fst p) (snd p).

Definition post_init (ref_lat ref_lon : option R) (towers : list tower) : list tower :=
  match ref_lat, ref_lon with
  | Some a, Some b => map (fun t => compute_local_xy t a b) towers
  | _, _ => towers
  end.

(* --- great-circle reference quantities (the property's yardstick, not code) --------------- *)
(* haversine of the central angle between (lat0, lon0) and (lat1, lon1), degrees in *)
Definition hav_arg (lat0 lon0 lat1 lon1 : R) : R :=
  Rsqr (sin ((radians lat1 - radians lat0) / 2))
  + cos (radians lat0) * cos (radians lat1) * Rsqr (sin ((radians lon1 - radians lon0) / 2)).

(* great-circle distance, haversine formula in its usual atan2 form:
   d = 2 R atan2 (sqrt a, sqrt (1 - a)),  a < 1 *)
Definition gc_distance (lat0 lon0 lat1 lon1 : R) : R :=
  let a := hav_arg lat0 lon0 lat1 lon1 in
  2 * earth_radius * atan (sqrt a / sqrt (1 - a)).

(* initial great-circle bearing as the direction of the vector (east, north) =
   (sin dlon cos lat1, cos lat0 sin lat1 - sin lat0 cos lat1 cos dlon)  [atan2 of the two] *)
Definition gc_bearing_vec (lat0 lon0 lat1 lon1 : R) : R * R :=
  let dl := radians lon1 - radians lon0 in
  (sin dl * cos (radians lat1),
   cos (radians lat0) * sin (radians lat1) - sin (radians lat0) * cos (radians lat1) * cos dl).

Definition local_distance (p : R * R) : R := sqrt (Rsqr (fst p) + Rsqr (snd p)).

(* cross and dot product of two (east, north) vectors: for v = r (sin b, cos b), w = s (sin c, cos c)
   cross v w = r s sin (b - c), dot v w = r s cos (b - c)  (GeoProofs.cross_dot_polar) *)
Definition cross2 (v w : R * R) : R := fst v * snd w - snd v * fst w.
Definition dot2 (v w : R * R) : R := fst v * fst w + snd v * snd w.
