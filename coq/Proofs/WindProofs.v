(* Lemmas about Model/Wind.v (C08). *)
From Coq Require Import Reals Lra.
From BL Require Import Model.Wind.
Open Scope R_scope.

Lemma speed_preserved : forall U wd : R,
  let p := compute_wind_fields U wd in
  fst p * fst p + snd p * snd p = U * U.
Proof.
  intros U wd. unfold compute_wind_fields. cbn [fst snd].
  pose proof (sin2_cos2 (deg2rad wd)) as H. unfold Rsqr in H.
  replace (- U * sin (deg2rad wd) * (- U * sin (deg2rad wd)) + - U * cos (deg2rad wd) * (- U * cos (deg2rad wd)))
    with (U * U * (sin (deg2rad wd) * sin (deg2rad wd) + cos (deg2rad wd) * cos (deg2rad wd))) by ring.
  rewrite H. ring.
Qed.

Lemma speed_norm : forall U wd : R, 0 <= U ->
  let p := compute_wind_fields U wd in
  sqrt (fst p * fst p + snd p * snd p) = U.
Proof.
  intros U wd HU p. unfold p. rewrite speed_preserved. apply sqrt_square. exact HU.
Qed.

Lemma d2r_0 : deg2rad 0 = 0.
Proof. unfold deg2rad. field. Qed.
Lemma d2r_90 : deg2rad 90 = PI / 2.
Proof. unfold deg2rad. field. Qed.
Lemma d2r_180 : deg2rad 180 = PI.
Proof. unfold deg2rad. field. Qed.
Lemma d2r_270 : deg2rad 270 = 3 * (PI / 2).
Proof. unfold deg2rad. field. Qed.
Lemma d2r_plus_360 : forall wd, deg2rad (wd + 360) = deg2rad wd + 2 * PI.
Proof. intros wd. unfold deg2rad. field. Qed.

Lemma cardinals : forall U : R,
  compute_wind_fields U 0 = (0, - U) /\
  compute_wind_fields U 90 = (- U, 0) /\
  compute_wind_fields U 180 = (0, U) /\
  compute_wind_fields U 270 = (U, 0).
Proof.
  intros U. unfold compute_wind_fields.
  rewrite d2r_0, d2r_90, d2r_180, d2r_270.
  rewrite sin_0, cos_0, sin_PI2, cos_PI2, sin_PI, cos_PI, sin_3PI2, cos_3PI2.
  split; [| split; [| split]]; f_equal; ring.
Qed.

Lemma upwind_vector : forall U wd : R, U <> 0 ->
  let p := compute_wind_fields U wd in
  (- fst p / U, - snd p / U) = (sin (deg2rad wd), cos (deg2rad wd)).
Proof.
  intros U wd HU. unfold compute_wind_fields. cbn [fst snd]. f_equal; field; exact HU.
Qed.

Lemma periodic : forall U wd : R,
  compute_wind_fields U (wd + 360) = compute_wind_fields U wd.
Proof.
  intros U wd. unfold compute_wind_fields. rewrite d2r_plus_360.
  rewrite sin_plus, cos_plus, sin_2PI, cos_2PI. f_equal; ring.
Qed.

(* two angles in [0, 2 PI) with the same (sin, cos) are equal *)
Lemma angle_unique : forall a b : R,
  0 <= a < 2 * PI -> 0 <= b < 2 * PI ->
  sin a = sin b -> cos a = cos b -> a = b.
Proof.
  assert (W : forall a b, 0 <= a < 2 * PI -> 0 <= b < 2 * PI -> b <= a ->
              sin a = sin b -> cos a = cos b -> a = b).
  { intros a b Ha Hb Hle Hs Hc.
    assert (Hsd : sin (a - b) = 0).
    { rewrite sin_minus, Hs, Hc. ring. }
    assert (Hcd : cos (a - b) = 1).
    { rewrite cos_minus, Hs, Hc. pose proof (sin2_cos2 b) as H. unfold Rsqr in H. lra. }
    destruct (sin_eq_O_2PI_0 (a - b)) as [H0 | [H1 | H2]]; try lra.
    rewrite H1, cos_PI in Hcd. lra. }
  intros a b Ha Hb Hs Hc.
  destruct (Rle_or_lt b a) as [Hle | Hlt].
  - apply W; assumption.
  - symmetry. apply W; try assumption; try lra; symmetry; assumption.
Qed.

(* the upwind direction -(u,v) has exactly one compass bearing in [0, 360): wind_dir *)
Lemma bearing_unique : forall U wd th r : R,
  0 < U -> 0 <= wd < 360 -> 0 <= th < 360 -> 0 < r ->
  let p := compute_wind_fields U wd in
  (- fst p, - snd p) = (r * sin (deg2rad th), r * cos (deg2rad th)) ->
  th = wd.
Proof.
  intros U wd th r HU Hwd Hth Hr. unfold compute_wind_fields. cbn [fst snd]. intros E.
  injection E as Ex Ey.
  set (a := deg2rad wd) in *. set (b := deg2rad th) in *.
  assert (Hr2 : r * r = U * U).
  { pose proof (sin2_cos2 a) as Ha. pose proof (sin2_cos2 b) as Hb. unfold Rsqr in Ha, Hb.
    replace (r * r) with ((r * sin b) * (r * sin b) + (r * cos b) * (r * cos b)) by (transitivity (r * r * (sin b * sin b + cos b * cos b)); [ring | rewrite Hb; ring]).
    rewrite <- Ex, <- Ey.
    transitivity (U * U * (sin a * sin a + cos a * cos a)); [ring | rewrite Ha; ring]. }
  assert (HrU : r = U).
  { assert (H0 : (r - U) * (r + U) = 0) by (ring_simplify; lra).
    apply Rmult_integral in H0. destruct H0 as [H0 | H0]; lra. }
  subst r.
  assert (Hs : sin b = sin a) by (apply Rmult_eq_reg_l with U; lra).
  assert (Hc : cos b = cos a) by (apply Rmult_eq_reg_l with U; lra).
  assert (Hab : b = a).
  { apply angle_unique; try assumption; unfold a, b, deg2rad; pose proof PI_RGT_0; split; try lra.
    - apply Rmult_le_pos; [apply Rmult_le_pos|]; lra.
    - apply Rmult_lt_reg_r with (180 / PI); [apply Rdiv_lt_0_compat; lra|]. field_simplify; lra.
    - apply Rmult_le_pos; [apply Rmult_le_pos|]; lra.
    - apply Rmult_lt_reg_r with (180 / PI); [apply Rdiv_lt_0_compat; lra|]. field_simplify; lra. }
  unfold a, b, deg2rad in Hab. pose proof PI_RGT_0.
  apply Rmult_eq_reg_r with (PI / 180); [lra | lra].
Qed.

(* existence: wind_dir itself is such a bearing, with r = U *)
Lemma bearing_exists : forall U wd : R,
  let p := compute_wind_fields U wd in
  (- fst p, - snd p) = (U * sin (deg2rad wd), U * cos (deg2rad wd)).
Proof. intros U wd. unfold compute_wind_fields. cbn [fst snd]. f_equal; ring. Qed.
