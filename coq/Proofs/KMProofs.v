(* Lemmas about Model/KM.v for property C19 (Kormann-Meixner reference = published closed form). *)
From Coq Require Import Reals Lra Lia List ZArith Bool.
From BL Require Import Model.KM.
Import ListNotations.
Open Scope R_scope.


(* ===== branches, positivity, sign/zero/symmetry ===== *)

(* ---------- branch lemmas *)
Lemma phiM_unstable zm L : L < 0 -> phiM zm L = Rpower (1 - 16 * zm / L) (- (1 / 4)).
Proof. intros H. unfold phiM. destruct (Rlt_dec L 0); [reflexivity | lra]. Qed.
Lemma phiM_stable zm L : 0 <= L -> phiM zm L = 1 + 5 * zm / L.
Proof. intros H. unfold phiM. destruct (Rlt_dec L 0); [lra | reflexivity]. Qed.
Lemma phiC_unstable zm L : L < 0 -> phiC zm L = Rpower (1 - 16 * zm / L) (- (1 / 2)).
Proof. intros H. unfold phiC. destruct (Rlt_dec L 0); [reflexivity | lra]. Qed.
Lemma phiC_stable zm L : 0 <= L -> phiC zm L = 1 + 5 * zm / L.
Proof. intros H. unfold phiC. destruct (Rlt_dec L 0); [lra | reflexivity]. Qed.
Lemma psiM_unstable zm L : L < 0 -> psiM zm L =
  - 2 * ln (1 / 2 * (1 + zeta zm L)) - ln (1 / 2 * (1 + zeta zm L * zeta zm L)) + 2 * atan (zeta zm L) - PI * (1 / 2).
Proof. intros H. unfold psiM. destruct (Rlt_dec L 0); [reflexivity | lra]. Qed.
Lemma psiM_stable zm L : 0 <= L -> psiM zm L = 5 * zm / L.
Proof. intros H. unfold psiM. destruct (Rlt_dec L 0); [lra | reflexivity]. Qed.
Lemma nParam_unstable zm L : L < 0 -> nParam zm L = (1 - 24 * zm / L) / (1 - 16 * zm / L).
Proof. intros H. unfold nParam. destruct (Rlt_dec L 0); [reflexivity | lra]. Qed.
Lemma nParam_stable zm L : 0 <= L -> nParam zm L = 1 / (1 + 5 * zm / L).
Proof. intros H. unfold nParam. destruct (Rlt_dec L 0); [lra | reflexivity]. Qed.

(* ---------- positivity of the chain on physically consistent inputs *)
Lemma Rpower_pos x y : 0 < Rpower x y.
Proof. unfold Rpower. apply exp_pos. Qed.

Lemma div_neg_pos a L : 0 < a -> L < 0 -> a / L < 0.
Proof. intros Ha HL. unfold Rdiv. assert (/ L < 0) by (apply Rinv_lt_0_compat; exact HL). nra. Qed.
Lemma div_pos_pos a L : 0 < a -> 0 < L -> 0 < a / L.
Proof. intros Ha HL. apply Rdiv_lt_0_compat; assumption. Qed.

Lemma phiM_pos zm L : 0 < zm -> L <> 0 -> 0 < phiM zm L.
Proof.
  intros Hz HL. unfold phiM. destruct (Rlt_dec L 0) as [Hn|Hn]; [apply Rpower_pos|].
  assert (0 < L) by lra. assert (0 < zm / L) by (apply div_pos_pos; assumption).
  unfold Rdiv in *. nra.
Qed.
Lemma phiC_pos zm L : 0 < zm -> L <> 0 -> 0 < phiC zm L.
Proof.
  intros Hz HL. unfold phiC. destruct (Rlt_dec L 0) as [Hn|Hn]; [apply Rpower_pos|].
  assert (0 < L) by lra. assert (0 < zm / L) by (apply div_pos_pos; assumption).
  unfold Rdiv in *. nra.
Qed.

(* 0 < n < 3/2 *)
Lemma nParam_bounds zm L : 0 < zm -> L <> 0 -> 0 < nParam zm L < 3 / 2.
Proof.
  intros Hz HL. unfold nParam. destruct (Rlt_dec L 0) as [Hn|Hn].
  - assert (Ha : zm / L < 0) by (apply div_neg_pos; assumption).
    replace (24 * zm / L) with (24 * (zm / L)) by (unfold Rdiv; ring).
    replace (16 * zm / L) with (16 * (zm / L)) by (unfold Rdiv; ring).
    set (a := zm / L) in *.
    assert (Hd : 0 < 1 - 16 * a) by lra.
    split.
    + apply Rdiv_lt_0_compat; lra.
    + apply Rmult_lt_reg_r with (1 - 16 * a); [exact Hd|].
      unfold Rdiv. rewrite Rmult_assoc, Rinv_l by lra. lra.
  - assert (0 < L) by lra. assert (Ha : 0 < zm / L) by (apply div_pos_pos; assumption).
    replace (5 * zm / L) with (5 * (zm / L)) by (unfold Rdiv; ring).
    set (a := zm / L) in *.
    assert (Hd : 0 < 1 + 5 * a) by lra.
    split.
    + apply Rdiv_lt_0_compat; lra.
    + apply Rmult_lt_reg_r with (1 + 5 * a); [exact Hd|].
      unfold Rdiv. rewrite Rmult_assoc, Rinv_l by lra. lra.
Qed.

Definition physical (p : kmpar) : Prop :=
  0 < p_zm p /\ 0 < p_ws p /\ 0 < p_ustar p /\ 0 < p_sv p /\ p_L p <> 0.

Lemma m_pos p : physical p -> 0 < m_of p.
Proof.
  intros (Hz & Hw & Hu & Hs & HL). unfold m_of, mParam, vk.
  apply Rdiv_lt_0_compat; [|lra].
  apply Rmult_lt_0_compat; [exact Hu | apply phiM_pos; assumption].
Qed.
Lemma n_bounds p : physical p -> 0 < n_of p < 3 / 2.
Proof. intros (Hz & Hw & Hu & Hs & HL). apply nParam_bounds; assumption. Qed.
Lemma r_pos p : physical p -> 0 < r_of p.
Proof. intros H. pose proof (m_pos p H). pose proof (n_bounds p H). unfold r_of, rshape. lra. Qed.
Lemma mu_pos p : physical p -> 0 < mu_of p.
Proof. intros H. pose proof (m_pos p H). pose proof (r_pos p H). unfold mu_of, muc. apply Rdiv_lt_0_compat; lra. Qed.
Lemma invr_pos p : physical p -> 0 < 1 / r_of p.
Proof. intros H. pose proof (r_pos p H). apply Rdiv_lt_0_compat; lra. Qed.
Lemma kappa_pos p : physical p -> 0 < kappa_of p.
Proof.
  intros H. destruct H as (Hz & Hw & Hu & Hs & HL). unfold kappa_of, kappa, vk.
  apply Rdiv_lt_0_compat.
  - apply Rmult_lt_0_compat; [|exact Hu]. lra.
  - apply Rmult_lt_0_compat; [apply phiC_pos; assumption | apply Rpower_pos].
Qed.
Lemma Xi_pos p : physical p -> 0 < U_of p -> 0 < Xi_of p.
Proof.
  intros H HU. pose proof (r_pos p H) as Hr. pose proof (kappa_pos p H) as Hk.
  unfold Xi_of, Xic. apply Rdiv_lt_0_compat.
  - apply Rmult_lt_0_compat; [exact HU | apply Rpower_pos].
  - apply Rmult_lt_0_compat; [|exact Hk]. apply Rmult_lt_0_compat; exact Hr.
Qed.

Section G.
Variable Gamma : R -> R.
Hypothesis Gamma_pos : forall x, 0 < x -> 0 < Gamma x.

Lemma A_nonneg p : physical p -> 0 <= U_of p -> 0 <= A_of Gamma p.
Proof.
  intros H HU. pose proof (invr_pos p H) as Hr. pose proof (Gamma_pos _ Hr) as Hg.
  destruct H as (Hz & Hw & Hu & Hs & HL).
  unfold A_of, A_of_g, Acoef_g.
  apply Rmult_le_pos; [| left; apply Rpower_pos].
  unfold Rdiv. apply Rmult_le_pos; [exact HU|]. left. apply Rinv_0_lt_compat. apply Rmult_lt_0_compat; assumption.
Qed.
Lemma A_pos p : physical p -> 0 < U_of p -> 0 < A_of Gamma p.
Proof.
  intros H HU. pose proof (invr_pos p H) as Hr. pose proof (Gamma_pos _ Hr) as Hg.
  destruct H as (Hz & Hw & Hu & Hs & HL).
  unfold A_of, A_of_g, Acoef_g.
  apply Rmult_lt_0_compat; [| apply Rpower_pos].
  apply Rdiv_lt_0_compat; [exact HU|]. apply Rmult_lt_0_compat; assumption.
Qed.

Lemma sqrt2pi_pos : 0 < sqrt (2 * PI).
Proof. apply sqrt_lt_R0. pose proof PI_RGT_0. lra. Qed.
Lemma num_pos p : 0 < num_of p.
Proof. unfold num_of, numc. apply Rmult_lt_0_compat; [|apply Rpower_pos]. apply Rdiv_lt_0_compat; [lra | apply sqrt2pi_pos]. Qed.

(* ---------- sign, zero, symmetry *)
Lemma cell_nonneg p res x y : physical p -> 0 <= cell Gamma p res x y.
Proof.
  intros H. unfold cell, cell_g. destruct (Rlt_dec (U_of p) 0) as [HU|HU]; [lra|].
  unfold cell_expr. destruct (Rlt_dec 0 x) as [Hx|Hx]; [|lra].
  assert (HA : 0 <= A_of Gamma p) by (apply A_nonneg; [exact H | lra]).
  fold (A_of Gamma p).
  pose proof (num_pos p) as Hn.
  apply Rmult_le_pos; [| left; apply exp_pos].
  apply Rmult_le_pos; [| left; apply Rpower_pos].
  apply Rmult_le_pos; [| exact HA].
  apply Rmult_le_pos; [| lra]. nra.
Qed.

Lemma cell_downwind_zero p res x y : x <= 0 -> cell Gamma p res x y = 0.
Proof.
  intros Hx. unfold cell, cell_g. destruct (Rlt_dec (U_of p) 0); [reflexivity|].
  unfold cell_expr. destruct (Rlt_dec 0 x); [lra | reflexivity].
Qed.

Lemma cell_cross_symmetric p res x y : cell Gamma p res x (- y) = cell Gamma p res x y.
Proof.
  unfold cell, cell_g. destruct (Rlt_dec (U_of p) 0); [reflexivity|].
  unfold cell_expr. destruct (Rlt_dec 0 x); [|reflexivity].
  f_equal. f_equal. f_equal. ring.
Qed.

Lemma cell_upwind_pos p res x y : physical p -> 0 < U_of p -> res <> 0 -> 0 < x -> 0 < cell Gamma p res x y.
Proof.
  intros H HU Hres Hx. unfold cell, cell_g. destruct (Rlt_dec (U_of p) 0) as [HU'|HU']; [lra|].
  unfold cell_expr. destruct (Rlt_dec 0 x) as [Hx'|Hx']; [|lra].
  pose proof (A_pos p H HU) as HA. fold (A_of Gamma p). pose proof (num_pos p) as Hn.
  apply Rmult_lt_0_compat; [| apply exp_pos].
  apply Rmult_lt_0_compat; [| apply Rpower_pos].
  apply Rmult_lt_0_compat; [| exact HA].
  apply Rmult_lt_0_compat; [| exact Hn]. nra.
Qed.
End G.


(* ===== closed form ===== *)

Lemma Rpower_minus1 x e : 0 < x -> Rpower x (e - 1) = Rpower x e / x.
Proof.
  intros Hx. unfold Rminus. rewrite Rpower_plus, Rpower_Ropp, Rpower_1 by exact Hx. reflexivity.
Qed.

Lemma closed_form_alg res G1 G2 U r kap m sv Xi mu x y :
  0 < G1 -> 0 < G2 -> 0 < U -> 0 < sv -> 0 < x ->
  cell_expr res (numc Xi mu) (Acoef_g G2 U r sv kap (m / r)) x y (m / r) mu Xi G1
  = res * res * (/ G1 * Rpower Xi mu / Rpower x (1 + mu) * exp (- Xi / x))
    * Dy (sigma_y sv (G1 / G2 * Rpower (r * r * kap / U) (m / r) * U * Rpower x (m / r)) x) y.
Proof.
  intros HG1 HG2 HU Hsv Hx.
  unfold cell_expr. destruct (Rlt_dec 0 x) as [_|F]; [|lra].
  unfold numc, Acoef_g, Dy, sigma_y.
  replace (r * r * kap / U) with (kap * (r * r) / U) by (unfold Rdiv; ring).
  replace (m / r - 2 - mu) with ((m / r - 1) + - (1 + mu)) by ring.
  rewrite Rpower_plus, Rpower_Ropp, Rpower_minus1 by exact Hx.
  pose proof (Rpower_pos (kap * (r * r) / U) (m / r)) as HP.
  pose proof (Rpower_pos x (m / r)) as Ha.
  pose proof (Rpower_pos x (1 + mu)) as Hb.
  pose proof (Rpower_pos Xi mu) as HX.
  pose proof sqrt2pi_pos as Hs.
  set (P := Rpower (kap * (r * r) / U) (m / r)) in *.
  set (a := Rpower x (m / r)) in *.
  set (b := Rpower x (1 + mu)) in *.
  set (XM := Rpower Xi mu) in *.
  set (s := sqrt (2 * PI)) in *.
  set (sig := sv * x / (G1 / G2 * P * U * a)).
  assert (Hsig : sig = x * G2 * sv / (G1 * P * U * a)).
  { unfold sig. field. repeat split; lra. }
  replace (res * res * (/ G1 * XM / b * exp (- Xi / x)) * (/ (s * sig) * exp (- (y * y) / (2 * (sig * sig)))))
    with (res * res * (/ G1 * XM / b) * / (s * sig) * (exp (- Xi / x) * exp (- (y * y) / (2 * (sig * sig))))) by ring.
  rewrite <- exp_plus.
  f_equal.
  - rewrite Hsig. field. repeat split; lra.
  - f_equal. rewrite Hsig. field. repeat split; lra.
Qed.

Section G.
Variable Gamma : R -> R.
Hypothesis Gamma_pos : forall x, 0 < x -> 0 < Gamma x.

Lemma closed_form p res x y : physical p -> 0 < U_of p -> 0 < x ->
  cell Gamma p res x y = paper Gamma p res x y.
Proof.
  intros H HU Hx.
  pose proof (Gamma_pos _ (mu_pos p H)) as HG1.
  pose proof (Gamma_pos _ (invr_pos p H)) as HG2.
  destruct H as (Hz & Hw & Hu & Hs & HL).
  unfold cell, cell_g. destruct (Rlt_dec (U_of p) 0) as [F|_]; [lra|].
  unfold paper, fy, ubar, num_of, A_of_g, mr_of, mrc.
  apply closed_form_alg; assumption.
Qed.
End G.


(* ===== rotation ===== *)

Lemma sqrt_fact x y : x <> 0 -> sqrt (x * x + y * y) = Rabs x * sqrt (1 + (y / x)²).
Proof.
  intros Hx.
  replace (x * x + y * y) with ((x * x) * (1 + (y / x)²)) by (unfold Rsqr; field; exact Hx).
  rewrite sqrt_mult.
  - f_equal. replace (x * x) with (x²) by reflexivity. apply sqrt_Rsqr_abs.
  - nra.
  - pose proof (Rle_0_sqr (y / x)). lra.
Qed.

Lemma sqrt1t_pos t : 0 < sqrt (1 + t²).
Proof. apply sqrt_lt_R0. pose proof (Rle_0_sqr t). lra. Qed.

Lemma polar_cos x y : sqrt (x * x + y * y) * cos (atan2 y x) = x.
Proof.
  unfold atan2.
  destruct (Rlt_dec 0 x) as [Hx|Hx].
  - rewrite sqrt_fact by lra. rewrite cos_atan, Rabs_pos_eq by lra.
    pose proof (sqrt1t_pos (y / x)). field. lra.
  - destruct (Rlt_dec x 0) as [Hx'|Hx'].
    + rewrite sqrt_fact by lra. rewrite Rabs_left by lra.
      pose proof (sqrt1t_pos (y / x)) as Hs.
      destruct (Rle_dec 0 y) as [Hy|Hy].
      * rewrite cos_plus, cos_PI, sin_PI, cos_atan. field. lra.
      * rewrite cos_minus, cos_PI, sin_PI, cos_atan. field. lra.
    + assert (x = 0) by lra. subst x.
      destruct (Rlt_dec 0 y); [rewrite cos_PI2; ring|].
      destruct (Rlt_dec y 0); [rewrite cos_neg, cos_PI2; ring|].
      assert (y = 0) by lra. subst y. replace (0 * 0 + 0 * 0) with 0 by ring. rewrite sqrt_0. ring.
Qed.

Lemma polar_sin x y : sqrt (x * x + y * y) * sin (atan2 y x) = y.
Proof.
  unfold atan2.
  destruct (Rlt_dec 0 x) as [Hx|Hx].
  - rewrite sqrt_fact by lra. rewrite sin_atan, Rabs_pos_eq by lra.
    pose proof (sqrt1t_pos (y / x)). field. split; lra.
  - destruct (Rlt_dec x 0) as [Hx'|Hx'].
    + rewrite sqrt_fact by lra. rewrite Rabs_left by lra.
      pose proof (sqrt1t_pos (y / x)) as Hs.
      destruct (Rle_dec 0 y) as [Hy|Hy].
      * rewrite sin_plus, cos_PI, sin_PI, sin_atan. field. split; lra.
      * rewrite sin_minus, cos_PI, sin_PI, sin_atan. field. split; lra.
    + assert (x = 0) by lra. subst x.
      destruct (Rlt_dec 0 y) as [Hy|Hy].
      { rewrite sin_PI2. replace (0 * 0 + y * y) with (y²) by (unfold Rsqr; ring). rewrite sqrt_Rsqr by lra. ring. }
      destruct (Rlt_dec y 0) as [Hy'|Hy'].
      { rewrite sin_neg, sin_PI2. replace (0 * 0 + y * y) with ((- y)²) by (unfold Rsqr; ring). rewrite sqrt_Rsqr by lra. ring. }
      assert (y = 0) by lra. subst y. replace (0 * 0 + 0 * 0) with 0 by ring. rewrite sqrt_0. ring.
Qed.

Definition rad (d : R) : R := d * PI / 180.

(* the polar re-parametrisation is the rotation matrix by wd - 90 deg *)
Lemma rot_x_matrix gx gy mx my wd :
  rot_x gx gy mx my wd = (gx - mx) * sin (rad wd) + (gy - my) * cos (rad wd).
Proof.
  unfold rot_x, rad. set (x0 := gx - mx). set (y0 := gy - my). set (w := wd * PI / 180).
  replace (atan2 y0 x0 + w - PI * (1 / 2)) with (atan2 y0 x0 + (w - PI / 2)) by field.
  rewrite cos_plus, cos_minus, sin_minus, cos_PI2, sin_PI2.
  pose proof (polar_cos x0 y0) as Hc. pose proof (polar_sin x0 y0) as Hs.
  set (rho := sqrt (x0 * x0 + y0 * y0)) in *.
  replace (rho * (cos (atan2 y0 x0) * (cos w * 0 + sin w * 1) - sin (atan2 y0 x0) * (sin w * 0 - cos w * 1)))
    with ((rho * cos (atan2 y0 x0)) * sin w + (rho * sin (atan2 y0 x0)) * cos w) by ring.
  rewrite Hc, Hs. reflexivity.
Qed.

Lemma rot_y_matrix gx gy mx my wd :
  rot_y gx gy mx my wd = - (gx - mx) * cos (rad wd) + (gy - my) * sin (rad wd).
Proof.
  unfold rot_y, rad. set (x0 := gx - mx). set (y0 := gy - my). set (w := wd * PI / 180).
  replace (atan2 y0 x0 + w - PI * (1 / 2)) with (atan2 y0 x0 + (w - PI / 2)) by field.
  rewrite sin_plus, cos_minus, sin_minus, cos_PI2, sin_PI2.
  pose proof (polar_cos x0 y0) as Hc. pose proof (polar_sin x0 y0) as Hs.
  set (rho := sqrt (x0 * x0 + y0 * y0)) in *.
  replace (rho * (sin (atan2 y0 x0) * (cos w * 0 + sin w * 1) + cos (atan2 y0 x0) * (sin w * 0 - cos w * 1)))
    with ((rho * sin (atan2 y0 x0)) * sin w - (rho * cos (atan2 y0 x0)) * cos w) by ring.
  rewrite Hc, Hs. ring.
Qed.

Lemma rad_plus a b : rad (a + b) = rad a + rad b.
Proof. unfold rad. field. Qed.

(* rotating the wind direction by d degrees: the value at a cell for wd + d is the value for wd at the
   cell rotated counter-clockwise by d about the receptor, i.e. the pattern turns clockwise with the wind *)
Definition turn_x (mx my d gx gy : R) : R := mx + ((gx - mx) * cos (rad d) - (gy - my) * sin (rad d)).
Definition turn_y (mx my d gx gy : R) : R := my + ((gx - mx) * sin (rad d) + (gy - my) * cos (rad d)).

Lemma rot_x_turn gx gy mx my wd d :
  rot_x gx gy mx my (wd + d) = rot_x (turn_x mx my d gx gy) (turn_y mx my d gx gy) mx my wd.
Proof.
  rewrite !rot_x_matrix, rad_plus, sin_plus, cos_plus. unfold turn_x, turn_y. ring.
Qed.
Lemma rot_y_turn gx gy mx my wd d :
  rot_y gx gy mx my (wd + d) = rot_y (turn_x mx my d gx gy) (turn_y mx my d gx gy) mx my wd.
Proof.
  rewrite !rot_y_matrix, rad_plus, sin_plus, cos_plus. unfold turn_x, turn_y. ring.
Qed.

Lemma rad_90 : rad 90 = PI / 2.
Proof. unfold rad. field. Qed.
Lemma rad_0 : rad 0 = 0.
Proof. unfold rad. field. Qed.
Lemma rad_180 : rad 180 = PI.
Proof. unfold rad. field. Qed.
Lemma rad_270 : rad 270 = 3 * (PI / 2).
Proof. unfold rad. field. Qed.
Lemma rad_360 : rad 360 = 2 * PI.
Proof. unfold rad. field. Qed.

Lemma turn_90 mx my gx gy : turn_x mx my 90 gx gy = mx - (gy - my) /\ turn_y mx my 90 gx gy = my + (gx - mx).
Proof. unfold turn_x, turn_y. rewrite rad_90, cos_PI2, sin_PI2. split; ring. Qed.

(* the four cardinal directions, exactly *)
Lemma rot_0 gx gy mx my : rot_x gx gy mx my 0 = gy - my /\ rot_y gx gy mx my 0 = - (gx - mx).
Proof. rewrite rot_x_matrix, rot_y_matrix, rad_0, sin_0, cos_0. split; ring. Qed.
Lemma rot_90 gx gy mx my : rot_x gx gy mx my 90 = gx - mx /\ rot_y gx gy mx my 90 = gy - my.
Proof. rewrite rot_x_matrix, rot_y_matrix, rad_90, sin_PI2, cos_PI2. split; ring. Qed.
Lemma rot_180 gx gy mx my : rot_x gx gy mx my 180 = - (gy - my) /\ rot_y gx gy mx my 180 = gx - mx.
Proof. rewrite rot_x_matrix, rot_y_matrix, rad_180, sin_PI, cos_PI. split; ring. Qed.
Lemma rot_270 gx gy mx my : rot_x gx gy mx my 270 = - (gx - mx) /\ rot_y gx gy mx my 270 = - (gy - my).
Proof. rewrite rot_x_matrix, rot_y_matrix, rad_270, sin_3PI2, cos_3PI2. split; ring. Qed.
Lemma rot_period gx gy mx my wd : rot_x gx gy mx my (wd + 360) = rot_x gx gy mx my wd /\ rot_y gx gy mx my (wd + 360) = rot_y gx gy mx my wd.
Proof. rewrite !rot_x_matrix, !rot_y_matrix, rad_plus, rad_360, sin_plus, cos_plus, sin_2PI, cos_2PI. split; ring. Qed.

Section G.
Variable Gamma : R -> R.

Lemma cell_wd_rotation p res mx my wd d gx gy :
  cell_wd Gamma p res mx my (wd + d) gx gy
  = cell_wd Gamma p res mx my wd (turn_x mx my d gx gy) (turn_y mx my d gx gy).
Proof. unfold cell_wd. rewrite rot_x_turn, rot_y_turn. reflexivity. Qed.

Lemma cell_wd_90_is_aligned p res mx my gx gy :
  cell_wd Gamma p res mx my 90 gx gy = cell_aligned Gamma p res mx my gx gy.
Proof. unfold cell_wd, cell_aligned, al_x, al_y. destruct (rot_90 gx gy mx my) as [-> ->]. reflexivity. Qed.

Lemma cell_wd_period p res mx my wd gx gy :
  cell_wd Gamma p res mx my (wd + 360) gx gy = cell_wd Gamma p res mx my wd gx gy.
Proof. unfold cell_wd. destruct (rot_period gx gy mx my wd) as [-> ->]. reflexivity. Qed.

(* on a square n x n grid centred on the receptor: F_{wd+90}[i][j] = F_wd[n-1-j][i]  (np.rot90(F_wd, -1)) *)
Lemma cell_wd_grid90 p res mx my wd (n i j : nat) :
  (i < n)%nat -> (j < n)%nat ->
  let h := INR n * res / 2 in
  cell_wd Gamma p res mx my (wd + 90) (grid_xc (mx - h) res j) (grid_yc (my + h) res i)
  = cell_wd Gamma p res mx my wd (grid_xc (mx - h) res i) (grid_yc (my + h) res (n - 1 - j)).
Proof.
  intros Hi Hj h. rewrite cell_wd_rotation.
  destruct (turn_90 mx my (grid_xc (mx - h) res j) (grid_yc (my + h) res i)) as [-> ->].
  f_equal.
  - unfold grid_xc, grid_yc. ring.
  - unfold grid_xc, grid_yc, h. rewrite !minus_INR by lia. simpl INR. field.
Qed.
End G.


(* ===== z0, smoothing window, integer path ===== *)

(* ---------- z0 inverts the diabatic log law (sign convention of the code: + psi_m) *)
Lemma z0_inverts_loglaw zm L ws ustar : 0 < zm -> ustar <> 0 ->
  ustar / vk * (ln (zm / z0raw zm L ws ustar) + psiM zm L) = ws.
Proof.
  intros Hz Hu. unfold z0raw.
  replace (zm / (zm * exp (psiM zm L - vk * ws / ustar))) with (/ exp (psiM zm L - vk * ws / ustar)).
  2:{ field. split; [apply Rgt_not_eq, exp_pos | lra]. }
  rewrite ln_Rinv by apply exp_pos. rewrite ln_exp. unfold vk. field. exact Hu.
Qed.

(* the same in the form estimateFootprint uses: u(zm) = U zm^m *)
Lemma z0_feeds_U zm L ws ustar m : 0 < zm -> ustar <> 0 ->
  Ucoef ustar zm (z0raw zm L ws ustar) (psiM zm L) m * Rpower zm m = ws.
Proof.
  intros Hz Hu. unfold Ucoef. pose proof (Rpower_pos zm m) as Hp.
  rewrite <- (z0_inverts_loglaw zm L ws ustar Hz Hu) at 2. unfold vk. field. lra.
Qed.

Lemma z0raw_pos zm L ws ustar : 0 < zm -> 0 < z0raw zm L ws ustar.
Proof. intros Hz. unfold z0raw. apply Rmult_lt_0_compat; [exact Hz | apply exp_pos]. Qed.

(* ---------- the smoothing window is circular for half windows up to 89 degrees *)
Lemma IZR_cases3 j : -450 < 360 * IZR j < 450 -> j = (-1)%Z \/ j = 0%Z \/ j = 1%Z.
Proof.
  intros [H1 H2].
  assert (-2 < IZR j) by lra. assert (IZR j < 2) by lra.
  apply lt_IZR in H. apply lt_IZR in H0. lia.
Qed.

Ltac decw := repeat match goal with
  | |- context [Rle_dec ?a ?b] => destruct (Rle_dec a b)
  | |- context [Rlt_dec ?a ?b] => destruct (Rlt_dec a b)
  | H : context [Rle_dec ?a ?b] |- _ => destruct (Rle_dec a b)
  | H : context [Rlt_dec ?a ?b] |- _ => destruct (Rlt_dec a b)
  end.

Lemma window_circular kk w wd : 0 <= kk < 360 -> 0 <= wd < 360 -> 0 <= w <= 89 ->
  in_window kk w wd = true <-> exists j : Z, kk - w <= wd + 360 * IZR j < kk + 1 + w.
Proof.
  intros Hk Hd Hw. split.
  - intros H. unfold in_window, wrapped in H. decw; try discriminate.
    + exists (-1)%Z. lra.
    + exists 0%Z. lra.
    + exists 1%Z. lra.
    + exists 0%Z. lra.
    + exists 0%Z. lra.
  - intros [j Hj]. assert (Hc : -450 < 360 * IZR j < 450) by lra.
    destruct (IZR_cases3 j Hc) as [-> | [-> | ->]]; unfold in_window, wrapped; decw; try reflexivity; exfalso; lra.
Qed.

(* membership depends only on wd - kk modulo 360 *)
Lemma window_shift kk w wd kk' wd' (j : Z) :
  0 <= kk < 360 -> 0 <= wd < 360 -> 0 <= kk' < 360 -> 0 <= wd' < 360 -> 0 <= w <= 89 ->
  wd' - kk' = wd - kk + 360 * IZR j ->
  in_window kk' w wd' = in_window kk w wd.
Proof.
  intros Hk Hd Hk' Hd' Hw He.
  destruct (in_window kk w wd) eqn:E.
  - apply (window_circular kk w wd Hk Hd Hw) in E. destruct E as [i Hi].
    apply (window_circular kk' w wd' Hk' Hd' Hw). exists (i - j)%Z. rewrite minus_IZR. lra.
  - destruct (in_window kk' w wd') eqn:E'; [|reflexivity].
    apply (window_circular kk' w wd' Hk' Hd' Hw) in E'. destruct E' as [i Hi].
    assert (in_window kk w wd = true) as X.
    { apply (window_circular kk w wd Hk Hd Hw). exists (i + j)%Z. rewrite plus_IZR. lra. }
    congruence.
Qed.

(* beyond 89 degrees the code's window is NOT circular: bin 270 with half window 89.5 misses wd = 0
   although 0 = 360 lies inside [180.5, 360.5) *)
Lemma window_wide_not_circular :
  in_window 270 (179/2) 0 = false /\ (exists j : Z, 270 - 179/2 <= 0 + 360 * IZR j < 270 + 1 + 179/2).
Proof.
  split.
  - unfold in_window, wrapped. decw; try reflexivity; exfalso; lra.
  - exists 1%Z. lra.
Qed.

(* ---------- invariance of the smoothed estimate under a common whole-degree rotation *)
Lemma Int_part_unique r z : IZR z <= r < IZR z + 1 -> Int_part r = z.
Proof.
  intros [H1 H2]. unfold Int_part.
  assert ((z + 1)%Z = up r) as <-. { apply up_tech; [exact H1 | rewrite plus_IZR; lra]. }
  lia.
Qed.

Lemma Int_part_range r : 0 <= r < 360 -> (0 <= Int_part r < 360)%Z.
Proof.
  intros [H1 H2]. destruct (base_Int_part r) as [Ha Hb].
  split.
  - apply le_IZR. apply IZR_le. apply Z.lt_succ_r. apply lt_IZR. rewrite succ_IZR. lra.
  - apply lt_IZR. lra.
Qed.

Lemma rotdeg_range d wd : 0 <= d < 360 -> 0 <= wd < 360 -> 0 <= rotdeg d wd < 360.
Proof. intros Hd Hw. unfold rotdeg. destruct (Rlt_dec (wd + d) 360); lra. Qed.

Lemma rotdeg_Int_part (d : Z) wd : (0 <= d < 360)%Z -> 0 <= wd < 360 ->
  IZR (Int_part (rotdeg (IZR d) wd)) = rotdeg (IZR d) (IZR (Int_part wd)).
Proof.
  intros Hd Hw. destruct (base_Int_part wd) as [Ha Hb]. pose proof (Int_part_range wd Hw) as Hr.
  set (k := Int_part wd) in *.
  assert (Hd1 : 0 <= IZR d) by (apply IZR_le; lia).
  assert (Hd2 : IZR d <= 359) by (apply IZR_le; lia).
  unfold rotdeg.
  destruct (Rlt_dec (wd + IZR d) 360) as [H1|H1]; destruct (Rlt_dec (IZR k + IZR d) 360) as [H2|H2].
  - rewrite (Int_part_unique (wd + IZR d) (k + d)); rewrite plus_IZR; [reflexivity | lra].
  - exfalso. lra.
  - (* k + d <= 359 as integers, so wd + d < 360: contradiction *)
    exfalso. rewrite <- plus_IZR in H2. apply lt_IZR in H2.
    assert (IZR (k + d) <= 359) by (apply IZR_le; lia). rewrite plus_IZR in H. lra.
  - rewrite (Int_part_unique (wd + IZR d - 360) (k + d - 360)); rewrite minus_IZR, plus_IZR; [reflexivity | lra].
Qed.

Lemma select_rot (d : Z) kk w wds zs : (0 <= d < 360)%Z -> 0 <= kk < 360 -> 0 <= w <= 89 ->
  Forall (fun wd => 0 <= wd < 360) wds ->
  select (rotdeg (IZR d) kk) w (map (rotdeg (IZR d)) wds) zs = select kk w wds zs.
Proof.
  intros Hd Hk Hw Hall. revert zs. induction Hall as [|wd wds Hwd Hall IH]; intros zs; [reflexivity|].
  destruct zs as [|z zs]; [reflexivity|]. cbn [map select].
  assert (Hd' : 0 <= IZR d < 360) by (split; [apply IZR_le | apply IZR_lt]; lia).
  assert (E : in_window (rotdeg (IZR d) kk) w (rotdeg (IZR d) wd) = in_window kk w wd).
  { pose proof (rotdeg_range (IZR d) kk Hd' Hk). pose proof (rotdeg_range (IZR d) wd Hd' Hwd).
    unfold rotdeg in *.
    destruct (Rlt_dec (kk + IZR d) 360); destruct (Rlt_dec (wd + IZR d) 360).
    - apply (window_shift kk w wd _ _ 0%Z); try assumption. lra.
    - apply (window_shift kk w wd _ _ (-1)%Z); try assumption. lra.
    - apply (window_shift kk w wd _ _ 1%Z); try assumption. lra.
    - apply (window_shift kk w wd _ _ 0%Z); try assumption. lra. }
  rewrite E, IH. reflexivity.
Qed.

Section Smooth.
Variable nanmedian : list (option R) -> option R.

Lemma z0med_rotation_invariant (d : Z) w wds zs wd : (0 <= d < 360)%Z -> 0 <= w <= 89 ->
  Forall (fun wd => 0 <= wd < 360) wds -> 0 <= wd < 360 ->
  z0med_obs nanmedian w (map (rotdeg (IZR d)) wds) zs (rotdeg (IZR d) wd) = z0med_obs nanmedian w wds zs wd.
Proof.
  intros Hd Hw Hall Hwd.
  assert (Hd' : 0 <= IZR d < 360) by (split; [apply IZR_le | apply IZR_lt]; lia).
  unfold z0med_obs.
  pose proof (Int_part_range wd Hwd) as Hr.
  pose proof (Int_part_range _ (rotdeg_range (IZR d) wd Hd' Hwd)) as Hr'.
  replace ((0 <=? Int_part (rotdeg (IZR d) wd))%Z && (Int_part (rotdeg (IZR d) wd) <? 360)%Z) with true
    by (symmetry; apply andb_true_iff; split; [apply Z.leb_le | apply Z.ltb_lt]; lia).
  replace ((0 <=? Int_part wd)%Z && (Int_part wd <? 360)%Z) with true
    by (symmetry; apply andb_true_iff; split; [apply Z.leb_le | apply Z.ltb_lt]; lia).
  unfold z0med_bin. rewrite rotdeg_Int_part by assumption.
  rewrite select_rot; try assumption; [reflexivity|].
  split; [apply IZR_le | apply IZR_lt]; lia.
Qed.

(* whole estimate: the raw values do not depend on wd at all *)
Lemma estimateZ0_rotation_invariant (d : Z) w zms Ls wss uss wds i : (0 <= d < 360)%Z -> 0 <= w <= 89 ->
  Forall (fun wd => 0 <= wd < 360) wds -> (i < length wds)%nat ->
  estimateZ0_obs nanmedian w zms Ls wss uss (map (rotdeg (IZR d)) wds) i
  = estimateZ0_obs nanmedian w zms Ls wss uss wds i.
Proof.
  intros Hd Hw Hall Hi. unfold estimateZ0_obs. destruct (Rlt_dec w 1); [reflexivity|].
  replace (nth i (map (rotdeg (IZR d)) wds) 0) with (rotdeg (IZR d) (nth i wds 0)).
  2:{ rewrite <- (map_nth (rotdeg (IZR d))). apply nth_indep. rewrite map_length. exact Hi. }
  apply z0med_rotation_invariant; try assumption.
  rewrite Forall_forall in Hall. apply Hall. apply nth_In. exact Hi.
Qed.

(* the observation is assigned in the iteration kk = floor(wd): that kk is the unique integer bin containing it *)
Lemma bin_is_floor wd (k : Z) : in_bin (IZR k) wd = true <-> Int_part wd = k.
Proof.
  unfold in_bin. split.
  - intros H. decw; try discriminate. apply Int_part_unique. lra.
  - intros <-. destruct (base_Int_part wd). decw; try reflexivity; exfalso; lra.
Qed.
End Smooth.

(* ===== the grid total is the midpoint Riemann sum of the published density ===== *)
Lemma rsum_ext n f g : (forall k, (k < n)%nat -> f k = g k) -> rsum n f = rsum n g.
Proof.
  induction n as [|n IH]; intros H; [reflexivity|]. simpl. rewrite IH, H by (intros; try apply H; lia). reflexivity.
Qed.

Section Riemann.
Variable Gamma : R -> R.
Hypothesis Gamma_pos : forall x, 0 < x -> 0 < Gamma x.

Lemma grid_total_riemann p res mx my xmin ymax nx ny : physical p -> 0 < U_of p ->
  grid_total Gamma p res mx my xmin ymax nx ny =
  rsum ny (fun i => rsum nx (fun j =>
    let x := grid_xc xmin res j - mx in let y := grid_yc ymax res i - my in
    if Rlt_dec 0 x then res * res * (fy Gamma (mu_of p) (Xi_of p) x
         * Dy (sigma_y (p_sv p) (ubar Gamma (mu_of p) (r_of p) (m_of p) (kappa_of p) (U_of p) x) x) y) else 0)).
Proof.
  intros H HU. unfold grid_total. apply rsum_ext. intros i _. apply rsum_ext. intros j _.
  cbv zeta. unfold cell_aligned, al_x, al_y.
  destruct (Rlt_dec 0 (grid_xc xmin res j - mx)) as [Hx|Hx].
  - rewrite (closed_form Gamma Gamma_pos p res _ _ H HU Hx). unfold paper. ring.
  - apply cell_downwind_zero. lra.
Qed.
End Riemann.

(* ===== forms of cell_g used by the interval-certified correspondence ===== *)
Lemma cell_g_upwind_form G1 G2 p res x y : ~ U_of p < 0 -> 0 < x ->
  cell_g G1 G2 p res x y =
  res * res * num_of p * A_of_g G2 p * Rpower x (mr_of p - 2 - mu_of p)
  * exp (- Xi_of p / x - 1 / 2 * ((G1 * y * A_of_g G2 p * Rpower x (mr_of p - 1)) * (G1 * y * A_of_g G2 p * Rpower x (mr_of p - 1)))).
Proof.
  intros HU Hx. unfold cell_g. destruct (Rlt_dec (U_of p) 0); [contradiction|].
  unfold cell_expr. destruct (Rlt_dec 0 x); [reflexivity | contradiction].
Qed.
Lemma cell_g_downwind G1 G2 p res x y : x <= 0 -> cell_g G1 G2 p res x y = 0.
Proof.
  intros Hx. unfold cell_g. destruct (Rlt_dec (U_of p) 0); [reflexivity|].
  unfold cell_expr. destruct (Rlt_dec 0 x); [lra | reflexivity].
Qed.
Lemma cell_g_Uneg G1 G2 p res x y : U_of p < 0 -> cell_g G1 G2 p res x y = 0.
Proof. intros HU. unfold cell_g. destruct (Rlt_dec (U_of p) 0); [reflexivity | contradiction]. Qed.

Lemma z0clean_keep z : z <= 1000 -> z0clean z = Some z.
Proof. intros H. unfold z0clean. destruct (Rlt_dec 1000 z); [lra | reflexivity]. Qed.
Lemma z0clean_drop z : 1000 < z -> z0clean z = None.
Proof. intros H. unfold z0clean. destruct (Rlt_dec 1000 z); [reflexivity | lra]. Qed.
