(* The premise `Laws O` of the theorems in this development is satisfiable:
   the complex numbers are an instance (Base/ROps.v). *)
From BL Require Import Base.Ops Base.Laws Base.ROps.

Example laws_satisfiable : exists O : Ops, Laws O.
Proof. exists ROps; exact ROps_laws. Qed.
