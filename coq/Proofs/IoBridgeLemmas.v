(* Lemmas for the tie (B) of C18: the meaning (Model/IoDesc.v) of the canonical description of
   save_footprints_to_netcdf is Model.NetcdfAsm.assemble, for ALL results lists and tower lists.
   The operational array semantics (np.zeros + the loop nest of indexed assignments) is related to the model's
   closed form `data` here. *)
From Coq Require Import List Arith Bool String Lia.
From BL Require Import Model.NetcdfAsm Model.IoDesc Proofs.NetcdfProofs.
Import ListNotations.
Local Open Scope nat_scope.

(* ---------- arrays and loops ---------- *)

(* the inner loop of loop_fill for one outer item *)
Definition inner {R X : Type} (ix : nat -> nat -> nat * nat) (g : nat -> nat -> bool) (val : R -> X) (ti : nat)
    (acc : option (farr X)) (es : list (nat * R)) : option (farr X) :=
  fold_left (fun acc' e =>
      match acc' with
      | None => None
      | Some a => if g (fst e) ti then fset (fst (ix (fst e) ti)) (snd (ix (fst e) ti)) (val (snd e)) a else Some a
      end) es acc.

Lemma loop_fill_inner {R X : Type} (cols : list (list R)) ix g (val : R -> X) a0 :
  loop_fill cols ix g val a0 =
  fold_left (fun acc c => inner ix g val (fst c) acc (enum_from 0 (snd c))) (enum_from 0 cols) (Some a0).
Proof. reflexivity. Qed.

Lemma inner_cons {R X : Type} ix g (val : R -> X) ti a e es :
  inner ix g val ti (Some a) (e :: es) =
  inner ix g val ti (if g (fst e) ti then fset (fst (ix (fst e) ti)) (snd (ix (fst e) ti)) (val (snd e)) a else Some a) es.
Proof. reflexivity. Qed.

Lemma inner_none {R X : Type} ix g (val : R -> X) ti es : inner ix g val ti None es = None.
Proof. induction es as [|e es IH]; simpl; [reflexivity|exact IH]. Qed.

Lemma outer_none {R X : Type} ix g (val : R -> X) (cs : list (nat * list R)) :
  fold_left (fun acc c => inner ix g val (fst c) acc (enum_from 0 (snd c))) cs None = None.
Proof. induction cs as [|c cs IH]; simpl; [reflexivity|]. rewrite inner_none. exact IH. Qed.

(* what a sequence of writes leaves: same shape, pointwise content f' -- or an IndexError *)
Definition wspec {X : Type} (a : farr X) (res : option (farr X)) (ok : bool) (f' : nat -> nat -> X) : Prop :=
  if ok then exists a', res = Some a' /\ a_n1 a' = a_n1 a /\ a_n2 a' = a_n2 a /\ forall i j, a_f a' i j = f' i j
  else res = None.

Lemma inner_spec {R X : Type} ix g (val : R -> X) ti
  (Hg : forall t, g t ti = true) (Hix : forall t, ix t ti = (t, ti)) :
  forall (steps : list R) (k : nat) (a : farr X), ti < a_n2 a ->
  wspec a (inner ix g val ti (Some a) (enum_from k steps))
        ((List.length steps =? 0) || (k + List.length steps <=? a_n1 a))
        (fun i j => if (j =? ti) && (k <=? i)
                    then match nth_error steps (i - k) with Some r => val r | None => a_f a i j end
                    else a_f a i j).
Proof.
  induction steps as [|x steps IH]; intros k a Hti.
  - simpl. exists a. repeat split; try reflexivity.
    intros i j. destruct ((j =? ti) && (k <=? i)); [|reflexivity]. destruct (i - k); reflexivity.
  - cbn [enum_from]. rewrite inner_cons. cbn [fst snd]. rewrite Hg, Hix. cbn [fst snd].
    unfold fset. destruct (k <? a_n1 a) eqn:Ek.
    + apply Nat.ltb_lt in Ek. assert (Et : (ti <? a_n2 a) = true) by (apply Nat.ltb_lt; exact Hti).
      rewrite Et. cbn [andb].
      set (a1 := mkArr (a_n1 a) (a_n2 a) (fun i' j' => if (i' =? k) && (j' =? ti) then val x else a_f a i' j')).
      specialize (IH (S k) a1 Hti).
      unfold wspec in *. cbn [List.length].
      replace ((S (List.length steps) =? 0) || (k + S (List.length steps) <=? a_n1 a))
        with ((List.length steps =? 0) || (S k + List.length steps <=? a_n1 a1)).
      2:{ cbn [a1 a_n1]. destruct (List.length steps) as [|m]; cbn [Nat.eqb orb].
          - symmetry. apply Nat.leb_le. lia.
          - f_equal. lia. }
      destruct ((List.length steps =? 0) || (S k + List.length steps <=? a_n1 a1)).
      * destruct IH as [a' [Hr [H1 [H2 Hf]]]]. exists a'. split; [exact Hr|]. split; [exact H1|]. split; [exact H2|].
        intros i j. rewrite Hf. cbn [a1 a_f].
        destruct (Nat.eqb_spec j ti) as [Ej|Ej]; cbn [andb].
        -- destruct (Nat.leb_spec (S k) i) as [Hi|Hi].
           ++ assert (Hk : (k <=? i) = true) by (apply Nat.leb_le; lia). rewrite Hk.
              replace (i - k) with (S (i - S k)) by lia. cbn [nth_error].
              destruct (nth_error steps (i - S k)); [reflexivity|].
              destruct (Nat.eqb_spec i k); [lia|reflexivity].
           ++ destruct (Nat.eqb_spec i k) as [Eik|Eik].
              ** subst i. rewrite Nat.leb_refl, Nat.sub_diag. cbn [andb nth_error]. reflexivity.
              ** assert (Hk : (k <=? i) = false) by (apply Nat.leb_gt; lia). rewrite Hk. cbn [andb]. reflexivity.
        -- rewrite Bool.andb_false_r. reflexivity.
      * exact IH.
    + cbn [andb]. rewrite inner_none.
      apply Nat.ltb_ge in Ek. unfold wspec. cbn [List.length Nat.eqb orb].
      assert (Hf : (k + S (List.length steps) <=? a_n1 a) = false) by (apply Nat.leb_gt; lia).
      rewrite Hf. reflexivity.
Qed.

Lemma inner_noop {R X : Type} ix g (val : R -> X) ti (Hg : forall t, g t ti = false) :
  forall (es : list (nat * R)) (a : farr X), inner ix g val ti (Some a) es = Some a.
Proof. induction es as [|e es IH]; intros a; simpl; [reflexivity|]. rewrite Hg. apply IH. Qed.

Lemma outer_spec {R X : Type} ix g (val : R -> X)
  (Hg : forall t ti, g t ti = true) (Hix : forall t ti, ix t ti = (t, ti)) :
  forall (cs : list (list R)) (k : nat) (a : farr X), k + List.length cs <= a_n2 a ->
  wspec a (fold_left (fun acc c => inner ix g val (fst c) acc (enum_from 0 (snd c))) (enum_from k cs) (Some a))
        (forallb (fun s => List.length s <=? a_n1 a) cs)
        (fun i j => if k <=? j
                    then match nth_error cs (j - k) with
                         | Some s => match nth_error s i with Some r => val r | None => a_f a i j end
                         | None => a_f a i j
                         end
                    else a_f a i j).
Proof.
  induction cs as [|s cs IH]; intros k a Hk.
  - simpl. exists a. repeat split; try reflexivity.
    intros i j. destruct (k <=? j); [|reflexivity]. destruct (j - k); reflexivity.
  - cbn [enum_from fold_left fst snd forallb]. cbn [List.length] in Hk.
    pose proof (@inner_spec R X ix g val k (fun t => Hg t k) (fun t => Hix t k) s 0 a ltac:(lia)) as Hin.
    unfold wspec in Hin. cbn [Nat.add] in Hin.
    replace ((List.length s =? 0) || (List.length s <=? a_n1 a)) with (List.length s <=? a_n1 a) in Hin.
    2:{ destruct (List.length s); [reflexivity|reflexivity]. }
    destruct (List.length s <=? a_n1 a) eqn:El; cbn [andb].
    + destruct Hin as [a1 [Hr [H1 [H2 Hf]]]]. rewrite Hr.
      specialize (IH (S k) a1 ltac:(lia)). unfold wspec in *. rewrite H1 in IH.
      destruct (forallb (fun s0 => List.length s0 <=? a_n1 a) cs).
      * destruct IH as [a' [Hr' [H1' [H2' Hf']]]]. exists a'. split; [exact Hr'|]. split; [congruence|]. split; [congruence|].
        intros i j. rewrite Hf'. rewrite !Hf.
        destruct (Nat.leb_spec (S k) j) as [Hj|Hj].
        -- assert (Hkj : (k <=? j) = true) by (apply Nat.leb_le; lia). rewrite Hkj.
           replace (j - k) with (S (j - S k)) by lia. cbn [nth_error].
           destruct (Nat.eqb_spec j k); [lia|]. cbn [andb]. reflexivity.
        -- destruct (Nat.eqb_spec j k) as [Ejk|Ejk].
           ++ subst j. rewrite Nat.leb_refl, Nat.sub_diag. cbn [andb nth_error Nat.leb]. rewrite Nat.sub_0_r. reflexivity.
           ++ assert (Hkj : (k <=? j) = false) by (apply Nat.leb_gt; lia). rewrite Hkj. cbn [andb]. reflexivity.
      * exact IH.
    + rewrite Hin. apply outer_none.
Qed.

Lemma map_seq_nth {X Y : Type} (G : X -> Y) : forall (cs : list X) (k : nat) (Fn : nat -> Y),
  (forall j s, nth_error cs j = Some s -> Fn (k + j) = G s) -> map Fn (seq k (List.length cs)) = map G cs.
Proof.
  induction cs as [|s cs IH]; intros k Fn H; [reflexivity|].
  cbn [List.length seq map]. f_equal.
  - rewrite <- (H 0 s eq_refl). f_equal. lia.
  - apply IH. intros j s' Hj. rewrite <- (H (S j) s' Hj). f_equal. lia.
Qed.

(* np.zeros((n1, len(cols), ...)) filled column by column, step by step = the model's closed form *)
Lemma fill_blocks {R X : Type} ix g (val : R -> X) (zero : X)
  (Hg : forall t ti, g t ti = true) (Hix : forall t ti, ix t ti = (t, ti)) (cs : list (list R)) (n1 : nat) :
  option_map to_list2 (loop_fill cs ix g val (fzeros zero n1 (List.length cs))) =
  if forallb (fun s => List.length s <=? n1) cs
  then Some (map (fun t => map (fun s => match nth_error s t with Some r => val r | None => zero end) cs) (seq 0 n1))
  else None.
Proof.
  rewrite loop_fill_inner.
  pose proof (@outer_spec R X ix g val Hg Hix cs 0 (fzeros zero n1 (List.length cs)) ltac:(cbn; lia)) as H.
  unfold wspec in H. cbn [fzeros a_n1 a_n2 a_f] in H.
  destruct (forallb (fun s => List.length s <=? n1) cs).
  - destruct H as [a' [Hr [H1 [H2 Hf]]]]. rewrite Hr. cbn [option_map]. f_equal.
    unfold to_list2. rewrite H1, H2. apply map_ext. intros t.
    apply map_seq_nth. intros j s Hj. rewrite Hf. cbn [Nat.leb Nat.add]. rewrite Nat.sub_0_r, Hj. reflexivity.
  - rewrite H. reflexivity.
Qed.

Lemma noop_cols {R X : Type} ix g (val : R -> X) (Hg : forall t ti, g t (S ti) = false) :
  forall (cs : list (list R)) (k : nat) (a : farr X),
  fold_left (fun acc c => inner ix g val (fst c) acc (enum_from 0 (snd c))) (enum_from (S k) cs) (Some a) = Some a.
Proof.
  induction cs as [|s cs IH]; intros k a; [reflexivity|].
  cbn [enum_from fold_left fst snd]. rewrite inner_noop by (intros t; apply Hg). apply IH.
Qed.

(* np.zeros((len(first),)) filled inside `if ti == 0:` = the first column *)
Lemma fill_first {R X : Type} ix g (val : R -> X) (zero : X)
  (Hg : forall t ti, g t ti = (ti =? 0)) (Hix : forall t ti, ix t ti = (t, 0)) (s0 : list R) (rest : list (list R)) :
  option_map to_list1 (loop_fill (s0 :: rest) ix g val (fzeros zero (List.length s0) 1)) = Some (map val s0).
Proof.
  rewrite loop_fill_inner. cbn [enum_from fold_left fst snd].
  pose proof (@inner_spec R X ix g val 0 (fun t => Hg t 0) (fun t => Hix t 0) s0 0
                (fzeros zero (List.length s0) 1) ltac:(cbn; lia)) as H.
  unfold wspec in H. cbn [fzeros a_n1 a_n2 a_f Nat.add] in H.
  rewrite Nat.leb_refl, Bool.orb_true_r in H. destruct H as [a' [Hr [H1 [H2 Hf]]]].
  rewrite Hr. rewrite noop_cols by (intros t ti; rewrite Hg; reflexivity).
  cbn [option_map]. f_equal. unfold to_list1. rewrite H1. cbn [fzeros a_n1].
  apply map_seq_nth. intros j r Hj. rewrite Hf. cbn [Nat.add Nat.eqb Nat.leb andb]. rewrite Nat.sub_0_r, Hj. reflexivity.
Qed.

(* ---------- numpy indexing = the model's coordinate extraction ---------- *)

Section Coords.
Context {A : Type}.

Lemma sel0_concat (rows : list (list A)) :
  option_map (@List.concat A) (traverse (sel I0) rows) = traverse (@hd_error A) rows.
Proof.
  induction rows as [|r rows IH]; [reflexivity|].
  cbn [traverse]. destruct r as [|a r]; cbn [sel hd_error]; [reflexivity|].
  rewrite <- IH. destruct (traverse (sel I0) rows); reflexivity.
Qed.

Lemma idx3_x (l : list (list (list A))) : index_mesh (M3 l) [I0; I0; IAll] = x_of true (M3 l).
Proof.
  unfold index_mesh. cbn. destruct l as [|pl l]; [reflexivity|]. destruct pl as [|row pl]; [reflexivity|].
  cbn. rewrite !app_nil_r. reflexivity.
Qed.

Lemma idx3_y (l : list (list (list A))) : index_mesh (M3 l) [I0; IAll; I0] = y_of true (M3 l).
Proof.
  unfold index_mesh. cbn. destruct l as [|pl l]; [reflexivity|].
  rewrite <- sel0_concat. cbn. destruct (traverse (sel I0) pl); cbn; [rewrite app_nil_r|]; reflexivity.
Qed.

Lemma idx3_z (l : list (list (list A))) : index_mesh (M3 l) [IAll; I0; I0] = z_of (M3 l).
Proof.
  unfold index_mesh. change (n_all [IAll; I0; I0] =? 1) with true. change (sel IAll l) with (Some l).
  cbv iota beta. unfold z_of.
  set (Fz := fun pl : list (list A) => match sel I0 pl with Some rows => traverse (sel I0) rows | None => None end).
  induction l as [|pl l IH]; [reflexivity|].
  cbn [traverse]. rewrite <- IH.
  destruct pl as [|[|a row] pl].
  - change (Fz []) with (@None (list (list A))). reflexivity.
  - change (Fz ([] :: pl)) with (@None (list (list A))). reflexivity.
  - change (Fz ((a :: row) :: pl)) with (Some [[a]]). destruct (traverse Fz l); reflexivity.
Qed.

Lemma idx2_x (l : list (list A)) : index_mesh (M2 l) [I0; IAll] = x_of false (M2 l).
Proof. unfold index_mesh. cbn. destruct l as [|row l]; [reflexivity|]. cbn. rewrite app_nil_r. reflexivity. Qed.

Lemma idx2_y (l : list (list A)) : index_mesh (M2 l) [IAll; I0] = y_of false (M2 l).
Proof. unfold index_mesh. cbn. apply sel0_concat. Qed.

Lemma idx_rank3 (m : @mesh A) (p : list idx_d) : List.length p = 3 -> (forall l, m <> M3 l) -> index_mesh m p = None.
Proof.
  intros Hp Hm. unfold index_mesh. destruct (n_all p =? 1); [|reflexivity].
  destruct m as [l|l|l]; [| |destruct (Hm l eq_refl)];
    destruct p as [|a [|b [|c [|d p]]]]; try discriminate Hp; reflexivity.
Qed.

End Coords.

(* ---------- the canonical description means `assemble` ---------- *)

Section Canon.
Context {N L T V F A : Type}.
Context (eqbN : N -> N -> bool) (str : T -> L) (nanV : V) (zeroF : F).
Context (E : @extras N L T V F).
Hypothesis eqbN_refl : forall a, eqbN a a = true.

Notation result := (@result T V F A).
Notation results := (@results N T V F A).
Notation tower := (@tower N V).

Lemma assoc_in (rs : results) : forall nm, In nm (names rs) -> assoc eqbN nm rs = Some (steps_of eqbN rs nm).
Proof.
  unfold steps_of. induction rs as [|[k v] rs IH]; intros nm Hin; [destruct Hin|].
  cbn [assoc]. destruct (eqbN nm k) eqn:Ek; [reflexivity|].
  destruct Hin as [Hk|Hin].
  - cbn in Hk. subst k. rewrite eqbN_refl in Ek. discriminate Ek.
  - rewrite (IH nm Hin). reflexivity.
Qed.

Lemma cols_by_name (c : @ctx N T V F A) (rs : results) : c_names c = names rs ->
  cols eqbN LByName c rs = Some (map (steps_of eqbN rs) (names rs)).
Proof. intros Hc. unfold cols. rewrite Hc. apply traverse_map. intros nm Hin. apply assoc_in. exact Hin. Qed.

Lemma too_long_forallb (rs : results) (n : nat) (nms : list N) :
  forallb (fun s : list result => List.length s <=? n) (map (steps_of eqbN rs) nms) =
  negb (existsb (fun nm => Nat.ltb n (List.length (steps_of eqbN rs nm))) nms).
Proof.
  induction nms as [|nm nms IH]; [reflexivity|].
  cbn [map forallb existsb]. rewrite IH, Bool.negb_orb. f_equal. rewrite Nat.ltb_antisym, Bool.negb_involutive. reflexivity.
Qed.

Variables (rs : results) (tws : list tower) (l : list result) (r0 : result).
Let c := @mkCtx N T V F A (names rs) l r0.

Lemma eval_blocks_canon (is3d : bool) (ks k : fkey) :
  eval_blocks eqbN zeroF E is3d c rs (canon_block is3d ks k) =
  if existsb (fun nm => Nat.ltb (List.length l) (List.length (steps_of eqbN rs nm))) (names rs) then None
  else Some (data eqbN zeroF (fsel k) rs (List.length l)).
Proof.
  unfold eval_blocks, canon_block.
  assert (Hb : block_shape_ok is3d (if is3d then [DShape ks 3 0; DShape ks 3 1; DShape ks 3 2]
                                    else [DShape ks 2 0; DShape ks 2 1]) = true) by (destruct is3d, ks; reflexivity).
  rewrite Hb. cbn [eval_dim c c_l0 c_names ix2 opt_cast].
  rewrite (cols_by_name c rs eq_refl).
  replace (List.length (names rs)) with (List.length (map (steps_of eqbN rs) (names rs))) by apply map_length.
  rewrite fill_blocks; [|intros; reflexivity|intros; reflexivity].
  rewrite too_long_forallb.
  destruct (existsb (fun nm => Nat.ltb (List.length l) (List.length (steps_of eqbN rs nm))) (names rs)); cbn [negb]; [reflexivity|].
  f_equal. unfold data. apply map_ext. intros t. rewrite map_map. reflexivity.
Qed.

Lemma eval_met_canon (p : pkey) (n0 : N) (rest : list N) :
  names rs = n0 :: rest -> steps_of eqbN rs n0 = l ->
  eval_series eqbN nanV E c rs tws (canon_met p) = Some (map (psel nanV p) l).
Proof.
  intros Hn Hl. unfold eval_series, canon_met. cbn [eval_dim c c_l0 ix1 opt_cast].
  rewrite (cols_by_name c rs eq_refl). rewrite Hn. cbn [map]. rewrite Hl.
  apply fill_first; intros; reflexivity.
Qed.

End Canon.

Lemma dims_eqb_refl (l : list string) : dims_eqb l l = true.
Proof.
  unfold dims_eqb. rewrite Nat.eqb_refl. cbn [andb].
  induction l as [|a l IH]; [reflexivity|]. cbn [combine forallb fst snd]. rewrite String.eqb_refl. exact IH.
Qed.

Section Main.
Context {N L T V F A : Type}.
Context (eqbN : N -> N -> bool) (str : T -> L) (nanV : V) (zeroF : F).
Context (E : @extras N L T V F).
Hypothesis eqbN_refl : forall a, eqbN a a = true.

Notation result := (@result T V F A).
Notation results := (@results N T V F A).
Notation tower := (@tower N V).

Lemma coord3_x (m : @mesh A) : index_mesh m [I0; I0; IAll] = x_of true m.
Proof. destruct m as [l|l|l]; [reflexivity|reflexivity|apply idx3_x]. Qed.
Lemma coord3_y (m : @mesh A) : index_mesh m [I0; IAll; I0] = y_of true m.
Proof. destruct m as [l|l|l]; [reflexivity|reflexivity|apply idx3_y]. Qed.
Lemma coord3_z (m : @mesh A) : index_mesh m [IAll; I0; I0] = z_of m.
Proof. destruct m as [l|l|l]; [reflexivity|reflexivity|apply idx3_z]. Qed.

Lemma coord2_x (c : @ctx N T V F A) : eval_coord c (DCoordIf2 GX [I0; IAll] GX) = x_of false (r_X (c_r0 c)).
Proof. cbn [eval_coord grid_of]. destruct (r_X (c_r0 c)) as [l|l|l]; [reflexivity|apply idx2_x|reflexivity]. Qed.
Lemma coord2_y (c : @ctx N T V F A) : eval_coord c (DCoordIf2 GY [IAll; I0] GY) = y_of false (r_Y (c_r0 c)).
Proof. cbn [eval_coord grid_of]. destruct (r_Y (c_r0 c)) as [l|l|l]; [reflexivity|apply idx2_y|reflexivity]. Qed.

(* the label vectors the two ways of attaching tower metadata stand for *)
Definition labels_of (m : meta_d) : list N -> list tower -> option (list tower) :=
  match m with MByName => labels_by_name eqbN | MByPosition => @labels_positional N V end.

Lemma traverse_length {X Y : Type} (f : X -> option Y) (l : list X) (l' : list Y) :
  traverse f l = Some l' -> List.length l' = List.length l.
Proof. intros H. exact (proj1 (traverse_spec f l l' H)). Qed.

Lemma meta_sized (m : meta_d) (f : tfield) (c : @ctx N T V F A) (rs : results) (tws : list tower) :
  sized (List.length (c_names c)) (eval_series eqbN nanV E c rs tws (DMeta m f)) =
  option_map (map (tsel f)) (labels_of m (c_names c) tws).
Proof.
  unfold sized, labels_of. destruct m; cbn [eval_series].
  - unfold labels_by_name. destruct (traverse (fun nm => tower_by_name eqbN nm tws) (c_names c)) as [tl|] eqn:Et; [|reflexivity].
    cbn [option_map]. rewrite map_length, (traverse_length _ _ _ Et), Nat.eqb_refl. reflexivity.
  - unfold labels_positional. rewrite map_length. destruct (List.length tws =? List.length (c_names c)); reflexivity.
Qed.

(* the dataset the canonical description denotes, in the shape of assemble_gen's inner expression *)
Lemma eval_norm_canon (is3d : bool) (m : meta_d) (ks1 ks2 : fkey) (rs : results) (tws : list tower) n0 r0 l0' rest :
  rs = (n0, r0 :: l0') :: rest ->
  eval_norm eqbN str nanV zeroF E is3d (mkCtx (names rs) (r0 :: l0') r0) (canon_norm is3d m ks1 ks2) rs tws =
  if existsb (fun nm => Nat.ltb (List.length (r0 :: l0')) (List.length (steps_of eqbN rs nm))) (names rs) then None
  else match x_of is3d (r_X r0), y_of is3d (r_Y r0), zopt is3d (r_Z r0), labels_of m (names rs) tws with
       | Some x, Some y, Some z, Some tl =>
         Some (mkDs x y z (map (fun r => str (r_stamp r)) (r0 :: l0')) (names rs)
                    (data eqbN zeroF (@r_flx T V F A) rs (List.length (r0 :: l0')))
                    (data eqbN zeroF (@r_conc T V F A) rs (List.length (r0 :: l0')))
                    (map (ustar_val nanV) (r0 :: l0')) (map (@r_mol T V F A) (r0 :: l0'))
                    (map (@r_ws T V F A) (r0 :: l0')) (map (@r_wd T V F A) (r0 :: l0'))
                    (map (@tw_lat N V) tl) (map (@tw_lon N V) tl) (map (@tw_zm N V) tl), [])
       | _, _, _, _ => None
       end.
Proof.
  intros Hrs.
  assert (Hn : names rs = n0 :: names rest) by (subst rs; reflexivity).
  assert (Hl : steps_of eqbN rs n0 = r0 :: l0').
  { subst rs. unfold steps_of. cbn [assoc]. rewrite eqbN_refl. reflexivity. }
  set (l := r0 :: l0') in *.
  pose proof (fun f => meta_sized m f (mkCtx (names rs) l r0) rs tws) as Hm. cbn [c_names] in Hm.
  unfold eval_norm, member.
  destruct is3d; cbn [canon_norm n_fp n_conc n_ustar n_mol n_ws n_wd n_lat n_lon n_zm n_x n_y n_z n_time n_tower n_lossy
                       fst snd block_dims]; rewrite !dims_eqb_refl.
  - rewrite !(eval_blocks_canon eqbN zeroF E eqbN_refl rs l r0 true).
    rewrite !(eval_met_canon eqbN nanV E eqbN_refl rs tws l r0 _ n0 (names rest) Hn Hl).
    cbn [eval_coord grid_of c_r0 eval_labels c_l0 eval_tower_names eval_names c_names].
    rewrite coord3_x, coord3_y, coord3_z. unfold zopt.
    destruct (x_of true (r_X r0)); destruct (y_of true (r_Y r0)); destruct (z_of (r_Z r0)); cbn [option_map];
    rewrite ?Hm;
    destruct (existsb (fun nm => Nat.ltb (List.length l) (List.length (steps_of eqbN rs nm))) (names rs));
    destruct (labels_of m (names rs) tws); reflexivity.
  - rewrite !(eval_blocks_canon eqbN zeroF E eqbN_refl rs l r0 false).
    rewrite !(eval_met_canon eqbN nanV E eqbN_refl rs tws l r0 _ n0 (names rest) Hn Hl).
    rewrite coord2_x, coord2_y.
    cbn [c_r0 eval_labels c_l0 eval_tower_names eval_names c_names].
    unfold zopt.
    destruct (x_of false (r_X r0)); destruct (y_of false (r_Y r0)); cbn [option_map];
    rewrite ?Hm;
    destruct (existsb (fun nm => Nat.ltb (List.length l) (List.length (steps_of eqbN rs nm))) (names rs));
    destruct (labels_of m (names rs) tws); reflexivity.
Qed.

(* a description whose two branches normalise to the canonical members means `assemble_gen` with the label vectors of
   its way of attaching the tower metadata (by name: `assemble`; by position: `assemble_orig`), with nothing lossy *)
Theorem run_save_canonical_gen (sd : save_d) (m : meta_d) (k1 k2 k3 k4 : fkey) :
  sv_names sd = NKeys -> sv_is3d sd = (KFlx, 3) ->
  normalize (sv_3d sd) = Some (canon_norm true m k1 k2) -> normalize (sv_2d sd) = Some (canon_norm false m k3 k4) ->
  forall (rs : results) (tws : list tower),
  run_save eqbN str nanV zeroF E sd rs tws =
  option_map (fun d => (d, @nil (string * string))) (assemble_gen eqbN str nanV zeroF (labels_of m) rs tws).
Proof.
  intros H1 H2 H3 H4 rs tws. unfold run_save, mk_ctx. rewrite H1, H2. cbn [eval_names].
  unfold assemble_gen.
  destruct rs as [|[n0 l] rest]; [reflexivity|].
  change (names ((n0, l) :: rest)) with (n0 :: names rest).
  assert (Hl : steps_of eqbN ((n0, l) :: rest) n0 = l).
  { unfold steps_of. cbn [assoc]. rewrite eqbN_refl. reflexivity. }
  cbv beta iota zeta. rewrite !Hl. cbn [assoc]. rewrite eqbN_refl.
  destruct l as [|r0 l0']; [reflexivity|].
  cbn [c_r0]. unfold run_ds.
  change (n0 :: names rest) with (names ((n0, r0 :: l0') :: rest)).
  destruct (r_3d r0).
  - rewrite H3. rewrite (eval_norm_canon true m k1 k2 _ tws n0 r0 l0' rest eq_refl).
    match goal with |- context [existsb ?f ?l] => destruct (existsb f l) end; [reflexivity|].
    destruct (x_of true (r_X r0)); [|reflexivity]. destruct (y_of true (r_Y r0)); [|reflexivity].
    destruct (zopt true (r_Z r0)); [|reflexivity].
    match goal with |- context [labels_of m ?l tws] => destruct (labels_of m l tws) end; reflexivity.
  - rewrite H4. rewrite (eval_norm_canon false m k3 k4 _ tws n0 r0 l0' rest eq_refl).
    match goal with |- context [existsb ?f ?l] => destruct (existsb f l) end; [reflexivity|].
    destruct (x_of false (r_X r0)); [|reflexivity]. destruct (y_of false (r_Y r0)); [|reflexivity].
    destruct (zopt false (r_Z r0)); [|reflexivity].
    match goal with |- context [labels_of m ?l tws] => destruct (labels_of m l tws) end; reflexivity.
Qed.

Theorem run_save_canonical (sd : save_d) (k1 k2 k3 k4 : fkey) :
  sv_names sd = NKeys -> sv_is3d sd = (KFlx, 3) ->
  normalize (sv_3d sd) = Some (canon_norm true MByName k1 k2) -> normalize (sv_2d sd) = Some (canon_norm false MByName k3 k4) ->
  forall (rs : results) (tws : list tower),
  run_save eqbN str nanV zeroF E sd rs tws =
  option_map (fun d => (d, @nil (string * string))) (assemble eqbN str nanV zeroF rs tws).
Proof. exact (run_save_canonical_gen sd MByName k1 k2 k3 k4). Qed.

(* the description of the ORIGINAL code (labels by position) means the model of the original code *)
Theorem run_save_positional (sd : save_d) (k1 k2 k3 k4 : fkey) :
  sv_names sd = NKeys -> sv_is3d sd = (KFlx, 3) ->
  normalize (sv_3d sd) = Some (canon_norm true MByPosition k1 k2) -> normalize (sv_2d sd) = Some (canon_norm false MByPosition k3 k4) ->
  forall (rs : results) (tws : list tower),
  run_save eqbN str nanV zeroF E sd rs tws =
  option_map (fun d => (d, @nil (string * string))) (assemble_orig eqbN str nanV zeroF rs tws).
Proof. exact (run_save_canonical_gen sd MByPosition k1 k2 k3 k4). Qed.

(* load returns what the library reads *)
Lemma run_load_canonical {file : Type} (read : file -> @dataset N L V F A) (ld : load_d) (f : file) :
  filter (fun s => match s with LPath | LRaiseIfMissing => false | _ => true end) ld = [LOpen []; LReturnOpened] ->
  run_load read ld f = Some (load read f).
Proof. intros H. unfold run_load. rewrite H. reflexivity. Qed.

End Main.

(* ---------- statements quoted by Properties/C18.v ---------- *)

Lemma fill_blocks_plain {R X : Type} (val : R -> X) (zero : X) (cs : list (list R)) (n1 : nat) :
  option_map to_list2 (loop_fill cs (fun t ti => (t, ti)) (fun _ _ => true) val (fzeros zero n1 (List.length cs))) =
  if forallb (fun s => List.length s <=? n1) cs
  then Some (map (fun t => map (fun s => match nth_error s t with Some r => val r | None => zero end) cs) (seq 0 n1))
  else None.
Proof. apply fill_blocks; intros; reflexivity. Qed.

Lemma fill_first_plain {R X : Type} (val : R -> X) (zero : X) (s0 : list R) (rest : list (list R)) :
  option_map to_list1 (loop_fill (s0 :: rest) (fun t ti => (t, 0)) (fun t ti => ti =? 0) val
                                 (fzeros zero (List.length s0) 1)) = Some (map val s0).
Proof. apply fill_first; intros; reflexivity. Qed.

Lemma index_mesh_coords {A : Type} (m : @mesh A) :
  index_mesh m [I0; I0; IAll] = x_of true m /\ index_mesh m [I0; IAll; I0] = y_of true m /\
  index_mesh m [IAll; I0; I0] = z_of m /\
  (forall l, m = M2 l -> index_mesh m [I0; IAll] = x_of false m /\ index_mesh m [IAll; I0] = y_of false m).
Proof.
  split; [apply coord3_x|]. split; [apply coord3_y|]. split; [apply coord3_z|].
  intros l Hm. subst m. split; [apply idx2_x|apply idx2_y].
Qed.
