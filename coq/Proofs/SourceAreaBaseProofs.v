(* Proofs about the source-area base functions (Model/SourceAreaBase.v): what their level sets mean.
   Exact real arithmetic; only the standard library's real-number axioms; no numerical tactic. *)
From Coq Require Import Reals Lra Nsatz.
From BL Require Import Model.KM Proofs.KMProofs Model.SourceAreaBase.
Open Scope R_scope.

(* ---------------------------------------------------------------------------------------------- *)
(* speed and unit wind vector *)

Lemma speed_pos u v : 0 < u * u + v * v -> 0 < sa_speed u v.
Proof. intro H. unfold sa_speed. apply sqrt_lt_R0. exact H. Qed.

Lemma speed_sqr u v : 0 < u * u + v * v -> sa_speed u v * sa_speed u v = u * u + v * v.
Proof. intro H. unfold sa_speed. apply sqrt_sqrt. lra. Qed.

Lemma speed_opp u v : sa_speed (- u) (- v) = sa_speed u v.
Proof. unfold sa_speed. f_equal. ring. Qed.

Lemma speed_scale k u v : sa_speed (k * u) (k * v) = Rabs k * sa_speed u v.
Proof.
  unfold sa_speed.
  replace (k * u * (k * u) + k * v * (k * v)) with (k² * (u * u + v * v)) by (unfold Rsqr; ring).
  rewrite sqrt_mult_alt by apply Rle_0_sqr.
  rewrite sqrt_Rsqr_abs. reflexivity.
Qed.

Lemma hats u v : 0 < u * u + v * v ->
  0 < sa_speed u v /\
  (u / sa_speed u v) * (u / sa_speed u v) + (v / sa_speed u v) * (v / sa_speed u v) = 1 /\
  u = (u / sa_speed u v) * sa_speed u v /\ v = (v / sa_speed u v) * sa_speed u v.
Proof.
  intro H. pose proof (speed_pos u v H) as Hs. pose proof (speed_sqr u v H) as Hq.
  split; [exact Hs|]. split.
  - replace (u / sa_speed u v * (u / sa_speed u v) + v / sa_speed u v * (v / sa_speed u v))
      with ((u * u + v * v) / (sa_speed u v * sa_speed u v)) by (field; lra).
    rewrite Hq. field. lra.
  - split; field; lra.
Qed.

Lemma along_hat x y xm ym u v : 0 < u * u + v * v ->
  along x y xm ym u v = u / sa_speed u v * (x - xm) + v / sa_speed u v * (y - ym).
Proof. intro H. pose proof (speed_pos u v H). unfold along. field. lra. Qed.

Lemma dist2_nonneg x y a b : 0 <= dist2 x y a b.
Proof.
  unfold dist2. pose proof (Rle_0_sqr (x - a)) as H1. pose proof (Rle_0_sqr (y - b)) as H2.
  unfold Rsqr in *. lra.
Qed.

Lemma dist_sqr x y a b : dist x y a b * dist x y a b = dist2 x y a b.
Proof. unfold dist. apply sqrt_sqrt. apply dist2_nonneg. Qed.

Lemma dist_nonneg x y a b : 0 <= dist x y a b.
Proof. unfold dist. apply sqrt_pos. Qed.

Lemma dist_pos x y a b : 0 < dist2 x y a b -> 0 < dist x y a b.
Proof. intro H. unfold dist. apply sqrt_lt_R0. exact H. Qed.

Lemma dist_lt_iff x1 y1 x2 y2 a b :
  dist x1 y1 a b < dist x2 y2 a b <-> dist2 x1 y1 a b < dist2 x2 y2 a b.
Proof.
  unfold dist. split; intro H.
  - apply sqrt_lt_0_alt. exact H.
  - apply sqrt_lt_1_alt. split; [apply dist2_nonneg | exact H].
Qed.

(* ---------------------------------------------------------------------------------------------- *)
(* contribution *)

Lemma contribution_identity f : sa_contribution f = f.
Proof. reflexivity. Qed.

(* ---------------------------------------------------------------------------------------------- *)
(* circular *)

Lemma circular_is_minus_dist2 x y xm ym :
  sa_circular x y xm ym = - ((x - xm) * (x - xm) + (y - ym) * (y - ym)) /\
  sa_circular x y xm ym = - (dist x y xm ym * dist x y xm ym).
Proof. split; [reflexivity|]. rewrite dist_sqr. reflexivity. Qed.

Lemma circular_order x1 y1 x2 y2 xm ym :
  sa_circular x2 y2 xm ym < sa_circular x1 y1 xm ym <-> dist x1 y1 xm ym < dist x2 y2 xm ym.
Proof.
  rewrite dist_lt_iff. unfold sa_circular, dist2. split; intro H; lra.
Qed.

Lemma circular_disc x y xm ym r : 0 <= r ->
  (- (r * r) < sa_circular x y xm ym <-> dist x y xm ym < r).
Proof.
  intro Hr. pose proof (dist_nonneg x y xm ym) as Hd. pose proof (dist_sqr x y xm ym) as Hq.
  change (sa_circular x y xm ym) with (- dist2 x y xm ym). rewrite <- Hq.
  split; intro H; nra.
Qed.

Lemma circular_turn a x y xm ym :
  sa_circular (turn_x a x y xm ym) (turn_y a x y xm ym) xm ym = sa_circular x y xm ym.
Proof.
  unfold sa_circular, turn_x, turn_y.
  pose proof (sin2_cos2 a) as H. unfold Rsqr in H.
  set (s := sin a) in *. set (c := cos a) in *. clearbody s c. nsatz.
Qed.

(* ---------------------------------------------------------------------------------------------- *)
(* upwind *)

Lemma upwind_is_projection x y xm ym u v : 0 < u * u + v * v ->
  sa_upwind x y xm ym u v = ((x - xm) * u + (y - ym) * v) / sqrt (u * u + v * v).
Proof.
  intro H. pose proof (speed_pos u v H) as Hs. unfold sa_upwind. unfold sa_speed in *. field. lra.
Qed.

Lemma upwind_is_along x y xm ym u v : 0 < u * u + v * v ->
  sa_upwind x y xm ym u v = along x y xm ym u v.
Proof. intro H. rewrite along_hat by exact H. reflexivity. Qed.

Lemma upwind_scale k x y xm ym u v : 0 < k -> 0 < u * u + v * v ->
  sa_upwind x y xm ym (k * u) (k * v) = sa_upwind x y xm ym u v.
Proof.
  intros Hk H. pose proof (speed_pos u v H) as Hs. unfold sa_upwind.
  rewrite speed_scale, (Rabs_pos_eq k) by lra. field. lra.
Qed.

Lemma upwind_reversal x y xm ym u v : 0 < u * u + v * v ->
  sa_upwind x y xm ym (- u) (- v) = - sa_upwind x y xm ym u v.
Proof.
  intro H. pose proof (speed_pos u v H) as Hs. unfold sa_upwind. rewrite speed_opp. field. lra.
Qed.

Lemma upwind_of_foot x y xm ym u v : 0 < u * u + v * v ->
  sa_upwind (foot_x x y xm ym u v) (foot_y x y xm ym u v) xm ym u v = sa_upwind x y xm ym u v.
Proof.
  intro H. destruct (hats u v H) as (Hs & Hab & _ & _).
  unfold foot_x, foot_y. rewrite along_hat by exact H. unfold sa_upwind.
  set (s := sa_speed u v) in *. set (a := u / s) in *. set (b := v / s) in *. clearbody a b. nsatz.
Qed.

Lemma upwind_perp_shift t x y xm ym u v : 0 < u * u + v * v ->
  sa_upwind (x - t * v) (y + t * u) xm ym u v = sa_upwind x y xm ym u v.
Proof. intro H. pose proof (speed_pos u v H) as Hs. unfold sa_upwind. field. lra. Qed.

(* ---------------------------------------------------------------------------------------------- *)
(* crosswind *)

Lemma crosswind_ratio x y xm ym u v : 0 < u * u + v * v ->
  sa_crosswind x y xm ym u v
  = - (((y - ym) * u - (x - xm) * v) * ((y - ym) * u - (x - xm) * v) / (u * u + v * v)).
Proof.
  intro H. pose proof (speed_pos u v H) as Hs. unfold sa_crosswind.
  rewrite <- (speed_sqr u v H). field. lra.
Qed.

Lemma crosswind_is_minus_perp2 x y xm ym u v : 0 < u * u + v * v ->
  sa_crosswind x y xm ym u v = - dist2 x y (foot_x x y xm ym u v) (foot_y x y xm ym u v).
Proof.
  intro H. destruct (hats u v H) as (Hs & Hab & _ & _).
  unfold dist2, foot_x, foot_y. rewrite along_hat by exact H. unfold sa_crosswind.
  set (s := sa_speed u v) in *. set (a := u / s) in *. set (b := v / s) in *. clearbody a b. nsatz.
Qed.

(* squared distance from the cell to ANY point of the wind axis = -crosswind + (offset from the foot)^2 *)
Lemma crosswind_axis_distance t x y xm ym u v : 0 < u * u + v * v ->
  dist2 x y (xm + t * (u / sa_speed u v)) (ym + t * (v / sa_speed u v))
  = - sa_crosswind x y xm ym u v + (t - along x y xm ym u v) * (t - along x y xm ym u v).
Proof.
  intro H. destruct (hats u v H) as (Hs & Hab & _ & _).
  unfold dist2. rewrite along_hat by exact H. unfold sa_crosswind.
  set (s := sa_speed u v) in *. set (a := u / s) in *. set (b := v / s) in *. clearbody a b. nsatz.
Qed.

Lemma crosswind_is_min_distance t x y xm ym u v : 0 < u * u + v * v ->
  - sa_crosswind x y xm ym u v
  <= dist2 x y (xm + t * (u / sa_speed u v)) (ym + t * (v / sa_speed u v)).
Proof.
  intro H. rewrite (crosswind_axis_distance t x y xm ym u v H).
  pose proof (Rle_0_sqr (t - along x y xm ym u v)) as Hq. unfold Rsqr in Hq. lra.
Qed.

Lemma pythagoras x y xm ym u v : 0 < u * u + v * v ->
  sa_upwind x y xm ym u v * sa_upwind x y xm ym u v + - sa_crosswind x y xm ym u v
  = dist2 x y xm ym.
Proof.
  intro H. destruct (hats u v H) as (Hs & Hab & _ & _).
  unfold sa_upwind, sa_crosswind, dist2.
  set (s := sa_speed u v) in *. set (a := u / s) in *. set (b := v / s) in *. clearbody a b. nsatz.
Qed.

Lemma crosswind_scale k x y xm ym u v : k <> 0 -> 0 < u * u + v * v ->
  sa_crosswind x y xm ym (k * u) (k * v) = sa_crosswind x y xm ym u v.
Proof.
  intros Hk H.
  assert (Hk2 : 0 < k * u * (k * u) + k * v * (k * v)).
  { replace (k * u * (k * u) + k * v * (k * v)) with (k * k * (u * u + v * v)) by ring.
    apply Rmult_lt_0_compat; [nra | exact H]. }
  rewrite (crosswind_ratio x y xm ym (k * u) (k * v) Hk2), (crosswind_ratio x y xm ym u v H).
  field. split; [lra|]. nra.
Qed.

Lemma crosswind_reversal x y xm ym u v : 0 < u * u + v * v ->
  sa_crosswind x y xm ym (- u) (- v) = sa_crosswind x y xm ym u v.
Proof.
  intro H. replace (- u) with (-1 * u) by ring. replace (- v) with (-1 * v) by ring.
  apply crosswind_scale; [lra | exact H].
Qed.

Lemma mirror_offsets x y xm ym u v : 0 < u * u + v * v ->
  mirror_x x y xm ym u v - xm
  = 2 * (u / sa_speed u v * (x - xm) + v / sa_speed u v * (y - ym)) * (u / sa_speed u v) - (x - xm) /\
  mirror_y x y xm ym u v - ym
  = 2 * (u / sa_speed u v * (x - xm) + v / sa_speed u v * (y - ym)) * (v / sa_speed u v) - (y - ym).
Proof.
  intro H. unfold mirror_x, mirror_y, foot_x, foot_y. rewrite along_hat by exact H. split; ring.
Qed.

Lemma crosswind_mirror x y xm ym u v : 0 < u * u + v * v ->
  sa_crosswind (mirror_x x y xm ym u v) (mirror_y x y xm ym u v) xm ym u v = sa_crosswind x y xm ym u v.
Proof.
  intro H. destruct (mirror_offsets x y xm ym u v H) as [Hx Hy].
  unfold sa_crosswind. rewrite Hx, Hy. ring.
Qed.

Lemma upwind_mirror x y xm ym u v : 0 < u * u + v * v ->
  sa_upwind (mirror_x x y xm ym u v) (mirror_y x y xm ym u v) xm ym u v = sa_upwind x y xm ym u v.
Proof.
  intro H. destruct (mirror_offsets x y xm ym u v H) as [Hx Hy]. destruct (hats u v H) as (Hs & Hab & _ & _).
  unfold sa_upwind. rewrite Hx, Hy.
  set (s := sa_speed u v) in *. set (a := u / s) in *. set (b := v / s) in *. clearbody a b. nsatz.
Qed.

Lemma dist2_mirror x y xm ym u v : 0 < u * u + v * v ->
  dist2 (mirror_x x y xm ym u v) (mirror_y x y xm ym u v) xm ym = dist2 x y xm ym.
Proof.
  intro H. destruct (mirror_offsets x y xm ym u v H) as [Hx Hy]. destruct (hats u v H) as (Hs & Hab & _ & _).
  unfold dist2. rewrite Hx, Hy.
  set (s := sa_speed u v) in *. set (a := u / s) in *. set (b := v / s) in *. clearbody a b. nsatz.
Qed.

(* ---------------------------------------------------------------------------------------------- *)
(* atan2 (Model/KM.v): the facts the sector function needs *)

Lemma atan_pos t : 0 < t -> 0 < atan t.
Proof. intro H. rewrite <- atan_0. apply atan_increasing. exact H. Qed.

Lemma atan_neg t : t < 0 -> atan t < 0.
Proof. intro H. rewrite <- atan_0. apply atan_increasing. exact H. Qed.

Lemma atan2_pos y x : 0 < x -> atan2 y x = atan (y / x).
Proof. intro H. unfold atan2. destruct (Rlt_dec 0 x); [reflexivity | contradiction]. Qed.

Lemma atan2_neg_nonneg y x : x < 0 -> 0 <= y -> atan2 y x = atan (y / x) + PI.
Proof.
  intros Hx Hy. unfold atan2.
  destruct (Rlt_dec 0 x); [lra|]. destruct (Rlt_dec x 0); [|lra]. destruct (Rle_dec 0 y); [reflexivity | lra].
Qed.

Lemma atan2_neg_neg y x : x < 0 -> y < 0 -> atan2 y x = atan (y / x) - PI.
Proof.
  intros Hx Hy. unfold atan2.
  destruct (Rlt_dec 0 x); [lra|]. destruct (Rlt_dec x 0); [|lra]. destruct (Rle_dec 0 y); [lra | reflexivity].
Qed.

Lemma atan2_zero_pos y : 0 < y -> atan2 y 0 = PI / 2.
Proof.
  intro Hy. unfold atan2.
  destruct (Rlt_dec 0 0); [lra|]. destruct (Rlt_dec 0 y); [reflexivity | lra].
Qed.

Lemma atan2_zero_neg y : y < 0 -> atan2 y 0 = - (PI / 2).
Proof.
  intro Hy. unfold atan2.
  destruct (Rlt_dec 0 0); [lra|]. destruct (Rlt_dec 0 y); [lra|]. destruct (Rlt_dec y 0); [reflexivity | lra].
Qed.

Lemma atan2_0_0 : atan2 0 0 = 0.
Proof.
  unfold atan2. destruct (Rlt_dec 0 0); [lra | reflexivity].
Qed.

Lemma atan2_scale k y x : 0 < k -> atan2 (k * y) (k * x) = atan2 y x.
Proof.
  intro Hk.
  destruct (Rtotal_order x 0) as [Hx | [Hx | Hx]].
  - assert (Hkx : k * x < 0) by nra.
    destruct (Rle_dec 0 y) as [Hy | Hy].
    + rewrite !atan2_neg_nonneg by nra. replace (k * y / (k * x)) with (y / x) by (field; lra). reflexivity.
    + rewrite !atan2_neg_neg by nra. replace (k * y / (k * x)) with (y / x) by (field; lra). reflexivity.
  - subst x. rewrite Rmult_0_r.
    destruct (Rtotal_order y 0) as [Hy | [Hy | Hy]].
    + rewrite !atan2_zero_neg by nra. reflexivity.
    + subst y. rewrite Rmult_0_r. reflexivity.
    + rewrite !atan2_zero_pos by nra. reflexivity.
  - rewrite !atan2_pos by nra. replace (k * y / (k * x)) with (y / x) by (field; lra). reflexivity.
Qed.

Lemma atan2_bounds y x : - PI < atan2 y x <= PI.
Proof.
  pose proof PI_RGT_0 as Hpi.
  destruct (Rtotal_order x 0) as [Hx | [Hx | Hx]].
  - destruct (Rle_dec 0 y) as [Hy | Hy].
    + rewrite atan2_neg_nonneg by lra. pose proof (atan_bound (y / x)) as Hb.
      destruct (Req_dec y 0) as [Hy0 | Hy0].
      * subst y. replace (0 / x) with 0 by (field; lra). rewrite atan_0. lra.
      * assert (Hq : y / x < 0).
        { apply Ropp_lt_cancel. rewrite Ropp_0. replace (- (y / x)) with (y / - x) by (field; lra).
          apply Rdiv_lt_0_compat; lra. }
        pose proof (atan_neg _ Hq). lra.
    + rewrite atan2_neg_neg by lra. pose proof (atan_bound (y / x)) as Hb.
      assert (Hq : 0 < y / x).
      { replace (y / x) with ((- y) / (- x)) by (field; lra). apply Rdiv_lt_0_compat; lra. }
      pose proof (atan_pos _ Hq). lra.
  - subst x. destruct (Rtotal_order y 0) as [Hy | [Hy | Hy]].
    + rewrite atan2_zero_neg by lra. lra.
    + subst y. rewrite atan2_0_0. lra.
    + rewrite atan2_zero_pos by lra. lra.
  - rewrite atan2_pos by lra. pose proof (atan_bound (y / x)). lra.
Qed.

Lemma atan2_abs_opp y x : Rabs (atan2 (- y) x) = Rabs (atan2 y x).
Proof.
  destruct (Rtotal_order x 0) as [Hx | [Hx | Hx]].
  - destruct (Rtotal_order y 0) as [Hy | [Hy | Hy]].
    + rewrite (atan2_neg_nonneg (- y)) by lra. rewrite (atan2_neg_neg y) by lra.
      replace (- y / x) with (- (y / x)) by (field; lra). rewrite atan_opp.
      replace (- atan (y / x) + PI) with (- (atan (y / x) - PI)) by ring. apply Rabs_Ropp.
    + subst y. rewrite Ropp_0. reflexivity.
    + rewrite (atan2_neg_neg (- y)) by lra. rewrite (atan2_neg_nonneg y) by lra.
      replace (- y / x) with (- (y / x)) by (field; lra). rewrite atan_opp.
      replace (- atan (y / x) - PI) with (- (atan (y / x) + PI)) by ring. apply Rabs_Ropp.
  - subst x. destruct (Rtotal_order y 0) as [Hy | [Hy | Hy]].
    + rewrite (atan2_zero_pos (- y)) by lra. rewrite (atan2_zero_neg y) by lra. symmetry. apply Rabs_Ropp.
    + subst y. rewrite Ropp_0. reflexivity.
    + rewrite (atan2_zero_neg (- y)) by lra. rewrite (atan2_zero_pos y) by lra. apply Rabs_Ropp.
  - rewrite !atan2_pos by lra. replace (- y / x) with (- (y / x)) by (field; lra).
    rewrite atan_opp. apply Rabs_Ropp.
Qed.

Lemma atan2_eq0_iff y x : atan2 y x = 0 <-> y = 0 /\ 0 <= x.
Proof.
  pose proof PI_RGT_0 as Hpi.
  destruct (Rtotal_order x 0) as [Hx | [Hx | Hx]].
  - split; [| intros [_ H]; lra]. intro H. exfalso.
    pose proof (atan_bound (y / x)) as Hb.
    destruct (Rle_dec 0 y) as [Hy | Hy].
    + rewrite atan2_neg_nonneg in H by lra. lra.
    + rewrite atan2_neg_neg in H by lra. lra.
  - subst x. destruct (Rtotal_order y 0) as [Hy | [Hy | Hy]].
    + rewrite atan2_zero_neg by lra. split; [intro H; lra | intros [H _]; lra].
    + subst y. rewrite atan2_0_0. split; [intros _; split; lra | reflexivity].
    + rewrite atan2_zero_pos by lra. split; [intro H; lra | intros [H _]; lra].
  - rewrite atan2_pos by lra. split.
    + intro H. apply atan_eq0 in H. split; [|lra].
      replace y with (y / x * x) by (field; lra). rewrite H. ring.
    + intros [H _]. subst y. replace (0 / x) with 0 by (field; lra). apply atan_0.
Qed.

(* ---------------------------------------------------------------------------------------------- *)
(* sector *)

(* |cell - tower| |wind| (cos, sin) of the relative angle = (dot, cross) with the upwind direction *)
Lemma sector_trig x y xm ym u v :
  dist x y xm ym * sa_speed u v * cos (sa_theta_rel x y xm ym u v) = up_dot x y xm ym u v /\
  dist x y xm ym * sa_speed u v * sin (sa_theta_rel x y xm ym u v) = up_cross x y xm ym u v.
Proof.
  unfold sa_theta_rel, up_dot, up_cross, dist, dist2.
  pose proof (polar_cos (x - xm) (y - ym)) as C1. pose proof (polar_sin (x - xm) (y - ym)) as S1.
  pose proof (polar_cos (- u) (- v)) as C2. pose proof (polar_sin (- u) (- v)) as S2.
  replace (- u * - u + - v * - v) with (u * u + v * v) in C2, S2 by ring.
  fold (sa_speed u v) in C2, S2.
  rewrite cos_minus, sin_minus.
  set (t1 := atan2 (y - ym) (x - xm)) in *. set (t2 := atan2 (- v) (- u)) in *.
  set (r1 := sqrt ((x - xm) * (x - xm) + (y - ym) * (y - ym))) in *. set (r2 := sa_speed u v) in *.
  split.
  - transitivity ((r1 * cos t1) * (r2 * cos t2) + (r1 * sin t1) * (r2 * sin t2)); [ring|].
    rewrite C1, S1, C2, S2. ring.
  - transitivity ((r1 * sin t1) * (r2 * cos t2) - (r1 * cos t1) * (r2 * sin t2)); [ring|].
    rewrite C1, S1, C2, S2. ring.
Qed.

(* the code's double arctan2 is one arctan2 of (cross, dot) *)
Lemma sector_closed_form x y xm ym u v : 0 < dist2 x y xm ym -> 0 < u * u + v * v ->
  sa_sector x y xm ym u v = - Rabs (atan2 (up_cross x y xm ym u v) (up_dot x y xm ym u v)).
Proof.
  intros Hp Hw. pose proof (dist_pos _ _ _ _ Hp) as Hd. pose proof (speed_pos _ _ Hw) as Hs.
  destruct (sector_trig x y xm ym u v) as [C S].
  unfold sa_sector. rewrite <- C, <- S. rewrite atan2_scale; [reflexivity|].
  apply Rmult_lt_0_compat; assumption.
Qed.

Lemma sector_range x y xm ym u v : - PI <= sa_sector x y xm ym u v <= 0.
Proof.
  unfold sa_sector.
  set (r := atan2 _ _). pose proof (atan2_bounds (sin (sa_theta_rel x y xm ym u v)) (cos (sa_theta_rel x y xm ym u v))) as Hb.
  fold r in Hb. unfold Rabs. destruct (Rcase_abs r); lra.
Qed.

Lemma cos_Rabs_eq r : cos (Rabs r) = cos r.
Proof. unfold Rabs. destruct (Rcase_abs r); [apply cos_neg | reflexivity]. Qed.

(* for ALL inputs: the cosine of the result is the cosine of the difference of the two directions *)
Lemma sector_cos_rel x y xm ym u v :
  cos (sa_sector x y xm ym u v) = cos (sa_theta_rel x y xm ym u v).
Proof.
  unfold sa_sector. rewrite cos_neg, cos_Rabs_eq.
  set (d := sa_theta_rel x y xm ym u v).
  pose proof (polar_cos (cos d) (sin d)) as H.
  replace (cos d * cos d + sin d * sin d) with 1 in H.
  - rewrite sqrt_1 in H. lra.
  - pose proof (sin2_cos2 d) as H1. unfold Rsqr in H1. lra.
Qed.

Lemma sector_cos x y xm ym u v : 0 < dist2 x y xm ym -> 0 < u * u + v * v ->
  cos (sa_sector x y xm ym u v) = up_cosangle x y xm ym u v.
Proof.
  intros Hp Hw. pose proof (dist_pos _ _ _ _ Hp) as Hd. pose proof (speed_pos _ _ Hw) as Hs.
  rewrite sector_cos_rel. destruct (sector_trig x y xm ym u v) as [C _].
  unfold up_cosangle. rewrite <- C. field. split; lra.
Qed.

(* the result is minus the (unsigned) angle between cell - tower and the upwind direction *)
Lemma sector_is_minus_angle x y xm ym u v : 0 < dist2 x y xm ym -> 0 < u * u + v * v ->
  sa_sector x y xm ym u v = - acos (up_cosangle x y xm ym u v).
Proof.
  intros Hp Hw. rewrite <- (sector_cos x y xm ym u v Hp Hw).
  pose proof (sector_range x y xm ym u v) as Hr.
  rewrite <- (cos_neg (sa_sector x y xm ym u v)). rewrite acos_cos by lra. ring.
Qed.

Lemma cross_dot_norm x y xm ym u v :
  up_cross x y xm ym u v * up_cross x y xm ym u v + up_dot x y xm ym u v * up_dot x y xm ym u v
  = dist2 x y xm ym * (u * u + v * v).
Proof. unfold up_cross, up_dot, dist2. ring. Qed.

Lemma upwind_ray_iff x y xm ym u v : 0 < dist2 x y xm ym -> 0 < u * u + v * v ->
  (up_cross x y xm ym u v = 0 /\ 0 <= up_dot x y xm ym u v) <-> on_upwind_ray x y xm ym u v.
Proof.
  intros Hp Hw. split.
  - intros [Hc Hd].
    pose proof (cross_dot_norm x y xm ym u v) as Hn. rewrite Hc in Hn.
    assert (Hd' : 0 < up_dot x y xm ym u v).
    { destruct (Req_dec (up_dot x y xm ym u v) 0) as [E | E]; [|lra].
      rewrite E in Hn. assert (0 < dist2 x y xm ym * (u * u + v * v)) by (apply Rmult_lt_0_compat; assumption). lra. }
    exists (up_dot x y xm ym u v / (u * u + v * v)). split; [apply Rdiv_lt_0_compat; assumption|].
    unfold up_cross, up_dot in *. split.
    + assert (E : (x - xm) * (u * u + v * v) = ((x - xm) * - u + (y - ym) * - v) * - u).
      { replace ((x - xm) * (u * u + v * v))
          with (((x - xm) * - u + (y - ym) * - v) * - u + v * ((y - ym) * - u - (x - xm) * - v)) by ring.
        rewrite Hc. ring. }
      replace (((x - xm) * - u + (y - ym) * - v) / (u * u + v * v) * - u)
        with ((((x - xm) * - u + (y - ym) * - v) * - u) / (u * u + v * v)) by (field; lra).
      rewrite <- E. field. lra.
    + assert (E : (y - ym) * (u * u + v * v) = ((x - xm) * - u + (y - ym) * - v) * - v).
      { replace ((y - ym) * (u * u + v * v))
          with (((x - xm) * - u + (y - ym) * - v) * - v - u * ((y - ym) * - u - (x - xm) * - v)) by ring.
        rewrite Hc. ring. }
      replace (((x - xm) * - u + (y - ym) * - v) / (u * u + v * v) * - v)
        with ((((x - xm) * - u + (y - ym) * - v) * - v) / (u * u + v * v)) by (field; lra).
      rewrite <- E. field. lra.
  - intros (t & Ht & Hx & Hy). unfold up_cross, up_dot. rewrite Hx, Hy. split; [ring|].
    replace (t * - u * - u + t * - v * - v) with (t * (u * u + v * v)) by ring.
    apply Rlt_le. apply Rmult_lt_0_compat; assumption.
Qed.

Lemma sector_zero_iff x y xm ym u v : 0 < dist2 x y xm ym -> 0 < u * u + v * v ->
  (sa_sector x y xm ym u v = 0 <-> on_upwind_ray x y xm ym u v).
Proof.
  intros Hp Hw. rewrite <- (upwind_ray_iff x y xm ym u v Hp Hw), <- atan2_eq0_iff.
  rewrite (sector_closed_form x y xm ym u v Hp Hw).
  set (r := atan2 _ _). split; intro H.
  - unfold Rabs in H. destruct (Rcase_abs r); lra.
  - rewrite H, Rabs_R0. ring.
Qed.

Lemma sector_mirror x y xm ym u v : 0 < dist2 x y xm ym -> 0 < u * u + v * v ->
  sa_sector (mirror_x x y xm ym u v) (mirror_y x y xm ym u v) xm ym u v = sa_sector x y xm ym u v.
Proof.
  intros Hp Hw.
  assert (Hp' : 0 < dist2 (mirror_x x y xm ym u v) (mirror_y x y xm ym u v) xm ym)
    by (rewrite dist2_mirror; assumption).
  rewrite (sector_closed_form _ _ _ _ _ _ Hp' Hw), (sector_closed_form _ _ _ _ _ _ Hp Hw).
  destruct (mirror_offsets x y xm ym u v Hw) as [Hx Hy]. destruct (hats u v Hw) as (Hs & Hab & Hu & Hv).
  assert (Hd : up_dot (mirror_x x y xm ym u v) (mirror_y x y xm ym u v) xm ym u v = up_dot x y xm ym u v).
  { unfold up_dot. rewrite Hx, Hy. clear Hx Hy Hp Hp'.
    set (s := sa_speed u v) in *. set (a := u / s) in *. set (b := v / s) in *. clearbody a b s.
    subst u v. nsatz. }
  assert (Hc : up_cross (mirror_x x y xm ym u v) (mirror_y x y xm ym u v) xm ym u v = - up_cross x y xm ym u v).
  { unfold up_cross. rewrite Hx, Hy. clear Hx Hy Hp Hp' Hd.
    set (s := sa_speed u v) in *. set (a := u / s) in *. set (b := v / s) in *. clearbody a b s.
    subst u v. nsatz. }
  rewrite Hd, Hc, atan2_abs_opp. reflexivity.
Qed.

Lemma sector_scale_wind k x y xm ym u v : 0 < k ->
  sa_sector x y xm ym (k * u) (k * v) = sa_sector x y xm ym u v.
Proof.
  intro Hk. unfold sa_sector, sa_theta_rel.
  replace (- (k * v)) with (k * - v) by ring. replace (- (k * u)) with (k * - u) by ring.
  rewrite atan2_scale by exact Hk. reflexivity.
Qed.

Lemma sector_scale_displacement k x y xm ym u v : 0 < k ->
  sa_sector (xm + k * (x - xm)) (ym + k * (y - ym)) xm ym u v = sa_sector x y xm ym u v.
Proof.
  intro Hk. unfold sa_sector, sa_theta_rel.
  replace (ym + k * (y - ym) - ym) with (k * (y - ym)) by ring.
  replace (xm + k * (x - xm) - xm) with (k * (x - xm)) by ring.
  rewrite atan2_scale by exact Hk. reflexivity.
Qed.

(* cell = tower: theta = arctan2(0,0) = 0, the value is minus the absolute upwind direction angle *)
Lemma sector_at_tower xm ym u v :
  sa_sector xm ym xm ym u v = - Rabs (atan2 (- v) (- u)).
Proof.
  destruct (Req_dec (u * u + v * v) 0) as [Hz | Hnz].
  - assert (u = 0) by nra. assert (v = 0) by nra. subst u v.
    unfold sa_sector, sa_theta_rel. replace (ym - ym) with 0 by ring. replace (xm - xm) with 0 by ring.
    rewrite Ropp_0, atan2_0_0. replace (0 - 0) with 0 by ring. rewrite sin_0, cos_0.
    rewrite atan2_pos by lra. replace (0 / 1) with 0 by field. rewrite atan_0. reflexivity.
  - assert (Hw : 0 < u * u + v * v) by nra. pose proof (speed_pos u v Hw) as Hs.
    unfold sa_sector, sa_theta_rel. replace (ym - ym) with 0 by ring. replace (xm - xm) with 0 by ring.
    rewrite atan2_0_0. replace (0 - atan2 (- v) (- u)) with (- atan2 (- v) (- u)) by ring.
    rewrite sin_neg, cos_neg.
    pose proof (polar_cos (- u) (- v)) as C2. pose proof (polar_sin (- u) (- v)) as S2.
    replace (- u * - u + - v * - v) with (u * u + v * v) in C2, S2 by ring. fold (sa_speed u v) in C2, S2.
    rewrite <- (atan2_scale (sa_speed u v)) by exact Hs.
    replace (sa_speed u v * - sin (atan2 (- v) (- u))) with (- (sa_speed u v * sin (atan2 (- v) (- u)))) by ring.
    rewrite C2, S2. rewrite atan2_abs_opp. reflexivity.
Qed.

(* the three shapes of the closed form (used by the interval-certified correspondence; the signs of dot and
   cross are decided by exact rational arithmetic on the case's inputs) *)
Lemma sector_front x y xm ym u v : 0 < dist2 x y xm ym -> 0 < u * u + v * v -> 0 < up_dot x y xm ym u v ->
  sa_sector x y xm ym u v = - Rabs (atan (up_cross x y xm ym u v / up_dot x y xm ym u v)).
Proof. intros Hp Hw Hd. rewrite sector_closed_form by assumption. rewrite atan2_pos by exact Hd. reflexivity. Qed.

Lemma sector_back x y xm ym u v : 0 < dist2 x y xm ym -> 0 < u * u + v * v -> up_dot x y xm ym u v < 0 ->
  sa_sector x y xm ym u v = - (PI - Rabs (atan (up_cross x y xm ym u v / up_dot x y xm ym u v))).
Proof.
  intros Hp Hw Hd. rewrite sector_closed_form by assumption.
  set (c := up_cross x y xm ym u v) in *. set (d := up_dot x y xm ym u v) in *.
  pose proof (atan_bound (c / d)) as Hb. pose proof PI_RGT_0 as Hpi.
  destruct (Rtotal_order c 0) as [Hc | [Hc | Hc]].
  - rewrite atan2_neg_neg by lra.
    assert (Hq : 0 < c / d). { replace (c / d) with ((- c) / (- d)) by (field; lra). apply Rdiv_lt_0_compat; lra. }
    pose proof (atan_pos _ Hq) as Ha. rewrite (Rabs_left (atan (c / d) - PI)) by lra.
    rewrite (Rabs_pos_eq (atan (c / d))) by lra. ring.
  - rewrite atan2_neg_nonneg by lra. rewrite Hc. replace (0 / d) with 0 by (field; lra).
    rewrite atan_0, Rabs_R0. rewrite Rabs_pos_eq by lra. ring.
  - rewrite atan2_neg_nonneg by lra.
    assert (Hq : c / d < 0).
    { apply Ropp_lt_cancel. rewrite Ropp_0. replace (- (c / d)) with (c / - d) by (field; lra).
      apply Rdiv_lt_0_compat; lra. }
    pose proof (atan_neg _ Hq) as Ha. rewrite (Rabs_pos_eq (atan (c / d) + PI)) by lra.
    rewrite (Rabs_left (atan (c / d))) by lra. ring.
Qed.

Lemma sector_side x y xm ym u v : 0 < dist2 x y xm ym -> 0 < u * u + v * v -> up_dot x y xm ym u v = 0 ->
  sa_sector x y xm ym u v = - (PI / 2).
Proof.
  intros Hp Hw Hd. rewrite sector_closed_form by assumption.
  pose proof (cross_dot_norm x y xm ym u v) as Hn. rewrite Hd in Hn.
  assert (Hpos : 0 < dist2 x y xm ym * (u * u + v * v)) by (apply Rmult_lt_0_compat; assumption).
  rewrite Hd. pose proof PI_RGT_0 as Hpi.
  destruct (Rtotal_order (up_cross x y xm ym u v) 0) as [Hc | [Hc | Hc]].
  - rewrite atan2_zero_neg by exact Hc. rewrite Rabs_Ropp, Rabs_pos_eq by lra. reflexivity.
  - rewrite Hc in Hn. lra.
  - rewrite atan2_zero_pos by exact Hc. rewrite Rabs_pos_eq by lra. reflexivity.
Qed.

(* cell = tower, by the quadrant of the upwind vector -(u, v) *)
Lemma atan2_abs_west y x : x < 0 -> Rabs (atan2 y x) = PI - Rabs (atan (y / x)).
Proof.
  intro Hx. pose proof (atan_bound (y / x)) as Hb. pose proof PI_RGT_0 as Hpi.
  destruct (Rtotal_order y 0) as [Hy | [Hy | Hy]].
  - rewrite atan2_neg_neg by lra.
    assert (Hq : 0 < y / x). { replace (y / x) with ((- y) / (- x)) by (field; lra). apply Rdiv_lt_0_compat; lra. }
    pose proof (atan_pos _ Hq) as Ha. rewrite (Rabs_left (atan (y / x) - PI)) by lra.
    rewrite (Rabs_pos_eq (atan (y / x))) by lra. ring.
  - rewrite atan2_neg_nonneg by lra. rewrite Hy. replace (0 / x) with 0 by (field; lra).
    rewrite atan_0, Rabs_R0. rewrite Rabs_pos_eq by lra. ring.
  - rewrite atan2_neg_nonneg by lra.
    assert (Hq : y / x < 0).
    { apply Ropp_lt_cancel. rewrite Ropp_0. replace (- (y / x)) with (y / - x) by (field; lra).
      apply Rdiv_lt_0_compat; lra. }
    pose proof (atan_neg _ Hq) as Ha. rewrite (Rabs_pos_eq (atan (y / x) + PI)) by lra.
    rewrite (Rabs_left (atan (y / x))) by lra. ring.
Qed.

Lemma sector_tower_east xm ym u v : u < 0 ->
  sa_sector xm ym xm ym u v = - Rabs (atan (- v / - u)).
Proof. intro H. rewrite sector_at_tower, atan2_pos by lra. reflexivity. Qed.

Lemma sector_tower_west xm ym u v : 0 < u ->
  sa_sector xm ym xm ym u v = - (PI - Rabs (atan (- v / - u))).
Proof. intro H. rewrite sector_at_tower, atan2_abs_west by lra. reflexivity. Qed.

Lemma sector_tower_ns xm ym u v : u = 0 -> v <> 0 ->
  sa_sector xm ym xm ym u v = - (PI / 2).
Proof.
  intros Hu Hv. rewrite sector_at_tower. subst u. rewrite Ropp_0. pose proof PI_RGT_0 as Hpi.
  destruct (Rtotal_order v 0) as [H | [H | H]]; [| contradiction |].
  - rewrite atan2_zero_pos by lra. rewrite Rabs_pos_eq by lra. reflexivity.
  - rewrite atan2_zero_neg by lra. rewrite Rabs_Ropp, Rabs_pos_eq by lra. reflexivity.
Qed.

(* level sets: for an opening half-angle alpha in [0, pi], sector > -alpha is the open cone of directions whose
   angle with the upwind direction is below alpha:  cos(angle) > cos(alpha) *)
Lemma sector_cone x y xm ym u v alpha : 0 < dist2 x y xm ym -> 0 < u * u + v * v -> 0 <= alpha <= PI ->
  (- alpha < sa_sector x y xm ym u v <-> cos alpha < up_cosangle x y xm ym u v).
Proof.
  intros Hp Hw Ha. rewrite <- (sector_cos x y xm ym u v Hp Hw).
  pose proof (sector_range x y xm ym u v) as Hr. rewrite <- (cos_neg (sa_sector x y xm ym u v)).
  set (g := - sa_sector x y xm ym u v). assert (Hg : 0 <= g <= PI) by (unfold g; lra).
  replace (- alpha < sa_sector x y xm ym u v) with (- alpha < - g) by (unfold g; f_equal; ring).
  split; intro H.
  - apply cos_decreasing_1; lra.
  - assert (g < alpha); [|lra]. apply cos_decreasing_0; lra.
Qed.

(* ---------------------------------------------------------------------------------------------- *)
(* concrete instances (non-vacuity of the hypotheses, and the formulas at work):
   tower (0,0), cell (5,0), wind (3,4) [speed 5]: 5 = 3 along + 4 across;  a cell on the upwind ray;  cell = tower *)
Lemma speed_3_4 : sa_speed 3 4 = 5.
Proof. unfold sa_speed. replace (3 * 3 + 4 * 4) with (5 * 5) by ring. apply sqrt_square. lra. Qed.

Lemma base_examples :
  0 < 3 * 3 + 4 * 4 /\ 0 < dist2 5 0 0 0 /\
  sa_circular 5 0 0 0 = -25 /\ sa_upwind 5 0 0 0 3 4 = 3 /\ sa_crosswind 5 0 0 0 3 4 = -16 /\
  sa_sector 5 0 0 0 3 4 = - acos (-3 / 5) /\
  on_upwind_ray 7 9 1 1 (-3) (-4) /\ sa_sector 7 9 1 1 (-3) (-4) = 0 /\
  sa_sector 1 1 1 1 0 (-2) = - (PI / 2).
Proof.
  assert (Hw : 0 < 3 * 3 + 4 * 4) by lra.
  assert (Hp : 0 < dist2 5 0 0 0) by (unfold dist2; lra).
  assert (Hray : on_upwind_ray 7 9 1 1 (-3) (-4)) by (exists 2; repeat split; lra).
  split; [exact Hw|]. split; [exact Hp|].
  split; [unfold sa_circular; lra|].
  split; [unfold sa_upwind; rewrite speed_3_4; lra|].
  split; [unfold sa_crosswind; rewrite speed_3_4; lra|].
  split.
  { rewrite (sector_is_minus_angle 5 0 0 0 3 4 Hp Hw). f_equal. f_equal.
    unfold up_cosangle, up_dot, dist, dist2. rewrite speed_3_4.
    replace ((5 - 0) * (5 - 0) + (0 - 0) * (0 - 0)) with (5 * 5) by ring. rewrite sqrt_square by lra. field. }
  split; [exact Hray|].
  split.
  { apply sector_zero_iff; [unfold dist2; lra | lra | exact Hray]. }
  rewrite sector_at_tower. replace (- -2) with 2 by ring. rewrite Ropp_0.
  rewrite atan2_zero_pos by lra. pose proof PI_RGT_0. rewrite Rabs_pos_eq by lra. reflexivity.
Qed.
