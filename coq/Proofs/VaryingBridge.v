(* The layer list of Proofs/VaryingOrder.v (coefficient FUNCTIONS sampled at the lower node of each layer)
   is exactly what Model/Solver.v's layers_of builds from the profile ARRAYS the caller passes: the
   functions sampled at the grid nodes z_0 .. z_N and the node heights themselves. *)
From Coq Require Import Reals List Lia.
From Coquelicot Require Import Coquelicot.
From BL Require Import Base.Ops Base.ROps Model.Solver Proofs.ComplexOrder Proofs.VaryingOrder.
Import ListNotations.
Local Open Scope R_scope.

(* node heights z_0, z_0 + d_0, z_0 + d_0 + d_1, ... *)
Fixpoint nodes (z0 : R) (dzs : list R) : list R :=
  match dzs with [] => [z0] | d :: r => z0 :: nodes (z0 + d) r end.

Lemma nodes_length z0 dzs : length (nodes z0 dzs) = S (length dzs).
Proof. revert z0. induction dzs as [|d r IH]; intros z0; cbn [nodes length]; [reflexivity|]. rewrite IH. reflexivity. Qed.

Definition sampled (f : R -> R) (zs : list R) : list (Ops.C ROps) := map (fun z => RtoC (f z)) zs.

Definition sampled_profiles (Kx Ky u v Kz : R -> R) (zs : list R) : profiles ROps :=
  mkProf ROps (sampled u zs) (sampled v zs) (sampled Kx zs) (sampled Ky zs) (sampled Kz zs).

Lemma Cminus_RtoC_step (z d : R) : csub ROps (RtoC (z + d)) (RtoC z) = RtoC d.
Proof. change (Cminus (RtoC (z + d)) (RtoC z) = RtoC d). unfold Cminus, Cplus, Copp, RtoC. cbn [fst snd]. f_equal; ring. Qed.

Lemma nodes_head z0 dzs : exists r, nodes z0 dzs = z0 :: r.
Proof. destruct dzs as [|d r]; cbn [nodes]; eexists; reflexivity. Qed.

Theorem layers_of_sampled (Kx Ky u v Kz : R -> R) : forall (dzs : list R) (z0 : R),
  layers_of ROps (map RtoC (nodes z0 dzs)) (sampled_profiles Kx Ky u v Kz (nodes z0 dzs))
  = layers_v Kx Ky u v Kz z0 dzs.
Proof.
  unfold layers_of, layers_v, sampled_profiles, sampled. cbn [p_Kx p_Ky p_u p_v p_Kz].
  induction dzs as [|d r IH]; intros z0.
  - cbn. reflexivity.
  - cbn [nodes map].
    destruct (nodes_head (z0 + d) r) as [tl Etl]. rewrite Etl. cbn [map diffs mk_layers layers_from].
    rewrite Cminus_RtoC_step. f_equal.
    specialize (IH (z0 + d)). rewrite Etl in IH. cbn [map] in IH. exact IH.
Qed.

Lemma nodes_nth z0 dzs : forall k, (k <= length dzs)%nat -> nth k (nodes z0 dzs) 0 = zk z0 dzs k.
Proof.
  revert z0. induction dzs as [|d r IH]; intros z0 k Hk.
  - cbn [length] in Hk. assert (k = 0%nat) by lia. subst k. cbn [nodes nth]. unfold zk. rewrite height_0. ring.
  - destruct k as [|k].
    + cbn [nodes nth]. unfold zk. rewrite height_0. ring.
    + cbn [nodes nth]. rewrite IH by (cbn [length] in Hk; lia). unfold zk. rewrite height_cons. ring.
Qed.

