(* Static lemmas used by coq/Bridge/RuntimeBridge.v (tie (B) of C12): facts about the `_compiled` dict of
   Model/RuntimeDesc.v, the reading of usages off event sequences, and the generic step from "every op of the
   description agrees with Model/Runtime.v" to "every history agrees" (for ANY program p - the bridge instantiates
   it with the program generated from the current source). *)
From Coq Require Import List Arith Bool String Lia.
From BL Require Import Model.Runtime Model.RuntimeDesc.
Import ListNotations.
Open Scope string_scope.

(* ------------------------------------------------------------------ the dict invariant, as rewriting facts *)

(* what dict_okb says, in the form `cbv` leaves the model's membership tests in (Bool.eqb applied to a literal is
   unfolded) *)
Lemma dict_okb_facts : forall w, dict_okb w = true ->
  existsb (fun b2 : bool => if b2 then false else true) (w_order w) = is_some (w_false w)
  /\ existsb (fun b2 : bool => if b2 then true else false) (w_order w) = is_some (w_true w)
  /\ (forall ki, w_false w = Some ki -> k_par ki = false)
  /\ (forall ki, w_true w = Some ki -> k_par ki = true)
  /\ slot_par false (w_false w) = true
  /\ slot_par true (w_true w) = true.
Proof.
  intros w H. unfold dict_okb in H.
  apply andb_true_iff in H. destruct H as [H H4].
  apply andb_true_iff in H. destruct H as [H H3].
  apply andb_true_iff in H. destruct H as [H1 H2].
  apply Bool.eqb_prop in H1. apply Bool.eqb_prop in H2.
  repeat split.
  - exact H1.
  - exact H2.
  - intros ki E. rewrite E in H3. simpl in H3. apply Bool.eqb_prop in H3. exact H3.
  - intros ki E. rewrite E in H4. simpl in H4. apply Bool.eqb_prop in H4. exact H4.
  - exact H3.
  - exact H4.
Qed.

Lemma dict_okb_intro : forall w,
  existsb (fun b2 : bool => if b2 then false else true) (w_order w) = is_some (w_false w) ->
  existsb (fun b2 : bool => if b2 then true else false) (w_order w) = is_some (w_true w) ->
  slot_par false (w_false w) = true -> slot_par true (w_true w) = true ->
  dict_okb w = true.
Proof.
  intros w H1 H2 H3 H4. unfold dict_okb.
  change (Bool.eqb false) with (fun b2 : bool => if b2 then false else true).
  change (Bool.eqb true) with (fun b2 : bool => if b2 then true else false).
  rewrite H1, H2, H3, H4.
  destruct (is_some (w_false w)), (is_some (w_true w)); reflexivity.
Qed.

Lemma existsb_snoc_false : forall l, existsb (fun b2 : bool => if b2 then false else true) (l ++ [false]) = true.
Proof. intros l. rewrite existsb_app. simpl. destruct (existsb _ l); reflexivity. Qed.

Lemma existsb_snoc_true : forall l, existsb (fun b2 : bool => if b2 then true else false) (l ++ [true]) = true.
Proof. intros l. rewrite existsb_app. simpl. destruct (existsb _ l); reflexivity. Qed.

Lemma existsb_snoc_other_ft : forall l, existsb (fun b2 : bool => if b2 then false else true) (l ++ [true])
  = existsb (fun b2 : bool => if b2 then false else true) l.
Proof. intros l. rewrite existsb_app. simpl. destruct (existsb _ l); reflexivity. Qed.

Lemma existsb_snoc_other_tf : forall l, existsb (fun b2 : bool => if b2 then true else false) (l ++ [false])
  = existsb (fun b2 : bool => if b2 then true else false) l.
Proof. intros l. rewrite existsb_app. simpl. destruct (existsb _ l); reflexivity. Qed.

(* ------------------------------------------------------------------ usages and events *)

Lemma usage_of_usage_events : forall fp u,
  (u_k1 u = None <-> u_k2 u = None) -> usage_of_events (usage_events fp u) = Some u.
Proof.
  intros fp [pre k1 k2 a b] H. simpl in H.
  destruct k1 as [[p1 n1]|], k2 as [[p2 n2]|]; destruct pre; try reflexivity;
    exfalso; destruct H as [H1 H2]; (discriminate (H1 eq_refl) || discriminate (H2 eq_refl)).
Qed.

Lemma run_solve_kernels : forall fp an s,
  u_k1 (snd (run_solve fp an s)) = None <-> u_k2 (snd (run_solve fp an s)) = None.
Proof.
  intros fp an s. unfold run_solve.
  destruct fp, an; simpl;
    repeat match goal with |- context [let '(_, _) := ?x in _] => destruct x end; simpl; split; intro H; try reflexivity; discriminate H.
Qed.

(* ------------------------------------------------------------------ from ops to histories *)

Section Histories.
Variable A : Type.
Variables src kout mid fld : Type.
Variable flat : A -> src.
Variable fft_src : nat -> A -> src.
Variable closed : A -> src -> mid.
Variable kernel : bool -> nat -> A -> src -> bool -> kout.
Variable combine : A -> src -> kout -> kout -> mid.
Variable fft_out : nat -> A -> mid -> bool -> fld.

Variable p : program.
Variables ib ia : nat.

Let dstep := desc_step A src kout mid fld flat fft_src closed kernel combine fft_out p ib ia.
Let drun := desc_run A src kout mid fld flat fft_src closed kernel combine fft_out p ib ia.
Let mstep := Runtime.step A src kout mid fld flat fft_src closed kernel combine fft_out.
Let mrun := Runtime.run A src kout mid fld flat fft_src closed kernel combine fft_out.

(* one op: the description produces a world standing for the model's next state, the model's result, and keeps
   the dict invariant *)
Definition step_agrees : Prop :=
  forall (o : op A) (w : world), dict_okb w = true ->
    exists w' evs,
      dstep o w = Some (w', evs, snd (mstep o (abs w)))
      /\ abs w' = fst (mstep o (abs w))
      /\ dict_okb w' = true.

Lemma run_agrees_of_step : step_agrees ->
  forall (ops : list (op A)) (w : world), dict_okb w = true ->
    exists w', drun ops w = Some (w', snd (mrun ops (abs w)))
               /\ abs w' = fst (mrun ops (abs w))
               /\ dict_okb w' = true.
Proof.
  intros Hstep ops. induction ops as [|o r IH]; intros w Hok.
  - exists w. repeat split; assumption.
  - destruct (Hstep o w Hok) as [w1 [evs [E1 [A1 O1]]]].
    destruct (IH w1 O1) as [w2 [E2 [A2 O2]]].
    exists w2. unfold drun, mrun, dstep, mstep in *. clear Hstep IH. simpl.
    rewrite E1. simpl in E2. rewrite E2.
    rewrite A1 in A2, E2 |- *.
    destruct (step A src kout mid fld flat fft_src closed kernel combine fft_out o (abs w)) as [s1 out] eqn:Es.
    simpl in *.
    destruct (run A src kout mid fld flat fft_src closed kernel combine fft_out r s1) as [s2 outs] eqn:Er.
    simpl in *. repeat split; assumption.
Qed.

End Histories.
