From Coq Require Import List Arith Bool String Lia.
From BL Require Import Model.Met Proofs.MetProofs Model.Interface.
Import ListNotations.

(* ------------------------------------------------------------------ run_bldfm_single *)
Section PlumbP.
Context {A T F K : Type}.
Notation config := (config A T).
Notation tower := (tower A).
Notation call_record := (call_record A T F K).

(* z0 given => profiles from z0 and no ustar; else from that step's ustar *)
Definition forcing_rule (m : met A T) (i : nat) (ustar z0 : option A) : Prop :=
  match m_z0 m with
  | Some z => z0 = Some z /\ ustar = None
  | None => z0 = None /\ exists f a, m_ustar m = Some f /\ field_at f i a /\ ustar = Some a
  end.

(* the timestamp label: entry i of the timestamps list, else the index itself *)
Definition stamp_rule (m : met A T) (i : nat) (st : stamp T) : Prop :=
  match m_timestamps m with
  | None => st = Index i
  | Some ts => exists t, nth_error ts i = Some t /\ st = Stamp t
  end.

Lemma prof_rule_fields (cfg : config) (tw : tower) (s : step A T) (w : wind_call A) :
  let p := @prof_rule A T cfg tw s w in
  pc_n p = d_nz (c_domain cfg) /\ pc_meas_height p = t_zm tw /\ pc_wind p = (WindU w, WindV w) /\
  pc_mol p = s_mol s /\ pc_closure p = sv_closure (c_solver cfg) /\
  match s_z0 s with
  | Some z => pc_z0 p = Some z /\ pc_ustar p = None
  | None => pc_z0 p = None /\ pc_ustar p = s_ustar s
  end.
Proof. unfold prof_rule. destruct (s_z0 s); cbn; auto 10. Qed.

Lemma validate_forcing (m : met A T) : validate m = true -> m_z0 m = None -> m_ustar m <> None.
Proof. unfold validate. intros H Hz Hu. rewrite Hu, Hz in H. discriminate H. Qed.

Lemma step_forcing (m : met A T) i (s : step A T) :
  validate m = true ->
  match m_ustar m with None => s_ustar s = None
    | Some f => exists a, s_ustar s = Some a /\ field_at f i a end ->
  s_z0 s = m_z0 m ->
  forall ustar z0,
  match s_z0 s with Some z => z0 = Some z /\ ustar = None | None => z0 = None /\ ustar = s_ustar s end ->
  forcing_rule m i ustar z0.
Proof.
  intros Hv Hu Hz ustar z0 H. unfold forcing_rule. rewrite Hz in H.
  destruct (m_z0 m) as [z|] eqn:Ez; [exact H|].
  destruct H as [H0 H1]. split; [exact H0|].
  destruct (m_ustar m) as [f|] eqn:Eu.
  - destruct Hu as (a & Ha & Hf). exists f, a. repeat split; [exact Hf|congruence].
  - exfalso. exact (validate_forcing m Hv Ez Eu).
Qed.

(* C13, the plumbing: which numbers reach which call *)
Lemma plumb_spec (cfg : config) (tw : tower) (i : nat) (flux : option F) (cache : option K) :
  validate (c_met cfg) = true -> i < n_timesteps (c_met cfg) ->
  exists (s : step A T) (cr : call_record),
    get_step (c_met cfg) i = Some s /\ plumb_c cfg tw i flux cache = Some cr /\
    (* compute_wind_fields: that step's speed and direction *)
    field_at (m_wind_speed (c_met cfg)) i (w_speed (cr_wind cr)) /\
    field_at (m_wind_dir (c_met cfg)) i (w_dir (cr_wind cr)) /\
    (* vertical_profiles *)
    pc_n (cr_prof cr) = d_nz (c_domain cfg) /\
    pc_meas_height (cr_prof cr) = t_zm tw /\
    pc_wind (cr_prof cr) = (WindU (cr_wind cr), WindV (cr_wind cr)) /\
    field_at (m_mol (c_met cfg)) i (pc_mol (cr_prof cr)) /\
    pc_closure (cr_prof cr) = sv_closure (c_solver cfg) /\
    forcing_rule (c_met cfg) i (pc_ustar (cr_prof cr)) (pc_z0 (cr_prof cr)) /\
    (* surface flux *)
    cr_source cr = match flux with
                   | Some f => Supplied f
                   | None => Ideal (d_nx (c_domain cfg), d_ny (c_domain cfg))
                                   (d_xmax (c_domain cfg), d_ymax (c_domain cfg))
                                   (sv_src_loc (c_solver cfg)) (sv_shape (c_solver cfg))
                   end /\
    (* steady_state_transport_solver *)
    sc_srf_flx (cr_solver cr) = cr_source cr /\
    sc_zprof (cr_solver cr) = cr_prof cr /\
    sc_domain (cr_solver cr) = (d_xmax (c_domain cfg), d_ymax (c_domain cfg)) /\
    sc_levels (cr_solver cr) =
      match d_output_levels (c_domain cfg) with
      | Some (x :: r) => LvList (x :: r)
      | _ => if d_full_output (c_domain cfg) then LvList (seq 0 (S (d_nz (c_domain cfg))))
             else LvScalar (d_nz (c_domain cfg))
      end /\
    sc_modes (cr_solver cr) = d_modes (c_domain cfg) /\
    sc_meas_pt (cr_solver cr) = (t_x tw, t_y tw) /\
    sc_footprint (cr_solver cr) = sv_footprint (c_solver cfg) /\
    sc_analytic (cr_solver cr) = sv_analytic (c_solver cfg) /\
    sc_halo (cr_solver cr) = d_halo (c_domain cfg) /\
    sc_precision (cr_solver cr) = sv_precision (c_solver cfg) /\
    sc_cache (cr_solver cr) = cache /\
    (* labels *)
    l_tower_name (cr_labels cr) = t_name tw /\
    l_tower_xy (cr_labels cr) = (t_x tw, t_y tw) /\
    stamp_rule (c_met cfg) i (l_timestamp (cr_labels cr)) /\
    l_params (cr_labels cr) = s.
Proof.
  intros Hv Hi.
  destruct (get_step_spec (c_met cfg) i Hv Hi) as (s & Hs & Hu & Hmol & Hws & Hwd & Hz0 & Hts).
  exists s. unfold plumb_c. rewrite Hs. eexists. split; [reflexivity|]. split; [reflexivity|].
  cbn [cr_wind cr_prof cr_source cr_solver cr_labels w_speed w_dir sc_srf_flx sc_zprof sc_domain sc_levels
       sc_modes sc_meas_pt sc_footprint sc_analytic sc_halo sc_precision sc_cache l_tower_name l_tower_xy
       l_timestamp l_params].
  pose proof (prof_rule_fields cfg tw s (mkWind (s_wind_speed s) (s_wind_dir s))) as Hp.
  cbv zeta in Hp. destruct Hp as (Hn & Hzm & Hw & Hm & Hc & Hf).
  split; [exact Hws|]. split; [exact Hwd|]. split; [exact Hn|]. split; [exact Hzm|]. split; [exact Hw|].
  split; [rewrite Hm; exact Hmol|]. split; [exact Hc|].
  split; [exact (step_forcing (c_met cfg) i s Hv Hu Hz0 _ _ Hf)|].
  split; [unfold source_rule; destruct flux; reflexivity|].
  split; [reflexivity|]. split; [reflexivity|]. split; [reflexivity|].
  split; [reflexivity|]. split; [reflexivity|]. split; [reflexivity|]. split; [reflexivity|].
  split; [reflexivity|]. split; [reflexivity|]. split; [reflexivity|]. split; [reflexivity|].
  split; [reflexivity|]. split; [reflexivity|].
  split; [|reflexivity].
  unfold stamp_rule. destruct (m_timestamps (c_met cfg)); exact Hts.
Qed.

(* outside the step range the single run raises (IndexError) when some forcing field or the timestamps
   are a list: nothing is called *)
Lemma plumb_none (cfg : config) (tw : tower) i (flux : option F) (cache : option K) :
  get_step (c_met cfg) i = None -> plumb_c cfg tw i flux cache = None.
Proof. intros H. unfold plumb_c. rewrite H. reflexivity. Qed.

Lemma plumb_default_cache (cfg : config) (tw : tower) i (flux : option F) :
  plumb cfg tw i flux = plumb_c cfg tw i flux (@None K).
Proof. reflexivity. Qed.

(* C13, the run: the value returned is the solver applied to exactly the by-hand pipeline arguments.
   This holds by construction of the model (run_single is defined through plumb_c); the content - that the
   Python function does make these calls and returns the solver's arrays untouched - is established by the
   correspondence, not by this lemma. *)
Lemma run_is_pipeline {G : Type} (solve : solver_call A F K -> G)
    (cfg : config) (tw : tower) (i : nat) (flux : option F) (cache : option K) :
  validate (c_met cfg) = true -> i < n_timesteps (c_met cfg) ->
  exists (s : step A T) speed dir mol ustar z0 st,
    get_step (c_met cfg) i = Some s /\
    field_at (m_wind_speed (c_met cfg)) i speed /\
    field_at (m_wind_dir (c_met cfg)) i dir /\
    field_at (m_mol (c_met cfg)) i mol /\
    forcing_rule (c_met cfg) i ustar z0 /\
    stamp_rule (c_met cfg) i st /\
    run_single solve cfg tw i flux cache =
      Some (mkResult
        (by_hand solve speed dir (d_nz (c_domain cfg)) (t_zm tw) ustar z0 mol (sv_closure (c_solver cfg))
                 (source_rule cfg flux) (d_xmax (c_domain cfg), d_ymax (c_domain cfg))
                 (levels_rule (c_domain cfg)) (d_modes (c_domain cfg)) (t_x tw, t_y tw)
                 (sv_footprint (c_solver cfg)) (sv_analytic (c_solver cfg)) (d_halo (c_domain cfg))
                 (sv_precision (c_solver cfg)) cache)
        (mkLabels (t_name tw) (t_x tw, t_y tw) st s)).
Proof.
  intros Hv Hi.
  destruct (get_step_spec (c_met cfg) i Hv Hi) as (s & Hs & Hu & Hmol & Hws & Hwd & Hz0 & Hts).
  pose proof (prof_rule_fields cfg tw s (mkWind (s_wind_speed s) (s_wind_dir s))) as Hp.
  cbv zeta in Hp. destruct Hp as (Hn & Hzm & Hw & Hm & Hc & Hf).
  pose proof (step_forcing (c_met cfg) i s Hv Hu Hz0 _ _ Hf) as Hfr.
  exists s, (s_wind_speed s), (s_wind_dir s), (s_mol s),
    (pc_ustar (prof_rule cfg tw s (mkWind (s_wind_speed s) (s_wind_dir s)))),
    (pc_z0 (prof_rule cfg tw s (mkWind (s_wind_speed s) (s_wind_dir s)))), (s_stamp s).
  split; [exact Hs|]. split; [exact Hws|]. split; [exact Hwd|]. split; [exact Hmol|]. split; [exact Hfr|].
  split; [unfold stamp_rule; destruct (m_timestamps (c_met cfg)); exact Hts|].
  unfold run_single, plumb_c. rewrite Hs. cbn [cr_solver cr_labels]. unfold by_hand.
  f_equal. f_equal. f_equal.
  unfold prof_rule. destruct (s_z0 s); reflexivity.
Qed.
Lemma rules_spec (m : met A T) (i : nat) :
  (forall ustar z0, forcing_rule m i ustar z0 <->
     match m_z0 m with
     | Some z => z0 = Some z /\ ustar = None
     | None => z0 = None /\ exists f a, m_ustar m = Some f /\ field_at f i a /\ ustar = Some a
     end) /\
  (forall st, stamp_rule m i st <->
     match m_timestamps m with
     | None => st = Index i
     | Some ts => exists t, nth_error ts i = Some t /\ st = Stamp t
     end).
Proof. split; intros; reflexivity. Qed.
End PlumbP.

(* ------------------------------------------------------------------ config_parser *)
Section ParseP.
Context {A : Type}.
Variable D : defaults A.
Variable to_float : A -> A.
Variable geo_x geo_y : A -> A -> A -> A -> A.
Variable zero : A.

Notation sdict := (sdict A).
Notation raw := (raw A).
Notation parse := (parse D to_float geo_x geo_y zero).
Notation parse_domain := (parse_domain D to_float).
Notation parse_met := (parse_met D).
Notation parse_solver := (parse_solver D).
Notation parse_output := (parse_output D).
Notation parse_parallel := (parse_parallel D).
Notation parse_towers := (parse_towers zero).
Notation place := (place geo_x geo_y).

Lemma bind_parsed {X Y : Type} (o : outcome X) (k : X -> outcome Y) y :
  bind o k = Parsed y -> exists x, o = Parsed x /\ k x = Parsed y.
Proof. destruct o as [x| |]; simpl; intros H; try discriminate H. exists x. auto. Qed.

Ltac inv_binds :=
  repeat match goal with
  | H : bind _ _ = Parsed _ |- _ =>
    let x := fresh "x" in let E := fresh "E" in
    apply bind_parsed in H; destruct H as (x & E & H)
  end.

(* what a field is, given the dictionary: the default exactly when the key is absent, else the value *)
Definition key_atom (d : sdict) (k : string) (dflt x : A) : Prop :=
  match lookup d k with None => x = dflt | Some v => v = SAtom x end.
Definition key_bool (d : sdict) (k : string) (dflt x : bool) : Prop :=
  match lookup d k with None => x = dflt | Some v => v = SBool x end.
Definition key_seq (d : sdict) (k : string) (dflt x : list A) : Prop :=
  match lookup d k with None => x = dflt | Some v => v = SSeq x end.
Definition key_fld (d : sdict) (k : string) (dflt : A) (x : fld A) : Prop :=
  match lookup d k with
  | None => x = Scalar dflt
  | Some v => match x with Scalar a => v = SAtom a | Lst l => v = SSeq l end
  end.
(* d["k"]: the key must be there *)
Definition key_req (d : sdict) (k : string) (v : sval A) : Prop := lookup d k = Some v.
(* d.get("k"): None when absent or null *)
Definition key_opt {X : Type} (inj : X -> sval A) (d : sdict) (k : string) (x : option X) : Prop :=
  match lookup d k with
  | None | Some SNull => x = None
  | Some v => exists a, x = Some a /\ v = inj a
  end.
Definition key_optfld (d : sdict) (k : string) (x : option (fld A)) : Prop :=
  match lookup d k with
  | None | Some SNull => x = None
  | Some v => match x with Some (Scalar a) => v = SAtom a | Some (Lst l) => v = SSeq l | None => False end
  end.

Lemma def_atom_spec d k dflt x : def_atom d k dflt = Parsed x -> key_atom d k dflt x.
Proof. unfold def_atom, key_atom. destruct (lookup d k) as [[]|]; intros H; inversion H; reflexivity. Qed.
Lemma def_bool_spec d k dflt x : @def_bool A d k dflt = Parsed x -> key_bool d k dflt x.
Proof. unfold def_bool, key_bool. destruct (lookup d k) as [[]|]; intros H; inversion H; reflexivity. Qed.
Lemma def_seq_spec d k dflt x : def_seq d k dflt = Parsed x -> key_seq d k dflt x.
Proof. unfold def_seq, key_seq. destruct (lookup d k) as [[]|]; intros H; inversion H; reflexivity. Qed.
Lemma def_fld_spec d k dflt x : def_fld d k dflt = Parsed x -> key_fld d k dflt x.
Proof. unfold def_fld, key_fld. destruct (lookup d k) as [[]|]; intros H; inversion H; reflexivity. Qed.
Lemma req_atom_spec d k x : req_atom d k = Parsed x -> key_req d k (SAtom x).
Proof. unfold req_atom, key_req. destruct (lookup d k) as [[]|]; intros H; inversion H; reflexivity. Qed.
Lemma req_nat_spec d k x : @req_nat A d k = Parsed x -> key_req d k (SNat x).
Proof. unfold req_nat, key_req. destruct (lookup d k) as [[]|]; intros H; inversion H; reflexivity. Qed.
Lemma opt_atom_spec d k x : opt_atom d k = Parsed x -> key_opt SAtom d k x.
Proof.
  unfold opt_atom, key_opt. destruct (lookup d k) as [[]|]; intros H; inversion H; try reflexivity.
  eexists; split; reflexivity.
Qed.
Lemma opt_seq_spec d k x : opt_seq d k = Parsed x -> key_opt SSeq d k x.
Proof.
  unfold opt_seq, key_opt. destruct (lookup d k) as [[]|]; intros H; inversion H; try reflexivity.
  eexists; split; reflexivity.
Qed.
Lemma opt_nats_spec d k x : @opt_nats A d k = Parsed x -> key_opt (@SNats A) d k x.
Proof.
  unfold opt_nats, key_opt. destruct (lookup d k) as [[]|]; intros H; inversion H; try reflexivity.
  eexists; split; reflexivity.
Qed.
Lemma opt_fld_spec d k x : opt_fld d k = Parsed x -> key_optfld d k x.
Proof. unfold opt_fld, key_optfld. destruct (lookup d k) as [[]|]; intros H; inversion H; reflexivity. Qed.

Lemma parse_domain_spec d dom : parse_domain d = Parsed dom ->
  key_req d "nx" (SAtom (d_nx dom)) /\ key_req d "ny" (SAtom (d_ny dom)) /\
  (exists x, key_req d "xmax" (SAtom x) /\ d_xmax dom = to_float x) /\
  (exists y, key_req d "ymax" (SAtom y) /\ d_ymax dom = to_float y) /\
  key_req d "nz" (SNat (d_nz dom)) /\
  key_seq d "modes" (df_modes D) (d_modes dom) /\
  key_opt SAtom d "halo" (d_halo dom) /\
  key_opt SAtom d "ref_lat" (d_ref_lat dom) /\ key_opt SAtom d "ref_lon" (d_ref_lon dom) /\
  key_opt (@SNats A) d "output_levels" (d_output_levels dom) /\
  key_bool d "full_output" (df_full_output D) (d_full_output dom).
Proof.
  unfold Interface.parse_domain. intros H. inv_binds. injection H as <-. cbn.
  split; [apply req_atom_spec; assumption|]. split; [apply req_atom_spec; assumption|].
  split; [eexists; split; [apply req_atom_spec; eassumption|reflexivity]|].
  split; [eexists; split; [apply req_atom_spec; eassumption|reflexivity]|].
  split; [apply req_nat_spec; assumption|]. split; [apply def_seq_spec; assumption|].
  split; [apply opt_atom_spec; assumption|]. split; [apply opt_atom_spec; assumption|].
  split; [apply opt_atom_spec; assumption|]. split; [apply opt_nats_spec; assumption|].
  apply def_bool_spec; assumption.
Qed.

Lemma parse_met_spec d m : parse_met d = Parsed m ->
  key_optfld d "ustar" (m_ustar m) /\
  key_fld d "mol" (df_mol D) (m_mol m) /\
  key_fld d "wind_speed" (df_wind_speed D) (m_wind_speed m) /\
  key_fld d "wind_dir" (df_wind_dir D) (m_wind_dir m) /\
  key_opt SAtom d "z0" (m_z0 m) /\
  key_opt SSeq d "timestamps" (m_timestamps m).
Proof.
  unfold Interface.parse_met. intros H. inv_binds. injection H as <-. cbn.
  split; [apply opt_fld_spec; assumption|]. split; [apply def_fld_spec; assumption|].
  split; [apply def_fld_spec; assumption|]. split; [apply def_fld_spec; assumption|].
  split; [apply opt_atom_spec; assumption|]. apply opt_seq_spec; assumption.
Qed.

Lemma parse_solver_spec d s : parse_solver (Some d) = Parsed s ->
  key_atom d "closure" (df_closure D) (sv_closure s) /\
  key_atom d "precision" (df_precision D) (sv_precision s) /\
  key_bool d "footprint" (df_footprint D) (sv_footprint s) /\
  key_atom d "surface_flux_shape" (df_shape D) (sv_shape s) /\
  key_bool d "analytic" (df_analytic D) (sv_analytic s) /\
  key_opt SSeq d "src_loc" (sv_src_loc s).
Proof.
  unfold Interface.parse_solver. intros H. inv_binds. injection H as <-. cbn.
  split; [apply def_atom_spec; assumption|]. split; [apply def_atom_spec; assumption|].
  split; [apply def_bool_spec; assumption|]. split; [apply def_atom_spec; assumption|].
  split; [apply def_bool_spec; assumption|]. apply opt_seq_spec; assumption.
Qed.

Lemma parse_output_spec d o : parse_output (Some d) = Parsed o ->
  key_atom d "format" (df_format D) (o_format o) /\ key_atom d "directory" (df_directory D) (o_directory o).
Proof.
  unfold Interface.parse_output. intros H. inv_binds. injection H as <-. cbn.
  split; apply def_atom_spec; assumption.
Qed.

Lemma parse_parallel_spec d p : parse_parallel (Some d) = Parsed p ->
  key_atom d "num_threads" (df_num_threads D) (pl_num_threads p) /\
  key_atom d "max_workers" (df_max_workers D) (pl_max_workers p) /\
  key_bool d "use_cache" (df_use_cache D) (pl_use_cache p).
Proof.
  unfold Interface.parse_parallel. intros H. inv_binds. injection H as <-. cbn.
  split; [apply def_atom_spec; assumption|]. split; [apply def_atom_spec; assumption|].
  apply def_bool_spec; assumption.
Qed.

Lemma parse_tower_spec d t : parse_tower zero d = Parsed t ->
  key_req d "name" (SAtom (t_name t)) /\ key_req d "lat" (SAtom (t_lat t)) /\
  key_req d "lon" (SAtom (t_lon t)) /\ key_req d "z_m" (SAtom (t_zm t)) /\ t_x t = zero /\ t_y t = zero.
Proof.
  unfold parse_tower. intros H. inv_binds. injection H as <-. cbn.
  split; [apply req_atom_spec; assumption|]. split; [apply req_atom_spec; assumption|].
  split; [apply req_atom_spec; assumption|]. split; [apply req_atom_spec; assumption|]. auto.
Qed.

Lemma parse_towers_spec l : forall ts, parse_towers l = Parsed ts ->
  List.length ts = List.length l /\
  forall k d, nth_error l k = Some d -> exists t, nth_error ts k = Some t /\ parse_tower zero d = Parsed t.
Proof.
  induction l as [|d l IH]; simpl; intros ts H.
  - injection H as <-. split; [reflexivity|]. intros [|k] d' Hk; discriminate Hk.
  - inv_binds. injection H as <-. destruct (IH _ E0) as [Hl Hn]. split; [simpl; congruence|].
    intros [|k] d' Hk; simpl in *.
    + injection Hk as <-. eauto.
    + apply Hn. exact Hk.
Qed.

(* a section that may be omitted: absent or null *)
Definition section_of (r : raw) (k : string) : option sdict :=
  match lookup r k with Some (RSection d) => Some d | _ => None end.
Definition section_absent (r : raw) (k : string) : Prop :=
  lookup r k = None \/ lookup r k = Some RNull.

Lemma opt_section_spec r k o : opt_section r k = Parsed o ->
  o = section_of r k /\ (o = None -> section_absent r k).
Proof.
  unfold opt_section, section_of, section_absent.
  destruct (lookup r k) as [[]|]; intros H; inversion H; split; auto; intros; discriminate.
Qed.

(* C13, parser: structure of an accepted dictionary, defaults of omitted sections and keys, tower placement *)
Lemma parse_spec (r : raw) cfg : parse r = Parsed cfg ->
  (exists dd, lookup r "domain" = Some (RSection dd) /\ parse_domain dd = Parsed (c_domain cfg)) /\
  (exists md, lookup r "met" = Some (RSection md) /\ parse_met md = Parsed (c_met cfg)) /\
  validate (c_met cfg) = true /\
  (exists tl tws, lookup r "towers" = Some (RTowers tl) /\ parse_towers tl = Parsed tws /\
                  c_towers cfg = map (place (c_domain cfg)) tws) /\
  parse_solver (section_of r "solver") = Parsed (c_solver cfg) /\
  parse_output (section_of r "output") = Parsed (c_output cfg) /\
  parse_parallel (section_of r "parallel") = Parsed (c_parallel cfg) /\
  (section_absent r "solver" -> c_solver cfg = default_solver D) /\
  (section_absent r "output" -> c_output cfg = default_output D) /\
  (section_absent r "parallel" -> c_parallel cfg = default_parallel D).
Proof.
  unfold Interface.parse. intros H.
  destruct (lookup r "domain") as [vd|] eqn:Ed; [|discriminate H].
  destruct (lookup r "towers") as [vt|] eqn:Et; [|discriminate H].
  destruct (lookup r "met") as [vm|] eqn:Em; [|discriminate H].
  inv_binds.
  destruct (validate x1) eqn:Hv; [|discriminate H]. injection H as <-. cbn.
  destruct vd as [|dd|]; try discriminate E.
  destruct vt as [| |tl]; try discriminate E0.
  destruct vm as [|md|]; try discriminate E1.
  destruct (opt_section_spec _ _ _ E2) as [-> _].
  destruct (opt_section_spec _ _ _ E4) as [-> _].
  destruct (opt_section_spec _ _ _ E6) as [-> _].
  split; [eauto|]. split; [eauto|]. split; [exact Hv|]. split; [eauto 6|].
  split; [exact E3|]. split; [exact E5|]. split; [exact E7|].
  unfold section_absent, section_of in *.
  split; [|split].
  - intros [Hs|Hs]; rewrite Hs in E3; simpl in E3; injection E3 as <-; reflexivity.
  - intros [Hs|Hs]; rewrite Hs in E5; simpl in E5; injection E5 as <-; reflexivity.
  - intros [Hs|Hs]; rewrite Hs in E7; simpl in E7; injection E7 as <-; reflexivity.
Qed.

(* a missing mandatory section, or a met section MetConfig.validate rejects, raises *)
Lemma parse_raises (r : raw) :
  (lookup r "domain" = None \/ lookup r "towers" = None \/ lookup r "met" = None -> parse r = Raises) /\
  (forall cfg, parse r = Parsed cfg -> validate (c_met cfg) = true).
Proof.
  split.
  - unfold Interface.parse. intros [H|[H|H]]; rewrite H.
    + reflexivity.
    + destruct (lookup r "domain"); reflexivity.
    + destruct (lookup r "domain"); destruct (lookup r "towers"); reflexivity.
  - intros cfg H. apply parse_spec in H. tauto.
Qed.

Lemma place_spec (dom : domain A) (t : tower A) :
  t_name (place dom t) = t_name t /\ t_lat (place dom t) = t_lat t /\ t_lon (place dom t) = t_lon t /\
  t_zm (place dom t) = t_zm t /\
  match d_ref_lat dom, d_ref_lon dom with
  | Some rlat, Some rlon => t_x (place dom t) = geo_x (t_lat t) (t_lon t) rlat rlon /\
                            t_y (place dom t) = geo_y (t_lat t) (t_lon t) rlat rlon
  | _, _ => t_x (place dom t) = t_x t /\ t_y (place dom t) = t_y t
  end.
Proof. unfold Interface.place. destruct (d_ref_lat dom), (d_ref_lon dom); cbn; auto 10. Qed.

(* load_config = parse_config_dict o yaml.safe_load: by construction of the model; that the file and the
   dictionary written out in Python give equal configurations is checked by the correspondence *)
Lemma load_is_parse {P : Type} (yaml_load : P -> option raw) (p : P) :
  (forall r, yaml_load p = Some r -> load D to_float geo_x geo_y zero yaml_load p = parse r) /\
  (yaml_load p = None -> load D to_float geo_x geo_y zero yaml_load p = Raises).
Proof. unfold load. split; [intros r ->; reflexivity|intros ->; reflexivity]. Qed.

End ParseP.

Lemma parse_keys_spec (A : Type) (D : defaults A) (to_float : A -> A) (zero : A) :
  (forall d dom, parse_domain D to_float d = Parsed dom ->
     key_req d "nx" (SAtom (d_nx dom)) /\ key_req d "ny" (SAtom (d_ny dom)) /\
     (exists x, key_req d "xmax" (SAtom x) /\ d_xmax dom = to_float x) /\
     (exists y, key_req d "ymax" (SAtom y) /\ d_ymax dom = to_float y) /\
     key_req d "nz" (SNat (d_nz dom)) /\
     key_seq d "modes" (df_modes D) (d_modes dom) /\
     key_opt SAtom d "halo" (d_halo dom) /\
     key_opt SAtom d "ref_lat" (d_ref_lat dom) /\ key_opt SAtom d "ref_lon" (d_ref_lon dom) /\
     key_opt (@SNats A) d "output_levels" (d_output_levels dom) /\
     key_bool d "full_output" (df_full_output D) (d_full_output dom)) /\
  (forall d m, parse_met D d = Parsed m ->
     key_optfld d "ustar" (m_ustar m) /\
     key_fld d "mol" (df_mol D) (m_mol m) /\
     key_fld d "wind_speed" (df_wind_speed D) (m_wind_speed m) /\
     key_fld d "wind_dir" (df_wind_dir D) (m_wind_dir m) /\
     key_opt SAtom d "z0" (m_z0 m) /\
     key_opt SSeq d "timestamps" (m_timestamps m)) /\
  (forall d s, parse_solver D (Some d) = Parsed s ->
     key_atom d "closure" (df_closure D) (sv_closure s) /\
     key_atom d "precision" (df_precision D) (sv_precision s) /\
     key_bool d "footprint" (df_footprint D) (sv_footprint s) /\
     key_atom d "surface_flux_shape" (df_shape D) (sv_shape s) /\
     key_bool d "analytic" (df_analytic D) (sv_analytic s) /\
     key_opt SSeq d "src_loc" (sv_src_loc s)) /\
  (forall d p, parse_parallel D (Some d) = Parsed p ->
     key_atom d "num_threads" (df_num_threads D) (pl_num_threads p) /\
     key_atom d "max_workers" (df_max_workers D) (pl_max_workers p) /\
     key_bool d "use_cache" (df_use_cache D) (pl_use_cache p)) /\
  (forall d o, parse_output D (Some d) = Parsed o ->
     key_atom d "format" (df_format D) (o_format o) /\ key_atom d "directory" (df_directory D) (o_directory o)) /\
  (forall d t, parse_tower zero d = Parsed t ->
     key_req d "name" (SAtom (t_name t)) /\ key_req d "lat" (SAtom (t_lat t)) /\
     key_req d "lon" (SAtom (t_lon t)) /\ key_req d "z_m" (SAtom (t_zm t)) /\ t_x t = zero /\ t_y t = zero).
Proof.
  split; [exact (parse_domain_spec D to_float)|]. split; [exact (parse_met_spec D)|].
  split; [exact (parse_solver_spec D)|]. split; [exact (parse_parallel_spec D)|].
  split; [exact (parse_output_spec D)|]. exact (parse_tower_spec zero).
Qed.
