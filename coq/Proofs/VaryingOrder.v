(* First-order convergence of the linear-shooting scheme for HEIGHT-DEPENDENT coefficients.

   Continuous problem per Fourier mode on [z0, z0+H]:
       P'(z) = - Q(z) / Kz(z),     Q'(z) = T(z) P(z),
   T(z) the symbol Tsym of Model/Solver.v at height z.  The scheme freezes every coefficient at
   the LOWER node of a layer and applies the cubic step of Model/Solver.v.  Over the complex
   instance ROps (Coquelicot's C), for any grid with layer thicknesses 0 <= d <= dmax:

     ivp_first_order_gen    discrete trajectory from w0 versus an exact solution y = (P, Q):
                            error <= exp(c H) (|w0 - y(z0)| + tau H dmax) at every node (dmax <= 1)
     ivp_first_order        w0 = y(z0):  error <= Cconst dmax,  Cconst = exp(c H) tau H
     shooting_first_order   the model's shooting solution (alpha of the code) versus the exact
                            solution of the two-point problem: for dmax <= h0 the discrete
                            denominator is >= Dmin/2 in modulus and the error is <= C2 dmax at
                            every node; h0 > 0 and C2 explicit (h0_explicit, C2_explicit)
     shooting_first_order_model   the same with KzN = Kz(zN), lam = eigval at the top node
     shooting_uniform_refinement, shooting_uniform_top_limit
                            uniform grids H/n: the error at every node is eventually below any
                            eps; the error at the top tends to 0
     instance_shooting_converges  all hypotheses hold for a concrete height-dependent instance
                            (Kz = 1+z, Kx = 1/(1+z), lx = 1) with closed-form solutions

   Exact solutions enter as HYPOTHESES (exact_solution: functions P Q : R -> C satisfying the two
   derivative equations on the closed interval, stated with Coquelicot's is_derive for functions
   from R into the normed R-module C, and bounded there); no existence theory for the
   differential equation is used or claimed.  The coefficient hypotheses (coeff_hyps) are a
   positive lower bound of Kz, a bound of |T|, and Lipschitz constants of 1/Kz and T. *)
From Coq Require Import ZArith Reals List Lra Lia Field Ring.
From Coquelicot Require Import Coquelicot.
From BL Require Import Base.Ops Base.Laws Base.ROps Base.ROpsFacts Model.Solver
  Proofs.StepProofs Proofs.ComplexOrder.
Import ListNotations.
Local Open Scope R_scope.

(* ------------------------------------------------------------------------------------------ *)
(* 1. derivatives of complex-valued functions of a real variable                                *)

Definition Cderive (F : R -> CC) (t : R) (l : CC) : Prop :=
  @is_derive R_AbsRing C_R_NormedModule F t l.

Lemma Cderive_fst F t l : Cderive F t l -> is_derive (fun s => fst (F s)) t (fst l).
Proof.
  intros HF. unfold Cderive, is_derive in *.
  eapply filterdiff_ext_lin.
  - apply (filterdiff_comp' (U:=R_NormedModule) (V:=C_R_NormedModule) (W:=R_NormedModule)
             F (fun c : CC => fst c) t _ (fun c : CC => fst c) HF).
    apply filterdiff_linear.
    apply (is_linear_fst (K:=R_AbsRing) (U:=R_NormedModule) (V:=R_NormedModule)).
  - intros y. reflexivity.
Qed.

Lemma Cderive_snd F t l : Cderive F t l -> is_derive (fun s => snd (F s)) t (snd l).
Proof.
  intros HF. unfold Cderive, is_derive in *.
  eapply filterdiff_ext_lin.
  - apply (filterdiff_comp' (U:=R_NormedModule) (V:=C_R_NormedModule) (W:=R_NormedModule)
             F (fun c : CC => snd c) t _ (fun c : CC => snd c) HF).
    apply filterdiff_linear.
    apply (is_linear_snd (K:=R_AbsRing) (U:=R_NormedModule) (V:=R_NormedModule)).
  - intros y. reflexivity.
Qed.

Lemma Cderive_pair F t l :
  is_derive (fun s => fst (F s)) t (fst l) -> is_derive (fun s => snd (F s)) t (snd l) ->
  Cderive F t l.
Proof.
  intros H1 H2. unfold Cderive, is_derive in *.
  eapply filterdiff_ext_lin.
  - apply (filterdiff_ext (fun s => (fst (F s), snd (F s)))).
    + intros s. destruct (F s); reflexivity.
    + apply (filterdiff_comp_2 (K:=R_AbsRing) (T:=R_NormedModule) (U:=R_NormedModule)
               (V:=R_NormedModule) (W:=C_R_NormedModule)
               (fun s => fst (F s)) (fun s => snd (F s)) (fun a b => (a, b))
               (fun y : R => scal y (fst l)) (fun y : R => scal y (snd l)) (fun a b => (a, b))).
      * exact H1.
      * exact H2.
      * apply filterdiff_linear. apply (is_linear_prod (K:=R_AbsRing)).
        apply is_linear_fst. apply is_linear_snd.
  - intros y. cbn. destruct l; reflexivity.
Qed.

Lemma lin_derive (z k t : R) : is_derive (fun s : R => (s - z) * k) t k.
Proof. auto_derive; [exact I|]. ring. Qed.

(* F(s) + (s - z) c has derivative F'(s) + c *)
Lemma Cderive_affine F l (c : CC) (z t : R) :
  Cderive F t l -> Cderive (fun s => Cplus (F s) (Cmult (RtoC (s - z)) c)) t (Cplus l c).
Proof.
  intros HF. apply Cderive_pair.
  - apply (is_derive_ext (fun s => fst (F s) + (s - z) * fst c)).
    + intros s. unfold Cplus, Cmult, RtoC. cbn [fst snd]. change (@eq R (fst (F s) + (s - z) * fst c) (fst (F s) + ((s - z) * fst c - 0 * snd c))). ring.
    + unfold Cplus. cbn [fst]. apply (is_derive_plus (K:=R_AbsRing) (V:=R_NormedModule)).
      * apply Cderive_fst. exact HF.
      * apply lin_derive.
  - apply (is_derive_ext (fun s => snd (F s) + (s - z) * snd c)).
    + intros s. unfold Cplus, Cmult, RtoC. cbn [fst snd]. change (@eq R (snd (F s) + (s - z) * snd c) (snd (F s) + ((s - z) * snd c + 0 * fst c))). ring.
    + unfold Cplus. cbn [snd]. apply (is_derive_plus (K:=R_AbsRing) (V:=R_NormedModule)).
      * apply Cderive_snd. exact HF.
      * apply lin_derive.
Qed.

Lemma Rabs_fst_le_Cmod (z : CC) : Rabs (fst z) <= Cmod z.
Proof. eapply Rle_trans; [apply Rmax_l|apply Rmax_Cmod]. Qed.

(* mean value inequality for complex-valued functions, sharp constant *)
Lemma Cmvt (F F' : R -> CC) (a b K : R) :
  a <= b ->
  (forall t, a <= t <= b -> Cderive F t (F' t)) ->
  (forall t, a <= t <= b -> Cmod (F' t) <= K) ->
  Cmod (Cminus (F b) (F a)) <= K * (b - a).
Proof.
  intros Hab HD HK.
  set (D := Cminus (F b) (F a)). set (w := Cconj D).
  set (phi := fun t => fst w * fst (F t) - snd w * snd (F t)).
  set (dphi := fun t => fst w * fst (F' t) - snd w * snd (F' t)).
  assert (Hphi : forall t, a <= t <= b -> is_derive phi t (dphi t)).
  { intros t Ht. unfold phi, dphi.
    apply (is_derive_minus (K:=R_AbsRing) (V:=R_NormedModule)).
    - apply (is_derive_scal (fun s => fst (F s))). apply Cderive_fst. apply HD. exact Ht.
    - apply (is_derive_scal (fun s => snd (F s))). apply Cderive_snd. apply HD. exact Ht. }
  destruct (MVT_gen phi a b dphi) as [c [Hc Hmv]].
  { rewrite Rmin_left, Rmax_right by exact Hab. intros x Hx. apply Hphi. lra. }
  { rewrite Rmin_left, Rmax_right by exact Hab. intros x Hx.
    apply derivable_continuous_pt. apply ex_derive_Reals_0. exists (dphi x). apply Hphi. exact Hx. }
  rewrite Rmin_left, Rmax_right in Hc by exact Hab.
  assert (E1 : phi b - phi a = Cmod D * Cmod D).
  { rewrite <- Cconj_mult_re. fold w. unfold phi, D, Cminus, Cplus, Copp, Cmult. cbn [fst snd]. ring. }
  assert (E2 : dphi c <= Cmod D * K).
  { apply Rle_trans with (Cmod (Cmult w (F' c))).
    - eapply Rle_trans; [apply Rle_abs|]. eapply Rle_trans; [|apply Rabs_fst_le_Cmod].
      right. unfold dphi, Cmult. cbn [fst snd]. reflexivity.
    - rewrite Cmod_mult. unfold w. rewrite Cmod_conj.
      apply Rmult_le_compat_l; [apply Cmod_ge_0|]. apply HK. exact Hc. }
  pose proof (Cmod_ge_0 D) as HD0.
  destruct (Req_dec (Cmod D) 0) as [E0|Hne].
  - rewrite E0. apply Rmult_le_pos; [|lra].
    eapply Rle_trans; [apply Cmod_ge_0|]. apply (HK a). lra.
  - apply Rmult_le_reg_l with (Cmod D); [lra|].
    rewrite <- E1, Hmv. nra.
Qed.

(* ------------------------------------------------------------------------------------------ *)
(* 2. the layer step of the model at the instance ROps, in Coquelicot's vocabulary               *)

Definition coefA (kp : R) (T : CC) (d : R) : CC :=
  Cminus (RtoC 1) (Cmult (RtoC (/ 2 * kp * (d * d))) T).
Definition coefB (kp : R) (T : CC) (d : R) : CC :=
  Cplus (RtoC (- (kp * d))) (Cmult (RtoC (/ 6 * (kp * kp) * (d * d * d))) T).
Definition coefC (kp : R) (T : CC) (d : R) : CC :=
  Cminus (Cmult (RtoC d) T) (Cmult (RtoC (/ 6 * kp * (d * d * d))) (Cmult T T)).

Definition Sstep (kp : R) (T : CC) (d : R) (w : CC * CC) : CC * CC :=
  (Cplus (Cmult (coefA kp T d) (fst w)) (Cmult (coefB kp T d) (snd w)),
   Cplus (Cmult (coefC kp T d) (fst w)) (Cmult (coefA kp T d) (snd w))).

Lemma half_ROps : half ROps = RtoC (/ 2).
Proof.
  unfold half, cofQ. cbn [ROps cdiv cofZ]. unfold Cdiv, Cinv, Cmult, RtoC. cbn [fst snd]. f_equal; field.
Qed.

Lemma sixth_ROps : sixth ROps = RtoC (/ 6).
Proof.
  unfold sixth, cofQ. cbn [ROps cdiv cofZ]. unfold Cdiv, Cinv, Cmult, RtoC. cbn [fst snd]. f_equal; field.
Qed.

Lemma one_over_RtoC (x : R) : x <> 0 -> Cdiv (RtoC 1) (RtoC x) = RtoC (/ x).
Proof. intros Hx. unfold Cdiv, Cinv, Cmult, RtoC. cbn [fst snd]. f_equal; field; exact Hx. Qed.

Lemma step_ROps (lx ly kx ky u v : CC) (Kz d : R) (w : CC * CC) :
  Kz <> 0 ->
  step ROps lx ly (mkLayer ROps kx ky u v (RtoC Kz) (RtoC d)) w
  = Sstep (/ Kz) (Tsym ROps kx ky u v lx ly) d w.
Proof.
  intros HK. unfold Solver.step. cbn [l_Kx l_Ky l_u l_v l_Kz l_dz].
  generalize (Tsym ROps kx ky u v lx ly). intros T.
  unfold Sstep, coefA, coefB, coefC, coef_a, coef_b, coef_c, coef_d.
  rewrite half_ROps, sixth_ROps.
  cbn [ROps cadd cmul cdiv csub copp c1 Ops.C] in *.
  rewrite (one_over_RtoC Kz HK).
  rewrite !RtoC_opp, !RtoC_mult.
  f_equal; ring.
Qed.

(* pairs of complex numbers: difference and the sum norm *)
Definition sdiff (a b : CC * CC) : CC * CC := (Cminus (fst a) (fst b), Cminus (snd a) (snd b)).
Definition N2 (w : CC * CC) : R := Cmod (fst w) + Cmod (snd w).

Lemma N2_nonneg w : 0 <= N2 w.
Proof. unfold N2. pose proof (Cmod_ge_0 (fst w)). pose proof (Cmod_ge_0 (snd w)). lra. Qed.

Lemma Sstep_sdiff kp T d a b : Sstep kp T d (sdiff a b) = sdiff (Sstep kp T d a) (Sstep kp T d b).
Proof. unfold Sstep, sdiff. cbn [fst snd]. f_equal; ring. Qed.

Lemma N2_sdiff_triangle a b c : N2 (sdiff a c) <= N2 (sdiff a b) + N2 (sdiff b c).
Proof.
  unfold N2, sdiff. cbn [fst snd].
  replace (Cminus (fst a) (fst c)) with (Cplus (Cminus (fst a) (fst b)) (Cminus (fst b) (fst c))) by ring.
  replace (Cminus (snd a) (snd c)) with (Cplus (Cminus (snd a) (snd b)) (Cminus (snd b) (snd c))) by ring.
  pose proof (Cmod_triangle (Cminus (fst a) (fst b)) (Cminus (fst b) (fst c))).
  pose proof (Cmod_triangle (Cminus (snd a) (snd b)) (Cminus (snd b) (snd c))). lra.
Qed.

(* ------------------------------------------------------------------------------------------ *)
(* 3. size of the step: stability constant and the part of the step beyond Euler                *)

Lemma mul_le2 (a b A B : R) : 0 <= a <= A -> 0 <= b <= B -> a * b <= A * B.
Proof. intros [Ha HA] [Hb HB]. apply Rmult_le_compat; assumption. Qed.

Lemma Cmod_RtoC_nonneg (x : R) : 0 <= x -> Cmod (RtoC x) = x.
Proof. intros Hx. rewrite Cmod_R. apply Rabs_pos_eq. exact Hx. Qed.

Section StepSize.
Variables Kmax Tmax : R.
Hypothesis HKmax : 0 <= Kmax.
Hypothesis HTmax : 0 <= Tmax.

Definition cstab : R :=
  Kmax + Tmax + / 2 * Kmax * Tmax + / 6 * (Kmax * Kmax) * Tmax + / 6 * Kmax * (Tmax * Tmax).

Lemma cstab_nonneg : 0 <= cstab.
Proof.
  unfold cstab.
  assert (0 <= Kmax * Tmax) by (apply Rmult_le_pos; assumption).
  assert (0 <= Kmax * Kmax * Tmax) by (apply Rmult_le_pos; [apply Rmult_le_pos|]; assumption).
  assert (0 <= Kmax * (Tmax * Tmax)) by (apply Rmult_le_pos; [|apply Rmult_le_pos]; assumption).
  lra.
Qed.

Section OneStep.
Variables (kp : R) (T : CC) (d : R).
Hypothesis Hkp : 0 <= kp <= Kmax.
Hypothesis HT : Cmod T <= Tmax.
Hypothesis Hd : 0 <= d <= 1.

Let t := Cmod T.
Let Ht0 : 0 <= t. Proof. apply Cmod_ge_0. Qed.

Lemma kt_le : kp * t <= Kmax * Tmax.
Proof. apply mul_le2; [exact Hkp|split; [exact Ht0|exact HT]]. Qed.
Lemma kkt_le : kp * kp * t <= Kmax * Kmax * Tmax.
Proof. apply mul_le2; [split; [apply Rmult_le_pos; apply Hkp|apply mul_le2; exact Hkp]|split; [exact Ht0|exact HT]]. Qed.
Lemma ktt_le : kp * (t * t) <= Kmax * (Tmax * Tmax).
Proof.
  apply mul_le2; [exact Hkp|]. split; [apply Rmult_le_pos; exact Ht0|].
  apply mul_le2; split; try exact Ht0; exact HT.
Qed.
Lemma dd_le : 0 <= d * d <= d.
Proof. destruct Hd as [H0 H1]. split; [apply Rmult_le_pos; exact H0|]. nra. Qed.
Lemma ddd_le : 0 <= d * d * d <= d * d.
Proof. destruct Hd as [H0 H1]. pose proof dd_le as [Ha Hb]. split; [apply Rmult_le_pos; assumption|]. nra. Qed.

Lemma Cmod_coefA : Cmod (coefA kp T d) <= 1 + / 2 * (Kmax * Tmax) * d.
Proof.
  unfold coefA, Cminus. eapply Rle_trans; [apply Cmod_triangle|].
  rewrite Cmod_opp, Cmod_mult, Cmod_1.
  pose proof dd_le as [Hdd0 Hdd1]. pose proof kt_le as Hkt. destruct Hkp as [Hk0 Hk1].
  rewrite Cmod_RtoC_nonneg.
  2:{ apply Rmult_le_pos; [apply Rmult_le_pos; lra|exact Hdd0]. }
  fold t.
  assert (Hkt0 : 0 <= kp * t) by (apply Rmult_le_pos; assumption).
  assert (E : kp * t * (d * d) <= Kmax * Tmax * d) by (apply mul_le2; split; assumption).
  lra.
Qed.

Lemma Cmod_coefB : Cmod (coefB kp T d) <= (Kmax + / 6 * (Kmax * Kmax * Tmax)) * d.
Proof.
  unfold coefB. eapply Rle_trans; [apply Cmod_triangle|].
  rewrite Cmod_mult, Cmod_R, Rabs_Ropp.
  pose proof dd_le as [Hdd0 Hdd1]. pose proof ddd_le as [Hd30 Hd31]. pose proof kkt_le as Hkkt.
  destruct Hkp as [Hk0 Hk1]. destruct Hd as [Hd0 Hd1].
  rewrite Rabs_pos_eq by (apply Rmult_le_pos; assumption).
  rewrite Cmod_RtoC_nonneg.
  2:{ apply Rmult_le_pos; [apply Rmult_le_pos; [lra|apply Rmult_le_pos; assumption]|exact Hd30]. }
  fold t.
  assert (Hkkt0 : 0 <= kp * kp * t) by (apply Rmult_le_pos; [apply Rmult_le_pos|]; assumption).
  assert (E1 : kp * kp * t * (d * d * d) <= Kmax * Kmax * Tmax * d).
  { apply mul_le2; split; try assumption. lra. }
  assert (E2 : kp * d <= Kmax * d) by (apply Rmult_le_compat_r; assumption).
  lra.
Qed.

Lemma Cmod_coefC : Cmod (coefC kp T d) <= (Tmax + / 6 * (Kmax * (Tmax * Tmax))) * d.
Proof.
  unfold coefC, Cminus. eapply Rle_trans; [apply Cmod_triangle|].
  rewrite Cmod_opp, !Cmod_mult.
  pose proof dd_le as [Hdd0 Hdd1]. pose proof ddd_le as [Hd30 Hd31]. pose proof ktt_le as Hktt.
  destruct Hkp as [Hk0 Hk1]. destruct Hd as [Hd0 Hd1].
  rewrite !Cmod_RtoC_nonneg.
  2:{ apply Rmult_le_pos; [apply Rmult_le_pos; lra|exact Hd30]. }
  2:{ exact Hd0. }
  fold t.
  assert (Htt0 : 0 <= t * t) by (apply Rmult_le_pos; exact Ht0).
  assert (Hktt0 : 0 <= kp * (t * t)) by (apply Rmult_le_pos; assumption).
  assert (E1 : kp * (t * t) * (d * d * d) <= Kmax * (Tmax * Tmax) * d).
  { apply mul_le2; split; try assumption. lra. }
  assert (E2 : d * t <= d * Tmax) by (apply Rmult_le_compat_l; assumption).
  lra.
Qed.

(* stability in the sum norm *)
Lemma Sstep_stable (w : CC * CC) : N2 (Sstep kp T d w) <= (1 + cstab * d) * N2 w.
Proof.
  unfold N2, Sstep. cbn [fst snd].
  pose proof Cmod_coefA as HA. pose proof Cmod_coefB as HB. pose proof Cmod_coefC as HC.
  pose proof (Cmod_triangle (Cmult (coefA kp T d) (fst w)) (Cmult (coefB kp T d) (snd w))) as H1.
  pose proof (Cmod_triangle (Cmult (coefC kp T d) (fst w)) (Cmult (coefA kp T d) (snd w))) as H2.
  rewrite !Cmod_mult in H1, H2.
  set (A := Cmod (coefA kp T d)) in *. set (B := Cmod (coefB kp T d)) in *.
  set (C := Cmod (coefC kp T d)) in *.
  set (p := Cmod (fst w)) in *. set (q := Cmod (snd w)) in *.
  assert (Hp : 0 <= p) by apply Cmod_ge_0. assert (Hq : 0 <= q) by apply Cmod_ge_0.
  assert (HKT : 0 <= Kmax * Tmax) by (apply Rmult_le_pos; assumption).
  assert (HKKT : 0 <= Kmax * Kmax * Tmax) by (apply Rmult_le_pos; [apply Rmult_le_pos|]; assumption).
  assert (HKTT : 0 <= Kmax * (Tmax * Tmax)) by (apply Rmult_le_pos; [|apply Rmult_le_pos]; assumption).
  destruct Hd as [Hd0 Hd1].
  assert (EA : A + C <= 1 + cstab * d).
  { unfold cstab.
    assert (0 <= (Kmax + / 6 * (Kmax * Kmax * Tmax)) * d) by (apply Rmult_le_pos; lra). lra. }
  assert (EB : A + B <= 1 + cstab * d).
  { unfold cstab.
    assert (0 <= (Tmax + / 6 * (Kmax * (Tmax * Tmax))) * d) by (apply Rmult_le_pos; lra). lra. }
  assert (E1 : (A + C) * p <= (1 + cstab * d) * p) by (apply Rmult_le_compat_r; assumption).
  assert (E2 : (A + B) * q <= (1 + cstab * d) * q) by (apply Rmult_le_compat_r; assumption).
  lra.
Qed.

(* the step minus the Euler step, applied to a state of size <= Y *)
Lemma Sstep_minus_euler (p q : CC) (Y : R) :
  Cmod p <= Y -> Cmod q <= Y ->
  Cmod (Cminus (fst (Sstep kp T d (p, q))) (Cminus p (Cmult (RtoC d) (Cmult (RtoC kp) q))))
    <= (/ 2 * (Kmax * Tmax) + / 6 * (Kmax * Kmax * Tmax)) * Y * (d * d) /\
  Cmod (Cminus (snd (Sstep kp T d (p, q))) (Cplus q (Cmult (RtoC d) (Cmult T p))))
    <= (/ 2 * (Kmax * Tmax) + / 6 * (Kmax * (Tmax * Tmax))) * Y * (d * d).
Proof.
  intros Hp Hq.
  pose proof dd_le as [Hdd0 Hdd1]. pose proof ddd_le as [Hd30 Hd31].
  pose proof kt_le as Hkt. pose proof kkt_le as Hkkt. pose proof ktt_le as Hktt.
  destruct Hkp as [Hk0 Hk1]. destruct Hd as [Hd0 Hd1].
  assert (HY : 0 <= Y) by (eapply Rle_trans; [apply Cmod_ge_0|exact Hp]).
  assert (Hp0 : 0 <= Cmod p) by apply Cmod_ge_0. assert (Hq0 : 0 <= Cmod q) by apply Cmod_ge_0.
  assert (Hkt0 : 0 <= kp * t) by (apply Rmult_le_pos; assumption).
  assert (Hkkt0 : 0 <= kp * kp * t) by (apply Rmult_le_pos; [apply Rmult_le_pos|]; assumption).
  assert (Htt0 : 0 <= t * t) by (apply Rmult_le_pos; exact Ht0).
  assert (Hktt0 : 0 <= kp * (t * t)) by (apply Rmult_le_pos; assumption).
  assert (HKT : 0 <= Kmax * Tmax) by (apply Rmult_le_pos; assumption).
  assert (HKKT : 0 <= Kmax * Kmax * Tmax) by (apply Rmult_le_pos; [apply Rmult_le_pos|]; assumption).
  assert (HKTT : 0 <= Kmax * (Tmax * Tmax)) by (apply Rmult_le_pos; [|apply Rmult_le_pos]; assumption).
  unfold Sstep, coefA, coefB, coefC. cbn [fst snd]. split.
  - replace (Cminus _ _)
      with (Cplus (Copp (Cmult (Cmult (RtoC (/ 2 * kp * (d * d))) T) p))
                  (Cmult (Cmult (RtoC (/ 6 * (kp * kp) * (d * d * d))) T) q)).
    2:{ rewrite (RtoC_opp (kp * d)), (RtoC_mult kp d). ring. }
    eapply Rle_trans; [apply Cmod_triangle|]. rewrite Cmod_opp, !Cmod_mult. fold t.
    rewrite !Cmod_RtoC_nonneg.
    2:{ apply Rmult_le_pos; [apply Rmult_le_pos; [lra|apply Rmult_le_pos; assumption]|exact Hd30]. }
    2:{ apply Rmult_le_pos; [apply Rmult_le_pos; lra|exact Hdd0]. }
    assert (E1 : kp * t * Cmod p <= Kmax * Tmax * Y) by (apply mul_le2; split; assumption).
    assert (E2 : kp * kp * t * Cmod q <= Kmax * Kmax * Tmax * Y) by (apply mul_le2; split; assumption).
    assert (F1 : kp * t * Cmod p * (d * d) <= Kmax * Tmax * Y * (d * d)) by (apply Rmult_le_compat_r; assumption).
    assert (F2 : kp * kp * t * Cmod q * (d * d * d) <= Kmax * Kmax * Tmax * Y * (d * d)).
    { apply mul_le2; split; try assumption. apply Rmult_le_pos; assumption. }
    lra.
  - replace (Cminus _ _)
      with (Cplus (Copp (Cmult (Cmult (RtoC (/ 6 * kp * (d * d * d))) (Cmult T T)) p))
                  (Copp (Cmult (Cmult (RtoC (/ 2 * kp * (d * d))) T) q))) by ring.
    eapply Rle_trans; [apply Cmod_triangle|]. rewrite !Cmod_opp, !Cmod_mult. fold t.
    rewrite !Cmod_RtoC_nonneg.
    2:{ apply Rmult_le_pos; [apply Rmult_le_pos; lra|exact Hdd0]. }
    2:{ apply Rmult_le_pos; [apply Rmult_le_pos; lra|exact Hd30]. }
    assert (E1 : kp * t * Cmod q <= Kmax * Tmax * Y) by (apply mul_le2; split; assumption).
    assert (E2 : kp * (t * t) * Cmod p <= Kmax * (Tmax * Tmax) * Y) by (apply mul_le2; split; assumption).
    assert (F1 : kp * t * Cmod q * (d * d) <= Kmax * Tmax * Y * (d * d)) by (apply Rmult_le_compat_r; assumption).
    assert (F2 : kp * (t * t) * Cmod p * (d * d * d) <= Kmax * (Tmax * Tmax) * Y * (d * d)).
    { apply mul_le2; split; try assumption. apply Rmult_le_pos; assumption. }
    lra.
Qed.

End OneStep.
End StepSize.

Lemma exp_mono (x y : R) : x <= y -> exp x <= exp y.
Proof. intros Hxy. destruct (Req_dec x y) as [->|Hne]; [lra|]. left. apply exp_increasing. lra. Qed.

Lemma exp_ge_1 (x : R) : 0 <= x -> 1 <= exp x.
Proof. intros Hx. rewrite <- exp_0. apply exp_mono. exact Hx. Qed.

Lemma height_cons (d : R) (r : list R) (k : nat) : height (d :: r) (S k) = d + height r k.
Proof. reflexivity. Qed.

Lemma height_0 (dzs : list R) : height dzs 0 = 0.
Proof. reflexivity. Qed.

Lemma height_nonneg (dzs : list R) (k : nat) : (forall d, In d dzs -> 0 <= d) -> 0 <= height dzs k.
Proof. intros Hall. apply Rsum_nonneg. intros d Hin. apply Hall. apply (firstn_In_R k). exact Hin. Qed.

Lemma height_le_Rsum (dzs : list R) : (forall d, In d dzs -> 0 <= d) -> forall k, height dzs k <= Rsum dzs.
Proof.
  induction dzs as [|d r IH]; intros Hall k.
  - destruct k; unfold height; cbn; lra.
  - destruct k as [|k].
    + rewrite height_0. apply Rsum_nonneg. exact Hall.
    + rewrite height_cons. cbn [Rsum fold_right]. fold (Rsum r).
      assert (height r k <= Rsum r) by (apply IH; intros d' Hin; apply Hall; right; exact Hin). lra.
Qed.

Lemma height_all (dzs : list R) : height dzs (length dzs) = Rsum dzs.
Proof. unfold height. rewrite firstn_all. reflexivity. Qed.


(* ------------------------------------------------------------------------------------------ *)
(* 4. height-dependent coefficients                                                             *)

Section Varying.
Variables Kx Ky u v Kz : R -> R.
Variables lx ly : R.

(* the symbol and the inverse diffusivity at height z *)
Definition Tf (z : R) : CC :=
  Tsym ROps (RtoC (Kx z)) (RtoC (Ky z)) (RtoC (u z)) (RtoC (v z)) (RtoC lx) (RtoC ly).
Definition kap (z : R) : R := / Kz z.

(* layers with every coefficient taken at the lower node; z is the running height *)
Fixpoint layers_from (z : R) (dzs : list R) : list (layer ROps) :=
  match dzs with
  | [] => []
  | d :: r => mkLayer ROps (RtoC (Kx z)) (RtoC (Ky z)) (RtoC (u z)) (RtoC (v z)) (RtoC (Kz z)) (RtoC d)
              :: layers_from (z + d) r
  end.

Lemma layers_from_length z dzs : length (layers_from z dzs) = length dzs.
Proof. revert z. induction dzs as [|d r IH]; intros z; cbn [layers_from length]; [reflexivity|]. rewrite IH. reflexivity. Qed.

Lemma layers_from_nth dzs : forall z k Ld, (k < length dzs)%nat ->
  nth k (layers_from z dzs) Ld
  = let zk := z + height dzs k in
    mkLayer ROps (RtoC (Kx zk)) (RtoC (Ky zk)) (RtoC (u zk)) (RtoC (v zk)) (RtoC (Kz zk)) (RtoC (nth k dzs 0)).
Proof.
  induction dzs as [|d r IH]; intros z k Ld Hk; cbn [length] in Hk; [lia|].
  destruct k as [|k].
  - cbv zeta. unfold height. cbn [firstn Rsum fold_right layers_from nth]. rewrite Rplus_0_r. reflexivity.
  - cbn [layers_from nth]. rewrite IH by lia. cbv zeta. unfold height. cbn [firstn Rsum fold_right].
    fold (Rsum (firstn k r)). replace (z + d + Rsum (firstn k r)) with (z + (d + Rsum (firstn k r))) by ring.
    reflexivity.
Qed.

Variables z0 H kmin Tmax LK LT : R.
Hypothesis HH : 0 <= H.
Hypothesis Hkmin : 0 < kmin.
Hypothesis HKz : forall z, z0 <= z <= z0 + H -> kmin <= Kz z.
Hypothesis HTb : forall z, z0 <= z <= z0 + H -> Cmod (Tf z) <= Tmax.
Hypothesis HLK0 : 0 <= LK.
Hypothesis HLT0 : 0 <= LT.
Hypothesis HLK : forall s t, z0 <= s <= z0 + H -> z0 <= t <= z0 + H ->
  Rabs (kap s - kap t) <= LK * Rabs (s - t).
Hypothesis HLT : forall s t, z0 <= s <= z0 + H -> z0 <= t <= z0 + H ->
  Cmod (Cminus (Tf s) (Tf t)) <= LT * Rabs (s - t).

Definition Kmax : R := / kmin.

Lemma Kmax_pos : 0 < Kmax.
Proof. unfold Kmax. apply Rinv_0_lt_compat. exact Hkmin. Qed.

Lemma Kz_pos z : z0 <= z <= z0 + H -> 0 < Kz z.
Proof. intros Hz. pose proof (HKz z Hz). lra. Qed.

Lemma kap_bounds z : z0 <= z <= z0 + H -> 0 <= kap z <= Kmax.
Proof.
  intros Hz. pose proof (HKz z Hz) as Hk. pose proof (Kz_pos z Hz) as Hp. unfold kap, Kmax. split.
  - left. apply Rinv_0_lt_compat. exact Hp.
  - apply Rinv_le_contravar; assumption.
Qed.

Lemma Tmax_nonneg : 0 <= Tmax.
Proof. eapply Rle_trans; [apply Cmod_ge_0|]. apply (HTb z0). lra. Qed.

Definition cst : R := cstab Kmax Tmax.

Lemma cst_nonneg : 0 <= cst.
Proof. apply cstab_nonneg; [left; exact Kmax_pos|exact Tmax_nonneg]. Qed.

(* ---------------------------------------------------------------------------------------- *)
(* 5. an exact solution (hypothesis) and the local truncation error                           *)

Section Exact.
Variables P Q : R -> CC.
Variable Ymax : R.
Hypothesis HP : forall z, z0 <= z <= z0 + H -> Cderive P z (Copp (Cmult (RtoC (kap z)) (Q z))).
Hypothesis HQ : forall z, z0 <= z <= z0 + H -> Cderive Q z (Cmult (Tf z) (P z)).
Hypothesis HPb : forall z, z0 <= z <= z0 + H -> Cmod (P z) <= Ymax.
Hypothesis HQb : forall z, z0 <= z <= z0 + H -> Cmod (Q z) <= Ymax.

Lemma Ymax_nonneg : 0 <= Ymax.
Proof. eapply Rle_trans; [apply Cmod_ge_0|]. apply (HPb z0). lra. Qed.

Lemma P_lip s t : z0 <= s -> s <= t -> t <= z0 + H ->
  Cmod (Cminus (P t) (P s)) <= Kmax * Ymax * (t - s).
Proof.
  intros Hs Hst Ht.
  apply (Cmvt P (fun x => Copp (Cmult (RtoC (kap x)) (Q x))) s t); [exact Hst| |].
  - intros x Hx. apply HP. lra.
  - intros x Hx. assert (Hx' : z0 <= x <= z0 + H) by lra.
    rewrite Cmod_opp, Cmod_mult. pose proof (kap_bounds x Hx') as [Hk0 Hk1].
    rewrite Cmod_RtoC_nonneg by exact Hk0.
    apply mul_le2; [split; assumption|]. split; [apply Cmod_ge_0|apply HQb; exact Hx'].
Qed.

Lemma Q_lip s t : z0 <= s -> s <= t -> t <= z0 + H ->
  Cmod (Cminus (Q t) (Q s)) <= Tmax * Ymax * (t - s).
Proof.
  intros Hs Hst Ht.
  apply (Cmvt Q (fun x => Cmult (Tf x) (P x)) s t); [exact Hst| |].
  - intros x Hx. apply HQ. lra.
  - intros x Hx. assert (Hx' : z0 <= x <= z0 + H) by lra.
    rewrite Cmod_mult.
    apply mul_le2; (split; [apply Cmod_ge_0|]); [apply HTb|apply HPb]; exact Hx'.
Qed.

Lemma trunc_P z d : z0 <= z -> 0 <= d -> z + d <= z0 + H ->
  Cmod (Cminus (P (z + d)) (Cminus (P z) (Cmult (RtoC d) (Cmult (RtoC (kap z)) (Q z)))))
    <= (LK * Ymax + Kmax * (Tmax * Ymax)) * (d * d).
Proof.
  intros Hz Hd Hzd.
  assert (Hz' : z0 <= z <= z0 + H) by lra.
  set (c := Cmult (RtoC (kap z)) (Q z)).
  set (G := fun t => Cplus (P t) (Cmult (RtoC (t - z)) c)).
  set (G' := fun t => Cplus (Copp (Cmult (RtoC (kap t)) (Q t))) c).
  pose proof (Cmvt G G' z (z + d) ((LK * Ymax + Kmax * (Tmax * Ymax)) * d)) as M.
  replace (Cminus (P (z + d)) (Cminus (P z) (Cmult (RtoC d) c))) with (Cminus (G (z + d)) (G z)).
  2:{ unfold G. replace (z + d - z) with d by ring. replace (z - z) with 0 by ring. ring. }
  replace ((LK * Ymax + Kmax * (Tmax * Ymax)) * (d * d))
    with ((LK * Ymax + Kmax * (Tmax * Ymax)) * d * (z + d - z)) by ring.
  apply M; [lra| |].
  - intros t Ht. unfold G, G'. apply Cderive_affine. apply HP. lra.
  - intros t Ht. assert (Ht' : z0 <= t <= z0 + H) by lra.
    unfold G', c.
    replace (Cplus (Copp (Cmult (RtoC (kap t)) (Q t))) (Cmult (RtoC (kap z)) (Q z)))
      with (Cplus (Copp (Cmult (RtoC (kap t - kap z)) (Q t)))
                  (Copp (Cmult (RtoC (kap z)) (Cminus (Q t) (Q z))))).
    2:{ rewrite RtoC_minus. ring. }
    eapply Rle_trans; [apply Cmod_triangle|]. rewrite !Cmod_opp, !Cmod_mult, !Cmod_R.
    pose proof (HLK t z Ht' Hz') as L1. rewrite (Rabs_pos_eq (t - z)) in L1 by lra.
    pose proof (Q_lip z t Hz (proj1 Ht) (proj2 Ht')) as L2.
    pose proof (kap_bounds z Hz') as [Hk0 Hk1]. rewrite (Rabs_pos_eq (kap z)) by exact Hk0.
    pose proof (HQb t Ht') as Hq. pose proof Ymax_nonneg as HY. pose proof Tmax_nonneg as HT0.
    assert (E1 : Rabs (kap t - kap z) * Cmod (Q t) <= LK * (t - z) * Ymax).
    { apply mul_le2; split; try assumption; [apply Rabs_pos|apply Cmod_ge_0]. }
    assert (E2 : kap z * Cmod (Cminus (Q t) (Q z)) <= Kmax * (Tmax * Ymax * (t - z))).
    { apply mul_le2; split; try assumption. apply Cmod_ge_0. }
    assert (E3 : LK * (t - z) * Ymax <= LK * Ymax * d).
    { replace (LK * (t - z) * Ymax) with (LK * Ymax * (t - z)) by ring.
      apply Rmult_le_compat_l; [apply Rmult_le_pos; assumption|lra]. }
    assert (E4 : Kmax * (Tmax * Ymax * (t - z)) <= Kmax * (Tmax * Ymax) * d).
    { replace (Kmax * (Tmax * Ymax * (t - z))) with (Kmax * (Tmax * Ymax) * (t - z)) by ring.
      apply Rmult_le_compat_l; [|lra]. apply Rmult_le_pos; [left; exact Kmax_pos|].
      apply Rmult_le_pos; assumption. }
    lra.
Qed.

Lemma trunc_Q z d : z0 <= z -> 0 <= d -> z + d <= z0 + H ->
  Cmod (Cminus (Q (z + d)) (Cplus (Q z) (Cmult (RtoC d) (Cmult (Tf z) (P z)))))
    <= (LT * Ymax + Tmax * (Kmax * Ymax)) * (d * d).
Proof.
  intros Hz Hd Hzd.
  assert (Hz' : z0 <= z <= z0 + H) by lra.
  set (c := Copp (Cmult (Tf z) (P z))).
  set (G := fun t => Cplus (Q t) (Cmult (RtoC (t - z)) c)).
  set (G' := fun t => Cplus (Cmult (Tf t) (P t)) c).
  pose proof (Cmvt G G' z (z + d) ((LT * Ymax + Tmax * (Kmax * Ymax)) * d)) as M.
  replace (Cminus (Q (z + d)) (Cplus (Q z) (Cmult (RtoC d) (Cmult (Tf z) (P z)))))
    with (Cminus (G (z + d)) (G z)).
  2:{ unfold G, c. replace (z + d - z) with d by ring. replace (z - z) with 0 by ring. ring. }
  replace ((LT * Ymax + Tmax * (Kmax * Ymax)) * (d * d))
    with ((LT * Ymax + Tmax * (Kmax * Ymax)) * d * (z + d - z)) by ring.
  apply M; [lra| |].
  - intros t Ht. unfold G, G'. apply Cderive_affine. apply HQ. lra.
  - intros t Ht. assert (Ht' : z0 <= t <= z0 + H) by lra.
    unfold G', c.
    replace (Cplus (Cmult (Tf t) (P t)) (Copp (Cmult (Tf z) (P z))))
      with (Cplus (Cmult (Cminus (Tf t) (Tf z)) (P t)) (Cmult (Tf z) (Cminus (P t) (P z)))) by ring.
    eapply Rle_trans; [apply Cmod_triangle|]. rewrite !Cmod_mult.
    pose proof (HLT t z Ht' Hz') as L1. rewrite (Rabs_pos_eq (t - z)) in L1 by lra.
    pose proof (P_lip z t Hz (proj1 Ht) (proj2 Ht')) as L2.
    pose proof (HTb z Hz') as HTz.
    pose proof (HPb t Ht') as Hp. pose proof Ymax_nonneg as HY. pose proof Tmax_nonneg as HT0.
    pose proof Kmax_pos as HK0.
    assert (E1 : Cmod (Cminus (Tf t) (Tf z)) * Cmod (P t) <= LT * (t - z) * Ymax).
    { apply mul_le2; split; try assumption; apply Cmod_ge_0. }
    assert (E2 : Cmod (Tf z) * Cmod (Cminus (P t) (P z)) <= Tmax * (Kmax * Ymax * (t - z))).
    { apply mul_le2; split; try assumption; apply Cmod_ge_0. }
    assert (E3 : LT * (t - z) * Ymax <= LT * Ymax * d).
    { replace (LT * (t - z) * Ymax) with (LT * Ymax * (t - z)) by ring.
      apply Rmult_le_compat_l; [apply Rmult_le_pos; assumption|lra]. }
    assert (E4 : Tmax * (Kmax * Ymax * (t - z)) <= Tmax * (Kmax * Ymax) * d).
    { replace (Tmax * (Kmax * Ymax * (t - z))) with (Tmax * (Kmax * Ymax) * (t - z)) by ring.
      apply Rmult_le_compat_l; [|lra]. apply Rmult_le_pos; [exact HT0|].
      apply Rmult_le_pos; [left; exact HK0|exact HY]. }
    lra.
Qed.

(* local truncation constant *)
Definition tau : R :=
  (LK * Ymax + Kmax * (Tmax * Ymax))
  + (/ 2 * (Kmax * Tmax) + / 6 * (Kmax * Kmax * Tmax)) * Ymax
  + (LT * Ymax + Tmax * (Kmax * Ymax))
  + (/ 2 * (Kmax * Tmax) + / 6 * (Kmax * (Tmax * Tmax))) * Ymax.

Lemma tau_nonneg : 0 <= tau.
Proof.
  pose proof Ymax_nonneg as HY. pose proof Tmax_nonneg as HT0. pose proof Kmax_pos as HK0.
  assert (HKT : 0 <= Kmax * Tmax) by (apply Rmult_le_pos; lra).
  assert (HKKT : 0 <= Kmax * Kmax * Tmax) by (apply Rmult_le_pos; [apply Rmult_le_pos|]; lra).
  assert (HKTT : 0 <= Kmax * (Tmax * Tmax)) by (apply Rmult_le_pos; [|apply Rmult_le_pos]; lra).
  unfold tau.
  assert (0 <= LK * Ymax) by (apply Rmult_le_pos; assumption).
  assert (0 <= LT * Ymax) by (apply Rmult_le_pos; assumption).
  assert (0 <= Kmax * (Tmax * Ymax)) by (apply Rmult_le_pos; [lra|apply Rmult_le_pos; assumption]).
  assert (0 <= Tmax * (Kmax * Ymax)) by (apply Rmult_le_pos; [lra|apply Rmult_le_pos; lra]).
  assert (0 <= (/ 2 * (Kmax * Tmax) + / 6 * (Kmax * Kmax * Tmax)) * Ymax) by (apply Rmult_le_pos; lra).
  assert (0 <= (/ 2 * (Kmax * Tmax) + / 6 * (Kmax * (Tmax * Tmax))) * Ymax) by (apply Rmult_le_pos; lra).
  lra.
Qed.

Definition ysol (z : R) : CC * CC := (P z, Q z).

Lemma local_truncation z d : z0 <= z -> 0 <= d <= 1 -> z + d <= z0 + H ->
  N2 (sdiff (Sstep (kap z) (Tf z) d (ysol z)) (ysol (z + d))) <= tau * (d * d).
Proof.
  intros Hz Hd Hzd. assert (Hz' : z0 <= z <= z0 + H) by lra.
  pose proof (trunc_P z d Hz (proj1 Hd) Hzd) as TP.
  pose proof (trunc_Q z d Hz (proj1 Hd) Hzd) as TQ.
  destruct (Sstep_minus_euler Kmax Tmax (Rlt_le _ _ Kmax_pos) Tmax_nonneg (kap z) (Tf z) d (kap_bounds z Hz') (HTb z Hz') Hd
              (P z) (Q z) Ymax (HPb z Hz') (HQb z Hz')) as [SP SQ].
  unfold N2, sdiff, ysol. cbn [fst snd].
  set (S := Sstep (kap z) (Tf z) d (P z, Q z)) in *.
  set (EP := Cminus (P z) (Cmult (RtoC d) (Cmult (RtoC (kap z)) (Q z)))) in *.
  set (EQ := Cplus (Q z) (Cmult (RtoC d) (Cmult (Tf z) (P z)))) in *.
  replace (Cminus (fst S) (P (z + d))) with (Cplus (Cminus (fst S) EP) (Copp (Cminus (P (z + d)) EP))) by ring.
  replace (Cminus (snd S) (Q (z + d))) with (Cplus (Cminus (snd S) EQ) (Copp (Cminus (Q (z + d)) EQ))) by ring.
  pose proof (Cmod_triangle (Cminus (fst S) EP) (Copp (Cminus (P (z + d)) EP))) as T1.
  pose proof (Cmod_triangle (Cminus (snd S) EQ) (Copp (Cminus (Q (z + d)) EQ))) as T2.
  rewrite Cmod_opp in T1, T2. unfold tau. lra.
Qed.

Lemma one_step_error z d w : z0 <= z -> 0 <= d <= 1 -> z + d <= z0 + H ->
  N2 (sdiff (Sstep (kap z) (Tf z) d w) (ysol (z + d)))
    <= (1 + cst * d) * N2 (sdiff w (ysol z)) + tau * (d * d).
Proof.
  intros Hz Hd Hzd. assert (Hz' : z0 <= z <= z0 + H) by lra.
  eapply Rle_trans; [apply (N2_sdiff_triangle _ (Sstep (kap z) (Tf z) d (ysol z)))|].
  rewrite <- Sstep_sdiff.
  pose proof (Sstep_stable Kmax Tmax (Rlt_le _ _ Kmax_pos) Tmax_nonneg (kap z) (Tf z) d
                (kap_bounds z Hz') (HTb z Hz') Hd (sdiff w (ysol z))) as St.
  pose proof (local_truncation z d Hz Hd Hzd) as Lt.
  unfold cst. lra.
Qed.

(* ---------------------------------------------------------------------------------------- *)
(* 6. accumulation of the local errors over the layers (discrete Gronwall)                    *)

Lemma ivp_error_from (dmax : R) : dmax <= 1 -> forall dzs z w,
  z0 <= z -> z + Rsum dzs <= z0 + H -> (forall d, In d dzs -> 0 <= d <= dmax) ->
  forall k, (k <= length dzs)%nat ->
  N2 (sdiff (nth k (traj ROps (RtoC lx) (RtoC ly) (layers_from z dzs) w) (RtoC 0, RtoC 0))
            (ysol (z + height dzs k)))
    <= exp (cst * height dzs k) * (N2 (sdiff w (ysol z)) + tau * dmax * height dzs k).
Proof.
  intros Hdm1. induction dzs as [|d r IH]; intros z w Hz Hzs Hall k Hk.
  - cbn [length] in Hk. assert (k = 0%nat) by lia. subst k.
    cbn [layers_from traj nth]. rewrite height_0, Rplus_0_r, !Rmult_0_r, exp_0. lra.
  - destruct k as [|k].
    + cbn [layers_from traj nth]. rewrite height_0, Rplus_0_r, !Rmult_0_r, exp_0. lra.
    + cbn [length] in Hk.
      destruct (Hall d (or_introl eq_refl)) as [Hd0 Hdm].
      assert (Hall' : forall d', In d' r -> 0 <= d' <= dmax) by (intros d' Hin; apply Hall; right; exact Hin).
      assert (Hall0 : forall d', In d' r -> 0 <= d') by (intros d' Hin; apply (Hall' d' Hin)).
      assert (Hr0 : 0 <= Rsum r) by (apply Rsum_nonneg; exact Hall0).
      cbn [Rsum fold_right] in Hzs. fold (Rsum r) in Hzs.
      assert (Hz' : z0 <= z <= z0 + H) by lra.
      cbn [layers_from traj nth].
      rewrite step_ROps by (pose proof (Kz_pos z Hz'); lra).
      fold (kap z). fold (Tf z). rewrite height_cons.
      set (w' := Sstep (kap z) (Tf z) d w).
      assert (Hzd : z + d <= z0 + H) by lra.
      pose proof (IH (z + d) w' ltac:(lra) ltac:(lra) Hall' k ltac:(lia)) as I.
      replace (z + d + height r k) with (z + (d + height r k)) in I by ring.
      eapply Rle_trans; [exact I|].
      pose proof (one_step_error z d w Hz (conj Hd0 (Rle_trans _ _ _ Hdm Hdm1)) Hzd) as O1. fold w' in O1.
      pose proof (height_nonneg r k Hall0) as Hh0.
      set (h := height r k) in *. set (e := N2 (sdiff w (ysol z))) in *.
      set (e' := N2 (sdiff w' (ysol (z + d)))) in *.
      assert (He0 : 0 <= e) by apply N2_nonneg.
      pose proof cst_nonneg as Hc0. pose proof tau_nonneg as Ht0.
      replace (cst * (d + h)) with (cst * d + cst * h) by ring. rewrite exp_plus.
      set (E := exp (cst * d)). set (Eh := exp (cst * h)).
      assert (HE1 : 1 + cst * d <= E) by apply exp_ineq1_le.
      assert (HEge : 1 <= E) by (apply exp_ge_1; apply Rmult_le_pos; assumption).
      assert (HEh : 0 < Eh) by apply exp_pos.
      assert (Htd : 0 <= tau * dmax) by (apply Rmult_le_pos; lra).
      assert (A1 : (1 + cst * d) * e <= E * e) by (apply Rmult_le_compat_r; assumption).
      assert (A2 : tau * (d * d) <= tau * dmax * d).
      { replace (tau * dmax * d) with (tau * (dmax * d)) by ring.
        apply Rmult_le_compat_l; [exact Ht0|]. apply Rmult_le_compat_r; assumption. }
      assert (A3 : 0 <= tau * dmax * (d + h)) by (apply Rmult_le_pos; lra).
      assert (A4 : 1 * (tau * dmax * (d + h)) <= E * (tau * dmax * (d + h))) by (apply Rmult_le_compat_r; assumption).
      assert (A5 : e' + tau * dmax * h <= E * (e + tau * dmax * (d + h))) by lra.
      replace (E * Eh * (e + tau * dmax * (d + h))) with (Eh * (E * (e + tau * dmax * (d + h)))) by ring.
      apply Rmult_le_compat_l; [lra|exact A5].
Qed.


(* Stage 1 inside the section: trajectory from w0 versus the exact solution, all nodes *)
Lemma ivp_error_nodes (dzs : list R) (dmax : R) (w0 : CC * CC) :
  0 <= dmax <= 1 -> (forall d, In d dzs -> 0 <= d <= dmax) -> Rsum dzs <= H ->
  forall k, (k <= length dzs)%nat ->
  N2 (sdiff (nth k (traj ROps (RtoC lx) (RtoC ly) (layers_from z0 dzs) w0) (RtoC 0, RtoC 0))
            (ysol (z0 + height dzs k)))
    <= exp (cst * H) * (N2 (sdiff w0 (ysol z0)) + tau * H * dmax).
Proof.
  intros [Hdm0 Hdm1] Hall Hsum k Hk.
  eapply Rle_trans.
  - apply (ivp_error_from dmax Hdm1 dzs z0 w0); [lra|lra|exact Hall|exact Hk].
  - assert (Hall0 : forall d, In d dzs -> 0 <= d) by (intros d Hin; apply (Hall d Hin)).
    pose proof (height_nonneg dzs k Hall0) as Hh0.
    pose proof (height_le_Rsum dzs Hall0 k) as Hh1.
    pose proof cst_nonneg as Hc0. pose proof tau_nonneg as Ht0.
    pose proof (N2_nonneg (sdiff w0 (ysol z0))) as He0.
    set (h := height dzs k) in *. set (e := N2 (sdiff w0 (ysol z0))) in *.
    assert (Htd : 0 <= tau * dmax) by (apply Rmult_le_pos; assumption).
    assert (B1 : exp (cst * h) <= exp (cst * H)).
    { apply exp_mono. apply Rmult_le_compat_l; [exact Hc0|lra]. }
    assert (B2 : tau * dmax * h <= tau * H * dmax).
    { replace (tau * H * dmax) with (tau * dmax * H) by ring. apply Rmult_le_compat_l; [exact Htd|lra]. }
    assert (B3 : 0 <= tau * dmax * h) by (apply Rmult_le_pos; assumption).
    pose proof (exp_pos (cst * h)) as Hp.
    apply Rmult_le_compat; lra.
Qed.

End Exact.

(* ---------------------------------------------------------------------------------------- *)
(* 7. the two-point problem: shooting                                                         *)

Lemma defect_diff (bet : CC) (a b : CC * CC) :
  Cmod (Cminus (Cminus (snd a) (Cmult bet (fst a))) (Cminus (snd b) (Cmult bet (fst b))))
    <= (1 + Cmod bet) * N2 (sdiff a b).
Proof.
  unfold N2, sdiff. cbn [fst snd].
  replace (Cminus (Cminus (snd a) (Cmult bet (fst a))) (Cminus (snd b) (Cmult bet (fst b))))
    with (Cplus (Cminus (snd a) (snd b)) (Copp (Cmult bet (Cminus (fst a) (fst b))))) by ring.
  eapply Rle_trans; [apply Cmod_triangle|]. rewrite Cmod_opp, Cmod_mult.
  pose proof (Cmod_ge_0 bet) as Hb.
  pose proof (Cmod_ge_0 (Cminus (fst a) (fst b))) as H1. pose proof (Cmod_ge_0 (Cminus (snd a) (snd b))) as H2.
  nra.
Qed.

Section Shooting.
Variables P1 Q1 P Q : R -> CC.
Variables Y1 Y : R.
Hypothesis H1P : forall z, z0 <= z <= z0 + H -> Cderive P1 z (Copp (Cmult (RtoC (kap z)) (Q1 z))).
Hypothesis H1Q : forall z, z0 <= z <= z0 + H -> Cderive Q1 z (Cmult (Tf z) (P1 z)).
Hypothesis H1Pb : forall z, z0 <= z <= z0 + H -> Cmod (P1 z) <= Y1.
Hypothesis H1Qb : forall z, z0 <= z <= z0 + H -> Cmod (Q1 z) <= Y1.
Hypothesis H1P0 : P1 z0 = RtoC 1.
Hypothesis H1Q0 : Q1 z0 = RtoC 0.
Hypothesis HP : forall z, z0 <= z <= z0 + H -> Cderive P z (Copp (Cmult (RtoC (kap z)) (Q z))).
Hypothesis HQ : forall z, z0 <= z <= z0 + H -> Cderive Q z (Cmult (Tf z) (P z)).
Hypothesis HPb : forall z, z0 <= z <= z0 + H -> Cmod (P z) <= Y.
Hypothesis HQb : forall z, z0 <= z <= z0 + H -> Cmod (Q z) <= Y.
Variables qh KzN lam : CC.
Hypothesis HQ0 : Q z0 = qh.
Hypothesis HBC : Q (z0 + H) = Cmult (Cmult KzN lam) (P (z0 + H)).
Variable Dmin : R.
Hypothesis HDmin : 0 < Dmin.
Hypothesis HD : Dmin <= Cmod (Cminus (Q1 (z0 + H)) (Cmult (Cmult KzN lam) (P1 (z0 + H)))).

Definition Bnum : R := Cmod (Cmult KzN lam).
Definition C1 : R := exp (cst * H) * tau Y1 * H.
Definition C0 : R := exp (cst * H) * tau Y * H.
Definition h0 : R := Rmin 1 (Dmin / (2 * (1 + Bnum) * (C1 + 1))).
Definition C2 : R := C0 * (1 + 2 / Dmin * (1 + Bnum) * (2 * Y1 + C1)).

Lemma Bnum_nonneg : 0 <= Bnum. Proof. apply Cmod_ge_0. Qed.
Lemma C1_nonneg : 0 <= C1.
Proof.
  unfold C1. apply Rmult_le_pos; [apply Rmult_le_pos|exact HH].
  - left. apply exp_pos.
  - apply (tau_nonneg P1 Y1 H1Pb).
Qed.
Lemma C0_nonneg : 0 <= C0.
Proof.
  unfold C0. apply Rmult_le_pos; [apply Rmult_le_pos|exact HH].
  - left. apply exp_pos.
  - apply (tau_nonneg P Y HPb).
Qed.
Lemma h0_pos : 0 < h0.
Proof.
  unfold h0. apply Rmin_case; [lra|].
  pose proof Bnum_nonneg. pose proof C1_nonneg.
  apply Rdiv_lt_0_compat; [exact HDmin|]. apply Rmult_lt_0_compat; [apply Rmult_lt_0_compat|]; lra.
Qed.

Section Grid.
Variable dzs : list R.
Variable dmax : R.
Hypothesis Hdm0 : 0 <= dmax.
Hypothesis Hdmh : dmax <= h0.
Hypothesis Hall : forall d, In d dzs -> 0 <= d <= dmax.
Hypothesis Hsum : Rsum dzs = H.

Let lay := layers_from z0 dzs.
Let TR (w : CC * CC) (k : nat) : CC * CC :=
  nth k (traj ROps (RtoC lx) (RtoC ly) lay w) (RtoC 0, RtoC 0).
Let nN := length dzs.
Let bet := Cmult KzN lam.

Lemma dmax_le_1 : dmax <= 1.
Proof. eapply Rle_trans; [exact Hdmh|]. unfold h0. apply Rmin_l. Qed.

Lemma small_den : (1 + Bnum) * C1 * dmax <= Dmin / 2.
Proof.
  pose proof Bnum_nonneg as HB. pose proof C1_nonneg as HC.
  assert (Hpos : 0 < 2 * (1 + Bnum) * (C1 + 1)) by (apply Rmult_lt_0_compat; [apply Rmult_lt_0_compat|]; lra).
  assert (Hd2 : dmax <= Dmin / (2 * (1 + Bnum) * (C1 + 1))).
  { eapply Rle_trans; [exact Hdmh|]. unfold h0. apply Rmin_r. }
  assert (Hd3 : dmax * (2 * (1 + Bnum) * (C1 + 1)) <= Dmin).
  { apply Rmult_le_reg_r with (/ (2 * (1 + Bnum) * (C1 + 1))); [apply Rinv_0_lt_compat; exact Hpos|].
    rewrite Rmult_assoc, Rinv_r by lra. rewrite Rmult_1_r. exact Hd2. }
  assert (Hd4 : (1 + Bnum) * C1 * dmax <= (1 + Bnum) * (C1 + 1) * dmax).
  { apply Rmult_le_compat_r; [exact Hdm0|]. apply Rmult_le_compat_l; lra. }
  lra.
Qed.

Lemma final_is_TR w : final ROps (RtoC lx) (RtoC ly) lay w = TR w nN.
Proof.
  unfold TR, nN. rewrite <- (layers_from_length z0 dzs). fold lay. symmetry. apply (traj_last ROps ROps_laws).
Qed.

Lemma zN_eq : z0 + height dzs nN = z0 + H.
Proof. unfold nN. rewrite height_all, Hsum. reflexivity. Qed.

(* the fundamental discrete trajectory follows (P1, Q1) *)
Lemma t1_error k : (k <= nN)%nat ->
  N2 (sdiff (TR (RtoC 1, RtoC 0) k) (ysol P1 Q1 (z0 + height dzs k))) <= C1 * dmax.
Proof.
  intros Hk.
  pose proof (ivp_error_nodes P1 Q1 Y1 H1P H1Q H1Pb H1Qb dzs dmax (RtoC 1, RtoC 0)
                (conj Hdm0 dmax_le_1) Hall (Req_le _ _ Hsum) k Hk) as E.
  fold lay in E. fold (TR (RtoC 1, RtoC 0) k) in E.
  assert (Z : N2 (sdiff (RtoC 1, RtoC 0) (ysol P1 Q1 z0)) = 0).
  { unfold N2, sdiff, ysol. cbn [fst snd]. rewrite H1P0, H1Q0.
    replace (Cminus (RtoC 1) (RtoC 1)) with (RtoC 0) by ring.
    replace (Cminus (RtoC 0) (RtoC 0)) with (RtoC 0) by ring. rewrite Cmod_0. ring. }
  rewrite Z in E. unfold C1. lra.
Qed.

(* the discrete trajectory from the exact initial data follows (P, Q) *)
Lemma tP_error k : (k <= nN)%nat ->
  N2 (sdiff (TR (P z0, qh) k) (ysol P Q (z0 + height dzs k))) <= C0 * dmax.
Proof.
  intros Hk.
  pose proof (ivp_error_nodes P Q Y HP HQ HPb HQb dzs dmax (P z0, qh)
                (conj Hdm0 dmax_le_1) Hall (Req_le _ _ Hsum) k Hk) as E.
  fold lay in E. fold (TR (P z0, qh) k) in E.
  assert (Z : N2 (sdiff (P z0, qh) (ysol P Q z0)) = 0).
  { unfold N2, sdiff, ysol. cbn [fst snd]. rewrite HQ0.
    replace (Cminus (P z0) (P z0)) with (RtoC 0) by ring.
    replace (Cminus qh qh) with (RtoC 0) by ring. rewrite Cmod_0. ring. }
  rewrite Z in E. unfold C0. lra.
Qed.

Definition defect (w : CC * CC) : CC := Cminus (snd w) (Cmult bet (fst w)).

(* (i) the discrete shooting denominator stays away from zero *)
Lemma den_lower : Dmin / 2 <= Cmod (defect (TR (RtoC 1, RtoC 0) nN)).
Proof.
  pose proof (t1_error nN (le_n _)) as E. rewrite zN_eq in E.
  pose proof (defect_diff bet (TR (RtoC 1, RtoC 0) nN) (ysol P1 Q1 (z0 + H))) as Dd.
  fold (defect (TR (RtoC 1, RtoC 0) nN)) in Dd. fold (defect (ysol P1 Q1 (z0 + H))) in Dd.
  set (Dh := defect (TR (RtoC 1, RtoC 0) nN)) in *.
  set (Dc := defect (ysol P1 Q1 (z0 + H))) in *.
  assert (HDc : Dmin <= Cmod Dc) by exact HD.
  pose proof small_den as Sd. pose proof Bnum_nonneg as HB.
  assert (E2 : Cmod (Cminus Dh Dc) <= Dmin / 2).
  { eapply Rle_trans; [exact Dd|]. change (Cmod bet) with Bnum.
    eapply Rle_trans; [apply Rmult_le_compat_l; [lra|exact E]|]. lra. }
  pose proof (Cmod_triangle Dh (Cminus Dc Dh)) as Tr.
  replace (Cplus Dh (Cminus Dc Dh)) with Dc in Tr by ring.
  rewrite (Cmod_minus_sym Dc Dh) in Tr. lra.
Qed.

Lemma den_nonzero : defect (TR (RtoC 1, RtoC 0) nN) <> RtoC 0.
Proof.
  intros E. pose proof den_lower as L. rewrite E, Cmod_0 in L. lra.
Qed.

(* top defect of the trajectory started from the exact data *)
Lemma delta_small : Cmod (defect (TR (P z0, qh) nN)) <= (1 + Bnum) * (C0 * dmax).
Proof.
  pose proof (tP_error nN (le_n _)) as E. rewrite zN_eq in E.
  pose proof (defect_diff bet (TR (P z0, qh) nN) (ysol P Q (z0 + H))) as Dd.
  assert (Z : Cminus (snd (ysol P Q (z0 + H))) (Cmult bet (fst (ysol P Q (z0 + H)))) = RtoC 0).
  { unfold ysol, bet. cbn [fst snd]. rewrite HBC. ring. }
  rewrite Z in Dd.
  replace (Cminus (Cminus (snd (TR (P z0, qh) nN)) (Cmult bet (fst (TR (P z0, qh) nN)))) (RtoC 0))
    with (defect (TR (P z0, qh) nN)) in Dd by (unfold defect; ring).
  eapply Rle_trans; [exact Dd|]. change (Cmod bet) with Bnum. pose proof Bnum_nonneg.
  apply Rmult_le_compat_l; [lra|exact E].
Qed.

(* the model's shooting coefficient *)
Definition al_model : CC :=
  let y1 := final ROps (RtoC lx) (RtoC ly) lay (RtoC 1, RtoC 0) in
  let y2 := final ROps (RtoC lx) (RtoC ly) lay (RtoC 0, qh) in
  alpha ROps KzN lam (fst y1) (snd y1) (fst y2) (snd y2).

Lemma TR_comb (a : CC) k :
  TR (a, qh) k = (Cplus (Cmult a (fst (TR (RtoC 1, RtoC 0) k))) (fst (TR (RtoC 0, qh) k)),
                  Cplus (Cmult a (snd (TR (RtoC 1, RtoC 0) k))) (snd (TR (RtoC 0, qh) k))).
Proof.
  unfold TR. rewrite <- (shoot_is_traj ROps ROps_laws). reflexivity.
Qed.

Lemma al_minus_P0 :
  Cminus al_model (P z0)
  = Copp (Cdiv (defect (TR (P z0, qh) nN)) (defect (TR (RtoC 1, RtoC 0) nN))).
Proof.
  pose proof den_nonzero as Hnz.
  unfold al_model. cbv zeta. rewrite !final_is_TR. unfold alpha. cbn [ROps cdiv copp csub cmul Ops.C].
  unfold defect in *. rewrite (TR_comb (P z0) nN). cbn [fst snd]. fold bet.
  set (p1 := fst (TR (RtoC 1, RtoC 0) nN)) in *. set (q1 := snd (TR (RtoC 1, RtoC 0) nN)) in *.
  set (p2 := fst (TR (RtoC 0, qh) nN)). set (q2 := snd (TR (RtoC 0, qh) nN)).
  field. exact Hnz.
Qed.

Lemma al_minus_P0_small : Cmod (Cminus al_model (P z0)) <= 2 / Dmin * ((1 + Bnum) * (C0 * dmax)).
Proof.
  rewrite al_minus_P0, Cmod_opp, Cmod_div by exact den_nonzero.
  pose proof den_lower as L. pose proof delta_small as S.
  set (dl := Cmod (defect (TR (P z0, qh) nN))) in *.
  set (dn := Cmod (defect (TR (RtoC 1, RtoC 0) nN))) in *.
  assert (Hdl : 0 <= dl) by apply Cmod_ge_0.
  assert (Hdn : 0 < dn) by lra.
  assert (Hinv : / dn <= 2 / Dmin).
  { replace (2 / Dmin) with (/ (Dmin / 2)) by (field; lra). apply Rinv_le_contravar; lra. }
  assert (Hinv0 : 0 < / dn) by (apply Rinv_0_lt_compat; exact Hdn).
  unfold Rdiv at 1. rewrite (Rmult_comm (2 / Dmin)).
  apply Rmult_le_compat; lra.
Qed.

Lemma t1_size k : (k <= nN)%nat -> N2 (TR (RtoC 1, RtoC 0) k) <= 2 * Y1 + C1.
Proof.
  intros Hk. pose proof (t1_error k Hk) as E.
  assert (Hzk : z0 <= z0 + height dzs k <= z0 + H).
  { assert (Hall0 : forall d, In d dzs -> 0 <= d) by (intros d Hin; apply (Hall d Hin)).
    pose proof (height_nonneg dzs k Hall0). pose proof (height_le_Rsum dzs Hall0 k). lra. }
  pose proof (H1Pb _ Hzk) as Bp. pose proof (H1Qb _ Hzk) as Bq.
  set (t := TR (RtoC 1, RtoC 0) k) in *. set (y := ysol P1 Q1 (z0 + height dzs k)) in *.
  assert (Tr : N2 t <= N2 (sdiff t y) + N2 y).
  { unfold N2, sdiff. cbn [fst snd].
    pose proof (Cmod_triangle (Cminus (fst t) (fst y)) (fst y)) as T1.
    pose proof (Cmod_triangle (Cminus (snd t) (snd y)) (snd y)) as T2.
    replace (Cplus (Cminus (fst t) (fst y)) (fst y)) with (fst t) in T1 by ring.
    replace (Cplus (Cminus (snd t) (snd y)) (snd y)) with (snd t) in T2 by ring. lra. }
  assert (Ny : N2 y <= 2 * Y1) by (unfold N2, y, ysol; cbn [fst snd]; lra).
  pose proof C1_nonneg as HC. pose proof dmax_le_1 as Hd1.
  assert (C1 * dmax <= C1 * 1) by (apply Rmult_le_compat_l; assumption). lra.
Qed.

(* (ii) the model's solution is within C2 dmax of the exact one at every node *)
Lemma shoot_error k : (k <= nN)%nat ->
  N2 (sdiff (shoot_traj ROps (RtoC lx) (RtoC ly) lay al_model qh k) (ysol P Q (z0 + height dzs k)))
    <= C2 * dmax.
Proof.
  intros Hk.
  rewrite (shoot_is_traj ROps ROps_laws).
  change (nth k (traj ROps (RtoC lx) (RtoC ly) lay (al_model, qh)) (c0 ROps, c0 ROps)) with (TR (al_model, qh) k).
  eapply Rle_trans; [apply (N2_sdiff_triangle _ (TR (P z0, qh) k))|].
  pose proof (tP_error k Hk) as E2. pose proof (t1_size k Hk) as S1.
  pose proof al_minus_P0_small as A.
  assert (E1 : N2 (sdiff (TR (al_model, qh) k) (TR (P z0, qh) k))
               = Cmod (Cminus al_model (P z0)) * N2 (TR (RtoC 1, RtoC 0) k)).
  { rewrite (TR_comb al_model k), (TR_comb (P z0) k). unfold N2, sdiff. cbn [fst snd].
    set (t1 := TR (RtoC 1, RtoC 0) k). set (t2 := TR (RtoC 0, qh) k).
    replace (Cminus (Cplus (Cmult al_model (fst t1)) (fst t2)) (Cplus (Cmult (P z0) (fst t1)) (fst t2)))
      with (Cmult (Cminus al_model (P z0)) (fst t1)) by ring.
    replace (Cminus (Cplus (Cmult al_model (snd t1)) (snd t2)) (Cplus (Cmult (P z0) (snd t1)) (snd t2)))
      with (Cmult (Cminus al_model (P z0)) (snd t1)) by ring.
    rewrite !Cmod_mult. ring. }
  rewrite E1.
  pose proof (N2_nonneg (TR (RtoC 1, RtoC 0) k)) as Hn0.
  pose proof (Cmod_ge_0 (Cminus al_model (P z0))) as Ha0.
  assert (M : Cmod (Cminus al_model (P z0)) * N2 (TR (RtoC 1, RtoC 0) k)
              <= 2 / Dmin * ((1 + Bnum) * (C0 * dmax)) * (2 * Y1 + C1)).
  { apply Rmult_le_compat; assumption. }
  unfold C2. lra.
Qed.

Lemma N2_fst_le (w : CC * CC) : Cmod (fst w) <= N2 w.
Proof. unfold N2. pose proof (Cmod_ge_0 (snd w)). lra. Qed.
Lemma N2_snd_le (w : CC * CC) : Cmod (snd w) <= N2 w.
Proof. unfold N2. pose proof (Cmod_ge_0 (fst w)). lra. Qed.

(* Stage 2 in the vocabulary of the model *)
Lemma shooting_in_section :
  let layers := layers_from z0 dzs in
  let y1 := final ROps (RtoC lx) (RtoC ly) layers (RtoC 1, RtoC 0) in
  let y2 := final ROps (RtoC lx) (RtoC ly) layers (RtoC 0, qh) in
  let al := alpha ROps KzN lam (fst y1) (snd y1) (fst y2) (snd y2) in
  Dmin / 2 <= Cmod (Cminus (snd y1) (Cmult (Cmult KzN lam) (fst y1))) /\
  Cminus (snd y1) (Cmult (Cmult KzN lam) (fst y1)) <> RtoC 0 /\
  forall k, (k <= length dzs)%nat ->
    let sk := shoot_traj ROps (RtoC lx) (RtoC ly) layers al qh k in
    Cmod (Cminus (fst sk) (P (z0 + height dzs k))) <= C2 * dmax /\
    Cmod (Cminus (snd sk) (Q (z0 + height dzs k))) <= C2 * dmax.
Proof.
  cbv zeta. fold lay. rewrite !final_is_TR.
  split; [exact den_lower|]. split; [exact den_nonzero|].
  intros k Hk. pose proof (shoot_error k Hk) as E. unfold al_model in E. cbv zeta in E.
  rewrite !final_is_TR in E.
  set (sk := shoot_traj ROps (RtoC lx) (RtoC ly) lay _ qh k) in *.
  pose proof (N2_fst_le (sdiff sk (ysol P Q (z0 + height dzs k)))) as F1.
  pose proof (N2_snd_le (sdiff sk (ysol P Q (z0 + height dzs k)))) as F2.
  set (n := N2 (sdiff sk (ysol P Q (z0 + height dzs k)))) in *.
  unfold sdiff, ysol in F1, F2. cbn [fst snd] in F1, F2. split; (eapply Rle_trans; [|exact E]); [exact F1|exact F2].
Qed.

End Grid.
End Shooting.
End Varying.

(* ------------------------------------------------------------------------------------------ *)
(* 8. the theorems, closed                                                                      *)

(* bounds on the coefficient profiles over [z0, z0+H] *)
Definition coeff_hyps (Kx Ky u v Kz : R -> R) (lx ly z0 H kmin Tmax LK LT : R) : Prop :=
  0 <= H /\ 0 < kmin /\
  (forall z, z0 <= z <= z0 + H -> kmin <= Kz z) /\
  (forall z, z0 <= z <= z0 + H -> Cmod (Tf Kx Ky u v lx ly z) <= Tmax) /\
  0 <= LK /\ 0 <= LT /\
  (forall s t, z0 <= s <= z0 + H -> z0 <= t <= z0 + H ->
     Rabs (kap Kz s - kap Kz t) <= LK * Rabs (s - t)) /\
  (forall s t, z0 <= s <= z0 + H -> z0 <= t <= z0 + H ->
     Cmod (Cminus (Tf Kx Ky u v lx ly s) (Tf Kx Ky u v lx ly t)) <= LT * Rabs (s - t)).

(* (P, Q) solves P' = -Q/Kz, Q' = T P on [z0, z0+H] and is bounded by Ymax there *)
Definition exact_solution (Kx Ky u v Kz : R -> R) (lx ly z0 H : R) (P Q : R -> CC) (Ymax : R) : Prop :=
  (forall z, z0 <= z <= z0 + H -> Cderive P z (Copp (Cmult (RtoC (kap Kz z)) (Q z)))) /\
  (forall z, z0 <= z <= z0 + H -> Cderive Q z (Cmult (Tf Kx Ky u v lx ly z) (P z))) /\
  (forall z, z0 <= z <= z0 + H -> Cmod (P z) <= Ymax) /\
  (forall z, z0 <= z <= z0 + H -> Cmod (Q z) <= Ymax).

Definition grid_ok (dzs : list R) (dmax : R) : Prop :=
  0 <= dmax /\ forall d, In d dzs -> 0 <= d <= dmax.

(* node heights and the layers of the model on the grid *)
Definition zk (z0 : R) (dzs : list R) (k : nat) : R := z0 + height dzs k.
Definition layers_v (Kx Ky u v Kz : R -> R) (z0 : R) (dzs : list R) : list (layer ROps) :=
  layers_from Kx Ky u v Kz z0 dzs.

Lemma layers_v_length Kx Ky u v Kz z0 dzs : length (layers_v Kx Ky u v Kz z0 dzs) = length dzs.
Proof. apply layers_from_length. Qed.

Lemma layers_v_nth Kx Ky u v Kz z0 dzs k Ld : (k < length dzs)%nat ->
  nth k (layers_v Kx Ky u v Kz z0 dzs) Ld
  = mkLayer ROps (RtoC (Kx (zk z0 dzs k))) (RtoC (Ky (zk z0 dzs k))) (RtoC (u (zk z0 dzs k)))
            (RtoC (v (zk z0 dzs k))) (RtoC (Kz (zk z0 dzs k))) (RtoC (nth k dzs 0)).
Proof. intros Hk. unfold layers_v, zk. rewrite layers_from_nth by exact Hk. reflexivity. Qed.

(* the constants *)
Definition Cstab (kmin Tmax : R) : R := cst kmin Tmax.
Definition Ctau (kmin Tmax LK LT Ymax : R) : R := tau kmin Tmax LK LT Ymax.
Definition Cconst (kmin Tmax LK LT H Ymax : R) : R :=
  exp (Cstab kmin Tmax * H) * Ctau kmin Tmax LK LT Ymax * H.

Lemma Cstab_explicit kmin Tmax :
  Cstab kmin Tmax
  = / kmin + Tmax + / 2 * / kmin * Tmax + / 6 * (/ kmin * / kmin) * Tmax + / 6 * / kmin * (Tmax * Tmax).
Proof. reflexivity. Qed.

Lemma Ctau_explicit kmin Tmax LK LT Ymax :
  Ctau kmin Tmax LK LT Ymax
  = (LK * Ymax + / kmin * (Tmax * Ymax))
    + (/ 2 * (/ kmin * Tmax) + / 6 * (/ kmin * / kmin * Tmax)) * Ymax
    + (LT * Ymax + Tmax * (/ kmin * Ymax))
    + (/ 2 * (/ kmin * Tmax) + / 6 * (/ kmin * (Tmax * Tmax))) * Ymax.
Proof. reflexivity. Qed.

(* Stage 1, arbitrary starting state w0, sum of the two component errors *)
Theorem ivp_first_order_gen :
  forall (Kx Ky u v Kz : R -> R) (lx ly z0 H kmin Tmax LK LT : R) (P Q : R -> CC) (Ymax : R),
  coeff_hyps Kx Ky u v Kz lx ly z0 H kmin Tmax LK LT ->
  exact_solution Kx Ky u v Kz lx ly z0 H P Q Ymax ->
  forall (dzs : list R) (dmax : R) (w0 : CC * CC),
  grid_ok dzs dmax -> dmax <= 1 -> Rsum dzs <= H ->
  forall k, (k <= length dzs)%nat ->
  let wk := nth k (traj ROps (RtoC lx) (RtoC ly) (layers_v Kx Ky u v Kz z0 dzs) w0) (RtoC 0, RtoC 0) in
  Cmod (Cminus (fst wk) (P (zk z0 dzs k))) + Cmod (Cminus (snd wk) (Q (zk z0 dzs k)))
    <= exp (Cstab kmin Tmax * H)
       * (Cmod (Cminus (fst w0) (P z0)) + Cmod (Cminus (snd w0) (Q z0))
          + Ctau kmin Tmax LK LT Ymax * H * dmax).
Proof.
  intros Kx Ky u v Kz lx ly z0 H kmin Tmax LK LT P Q Ymax
    (HH & Hkm & HKz & HTb & HLK0 & HLT0 & HLK & HLT) (HP & HQ & HPb & HQb)
    dzs dmax w0 [Hd0 Hall] Hd1 Hsum k Hk.
  exact (ivp_error_nodes Kx Ky u v Kz lx ly z0 H kmin Tmax LK LT HH Hkm HKz HTb HLK0 HLT0 HLK HLT
           P Q Ymax HP HQ HPb HQb dzs dmax w0 (conj Hd0 Hd1) Hall Hsum k Hk).
Qed.

(* Stage 1: trajectory started from the exact initial data *)
Theorem ivp_first_order :
  forall (Kx Ky u v Kz : R -> R) (lx ly z0 H kmin Tmax LK LT : R) (P Q : R -> CC) (Ymax : R),
  coeff_hyps Kx Ky u v Kz lx ly z0 H kmin Tmax LK LT ->
  exact_solution Kx Ky u v Kz lx ly z0 H P Q Ymax ->
  forall (dzs : list R) (dmax : R),
  grid_ok dzs dmax -> dmax <= 1 -> Rsum dzs <= H ->
  forall k, (k <= length dzs)%nat ->
  let wk := nth k (traj ROps (RtoC lx) (RtoC ly) (layers_v Kx Ky u v Kz z0 dzs) (P z0, Q z0))
                (RtoC 0, RtoC 0) in
  Rmax (Cmod (Cminus (fst wk) (P (zk z0 dzs k)))) (Cmod (Cminus (snd wk) (Q (zk z0 dzs k))))
    <= Cconst kmin Tmax LK LT H Ymax * dmax.
Proof.
  intros Kx Ky u v Kz lx ly z0 H kmin Tmax LK LT P Q Ymax Hc He dzs dmax Hg Hd1 Hsum k Hk wk.
  pose proof (ivp_first_order_gen Kx Ky u v Kz lx ly z0 H kmin Tmax LK LT P Q Ymax Hc He
                dzs dmax (P z0, Q z0) Hg Hd1 Hsum k Hk) as E.
  cbv zeta in E. fold wk in E. cbn [fst snd] in E.
  replace (Cminus (P z0) (P z0)) with (RtoC 0) in E by ring.
  replace (Cminus (Q z0) (Q z0)) with (RtoC 0) in E by ring.
  rewrite Cmod_0 in E.
  pose proof (Cmod_ge_0 (Cminus (fst wk) (P (zk z0 dzs k)))) as G1.
  pose proof (Cmod_ge_0 (Cminus (snd wk) (Q (zk z0 dzs k)))) as G2.
  unfold Cconst. apply Rmax_case; lra.
Qed.

(* Stage 2: the shooting solution of the model, general complex KzN and lam *)
Theorem shooting_first_order :
  forall (Kx Ky u v Kz : R -> R) (lx ly z0 H kmin Tmax LK LT : R)
         (P1 Q1 P Q : R -> CC) (Y1 Y : R) (qh KzN lam : CC) (Dmin : R),
  coeff_hyps Kx Ky u v Kz lx ly z0 H kmin Tmax LK LT ->
  exact_solution Kx Ky u v Kz lx ly z0 H P1 Q1 Y1 -> P1 z0 = RtoC 1 -> Q1 z0 = RtoC 0 ->
  exact_solution Kx Ky u v Kz lx ly z0 H P Q Y ->
  Q z0 = qh -> Q (z0 + H) = Cmult (Cmult KzN lam) (P (z0 + H)) ->
  0 < Dmin -> Dmin <= Cmod (Cminus (Q1 (z0 + H)) (Cmult (Cmult KzN lam) (P1 (z0 + H)))) ->
  let hh := h0 H kmin Tmax LK LT Y1 KzN lam Dmin in
  let CC2 := C2 H kmin Tmax LK LT Y1 Y KzN lam Dmin in
  0 < hh /\
  forall (dzs : list R) (dmax : R),
  grid_ok dzs dmax -> Rsum dzs = H -> dmax <= hh ->
  let layers := layers_v Kx Ky u v Kz z0 dzs in
  let y1 := final ROps (RtoC lx) (RtoC ly) layers (RtoC 1, RtoC 0) in
  let y2 := final ROps (RtoC lx) (RtoC ly) layers (RtoC 0, qh) in
  let al := alpha ROps KzN lam (fst y1) (snd y1) (fst y2) (snd y2) in
  Dmin / 2 <= Cmod (Cminus (snd y1) (Cmult (Cmult KzN lam) (fst y1))) /\
  Cminus (snd y1) (Cmult (Cmult KzN lam) (fst y1)) <> RtoC 0 /\
  forall k, (k <= length dzs)%nat ->
    let sk := shoot_traj ROps (RtoC lx) (RtoC ly) layers al qh k in
    Cmod (Cminus (fst sk) (P (zk z0 dzs k))) <= CC2 * dmax /\
    Cmod (Cminus (snd sk) (Q (zk z0 dzs k))) <= CC2 * dmax.
Proof.
  intros Kx Ky u v Kz lx ly z0 H kmin Tmax LK LT P1 Q1 P Q Y1 Y qh KzN lam Dmin
    (HH & Hkm & HKz & HTb & HLK0 & HLT0 & HLK & HLT) (H1P & H1Q & H1Pb & H1Qb) H1P0 H1Q0
    (HP & HQ & HPb & HQb) HQ0 HBC HDm HD hh CC2.
  split.
  - exact (h0_pos Kx Ky u v lx ly z0 H kmin Tmax LK LT HH Hkm HTb HLK0 HLT0 P1 Y1 H1Pb KzN lam Dmin HDm).
  - intros dzs dmax [Hd0 Hall] Hsum Hdh.
    exact (shooting_in_section Kx Ky u v Kz lx ly z0 H kmin Tmax LK LT HH Hkm HKz HTb HLK0 HLT0 HLK HLT
             P1 Q1 P Q Y1 Y H1P H1Q H1Pb H1Qb H1P0 H1Q0 HP HQ HPb HQb qh KzN lam HQ0 HBC
             Dmin HDm HD dzs dmax Hd0 Hdh Hall Hsum).
Qed.

(* the constants of Stage 2, spelled out *)
Lemma h0_explicit H kmin Tmax LK LT Y1 KzN lam Dmin :
  h0 H kmin Tmax LK LT Y1 KzN lam Dmin
  = Rmin 1 (Dmin / (2 * (1 + Cmod (Cmult KzN lam)) * (Cconst kmin Tmax LK LT H Y1 + 1))).
Proof. reflexivity. Qed.

Lemma C2_explicit H kmin Tmax LK LT Y1 Y KzN lam Dmin :
  C2 H kmin Tmax LK LT Y1 Y KzN lam Dmin
  = Cconst kmin Tmax LK LT H Y
    * (1 + 2 / Dmin * (1 + Cmod (Cmult KzN lam)) * (2 * Y1 + Cconst kmin Tmax LK LT H Y1)).
Proof. reflexivity. Qed.

(* Stage 2 with the top condition of the model: KzN = Kz(zN), lam = eigval at the top node *)
Corollary shooting_first_order_model :
  forall (Kx Ky u v Kz : R -> R) (lx ly z0 H kmin Tmax LK LT : R)
         (P1 Q1 P Q : R -> CC) (Y1 Y : R) (qh : CC) (Dmin : R),
  let zN := z0 + H in
  let KzN := RtoC (Kz zN) in
  let lam := eigval ROps (RtoC (Kx zN)) (RtoC (Ky zN)) (RtoC (u zN)) (RtoC (v zN)) (RtoC (Kz zN))
                    (RtoC lx) (RtoC ly) in
  coeff_hyps Kx Ky u v Kz lx ly z0 H kmin Tmax LK LT ->
  exact_solution Kx Ky u v Kz lx ly z0 H P1 Q1 Y1 -> P1 z0 = RtoC 1 -> Q1 z0 = RtoC 0 ->
  exact_solution Kx Ky u v Kz lx ly z0 H P Q Y ->
  Q z0 = qh -> Q zN = Cmult (Cmult KzN lam) (P zN) ->
  0 < Dmin -> Dmin <= Cmod (Cminus (Q1 zN) (Cmult (Cmult KzN lam) (P1 zN))) ->
  let hh := h0 H kmin Tmax LK LT Y1 KzN lam Dmin in
  let CC2 := C2 H kmin Tmax LK LT Y1 Y KzN lam Dmin in
  0 < hh /\
  forall (dzs : list R) (dmax : R),
  grid_ok dzs dmax -> Rsum dzs = H -> dmax <= hh ->
  let layers := layers_v Kx Ky u v Kz z0 dzs in
  let y1 := final ROps (RtoC lx) (RtoC ly) layers (RtoC 1, RtoC 0) in
  let y2 := final ROps (RtoC lx) (RtoC ly) layers (RtoC 0, qh) in
  let al := alpha ROps KzN lam (fst y1) (snd y1) (fst y2) (snd y2) in
  Dmin / 2 <= Cmod (Cminus (snd y1) (Cmult (Cmult KzN lam) (fst y1))) /\
  Cminus (snd y1) (Cmult (Cmult KzN lam) (fst y1)) <> RtoC 0 /\
  forall k, (k <= length dzs)%nat ->
    let sk := shoot_traj ROps (RtoC lx) (RtoC ly) layers al qh k in
    Cmod (Cminus (fst sk) (P (zk z0 dzs k))) <= CC2 * dmax /\
    Cmod (Cminus (snd sk) (Q (zk z0 dzs k))) <= CC2 * dmax.
Proof.
  intros Kx Ky u v Kz lx ly z0 H kmin Tmax LK LT P1 Q1 P Q Y1 Y qh Dmin zN KzN lam.
  exact (shooting_first_order Kx Ky u v Kz lx ly z0 H kmin Tmax LK LT P1 Q1 P Q Y1 Y qh KzN lam Dmin).
Qed.

(* uniform grids: the error at every node is eventually below any eps *)
Lemma INR_above (m : R) : 0 <= m -> exists n0 : nat, (1 <= n0)%nat /\ forall n, (n0 <= n)%nat -> m < INR n.
Proof.
  intros Hm. destruct (nfloor_ex m Hm) as [n1 [_ Hn1]]. exists (S n1). split; [lia|].
  intros n Hn. apply le_INR in Hn. rewrite S_INR in Hn. lra.
Qed.

Theorem shooting_uniform_refinement :
  forall (Kx Ky u v Kz : R -> R) (lx ly z0 H kmin Tmax LK LT : R)
         (P1 Q1 P Q : R -> CC) (Y1 Y : R) (qh KzN lam : CC) (Dmin : R),
  coeff_hyps Kx Ky u v Kz lx ly z0 H kmin Tmax LK LT ->
  exact_solution Kx Ky u v Kz lx ly z0 H P1 Q1 Y1 -> P1 z0 = RtoC 1 -> Q1 z0 = RtoC 0 ->
  exact_solution Kx Ky u v Kz lx ly z0 H P Q Y ->
  Q z0 = qh -> Q (z0 + H) = Cmult (Cmult KzN lam) (P (z0 + H)) ->
  0 < Dmin -> Dmin <= Cmod (Cminus (Q1 (z0 + H)) (Cmult (Cmult KzN lam) (P1 (z0 + H)))) ->
  forall eps, 0 < eps -> exists n0 : nat, (1 <= n0)%nat /\ forall n, (n0 <= n)%nat ->
  let dzs := repeat (H / INR n) n in
  let layers := layers_v Kx Ky u v Kz z0 dzs in
  let y1 := final ROps (RtoC lx) (RtoC ly) layers (RtoC 1, RtoC 0) in
  let y2 := final ROps (RtoC lx) (RtoC ly) layers (RtoC 0, qh) in
  let al := alpha ROps KzN lam (fst y1) (snd y1) (fst y2) (snd y2) in
  Cminus (snd y1) (Cmult (Cmult KzN lam) (fst y1)) <> RtoC 0 /\
  forall k, (k <= n)%nat ->
    let sk := shoot_traj ROps (RtoC lx) (RtoC ly) layers al qh k in
    Cmod (Cminus (fst sk) (P (zk z0 dzs k))) <= eps /\
    Cmod (Cminus (snd sk) (Q (zk z0 dzs k))) <= eps.
Proof.
  intros Kx Ky u v Kz lx ly z0 H kmin Tmax LK LT P1 Q1 P Q Y1 Y qh KzN lam Dmin
    Hc He1 H1P0 H1Q0 He HQ0 HBC HDm HD eps Heps.
  destruct (shooting_first_order Kx Ky u v Kz lx ly z0 H kmin Tmax LK LT P1 Q1 P Q Y1 Y qh KzN lam Dmin
              Hc He1 H1P0 H1Q0 He HQ0 HBC HDm HD) as [Hh Hmain].
  set (hh := h0 H kmin Tmax LK LT Y1 KzN lam Dmin) in *.
  set (CC2 := C2 H kmin Tmax LK LT Y1 Y KzN lam Dmin) in *.
  assert (HH : 0 <= H) by (destruct Hc as [HH _]; exact HH).
  set (m := H / hh + Rabs (CC2 * H) / eps + 1).
  assert (Hm1 : 0 <= H / hh) by (apply Rmult_le_pos; [exact HH|left; apply Rinv_0_lt_compat; exact Hh]).
  assert (Hm2 : 0 <= Rabs (CC2 * H) / eps)
    by (apply Rmult_le_pos; [apply Rabs_pos|left; apply Rinv_0_lt_compat; exact Heps]).
  destruct (INR_above m ltac:(unfold m; lra)) as [n0 [Hn01 Hn0]].
  exists n0. split; [exact Hn01|]. intros n Hn dzs.
  pose proof (Hn0 n Hn) as Hmn. unfold m in Hmn.
  assert (HnR : 0 < INR n) by lra.
  assert (Hd0 : 0 <= H / INR n) by (apply Rmult_le_pos; [exact HH|left; apply Rinv_0_lt_compat; exact HnR]).
  assert (Hg : grid_ok dzs (H / INR n)).
  { split; [exact Hd0|]. intros d Hin. unfold dzs in Hin. apply repeat_spec in Hin. subst d. lra. }
  assert (Hsum : Rsum dzs = H).
  { unfold dzs. rewrite Rsum_repeat. field. lra. }
  assert (Hsmall : H / INR n <= hh).
  { apply Rle_div_l; [exact HnR|].
    assert (Hlt : H / hh < INR n) by lra.
    apply Rlt_div_l in Hlt; [|exact Hh]. rewrite Rmult_comm. lra. }
  assert (Heps2 : CC2 * (H / INR n) <= eps).
  { replace (CC2 * (H / INR n)) with ((CC2 * H) / INR n) by (field; lra).
    apply Rle_div_l; [exact HnR|].
    assert (A : Rabs (CC2 * H) / eps < INR n) by lra.
    apply Rlt_div_l in A; [|exact Heps].
    pose proof (Rle_abs (CC2 * H)). rewrite Rmult_comm. lra. }
  destruct (Hmain dzs (H / INR n) Hg Hsum Hsmall) as (_ & Hnz & Hk).
  split; [exact Hnz|].
  intros k Hkn. assert (Hkl : (k <= length dzs)%nat) by (unfold dzs; rewrite repeat_length; exact Hkn).
  destruct (Hk k Hkl) as [E1 E2]. split; eapply Rle_trans; [exact E1|exact Heps2|exact E2|exact Heps2].
Qed.

Lemma zk_uniform (z0 d : R) (n : nat) : forall k, (k <= n)%nat -> zk z0 (repeat d n) k = z0 + INR k * d.
Proof.
  unfold zk. induction n as [|n IH]; intros k Hk.
  - assert (k = 0%nat) by lia. subst k. rewrite height_0. cbn [INR]. ring.
  - destruct k as [|k].
    + rewrite height_0. cbn [INR]. ring.
    + cbn [repeat]. rewrite height_cons, S_INR.
      assert (E : z0 + height (repeat d n) k = z0 + INR k * d) by (apply IH; lia). lra.
Qed.

(* the error of the concentration mode and of the flux mode at the top node tends to 0 *)
Corollary shooting_uniform_top_limit :
  forall (Kx Ky u v Kz : R -> R) (lx ly z0 H kmin Tmax LK LT : R)
         (P1 Q1 P Q : R -> CC) (Y1 Y : R) (qh KzN lam : CC) (Dmin : R),
  coeff_hyps Kx Ky u v Kz lx ly z0 H kmin Tmax LK LT ->
  exact_solution Kx Ky u v Kz lx ly z0 H P1 Q1 Y1 -> P1 z0 = RtoC 1 -> Q1 z0 = RtoC 0 ->
  exact_solution Kx Ky u v Kz lx ly z0 H P Q Y ->
  Q z0 = qh -> Q (z0 + H) = Cmult (Cmult KzN lam) (P (z0 + H)) ->
  0 < Dmin -> Dmin <= Cmod (Cminus (Q1 (z0 + H)) (Cmult (Cmult KzN lam) (P1 (z0 + H)))) ->
  let top := fun n : nat =>
    let layers := layers_v Kx Ky u v Kz z0 (repeat (H / INR (S n)) (S n)) in
    let y1 := final ROps (RtoC lx) (RtoC ly) layers (RtoC 1, RtoC 0) in
    let y2 := final ROps (RtoC lx) (RtoC ly) layers (RtoC 0, qh) in
    let al := alpha ROps KzN lam (fst y1) (snd y1) (fst y2) (snd y2) in
    shoot_traj ROps (RtoC lx) (RtoC ly) layers al qh (S n) in
  is_lim_seq (fun n => Cmod (Cminus (fst (top n)) (P (z0 + H)))) 0 /\
  is_lim_seq (fun n => Cmod (Cminus (snd (top n)) (Q (z0 + H)))) 0.
Proof.
  intros Kx Ky u v Kz lx ly z0 H kmin Tmax LK LT P1 Q1 P Q Y1 Y qh KzN lam Dmin
    Hc He1 H1P0 H1Q0 He HQ0 HBC HDm HD top.
  assert (Key : forall eps : posreal, exists n0 : nat, forall n, (n0 <= n)%nat ->
            Cmod (Cminus (fst (top n)) (P (z0 + H))) < eps /\
            Cmod (Cminus (snd (top n)) (Q (z0 + H))) < eps).
  { intros eps. assert (He2 : 0 < eps / 2) by (pose proof (cond_pos eps); lra).
    destruct (shooting_uniform_refinement Kx Ky u v Kz lx ly z0 H kmin Tmax LK LT P1 Q1 P Q Y1 Y qh KzN lam
                Dmin Hc He1 H1P0 H1Q0 He HQ0 HBC HDm HD (eps / 2) He2) as [n0 [_ Hn]].
    exists n0. intros n Hle. destruct (Hn (S n) ltac:(lia)) as [_ Hk].
    destruct (Hk (S n) (le_n _)) as [E1 E2].
    rewrite zk_uniform in E1, E2 by lia.
    assert (Ez : z0 + INR (S n) * (H / INR (S n)) = z0 + H).
    { field. apply not_0_INR. lia. }
    rewrite Ez in E1, E2. split.
    - eapply Rle_lt_trans; [exact E1|lra].
    - eapply Rle_lt_trans; [exact E2|lra]. }
  split; apply is_lim_seq_spec; intros eps; destruct (Key eps) as [n0 Hn]; exists n0; intros n Hle;
    destruct (Hn n Hle) as [E1 E2]; rewrite Rminus_0_r, Rabs_pos_eq by apply Cmod_ge_0; assumption.
Qed.

(* ------------------------------------------------------------------------------------------ *)
(* 9. the hypotheses are satisfiable: a height-dependent instance with closed-form solutions    *)

(* Kz(z) = 1 + z, Kx(z) = 1/(1+z), no wind, lx = 1, ly = 0 on [0, 1]:  T(z) = -1/(1+z).
   Solutions of P' = -Q/Kz, Q' = T P:  (1+z, -(1+z)) and (1/(1+z), 1/(1+z)).
   The decaying one meets Q = Kz*lam*P at the top with lam = eigval = 1/2, Kz(1) = 2. *)
Definition iKx (z : R) : R := / (1 + z).
Definition iKz (z : R) : R := 1 + z.
Definition izero (z : R) : R := 0.
Definition ip1 (z : R) : R := ((1 + z) + / (1 + z)) / 2.
Definition iq1 (z : R) : R := (- (1 + z) + / (1 + z)) / 2.
Definition ip (z : R) : R := / (1 + z).

Lemma iTf (z : R) : Tf iKx izero izero izero 1 0 z = RtoC (- / (1 + z)).
Proof.
  unfold Tf, Tsym, iKx, izero. cbn [ROps cadd cmul csub copp ci].
  unfold Cminus, Cplus, Copp, Cmult, Ci, RtoC. cbn [fst snd]. f_equal; ring.
Qed.

Lemma ikap (z : R) : kap iKz z = / (1 + z).
Proof. reflexivity. Qed.

Lemma inv1p_bounds (z : R) : 0 <= z -> 0 < / (1 + z) <= 1.
Proof.
  intros Hz. split; [apply Rinv_0_lt_compat; lra|].
  rewrite <- Rinv_1 at 2. apply Rinv_le_contravar; lra.
Qed.

Lemma inv1p_lip (s t : R) : 0 <= s -> 0 <= t -> Rabs (/ (1 + s) - / (1 + t)) <= 1 * Rabs (s - t).
Proof.
  intros Hs Ht.
  replace (/ (1 + s) - / (1 + t)) with ((t - s) * (/ (1 + s) * / (1 + t))) by (field; lra).
  destruct (inv1p_bounds s Hs) as [As Bs]. destruct (inv1p_bounds t Ht) as [At Bt].
  assert (Hp0 : 0 <= / (1 + s) * / (1 + t)) by (apply Rmult_le_pos; lra).
  assert (Hp1 : / (1 + s) * / (1 + t) <= 1 * 1) by (apply Rmult_le_compat; lra).
  rewrite Rabs_mult, (Rabs_minus_sym t s), (Rabs_pos_eq _ Hp0).
  pose proof (Rabs_pos (s - t)) as Ha.
  rewrite Rmult_comm. apply Rmult_le_compat_r; lra.
Qed.

Lemma instance_coeffs : coeff_hyps iKx izero izero izero iKz 1 0 0 1 1 1 1 1.
Proof.
  unfold coeff_hyps.
  split; [lra|]. split; [lra|]. split; [|split; [|split; [lra|split; [lra|split]]]].
  - intros z Hz. unfold iKz. lra.
  - intros z Hz. rewrite iTf, Cmod_R, Rabs_Ropp.
    destruct (inv1p_bounds z ltac:(lra)) as [A B]. rewrite Rabs_pos_eq; lra.
  - intros s t Hs Ht. rewrite !ikap. apply inv1p_lip; lra.
  - intros s t Hs Ht. rewrite !iTf, <- RtoC_minus, Cmod_R.
    replace (- / (1 + s) - - / (1 + t)) with (- (/ (1 + s) - / (1 + t))) by ring.
    rewrite Rabs_Ropp. apply inv1p_lip; lra.
Qed.

Lemma Cderive_RtoC (f : R -> R) (f' t : R) :
  is_derive f t f' -> Cderive (fun s => RtoC (f s)) t (RtoC f').
Proof.
  intros Hf. apply Cderive_pair.
  - exact Hf.
  - apply (is_derive_const (K:=R_AbsRing) (V:=R_NormedModule) 0 t).
Qed.

(* a real pair (f, g) with f' = -g/(1+z), g' = -f/(1+z) is an exact solution of the instance *)
Lemma instance_exact (f g : R -> R) (Y : R) :
  (forall z, 0 <= z <= 1 -> is_derive f z (- (/ (1 + z) * g z))) ->
  (forall z, 0 <= z <= 1 -> is_derive g z (- / (1 + z) * f z)) ->
  (forall z, 0 <= z <= 1 -> Rabs (f z) <= Y) ->
  (forall z, 0 <= z <= 1 -> Rabs (g z) <= Y) ->
  exact_solution iKx izero izero izero iKz 1 0 0 1 (fun z => RtoC (f z)) (fun z => RtoC (g z)) Y.
Proof.
  intros Hf Hg Bf Bg. unfold exact_solution. split; [|split; [|split]].
  - intros z Hz. rewrite ikap, <- RtoC_mult, <- RtoC_opp. apply Cderive_RtoC. apply Hf. lra.
  - intros z Hz. rewrite iTf, <- RtoC_mult. apply Cderive_RtoC. apply Hg. lra.
  - intros z Hz. rewrite Cmod_R. apply Bf. lra.
  - intros z Hz. rewrite Cmod_R. apply Bg. lra.
Qed.

Lemma instance_fundamental :
  exact_solution iKx izero izero izero iKz 1 0 0 1 (fun z => RtoC (ip1 z)) (fun z => RtoC (iq1 z)) 2.
Proof.
  apply instance_exact.
  - intros z Hz. unfold ip1, iq1. auto_derive; [lra|]. field. lra.
  - intros z Hz. unfold ip1, iq1. auto_derive; [lra|]. field. lra.
  - intros z Hz. unfold ip1. destruct (inv1p_bounds z ltac:(lra)) as [A B].
    apply Rabs_le. lra.
  - intros z Hz. unfold iq1. destruct (inv1p_bounds z ltac:(lra)) as [A B].
    apply Rabs_le. lra.
Qed.

Lemma instance_decaying :
  exact_solution iKx izero izero izero iKz 1 0 0 1 (fun z => RtoC (ip z)) (fun z => RtoC (ip z)) 1.
Proof.
  apply instance_exact.
  - intros z Hz. unfold ip. auto_derive; [lra|]. field. lra.
  - intros z Hz. unfold ip. auto_derive; [lra|]. field. lra.
  - intros z Hz. unfold ip. destruct (inv1p_bounds z ltac:(lra)) as [A B]. apply Rabs_le. lra.
  - intros z Hz. unfold ip. destruct (inv1p_bounds z ltac:(lra)) as [A B]. apply Rabs_le. lra.
Qed.

(* the eigenvalue of the model's top condition for this instance is 1/2 *)
Lemma instance_eigval :
  eigval ROps (RtoC (iKx (0 + 1))) (RtoC (izero (0 + 1))) (RtoC (izero (0 + 1))) (RtoC (izero (0 + 1)))
         (RtoC (iKz (0 + 1))) (RtoC 1) (RtoC 0) = RtoC (/ 2).
Proof.
  unfold eigval.
  assert (E : eig_radicand ROps (RtoC (iKx (0 + 1))) (RtoC (izero (0 + 1))) (RtoC (izero (0 + 1)))
                (RtoC (izero (0 + 1))) (RtoC (iKz (0 + 1))) (RtoC 1) (RtoC 0) = RtoC (/ 2 * / 2)).
  { unfold eig_radicand, iKx, iKz, izero. cbn [ROps cadd cmul cdiv ci c1].
    unfold Cdiv, Cinv, Cplus, Cmult, Ci, RtoC. cbn [fst snd]. f_equal; field. }
  rewrite E. cbn [ROps csqrt]. unfold Csqrt, Cnorm, Rsgn, RtoC. cbn [fst snd].
  replace (/ 2 * / 2 * (/ 2 * / 2) + 0 * 0) with ((/ 2 * / 2) * (/ 2 * / 2)) by ring.
  rewrite (sqrt_square (/ 2 * / 2)) by lra.
  replace ((/ 2 * / 2 + / 2 * / 2) / 2) with (/ 2 * / 2) by field.
  replace ((/ 2 * / 2 - / 2 * / 2) / 2) with 0 by field.
  rewrite (sqrt_square (/ 2)) by lra. rewrite sqrt_0.
  destruct (Rle_dec 0 0); f_equal; ring.
Qed.

Lemma instance_top_condition :
  RtoC (ip (0 + 1)) = Cmult (Cmult (RtoC (iKz (0 + 1))) (RtoC (/ 2))) (RtoC (ip (0 + 1))).
Proof. rewrite <- !RtoC_mult. f_equal. unfold ip, iKz. field. Qed.

Lemma instance_denominator :
  2 <= Cmod (Cminus (RtoC (iq1 (0 + 1))) (Cmult (Cmult (RtoC (iKz (0 + 1))) (RtoC (/ 2))) (RtoC (ip1 (0 + 1))))).
Proof.
  rewrite <- !RtoC_mult, <- RtoC_minus, Cmod_R.
  replace (iq1 (0 + 1) - iKz (0 + 1) * / 2 * ip1 (0 + 1)) with (- 2) by (unfold iq1, iKz, ip1; field).
  rewrite Rabs_left by lra. lra.
Qed.

(* every hypothesis of shooting_first_order_model holds for the instance; hence its conclusion *)
Theorem instance_shooting_converges :
  let lam := eigval ROps (RtoC (iKx (0 + 1))) (RtoC (izero (0 + 1))) (RtoC (izero (0 + 1)))
                    (RtoC (izero (0 + 1))) (RtoC (iKz (0 + 1))) (RtoC 1) (RtoC 0) in
  let KzN := RtoC (iKz (0 + 1)) in
  let hh := h0 1 1 1 1 1 2 KzN lam 2 in
  let CC2 := C2 1 1 1 1 1 2 1 KzN lam 2 in
  0 < hh /\
  forall (dzs : list R) (dmax : R),
  grid_ok dzs dmax -> Rsum dzs = 1 -> dmax <= hh ->
  let layers := layers_v iKx izero izero izero iKz 0 dzs in
  let y1 := final ROps (RtoC 1) (RtoC 0) layers (RtoC 1, RtoC 0) in
  let y2 := final ROps (RtoC 1) (RtoC 0) layers (RtoC 0, RtoC 1) in
  let al := alpha ROps KzN lam (fst y1) (snd y1) (fst y2) (snd y2) in
  Cminus (snd y1) (Cmult (Cmult KzN lam) (fst y1)) <> RtoC 0 /\
  forall k, (k <= length dzs)%nat ->
    let sk := shoot_traj ROps (RtoC 1) (RtoC 0) layers al (RtoC 1) k in
    Cmod (Cminus (fst sk) (RtoC (/ (1 + zk 0 dzs k)))) <= CC2 * dmax /\
    Cmod (Cminus (snd sk) (RtoC (/ (1 + zk 0 dzs k)))) <= CC2 * dmax.
Proof.
  intros lam KzN hh CC2.
  destruct (shooting_first_order_model iKx izero izero izero iKz 1 0 0 1 1 1 1 1
              (fun z => RtoC (ip1 z)) (fun z => RtoC (iq1 z)) (fun z => RtoC (ip z)) (fun z => RtoC (ip z))
              2 1 (RtoC 1) 2 instance_coeffs instance_fundamental) as [Hh Hmain].
  - unfold ip1. f_equal. field.
  - unfold iq1. f_equal. field.
  - exact instance_decaying.
  - unfold ip. f_equal. field.
  - rewrite instance_eigval. exact instance_top_condition.
  - lra.
  - rewrite instance_eigval. exact instance_denominator.
  - split; [exact Hh|]. intros dzs dmax Hg Hsum Hd.
    destruct (Hmain dzs dmax Hg Hsum Hd) as (_ & Hnz & Hk).
    split; [exact Hnz|]. exact Hk.
Qed.

(* ------------------------------------------------------------------------------------------ *)
Print Assumptions ivp_first_order_gen.
Print Assumptions ivp_first_order.
Print Assumptions shooting_first_order.
Print Assumptions shooting_first_order_model.
Print Assumptions shooting_uniform_refinement.
Print Assumptions shooting_uniform_top_limit.
Print Assumptions instance_shooting_converges.
