(* A GRADED LOGICAL RELATION through the whole solver model, with NO algebraic laws.

   S d x x' reads "x' is x rescaled with weight d" (in the instance of Proofs/RoundedScaling.v: x' = s^d * x in
   rounded arithmetic).  `Graded O S` lists how every operation of Ops transports weights (products add them, sums need
   equal ones, the square root halves them, order tests do not see them, weight 0 is equality).  From this alone —
   no associativity, no distributivity, no field law: rounded arithmetic has none — the relation is pushed through
   Model/Solver.v definition by definition (layer recursion, shooting, mean-mode trapezoid, level recording, analytic
   branch, DFT sums, phase shifts, synthesis, crop, geometry and its error outcomes):

     lengths (z, domain, measurement point, halo) have weight dl, winds du, diffusivities du+dl, the source ds,
     the background ds-du   ==>   coordinates have weight dl, concentration ds-du, flux ds,

   i.e. the full similarity group of the advection-diffusion problem.  C04 homogeneity is (dl,du,ds) = (0,0,1), the C07
   wind/diffusivity scaling is (0,1,0), the C07 length scaling is (1,0,0). *)
From Coq Require Import ZArith List Bool Lia Arith.
From BL Require Import Base.Ops Model.Solver.
Import ListNotations.
Set Default Proof Using "All".

Record Graded (O : Ops) (S : Z -> C O -> C O -> Prop) (pos : Z -> Prop) : Prop := mkGraded {
  G_zero : forall d, S d (c0 O) (c0 O);
  G_refl : forall x, S 0%Z x x;
  G_eq : forall x x', S 0%Z x x' -> x' = x;
  G_add : forall d x x' y y', S d x x' -> S d y y' -> S d (cadd O x y) (cadd O x' y');
  G_sub : forall d x x' y y', S d x x' -> S d y y' -> S d (csub O x y) (csub O x' y');
  G_opp : forall d x x', S d x x' -> S d (copp O x) (copp O x');
  G_mul : forall d e x x' y y', S d x x' -> S e y y' -> S (d + e)%Z (cmul O x y) (cmul O x' y');
  G_div : forall d e x x' y y', S d x x' -> S e y y' -> S (d - e)%Z (cdiv O x y) (cdiv O x' y');
  G_sqrt : forall d x x', pos d -> S (2 * d)%Z x x' -> S d (csqrt O x) (csqrt O x');
  G_re : forall d x x', S d x x' -> S d (cre O x) (cre O x');
  G_round : forall d x x', S d x x' -> S d (cround O x) (cround O x');
  G_ltb : forall d x x' y y', pos d -> S d x x' -> S d y y' -> cltb O x' y' = cltb O x y
}.

(* ------------------------------------------------------------------ list plumbing *)
Section Lists1.
Context {A : Type}.
Lemma F2_nth (Rr : A -> A -> Prop) l l' d d' i : Forall2 Rr l l' -> Rr d d' -> Rr (nth i l d) (nth i l' d').
Proof. intros HF Hd. revert i. induction HF; intros [|i]; cbn; auto. Qed.
Lemma F2_length (Rr : A -> A -> Prop) l l' : Forall2 Rr l l' -> length l = length l'.
Proof. induction 1; cbn; congruence. Qed.
End Lists1.

Section Lists.
Context {A B : Type}.
Lemma F2_map_same (Q : B -> B -> Prop) (f f' : A -> B) l :
  (forall t, Q (f t) (f' t)) -> Forall2 Q (map f l) (map f' l).
Proof. intros H. induction l; cbn; constructor; auto. Qed.
Lemma F2_map_combine_seq {X} (Rr : A -> A -> Prop) (Q : B -> B -> Prop) (f f' : X * A -> B) :
  (forall i x x', Rr x x' -> Q (f (i, x)) (f' (i, x'))) ->
  forall l l', Forall2 Rr l l' -> forall (sq : list X), Forall2 Q (map f (combine sq l)) (map f' (combine sq l')).
Proof.
  intros H l l' HF. induction HF as [|x x' l l' Hx HF IH]; intros [|i sq]; cbn; constructor; auto.
Qed.
Lemma F2_combine (Rr : A -> A -> Prop) (Q : B -> B -> Prop) l l' m m' :
  Forall2 Rr l l' -> Forall2 Q m m' ->
  Forall2 (fun p p' => Rr (fst p) (fst p') /\ Q (snd p) (snd p')) (combine l m) (combine l' m').
Proof. intros HF. revert m m'. induction HF; intros m m' HM; destruct HM; cbn; constructor; auto. Qed.
Lemma F2_map (Rr : A -> A -> Prop) (Q : B -> B -> Prop) (f f' : A -> B) l l' :
  (forall x x', Rr x x' -> Q (f x) (f' x')) -> Forall2 Rr l l' -> Forall2 Q (map f l) (map f' l').
Proof. intros H HF. induction HF; cbn; constructor; auto. Qed.
End Lists.

Section GradedSolver.
Variable O : Ops.
Variable S : Z -> C O -> C O -> Prop.
Variable pos : Z -> Prop.     (* weights on which the order tests and the square root may be used *)
Hypothesis G : Graded O S pos.
Notation C := (C O).
Local Open Scope Z_scope.

Lemma g_cast d e x x' : S d x x' -> d = e -> S e x x'.
Proof. intros H <-. exact H. Qed.
Lemma g_add k d e x x' y y' : S d x x' -> S e y y' -> d = k -> e = k -> S k (cadd O x y) (cadd O x' y').
Proof. intros Hx Hy <- <-. apply (G_add O S pos G); assumption. Qed.
Lemma g_sub k d e x x' y y' : S d x x' -> S e y y' -> d = k -> e = k -> S k (csub O x y) (csub O x' y').
Proof. intros Hx Hy <- <-. apply (G_sub O S pos G); assumption. Qed.
Lemma g_mul k d e x x' y y' : S d x x' -> S e y y' -> k = d + e -> S k (cmul O x y) (cmul O x' y').
Proof. intros Hx Hy ->. apply (G_mul O S pos G); assumption. Qed.
Lemma g_mul_l d x x' y y' : S 0 x x' -> S d y y' -> S d (cmul O x y) (cmul O x' y').
Proof. intros Hx Hy. eapply g_mul; [exact Hx|exact Hy|lia]. Qed.
Lemma g_mul_r d x x' y y' : S d x x' -> S 0 y y' -> S d (cmul O x y) (cmul O x' y').
Proof. intros Hx Hy. eapply g_mul; [exact Hx|exact Hy|lia]. Qed.
Lemma g_div k d e x x' y y' : S d x x' -> S e y y' -> k = d - e -> S k (cdiv O x y) (cdiv O x' y').
Proof. intros Hx Hy ->. apply (G_div O S pos G); assumption. Qed.
Lemma g_sqrt d e x x' : pos d -> S e x x' -> e = 2 * d -> S d (csqrt O x) (csqrt O x').
Proof. intros Hd Hx ->. apply (G_sqrt O S pos G); assumption. Qed.
Lemma g_eq0 d x x' : S d x x' -> d = 0 -> x' = x.
Proof. intros H ->. apply (G_eq O S pos G); assumption. Qed.

Ltac zeq := first [reflexivity | lia].
(* structural descent through an expression; the leaves are found among the hypotheses *)
Ltac gr :=
  lazymatch goal with
  | |- S _ (cadd _ _ _) (cadd _ _ _) => eapply g_add; [gr | gr | zeq | zeq]
  | |- S _ (csub _ _ _) (csub _ _ _) => eapply g_sub; [gr | gr | zeq | zeq]
  | |- S _ (cmul _ _ _) (cmul _ _ _) => eapply g_mul; [gr | gr | zeq]
  | |- S _ (cdiv _ _ _) (cdiv _ _ _) => eapply g_div; [gr | gr | zeq]
  | |- S _ (copp _ _) (copp _ _) => apply (G_opp O S pos G); gr
  | |- S _ (cre _ _) (cre _ _) => apply (G_re O S pos G); gr
  | |- S _ ?x ?x => first [eassumption | exact (G_refl O S pos G x) | eapply g_cast; [exact (G_refl O S pos G x) | zeq]]
  | |- _ => eassumption
  end.

Lemma g_two : S 0 (two O) (two O). Proof. apply (G_refl O S pos G). Qed.
Lemma g_half : S 0 (half O) (half O). Proof. apply (G_refl O S pos G). Qed.
Lemma g_sixth : S 0 (sixth O) (sixth O). Proof. apply (G_refl O S pos G). Qed.

Lemma g_csum d l l' : Forall2 (S d) l l' -> S d (csum O l) (csum O l').
Proof. induction 1; cbn; [apply (G_zero O S pos G)|apply (G_add O S pos G); assumption]. Qed.

Lemma g_cis x x' : S 0 x x' -> S 0 (cis O x) (cis O x').
Proof. intros H. rewrite (G_eq O S pos G _ _ H). apply (G_refl O S pos G). Qed.

Lemma g_zeros d n : Forall2 (S d) (zeros O n) (zeros O n).
Proof. unfold zeros. induction n; cbn; constructor; [apply (G_zero O S pos G)|assumption]. Qed.

Lemma g_cmax d x x' y y' : pos d -> S d x x' -> S d y y' -> S d (cmax O x y) (cmax O x' y').
Proof. intros Hd Hx Hy. unfold cmax. rewrite (G_ltb O S pos G d x x' y y' Hd Hx Hy). destruct (cltb O x y); assumption. Qed.

(* ------------------------------------------------------------------ weights *)
Variables dl du ds : Z.     (* lengths, winds, source; diffusivities du+dl, background ds-du *)
Notation dK := (du + dl).
Hypothesis pos_dl : pos dl.                 (* `max(xmax, ymax)` of the default halo *)
Hypothesis pos_mdl : pos (- dl).            (* square root of the eigenvalue radicand (weight -2 dl) *)
Hypothesis pos_2dl : pos (dl + dl).         (* the test `xm**2 + ym**2 > 0` *)

Lemma g_Tsym Kx Kx' Ky Ky' u u' v v' lx lx' ly ly' :
  S dK Kx Kx' -> S dK Ky Ky' -> S du u u' -> S du v v' -> S (- dl) lx lx' -> S (- dl) ly ly' ->
  S (du - dl) (Tsym O Kx Ky u v lx ly) (Tsym O Kx' Ky' u' v' lx' ly').
Proof. intros. unfold Tsym. gr. Qed.

Section Coefs.
Variables Ki Ki' Ti Ti' dz dz' : C.
Hypothesis HKi : S (- dK) Ki Ki'.
Hypothesis HTi : S (du - dl) Ti Ti'.
Hypothesis Hdz : S dl dz dz'.
Lemma g_coef_a : S 0 (coef_a O Ki Ti dz) (coef_a O Ki' Ti' dz').
Proof. unfold coef_a. gr. Qed.
Lemma g_coef_b : S (- du) (coef_b O Ki Ti dz) (coef_b O Ki' Ti' dz').
Proof. unfold coef_b. gr. Qed.
Lemma g_coef_c : S du (coef_c O Ki Ti dz) (coef_c O Ki' Ti' dz').
Proof. unfold coef_c. gr. Qed.
Lemma g_coef_d : S 0 (coef_d O Ki Ti dz) (coef_d O Ki' Ti' dz').
Proof. unfold coef_d. gr. Qed.
End Coefs.

Definition layer_rel (L L' : layer O) : Prop :=
  S dK (l_Kx O L) (l_Kx O L') /\ S dK (l_Ky O L) (l_Ky O L') /\ S du (l_u O L) (l_u O L') /\
  S du (l_v O L) (l_v O L') /\ S dK (l_Kz O L) (l_Kz O L') /\ S dl (l_dz O L) (l_dz O L').
(* a shooting state (p, q): q carries du more than p *)
Definition st_rel (dp : Z) (st st' : C * C) : Prop := S dp (fst st) (fst st') /\ S (dp + du) (snd st) (snd st').

Lemma g_step dp lx lx' ly ly' L L' st st' :
  S (- dl) lx lx' -> S (- dl) ly ly' -> layer_rel L L' -> st_rel dp st st' ->
  st_rel dp (step O lx ly L st) (step O lx' ly' L' st').
Proof.
  intros Hlx Hly (HKx & HKy & Hu & Hv & HKz & Hdz) [Hp Hq].
  pose proof (g_Tsym _ _ _ _ _ _ _ _ _ _ _ _ HKx HKy Hu Hv Hlx Hly) as HT.
  assert (HKi : S (- dK) (cdiv O (c1 O) (l_Kz O L)) (cdiv O (c1 O) (l_Kz O L'))) by gr.
  pose proof (g_coef_a _ _ _ _ _ _ HKi HT Hdz) as Ha. pose proof (g_coef_b _ _ _ _ _ _ HKi HT Hdz) as Hb.
  pose proof (g_coef_c _ _ _ _ _ _ HKi HT Hdz) as Hc. pose proof (g_coef_d _ _ _ _ _ _ HKi HT Hdz) as Hd.
  unfold step, st_rel. cbv zeta. cbn [fst snd]. split; gr.
Qed.

Lemma g_eigval Kx Kx' Ky Ky' u u' v v' Kz Kz' lx lx' ly ly' :
  S dK Kx Kx' -> S dK Ky Ky' -> S du u u' -> S du v v' -> S dK Kz Kz' -> S (- dl) lx lx' -> S (- dl) ly ly' ->
  S (- dl) (eigval O Kx Ky u v Kz lx ly) (eigval O Kx' Ky' u' v' Kz' lx' ly').
Proof. intros. unfold eigval. eapply g_sqrt; [exact pos_mdl|unfold eig_radicand; cbv zeta; gr|lia]. Qed.

Lemma g_alpha d1 d2 Kz Kz' e e' p1 p1' q1 q1' p2 p2' q2 q2' :
  S dK Kz Kz' -> S (- dl) e e' -> S d1 p1 p1' -> S (d1 + du) q1 q1' -> S d2 p2 p2' -> S (d2 + du) q2 q2' ->
  S (d2 - d1) (alpha O Kz e p1 q1 p2 q2) (alpha O Kz' e' p1' q1' p2' q2').
Proof. intros. unfold alpha. gr. Qed.

Lemma g_mean_update p p' q q' dz dz' K0 K0' K1 K1' :
  S (ds - du) p p' -> S ds q q' -> S dl dz dz' -> S dK K0 K0' -> S dK K1 K1' ->
  S (ds - du) (mean_update O p q dz K0 K1) (mean_update O p' q' dz' K0' K1').
Proof. intros. unfold mean_update. gr. Qed.

Lemma g_wavenumber dx dx' n k : S dl dx dx' -> S (- dl) (wavenumber O dx n k) (wavenumber O dx' n k).
Proof. intros. unfold wavenumber. gr. Qed.

Lemma g_shift_arg_fp lx lx' ly ly' xm xm' ym ym' dx dx' dy dy' px py :
  S (- dl) lx lx' -> S (- dl) ly ly' -> S dl xm xm' -> S dl ym ym' -> S dl dx dx' -> S dl dy dy' ->
  S 0 (shift_arg_fp O lx ly xm ym dx dy px py) (shift_arg_fp O lx' ly' xm' ym' dx' dy' px py).
Proof. intros. unfold shift_arg_fp. gr. Qed.
Lemma g_shift_arg_ctr lx lx' ly ly' xm xm' ym ym' xmx xmx' ymx ymx' :
  S (- dl) lx lx' -> S (- dl) ly ly' -> S dl xm xm' -> S dl ym ym' -> S dl xmx xmx' -> S dl ymx ymx' ->
  S 0 (shift_arg_ctr O lx ly xm ym xmx ymx) (shift_arg_ctr O lx' ly' xm' ym' xmx' ymx').
Proof. intros. unfold shift_arg_ctr. gr. Qed.

(* ------------------------------------------------------------------ recording, layer loop *)
Lemma g_record d levels i x x' rec rec' :
  S d x x' -> Forall2 (S d) rec rec' -> Forall2 (S d) (record O levels i x rec) (record O levels i x' rec').
Proof.
  intros Hx HF. unfold record. revert levels.
  induction HF as [|r r' rec rec' Hr HF IH]; intros [|l ls]; cbn; constructor; auto.
  destruct (Nat.eqb l i); assumption.
Qed.

Definition res_rel (dp : Z) (r r' : (C * C) * list C * list C) : Prop :=
  st_rel dp (fst (fst r)) (fst (fst r')) /\ Forall2 (S dp) (snd (fst r)) (snd (fst r')) /\
  Forall2 (S (dp + du)) (snd r) (snd r').

Lemma g_ivp_loop dp lx lx' ly ly' : S (- dl) lx lx' -> S (- dl) ly ly' ->
  forall layers layers', Forall2 layer_rel layers layers' ->
  forall i levels st st' rp rp' rq rq', st_rel dp st st' -> Forall2 (S dp) rp rp' -> Forall2 (S (dp + du)) rq rq' ->
  res_rel dp (ivp_loop O lx ly layers i levels st rp rq) (ivp_loop O lx' ly' layers' i levels st' rp' rq').
Proof.
  intros Hlx Hly layers layers' HF.
  induction HF as [|L L' ls ls' HL HF IH]; intros i levels st st' rp rp' rq rq' Hst Hrp Hrq; cbn [ivp_loop].
  - repeat split; try assumption; apply Hst.
  - apply IH.
    + apply g_step; assumption.
    + apply g_record; [apply Hst|assumption].
    + apply g_record; [apply Hst|assumption].
Qed.

Lemma g_ivp dp lx lx' ly ly' layers layers' levels st st' :
  S (- dl) lx lx' -> S (- dl) ly ly' -> Forall2 layer_rel layers layers' -> st_rel dp st st' ->
  res_rel dp (ivp O lx ly layers levels st) (ivp O lx' ly' layers' levels st').
Proof.
  intros Hlx Hly HF Hst. unfold ivp.
  pose proof (g_ivp_loop dp lx lx' ly ly' Hlx Hly layers layers' HF 0%nat levels st st' _ _ _ _ Hst
                (g_zeros dp (length levels)) (g_zeros (dp + du) (length levels))) as H.
  rewrite (F2_length _ _ _ HF).
  destruct (ivp_loop O lx ly layers 0 levels st _ _) as [[s1 rp] rq].
  destruct (ivp_loop O lx' ly' layers' 0 levels st' _ _) as [[s1' rp'] rq'].
  destruct H as (Hs & Hrp & Hrq). cbn [fst snd] in Hs, Hrp, Hrq.
  repeat split; cbn [fst snd]; try apply Hs; apply g_record; try assumption; apply Hs.
Qed.

Lemma g_mean_loop q q' : S ds q q' ->
  forall dzs dzs', Forall2 (S dl) dzs dzs' -> forall Kzs Kzs', Forall2 (S dK) Kzs Kzs' ->
  forall i levels p p' rec rec', S (ds - du) p p' -> Forall2 (S (ds - du)) rec rec' ->
  S (ds - du) (fst (mean_loop O q dzs Kzs i levels p rec)) (fst (mean_loop O q' dzs' Kzs' i levels p' rec')) /\
  Forall2 (S (ds - du)) (snd (mean_loop O q dzs Kzs i levels p rec)) (snd (mean_loop O q' dzs' Kzs' i levels p' rec')).
Proof.
  intros Hq dzs dzs' HD.
  induction HD as [|dz dz' dzs dzs' Hdz HD IH]; intros Kzs Kzs' HK i levels p p' rec rec' Hp Hrec.
  - cbn. split; [assumption|apply g_record; assumption].
  - destruct HK as [|K0 K0' Kr Kr' HK0 HK]; [cbn; split; [assumption|apply g_record; assumption]|].
    destruct HK as [|K1 K1' Kr Kr' HK1 HK]; [cbn; split; [assumption|apply g_record; assumption]|].
    cbn [mean_loop]. apply IH.
    + constructor; assumption.
    + apply g_mean_update; assumption.
    + apply g_record; assumption.
Qed.

Lemma g_diffs z z' : Forall2 (S dl) z z' -> Forall2 (S dl) (diffs O z) (diffs O z').
Proof.
  induction 1 as [|a a' z z' Ha Hz IH]; [constructor|].
  destruct Hz as [|b b' z z' Hb Hz]; [constructor|].
  cbn [diffs] in *. constructor; [gr|exact IH].
Qed.

Lemma g_mk_layers Kx Kx' : Forall2 (S dK) Kx Kx' -> forall Ky Ky' u u' v v' Kz Kz' dz dz',
  Forall2 (S dK) Ky Ky' -> Forall2 (S du) u u' -> Forall2 (S du) v v' -> Forall2 (S dK) Kz Kz' -> Forall2 (S dl) dz dz' ->
  Forall2 layer_rel (mk_layers O Kx Ky u v Kz dz) (mk_layers O Kx' Ky' u' v' Kz' dz').
Proof.
  induction 1 as [|a a' Kx Kx' Ha H1 IH]; intros Ky Ky' u u' v v' Kz Kz' dz dz' H2 H3 H4 H5 H6; [constructor|].
  destruct H2; [constructor|]. destruct H3; [constructor|]. destruct H4; [constructor|].
  destruct H5; [constructor|]. destruct H6; [constructor|].
  cbn [mk_layers]. constructor; [|apply IH; assumption].
  unfold layer_rel; cbn. repeat split; assumption.
Qed.

(* ------------------------------------------------------------------ arguments *)
Definition halo_rel (h h' : option C) : Prop :=
  match h, h' with Some x, Some x' => S dl x x' | None, None => True | _, _ => False end.

Record args_rel (a a' : args O) : Prop := mkArgsRel {
  ar_q0 : Forall2 (Forall2 (S ds)) (a_q0 O a) (a_q0 O a');
  ar_z : Forall2 (S dl) (a_z O a) (a_z O a');
  ar_u : Forall2 (S du) (p_u O (a_prof O a)) (p_u O (a_prof O a'));
  ar_v : Forall2 (S du) (p_v O (a_prof O a)) (p_v O (a_prof O a'));
  ar_Kx : Forall2 (S dK) (p_Kx O (a_prof O a)) (p_Kx O (a_prof O a'));
  ar_Ky : Forall2 (S dK) (p_Ky O (a_prof O a)) (p_Ky O (a_prof O a'));
  ar_Kz : Forall2 (S dK) (p_Kz O (a_prof O a)) (p_Kz O (a_prof O a'));
  ar_xmx : S dl (a_xmx O a) (a_xmx O a');
  ar_ymx : S dl (a_ymx O a) (a_ymx O a');
  ar_xm : S dl (a_xm O a) (a_xm O a');
  ar_ym : S dl (a_ym O a) (a_ym O a');
  ar_halo : halo_rel (a_halo O a) (a_halo O a');
  ar_p000 : S (ds - du) (a_p000 O a) (a_p000 O a');
  ar_levels : a_levels O a' = a_levels O a;
  ar_nlx : a_nlx O a' = a_nlx O a;
  ar_nly : a_nly O a' = a_nly O a;
  ar_footprint : a_footprint O a' = a_footprint O a;
  ar_analytic : a_analytic O a' = a_analytic O a;
  ar_single : a_single O a' = a_single O a;
  ar_fp_unit : a_footprint O a = true -> ds = 0
}.

Definition geom_rel (g g' : geom O) : Prop :=
  g_nx O g' = g_nx O g /\ g_ny O g' = g_ny O g /\ g_nz O g' = g_nz O g /\
  g_px O g' = g_px O g /\ g_py O g' = g_py O g /\ g_nxe O g' = g_nxe O g /\ g_nye O g' = g_nye O g /\
  g_nlx O g' = g_nlx O g /\ g_nly O g' = g_nly O g /\
  S dl (g_dx O g) (g_dx O g') /\ S dl (g_dy O g) (g_dy O g').

Definition outcome_rel {X} (Q : X -> X -> Prop) (r r' : X + error) : Prop :=
  match r, r' with inl x, inl x' => Q x x' | inr e, inr e' => e' = e | _, _ => False end.

Lemma g_halo_of a a' : args_rel a a' -> S dl (halo_of O a) (halo_of O a').
Proof.
  intros H. unfold halo_of. pose proof (ar_halo _ _ H) as Hh. unfold halo_rel in Hh.
  destruct (a_halo O a), (a_halo O a'); try contradiction; [assumption|].
  apply g_cmax; [exact pos_dl|apply (ar_xmx _ _ H)|apply (ar_ymx _ _ H)].
Qed.

Lemma g_geometry a a' : args_rel a a' -> outcome_rel geom_rel (geometry O a) (geometry O a').
Proof.
  intros H. unfold geometry.
  change (match a_halo O a with Some h => h | None => cmax O (a_xmx O a) (a_ymx O a) end) with (halo_of O a).
  change (match a_halo O a' with Some h => h | None => cmax O (a_xmx O a') (a_ymx O a') end) with (halo_of O a').
  rewrite (ar_nlx _ _ H), (ar_nly _ _ H), (ar_levels _ _ H).
  assert (Hny : length (a_q0 O a') = length (a_q0 O a)) by (symmetry; apply (F2_length _ _ _ (ar_q0 _ _ H))).
  assert (Hnx : length (hd [] (a_q0 O a')) = length (hd [] (a_q0 O a))).
  { destruct (ar_q0 _ _ H) as [|r r' ? ? Hr _]; [reflexivity|]. symmetry. apply (F2_length _ _ _ Hr). }
  assert (Hnz : length (a_z O a') = length (a_z O a)) by (symmetry; apply (F2_length _ _ _ (ar_z _ _ H))).
  rewrite Hny, Hnx, Hnz.
  pose proof (ar_xmx _ _ H) as Hxmx. pose proof (ar_ymx _ _ H) as Hymx. pose proof (g_halo_of _ _ H) as Hh.
  set (nx := length (hd [] (a_q0 O a))). set (ny := length (a_q0 O a)).
  assert (Hdx : S dl (cdiv O (a_xmx O a) (cofZ O (Z.of_nat nx))) (cdiv O (a_xmx O a') (cofZ O (Z.of_nat nx)))) by gr.
  assert (Hdy : S dl (cdiv O (a_ymx O a) (cofZ O (Z.of_nat ny))) (cdiv O (a_ymx O a') (cofZ O (Z.of_nat ny)))) by gr.
  assert (Hpx : cdiv O (halo_of O a') (cdiv O (a_xmx O a') (cofZ O (Z.of_nat nx)))
                = cdiv O (halo_of O a) (cdiv O (a_xmx O a) (cofZ O (Z.of_nat nx)))).
  { eapply g_eq0; [gr|lia]. }
  assert (Hpy : cdiv O (halo_of O a') (cdiv O (a_ymx O a') (cofZ O (Z.of_nat ny)))
                = cdiv O (halo_of O a) (cdiv O (a_ymx O a) (cofZ O (Z.of_nat ny)))).
  { eapply g_eq0; [gr|lia]. }
  rewrite Hpx, Hpy.
  destruct (Nat.odd (a_nlx O a) || Nat.odd (a_nly O a)); [reflexivity|].
  destruct ((_ <? 0) || (_ <? 0)); [reflexivity|].
  match goal with |- context [if ?b then (?p, ?q) else ?r] => destruct (if b then (p, q) else r) as [nlx nly] end.
  destruct (existsb _ _); [reflexivity|].
  cbn. repeat split; try reflexivity; assumption.
Qed.

(* ------------------------------------------------------------------ spectrum of the source *)
Lemma phase_geom g g' kx ky i j : geom_rel g g' -> phase O g' kx ky i j = phase O g kx ky i j.
Proof. intros (_ & _ & _ & _ & _ & Hxe & Hye & _). unfold phase. rewrite Hxe, Hye. reflexivity. Qed.

Lemma g_src_hat a a' g g' kx ky : args_rel a a' -> geom_rel g g' ->
  S ds (src_hat O a g kx ky) (src_hat O a' g' kx ky).
Proof.
  intros H Hg. pose proof Hg as (Hnx & Hny & _ & Hpx & Hpy & Hxe & Hye & _).
  unfold src_hat. cbv zeta. rewrite Hnx, Hny, Hpx, Hpy, Hxe, Hye.
  apply g_mul_l; [apply (G_refl O S pos G)|].
  apply g_csum. eapply F2_map_combine_seq; [|apply (ar_q0 _ _ H)].
  intros j row row' Hrow. cbn [fst snd].
  apply g_csum. eapply F2_map_combine_seq; [|exact Hrow].
  intros i x x' Hx. cbn [fst snd]. rewrite (phase_geom g g' _ _ _ _ Hg).
  apply g_mul_r; [exact Hx|apply (G_refl O S pos G)].
Qed.

Lemma g_q0_hat a a' g g' tx ty : args_rel a a' -> geom_rel g g' ->
  S ds (q0_hat O a g tx ty) (q0_hat O a' g' tx ty).
Proof.
  intros H Hg. pose proof Hg as (_ & _ & _ & _ & _ & Hxe & Hye & Hlx & Hly & _).
  unfold q0_hat. rewrite (ar_footprint _ _ H), Hxe, Hye, Hlx, Hly.
  destruct (a_footprint O a) eqn:Hf.
  - rewrite (ar_fp_unit _ _ H Hf). apply (G_refl O S pos G).
  - apply g_src_hat; assumption.
Qed.

Lemma g_rho d a a' x x' : args_rel a a' -> S d x x' -> S d (rho O a x) (rho O a' x').
Proof. intros H Hx. unfold rho. rewrite (ar_single _ _ H). destruct (a_single O a); [apply (G_round O S pos G)|]; assumption. Qed.

Lemma g_nth0 d l l' i : Forall2 (S d) l l' -> S d (nth0 O l i) (nth0 O l' i).
Proof. intros H. unfold nth0. apply F2_nth; [assumption|apply (G_zero O S pos G)]. Qed.
Lemma g_topN d l l' n : Forall2 (S d) l l' -> S d (topN O l n) (topN O l' n).
Proof. intros H. unfold topN. apply g_nth0; assumption. Qed.

Lemma g_layers_of a a' : args_rel a a' ->
  Forall2 layer_rel (layers_of O (a_z O a) (a_prof O a)) (layers_of O (a_z O a') (a_prof O a')).
Proof.
  intros H. unfold layers_of.
  apply g_mk_layers; [apply (ar_Kx _ _ H)|apply (ar_Ky _ _ H)|apply (ar_u _ _ H)|apply (ar_v _ _ H)|apply (ar_Kz _ _ H)|].
  apply g_diffs. apply (ar_z _ _ H).
Qed.

(* (P, Q) of one level: concentration amplitude ds-du, flux amplitude ds *)
Definition pq_rel (pq pq' : C * C) : Prop := S (ds - du) (fst pq) (fst pq') /\ S ds (snd pq) (snd pq').

Lemma g_lx g g' t : geom_rel g g' ->
  S (- dl) (wavenumber O (g_dx O g) (g_nxe O g) (fftfreq (g_nlx O g) t))
           (wavenumber O (g_dx O g') (g_nxe O g') (fftfreq (g_nlx O g') t)).
Proof. intros (_ & _ & _ & _ & _ & Hxe & _ & Hlx & _ & Hdx & _). rewrite Hxe, Hlx. apply g_wavenumber. exact Hdx. Qed.
Lemma g_ly g g' t : geom_rel g g' ->
  S (- dl) (wavenumber O (g_dy O g) (g_nye O g) (fftfreq (g_nly O g) t))
           (wavenumber O (g_dy O g') (g_nye O g') (fftfreq (g_nly O g') t)).
Proof. intros (_ & _ & _ & _ & _ & _ & Hye & _ & Hly & _ & Hdy). rewrite Hye, Hly. apply g_wavenumber. exact Hdy. Qed.

Lemma g_mode_levels_q a a' g g' tx ty qh qh' : args_rel a a' -> geom_rel g g' -> S ds qh qh' ->
  Forall2 pq_rel (mode_levels_q O a g tx ty qh) (mode_levels_q O a' g' tx ty qh').
Proof.
  intros H Hg Hqh. unfold mode_levels_q. cbv zeta.
  pose proof (g_lx g g' tx Hg) as Hlx. pose proof (g_ly g g' ty Hg) as Hly.
  destruct Hg as (_ & _ & Hnz & _). rewrite Hnz.
  set (lx := wavenumber O (g_dx O g) _ _) in *. set (lx' := wavenumber O (g_dx O g') _ _) in *.
  set (ly := wavenumber O (g_dy O g) _ _) in *. set (ly' := wavenumber O (g_dy O g') _ _) in *.
  set (nz := g_nz O g).
  pose proof (g_topN _ _ _ nz (ar_Kz _ _ H)) as HKz.
  pose proof (g_eigval _ _ _ _ _ _ _ _ _ _ _ _ _ _ (g_topN _ _ _ nz (ar_Kx _ _ H)) (g_topN _ _ _ nz (ar_Ky _ _ H))
                (g_topN _ _ _ nz (ar_u _ _ H)) (g_topN _ _ _ nz (ar_v _ _ H)) HKz Hlx Hly) as He.
  rewrite (ar_analytic _ _ H), (ar_levels _ _ H).
  destruct (a_analytic O a).
  - apply F2_map_same. intros l.
    pose proof (g_nth0 _ _ _ l (ar_z _ _ H)) as Hzl. pose proof (g_nth0 _ _ _ 0%nat (ar_z _ _ H)) as Hz0.
    assert (Harg : copp O (cmul O (eigval O (topN O (p_Kx O (a_prof O a')) nz) (topN O (p_Ky O (a_prof O a')) nz)
                     (topN O (p_u O (a_prof O a')) nz) (topN O (p_v O (a_prof O a')) nz) (topN O (p_Kz O (a_prof O a')) nz) lx' ly')
                     (csub O (nth0 O (a_z O a') l) (nth0 O (a_z O a') 0)))
                 = copp O (cmul O (eigval O (topN O (p_Kx O (a_prof O a)) nz) (topN O (p_Ky O (a_prof O a)) nz)
                     (topN O (p_u O (a_prof O a)) nz) (topN O (p_v O (a_prof O a)) nz) (topN O (p_Kz O (a_prof O a)) nz) lx ly)
                     (csub O (nth0 O (a_z O a) l) (nth0 O (a_z O a) 0)))).
    { eapply g_eq0; [gr|lia]. }
    unfold pq_rel. cbn [fst snd].
    change (cmul O (copp O ?e) ?h) with (cmul O (copp O e) h).
    assert (HQ : S ds (rho O a (cmul O qh (cexp O (cmul O (copp O (eigval O (topN O (p_Kx O (a_prof O a)) nz) (topN O (p_Ky O (a_prof O a)) nz)
                     (topN O (p_u O (a_prof O a)) nz) (topN O (p_v O (a_prof O a)) nz) (topN O (p_Kz O (a_prof O a)) nz) lx ly))
                     (csub O (nth0 O (a_z O a) l) (nth0 O (a_z O a) 0))))))
                  (rho O a' (cmul O qh' (cexp O (cmul O (copp O (eigval O (topN O (p_Kx O (a_prof O a')) nz) (topN O (p_Ky O (a_prof O a')) nz)
                     (topN O (p_u O (a_prof O a')) nz) (topN O (p_v O (a_prof O a')) nz) (topN O (p_Kz O (a_prof O a')) nz) lx' ly'))
                     (csub O (nth0 O (a_z O a') l) (nth0 O (a_z O a') 0))))))).
    { apply g_rho; [assumption|]. apply g_mul_r; [exact Hqh|].
      assert (E : cmul O (copp O (eigval O (topN O (p_Kx O (a_prof O a')) nz) (topN O (p_Ky O (a_prof O a')) nz)
                     (topN O (p_u O (a_prof O a')) nz) (topN O (p_v O (a_prof O a')) nz) (topN O (p_Kz O (a_prof O a')) nz) lx' ly'))
                     (csub O (nth0 O (a_z O a') l) (nth0 O (a_z O a') 0))
                = cmul O (copp O (eigval O (topN O (p_Kx O (a_prof O a)) nz) (topN O (p_Ky O (a_prof O a)) nz)
                     (topN O (p_u O (a_prof O a)) nz) (topN O (p_v O (a_prof O a)) nz) (topN O (p_Kz O (a_prof O a)) nz) lx ly))
                     (csub O (nth0 O (a_z O a) l) (nth0 O (a_z O a) 0))).
      { eapply g_eq0; [gr|lia]. }
      rewrite E. apply (G_refl O S pos G). }
    split; [|exact HQ].
    apply g_rho; [assumption|]. gr.
  - pose proof (g_layers_of _ _ H) as HL.
    assert (H10 : st_rel 0 (c1 O, c0 O) (c1 O, c0 O)) by (split; cbn [fst snd]; [apply (G_refl O S pos G)|apply (G_zero O S pos G)]).
    assert (H0q : st_rel (ds - du) (c0 O, qh) (c0 O, qh')) by (split; cbn [fst snd]; [apply (G_zero O S pos G)|eapply g_cast; [exact Hqh|lia]]).
    pose proof (g_ivp 0 lx lx' ly ly' _ _ (a_levels O a) _ _ Hlx Hly HL H10) as R1.
    pose proof (g_ivp (ds - du) lx lx' ly ly' _ _ (a_levels O a) _ _ Hlx Hly HL H0q) as R2.
    destruct (ivp O lx ly _ _ (c1 O, c0 O)) as [[st1 rp1] rq1]. destruct (ivp O lx' ly' _ _ (c1 O, c0 O)) as [[st1' rp1'] rq1'].
    destruct (ivp O lx ly _ _ (c0 O, qh)) as [[st2 rp2] rq2]. destruct (ivp O lx' ly' _ _ (c0 O, qh')) as [[st2' rp2'] rq2'].
    destruct R1 as ([Hp1 Hq1] & Hrp1 & Hrq1). destruct R2 as ([Hp2 Hq2] & Hrp2 & Hrq2). cbn [fst snd] in *.
    pose proof (g_alpha 0 (ds - du) _ _ _ _ _ _ _ _ _ _ _ _ HKz He Hp1 Hq1 Hp2 Hq2) as Hal.
    eapply F2_map; [|apply F2_combine; apply F2_combine; eassumption].
    intros [[a1 b1] [a2 b2]] [[a1' b1'] [a2' b2']] [[Ha1 Hb1] [Ha2 Hb2]]. cbn [fst snd] in *.
    split; cbn [fst snd]; (apply g_rho; [assumption|]); gr.
Qed.

Lemma g_mean_levels_q a a' g g' q q' p p' : args_rel a a' -> geom_rel g g' -> S ds q q' -> S (ds - du) p p' ->
  Forall2 pq_rel (mean_levels_q O a g q p) (mean_levels_q O a' g' q' p').
Proof.
  intros H Hg Hq Hp. unfold mean_levels_q. cbv zeta.
  destruct Hg as (_ & _ & Hnz & _). rewrite Hnz. set (nz := g_nz O g).
  pose proof (g_topN _ _ _ nz (ar_Kz _ _ H)) as HKz.
  pose proof (g_rho _ _ _ _ _ H Hq) as HQ.
  rewrite (ar_analytic _ _ H), (ar_levels _ _ H).
  destruct (a_analytic O a).
  - apply F2_map_same. intros l.
    pose proof (g_nth0 _ _ _ l (ar_z _ _ H)) as Hzl. pose proof (g_nth0 _ _ _ 0%nat (ar_z _ _ H)) as Hz0.
    split; cbn [fst snd]; [|exact HQ]. apply g_rho; [assumption|]. gr.
  - pose proof (g_mean_loop q q' Hq _ _ (g_diffs _ _ (ar_z _ _ H)) _ _ (ar_Kz _ _ H) 0%nat (a_levels O a) p p' _ _ Hp
                  (g_zeros (ds - du) (length (a_levels O a)))) as [_ Hrec].
    destruct (mean_loop O q _ _ _ _ p _) as [pe rec]. destruct (mean_loop O q' _ _ _ _ p' _) as [pe' rec'].
    cbn [snd] in Hrec. eapply F2_map; [|exact Hrec].
    intros x x' Hx. split; cbn [fst snd]; [apply g_rho; assumption|exact HQ].
Qed.

Lemma g_spectrum a a' g g' tx ty : args_rel a a' -> geom_rel g g' ->
  Forall2 pq_rel (spectrum O a g tx ty) (spectrum O a' g' tx ty).
Proof.
  intros H Hg. unfold spectrum, mean_levels, mode_levels.
  destruct tx, ty; try (apply g_mode_levels_q; [assumption|assumption|apply g_q0_hat; assumption]).
  apply g_mean_levels_q; [assumption|assumption|apply g_q0_hat; assumption|apply (ar_p000 _ _ H)].
Qed.

Lemma g_shift a a' g g' tx ty : args_rel a a' -> geom_rel g g' -> shift O a' g' tx ty = shift O a g tx ty.
Proof.
  intros H Hg. unfold shift. cbv zeta.
  pose proof (g_lx g g' tx Hg) as Hlx. pose proof (g_ly g g' ty Hg) as Hly.
  destruct Hg as (_ & _ & _ & Hpx & Hpy & _ & _ & _ & _ & Hdx & Hdy).
  pose proof (ar_xm _ _ H) as Hxm. pose proof (ar_ym _ _ H) as Hym.
  rewrite (ar_footprint _ _ H), Hpx, Hpy.
  destruct (a_footprint O a).
  - f_equal. eapply g_eq0; [apply g_shift_arg_fp; eassumption|reflexivity].
  - assert (Hc : cltb O (c0 O) (cadd O (cmul O (a_xm O a') (a_xm O a')) (cmul O (a_ym O a') (a_ym O a')))
               = cltb O (c0 O) (cadd O (cmul O (a_xm O a) (a_xm O a)) (cmul O (a_ym O a) (a_ym O a)))).
    { apply (G_ltb O S pos G (dl + dl)); [exact pos_2dl|apply (G_zero O S pos G)|gr]. }
    rewrite Hc. clear Hc. destruct (cltb O (c0 O) (cadd O (cmul O (a_xm O a) (a_xm O a)) (cmul O (a_ym O a) (a_ym O a)))); [|reflexivity].
    f_equal. eapply g_eq0; [apply g_shift_arg_ctr; try eassumption; [apply (ar_xmx _ _ H)|apply (ar_ymx _ _ H)]|reflexivity].
Qed.

Definition ent_rel (e e' : (Z * Z) * list (C * C)) : Prop := fst e' = fst e /\ Forall2 pq_rel (snd e) (snd e').

Lemma g_table a a' g g' : args_rel a a' -> geom_rel g g' -> Forall2 ent_rel (table O a g) (table O a' g').
Proof.
  intros H Hg. unfold table, modes_of.
  pose proof Hg as (_ & _ & _ & _ & _ & _ & _ & Hlx & Hly & _). rewrite Hlx, Hly.
  apply F2_map_same. intros [tx ty]. cbn [fst snd]. split; cbn [fst snd]; [reflexivity|].
  rewrite (g_shift _ _ _ _ tx ty H Hg).
  eapply F2_map; [|apply g_spectrum; eassumption].
  intros pq pq' [HP HQ]. split; cbn [fst snd]; (apply g_mul_r; [eassumption|apply (G_refl O S pos G)]).
Qed.

Lemma g_synth d a a' g g' (sel : C * C -> C) tab tab' l i j :
  (forall pq pq', pq_rel pq pq' -> S d (sel pq) (sel pq')) ->
  args_rel a a' -> geom_rel g g' -> Forall2 ent_rel tab tab' ->
  S d (synth O a g sel tab l i j) (synth O a' g' sel tab' l i j).
Proof.
  intros Hsel H Hg Htab. unfold synth. apply (G_re O S pos G). apply g_csum.
  eapply F2_map; [|exact Htab].
  intros e e' [Hf He]. cbv zeta. rewrite Hf, (phase_geom g g' _ _ _ _ Hg), (ar_footprint _ _ H).
  apply g_mul_r; [|apply (G_refl O S pos G)].
  apply Hsel. apply F2_nth; [exact He|]. split; apply (G_zero O S pos G).
Qed.

Lemma g_field d a a' g g' (sel : C * C -> C) tab tab' :
  (forall pq pq', pq_rel pq pq' -> S d (sel pq) (sel pq')) ->
  args_rel a a' -> geom_rel g g' -> Forall2 ent_rel tab tab' ->
  Forall2 (Forall2 (Forall2 (S d))) (field O a g sel tab) (field O a' g' sel tab').
Proof.
  intros Hsel H Hg Htab. unfold field.
  pose proof Hg as (Hnx & Hny & _ & Hpx & Hpy & _). rewrite Hnx, Hny, Hpx, Hpy, (ar_levels _ _ H).
  apply F2_map_same. intros l. apply F2_map_same. intros j. apply F2_map_same. intros i.
  apply g_synth; assumption.
Qed.

Definition result_rel (r r' : result O) : Prop :=
  Forall2 (S dl) (r_x O r) (r_x O r') /\ Forall2 (S dl) (r_y O r) (r_y O r') /\ Forall2 (S dl) (r_z O r) (r_z O r') /\
  Forall2 (Forall2 (Forall2 (S (ds - du)))) (r_conc O r) (r_conc O r') /\
  Forall2 (Forall2 (Forall2 (S ds))) (r_flx O r) (r_flx O r') /\
  r_shape O r' = r_shape O r.

(* THE GRADED THEOREM: rescaled requests have rescaled results, and the same error outcome *)
Theorem graded_solve a a' : args_rel a a' -> outcome_rel result_rel (solve O a) (solve O a').
Proof.
  intros H. unfold solve. pose proof (g_geometry a a' H) as Hg. unfold outcome_rel in Hg.
  destruct (geometry O a) as [g|e], (geometry O a') as [g'|e']; try contradiction; [|exact Hg].
  cbn. pose proof (g_table a a' g g' H Hg) as Htab.
  pose proof Hg as (Hnx & Hny & _). pose proof (ar_xmx _ _ H) as Hxmx. pose proof (ar_ymx _ _ H) as Hymx.
  unfold result_rel. cbn. rewrite Hnx, Hny, (ar_levels _ _ H).
  repeat split.
  - apply F2_map_same. intros i. gr.
  - apply F2_map_same. intros j. gr.
  - apply F2_map_same. intros l. apply g_nth0. apply (ar_z _ _ H).
  - apply g_field; try assumption. intros pq pq' [HP _]. exact HP.
  - apply g_field; try assumption. intros pq pq' [_ HQ]. exact HQ.
Qed.

End GradedSolver.
