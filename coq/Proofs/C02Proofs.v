(* C02: reciprocity.  The footprint (resp. concentration Green's function) computed for an on-grid
   measurement point, summed against ANY real surface-flux field, equals the flux (resp. the
   concentration above background) that the forward run of that field yields at that point. *)
From Coq Require Import ZArith List Field Ring Lia Bool Arith.
From BL Require Import Base.Ops Base.Laws Model.Solver Proofs.Sums Proofs.StepProofs Proofs.ModeProofs Proofs.Dft Proofs.SpecProofs Proofs.C04Proofs.
Import ListNotations.
Set Default Proof Using "All".

Section C02.
Variable O : Ops.
Hypothesis L : Laws O.
Notation C := (C O).
Notation "0" := (c0 O) : ops_scope. Notation "1" := (c1 O) : ops_scope.
Infix "+" := (cadd O) : ops_scope. Infix "*" := (cmul O) : ops_scope.
Infix "-" := (csub O) : ops_scope. Infix "/" := (cdiv O) : ops_scope.
Notation "- x" := (copp O x) : ops_scope.
Local Open Scope ops_scope.
Add Field OFc2 : (L_field O L).
Notation ofZ := (cofZ O).
Notation ofN n := (cofZ O (Z.of_nat n)).
Notation args := (args O).
Notation geom := (geom O).

(* the footprint request for tower (xm, ym), and the forward request with background p *)
Definition fp_req (a : args) (xm ym : C) : args :=
  mkArgs O (a_q0 O a) (a_z O a) (a_prof O a) (a_xmx O a) (a_ymx O a) (a_levels O a) (a_nlx O a) (a_nly O a)
         xm ym 0 true (a_analytic O a) (a_halo O a) (a_single O a).
Definition fw_req (a : args) (p : C) : args :=
  mkArgs O (a_q0 O a) (a_z O a) (a_prof O a) (a_xmx O a) (a_ymx O a) (a_levels O a) (a_nlx O a) (a_nly O a)
         0 0 p false (a_analytic O a) (a_halo O a) (a_single O a).

Section Recip.
Variables (a : args) (g : geom) (im jm : nat) (p : C).
Hypothesis Hwf : wf O a.
Hypothesis Hdouble : a_single O a = false.
Hypothesis Hreal : forall j i, cre O (cellq O (a_q0 O a) j i) = cellq O (a_q0 O a) j i.
Hypothesis Hgfp : geometry O (fp_req a (ofN im * g_dx O g) (ofN jm * g_dy O g)) = inl g.
Hypothesis Hdx : g_dx O g <> 0.
Hypothesis Hdy : g_dy O g <> 0.
Hypothesis Hnxe : g_nxe O g <> 0%nat.
Hypothesis Hnye : g_nye O g <> 0%nat.
Hypothesis Hlx : (0 < g_nlx O g)%nat.
Hypothesis Hly : (0 < g_nly O g)%nat.
Hypothesis Him : (im < g_nx O g)%nat.
Hypothesis Hjm : (jm < g_ny O g)%nat.

Let afp := fp_req a (ofN im * g_dx O g) (ofN jm * g_dy O g).
Let afw := fw_req a p.

Lemma Hgfw : geometry O afw = inl g.
Proof. rewrite <- Hgfp. apply (geometry_shape_only O L); reflexivity. Qed.
Lemma wf_fp : wf O afp. Proof. destruct Hwf; constructor; assumption. Qed.
Lemma wf_fw : wf O afw. Proof. destruct Hwf; constructor; assumption. Qed.

(* the footprint phase shift is the forward phase at the tower's padded index *)
Lemma shift_fp_is_phase t :
  shift O afp g (fst t) (snd t)
  = cis O (phase O g (fftfreq (g_nlx O g) (fst t)) (fftfreq (g_nly O g) (snd t)) (im + g_px O g) (jm + g_py O g)).
Proof.
  unfold shift. cbn [a_footprint afp fp_req a_xm a_ym]. unfold cis. f_equal. f_equal.
  unfold shift_arg_fp, phase, wavenumber, twopi.
  rewrite !(L_ofZ_mul O L), !Nat2Z.inj_add, !(L_ofZ_add O L).
  field. repeat split; try assumption; apply (ofN_nz O L); assumption.
Qed.

Lemma shift_fw t : shift O afw g (fst t) (snd t) = 1.
Proof.
  unfold shift. cbn [a_footprint afw fw_req a_xm a_ym].
  replace (0 * 0 + 0 * 0) with 0 by ring. rewrite (L_ltb_irrefl O L). reflexivity.
Qed.

(* source amplitude of the forward run, times N, in index form *)
Lemma N_src_hat kx ky :
  ofN (g_nxe O g) * ofN (g_nye O g) * src_hat O afw g kx ky
  = csum O (map (fun j => csum O (map (fun i =>
        cellq O (a_q0 O a) j i * cis O (- phase O g kx ky (i + g_px O g) (j + g_py O g)))
      (seq 0 (g_nx O g)))) (seq 0 (g_ny O g))).
Proof.
  rewrite (src_hat_index O L afw g kx ky wf_fw Hgfw). cbn [a_q0 afw fw_req].
  field. split; apply (ofN_nz O L); assumption.
Qed.

(* amplitudes: the footprint run carries 1/N, the forward run the source amplitude *)
Lemma amp_fp_fw t k : (k < length (a_levels O a))%nat ->
  let N := ofN (g_nxe O g) * ofN (g_nye O g) in
  let sh := src_hat O afw g (fftfreq (g_nlx O g) (fst t)) (fftfreq (g_nly O g) (snd t)) in
  N * sh * snd (amp O afp g t k) = snd (amp O afw g t k) /\
  N * sh * fst (amp O afp g t k) = fst (amp O afw g t k) - (match t with (0%nat, 0%nat) => p | _ => 0 end).
Proof.
  intros Hk. cbv zeta. destruct t as [tx ty]. unfold amp.
  change (a_levels O afp) with (a_levels O a). change (a_levels O afw) with (a_levels O a).
  change (resist O afp g) with (resist O afw g). change (transfer O afp g) with (transfer O afw g).
  change (a_p000 O afp) with 0. change (a_p000 O afw) with p.
  assert (Hq_fp : forall x y, q0_hat O afp g x y = 1 / ofN (g_nxe O g) / ofN (g_nye O g)) by reflexivity.
  assert (Hq_fw : forall x y, q0_hat O afw g x y = src_hat O afw g (fftfreq (g_nlx O g) x) (fftfreq (g_nly O g) y)) by reflexivity.
  assert (HN1 : ofN (g_nxe O g) <> 0) by (apply (ofN_nz O L); assumption).
  assert (HN2 : ofN (g_nye O g) <> 0) by (apply (ofN_nz O L); assumption).
  destruct tx as [|tx]; destruct ty as [|ty]; cbn [fst snd]; rewrite !Hq_fp, !Hq_fw; split; field; split; assumption.
Qed.

(* weighting one mode's footprint term with the source and summing over the grid gives the
   forward term of that mode at the tower *)
Lemma term_recip sel k t :
  (k < length (a_levels O a))%nat ->
  csum O (map (fun j => csum O (map (fun i =>
      cellq O (a_q0 O a) j i * term O afp g sel k (i + g_px O g) (j + g_py O g) t)
    (seq 0 (g_nx O g)))) (seq 0 (g_ny O g)))
  = ofN (g_nxe O g) * ofN (g_nye O g)
    * src_hat O afw g (fftfreq (g_nlx O g) (fst t)) (fftfreq (g_nly O g) (snd t))
    * sel (amp O afp g t k)
    * cis O (phase O g (fftfreq (g_nlx O g) (fst t)) (fftfreq (g_nly O g) (snd t)) (im + g_px O g) (jm + g_py O g)).
Proof.
  intros Hk. rewrite N_src_hat. unfold term.
  rewrite (spectrum_amp O L afp g t k wf_fp Hgfp Hdouble Hk), shift_fp_is_phase.
  cbn [a_footprint afp fp_req].
  rewrite <- !(csum_map_scale_r O L). apply (csum_map_ext O L). intros j _.
  rewrite <- !(csum_map_scale_r O L). apply (csum_map_ext O L). intros i _. ring.
Qed.

Lemma cre_scale_real s x : cre O s = s -> s * cre O x = cre O (s * x).
Proof. intros H. symmetry. apply (L_re_mul_real O L). exact H. Qed.

Theorem reciprocity k :
  (k < length (a_levels O a))%nat ->
  csum O (map (fun j => csum O (map (fun i =>
      cellq O (a_q0 O a) j i * get3 O (field O afp g snd (table O afp g)) k j i)
    (seq 0 (g_nx O g)))) (seq 0 (g_ny O g)))
  = get3 O (field O afw g snd (table O afw g)) k jm im
  /\
  csum O (map (fun j => csum O (map (fun i =>
      cellq O (a_q0 O a) j i * get3 O (field O afp g fst (table O afp g)) k j i)
    (seq 0 (g_nx O g)))) (seq 0 (g_ny O g)))
  = get3 O (field O afw g fst (table O afw g)) k jm im - cre O p.
Proof.
  intros Hk.
  assert (Hgen : forall sel, (forall pq s, sel (fst pq * s, snd pq * s) = sel pq * s) ->
    csum O (map (fun j => csum O (map (fun i =>
      cellq O (a_q0 O a) j i * get3 O (field O afp g sel (table O afp g)) k j i)
      (seq 0 (g_nx O g)))) (seq 0 (g_ny O g)))
    = cre O (csum O (map (fun t =>
        ofN (g_nxe O g) * ofN (g_nye O g)
        * src_hat O afw g (fftfreq (g_nlx O g) (fst t)) (fftfreq (g_nly O g) (snd t))
        * sel (amp O afp g t k)
        * cis O (phase O g (fftfreq (g_nlx O g) (fst t)) (fftfreq (g_nly O g) (snd t)) (im + g_px O g) (jm + g_py O g)))
        (modes_of O g)))).
  { intros sel Hsel.
    rewrite (csum_map_ext O L _ (fun j => cre O (csum O (map (fun i =>
        csum O (map (fun t => cellq O (a_q0 O a) j i * term O afp g sel k (i + g_px O g) (j + g_py O g) t) (modes_of O g)))
        (seq 0 (g_nx O g)))))).
    2:{ intros j Hj. apply in_seq in Hj. rewrite (cre_csum_map O L). apply (csum_map_ext O L).
        intros i Hi. apply in_seq in Hi.
        rewrite (field_get O L), (synth_table O L) by (cbn [a_levels afp fp_req]; try assumption; lia).
        rewrite (cre_scale_real _ _ (Hreal j i)). f_equal. rewrite (csum_map_scale O L). reflexivity. }
    rewrite <- (cre_csum_map O L). f_equal.
    rewrite (csum_map_ext O L _ (fun j => csum O (map (fun t => csum O (map (fun i =>
        cellq O (a_q0 O a) j i * term O afp g sel k (i + g_px O g) (j + g_py O g) t) (seq 0 (g_nx O g)))) (modes_of O g)))).
    2:{ intros j _. apply (csum_swap O L). }
    rewrite (csum_swap O L). apply (csum_map_ext O L). intros t _. apply term_recip. exact Hk. }
  assert (Hfw : forall sel, (forall pq s, sel (fst pq * s, snd pq * s) = sel pq * s) ->
    get3 O (field O afw g sel (table O afw g)) k jm im
    = cre O (csum O (map (fun t => sel (amp O afw g t k)
        * cis O (phase O g (fftfreq (g_nlx O g) (fst t)) (fftfreq (g_nly O g) (snd t)) (im + g_px O g) (jm + g_py O g)))
        (modes_of O g)))).
  { intros sel Hsel.
    rewrite (field_get O L), (synth_table O L) by (cbn [a_levels afw fw_req]; try assumption; lia).
    f_equal. apply (csum_map_ext O L). intros t _. unfold term.
    rewrite (spectrum_amp O L afw g t k wf_fw Hgfw Hdouble Hk), shift_fw.
    cbn [a_footprint afw fw_req]. ring. }
  split.
  - rewrite (Hgen snd) by reflexivity. rewrite (Hfw snd) by reflexivity. f_equal.
    apply (csum_map_ext O L). intros t _. destruct (amp_fp_fw t k Hk) as [E _]. cbv zeta in E. rewrite <- E. ring.
  - rewrite (Hgen fst) by reflexivity. rewrite (Hfw fst) by reflexivity.
    destruct (modes_of_split O L g Hlx Hly) as (rest & -> & Hrest). cbn [map csum].
    rewrite !(L_re_add O L).
    rewrite (csum_map_ext O L _ (fun t => fst (amp O afw g t k)
        * cis O (phase O g (fftfreq (g_nlx O g) (fst t)) (fftfreq (g_nly O g) (snd t)) (im + g_px O g) (jm + g_py O g))) rest).
    2:{ intros t Ht. destruct (amp_fp_fw t k Hk) as [_ E]. cbv zeta in E.
        destruct t as [[|tx] [|ty]]; try (rewrite E; ring).
        exfalso. apply (Hrest _ Ht). reflexivity. }
    destruct (amp_fp_fw (0%nat, 0%nat) k Hk) as [_ E0]. cbv zeta in E0. cbn [fst snd] in *.
    rewrite !(fftfreq_0 O L), (phase_0 O L), (cis_0 O L) in *.
    replace (ofN (g_nxe O g) * ofN (g_nye O g) * src_hat O afw g 0%Z 0%Z * fst (amp O afp g (0%nat, 0%nat) k) * 1)
      with (fst (amp O afw g (0%nat, 0%nat) k) * 1 - p) by (rewrite E0; ring).
    rewrite (cre_sub O L). ring.
Qed.

End Recip.

Lemma shift_fp_phase (a : args) (g : geom) (im jm : nat) :
  g_dx O g <> 0 -> g_dy O g <> 0 -> g_nxe O g <> 0%nat -> g_nye O g <> 0%nat ->
  forall t,
  shift O (fp_req a (ofN im * g_dx O g) (ofN jm * g_dy O g)) g (fst t) (snd t)
  = cis O (phase O g (fftfreq (g_nlx O g) (fst t)) (fftfreq (g_nly O g) (snd t)) (im + g_px O g) (jm + g_py O g)).
Proof.
  intros Hdx Hdy Hnxe Hnye t.
  unfold shift. cbn [a_footprint fp_req a_xm a_ym]. unfold cis. f_equal. f_equal.
  unfold shift_arg_fp, phase, wavenumber, twopi.
  rewrite !(L_ofZ_mul O L), !Nat2Z.inj_add, !(L_ofZ_add O L).
  field. repeat split; try assumption; apply (ofN_nz O L); assumption.
Qed.

End C02.
