(* C06 — the footprint for a point is the point reflection about that point of the response to a
   unit source placed there (periodic domain).  Combines reciprocity (C02) with a unit source at an
   arbitrary cell and source-translation equivariance (C06). *)
From Coq Require Import ZArith List Bool Field Ring Lia.
From BL Require Import Base.Ops Base.Laws Model.Solver Proofs.Sums Proofs.SpecProofs
  Proofs.C04Proofs Proofs.C02Proofs Proofs.C06Proofs.
Import ListNotations.
Set Default Proof Using "All".

Section Reflect.
Variable O : Ops.
Hypothesis L : Laws O.
Notation C := (C O).
Notation "0" := (c0 O) : ops_scope. Notation "1" := (c1 O) : ops_scope.
Infix "+" := (cadd O) : ops_scope. Infix "*" := (cmul O) : ops_scope.
Infix "-" := (csub O) : ops_scope.
Local Open Scope ops_scope.
Add Field OFr : (L_field O L).
Notation ofN n := (cofZ O (Z.of_nat n)).

(* ny x nx array with a one in cell (j0, i0) *)
Definition unit_src (ny nx j0 i0 : nat) : list (list C) :=
  map (fun j => map (fun i => if (Nat.eqb j j0 && Nat.eqb i i0)%bool then 1 else 0) (seq 0 nx)) (seq 0 ny).

Lemma unit_src_length ny nx j0 i0 : length (unit_src ny nx j0 i0) = ny.
Proof. unfold unit_src. rewrite map_length, seq_length. reflexivity. Qed.

Lemma unit_src_rows ny nx j0 i0 row : In row (unit_src ny nx j0 i0) -> length row = nx.
Proof.
  unfold unit_src. intros H. apply in_map_iff in H. destruct H as [j [<- _]].
  rewrite map_length, seq_length. reflexivity.
Qed.

Lemma unit_src_hd ny nx j0 i0 : ny <> 0%nat -> length (hd [] (unit_src ny nx j0 i0)) = nx.
Proof.
  intros Hny. apply unit_src_rows with (ny := ny) (j0 := j0) (i0 := i0).
  destruct ny as [|ny]; [contradiction|]. unfold unit_src. cbn [seq map hd]. left. reflexivity.
Qed.

Lemma unit_src_cell ny nx j0 i0 j i : (j < ny)%nat -> (i < nx)%nat ->
  cellq O (unit_src ny nx j0 i0) j i = if (Nat.eqb j j0 && Nat.eqb i i0)%bool then 1 else 0.
Proof.
  intros Hj Hi. unfold cellq, unit_src.
  rewrite (map_nth_lt _ _ j 0%nat []) by (rewrite seq_length; exact Hj).
  rewrite seq_nth by exact Hj.
  rewrite (map_nth_lt _ _ i 0%nat 0) by (rewrite seq_length; exact Hi).
  rewrite seq_nth by exact Hi. reflexivity.
Qed.

(* summing an indicator picks the value *)
Lemma csum_pick (n i0 : nat) (F : nat -> C) : (i0 < n)%nat ->
  csum O (map (fun i => (if Nat.eqb i i0 then 1 else 0) * F i) (seq 0 n)) = F i0.
Proof.
  intros Hi. rewrite (sumn_csum O L).
  induction n as [|n IH]; [lia|]. cbn [sumn].
  destruct (Nat.eq_dec n i0) as [->|Hne].
  - rewrite Nat.eqb_refl.
    rewrite (sumn_ext O L i0 _ (fun _ => 0)).
    2:{ intros i Hlt. destruct (Nat.eqb_spec i i0) as [->|_]; [lia|ring]. }
    rewrite <- (sumn_csum O L), (csum_map_zero O L). ring.
  - rewrite IH by lia. destruct (Nat.eqb_spec n i0) as [->|_]; [contradiction|]. ring.
Qed.

Lemma csum_zero_rows (n : nat) : csum O (map (fun _ : nat => 0) (seq 0 n)) = 0.
Proof. apply (csum_map_zero O L). Qed.

Lemma unit_src_sum ny nx j0 i0 (F : nat -> nat -> C) : (j0 < ny)%nat -> (i0 < nx)%nat ->
  csum O (map (fun j => csum O (map (fun i => cellq O (unit_src ny nx j0 i0) j i * F j i) (seq 0 nx))) (seq 0 ny))
  = F j0 i0.
Proof.
  intros Hj Hi.
  rewrite (csum_map_ext O L _ (fun j => (if Nat.eqb j j0 then 1 else 0) * F j i0)).
  - apply (csum_pick ny j0 (fun j => F j i0)). exact Hj.
  - intros j Hjin. apply in_seq in Hjin.
    destruct (Nat.eqb_spec j j0) as [->|Hne].
    + rewrite (csum_map_ext O L _ (fun i => (if Nat.eqb i i0 then 1 else 0) * F j0 i)).
      * rewrite (csum_pick nx i0 (fun i => F j0 i)) by exact Hi. ring.
      * intros i Hiin. apply in_seq in Hiin. rewrite unit_src_cell by lia.
        rewrite Nat.eqb_refl. cbn [andb]. reflexivity.
    + rewrite (csum_map_ext O L _ (fun _ => 0)).
      * rewrite csum_zero_rows. ring.
      * intros i Hiin. apply in_seq in Hiin. rewrite unit_src_cell by lia.
        destruct (Nat.eqb_spec j j0) as [->|_]; [contradiction|]. cbn [andb]. ring.
Qed.

(* index arithmetic of the reflection *)
Lemma cyc_refl_eq (n m c x : nat) : (m < n)%nat -> (c < n)%nat -> (x < n)%nat ->
  Nat.eqb x c = Nat.eqb (cyc n x (- (Z.of_nat c - Z.of_nat m))) m.
Proof.
  intros Hm Hc Hx. unfold cyc.
  destruct (Nat.eqb_spec x c) as [->|Hne].
  - replace (Z.of_nat c + - (Z.of_nat c - Z.of_nat m))%Z with (Z.of_nat m) by ring.
    rewrite Z.mod_small by lia. rewrite Nat2Z.id. symmetry. apply Nat.eqb_refl.
  - symmetry. apply Nat.eqb_neq. intros E.
    set (t := (Z.of_nat x + - (Z.of_nat c - Z.of_nat m))%Z) in *.
    assert (Ht : (t mod Z.of_nat n = Z.of_nat m)%Z).
    { pose proof (Z.mod_pos_bound t (Z.of_nat n) ltac:(lia)) as Hb. lia. }
    assert (Hdm := Z.div_mod t (Z.of_nat n) ltac:(lia)).
    rewrite Ht in Hdm. subst t.
    assert (Hq : (Z.of_nat x - Z.of_nat c = Z.of_nat n * ((Z.of_nat x + - (Z.of_nat c - Z.of_nat m)) / Z.of_nat n))%Z) by lia.
    set (qq := ((Z.of_nat x + - (Z.of_nat c - Z.of_nat m)) / Z.of_nat n)%Z) in *.
    assert (qq = 0%Z) by nia. subst qq. lia.
Qed.

Section Main.
Variables (a : args O) (g : geom O) (im jm : nat) (p : C).
Hypothesis Hwf : wf O a.
Hypothesis Hdouble : a_single O a = false.
Let xm := ofN im * g_dx O g.
Let ym := ofN jm * g_dy O g.
Hypothesis Hg : geometry O (fp_req O a xm ym) = inl g.
Hypothesis Hpx : g_px O g = 0%nat.
Hypothesis Hpy : g_py O g = 0%nat.
Hypothesis Hdx : g_dx O g <> 0.
Hypothesis Hdy : g_dy O g <> 0.
Hypothesis Hnx : g_nx O g <> 0%nat.
Hypothesis Hny : g_ny O g <> 0%nat.
Hypothesis Hlx : (0 < g_nlx O g)%nat.
Hypothesis Hly : (0 < g_nly O g)%nat.
Hypothesis Him : (im < g_nx O g)%nat.
Hypothesis Hjm : (jm < g_ny O g)%nat.

Let ny := g_ny O g.
Let nx := g_nx O g.
Let delta := unit_src ny nx jm im.

Lemma wf_with_unit j i q0p : wf O (with_src O a (unit_src ny nx j i) q0p).
Proof.
  destruct Hwf as [H1 H2 H3 H4 H5 H6]. constructor; cbn [with_src a_prof a_z a_q0]; try assumption.
  intros row Hin. rewrite unit_src_hd by exact Hny. apply unit_src_rows in Hin. exact Hin.
Qed.

Lemma shape_a : length (a_q0 O a) = ny /\ length (hd [] (a_q0 O a)) = nx.
Proof.
  destruct (geometry_inv O L _ _ Hg) as [H1 [H2 _]]. cbn [fp_req a_q0] in H1, H2. subst ny nx. split; congruence.
Qed.

Theorem point_reflection k j i :
  (k < length (a_levels O a))%nat -> (j < ny)%nat -> (i < nx)%nat ->
  let afp := fp_req O a xm ym in
  let afw := fw_req O (with_src O a delta p) p in
  let jr := cyc ny jm (- (Z.of_nat j - Z.of_nat jm)) in
  let ir := cyc nx im (- (Z.of_nat i - Z.of_nat im)) in
  (get3 O (field O afp g snd (table O afp g)) k j i = get3 O (field O afw g snd (table O afw g)) k jr ir)
  /\
  (get3 O (field O afp g fst (table O afp g)) k j i = get3 O (field O afw g fst (table O afw g)) k jr ir - cre O p).
Proof.
  intros Hk Hj Hi afp afw jr ir.
  destruct shape_a as [Sa1 Sa2].
  set (e := unit_src ny nx j i).
  set (ae := with_src O a e p).
  (* 1. reciprocity for the unit source at the cell (j, i) *)
  assert (Hwfe : wf O ae) by apply wf_with_unit.
  assert (Hge : geometry O (fp_req O ae xm ym) = inl g).
  { rewrite <- Hg. apply (geometry_shape_only O L); unfold ae, e; cbn [fp_req with_src a_q0 a_z a_xmx a_ymx a_levels a_nlx a_nly a_halo]; try reflexivity.
    - rewrite unit_src_length. symmetry. exact Sa1.
    - rewrite unit_src_hd by exact Hny. symmetry. exact Sa2. }
  assert (Hree : forall j' i', cre O (cellq O (a_q0 O ae) j' i') = cellq O (a_q0 O ae) j' i').
  { intros j' i'. cbn [ae with_src a_q0]. subst e.
    destruct (Nat.lt_ge_cases j' ny) as [Hj'|Hj']; [destruct (Nat.lt_ge_cases i' nx) as [Hi'|Hi']|].
    - rewrite unit_src_cell by assumption.
      destruct (_ && _)%bool.
      + rewrite <- (L_ofZ_1 O L). apply (L_re_ofZ O L).
      + apply (L_re_0 O L).
    - unfold cellq. rewrite (nth_overflow (nth j' _ [])); [apply (L_re_0 O L)|].
      assert (Hin : In (nth j' (unit_src ny nx j i) []) (unit_src ny nx j i)) by (apply nth_In; rewrite unit_src_length; exact Hj').
      rewrite (unit_src_rows _ _ _ _ _ Hin). exact Hi'.
    - unfold cellq. rewrite (nth_overflow (unit_src ny nx j i)) by (rewrite unit_src_length; exact Hj').
      destruct i'; apply (L_re_0 O L). }
  assert (Exe : g_nxe O g = nx /\ g_nye O g = ny).
  { destruct (geometry_inv O L _ _ Hg) as (_ & _ & _ & _ & _ & Hxe & Hye & _). subst nx ny. lia. }
  destruct Exe as [Exe Eye].
  pose proof (reciprocity O L ae g im jm p Hwfe Hdouble Hree Hge Hdx Hdy
                ltac:(rewrite Exe; exact Hnx) ltac:(rewrite Eye; exact Hny) Hlx Hly Him Hjm k Hk) as [R1 R2].
  assert (R1' : get3 O (field O (fp_req O ae xm ym) g snd (table O (fp_req O ae xm ym) g)) k j i
                = get3 O (field O (fw_req O ae p) g snd (table O (fw_req O ae p) g)) k jm im).
  { rewrite <- (unit_src_sum ny nx j i (fun j' i' => get3 O (field O (fp_req O ae xm ym) g snd (table O (fp_req O ae xm ym) g)) k j' i') Hj Hi).
    exact R1. }
  assert (R2' : get3 O (field O (fp_req O ae xm ym) g fst (table O (fp_req O ae xm ym) g)) k j i
                = get3 O (field O (fw_req O ae p) g fst (table O (fw_req O ae p) g)) k jm im - cre O p).
  { rewrite <- (unit_src_sum ny nx j i (fun j' i' => get3 O (field O (fp_req O ae xm ym) g fst (table O (fp_req O ae xm ym) g)) k j' i') Hj Hi).
    exact R2. }
  clear R1 R2. rename R1' into R1. rename R2' into R2.
  (* 2. the footprint does not depend on the source values *)
  assert (Htab : table O (fp_req O ae xm ym) g = table O afp g).
  { unfold table. apply map_ext. intros [tx ty]. reflexivity. }
  assert (Hfld : forall sel, field O (fp_req O ae xm ym) g sel (table O (fp_req O ae xm ym) g) = field O afp g sel (table O afp g)).
  { intros sel. rewrite Htab. reflexivity. }
  rewrite Hfld in R1, R2.
  (* 3. the unit source at (j, i) is the unit source at the tower rolled by (i - im, j - jm) *)
  set (rx := (Z.of_nat i - Z.of_nat im)%Z). set (ry := (Z.of_nat j - Z.of_nat jm)%Z).
  set (b := fw_req O a p).
  assert (Hroll : forall sel, (sel = fst \/ sel = snd) ->
     get3 O (field O (with_src O b e p) g sel (table O (with_src O b e p) g)) k jm im
     = get3 O (field O (with_src O b delta p) g sel (table O (with_src O b delta p) g)) k (cyc ny jm (- ry)) (cyc nx im (- rx))).
  { intros sel Hsel.
    apply (source_roll O L b g delta e p rx ry).
    - destruct Hwf as [H1 H2 H3 H4 H5 H6]. constructor; cbn [with_src b fw_req a_prof a_z a_q0]; try assumption.
      intros row Hin. subst delta. rewrite unit_src_hd by exact Hny. apply unit_src_rows in Hin. exact Hin.
    - destruct Hwf as [H1 H2 H3 H4 H5 H6]. constructor; cbn [with_src b fw_req a_prof a_z a_q0]; try assumption.
      intros row Hin. subst e. rewrite unit_src_hd by exact Hny. apply unit_src_rows in Hin. exact Hin.
    - split; subst e delta; [rewrite !unit_src_length; reflexivity|rewrite !unit_src_hd by exact Hny; reflexivity].
    - reflexivity.
    - exact Hdouble.
    - rewrite <- Hg. apply (geometry_shape_only O L); cbn [fp_req with_src b fw_req a_q0 a_z a_xmx a_ymx a_levels a_nlx a_nly a_halo]; try reflexivity.
      + subst delta. rewrite unit_src_length. symmetry. exact Sa1.
      + subst delta. rewrite unit_src_hd by exact Hny. symmetry. exact Sa2.
    - exact Hpx.
    - exact Hpy.
    - exact Hnx.
    - exact Hny.
    - intros j' i' Hj' Hi'. fold ny nx in Hj', Hi'. fold ny nx. subst e delta.
      rewrite unit_src_cell by assumption.
      rewrite unit_src_cell by (apply (cyc_lt O L); assumption).
      subst rx ry. rewrite <- (cyc_refl_eq ny jm j j' Hjm Hj Hj'), <- (cyc_refl_eq nx im i i' Him Hi Hi'). reflexivity.
    - intros pq s. destruct Hsel as [-> | ->]; reflexivity.
    - intros x s. destruct Hsel as [-> | ->]; reflexivity.
    - exact Hk.
    - exact Hjm.
    - exact Him.
    - exact Hsel. }
  change (fw_req O ae p) with (with_src O b e p) in R1, R2.
  change afw with (with_src O b delta p).
  split.
  - rewrite R1. apply Hroll. right. reflexivity.
  - rewrite R2. rewrite (Hroll fst) by (left; reflexivity). reflexivity.
Qed.

End Main.
End Reflect.
