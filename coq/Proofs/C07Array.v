(* C07, array level: exchanging the x and y axes (source transposed; wind components, horizontal
   diffusivities, domain extents, mode counts and the measurement point swapped) transposes both
   returned fields, cell by cell, at every level — for every halo given explicitly, every mode
   count, footprint and dispersion mode, numerical and analytic branch (double-precision storage). *)
From Coq Require Import ZArith List Field Ring Lia Bool Arith.
From BL Require Import Base.Ops Base.Laws Model.Solver Proofs.Sums Proofs.StepProofs Proofs.ModeProofs Proofs.Dft Proofs.SpecProofs Proofs.C04Proofs Proofs.C07Proofs.
Import ListNotations.
Set Default Proof Using "All".

Section C07A.
Variable O : Ops.
Hypothesis L : Laws O.
Notation C := (C O).
Notation "0" := (c0 O) : ops_scope. Notation "1" := (c1 O) : ops_scope.
Infix "+" := (cadd O) : ops_scope. Infix "*" := (cmul O) : ops_scope.
Infix "-" := (csub O) : ops_scope. Infix "/" := (cdiv O) : ops_scope.
Notation "- x" := (copp O x) : ops_scope.
Local Open Scope ops_scope.
Add Field OFc7a : (L_field O L).
Notation ofZ := (cofZ O).
Notation ofN n := (cofZ O (Z.of_nat n)).
Notation args := (args O).
Notation geom := (geom O).

(* ---------------------------------------------------------------- transposed request *)

Definition tr (nx : nat) (q : list (list C)) : list (list C) :=
  map (fun i => map (fun row => nth i row 0) q) (seq 0 nx).

Definition swap_prof (p : profiles O) : profiles O :=
  mkProf O (p_v O p) (p_u O p) (p_Ky O p) (p_Kx O p) (p_Kz O p).

Definition swap_args (a : args) : args :=
  mkArgs O (tr (length (hd [] (a_q0 O a))) (a_q0 O a)) (a_z O a) (swap_prof (a_prof O a))
         (a_ymx O a) (a_xmx O a) (a_levels O a) (a_nly O a) (a_nlx O a) (a_ym O a) (a_xm O a)
         (a_p000 O a) (a_footprint O a) (a_analytic O a) (a_halo O a) (a_single O a).

Definition swap_geom (g : geom) : geom :=
  mkGeom O (g_ny O g) (g_nx O g) (g_nz O g) (g_dy O g) (g_dx O g) (g_py O g) (g_px O g)
         (g_nye O g) (g_nxe O g) (g_nly O g) (g_nlx O g).

Lemma cellq_tr nx q i j : (i < nx)%nat -> (j < length q)%nat -> cellq O (tr nx q) i j = cellq O q j i.
Proof.
  intros Hi Hj. unfold cellq, tr.
  rewrite (map_nth_lt _ (seq 0 nx) i 0%nat []) by (rewrite seq_length; exact Hi).
  rewrite seq_nth by exact Hi. cbn [plus].
  rewrite (map_nth_lt _ q j [] 0) by exact Hj. reflexivity.
Qed.

Lemma tr_length nx q : length (tr nx q) = nx.
Proof. unfold tr. rewrite map_length, seq_length. reflexivity. Qed.

Lemma tr_rows nx q row : In row (tr nx q) -> length row = length q.
Proof. unfold tr. intros H. apply in_map_iff in H. destruct H as (i & <- & _). apply map_length. Qed.

Lemma tr_hd nx q : nx <> 0%nat -> length (hd [] (tr nx q)) = length q.
Proof.
  intros Hn. apply tr_rows with nx. unfold tr. destruct nx as [|n]; [congruence|].
  cbn [seq map hd]. left. reflexivity.
Qed.

(* ---------------------------------------------------------------- geometry of the swapped request *)

(* everything geometry computes, spelled out (explicit halo) *)
Lemma geometry_inv3 a g h : geometry O a = inl g -> a_halo O a = Some h ->
  Nat.odd (a_nlx O a) || Nat.odd (a_nly O a) = false /\
  existsb (fun l => (length (a_z O a) <=? l)%nat) (a_levels O a) = false /\
  (ctrunc O (cdiv O h (g_dx O g)) <? 0)%Z || (ctrunc O (cdiv O h (g_dy O g)) <? 0)%Z = false /\
  g_px O g = Z.to_nat (ctrunc O (cdiv O h (g_dx O g))) /\ g_py O g = Z.to_nat (ctrunc O (cdiv O h (g_dy O g))) /\
  (g_nlx O g, g_nly O g) = (if (g_nxe O g <? a_nlx O a)%nat || (g_nye O g <? a_nly O a)%nat
                            then (g_nxe O g, g_nye O g) else (a_nlx O a, a_nly O a)).
Proof.
  intros Hg Hh. unfold geometry in Hg. rewrite Hh in Hg.
  destruct (Nat.odd (a_nlx O a) || Nat.odd (a_nly O a)); [discriminate|].
  destruct ((_ <? 0)%Z || (_ <? 0)%Z) eqn:En; [discriminate|].
  destruct ((_ <? a_nlx O a)%nat || (_ <? a_nly O a)%nat) eqn:E;
    (destruct (existsb _ (a_levels O a)); [discriminate|]); injection Hg as <-;
    cbn [g_nlx g_nly g_nxe g_nye g_dx g_dy g_px g_py]; cbn [Nat.mul] in E; rewrite E, En;
    repeat split; reflexivity.
Qed.

Lemma swapped_geometry a g h :
  wf O a -> geometry O a = inl g -> a_halo O a = Some h -> g_nx O g <> 0%nat -> g_ny O g <> 0%nat ->
  geometry O (swap_args a) = inl (swap_geom g).
Proof.
  intros Hwf Hg Hh Hnx Hny.
  destruct (geometry_inv O L a g Hg) as (Eny & Enx & Enz & Edx & Edy & Exe & Eye & _).
  destruct (geometry_inv3 a g h Hg Hh) as (Hodd & Hlv & Hneg & Epx & Epy & Hclamp).
  unfold geometry. cbn [a_nlx a_nly a_q0 a_z a_xmx a_ymx a_halo a_levels swap_args].
  rewrite Hh, (orb_comm (Nat.odd (a_nly O a))), Hodd, Hlv.
  rewrite tr_length, tr_hd by (rewrite <- Enx; exact Hnx).
  rewrite <- Enx, <- Eny, <- Edx, <- Edy.
  rewrite (orb_comm (ctrunc O (cdiv O h (g_dy O g)) <? 0)%Z), Hneg.
  rewrite <- Epx, <- Epy, <- Exe, <- Eye, <- Enz.
  rewrite (orb_comm (g_nye O g <? a_nly O a)%nat).
  destruct ((g_nxe O g <? a_nlx O a)%nat || (g_nye O g <? a_nly O a)%nat);
    injection Hclamp as Hcx Hcy; unfold swap_geom; rewrite Hcx, Hcy; reflexivity.
Qed.

Lemma wf_swap a g : wf O a -> geometry O a = inl g -> g_nx O g <> 0%nat -> wf O (swap_args a).
Proof.
  intros Hwf Hg Hnx. destruct (geometry_inv O L a g Hg) as (_ & Enx & _).
  destruct Hwf as [A B C0 D E F]. constructor; cbn [a_prof a_z a_q0 swap_args swap_prof p_u p_v p_Kx p_Ky p_Kz]; try assumption.
  intros row Hin. rewrite (tr_rows _ _ _ Hin). symmetry. apply tr_hd. rewrite <- Enx. exact Hnx.
Qed.


(* ---------------------------------------------------------------- per-mode pieces under the swap *)

Lemma ivp_loop_ext lx ly lx' ly' (f : layer O -> layer O) levels :
  (forall Lr st, step O lx' ly' (f Lr) st = step O lx ly Lr st) ->
  forall layers i st rp rq,
  ivp_loop O lx' ly' (map f layers) i levels st rp rq = ivp_loop O lx ly layers i levels st rp rq.
Proof.
  intros Hstep. induction layers as [|Lr r IH]; intros i st rp rq; cbn [map ivp_loop]; [reflexivity|].
  rewrite Hstep. apply IH.
Qed.

Lemma ivp_swap lx ly layers levels st :
  ivp O ly lx (map (swap_xy O) layers) levels st = ivp O lx ly layers levels st.
Proof.
  unfold ivp. rewrite (ivp_loop_ext lx ly ly lx (swap_xy O) levels (step_swap O L lx ly)).
  rewrite map_length. reflexivity.
Qed.

Lemma mk_layers_swap : forall Kx Ky u v Kz dz : list C,
  mk_layers O Ky Kx v u Kz dz = map (swap_xy O) (mk_layers O Kx Ky u v Kz dz).
Proof.
  induction Kx as [|a Kx IH]; intros Ky u v Kz dz.
  - destruct Ky, u, v, Kz, dz; reflexivity.
  - destruct Ky, u, v, Kz, dz; try reflexivity. cbn [mk_layers map]. rewrite IH. reflexivity.
Qed.

Lemma layers_swap z pr : layers_of O z (swap_prof pr) = map (swap_xy O) (layers_of O z pr).
Proof. unfold layers_of, swap_prof. cbn [p_u p_v p_Kx p_Ky p_Kz]. apply mk_layers_swap. Qed.

Lemma mode_levels_q_swap a g tx ty qh :
  mode_levels_q O (swap_args a) (swap_geom g) ty tx qh = mode_levels_q O a g tx ty qh.
Proof.
  unfold mode_levels_q.
  cbn [a_prof a_z a_levels a_analytic a_single swap_args g_nz g_dx g_dy g_nxe g_nye g_nlx g_nly swap_geom
       swap_prof p_u p_v p_Kx p_Ky p_Kz].
  rewrite (eig_swap O L).
  change (rho O (swap_args a)) with (rho O a).
  destruct (a_analytic O a); [reflexivity|].
  change (layers_of O (a_z O a) (mkProf O (p_v O (a_prof O a)) (p_u O (a_prof O a)) (p_Ky O (a_prof O a))
            (p_Kx O (a_prof O a)) (p_Kz O (a_prof O a)))) with (layers_of O (a_z O a) (swap_prof (a_prof O a))).
  rewrite layers_swap, !ivp_swap. reflexivity.
Qed.

Lemma mean_levels_q_swap a g q00 p :
  mean_levels_q O (swap_args a) (swap_geom g) q00 p = mean_levels_q O a g q00 p.
Proof. reflexivity. Qed.

Lemma phase_swap g kx ky i j :
  phase O (swap_geom g) ky kx j i = phase O g kx ky i j.
Proof. unfold phase. cbn [g_nxe g_nye swap_geom]. ring. Qed.

Lemma src_hat_swap a g kx ky :
  wf O a -> geometry O a = inl g -> forall h, a_halo O a = Some h -> g_nx O g <> 0%nat -> g_ny O g <> 0%nat ->
  src_hat O (swap_args a) (swap_geom g) ky kx = src_hat O a g kx ky.
Proof.
  intros Hwf Hg h Hh Hnx Hny.
  destruct (geometry_inv O L a g Hg) as (Eny & Enx & _).
  rewrite (src_hat_index O L _ _ ky kx (wf_swap a g Hwf Hg Hnx) (swapped_geometry a g h Hwf Hg Hh Hnx Hny)).
  rewrite (src_hat_index O L a g kx ky Hwf Hg).
  cbn [g_nx g_ny g_px g_py g_nxe g_nye swap_geom a_q0 swap_args].
  assert (Hx0 : ofN (g_nxe O g) <> 0).
  { apply (ofN_nz O L). destruct (geometry_inv O L a g Hg) as (_ & _ & _ & _ & _ & Exe & _). lia. }
  assert (Hy0 : ofN (g_nye O g) <> 0).
  { apply (ofN_nz O L). destruct (geometry_inv O L a g Hg) as (_ & _ & _ & _ & _ & _ & Eye & _). lia. }
  replace (1 / ofN (g_nye O g) / ofN (g_nxe O g)) with (1 / ofN (g_nxe O g) / ofN (g_nye O g)) by (field; split; assumption).
  f_equal. rewrite (csum_swap O L).
  apply (csum_map_ext O L). intros j Hj. apply in_seq in Hj.
  apply (csum_map_ext O L). intros i Hi. apply in_seq in Hi.
  rewrite <- Enx, cellq_tr by lia. rewrite phase_swap. reflexivity.
Qed.

Lemma q0_hat_swap a g tx ty :
  wf O a -> geometry O a = inl g -> forall h, a_halo O a = Some h -> g_nx O g <> 0%nat -> g_ny O g <> 0%nat ->
  q0_hat O (swap_args a) (swap_geom g) ty tx = q0_hat O a g tx ty.
Proof.
  intros Hwf Hg h Hh Hnx Hny. unfold q0_hat. change (a_footprint O (swap_args a)) with (a_footprint O a).
  destruct (a_footprint O a).
  - cbn [g_nxe g_nye swap_geom].
    destruct (geometry_inv O L a g Hg) as (_ & _ & _ & _ & _ & Exe & Eye & _).
    field. split; apply (ofN_nz O L); lia.
  - cbn [g_nlx g_nly swap_geom]. apply (src_hat_swap a g _ _ Hwf Hg h Hh Hnx Hny).
Qed.

Lemma spectrum_swap a g tx ty :
  wf O a -> geometry O a = inl g -> forall h, a_halo O a = Some h -> g_nx O g <> 0%nat -> g_ny O g <> 0%nat ->
  spectrum O (swap_args a) (swap_geom g) ty tx = spectrum O a g tx ty.
Proof.
  intros Hwf Hg h Hh Hnx Hny. unfold spectrum, mode_levels, mean_levels.
  change (a_p000 O (swap_args a)) with (a_p000 O a).
  destruct tx as [|tx]; destruct ty as [|ty];
    rewrite (q0_hat_swap a g _ _ Hwf Hg h Hh Hnx Hny);
    first [apply mean_levels_q_swap | apply mode_levels_q_swap].
Qed.

Lemma shift_swap a g tx ty : shift O (swap_args a) (swap_geom g) ty tx = shift O a g tx ty.
Proof.
  unfold shift. cbn [a_footprint a_xm a_ym a_xmx a_ymx swap_args g_dx g_dy g_nxe g_nye g_nlx g_nly g_px g_py swap_geom].
  destruct (a_footprint O a).
  - unfold cis, shift_arg_fp. f_equal. f_equal. ring.
  - replace (a_ym O a * a_ym O a + a_xm O a * a_xm O a) with (a_xm O a * a_xm O a + a_ym O a * a_ym O a) by ring.
    destruct (cltb O 0 _); [|reflexivity]. unfold cis, shift_arg_ctr. f_equal. f_equal. ring.
Qed.

(* sum over the retained modes of the swapped request = sum over those of the original one *)
Lemma csum_modes_swap g (F F' : nat * nat -> C) :
  (forall tx ty, F' (ty, tx) = F (tx, ty)) ->
  csum O (map F' (modes_of O (swap_geom g))) = csum O (map F (modes_of O g)).
Proof.
  intros HF. unfold modes_of. cbn [g_nlx g_nly swap_geom].
  assert (Hflat : forall (G : nat * nat -> C) n m,
     csum O (map G (flat_map (fun ty => map (fun tx => (tx, ty)) (seq 0 n)) (seq 0 m)))
     = csum O (map (fun ty => csum O (map (fun tx => G (tx, ty)) (seq 0 n))) (seq 0 m))).
  { intros G n m. induction (seq 0 m) as [|y l IH]; [reflexivity|].
    cbn [flat_map map csum]. rewrite map_app, (csum_app O L), IH, map_map. reflexivity. }
  rewrite !Hflat. rewrite (csum_swap O L).
  apply (csum_map_ext O L). intros ty _. apply (csum_map_ext O L). intros tx _. apply HF.
Qed.

(* ---------------------------------------------------------------- the theorem *)

Theorem transpose_cells (a : args) (g : geom) h sel k j i :
  (forall pq s, sel (fst pq * s, snd pq * s) = sel pq * s) ->
  wf O a -> geometry O a = inl g -> a_halo O a = Some h -> g_nx O g <> 0%nat -> g_ny O g <> 0%nat ->
  (k < length (a_levels O a))%nat -> (j < g_ny O g)%nat -> (i < g_nx O g)%nat ->
  get3 O (field O (swap_args a) (swap_geom g) sel (table O (swap_args a) (swap_geom g))) k i j
  = get3 O (field O a g sel (table O a g)) k j i.
Proof.
  intros Hsel Hwf Hg Hh Hnx Hny Hk Hj Hi.
  rewrite (field_get O L a g) by assumption.
  rewrite (field_get O L (swap_args a) (swap_geom g)) by (cbn [a_levels swap_args g_nx g_ny swap_geom]; assumption).
  rewrite !(synth_table O L) by (cbn [a_levels swap_args]; assumption).
  cbn [g_px g_py swap_geom]. f_equal.
  apply csum_modes_swap. intros tx ty. unfold term. cbn [fst snd].
  rewrite (spectrum_swap a g tx ty Hwf Hg h Hh Hnx Hny), shift_swap.
  change (a_footprint O (swap_args a)) with (a_footprint O a).
  cbn [g_nlx g_nly swap_geom]. rewrite phase_swap. reflexivity.
Qed.

End C07A.
