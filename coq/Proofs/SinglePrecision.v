(* Single-precision STORAGE as explicit error bounds.

   Model/Solver.v rounds the per-mode, per-level spectral amplitudes with `rho` (= cround when
   a_single is set) BEFORE the phase shift and the synthesis.  The exact theorems C02 (reciprocity)
   and C04 (linearity) are stated for a_single = false.  Here they are extended to a_single = true
   over the complex numbers equipped with an arbitrary storage rounding `rnd` (instance ROpsR rnd,
   which satisfies Laws because no law mentions cround) that obeys the standard relative-error
   model of IEEE storage rounding
         |rnd x - x| <= eps |x|,     0 <= eps.

   Contents
     1  ROpsR rnd, ROpsR_laws
     3  spectrum_single_entries / spectrum_single_bound : single-storage spectrum entry = rnd of the
        double-storage entry (= the exact amplitude `amp` of Proofs/SpecProofs.v), error <= eps |amp|
     4  field_single_cells  : every output cell,  |single - double| <= eps * Smodes,
        Smodes = sum over modes_of g of |amp_t| * |shift_t|
     5  reciprocity_sgl (bound through item 4) and 5b reciprocity_sgl_modewise / BrecipW_forward
        (sums exchanged first; bound 2 eps * sum_t |forward amplitude_t| for the flux)
     6  linearity_sgl : three applications of item 4
     7  the same statements for a request with a_single = true (the reference being
        with_single a false), on fields and on the results of solve
     8  a rounding satisfying the model with eps > 0 that is not the identity
     9  eps = 0 gives back the exact theorems

   All bounds are expressed through moduli of the EXACT (double-storage) amplitudes.

   One finding: in the analytic branch the concentration amplitude of a non-mean mode is rounded
   TWICE (P = rho (rho (qh exp(..)) / Kz / eig)), so P(single) is NOT rnd (P(double)) and its
   relative error is eps (2 + eps), not eps.  The factor `epsP` below records this (it is eps in
   the numerical branch); the flux amplitudes and the mean mode always carry eps.
   Nothing is postulated; the last commands list the foundations used. *)
From Coq Require Import ZArith List Reals Lra Lia Bool Arith.
From Coquelicot Require Import Complex.
From BL Require Import Base.Ops Base.Laws Base.ROps Model.Solver Proofs.Sums Proofs.StepProofs
  Proofs.ModeProofs Proofs.SpecProofs Proofs.C04Proofs Proofs.C02Proofs Proofs.PrecisionProofs.
Import ListNotations.
Local Open Scope R_scope.

(* ------------------------------------------------------------------------------------------ *)
(* 1. the complex instance with a storage rounding                                              *)

Definition ROpsR (rnd : CC -> CC) : Ops :=
  mkOps (C ROps) (c0 ROps) (c1 ROps) (cadd ROps) (cmul ROps) (csub ROps) (cdiv ROps) (copp ROps) (cinv ROps)
        (ci ROps) (cofZ ROps) (cpi ROps) (csqrt ROps) (cexp ROps) (cre ROps)
        rnd (ctrunc ROps) (cltb ROps).

(* no law mentions cround: every field of the bundle is the one of ROps *)
Theorem ROpsR_laws (rnd : CC -> CC) : Laws (ROpsR rnd).
Proof. destruct ROps_laws. constructor; assumption. Qed.

Lemma ROpsR_id : ROpsR (fun z => z) = ROps.
Proof. reflexivity. Qed.

(* ------------------------------------------------------------------------------------------ *)
(* 2. real sums and moduli                                                                      *)

Definition Rsum (l : list R) : R := fold_right Rplus 0 l.

Lemma Rsum_scale {A} (c : R) (f : A -> R) l : Rsum (map (fun x => c * f x) l) = c * Rsum (map f l).
Proof. induction l as [|x l IH]; cbn [map Rsum fold_right]; [ring|]. fold (Rsum (map (fun x => c * f x) l)). rewrite IH. unfold Rsum. ring. Qed.

Lemma Rsum_scale_r {A} (c : R) (f : A -> R) l : Rsum (map (fun x => f x * c) l) = Rsum (map f l) * c.
Proof. induction l as [|x l IH]; cbn [map Rsum fold_right]; [ring|]. fold (Rsum (map (fun x => f x * c) l)). rewrite IH. unfold Rsum. ring. Qed.

Lemma Rsum_le {A} (f h : A -> R) l : (forall x, In x l -> f x <= h x) -> Rsum (map f l) <= Rsum (map h l).
Proof.
  induction l as [|x l IH]; intros H; cbn [map Rsum fold_right]; [lra|].
  apply Rplus_le_compat; [apply H; left; reflexivity|apply IH; intros y Hy; apply H; right; exact Hy].
Qed.

Lemma Rsum_nonneg {A} (f : A -> R) l : (forall x, 0 <= f x) -> 0 <= Rsum (map f l).
Proof.
  intros H. induction l as [|x l IH]; cbn [map Rsum fold_right]; [lra|].
  apply Rplus_le_le_0_compat; [apply H|exact IH].
Qed.

Lemma Rsum_ext {A} (f h : A -> R) l : (forall x, In x l -> f x = h x) -> Rsum (map f l) = Rsum (map h l).
Proof.
  induction l as [|x l IH]; intros H; cbn [map Rsum fold_right]; [reflexivity|].
  f_equal; [apply H; left; reflexivity|apply IH; intros y Hy; apply H; right; exact Hy].
Qed.

Lemma Cmod_Cre_le (z : CC) : Cmod (Cre z) <= Cmod z.
Proof.
  unfold Cre. rewrite Cmod_R. eapply Rle_trans; [apply Rmax_l|apply Rmax_Cmod].
Qed.

Lemma Cre_minus (x y : CC) : Cminus (Cre x) (Cre y) = Cre (Cminus x y).
Proof. unfold Cre, Cminus, Cplus, Copp, RtoC. cbn [fst snd]. f_equal; ring. Qed.

Lemma Cmod_Cexp' (z : CC) : Cmod (Cexp z) = exp (fst z).
Proof.
  unfold Cmod, Cexp. cbn [fst snd].
  replace ((exp (fst z) * cos (snd z)) ^ 2 + (exp (fst z) * sin (snd z)) ^ 2)
    with (Rsqr (exp (fst z)) * (Rsqr (sin (snd z)) + Rsqr (cos (snd z)))) by (unfold Rsqr; ring).
  rewrite sin2_cos2, Rmult_1_r. apply sqrt_Rsqr. left. apply exp_pos.
Qed.

Lemma Cmod_cis_real (x : CC) : snd x = 0 -> Cmod (Cexp (Cmult Ci x)) = 1.
Proof.
  intros Hx. rewrite Cmod_Cexp'. unfold Cmult, Ci. cbn [fst snd]. rewrite Hx.
  replace (0 * fst x - 1 * 0) with 0 by ring. apply exp_0.
Qed.

Lemma Cminus_eq_0 (x y : CC) : Cmod (Cminus x y) <= 0 -> x = y.
Proof.
  intros H. assert (E : Cminus x y = RtoC 0).
  { apply Cmod_eq_0. pose proof (Cmod_ge_0 (Cminus x y)). lra. }
  replace x with (Cplus (Cminus x y) y) by ring. rewrite E. ring.
Qed.

Lemma Cminus_plus4 (a b c d : CC) : Cminus (Cplus a b) (Cplus c d) = Cplus (Cminus a c) (Cminus b d).
Proof. ring. Qed.
Lemma Cminus_diag (a : CC) : Cminus a a = RtoC 0.
Proof. ring. Qed.

Section Single.
Variable rnd : CC -> CC.
Variable eps : R.
Hypothesis Heps : 0 <= eps.
Hypothesis Hrnd : forall x, Cmod (Cminus (rnd x) x) <= eps * Cmod x.

Let O := ROpsR rnd.
Let LO : Laws O := ROpsR_laws rnd.
Notation dbl a := (with_single O a false).
Notation sgl a := (with_single O a true).

Lemma Cmod_rnd_le x : Cmod (rnd x) <= (1 + eps) * Cmod x.
Proof using Hrnd.
  replace (rnd x) with (Cplus (Cminus (rnd x) x) x) by ring.
  eapply Rle_trans; [apply Cmod_triangle|]. pose proof (Hrnd x). lra.
Qed.

Lemma csum_cons_C (x : CC) l : csum O (x :: l) = Cplus x (csum O l).
Proof using. reflexivity. Qed.

Lemma Cmod_csum_diff {A} (f h : A -> CC) (b : A -> R) l :
  (forall x, In x l -> Cmod (Cminus (f x) (h x)) <= b x) ->
  Cmod (Cminus (csum O (map f l)) (csum O (map h l))) <= Rsum (map b l).
Proof using.
  induction l as [|x l IH]; intros H; cbn [map].
  - change (csum O []) with (RtoC 0). rewrite Cminus_diag, Cmod_0. cbn. lra.
  - rewrite !csum_cons_C. cbn [Rsum fold_right].
    rewrite Cminus_plus4.
    eapply Rle_trans; [apply Cmod_triangle|].
    apply Rplus_le_compat; [apply H; left; reflexivity|apply IH; intros y Hy; apply H; right; exact Hy].
Qed.

(* the DFT phase is real, so its cis has modulus one *)
Lemma phase_real g kx ky i j : snd (phase O g kx ky i j) = 0.
Proof using.
  unfold phase, twopi, two. 
  change (snd (Cmult (Cmult (RtoC (IZR 2)) (RtoC PI))
     (Cplus (Cdiv (RtoC (IZR (ky * Z.of_nat j))) (RtoC (IZR (Z.of_nat (g_nye O g)))))
            (Cdiv (RtoC (IZR (kx * Z.of_nat i))) (RtoC (IZR (Z.of_nat (g_nxe O g))))))) = 0).
  unfold Cdiv, Cinv, Cmult, Cplus, RtoC. cbn [fst snd]. unfold Rdiv. ring.
Qed.

Lemma Cmod_cis_phase g kx ky i j (b : bool) :
  Cmod (cis O (if b then copp O (phase O g kx ky i j) else phase O g kx ky i j)) = 1.
Proof using.
  unfold cis. change (cexp O (cmul O (ci O) ?x)) with (Cexp (Cmult Ci x)).
  apply Cmod_cis_real. destruct b; [|apply phase_real].
  change (copp O ?x) with (Copp x). unfold Copp. cbn [snd]. rewrite phase_real. ring.
Qed.

(* ------------------------------------------------------------------------------------------ *)
(* 3. the single-storage spectrum is the rounded double-storage spectrum                        *)

Lemma wf_single a b : wf O a -> wf O (with_single O a b).
Proof using. intros H. destruct H. constructor; assumption. Qed.

Lemma level_lt a g k : geometry O a = inl g -> (k < length (a_levels O a))%nat ->
  (nth k (a_levels O a) 0%nat < length (a_z O a))%nat.
Proof using.
  intros Hg Hk. destruct (geometry_inv O LO a g Hg) as (_ & _ & Hnz & _ & _ & _ & _ & Hlv).
  rewrite <- Hnz. apply Hlv. apply nth_In. exact Hk.
Qed.

(* a retained non-mean mode: Q is rounded once; P once (numerical) or twice (analytic) *)
Lemma mode_single a g tx ty qh k :
  wf O a -> geometry O a = inl g -> (k < length (a_levels O a))%nat ->
  let eS := nth k (mode_levels_q O (sgl a) g tx ty qh) (c0 O, c0 O) in
  let eD := nth k (mode_levels_q O (dbl a) g tx ty qh) (c0 O, c0 O) in
  snd eS = rnd (snd eD) /\
  (a_analytic O a = false -> fst eS = rnd (fst eD)) /\
  (a_analytic O a = true ->
     fst eS = rnd (Cdiv (Cmult (rnd (snd eD)) (Cdiv (RtoC 1) (m_KzN O a g))) (m_eig O a g tx ty)) /\
     fst eD = Cdiv (Cmult (snd eD) (Cdiv (RtoC 1) (m_KzN O a g))) (m_eig O a g tx ty)).
Proof using.
  intros Hwf Hg Hk. cbv zeta.
  pose proof (level_lt a g k Hg Hk) as Hl.
  destruct (a_analytic O a) eqn:Han.
  - rewrite (mode_levels_q_ana O LO (sgl a) g tx ty qh k Han Hk),
            (mode_levels_q_ana O LO (dbl a) g tx ty qh k Han Hk).
    cbv zeta. cbn [fst snd]. split; [reflexivity|]. split; [discriminate|]. intros _. split; reflexivity.
  - assert (Hle : (nth k (a_levels O a) 0%nat <= length (m_layers O a))%nat)
      by (rewrite (wf_layers O LO a Hwf); lia).
    rewrite (mode_levels_q_num O LO (sgl a) g tx ty qh k Han Hk Hle),
            (mode_levels_q_num O LO (dbl a) g tx ty qh k Han Hk Hle).
    cbv zeta. cbn [fst snd]. split; [reflexivity|]. split; [reflexivity|discriminate].
Qed.

(* the mean mode: both components rounded once, in both branches *)
Lemma mean_single a g q00 p000 k :
  wf O a -> geometry O a = inl g -> (k < length (a_levels O a))%nat ->
  let eS := nth k (mean_levels_q O (sgl a) g q00 p000) (c0 O, c0 O) in
  let eD := nth k (mean_levels_q O (dbl a) g q00 p000) (c0 O, c0 O) in
  snd eS = rnd (snd eD) /\ fst eS = rnd (fst eD).
Proof using.
  intros Hwf Hg Hk. cbv zeta.
  pose proof (level_lt a g k Hg Hk) as Hl.
  destruct (a_analytic O a) eqn:Han.
  - rewrite (mean_levels_q_ana O LO (sgl a) g q00 p000 k Han Hk),
            (mean_levels_q_ana O LO (dbl a) g q00 p000 k Han Hk).
    cbv zeta. cbn [fst snd]. split; reflexivity.
  - assert (Hle : (nth k (a_levels O a) 0%nat
                   <= Nat.min (length (diffs O (a_z O a))) (pred (length (p_Kz O (a_prof O a)))))%nat)
      by (rewrite (diffs_length O LO), (wf_Kz O a Hwf); lia).
    rewrite (mean_levels_q_num O LO (sgl a) g q00 p000 k Han Hk Hle),
            (mean_levels_q_num O LO (dbl a) g q00 p000 k Han Hk Hle).
    cbn [fst snd]. split; reflexivity.
Qed.

(* slot k of retained mode t *)
Definition ent (a : args O) (g : geom O) (t : nat * nat) (k : nat) : CC * CC :=
  nth k (spectrum O a g (fst t) (snd t)) (c0 O, c0 O).

(* for double storage the entry is the exact amplitude: source amplitude times transfer *)
Lemma ent_dbl_amp a g t k :
  wf O a -> geometry O a = inl g -> (k < length (a_levels O a))%nat ->
  ent (dbl a) g t k = amp O (dbl a) g t k.
Proof using.
  intros Hwf Hg Hk. unfold ent.
  exact (spectrum_amp O LO (dbl a) g t k (wf_single a false Hwf) Hg eq_refl Hk).
Qed.

Theorem spectrum_single_entries a g t k :
  wf O a -> geometry O a = inl g -> (k < length (a_levels O a))%nat ->
  snd (ent (sgl a) g t k) = rnd (snd (ent (dbl a) g t k)) /\
  (a_analytic O a = false \/ t = (0%nat, 0%nat) ->
     fst (ent (sgl a) g t k) = rnd (fst (ent (dbl a) g t k))) /\
  (a_analytic O a = true -> t <> (0%nat, 0%nat) ->
     fst (ent (sgl a) g t k)
       = rnd (Cdiv (Cmult (rnd (snd (ent (dbl a) g t k))) (Cdiv (RtoC 1) (m_KzN O a g)))
                   (m_eig O a g (fst t) (snd t))) /\
     fst (ent (dbl a) g t k)
       = Cdiv (Cmult (snd (ent (dbl a) g t k)) (Cdiv (RtoC 1) (m_KzN O a g))) (m_eig O a g (fst t) (snd t))).
Proof using.
  intros Hwf Hg Hk. destruct t as [tx ty]. unfold ent, spectrum, mode_levels, mean_levels. cbn [fst snd].
  change (q0_hat O (sgl a) g) with (q0_hat O (dbl a) g).
  change (a_p000 O (sgl a)) with (a_p000 O (dbl a)).
  destruct tx as [|tx]; destruct ty as [|ty].
  - destruct (mean_single a g (q0_hat O (dbl a) g 0%nat 0%nat) (a_p000 O (dbl a)) k Hwf Hg Hk) as [Hq Hp].
    split; [exact Hq|]. split; [intros _; exact Hp|]. intros _ Hne. exfalso. apply Hne. reflexivity.
  - destruct (mode_single a g 0%nat (S ty) (q0_hat O (dbl a) g 0%nat (S ty)) k Hwf Hg Hk) as (Hq & Hp & Hpa).
    split; [exact Hq|]. split; [|intros Han _; exact (Hpa Han)].
    intros [Han|E]; [exact (Hp Han)|discriminate].
  - destruct (mode_single a g (S tx) 0%nat (q0_hat O (dbl a) g (S tx) 0%nat) k Hwf Hg Hk) as (Hq & Hp & Hpa).
    split; [exact Hq|]. split; [|intros Han _; exact (Hpa Han)].
    intros [Han|E]; [exact (Hp Han)|discriminate].
  - destruct (mode_single a g (S tx) (S ty) (q0_hat O (dbl a) g (S tx) (S ty)) k Hwf Hg Hk) as (Hq & Hp & Hpa).
    split; [exact Hq|]. split; [|intros Han _; exact (Hpa Han)].
    intros [Han|E]; [exact (Hp Han)|discriminate].
Qed.

(* relative error of the concentration amplitude: two nested roundings in the analytic branch *)
Definition epsP (a : args O) : R := if a_analytic O a then eps * (2 + eps) else eps.

Lemma eps_le_epsP a : eps <= epsP a.
Proof using Heps. unfold epsP. destruct (a_analytic O a); [nra|lra]. Qed.

Lemma epsP_nonneg a : 0 <= epsP a.
Proof using Heps. pose proof (eps_le_epsP a). lra. Qed.

Lemma double_round (E k e : CC) :
  Cmod (Cminus (rnd (Cdiv (Cmult (rnd E) k) e)) (Cdiv (Cmult E k) e))
  <= eps * (2 + eps) * Cmod (Cdiv (Cmult E k) e).
Proof using Heps Hrnd.
  set (c := Cmult k (Cinv e)).
  assert (H1 : forall X : CC, Cdiv (Cmult X k) e = Cmult X c) by (intros X; unfold c, Cdiv; ring).
  rewrite !H1.
  replace (Cminus (rnd (Cmult (rnd E) c)) (Cmult E c))
    with (Cplus (Cminus (rnd (Cmult (rnd E) c)) (Cmult (rnd E) c)) (Cmult (Cminus (rnd E) E) c)) by ring.
  eapply Rle_trans; [apply Cmod_triangle|].
  pose proof (Hrnd (Cmult (rnd E) c)) as HA. pose proof (Hrnd E) as HB. pose proof (Cmod_rnd_le E) as HC.
  rewrite !Cmod_mult in *.
  pose proof (Cmod_ge_0 E) as Hm. pose proof (Cmod_ge_0 c) as Hn. pose proof (Cmod_ge_0 (rnd E)) as Hr.
  set (m := Cmod E) in *. set (n := Cmod c) in *. set (r := Cmod (rnd E)) in *.
  set (A := Cmod (Cminus (rnd (Cmult (rnd E) c)) (Cmult (rnd E) c))) in *.
  set (B := Cmod (Cminus (rnd E) E)) in *.
  assert (H2 : eps * (r * n) <= eps * ((1 + eps) * m * n)).
  { apply Rmult_le_compat_l; [exact Heps|]. apply Rmult_le_compat_r; [exact Hn|exact HC]. }
  assert (H3 : B * n <= eps * m * n) by (apply Rmult_le_compat_r; [exact Hn|exact HB]).
  lra.
Qed.

Lemma double_round' (x y E k e : CC) :
  x = rnd (Cdiv (Cmult (rnd E) k) e) -> y = Cdiv (Cmult E k) e ->
  Cmod (Cminus x y) <= eps * (2 + eps) * Cmod y.
Proof using Heps Hrnd. intros -> ->. apply double_round. Qed.

Theorem spectrum_single_bound a g t k :
  wf O a -> geometry O a = inl g -> (k < length (a_levels O a))%nat ->
  Cmod (Cminus (snd (ent (sgl a) g t k)) (snd (amp O (dbl a) g t k))) <= eps * Cmod (snd (amp O (dbl a) g t k)) /\
  Cmod (Cminus (fst (ent (sgl a) g t k)) (fst (amp O (dbl a) g t k))) <= epsP a * Cmod (fst (amp O (dbl a) g t k)).
Proof using Heps Hrnd.
  intros Hwf Hg Hk. rewrite <- (ent_dbl_amp a g t k Hwf Hg Hk).
  destruct (spectrum_single_entries a g t k Hwf Hg Hk) as (Hq & Hp & Hpa).
  split; [rewrite Hq; apply Hrnd|].
  assert (Hone : fst (ent (sgl a) g t k) = rnd (fst (ent (dbl a) g t k)) ->
           Cmod (Cminus (fst (ent (sgl a) g t k)) (fst (ent (dbl a) g t k))) <= epsP a * Cmod (fst (ent (dbl a) g t k))).
  { intros E. rewrite E. eapply Rle_trans; [apply Hrnd|].
    apply Rmult_le_compat_r; [apply Cmod_ge_0|apply eps_le_epsP]. }
  destruct (Bool.bool_dec (a_analytic O a) true) as [Han|Han].
  - destruct t as [[|tx] [|ty]]; try (apply Hone; apply Hp; right; reflexivity);
      (destruct (Hpa Han ltac:(discriminate)) as [ES ED];
       unfold epsP; rewrite Han; exact (double_round' _ _ _ _ _ ES ED)).
  - apply Hone. apply Hp. left. apply not_true_is_false. exact Han.
Qed.

(* ------------------------------------------------------------------------------------------ *)
(* 4. every output cell: single-storage solve versus double-storage solve                       *)

(* sum over the retained modes of |exact amplitude| * |shift factor| *)
Definition Smodes (a : args O) (g : geom O) (sel : CC * CC -> CC) (k : nat) : R :=
  Rsum (map (fun t => Cmod (sel (amp O (dbl a) g t k)) * Cmod (shift O (dbl a) g (fst t) (snd t)))
            (modes_of O g)).

Lemma Smodes_nonneg a g sel k : 0 <= Smodes a g sel k.
Proof using.
  unfold Smodes. apply Rsum_nonneg. intros t. apply Rmult_le_pos; apply Cmod_ge_0.
Qed.

Lemma term_diff_bound (x y s c : CC) (e : R) :
  Cmod c = 1 -> Cmod (Cminus x y) <= e * Cmod y ->
  Cmod (Cminus (Cmult (Cmult x s) c) (Cmult (Cmult y s) c)) <= e * (Cmod y * Cmod s).
Proof using.
  intros Hc Hxy.
  replace (Cminus (Cmult (Cmult x s) c) (Cmult (Cmult y s) c)) with (Cmult (Cmult (Cminus x y) s) c) by ring.
  rewrite !Cmod_mult, Hc, Rmult_1_r.
  replace (e * (Cmod y * Cmod s)) with (e * Cmod y * Cmod s) by ring.
  apply Rmult_le_compat_r; [apply Cmod_ge_0|exact Hxy].
Qed.

Lemma cell_bound_gen (sel : CC * CC -> CC) (e : R) a g k j i :
  (forall (pq : CC * CC) (s : CC), sel (Cmult (fst pq) s, Cmult (snd pq) s) = Cmult (sel pq) s) ->
  (forall t, Cmod (Cminus (sel (ent (sgl a) g t k)) (sel (amp O (dbl a) g t k)))
             <= e * Cmod (sel (amp O (dbl a) g t k))) ->
  wf O a -> geometry O a = inl g ->
  (k < length (a_levels O a))%nat -> (j < g_ny O g)%nat -> (i < g_nx O g)%nat ->
  Cmod (Cminus (get3 O (field O (sgl a) g sel (table O (sgl a) g)) k j i)
               (get3 O (field O (dbl a) g sel (table O (dbl a) g)) k j i))
  <= e * Smodes a g sel k.
Proof using.
  intros Hsel Herr Hwf Hg Hk Hj Hi.
  rewrite (field_get O LO (sgl a) g sel _ k j i Hk Hj Hi), (field_get O LO (dbl a) g sel _ k j i Hk Hj Hi).
  rewrite (synth_table O LO (sgl a) g sel k _ _ Hsel Hk), (synth_table O LO (dbl a) g sel k _ _ Hsel Hk).
  change (cre O ?x) with (Cre x). rewrite Cre_minus. eapply Rle_trans; [apply Cmod_Cre_le|].
  unfold Smodes. rewrite <- Rsum_scale.
  apply Cmod_csum_diff. intros t _. unfold term.
  rewrite (spectrum_amp O LO (dbl a) g t k (wf_single a false Hwf) Hg eq_refl Hk).
  apply (term_diff_bound (sel (ent (sgl a) g t k)) (sel (amp O (dbl a) g t k))
           (shift O (dbl a) g (fst t) (snd t))).
  - apply (Cmod_cis_phase g _ _ _ _ (a_footprint O a)).
  - apply Herr.
Qed.

Theorem field_single_cells a g k j i :
  wf O a -> geometry O a = inl g ->
  (k < length (a_levels O a))%nat -> (j < g_ny O g)%nat -> (i < g_nx O g)%nat ->
  Cmod (Cminus (get3 O (field O (sgl a) g snd (table O (sgl a) g)) k j i)
               (get3 O (field O (dbl a) g snd (table O (dbl a) g)) k j i))
  <= eps * Smodes a g snd k
  /\
  Cmod (Cminus (get3 O (field O (sgl a) g fst (table O (sgl a) g)) k j i)
               (get3 O (field O (dbl a) g fst (table O (dbl a) g)) k j i))
  <= epsP a * Smodes a g fst k.
Proof using Heps Hrnd.
  intros Hwf Hg Hk Hj Hi. split.
  - apply cell_bound_gen; try assumption; [reflexivity|].
    intros t. apply (spectrum_single_bound a g t k Hwf Hg Hk).
  - apply cell_bound_gen; try assumption; [reflexivity|].
    intros t. apply (spectrum_single_bound a g t k Hwf Hg Hk).
Qed.

(* ------------------------------------------------------------------------------------------ *)
(* 5. C02 (reciprocity) for single storage                                                      *)

Lemma tri_eq (x x' y y' : CC) : x' = y' ->
  Cmod (Cminus x y) <= Cmod (Cminus x x') + Cmod (Cminus y y').
Proof using.
  intros E. replace (Cminus x y) with (Cplus (Cminus x x') (Copp (Cminus y y'))) by (rewrite E; ring).
  eapply Rle_trans; [apply Cmod_triangle|]. rewrite Cmod_opp. lra.
Qed.

Lemma tri_eq_off (x x' c c' r : CC) : x' = Cminus c' r ->
  Cmod (Cminus x (Cminus c r)) <= Cmod (Cminus x x') + Cmod (Cminus c c').
Proof using.
  intros E. eapply Rle_trans; [apply (tri_eq x x' (Cminus c r) (Cminus c' r) E)|].
  replace (Cminus (Cminus c r) (Cminus c' r)) with (Cminus c c') by ring. lra.
Qed.

(* sum of the moduli of the surface-flux cells *)
Definition Qabs (q : list (list CC)) (g : geom O) : R :=
  Rsum (map (fun j => Rsum (map (fun i => Cmod (cellq O q j i)) (seq 0 (g_nx O g)))) (seq 0 (g_ny O g))).

Lemma weighted_sum_bound (q F G : nat -> nat -> CC) (d : R) (nx ny : nat) :
  (forall j i, (j < ny)%nat -> (i < nx)%nat -> Cmod (Cminus (F j i) (G j i)) <= d) ->
  Cmod (Cminus (csum O (map (fun j => csum O (map (fun i => Cmult (q j i) (F j i)) (seq 0 nx))) (seq 0 ny)))
               (csum O (map (fun j => csum O (map (fun i => Cmult (q j i) (G j i)) (seq 0 nx))) (seq 0 ny))))
  <= Rsum (map (fun j => Rsum (map (fun i => Cmod (q j i)) (seq 0 nx))) (seq 0 ny)) * d.
Proof using.
  intros H. rewrite <- Rsum_scale_r.
  apply Cmod_csum_diff. intros j Hj. apply in_seq in Hj. rewrite <- Rsum_scale_r.
  apply Cmod_csum_diff. intros i Hi. apply in_seq in Hi.
  replace (Cminus (Cmult (q j i) (F j i)) (Cmult (q j i) (G j i))) with (Cmult (q j i) (Cminus (F j i) (G j i))) by ring.
  rewrite Cmod_mult. apply Rmult_le_compat_l; [apply Cmod_ge_0|]. apply H; lia.
Qed.

(* the bound: (sum |q|) * S(footprint run) + S(forward run); S = sum over the retained modes of
   |exact amplitude| * |shift|, the exact amplitudes being those of the DOUBLE-storage runs *)
Definition Brecip (a : args O) (g : geom O) (im jm : nat) (p : CC) (sel : CC * CC -> CC) (k : nat) : R :=
  Qabs (a_q0 O a) g
  * Smodes (fp_req O a (cmul O (cofZ O (Z.of_nat im)) (g_dx O g)) (cmul O (cofZ O (Z.of_nat jm)) (g_dy O g))) g sel k
  + Smodes (fw_req O a p) g sel k.

Lemma reciprocity_sgl a g im jm p k :
  wf O a ->
  (forall j i, cre O (cellq O (a_q0 O a) j i) = cellq O (a_q0 O a) j i) ->
  geometry O (fp_req O a (cmul O (cofZ O (Z.of_nat im)) (g_dx O g)) (cmul O (cofZ O (Z.of_nat jm)) (g_dy O g))) = inl g ->
  g_dx O g <> c0 O -> g_dy O g <> c0 O -> g_nxe O g <> 0%nat -> g_nye O g <> 0%nat ->
  (0 < g_nlx O g)%nat -> (0 < g_nly O g)%nat -> (im < g_nx O g)%nat -> (jm < g_ny O g)%nat ->
  (k < length (a_levels O a))%nat ->
  let afp := fp_req O (sgl a) (cmul O (cofZ O (Z.of_nat im)) (g_dx O g)) (cmul O (cofZ O (Z.of_nat jm)) (g_dy O g)) in
  let afw := fw_req O (sgl a) p in
  Cmod (Cminus
    (csum O (map (fun j => csum O (map (fun i =>
        Cmult (cellq O (a_q0 O a) j i) (get3 O (field O afp g snd (table O afp g)) k j i))
      (seq 0 (g_nx O g)))) (seq 0 (g_ny O g))))
    (get3 O (field O afw g snd (table O afw g)) k jm im))
  <= eps * Brecip a g im jm p snd k
  /\
  Cmod (Cminus
    (csum O (map (fun j => csum O (map (fun i =>
        Cmult (cellq O (a_q0 O a) j i) (get3 O (field O afp g fst (table O afp g)) k j i))
      (seq 0 (g_nx O g)))) (seq 0 (g_ny O g))))
    (Cminus (get3 O (field O afw g fst (table O afw g)) k jm im) (Cre p)))
  <= epsP a * Brecip a g im jm p fst k.
Proof using Heps Hrnd.
  intros Hwf Hreal Hgfp Hdx Hdy Hnxe Hnye Hlx Hly Him Hjm Hk afp afw.
  set (xm := cmul O (cofZ O (Z.of_nat im)) (g_dx O g)) in *.
  set (ym := cmul O (cofZ O (Z.of_nat jm)) (g_dy O g)) in *.
  set (a1 := fp_req O a xm ym). set (a2 := fw_req O a p).
  assert (Hwf1 : wf O a1) by (destruct Hwf; constructor; assumption).
  assert (Hwf2 : wf O a2) by (destruct Hwf; constructor; assumption).
  assert (Hg2 : geometry O a2 = inl g) by (rewrite <- Hgfp; apply (geometry_shape_only O LO); reflexivity).
  destruct (reciprocity O LO (dbl a) g im jm p (wf_single a false Hwf) eq_refl Hreal Hgfp
              Hdx Hdy Hnxe Hnye Hlx Hly Him Hjm k Hk) as [Eflx Econ].
  assert (Hfp : forall j i, (j < g_ny O g)%nat -> (i < g_nx O g)%nat ->
     Cmod (Cminus (get3 O (field O (sgl a1) g snd (table O (sgl a1) g)) k j i)
                  (get3 O (field O (dbl a1) g snd (table O (dbl a1) g)) k j i)) <= eps * Smodes a1 g snd k /\
     Cmod (Cminus (get3 O (field O (sgl a1) g fst (table O (sgl a1) g)) k j i)
                  (get3 O (field O (dbl a1) g fst (table O (dbl a1) g)) k j i)) <= epsP a * Smodes a1 g fst k).
  { intros j i Hj Hi. exact (field_single_cells a1 g k j i Hwf1 Hgfp Hk Hj Hi). }
  destruct (field_single_cells a2 g k jm im Hwf2 Hg2 Hk Hjm Him) as [Hfw_flx Hfw_con].
  unfold Brecip. fold xm ym a1 a2. split.
  - eapply Rle_trans; [apply (tri_eq _ _ _ _ Eflx)|].
    eapply Rle_trans; [apply Rplus_le_compat; [apply (weighted_sum_bound _ _ _ (eps * Smodes a1 g snd k))|apply Hfw_flx]|].
    + intros j i Hj Hi. apply (Hfp j i Hj Hi).
    + unfold Qabs. lra.
  - eapply Rle_trans; [apply (tri_eq_off _ _ _ _ _ Econ)|].
    eapply Rle_trans; [apply Rplus_le_compat; [apply (weighted_sum_bound _ _ _ (epsP a * Smodes a1 g fst k))|apply Hfw_con]|].
    + intros j i Hj Hi. apply (Hfp j i Hj Hi).
    + unfold Qabs. change (epsP a2) with (epsP a). lra.
Qed.

(* ------------------------------------------------------------------------------------------ *)
(* 5b. C02 for single storage, mode-wise (sharper): exchange the sums first                     *)

(* unnormalised forward transform of the source at retained mode t:
   sum_{j,i} q[j][i] cis(-phase_t(i+px, j+py))  ( = N * src_hat of the forward run ) *)
Definition Wq (q : list (list CC)) (g : geom O) (t : nat * nat) : CC :=
  csum O (map (fun j => csum O (map (fun i =>
      cmul O (cellq O q j i)
        (cis O (copp O (phase O g (fftfreq (g_nlx O g) (fst t)) (fftfreq (g_nly O g) (snd t))
                              (i + g_px O g) (j + g_py O g)))))
    (seq 0 (g_nx O g)))) (seq 0 (g_ny O g))).

Lemma mul_rearr (q e s c : CC) : Cmult q (Cmult (Cmult e s) c) = Cmult (Cmult e s) (Cmult q c).
Proof using. ring. Qed.

(* a footprint-mode field weighted with a real source, for EITHER storage precision *)
Lemma weighted_field_modes (b : args O) g (sel : CC * CC -> CC) k :
  (forall (pq : CC * CC) (s : CC), sel (cmul O (fst pq) s, cmul O (snd pq) s) = cmul O (sel pq) s) ->
  a_footprint O b = true ->
  (forall j i, cre O (cellq O (a_q0 O b) j i) = cellq O (a_q0 O b) j i) ->
  (k < length (a_levels O b))%nat ->
  csum O (map (fun j => csum O (map (fun i =>
      cmul O (cellq O (a_q0 O b) j i) (get3 O (field O b g sel (table O b g)) k j i))
    (seq 0 (g_nx O g)))) (seq 0 (g_ny O g)))
  = cre O (csum O (map (fun t =>
      cmul O (cmul O (sel (ent b g t k)) (shift O b g (fst t) (snd t))) (Wq (a_q0 O b) g t))
      (modes_of O g))).
Proof using.
  intros Hsel Hfp Hreal Hk.
  rewrite (csum_map_ext O LO _ (fun j => cre O (csum O (map (fun i =>
      csum O (map (fun t => cmul O (cellq O (a_q0 O b) j i) (term O b g sel k (i + g_px O g) (j + g_py O g) t))
                  (modes_of O g)))
      (seq 0 (g_nx O g)))))).
  2:{ intros j Hj. apply in_seq in Hj. rewrite (cre_csum_map O LO). apply (csum_map_ext O LO).
      intros i Hi. apply in_seq in Hi.
      rewrite (field_get O LO), (synth_table O LO) by (try assumption; lia).
      rewrite <- (L_re_mul_real O LO _ _ (Hreal j i)). f_equal. rewrite (csum_map_scale O LO). reflexivity. }
  rewrite <- (cre_csum_map O LO). f_equal.
  rewrite (csum_map_ext O LO _ (fun j => csum O (map (fun t => csum O (map (fun i =>
      cmul O (cellq O (a_q0 O b) j i) (term O b g sel k (i + g_px O g) (j + g_py O g) t))
      (seq 0 (g_nx O g)))) (modes_of O g)))).
  2:{ intros j _. apply (csum_swap O LO). }
  rewrite (csum_swap O LO). apply (csum_map_ext O LO). intros t _.
  unfold Wq. rewrite <- (csum_map_scale O LO). apply (csum_map_ext O LO). intros j _.
  rewrite <- (csum_map_scale O LO). apply (csum_map_ext O LO). intros i _.
  unfold term. rewrite Hfp. apply mul_rearr.
Qed.

Lemma term3_diff_bound (x y s w : CC) (e : R) :
  Cmod (Cminus x y) <= e * Cmod y ->
  Cmod (Cminus (Cmult (Cmult x s) w) (Cmult (Cmult y s) w)) <= e * (Cmod y * Cmod s * Cmod w).
Proof using.
  intros Hxy.
  replace (Cminus (Cmult (Cmult x s) w) (Cmult (Cmult y s) w)) with (Cmult (Cmult (Cminus x y) s) w) by ring.
  rewrite !Cmod_mult.
  replace (e * (Cmod y * Cmod s * Cmod w)) with (e * Cmod y * Cmod s * Cmod w) by ring.
  apply Rmult_le_compat_r; [apply Cmod_ge_0|]. apply Rmult_le_compat_r; [apply Cmod_ge_0|exact Hxy].
Qed.

(* sum over the retained modes of |exact amplitude| * |shift| * |source transform| *)
Definition SmodesW (a : args O) (g : geom O) (sel : CC * CC -> CC) (k : nat) : R :=
  Rsum (map (fun t => Cmod (sel (amp O (dbl a) g t k)) * Cmod (shift O (dbl a) g (fst t) (snd t))
                      * Cmod (Wq (a_q0 O a) g t)) (modes_of O g)).

Lemma weighted_bound_gen (sel : CC * CC -> CC) (e : R) a g k :
  (forall (pq : CC * CC) (s : CC), sel (Cmult (fst pq) s, Cmult (snd pq) s) = Cmult (sel pq) s) ->
  (forall t, Cmod (Cminus (sel (ent (sgl a) g t k)) (sel (amp O (dbl a) g t k)))
             <= e * Cmod (sel (amp O (dbl a) g t k))) ->
  wf O a -> geometry O a = inl g -> a_footprint O a = true ->
  (forall j i, cre O (cellq O (a_q0 O a) j i) = cellq O (a_q0 O a) j i) ->
  (k < length (a_levels O a))%nat ->
  Cmod (Cminus
    (csum O (map (fun j => csum O (map (fun i =>
        Cmult (cellq O (a_q0 O a) j i) (get3 O (field O (sgl a) g sel (table O (sgl a) g)) k j i))
      (seq 0 (g_nx O g)))) (seq 0 (g_ny O g))))
    (csum O (map (fun j => csum O (map (fun i =>
        Cmult (cellq O (a_q0 O a) j i) (get3 O (field O (dbl a) g sel (table O (dbl a) g)) k j i))
      (seq 0 (g_nx O g)))) (seq 0 (g_ny O g)))))
  <= e * SmodesW a g sel k.
Proof using.
  intros Hsel Herr Hwf Hg Hfp Hreal Hk.
  assert (ES : csum O (map (fun j => csum O (map (fun i =>
        Cmult (cellq O (a_q0 O a) j i) (get3 O (field O (sgl a) g sel (table O (sgl a) g)) k j i))
      (seq 0 (g_nx O g)))) (seq 0 (g_ny O g)))
      = Cre (csum O (map (fun t => Cmult (Cmult (sel (ent (sgl a) g t k)) (shift O (dbl a) g (fst t) (snd t)))
                                       (Wq (a_q0 O a) g t)) (modes_of O g))))
    by exact (weighted_field_modes (sgl a) g sel k Hsel Hfp Hreal Hk).
  assert (ED : csum O (map (fun j => csum O (map (fun i =>
        Cmult (cellq O (a_q0 O a) j i) (get3 O (field O (dbl a) g sel (table O (dbl a) g)) k j i))
      (seq 0 (g_nx O g)))) (seq 0 (g_ny O g)))
      = Cre (csum O (map (fun t => Cmult (Cmult (sel (ent (dbl a) g t k)) (shift O (dbl a) g (fst t) (snd t)))
                                       (Wq (a_q0 O a) g t)) (modes_of O g))))
    by exact (weighted_field_modes (dbl a) g sel k Hsel Hfp Hreal Hk).
  rewrite ES, ED, Cre_minus. eapply Rle_trans; [apply Cmod_Cre_le|].
  unfold SmodesW. rewrite <- Rsum_scale.
  apply Cmod_csum_diff. intros t _.
  rewrite (ent_dbl_amp a g t k Hwf Hg Hk).
  apply term3_diff_bound. apply Herr.
Qed.

(* the mode-wise bound *)
Definition BrecipW (a : args O) (g : geom O) (im jm : nat) (p : CC) (sel : CC * CC -> CC) (k : nat) : R :=
  SmodesW (fp_req O a (cmul O (cofZ O (Z.of_nat im)) (g_dx O g)) (cmul O (cofZ O (Z.of_nat jm)) (g_dy O g))) g sel k
  + Smodes (fw_req O a p) g sel k.

Lemma reciprocity_sgl_modewise a g im jm p k :
  wf O a ->
  (forall j i, cre O (cellq O (a_q0 O a) j i) = cellq O (a_q0 O a) j i) ->
  geometry O (fp_req O a (cmul O (cofZ O (Z.of_nat im)) (g_dx O g)) (cmul O (cofZ O (Z.of_nat jm)) (g_dy O g))) = inl g ->
  g_dx O g <> c0 O -> g_dy O g <> c0 O -> g_nxe O g <> 0%nat -> g_nye O g <> 0%nat ->
  (0 < g_nlx O g)%nat -> (0 < g_nly O g)%nat -> (im < g_nx O g)%nat -> (jm < g_ny O g)%nat ->
  (k < length (a_levels O a))%nat ->
  let afp := fp_req O (sgl a) (cmul O (cofZ O (Z.of_nat im)) (g_dx O g)) (cmul O (cofZ O (Z.of_nat jm)) (g_dy O g)) in
  let afw := fw_req O (sgl a) p in
  Cmod (Cminus
    (csum O (map (fun j => csum O (map (fun i =>
        Cmult (cellq O (a_q0 O a) j i) (get3 O (field O afp g snd (table O afp g)) k j i))
      (seq 0 (g_nx O g)))) (seq 0 (g_ny O g))))
    (get3 O (field O afw g snd (table O afw g)) k jm im))
  <= eps * BrecipW a g im jm p snd k
  /\
  Cmod (Cminus
    (csum O (map (fun j => csum O (map (fun i =>
        Cmult (cellq O (a_q0 O a) j i) (get3 O (field O afp g fst (table O afp g)) k j i))
      (seq 0 (g_nx O g)))) (seq 0 (g_ny O g))))
    (Cminus (get3 O (field O afw g fst (table O afw g)) k jm im) (Cre p)))
  <= epsP a * BrecipW a g im jm p fst k.
Proof using Heps Hrnd.
  intros Hwf Hreal Hgfp Hdx Hdy Hnxe Hnye Hlx Hly Him Hjm Hk afp afw.
  set (xm := cmul O (cofZ O (Z.of_nat im)) (g_dx O g)) in *.
  set (ym := cmul O (cofZ O (Z.of_nat jm)) (g_dy O g)) in *.
  set (a1 := fp_req O a xm ym). set (a2 := fw_req O a p).
  assert (Hwf1 : wf O a1) by (destruct Hwf; constructor; assumption).
  assert (Hwf2 : wf O a2) by (destruct Hwf; constructor; assumption).
  assert (Hg2 : geometry O a2 = inl g) by (rewrite <- Hgfp; apply (geometry_shape_only O LO); reflexivity).
  destruct (reciprocity O LO (dbl a) g im jm p (wf_single a false Hwf) eq_refl Hreal Hgfp
              Hdx Hdy Hnxe Hnye Hlx Hly Him Hjm k Hk) as [Eflx Econ].
  destruct (field_single_cells a2 g k jm im Hwf2 Hg2 Hk Hjm Him) as [Hfw_flx Hfw_con].
  pose proof (weighted_bound_gen snd eps a1 g k ltac:(reflexivity)
                (fun t => proj1 (spectrum_single_bound a1 g t k Hwf1 Hgfp Hk)) Hwf1 Hgfp eq_refl Hreal Hk) as Wflx.
  pose proof (weighted_bound_gen fst (epsP a) a1 g k ltac:(reflexivity)
                (fun t => proj2 (spectrum_single_bound a1 g t k Hwf1 Hgfp Hk)) Hwf1 Hgfp eq_refl Hreal Hk) as Wcon.
  unfold BrecipW. fold xm ym a1 a2. split.
  - eapply Rle_trans; [apply (tri_eq _ _ _ _ Eflx)|].
    eapply Rle_trans; [apply Rplus_le_compat; [apply Wflx|apply Hfw_flx]|]. lra.
  - eapply Rle_trans; [apply (tri_eq_off _ _ _ _ _ Econ)|].
    eapply Rle_trans; [apply Rplus_le_compat; [apply Wcon|apply Hfw_con]|].
    change (epsP a2) with (epsP a). lra.
Qed.

(* the mode-wise bound in terms of the exact amplitudes of the FORWARD run only:
   N src_hat_t * (footprint amplitude)_t = (forward amplitude)_t, |shift| = 1 on both sides *)
Definition Afw (a : args O) (g : geom O) (p : CC) (sel : CC * CC -> CC) (k : nat) : R :=
  Rsum (map (fun t => Cmod (sel (amp O (dbl (fw_req O a p)) g t k))) (modes_of O g)).
(* the same with the background removed from the mean mode *)
Definition Afw0 (a : args O) (g : geom O) (p : CC) (k : nat) : R :=
  Rsum (map (fun t => Cmod (Cminus (fst (amp O (dbl (fw_req O a p)) g t k))
                                   (match t with (0%nat, 0%nat) => p | _ => RtoC 0 end))) (modes_of O g)).

Lemma BrecipW_forward a g im jm p k :
  wf O a ->
  (forall j i, cre O (cellq O (a_q0 O a) j i) = cellq O (a_q0 O a) j i) ->
  geometry O (fp_req O a (cmul O (cofZ O (Z.of_nat im)) (g_dx O g)) (cmul O (cofZ O (Z.of_nat jm)) (g_dy O g))) = inl g ->
  g_dx O g <> c0 O -> g_dy O g <> c0 O -> g_nxe O g <> 0%nat -> g_nye O g <> 0%nat ->
  (0 < g_nlx O g)%nat -> (0 < g_nly O g)%nat -> (im < g_nx O g)%nat -> (jm < g_ny O g)%nat ->
  (k < length (a_levels O a))%nat ->
  BrecipW a g im jm p snd k = 2 * Afw a g p snd k /\
  BrecipW a g im jm p fst k = Afw0 a g p k + Afw a g p fst k.
Proof using.
  intros Hwf Hreal Hgfp Hdx Hdy Hnxe Hnye Hlx Hly Him Hjm Hk.
  set (xm := cmul O (cofZ O (Z.of_nat im)) (g_dx O g)) in *.
  set (ym := cmul O (cofZ O (Z.of_nat jm)) (g_dy O g)) in *.
  set (a1 := fp_req O a xm ym). set (a2 := fw_req O a p).
  pose proof (wf_single a false Hwf) as HwfD.
  assert (Hfw : forall sel, Smodes a2 g sel k = Afw a g p sel k).
  { intros sel. unfold Smodes, Afw. apply Rsum_ext. intros t _.
    assert (E : shift O (dbl a2) g (fst t) (snd t) = RtoC 1)
      by exact (shift_fw O LO (dbl a) g im jm p HwfD eq_refl Hreal Hgfp Hdx Hdy Hnxe Hnye Hlx Hly Him Hjm t).
    rewrite E, Cmod_1. fold a2. ring. }
  assert (Hterm : forall t,
     Cmod (snd (amp O (dbl a1) g t k)) * Cmod (shift O (dbl a1) g (fst t) (snd t)) * Cmod (Wq (a_q0 O a1) g t)
       = Cmod (snd (amp O (dbl a2) g t k)) /\
     Cmod (fst (amp O (dbl a1) g t k)) * Cmod (shift O (dbl a1) g (fst t) (snd t)) * Cmod (Wq (a_q0 O a1) g t)
       = Cmod (Cminus (fst (amp O (dbl a2) g t k)) (match t with (0%nat, 0%nat) => p | _ => RtoC 0 end))).
  { intros t.
    set (N := Cmult (RtoC (IZR (Z.of_nat (g_nxe O g)))) (RtoC (IZR (Z.of_nat (g_nye O g))))).
    set (sh := src_hat O (dbl a2) g (fftfreq (g_nlx O g) (fst t)) (fftfreq (g_nly O g) (snd t))).
    assert (EW : Wq (a_q0 O a1) g t = Cmult N sh).
    { symmetry. exact (N_src_hat O LO (dbl a) g im jm p HwfD eq_refl Hreal Hgfp Hdx Hdy Hnxe Hnye Hlx Hly Him Hjm
                         (fftfreq (g_nlx O g) (fst t)) (fftfreq (g_nly O g) (snd t))). }
    assert (ES : Cmod (shift O (dbl a1) g (fst t) (snd t)) = 1).
    { assert (E : shift O (dbl a1) g (fst t) (snd t)
                  = cis O (phase O g (fftfreq (g_nlx O g) (fst t)) (fftfreq (g_nly O g) (snd t)) (im + g_px O g) (jm + g_py O g)))
        by exact (shift_fp_is_phase O LO (dbl a) g im jm p HwfD eq_refl Hreal Hgfp Hdx Hdy Hnxe Hnye Hlx Hly Him Hjm t).
      rewrite E. exact (Cmod_cis_phase g _ _ _ _ false). }
    destruct (amp_fp_fw O LO (dbl a) g im jm p HwfD eq_refl Hreal Hgfp Hdx Hdy Hnxe Hnye Hlx Hly Him Hjm t k Hk)
      as [Eq Ep].
    assert (Eq' : Cmult (Cmult N sh) (snd (amp O (dbl a1) g t k)) = snd (amp O (dbl a2) g t k)) by exact Eq.
    assert (Ep' : Cmult (Cmult N sh) (fst (amp O (dbl a1) g t k))
                  = Cminus (fst (amp O (dbl a2) g t k)) (match t with (0%nat, 0%nat) => p | _ => RtoC 0 end)).
    { destruct t as [[|tx] [|ty]]; exact Ep. }
    rewrite EW, ES. split.
    - rewrite <- Eq', !Cmod_mult. ring.
    - rewrite <- Ep', !Cmod_mult. ring. }
  unfold BrecipW. fold xm ym a1 a2. rewrite !Hfw. split.
  - replace (SmodesW a1 g snd k) with (Afw a g p snd k); [ring|].
    unfold SmodesW, Afw. apply Rsum_ext. intros t _. symmetry. apply (proj1 (Hterm t)).
  - replace (SmodesW a1 g fst k) with (Afw0 a g p k); [ring|].
    unfold SmodesW, Afw0. apply Rsum_ext. intros t _. symmetry. apply (proj2 (Hterm t)).
Qed.

(* ------------------------------------------------------------------------------------------ *)
(* 6. C04 (linearity) for single storage                                                        *)

Lemma lin_combine (X X' Y Y' Z Z' s1 s2 : CC) :
  X' = Cplus (Cmult s1 Y') (Cmult s2 Z') ->
  Cmod (Cminus X (Cplus (Cmult s1 Y) (Cmult s2 Z)))
  <= Cmod (Cminus X X') + Cmod s1 * Cmod (Cminus Y Y') + Cmod s2 * Cmod (Cminus Z Z').
Proof using.
  intros E.
  replace (Cminus X (Cplus (Cmult s1 Y) (Cmult s2 Z)))
    with (Cplus (Cplus (Cminus X X') (Copp (Cmult s1 (Cminus Y Y')))) (Copp (Cmult s2 (Cminus Z Z'))))
    by (rewrite E; ring).
  eapply Rle_trans; [apply Cmod_triangle|]. apply Rplus_le_compat.
  - eapply Rle_trans; [apply Cmod_triangle|]. rewrite Cmod_opp, Cmod_mult. lra.
  - rewrite Cmod_opp, Cmod_mult. lra.
Qed.

(* the bound: S(combined run) + |s1| S(run 1) + |s2| S(run 2), S over the DOUBLE-storage amplitudes *)
Definition Blin (a : args O) (g : geom O) (q1 q2 q : list (list CC)) (p1 p2 p s1 s2 : CC)
           (sel : CC * CC -> CC) (k : nat) : R :=
  Smodes (with_src O a q p) g sel k
  + Cmod s1 * Smodes (with_src O a q1 p1) g sel k
  + Cmod s2 * Smodes (with_src O a q2 p2) g sel k.

Lemma linearity_sgl a q1 q2 q p1 p2 p s1 s2 g k j i :
  wf O (with_src O a q1 p1) -> wf O (with_src O a q2 p2) -> wf O (with_src O a q p) ->
  same_shape O q q1 -> same_shape O q q2 ->
  a_footprint O a = false ->
  cre O s1 = s1 -> cre O s2 = s2 ->
  (forall j i, (j < length q)%nat -> (i < length (hd [] q))%nat ->
     cellq O q j i = Cplus (Cmult s1 (cellq O q1 j i)) (Cmult s2 (cellq O q2 j i))) ->
  p = Cplus (Cmult s1 p1) (Cmult s2 p2) ->
  geometry O (with_src O a q p) = inl g ->
  (k < length (a_levels O a))%nat -> (j < g_ny O g)%nat -> (i < g_nx O g)%nat ->
  let cell := fun (sel : CC * CC -> CC) (q : list (list CC)) (p : CC) =>
    get3 O (field O (with_src O (sgl a) q p) g sel (table O (with_src O (sgl a) q p) g)) k j i in
  Cmod (Cminus (cell snd q p) (Cplus (Cmult s1 (cell snd q1 p1)) (Cmult s2 (cell snd q2 p2))))
  <= eps * Blin a g q1 q2 q p1 p2 p s1 s2 snd k
  /\
  Cmod (Cminus (cell fst q p) (Cplus (Cmult s1 (cell fst q1 p1)) (Cmult s2 (cell fst q2 p2))))
  <= epsP a * Blin a g q1 q2 q p1 p2 p s1 s2 fst k.
Proof using Heps Hrnd.
  intros Hwf1 Hwf2 Hwf Hsh1 Hsh2 Hd Hs1 Hs2 Hq Hp Hg Hk Hj Hi cell.
  assert (Hg1 : geometry O (with_src O a q1 p1) = inl g).
  { rewrite <- Hg. destruct Hsh1 as [A B]. apply (geometry_shape_only O LO); first [reflexivity | symmetry; exact A | symmetry; exact B]. }
  assert (Hg2 : geometry O (with_src O a q2 p2) = inl g).
  { rewrite <- Hg. destruct Hsh2 as [A B]. apply (geometry_shape_only O LO); first [reflexivity | symmetry; exact A | symmetry; exact B]. }
  set (cellD := fun (sel : CC * CC -> CC) (q : list (list CC)) (p : CC) =>
    get3 O (field O (with_src O (dbl a) q p) g sel (table O (with_src O (dbl a) q p) g)) k j i).
  assert (Hex : forall sel : CC * CC -> CC,
     (forall x y, sel (sadd O x y) = Cplus (sel x) (sel y)) ->
     (forall s x, sel (sscale O s x) = Cmult s (sel x)) ->
     (forall (pq : CC * CC) (s : CC), sel (Cmult (fst pq) s, Cmult (snd pq) s) = Cmult (sel pq) s) ->
     cellD sel q p = Cplus (Cmult s1 (cellD sel q1 p1)) (Cmult s2 (cellD sel q2 p2))).
  { intros sel Hadd Hsc Hsel.
    exact (cells_linear O LO (dbl a) q1 q2 q p1 p2 p s1 s2 g
             (wf_single _ false Hwf1) (wf_single _ false Hwf2) (wf_single _ false Hwf)
             Hsh1 Hsh2 Hd eq_refl Hs1 Hs2 Hq Hp Hg sel k j i Hadd Hsc Hsel Hk Hj Hi). }
  assert (F0 : Cmod (Cminus (cell snd q p) (cellD snd q p)) <= eps * Smodes (with_src O a q p) g snd k)
    by exact (proj1 (field_single_cells (with_src O a q p) g k j i Hwf Hg Hk Hj Hi)).
  assert (F1 : Cmod (Cminus (cell snd q1 p1) (cellD snd q1 p1)) <= eps * Smodes (with_src O a q1 p1) g snd k)
    by exact (proj1 (field_single_cells (with_src O a q1 p1) g k j i Hwf1 Hg1 Hk Hj Hi)).
  assert (F2 : Cmod (Cminus (cell snd q2 p2) (cellD snd q2 p2)) <= eps * Smodes (with_src O a q2 p2) g snd k)
    by exact (proj1 (field_single_cells (with_src O a q2 p2) g k j i Hwf2 Hg2 Hk Hj Hi)).
  assert (C0 : Cmod (Cminus (cell fst q p) (cellD fst q p)) <= epsP a * Smodes (with_src O a q p) g fst k)
    by exact (proj2 (field_single_cells (with_src O a q p) g k j i Hwf Hg Hk Hj Hi)).
  assert (C1 : Cmod (Cminus (cell fst q1 p1) (cellD fst q1 p1)) <= epsP a * Smodes (with_src O a q1 p1) g fst k)
    by exact (proj2 (field_single_cells (with_src O a q1 p1) g k j i Hwf1 Hg1 Hk Hj Hi)).
  assert (C2 : Cmod (Cminus (cell fst q2 p2) (cellD fst q2 p2)) <= epsP a * Smodes (with_src O a q2 p2) g fst k)
    by exact (proj2 (field_single_cells (with_src O a q2 p2) g k j i Hwf2 Hg2 Hk Hj Hi)).
  pose proof (Cmod_ge_0 s1) as H1. pose proof (Cmod_ge_0 s2) as H2.
  unfold Blin. split.
  - eapply Rle_trans; [apply (lin_combine (cell snd q p) (cellD snd q p) (cell snd q1 p1) (cellD snd q1 p1)
                                (cell snd q2 p2) (cellD snd q2 p2) s1 s2
                                (Hex snd ltac:(reflexivity) ltac:(reflexivity) ltac:(reflexivity)))|].
    apply (Rmult_le_compat_l _ _ _ H1) in F1. apply (Rmult_le_compat_l _ _ _ H2) in F2. lra.
  - eapply Rle_trans; [apply (lin_combine (cell fst q p) (cellD fst q p) (cell fst q1 p1) (cellD fst q1 p1)
                                (cell fst q2 p2) (cellD fst q2 p2) s1 s2
                                (Hex fst ltac:(reflexivity) ltac:(reflexivity) ltac:(reflexivity)))|].
    apply (Rmult_le_compat_l _ _ _ H1) in C1. apply (Rmult_le_compat_l _ _ _ H2) in C2. lra.
Qed.

(* ------------------------------------------------------------------------------------------ *)
(* 7. the statements for a request with a_single = true                                         *)

Lemma sgl_self a : a_single O a = true -> sgl a = a.
Proof using. intros Hs. pose proof (with_single_self O a) as E. rewrite Hs in E. exact E. Qed.

(* every spectrum entry of the single-storage run, against the double-storage run of the same
   request (whose entries are the exact amplitudes `amp`) *)
Theorem spectrum_single a g t k :
  wf O a -> a_single O a = true -> geometry O a = inl g -> (k < length (a_levels O a))%nat ->
  let eS := nth k (spectrum O a g (fst t) (snd t)) (c0 O, c0 O) in
  let eD := nth k (spectrum O (dbl a) g (fst t) (snd t)) (c0 O, c0 O) in
  eD = amp O (dbl a) g t k /\
  snd eS = rnd (snd eD) /\
  (a_analytic O a = false \/ t = (0%nat, 0%nat) -> fst eS = rnd (fst eD)) /\
  (a_analytic O a = true -> t <> (0%nat, 0%nat) ->
     fst eS = rnd (Cdiv (Cmult (rnd (snd eD)) (Cdiv (RtoC 1) (m_KzN O a g))) (m_eig O a g (fst t) (snd t)))) /\
  Cmod (Cminus (snd eS) (snd eD)) <= eps * Cmod (snd eD) /\
  Cmod (Cminus (fst eS) (fst eD)) <= epsP a * Cmod (fst eD).
Proof using Heps Hrnd.
  intros Hwf Hs Hg Hk. cbv zeta.
  pose proof (spectrum_single_entries a g t k Hwf Hg Hk) as (Hq & Hp & Hpa).
  pose proof (spectrum_single_bound a g t k Hwf Hg Hk) as [Bq Bp].
  pose proof (ent_dbl_amp a g t k Hwf Hg Hk) as Ea.
  rewrite <- Ea in Bq, Bp. unfold ent in *. rewrite (sgl_self a Hs) in *.
  split; [exact Ea|]. split; [exact Hq|]. split; [exact Hp|].
  split; [intros Han Hne; exact (proj1 (Hpa Han Hne))|]. split; [exact Bq|exact Bp].
Qed.

Theorem field_single_bound a g k j i :
  wf O a -> a_single O a = true -> geometry O a = inl g ->
  (k < length (a_levels O a))%nat -> (j < g_ny O g)%nat -> (i < g_nx O g)%nat ->
  Cmod (Cminus (get3 O (field O a g snd (table O a g)) k j i)
               (get3 O (field O (dbl a) g snd (table O (dbl a) g)) k j i))
  <= eps * Smodes a g snd k
  /\
  Cmod (Cminus (get3 O (field O a g fst (table O a g)) k j i)
               (get3 O (field O (dbl a) g fst (table O (dbl a) g)) k j i))
  <= epsP a * Smodes a g fst k.
Proof using Heps Hrnd.
  intros Hwf Hs Hg Hk Hj Hi.
  pose proof (field_single_cells a g k j i Hwf Hg Hk Hj Hi) as H.
  rewrite (sgl_self a Hs) in H. exact H.
Qed.

(* the same on the results of solve *)
Theorem solve_single_bound a rS rD g :
  wf O a -> a_single O a = true -> geometry O a = inl g ->
  solve O a = inl rS -> solve O (dbl a) = inl rD ->
  forall k j i, (k < length (a_levels O a))%nat -> (j < g_ny O g)%nat -> (i < g_nx O g)%nat ->
  Cmod (Cminus (get3 O (r_flx O rS) k j i) (get3 O (r_flx O rD) k j i)) <= eps * Smodes a g snd k /\
  Cmod (Cminus (get3 O (r_conc O rS) k j i) (get3 O (r_conc O rD) k j i)) <= epsP a * Smodes a g fst k.
Proof using Heps Hrnd.
  intros Hwf Hs Hg HrS HrD k j i Hk Hj Hi.
  destruct (solve_inv O LO _ _ HrS) as (g1 & Hg1 & Hc1 & Hf1 & _).
  destruct (solve_inv O LO _ _ HrD) as (g2 & Hg2 & Hc2 & Hf2 & _).
  rewrite Hg in Hg1. injection Hg1 as <-.
  change (geometry O (dbl a)) with (geometry O a) in Hg2. rewrite Hg in Hg2. injection Hg2 as <-.
  rewrite Hc1, Hf1, Hc2, Hf2. apply field_single_bound; assumption.
Qed.

Theorem reciprocity_single_bound a g im jm p k :
  wf O a -> a_single O a = true ->
  (forall j i, cre O (cellq O (a_q0 O a) j i) = cellq O (a_q0 O a) j i) ->
  geometry O (fp_req O a (cmul O (cofZ O (Z.of_nat im)) (g_dx O g)) (cmul O (cofZ O (Z.of_nat jm)) (g_dy O g))) = inl g ->
  g_dx O g <> c0 O -> g_dy O g <> c0 O -> g_nxe O g <> 0%nat -> g_nye O g <> 0%nat ->
  (0 < g_nlx O g)%nat -> (0 < g_nly O g)%nat -> (im < g_nx O g)%nat -> (jm < g_ny O g)%nat ->
  (k < length (a_levels O a))%nat ->
  let afp := fp_req O a (cmul O (cofZ O (Z.of_nat im)) (g_dx O g)) (cmul O (cofZ O (Z.of_nat jm)) (g_dy O g)) in
  let afw := fw_req O a p in
  Cmod (Cminus
    (csum O (map (fun j => csum O (map (fun i =>
        Cmult (cellq O (a_q0 O a) j i) (get3 O (field O afp g snd (table O afp g)) k j i))
      (seq 0 (g_nx O g)))) (seq 0 (g_ny O g))))
    (get3 O (field O afw g snd (table O afw g)) k jm im))
  <= eps * Brecip a g im jm p snd k
  /\
  Cmod (Cminus
    (csum O (map (fun j => csum O (map (fun i =>
        Cmult (cellq O (a_q0 O a) j i) (get3 O (field O afp g fst (table O afp g)) k j i))
      (seq 0 (g_nx O g)))) (seq 0 (g_ny O g))))
    (Cminus (get3 O (field O afw g fst (table O afw g)) k jm im) (Cre p)))
  <= epsP a * Brecip a g im jm p fst k.
Proof using Heps Hrnd.
  intros Hwf Hs Hreal Hgfp Hdx Hdy Hnxe Hnye Hlx Hly Him Hjm Hk.
  pose proof (reciprocity_sgl a g im jm p k Hwf Hreal Hgfp Hdx Hdy Hnxe Hnye Hlx Hly Him Hjm Hk) as H.
  rewrite (sgl_self a Hs) in H. exact H.
Qed.

(* sharper, mode-wise: 2 eps * (sum over the retained modes of the moduli of the exact forward
   amplitudes) for the flux; the concentration side has the background removed from the mean
   mode in one of the two sums *)
Theorem reciprocity_single_bound_sharp a g im jm p k :
  wf O a -> a_single O a = true ->
  (forall j i, cre O (cellq O (a_q0 O a) j i) = cellq O (a_q0 O a) j i) ->
  geometry O (fp_req O a (cmul O (cofZ O (Z.of_nat im)) (g_dx O g)) (cmul O (cofZ O (Z.of_nat jm)) (g_dy O g))) = inl g ->
  g_dx O g <> c0 O -> g_dy O g <> c0 O -> g_nxe O g <> 0%nat -> g_nye O g <> 0%nat ->
  (0 < g_nlx O g)%nat -> (0 < g_nly O g)%nat -> (im < g_nx O g)%nat -> (jm < g_ny O g)%nat ->
  (k < length (a_levels O a))%nat ->
  let afp := fp_req O a (cmul O (cofZ O (Z.of_nat im)) (g_dx O g)) (cmul O (cofZ O (Z.of_nat jm)) (g_dy O g)) in
  let afw := fw_req O a p in
  Cmod (Cminus
    (csum O (map (fun j => csum O (map (fun i =>
        Cmult (cellq O (a_q0 O a) j i) (get3 O (field O afp g snd (table O afp g)) k j i))
      (seq 0 (g_nx O g)))) (seq 0 (g_ny O g))))
    (get3 O (field O afw g snd (table O afw g)) k jm im))
  <= eps * (2 * Afw a g p snd k)
  /\
  Cmod (Cminus
    (csum O (map (fun j => csum O (map (fun i =>
        Cmult (cellq O (a_q0 O a) j i) (get3 O (field O afp g fst (table O afp g)) k j i))
      (seq 0 (g_nx O g)))) (seq 0 (g_ny O g))))
    (Cminus (get3 O (field O afw g fst (table O afw g)) k jm im) (Cre p)))
  <= epsP a * (Afw0 a g p k + Afw a g p fst k).
Proof using Heps Hrnd.
  intros Hwf Hs Hreal Hgfp Hdx Hdy Hnxe Hnye Hlx Hly Him Hjm Hk.
  pose proof (reciprocity_sgl_modewise a g im jm p k Hwf Hreal Hgfp Hdx Hdy Hnxe Hnye Hlx Hly Him Hjm Hk) as H.
  destruct (BrecipW_forward a g im jm p k Hwf Hreal Hgfp Hdx Hdy Hnxe Hnye Hlx Hly Him Hjm Hk) as [E1 E2].
  rewrite E1, E2 in H. rewrite (sgl_self a Hs) in H. exact H.
Qed.

Theorem linearity_single_cells a q1 q2 q p1 p2 p s1 s2 g k j i :
  wf O (with_src O a q1 p1) -> wf O (with_src O a q2 p2) -> wf O (with_src O a q p) ->
  same_shape O q q1 -> same_shape O q q2 ->
  a_footprint O a = false -> a_single O a = true ->
  cre O s1 = s1 -> cre O s2 = s2 ->
  (forall j i, (j < length q)%nat -> (i < length (hd [] q))%nat ->
     cellq O q j i = Cplus (Cmult s1 (cellq O q1 j i)) (Cmult s2 (cellq O q2 j i))) ->
  p = Cplus (Cmult s1 p1) (Cmult s2 p2) ->
  geometry O (with_src O a q p) = inl g ->
  (k < length (a_levels O a))%nat -> (j < g_ny O g)%nat -> (i < g_nx O g)%nat ->
  let cell := fun (sel : CC * CC -> CC) (q : list (list CC)) (p : CC) =>
    get3 O (field O (with_src O a q p) g sel (table O (with_src O a q p) g)) k j i in
  Cmod (Cminus (cell snd q p) (Cplus (Cmult s1 (cell snd q1 p1)) (Cmult s2 (cell snd q2 p2))))
  <= eps * Blin a g q1 q2 q p1 p2 p s1 s2 snd k
  /\
  Cmod (Cminus (cell fst q p) (Cplus (Cmult s1 (cell fst q1 p1)) (Cmult s2 (cell fst q2 p2))))
  <= epsP a * Blin a g q1 q2 q p1 p2 p s1 s2 fst k.
Proof using Heps Hrnd.
  intros Hwf1 Hwf2 Hwf Hsh1 Hsh2 Hd Hs Hs1 Hs2 Hq Hp Hg Hk Hj Hi.
  pose proof (linearity_sgl a q1 q2 q p1 p2 p s1 s2 g k j i Hwf1 Hwf2 Hwf Hsh1 Hsh2 Hd Hs1 Hs2 Hq Hp Hg Hk Hj Hi) as H.
  rewrite (sgl_self a Hs) in H. exact H.
Qed.

(* C04_linear with single storage, on the results of solve *)
Theorem linearity_single_bound a q1 q2 q p1 p2 p s1 s2 r r1 r2 g :
  wf O (with_src O a q1 p1) -> wf O (with_src O a q2 p2) -> wf O (with_src O a q p) ->
  same_shape O q q1 -> same_shape O q q2 ->
  a_footprint O a = false -> a_single O a = true ->
  cre O s1 = s1 -> cre O s2 = s2 ->
  (forall j i, (j < length q)%nat -> (i < length (hd [] q))%nat ->
     cellq O q j i = Cplus (Cmult s1 (cellq O q1 j i)) (Cmult s2 (cellq O q2 j i))) ->
  p = Cplus (Cmult s1 p1) (Cmult s2 p2) ->
  geometry O (with_src O a q p) = inl g ->
  solve O (with_src O a q p) = inl r ->
  solve O (with_src O a q1 p1) = inl r1 -> solve O (with_src O a q2 p2) = inl r2 ->
  forall k j i, (k < length (a_levels O a))%nat -> (j < length q)%nat -> (i < length (hd [] q))%nat ->
    Cmod (Cminus (get3 O (r_flx O r) k j i)
                 (Cplus (Cmult s1 (get3 O (r_flx O r1) k j i)) (Cmult s2 (get3 O (r_flx O r2) k j i))))
    <= eps * Blin a g q1 q2 q p1 p2 p s1 s2 snd k
    /\
    Cmod (Cminus (get3 O (r_conc O r) k j i)
                 (Cplus (Cmult s1 (get3 O (r_conc O r1) k j i)) (Cmult s2 (get3 O (r_conc O r2) k j i))))
    <= epsP a * Blin a g q1 q2 q p1 p2 p s1 s2 fst k.
Proof using Heps Hrnd.
  intros Hwf1 Hwf2 Hwf Hsh1 Hsh2 Hd Hs Hs1 Hs2 Hq Hp Hg Hr Hr1 Hr2 k j i Hk Hj Hi.
  destruct (solve_inv O LO _ _ Hr) as (g0 & Hg0 & Hc & Hf & _).
  destruct (solve_inv O LO _ _ Hr1) as (g1 & Hg1 & Hc1 & Hf1 & _).
  destruct (solve_inv O LO _ _ Hr2) as (g2 & Hg2 & Hc2 & Hf2 & _).
  assert (Hg1' : geometry O (with_src O a q1 p1) = inl g).
  { rewrite <- Hg. destruct Hsh1 as [A B]. apply (geometry_shape_only O LO); first [reflexivity | symmetry; exact A | symmetry; exact B]. }
  assert (Hg2' : geometry O (with_src O a q2 p2) = inl g).
  { rewrite <- Hg. destruct Hsh2 as [A B]. apply (geometry_shape_only O LO); first [reflexivity | symmetry; exact A | symmetry; exact B]. }
  rewrite Hg in Hg0. injection Hg0 as <-. rewrite Hg1' in Hg1. injection Hg1 as <-.
  rewrite Hg2' in Hg2. injection Hg2 as <-.
  destruct (geometry_inv O LO _ g Hg) as (Hny & Hnx & _). cbn [a_q0 with_src] in Hny, Hnx.
  rewrite Hc, Hc1, Hc2, Hf, Hf1, Hf2.
  apply (linearity_single_cells a q1 q2 q p1 p2 p s1 s2 g k j i); try assumption; lia.
Qed.

End Single.

(* ------------------------------------------------------------------------------------------ *)
(* 8. the rounding model is satisfiable by a rounding that is not the identity                  *)

Definition rnd_scale (eps : R) (x : CC) : CC := Cmult (RtoC (1 + eps / 2)) x.

Lemma rnd_scale_model (eps : R) : 0 <= eps -> forall x, Cmod (Cminus (rnd_scale eps x) x) <= eps * Cmod x.
Proof.
  intros He x. unfold rnd_scale.
  replace (Cminus (Cmult (RtoC (1 + eps / 2)) x) x) with (Cmult (RtoC (eps / 2)) x)
    by (rewrite RtoC_plus; ring).
  rewrite Cmod_mult, Cmod_R, Rabs_pos_eq by lra. pose proof (Cmod_ge_0 x). nra.
Qed.

Lemma rnd_scale_not_id (eps : R) : 0 < eps -> rnd_scale eps (RtoC 1) <> RtoC 1.
Proof.
  intros He E. unfold rnd_scale in E. rewrite <- RtoC_mult in E. apply RtoC_inj in E. lra.
Qed.

(* the model is tight for this rounding up to the factor 2: the error is exactly eps/2 |x| *)
Lemma rnd_scale_error (eps : R) : 0 <= eps -> forall x, Cmod (Cminus (rnd_scale eps x) x) = eps / 2 * Cmod x.
Proof.
  intros He x. unfold rnd_scale.
  replace (Cminus (Cmult (RtoC (1 + eps / 2)) x) x) with (Cmult (RtoC (eps / 2)) x)
    by (rewrite RtoC_plus; ring).
  rewrite Cmod_mult, Cmod_R, Rabs_pos_eq by lra. reflexivity.
Qed.

(* the three bounds instantiated with it (eps > 0): the premises of the section are met *)
Definition field_single_bound_scale (eps : R) (He : 0 < eps) :=
  field_single_bound (rnd_scale eps) eps (Rlt_le _ _ He) (rnd_scale_model eps (Rlt_le _ _ He)).
Definition reciprocity_single_bound_scale (eps : R) (He : 0 < eps) :=
  reciprocity_single_bound (rnd_scale eps) eps (Rlt_le _ _ He) (rnd_scale_model eps (Rlt_le _ _ He)).
Definition linearity_single_bound_scale (eps : R) (He : 0 < eps) :=
  linearity_single_bound (rnd_scale eps) eps (Rlt_le _ _ He) (rnd_scale_model eps (Rlt_le _ _ He)).

(* ------------------------------------------------------------------------------------------ *)
(* 9. eps = 0 gives back the exact theorems                                                     *)

Section Exact.
Variable rnd : CC -> CC.
Hypothesis Hrnd0 : forall x, Cmod (Cminus (rnd x) x) <= 0 * Cmod x.
Let O := ROpsR rnd.

Lemma rnd0_id x : rnd x = x.
Proof using Hrnd0. apply Cminus_eq_0. pose proof (Hrnd0 x). lra. Qed.

Lemma epsP_0 (a : args O) : epsP rnd 0 a = 0.
Proof using. unfold epsP. destruct (a_analytic (ROpsR rnd) a); lra. Qed.

Theorem field_single_exact (a : args O) g k j i :
  wf O a -> a_single O a = true -> geometry O a = inl g ->
  (k < length (a_levels O a))%nat -> (j < g_ny O g)%nat -> (i < g_nx O g)%nat ->
  get3 O (field O a g snd (table O a g)) k j i
  = get3 O (field O (with_single O a false) g snd (table O (with_single O a false) g)) k j i /\
  get3 O (field O a g fst (table O a g)) k j i
  = get3 O (field O (with_single O a false) g fst (table O (with_single O a false) g)) k j i.
Proof using Hrnd0.
  intros Hwf Hs Hg Hk Hj Hi.
  destruct (field_single_bound rnd 0 (Rle_refl 0) Hrnd0 a g k j i Hwf Hs Hg Hk Hj Hi) as [A B].
  rewrite epsP_0 in B. rewrite Rmult_0_l in A, B. split; apply Cminus_eq_0; assumption.
Qed.

Theorem reciprocity_single_exact (a : args O) g im jm (p : CC) k :
  wf O a -> a_single O a = true ->
  (forall j i, cre O (cellq O (a_q0 O a) j i) = cellq O (a_q0 O a) j i) ->
  geometry O (fp_req O a (cmul O (cofZ O (Z.of_nat im)) (g_dx O g)) (cmul O (cofZ O (Z.of_nat jm)) (g_dy O g))) = inl g ->
  g_dx O g <> c0 O -> g_dy O g <> c0 O -> g_nxe O g <> 0%nat -> g_nye O g <> 0%nat ->
  (0 < g_nlx O g)%nat -> (0 < g_nly O g)%nat -> (im < g_nx O g)%nat -> (jm < g_ny O g)%nat ->
  (k < length (a_levels O a))%nat ->
  let afp := fp_req O a (cmul O (cofZ O (Z.of_nat im)) (g_dx O g)) (cmul O (cofZ O (Z.of_nat jm)) (g_dy O g)) in
  let afw := fw_req O a p in
  csum O (map (fun j => csum O (map (fun i =>
      Cmult (cellq O (a_q0 O a) j i) (get3 O (field O afp g snd (table O afp g)) k j i))
    (seq 0 (g_nx O g)))) (seq 0 (g_ny O g)))
  = get3 O (field O afw g snd (table O afw g)) k jm im
  /\
  csum O (map (fun j => csum O (map (fun i =>
      Cmult (cellq O (a_q0 O a) j i) (get3 O (field O afp g fst (table O afp g)) k j i))
    (seq 0 (g_nx O g)))) (seq 0 (g_ny O g)))
  = Cminus (get3 O (field O afw g fst (table O afw g)) k jm im) (Cre p).
Proof using Hrnd0.
  intros Hwf Hs Hreal Hgfp Hdx Hdy Hnxe Hnye Hlx Hly Him Hjm Hk afp afw.
  destruct (reciprocity_single_bound rnd 0 (Rle_refl 0) Hrnd0 a g im jm p k
              Hwf Hs Hreal Hgfp Hdx Hdy Hnxe Hnye Hlx Hly Him Hjm Hk) as [A B].
  rewrite epsP_0 in B. rewrite Rmult_0_l in A, B. split; apply Cminus_eq_0; assumption.
Qed.

Theorem linearity_single_exact (a : args O) q1 q2 q (p1 p2 p s1 s2 : CC) r r1 r2 g :
  wf O (with_src O a q1 p1) -> wf O (with_src O a q2 p2) -> wf O (with_src O a q p) ->
  same_shape O q q1 -> same_shape O q q2 ->
  a_footprint O a = false -> a_single O a = true ->
  cre O s1 = s1 -> cre O s2 = s2 ->
  (forall j i, (j < length q)%nat -> (i < length (hd [] q))%nat ->
     cellq O q j i = Cplus (Cmult s1 (cellq O q1 j i)) (Cmult s2 (cellq O q2 j i))) ->
  p = Cplus (Cmult s1 p1) (Cmult s2 p2) ->
  geometry O (with_src O a q p) = inl g ->
  solve O (with_src O a q p) = inl r ->
  solve O (with_src O a q1 p1) = inl r1 -> solve O (with_src O a q2 p2) = inl r2 ->
  forall k j i, (k < length (a_levels O a))%nat -> (j < length q)%nat -> (i < length (hd [] q))%nat ->
    get3 O (r_flx O r) k j i = Cplus (Cmult s1 (get3 O (r_flx O r1) k j i)) (Cmult s2 (get3 O (r_flx O r2) k j i)) /\
    get3 O (r_conc O r) k j i = Cplus (Cmult s1 (get3 O (r_conc O r1) k j i)) (Cmult s2 (get3 O (r_conc O r2) k j i)).
Proof using Hrnd0.
  intros Hwf1 Hwf2 Hwf Hsh1 Hsh2 Hd Hs Hs1 Hs2 Hq Hp Hg Hr Hr1 Hr2 k j i Hk Hj Hi.
  destruct (linearity_single_bound rnd 0 (Rle_refl 0) Hrnd0 a q1 q2 q p1 p2 p s1 s2 r r1 r2 g
              Hwf1 Hwf2 Hwf Hsh1 Hsh2 Hd Hs Hs1 Hs2 Hq Hp Hg Hr Hr1 Hr2 k j i Hk Hj Hi) as [A B].
  rewrite epsP_0 in B. rewrite Rmult_0_l in A, B. split; apply Cminus_eq_0; assumption.
Qed.

End Exact.

Goal True. idtac "THEOREM ROpsR_laws". Abort. Print Assumptions ROpsR_laws.
Goal True. idtac "THEOREM spectrum_single". Abort. Print Assumptions spectrum_single.
Goal True. idtac "THEOREM field_single_bound". Abort. Print Assumptions field_single_bound.
Goal True. idtac "THEOREM solve_single_bound". Abort. Print Assumptions solve_single_bound.
Goal True. idtac "THEOREM reciprocity_single_bound". Abort. Print Assumptions reciprocity_single_bound.
Goal True. idtac "THEOREM reciprocity_single_bound_sharp". Abort. Print Assumptions reciprocity_single_bound_sharp.
Goal True. idtac "THEOREM linearity_single_cells". Abort. Print Assumptions linearity_single_cells.
Goal True. idtac "THEOREM linearity_single_bound". Abort. Print Assumptions linearity_single_bound.
Goal True. idtac "THEOREM rnd_scale_model". Abort. Print Assumptions rnd_scale_model.
Goal True. idtac "THEOREM rnd_scale_not_id". Abort. Print Assumptions rnd_scale_not_id.
Goal True. idtac "THEOREM reciprocity_single_bound_scale". Abort. Print Assumptions reciprocity_single_bound_scale.
Goal True. idtac "THEOREM field_single_exact". Abort. Print Assumptions field_single_exact.
Goal True. idtac "THEOREM reciprocity_single_exact". Abort. Print Assumptions reciprocity_single_exact.
Goal True. idtac "THEOREM linearity_single_exact". Abort. Print Assumptions linearity_single_exact.
