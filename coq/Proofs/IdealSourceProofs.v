(* Lemmas about Model/IdealSource.v (utils.ideal_source).  Statements are re-exported in Properties/C13Ideal.v. *)
From Coq Require Import Reals String List Bool Arith Lia Lra.
From BL Require Import Model.IdealSource.
Import ListNotations.
Open Scope R_scope.

Lemma sq_nonneg : forall t, 0 <= t * t.
Proof. intro t. pose proof (Rle_0_sqr t) as H. unfold Rsqr in H. exact H. Qed.

Lemma sq_abs : forall t, Rabs t * Rabs t = t * t.
Proof. intro t. rewrite <- Rabs_mult. apply Rabs_right. apply Rle_ge. apply sq_nonneg. Qed.

(* used by Bridge/IdealBridge.v: an indicator is determined by the two sides of its comparison *)
Lemma ind_ext : forall a b a' b', a = a' -> b = b' ->
  (if Rlt_dec a b then 1 else 0) = (if Rlt_dec a' b' then 1 else 0).
Proof. intros a b a' b' Ha Hb. subst. reflexivity. Qed.

(* ---------------------------------------------------------------------------------------------- *)
(* A. which statement decides the value *)

Lemma value_diamond : forall nx xmx xs ys X Y,
  ideal_value "diamond" nx xmx xs ys X Y = ideal_diamond xmx xs ys X Y.
Proof. intros. reflexivity. Qed.

Lemma value_circle : forall nx xmx xs ys X Y,
  ideal_value "circle" nx xmx xs ys X Y = ideal_circle xmx xs ys X Y.
Proof. intros. reflexivity. Qed.

Lemma value_point : forall nx xmx xs ys X Y,
  ideal_value "point" nx xmx xs ys X Y = ideal_point nx xmx xs ys X Y.
Proof. intros. reflexivity. Qed.

Lemma value_unknown : forall shape nx xmx xs ys X Y,
  shape <> "diamond"%string -> shape <> "circle"%string -> shape <> "point"%string ->
  ideal_value shape nx xmx xs ys X Y = 0.
Proof.
  intros shape nx xmx xs ys X Y Hd Hc Hp. unfold ideal_value.
  apply String.eqb_neq in Hd. apply String.eqb_neq in Hc. apply String.eqb_neq in Hp.
  rewrite Hd, Hc, Hp. reflexivity.
Qed.

Lemma value_cases : forall shape nx xmx xs ys X Y,
  (shape = "diamond"%string /\ ideal_value shape nx xmx xs ys X Y = ideal_diamond xmx xs ys X Y) \/
  (shape = "circle"%string /\ ideal_value shape nx xmx xs ys X Y = ideal_circle xmx xs ys X Y) \/
  (shape = "point"%string /\ ideal_value shape nx xmx xs ys X Y = ideal_point nx xmx xs ys X Y) \/
  (shape <> "diamond"%string /\ shape <> "circle"%string /\ shape <> "point"%string /\
   ideal_value shape nx xmx xs ys X Y = 0).
Proof.
  intros shape nx xmx xs ys X Y.
  destruct (String.eqb_spec shape "diamond") as [Hd|Hd].
  { left. subst shape. split; reflexivity. }
  destruct (String.eqb_spec shape "circle") as [Hc|Hc].
  { right; left. subst shape. split; reflexivity. }
  destruct (String.eqb_spec shape "point") as [Hp|Hp].
  { right; right; left. subst shape. split; reflexivity. }
  right; right; right. repeat split; try assumption. apply value_unknown; assumption.
Qed.

(* ---------------------------------------------------------------------------------------------- *)
(* B. the returned array: ny rows of nx cells *)

Lemma source_rows : forall shape nx ny xmx ymx loc, length (ideal_source shape nx ny xmx ymx loc) = ny.
Proof. intros. unfold ideal_source. rewrite map_length, seq_length. reflexivity. Qed.

Lemma source_cols : forall shape nx ny xmx ymx loc row,
  In row (ideal_source shape nx ny xmx ymx loc) -> length row = nx.
Proof.
  intros shape nx ny xmx ymx loc row Hin. unfold ideal_source in Hin.
  apply in_map_iff in Hin. destruct Hin as [j [Hj _]]. subst row.
  rewrite map_length, seq_length. reflexivity.
Qed.

Lemma source_nth : forall shape nx ny xmx ymx loc j i, (j < ny)%nat -> (i < nx)%nat ->
  nth i (nth j (ideal_source shape nx ny xmx ymx loc) []) 0 = ideal_source_cell shape nx ny xmx ymx loc j i.
Proof.
  intros shape nx ny xmx ymx loc j i Hj Hi. unfold ideal_source.
  rewrite (nth_indep _ [] (map (fun i0 => ideal_source_cell shape nx ny xmx ymx loc 0%nat i0) (seq 0 nx)))
    by (rewrite map_length, seq_length; exact Hj).
  rewrite (map_nth (fun j0 => map (fun i0 => ideal_source_cell shape nx ny xmx ymx loc j0 i0) (seq 0 nx)) (seq 0 ny) 0%nat j).
  rewrite seq_nth by exact Hj. simpl.
  rewrite (nth_indep _ 0 (ideal_source_cell shape nx ny xmx ymx loc j 0%nat))
    by (rewrite map_length, seq_length; exact Hi).
  rewrite (map_nth (fun i0 => ideal_source_cell shape nx ny xmx ymx loc j i0) (seq 0 nx) 0%nat i).
  rewrite seq_nth by exact Hi. reflexivity.
Qed.

(* ---------------------------------------------------------------------------------------------- *)
(* C. the indicator shapes *)

Lemma l1_nonneg : forall xs ys X Y, 0 <= ideal_l1 xs ys X Y.
Proof. intros. unfold ideal_l1. pose proof (Rabs_pos (X - xs)). pose proof (Rabs_pos (Y - ys)). lra. Qed.

Lemma rsq_nonneg : forall xs ys X Y, 0 <= ideal_rsq xs ys X Y.
Proof.
  intros. unfold ideal_rsq.
  pose proof (Rle_0_sqr (X - xs)) as A. pose proof (Rle_0_sqr (Y - ys)) as B. unfold Rsqr in A, B. lra.
Qed.

Lemma diamond_01 : forall xmx xs ys X Y, ideal_diamond xmx xs ys X Y = 0 \/ ideal_diamond xmx xs ys X Y = 1.
Proof. intros. unfold ideal_diamond. destruct (Rlt_dec _ _); auto. Qed.

Lemma circle_01 : forall xmx xs ys X Y, ideal_circle xmx xs ys X Y = 0 \/ ideal_circle xmx xs ys X Y = 1.
Proof. intros. unfold ideal_circle. destruct (Rlt_dec _ _); auto. Qed.

Lemma diamond_support : forall xmx xs ys X Y,
  (ideal_diamond xmx xs ys X Y = 1 <-> Rabs (X - xs) + Rabs (Y - ys) < xmx / 12) /\
  (ideal_diamond xmx xs ys X Y = 0 <-> xmx / 12 <= Rabs (X - xs) + Rabs (Y - ys)).
Proof.
  intros. unfold ideal_diamond, ideal_l1, ideal_R0.
  destruct (Rlt_dec _ _) as [H|H]; split; split; intro K; try lra.
Qed.

Lemma circle_support : forall xmx xs ys X Y,
  (ideal_circle xmx xs ys X Y = 1 <-> sqrt ((X - xs) * (X - xs) + (Y - ys) * (Y - ys)) < xmx / 12) /\
  (ideal_circle xmx xs ys X Y = 0 <-> xmx / 12 <= sqrt ((X - xs) * (X - xs) + (Y - ys) * (Y - ys))).
Proof.
  intros. unfold ideal_circle, ideal_rsq, ideal_R0.
  destruct (Rlt_dec _ _) as [H|H]; split; split; intro K; try lra.
Qed.

Lemma sqrt_lt_iff_sq : forall s r, 0 <= s -> 0 < r -> (sqrt s < r <-> s < r * r).
Proof.
  intros s r Hs Hr. split; intro H.
  - rewrite <- (sqrt_sqrt s Hs). pose proof (sqrt_pos s). nra.
  - rewrite <- (sqrt_square r) by lra. apply sqrt_lt_1_alt. lra.
Qed.

Lemma circle_support_sq : forall xmx xs ys X Y, 0 < xmx ->
  (ideal_circle xmx xs ys X Y = 1 <->
   (X - xs) * (X - xs) + (Y - ys) * (Y - ys) < (xmx / 12) * (xmx / 12)).
Proof.
  intros xmx xs ys X Y Hx.
  destruct (circle_support xmx xs ys X Y) as [H1 _]. rewrite H1.
  apply sqrt_lt_iff_sq; [ apply (rsq_nonneg xs ys X Y) | lra ].
Qed.

(* a domain of non-positive extent has an empty indicator *)
Lemma indicator_empty : forall xmx xs ys X Y, xmx <= 0 ->
  ideal_diamond xmx xs ys X Y = 0 /\ ideal_circle xmx xs ys X Y = 0.
Proof.
  intros xmx xs ys X Y Hx. split.
  - apply diamond_support. pose proof (l1_nonneg xs ys X Y) as H. unfold ideal_l1 in H. lra.
  - apply circle_support. pose proof (sqrt_pos ((X - xs) * (X - xs) + (Y - ys) * (Y - ys))). lra.
Qed.

(* Euclidean distance <= taxicab distance <= sqrt 2 * Euclidean distance *)
Lemma l2_le_l1 : forall a b, sqrt (a * a + b * b) <= Rabs a + Rabs b.
Proof.
  intros a b.
  pose proof (sq_abs a) as Ha. pose proof (sq_abs b) as Hb.
  pose proof (sq_nonneg a) as Qa. pose proof (sq_nonneg b) as Qb.
  pose proof (Rabs_pos a) as Pa. pose proof (Rabs_pos b) as Pb.
  rewrite <- (sqrt_square (Rabs a + Rabs b)) by lra.
  apply sqrt_le_1_alt. nra.
Qed.

Lemma l1_le_sqrt2_l2 : forall a b, Rabs a + Rabs b <= sqrt 2 * sqrt (a * a + b * b).
Proof.
  intros a b.
  pose proof (sq_abs a) as Ha. pose proof (sq_abs b) as Hb.
  pose proof (sq_nonneg a) as Qa. pose proof (sq_nonneg b) as Qb.
  pose proof (Rabs_pos a) as Pa. pose proof (Rabs_pos b) as Pb.
  rewrite <- sqrt_mult by lra.
  rewrite <- (sqrt_square (Rabs a + Rabs b)) at 1 by lra.
  apply sqrt_le_1_alt. pose proof (sq_nonneg (Rabs a - Rabs b)). nra.
Qed.

(* the diamond lies inside the circle of the same radius, cell by cell *)
Lemma diamond_in_circle : forall xmx xs ys X Y,
  ideal_diamond xmx xs ys X Y = 1 -> ideal_circle xmx xs ys X Y = 1.
Proof.
  intros xmx xs ys X Y H.
  apply diamond_support in H. apply circle_support.
  pose proof (l2_le_l1 (X - xs) (Y - ys)). lra.
Qed.

Lemma diamond_le_circle : forall xmx xs ys X Y,
  ideal_diamond xmx xs ys X Y <= ideal_circle xmx xs ys X Y.
Proof.
  intros xmx xs ys X Y.
  destruct (diamond_01 xmx xs ys X Y) as [H|H].
  - rewrite H. destruct (circle_01 xmx xs ys X Y) as [K|K]; rewrite K; lra.
  - rewrite H, (diamond_in_circle _ _ _ _ _ H). lra.
Qed.

(* ... and the circle inside the diamond of radius sqrt 2 * R0 *)
Lemma circle_in_big_diamond : forall xmx xs ys X Y,
  ideal_circle xmx xs ys X Y = 1 -> Rabs (X - xs) + Rabs (Y - ys) < sqrt 2 * (xmx / 12).
Proof.
  intros xmx xs ys X Y H. apply circle_support in H.
  pose proof (l1_le_sqrt2_l2 (X - xs) (Y - ys)) as L.
  assert (0 < sqrt 2) by (apply sqrt_lt_R0; lra).
  nra.
Qed.

(* the inclusion is strict as sets of the plane: a point of the circle that is not in the diamond *)
Lemma circle_not_in_diamond_witness : forall xmx, 0 < xmx ->
  ideal_circle xmx 0 0 (xmx / 20) (xmx / 20) = 1 /\ ideal_diamond xmx 0 0 (xmx / 20) (xmx / 20) = 0.
Proof.
  intros xmx Hx. split.
  - apply circle_support_sq; [ exact Hx | nra ].
  - apply diamond_support. rewrite !Rminus_0_r, !Rabs_right by lra. lra.
Qed.

(* ---------------------------------------------------------------------------------------------- *)
(* D. the node grid of np.linspace *)

Lemma linspace_formula : forall a b n i, (2 <= n)%nat ->
  np_linspace a b n i = a + INR i * (b - a) / (INR n - 1).
Proof.
  intros a b n i Hn. unfold np_linspace.
  destruct n as [|[|n]]; [ lia | lia | ]. unfold Rdiv. ring.
Qed.

Lemma linspace_single : forall a b i, np_linspace a b 1 i = a.
Proof. reflexivity. Qed.

Lemma linspace_first : forall a b n, np_linspace a b n 0 = a.
Proof. intros a b n. unfold np_linspace. destruct n as [|[|n]]; try reflexivity. simpl INR at 1. ring. Qed.

Lemma INR_minus1 : forall n, (1 <= n)%nat -> INR (n - 1) = INR n - 1.
Proof. intros n Hn. rewrite minus_INR by exact Hn. reflexivity. Qed.

Lemma INR_ge2 : forall n, (2 <= n)%nat -> 0 < INR n - 1.
Proof. intros n Hn. apply le_INR in Hn. simpl in Hn. lra. Qed.

Lemma linspace_last : forall a b n, (2 <= n)%nat -> np_linspace a b n (n - 1) = b.
Proof.
  intros a b n Hn. rewrite linspace_formula by exact Hn.
  rewrite INR_minus1 by lia. pose proof (INR_ge2 n Hn). field. lra.
Qed.

Lemma x_formula : forall nx xmx i, (2 <= nx)%nat -> ideal_x nx xmx i = xmx * INR i / (INR nx - 1).
Proof.
  intros nx xmx i Hn. unfold ideal_x. rewrite linspace_formula by exact Hn.
  pose proof (INR_ge2 nx Hn). field. lra.
Qed.

Lemma x_single : forall xmx i, ideal_x 1 xmx i = 0.
Proof. reflexivity. Qed.

Lemma x_first : forall nx xmx, ideal_x nx xmx 0 = 0.
Proof. intros. apply linspace_first. Qed.

Lemma x_last : forall nx xmx, (2 <= nx)%nat -> ideal_x nx xmx (nx - 1) = xmx.
Proof. intros. apply linspace_last. assumption. Qed.

Lemma x_mirror : forall nx xmx i, (2 <= nx)%nat -> (i < nx)%nat ->
  ideal_x nx xmx (nx - 1 - i) = xmx - ideal_x nx xmx i.
Proof.
  intros nx xmx i Hn Hi. rewrite !x_formula by exact Hn.
  rewrite minus_INR by lia. rewrite INR_minus1 by lia.
  pose proof (INR_ge2 nx Hn). field. lra.
Qed.

Lemma x_increasing : forall nx xmx i i', (2 <= nx)%nat -> 0 < xmx -> (i < i')%nat ->
  ideal_x nx xmx i < ideal_x nx xmx i'.
Proof.
  intros nx xmx i i' Hn Hx Hi. rewrite !x_formula by exact Hn.
  pose proof (INR_ge2 nx Hn) as Hd. apply lt_INR in Hi.
  unfold Rdiv. apply Rmult_lt_compat_r; [ apply Rinv_0_lt_compat; exact Hd | nra ].
Qed.

(* node grid against the solver's cell grid i*dx: stretched by nx/(nx-1) *)
Lemma x_vs_solver : forall nx xmx i, (2 <= nx)%nat ->
  ideal_x nx xmx i = solver_x nx xmx i * (INR nx / (INR nx - 1)) /\
  ideal_x nx xmx i - solver_x nx xmx i = solver_x nx xmx i / (INR nx - 1).
Proof.
  intros nx xmx i Hn. rewrite x_formula by exact Hn. unfold solver_x.
  pose proof (INR_ge2 nx Hn). split; field; lra.
Qed.

(* the two grids share only the node 0 (for a domain of non-zero extent) *)
Lemma x_eq_solver_iff : forall nx xmx i, (2 <= nx)%nat -> xmx <> 0 ->
  (ideal_x nx xmx i = solver_x nx xmx i <-> i = 0%nat).
Proof.
  intros nx xmx i Hn Hx. destruct (x_vs_solver nx xmx i Hn) as [_ Hd].
  pose proof (INR_ge2 nx Hn) as Hp. split; intro H.
  - assert (Hz : solver_x nx xmx i / (INR nx - 1) = 0) by lra.
    unfold solver_x in Hz.
    assert (Hi : INR i = 0).
    { destruct (Req_dec (INR i) 0) as [E|E]; [ exact E | exfalso ].
      assert (K : INR i * (xmx / INR nx) / (INR nx - 1) <> 0).
      { unfold Rdiv. repeat apply Rmult_integral_contrapositive_currified; try assumption.
        - apply Rinv_neq_0_compat. lra.
        - apply Rinv_neq_0_compat. lra. }
      exact (K Hz). }
    apply INR_eq. simpl. exact Hi.
  - subst i. rewrite x_first. unfold solver_x. simpl. ring.
Qed.

(* the last node is the domain edge xmx; the solver's last cell is one dx short of it *)
Lemma last_node_vs_last_cell : forall nx xmx, (2 <= nx)%nat ->
  ideal_x nx xmx (nx - 1) = xmx /\ solver_x nx xmx (nx - 1) = xmx - xmx / INR nx.
Proof.
  intros nx xmx Hn. split; [ apply x_last; exact Hn | ].
  unfold solver_x. rewrite INR_minus1 by lia. pose proof (INR_ge2 nx Hn). field. lra.
Qed.

(* ---------------------------------------------------------------------------------------------- *)
(* E. default location, symmetry *)

Lemma default_loc : forall xmx ymx, ideal_loc xmx ymx None = (xmx / 2, ymx / 2).
Proof. reflexivity. Qed.

Lemma given_loc : forall xmx ymx p, ideal_loc xmx ymx (Some p) = p.
Proof. reflexivity. Qed.

(* the default location is the midpoint of the node set in each direction with at least two nodes *)
Lemma default_loc_is_node_centre : forall nx xmx, (2 <= nx)%nat ->
  (ideal_x nx xmx 0 + ideal_x nx xmx (nx - 1)) / 2 = fst (ideal_loc xmx 0 None).
Proof. intros nx xmx Hn. rewrite x_first, x_last by exact Hn. simpl. lra. Qed.

(* the value depends on the cell only through |X - xs| and |Y - ys| *)
Lemma value_abs : forall shape nx xmx xs ys X Y X' Y',
  Rabs (X' - xs) = Rabs (X - xs) -> Rabs (Y' - ys) = Rabs (Y - ys) ->
  ideal_value shape nx xmx xs ys X' Y' = ideal_value shape nx xmx xs ys X Y.
Proof.
  intros shape nx xmx xs ys X Y X' Y' HX HY.
  assert (Hl : ideal_l1 xs ys X' Y' = ideal_l1 xs ys X Y) by (unfold ideal_l1; rewrite HX, HY; reflexivity).
  assert (Hr : ideal_rsq xs ys X' Y' = ideal_rsq xs ys X Y).
  { unfold ideal_rsq.
    assert (S : forall t, t * t = Rabs t * Rabs t) by (intro t; symmetry; apply sq_abs).
    rewrite (S (X' - xs)), (S (Y' - ys)), (S (X - xs)), (S (Y - ys)), HX, HY. reflexivity. }
  unfold ideal_value, ideal_diamond, ideal_circle, ideal_point. rewrite Hl, Hr. reflexivity.
Qed.

Lemma value_mirror : forall shape nx xmx xs ys X Y X' Y',
  (X' - xs = X - xs \/ X' - xs = - (X - xs)) -> (Y' - ys = Y - ys \/ Y' - ys = - (Y - ys)) ->
  ideal_value shape nx xmx xs ys X' Y' = ideal_value shape nx xmx xs ys X Y.
Proof.
  intros shape nx xmx xs ys X Y X' Y' HX HY. apply value_abs.
  - destruct HX as [E|E]; rewrite E; [ reflexivity | apply Rabs_Ropp ].
  - destruct HY as [E|E]; rewrite E; [ reflexivity | apply Rabs_Ropp ].
Qed.

(* mirror nodes about the source location carry equal values *)
Lemma cell_mirror : forall shape nx ny xmx ymx xs ys j i j' i',
  (i' = i \/ ideal_x nx xmx i' + ideal_x nx xmx i = 2 * xs) ->
  (j' = j \/ ideal_y ny ymx j' + ideal_y ny ymx j = 2 * ys) ->
  ideal_cell shape nx ny xmx ymx xs ys j' i' = ideal_cell shape nx ny xmx ymx xs ys j i.
Proof.
  intros shape nx ny xmx ymx xs ys j i j' i' Hi Hj. unfold ideal_cell. apply value_mirror.
  - destruct Hi as [E|E]; [ subst i'; left; reflexivity | right; lra ].
  - destruct Hj as [E|E]; [ subst j'; left; reflexivity | right; lra ].
Qed.

(* with the default location the field is mirror symmetric in both directions (at least two nodes each) *)
Lemma default_symmetric : forall shape nx ny xmx ymx j i, (2 <= nx)%nat -> (2 <= ny)%nat ->
  (i < nx)%nat -> (j < ny)%nat ->
  ideal_source_cell shape nx ny xmx ymx None j (nx - 1 - i) = ideal_source_cell shape nx ny xmx ymx None j i /\
  ideal_source_cell shape nx ny xmx ymx None (ny - 1 - j) i = ideal_source_cell shape nx ny xmx ymx None j i /\
  ideal_source_cell shape nx ny xmx ymx None (ny - 1 - j) (nx - 1 - i) = ideal_source_cell shape nx ny xmx ymx None j i.
Proof.
  intros shape nx ny xmx ymx j i Hnx Hny Hi Hj. unfold ideal_source_cell. simpl fst. simpl snd.
  assert (Ex : ideal_x nx xmx (nx - 1 - i) + ideal_x nx xmx i = 2 * (xmx / 2)) by (rewrite x_mirror by assumption; lra).
  assert (Ey : ideal_y ny ymx (ny - 1 - j) + ideal_y ny ymx j = 2 * (ymx / 2)).
  { unfold ideal_y. change (np_linspace 0 ymx ny) with (ideal_x ny ymx). rewrite x_mirror by assumption. lra. }
  repeat split; apply cell_mirror; auto.
Qed.

(* square set-up: transposition swaps the coordinates of the location *)
Lemma cell_transpose : forall shape n xmx xs ys j i,
  ideal_cell shape n n xmx xmx xs ys j i = ideal_cell shape n n xmx xmx ys xs i j.
Proof.
  intros shape n xmx xs ys j i. unfold ideal_cell, ideal_y, ideal_x.
  set (A := np_linspace 0 xmx n i). set (B := np_linspace 0 xmx n j).
  assert (Hl : ideal_l1 xs ys A B = ideal_l1 ys xs B A) by (unfold ideal_l1; ring).
  assert (Hr : ideal_rsq xs ys A B = ideal_rsq ys xs B A) by (unfold ideal_rsq; ring).
  unfold ideal_value, ideal_diamond, ideal_circle, ideal_point. rewrite Hl, Hr. reflexivity.
Qed.

(* ---------------------------------------------------------------------------------------------- *)
(* F. the Gaussian ("point") shape *)

Lemma sigma_pos : forall nx xmx, (0 < nx)%nat -> 0 < xmx -> 0 < ideal_sigma nx xmx.
Proof.
  intros nx xmx Hn Hx. unfold ideal_sigma. apply lt_INR in Hn. simpl in Hn.
  assert (0 < xmx / INR nx) by (apply Rdiv_lt_0_compat; assumption). lra.
Qed.

Lemma sqrt_2pi_pos : 0 < sqrt (2 * PI).
Proof. apply sqrt_lt_R0. pose proof PI_RGT_0. lra. Qed.

Lemma point_closed_form : forall nx xmx xs ys X Y, ideal_sigma nx xmx <> 0 ->
  ideal_point nx xmx xs ys X Y = gauss1 (ideal_sigma nx xmx) ((X - xs) * (X - xs) + (Y - ys) * (Y - ys)).
Proof.
  intros nx xmx xs ys X Y Hs. unfold ideal_point, gauss1, ideal_rsq.
  pose proof sqrt_2pi_pos as Hp.
  replace (- ((X - xs) * (X - xs) + (Y - ys) * (Y - ys)) / 2 / (ideal_sigma nx xmx * ideal_sigma nx xmx))
    with (- ((X - xs) * (X - xs) + (Y - ys) * (Y - ys)) / (2 * (ideal_sigma nx xmx * ideal_sigma nx xmx)))
    by (field; exact Hs).
  field. split; [ lra | exact Hs ].
Qed.

Lemma point_pos : forall nx xmx xs ys X Y, (0 < nx)%nat -> 0 < xmx -> 0 < ideal_point nx xmx xs ys X Y.
Proof.
  intros nx xmx xs ys X Y Hn Hx. unfold ideal_point.
  pose proof (sigma_pos nx xmx Hn Hx) as Hs. pose proof sqrt_2pi_pos as Hp.
  apply Rdiv_lt_0_compat; [ apply Rdiv_lt_0_compat; [ apply exp_pos | exact Hs ] | exact Hp ].
Qed.

(* strictly decreasing in the distance to the location *)
Lemma point_decreasing : forall nx xmx xs ys X Y X' Y', (0 < nx)%nat -> 0 < xmx ->
  (ideal_rsq xs ys X Y < ideal_rsq xs ys X' Y' <-> ideal_point nx xmx xs ys X' Y' < ideal_point nx xmx xs ys X Y) /\
  (ideal_rsq xs ys X Y <= ideal_rsq xs ys X' Y' <-> ideal_point nx xmx xs ys X' Y' <= ideal_point nx xmx xs ys X Y).
Proof.
  intros nx xmx xs ys X Y X' Y' Hn Hx.
  pose proof (sigma_pos nx xmx Hn Hx) as Hs. pose proof sqrt_2pi_pos as Hp.
  unfold ideal_point. set (s := ideal_sigma nx xmx) in *.
  set (r := ideal_rsq xs ys X Y). set (r' := ideal_rsq xs ys X' Y').
  assert (Hss : 0 < s * s) by nra.
  assert (Hk : 0 < / s * / sqrt (2 * PI)).
  { apply Rmult_lt_0_compat; apply Rinv_0_lt_compat; assumption. }
  assert (E : forall t, exp (- t / 2 / (s * s)) / s / sqrt (2 * PI) = exp (- t / 2 / (s * s)) * (/ s * / sqrt (2 * PI))).
  { intro t. unfold Rdiv. ring. }
  rewrite !E.
  assert (A : forall t t', t < t' -> - t' / 2 / (s * s) < - t / 2 / (s * s)).
  { intros t t' L. unfold Rdiv. apply Rmult_lt_compat_r; [ apply Rinv_0_lt_compat; exact Hss | lra ]. }
  assert (Lt : r < r' -> exp (- r' / 2 / (s * s)) * (/ s * / sqrt (2 * PI)) < exp (- r / 2 / (s * s)) * (/ s * / sqrt (2 * PI))).
  { intro L. apply Rmult_lt_compat_r; [ exact Hk | apply exp_increasing; apply A; exact L ]. }
  assert (Eq : r = r' -> exp (- r' / 2 / (s * s)) * (/ s * / sqrt (2 * PI)) = exp (- r / 2 / (s * s)) * (/ s * / sqrt (2 * PI))).
  { intro L. rewrite L. reflexivity. }
  assert (Gt : r' < r -> exp (- r / 2 / (s * s)) * (/ s * / sqrt (2 * PI)) < exp (- r' / 2 / (s * s)) * (/ s * / sqrt (2 * PI))).
  { intro L. apply Rmult_lt_compat_r; [ exact Hk | apply exp_increasing; apply A; exact L ]. }
  split; split; intro H.
  - apply Lt; exact H.
  - destruct (Rtotal_order r r') as [L|[L|L]]; [ exact L | apply Eq in L; lra | apply Gt in L; lra ].
  - destruct H as [H|H]; [ left; apply Lt; exact H | right; apply Eq; exact H ].
  - destruct (Rtotal_order r r') as [L|[L|L]]; [ lra | lra | apply Gt in L; lra ].
Qed.

(* the peak value 1/(sigma sqrt(2 pi)) bounds every cell and is attained exactly at the location *)
Lemma point_peak : forall nx xmx xs ys X Y, (0 < nx)%nat -> 0 < xmx ->
  ideal_point nx xmx xs ys X Y <= 1 / ideal_sigma nx xmx / sqrt (2 * PI) /\
  (ideal_point nx xmx xs ys X Y = 1 / ideal_sigma nx xmx / sqrt (2 * PI) <-> X = xs /\ Y = ys).
Proof.
  intros nx xmx xs ys X Y Hn Hx.
  assert (P0 : ideal_point nx xmx xs ys xs ys = 1 / ideal_sigma nx xmx / sqrt (2 * PI)).
  { unfold ideal_point, ideal_rsq.
    replace (- ((xs - xs) * (xs - xs) + (ys - ys) * (ys - ys)) / 2 / (ideal_sigma nx xmx * ideal_sigma nx xmx)) with 0
      by (unfold Rdiv; ring).
    rewrite exp_0. reflexivity. }
  rewrite <- P0.
  destruct (point_decreasing nx xmx xs ys xs ys X Y Hn Hx) as [Hlt Hle].
  assert (Z0 : ideal_rsq xs ys xs ys = 0) by (unfold ideal_rsq; ring).
  pose proof (rsq_nonneg xs ys X Y) as Hr.
  split.
  - apply Hle. lra.
  - split.
    + intro E. destruct (Req_dec (ideal_rsq xs ys X Y) 0) as [Zr|Zr].
      * unfold ideal_rsq in Zr.
        pose proof (sq_nonneg (X - xs)) as QX. pose proof (sq_nonneg (Y - ys)) as QY.
        assert (ZX : (X - xs) * (X - xs) = 0) by lra. assert (ZY : (Y - ys) * (Y - ys) = 0) by lra.
        apply Rsqr_0_uniq in ZX. apply Rsqr_0_uniq in ZY. split; lra.
      * exfalso. assert (L : ideal_rsq xs ys xs ys < ideal_rsq xs ys X Y) by lra. apply Hlt in L. lra.
    + intros [EX EY]. subst. reflexivity.
Qed.

(* the maximum of the field sits at the node nearest to the location, direction by direction *)
Lemma point_max_at_nearest : forall nx ny xmx ymx xs ys j0 i0, (0 < nx)%nat -> 0 < xmx ->
  (forall i, (i < nx)%nat -> Rabs (ideal_x nx xmx i0 - xs) <= Rabs (ideal_x nx xmx i - xs)) ->
  (forall j, (j < ny)%nat -> Rabs (ideal_y ny ymx j0 - ys) <= Rabs (ideal_y ny ymx j - ys)) ->
  forall j i, (j < ny)%nat -> (i < nx)%nat ->
  ideal_cell "point" nx ny xmx ymx xs ys j i <= ideal_cell "point" nx ny xmx ymx xs ys j0 i0.
Proof.
  intros nx ny xmx ymx xs ys j0 i0 Hn Hx HX HY j i Hj Hi.
  unfold ideal_cell. rewrite !value_point.
  apply (point_decreasing nx xmx xs ys _ _ _ _ Hn Hx).
  specialize (HX i Hi). specialize (HY j Hj). unfold ideal_rsq.
  assert (S : forall t, t * t = Rabs t * Rabs t) by (intro t; symmetry; apply sq_abs).
  rewrite (S (ideal_x nx xmx i0 - xs)), (S (ideal_y ny ymx j0 - ys)), (S (ideal_x nx xmx i - xs)), (S (ideal_y ny ymx j - ys)).
  pose proof (Rabs_pos (ideal_x nx xmx i0 - xs)). pose proof (Rabs_pos (ideal_y ny ymx j0 - ys)).
  nra.
Qed.

(* ---------------------------------------------------------------------------------------------- *)
(* G. common scaling of all lengths *)

Lemma linspace_scale : forall c b n i, np_linspace 0 (c * b) n i = c * np_linspace 0 b n i.
Proof. intros c b n i. unfold np_linspace. destruct n as [|[|n]]; unfold Rdiv; ring. Qed.

Lemma loc_scale : forall c xmx ymx loc,
  fst (ideal_loc (c * xmx) (c * ymx) (scale_loc c loc)) = c * fst (ideal_loc xmx ymx loc) /\
  snd (ideal_loc (c * xmx) (c * ymx) (scale_loc c loc)) = c * snd (ideal_loc xmx ymx loc).
Proof. intros c xmx ymx [[a b]|]; simpl; split; lra. Qed.

Lemma l1_scale : forall c xs ys X Y, 0 < c ->
  ideal_l1 (c * xs) (c * ys) (c * X) (c * Y) = c * ideal_l1 xs ys X Y.
Proof.
  intros c xs ys X Y Hc. unfold ideal_l1.
  replace (c * X - c * xs) with (c * (X - xs)) by ring.
  replace (c * Y - c * ys) with (c * (Y - ys)) by ring.
  rewrite !Rabs_mult, (Rabs_right c) by lra. ring.
Qed.

Lemma rsq_scale : forall c xs ys X Y,
  ideal_rsq (c * xs) (c * ys) (c * X) (c * Y) = c * c * ideal_rsq xs ys X Y.
Proof. intros. unfold ideal_rsq. ring. Qed.

Lemma ind_lt_scale : forall c a b, 0 < c ->
  (if Rlt_dec (c * a) (c * b) then 1 else 0) = (if Rlt_dec a b then 1 else 0).
Proof.
  intros c a b Hc. destruct (Rlt_dec (c * a) (c * b)) as [H|H]; destruct (Rlt_dec a b) as [K|K]; try reflexivity; exfalso.
  - apply K. nra.
  - apply H. nra.
Qed.

Lemma value_scale_indicator : forall shape nx c xmx xs ys X Y, 0 < c -> shape <> "point"%string ->
  ideal_value shape nx (c * xmx) (c * xs) (c * ys) (c * X) (c * Y) = ideal_value shape nx xmx xs ys X Y.
Proof.
  intros shape nx c xmx xs ys X Y Hc Hp.
  assert (D : ideal_diamond (c * xmx) (c * xs) (c * ys) (c * X) (c * Y) = ideal_diamond xmx xs ys X Y).
  { unfold ideal_diamond, ideal_R0. rewrite l1_scale by exact Hc.
    replace (c * xmx / 12) with (c * (xmx / 12)) by (unfold Rdiv; ring). apply ind_lt_scale. exact Hc. }
  assert (Ci : ideal_circle (c * xmx) (c * xs) (c * ys) (c * X) (c * Y) = ideal_circle xmx xs ys X Y).
  { unfold ideal_circle, ideal_R0. rewrite rsq_scale.
    rewrite sqrt_mult by (try nra; apply rsq_nonneg). rewrite sqrt_square by lra.
    replace (c * xmx / 12) with (c * (xmx / 12)) by (unfold Rdiv; ring). apply ind_lt_scale. exact Hc. }
  unfold ideal_value. apply String.eqb_neq in Hp. rewrite Hp, D, Ci. reflexivity.
Qed.

Lemma point_scale : forall nx c xmx xs ys X Y, 0 < c -> INR nx <> 0 -> xmx <> 0 ->
  ideal_point nx (c * xmx) (c * xs) (c * ys) (c * X) (c * Y) = ideal_point nx xmx xs ys X Y / c.
Proof.
  intros nx c xmx xs ys X Y Hc Hn Hx. unfold ideal_point. rewrite rsq_scale.
  assert (Hs : ideal_sigma nx (c * xmx) = c * ideal_sigma nx xmx) by (unfold ideal_sigma, Rdiv; ring).
  rewrite Hs.
  assert (Hs0 : ideal_sigma nx xmx <> 0).
  { unfold ideal_sigma, Rdiv. repeat apply Rmult_integral_contrapositive_currified; try lra; try assumption.
    apply Rinv_neq_0_compat. exact Hn. }
  pose proof sqrt_2pi_pos as Hp.
  replace (- (c * c * ideal_rsq xs ys X Y) / 2 / (c * ideal_sigma nx xmx * (c * ideal_sigma nx xmx)))
    with (- ideal_rsq xs ys X Y / 2 / (ideal_sigma nx xmx * ideal_sigma nx xmx)) by (field; split; [ exact Hs0 | lra ]).
  field. repeat split; lra.
Qed.

Lemma source_scale_indicator : forall shape nx ny c xmx ymx loc j i, 0 < c -> shape <> "point"%string ->
  ideal_source_cell shape nx ny (c * xmx) (c * ymx) (scale_loc c loc) j i =
  ideal_source_cell shape nx ny xmx ymx loc j i.
Proof.
  intros shape nx ny c xmx ymx loc j i Hc Hp. unfold ideal_source_cell, ideal_cell, ideal_x, ideal_y.
  destruct (loc_scale c xmx ymx loc) as [E1 E2]. rewrite E1, E2, !linspace_scale.
  apply value_scale_indicator; assumption.
Qed.

Lemma source_scale_point : forall nx ny c xmx ymx loc j i, 0 < c -> (0 < nx)%nat -> xmx <> 0 ->
  ideal_source_cell "point" nx ny (c * xmx) (c * ymx) (scale_loc c loc) j i =
  ideal_source_cell "point" nx ny xmx ymx loc j i / c.
Proof.
  intros nx ny c xmx ymx loc j i Hc Hn Hx. unfold ideal_source_cell, ideal_cell, ideal_x, ideal_y.
  destruct (loc_scale c xmx ymx loc) as [E1 E2]. rewrite E1, E2, !linspace_scale, !value_point.
  apply point_scale; try assumption. apply lt_INR in Hn. simpl in Hn. lra.
Qed.

(* ---------------------------------------------------------------------------------------------- *)
(* G'. the field seen from the solver's cell grid; normalisation of the Gaussian *)

(* the field seen from the solver's cell grid: node i sits at solver_x i * nx/(nx-1), so the offset to the location xs is the
   offset of the solver cell to xs*(nx-1)/nx, stretched by nx/(nx-1) *)
Lemma offset_on_solver_grid : forall nx xmx xs i, (2 <= nx)%nat ->
  ideal_x nx xmx i - xs = (solver_x nx xmx i - xs * ((INR nx - 1) / INR nx)) * (INR nx / (INR nx - 1)).
Proof.
  intros nx xmx xs i Hn. destruct (x_vs_solver nx xmx i Hn) as [E _]. rewrite E.
  pose proof (INR_ge2 nx Hn). field. lra.
Qed.

(* the default location, seen from the solver's grid, is the midpoint between its first and last cell *)
Lemma default_loc_on_solver_grid : forall nx xmx, (2 <= nx)%nat ->
  fst (ideal_loc xmx 0 None) * ((INR nx - 1) / INR nx) = (solver_x nx xmx 0 + solver_x nx xmx (nx - 1)) / 2.
Proof.
  intros nx xmx Hn. simpl fst. unfold solver_x. rewrite INR_minus1 by lia. simpl INR.
  pose proof (INR_ge2 nx Hn). field. lra.
Qed.

(* a location given in metres is displaced towards the origin by xs/nx <= dx * (xs/xmx) on the solver's grid *)
Lemma given_loc_displacement : forall nx xs, (1 <= nx)%nat ->
  xs - xs * ((INR nx - 1) / INR nx) = xs / INR nx.
Proof. intros nx xs Hn. apply le_INR in Hn. simpl in Hn. field. lra. Qed.

(* Riemann sum of the Gaussian over the whole plane is not modelled; the peak relation shows the normalisation is the 1-d one:
   the peak times sigma sqrt(2 pi) is 1 *)
Lemma point_peak_normalisation : forall nx xmx xs ys, (0 < nx)%nat -> 0 < xmx ->
  ideal_point nx xmx xs ys xs ys * (ideal_sigma nx xmx * sqrt (2 * PI)) = 1.
Proof.
  intros nx xmx xs ys Hn Hx.
  pose proof (sigma_pos nx xmx Hn Hx) as Hs. pose proof sqrt_2pi_pos as Hp.
  destruct (point_peak nx xmx xs ys xs ys Hn Hx) as [_ [_ E]]. rewrite (E (conj eq_refl eq_refl)).
  field. split; lra.
Qed.

(* ---------------------------------------------------------------------------------------------- *)
(* H. concrete instances (non-vacuity of the hypotheses used above) *)

Lemma y_as_x : forall ny ymx j, ideal_y ny ymx j = ideal_x ny ymx j.
Proof. reflexivity. Qed.

(* 5 x 3 nodes on a 96 x 48 domain: x in {0,24,48,72,96}, y in {0,24,48}; default location (48, 24); R0 = 8 *)
Lemma ex_x2 : ideal_x 5 96 2 = 48.
Proof. rewrite x_formula by lia. simpl INR. field. Qed.
Lemma ex_x3 : ideal_x 5 96 3 = 72.
Proof. rewrite x_formula by lia. simpl INR. field. Qed.
Lemma ex_y1 : ideal_y 3 48 1 = 24.
Proof. rewrite y_as_x. rewrite x_formula by lia. simpl INR. field. Qed.

Lemma ex_diamond_inside : ideal_source_cell "diamond" 5 3 96 48 None 1 2 = 1.
Proof.
  unfold ideal_source_cell, ideal_cell. rewrite value_diamond. apply diamond_support.
  simpl fst. simpl snd. rewrite ex_x2, ex_y1.
  replace (48 - 96 / 2) with 0 by field. replace (24 - 48 / 2) with 0 by field.
  rewrite Rabs_R0. lra.
Qed.

Lemma ex_diamond_outside : ideal_source_cell "diamond" 5 3 96 48 None 1 3 = 0.
Proof.
  unfold ideal_source_cell, ideal_cell. rewrite value_diamond. apply diamond_support.
  simpl fst. simpl snd. rewrite ex_x3, ex_y1.
  replace (72 - 96 / 2) with 24 by field. replace (24 - 48 / 2) with 0 by field.
  rewrite Rabs_R0, Rabs_right by lra. lra.
Qed.

(* the boundary is excluded (strict comparison): location (40, 24), node (48, 24) at taxicab and Euclidean distance exactly R0 = 8 *)
Lemma ex_boundary_excluded :
  ideal_source_cell "diamond" 5 3 96 48 (Some (40, 24)) 1 2 = 0 /\ ideal_source_cell "circle" 5 3 96 48 (Some (40, 24)) 1 2 = 0.
Proof.
  assert (EX : ideal_x 5 96 2 - 40 = 8) by (rewrite ex_x2; ring).
  assert (EY : ideal_y 3 48 1 - 24 = 0) by (rewrite ex_y1; ring).
  split; unfold ideal_source_cell, ideal_cell; simpl fst; simpl snd.
  - rewrite value_diamond. apply diamond_support. rewrite EX, EY, Rabs_R0, Rabs_right by lra. lra.
  - rewrite value_circle. apply circle_support. rewrite EX, EY.
    replace (8 * 8 + 0 * 0) with (8 * 8) by ring. rewrite sqrt_square by lra. lra.
Qed.

(* the hypotheses of the nearest-node theorem hold for the centre node of that grid *)
Lemma ex_point_nearest :
  (forall i, (i < 5)%nat -> Rabs (ideal_x 5 96 2 - 96 / 2) <= Rabs (ideal_x 5 96 i - 96 / 2)) /\ (forall j, (j < 3)%nat -> Rabs (ideal_y 3 48 1 - 48 / 2) <= Rabs (ideal_y 3 48 j - 48 / 2)).
Proof.
  assert (EX : ideal_x 5 96 2 - 96 / 2 = 0) by (rewrite ex_x2; field).
  assert (EY : ideal_y 3 48 1 - 48 / 2 = 0) by (rewrite ex_y1; field).
  split; intros k Hk; [ rewrite EX | rewrite EY ]; rewrite Rabs_R0; apply Rabs_pos.
Qed.

(* an unknown shape string *)
Lemma ex_unknown : ideal_source_cell "square" 5 3 96 48 None 1 2 = 0.
Proof. reflexivity. Qed.
