(* Lemmas about Model/NetcdfAsm.v (C18). *)
From Coq Require Import List Arith Bool Lia.
From BL Require Import Model.NetcdfAsm.
Import ListNotations.

(* ---------- generic list facts ---------- *)

Lemma nth_error_map_o {X Y : Type} (f : X -> Y) (l : list X) (i : nat) :
  nth_error (map f l) i = option_map f (nth_error l i).
Proof. revert i; induction l as [|a l IH]; intros [|i]; simpl; auto. Qed.

Lemma nth_error_seq_lt (s n i : nat) : i < n -> nth_error (seq s n) i = Some (s + i).
Proof.
  revert s i; induction n as [|n IH]; intros s i Hi; [lia|].
  destruct i as [|i]; simpl.
  - f_equal; lia.
  - rewrite IH by lia. f_equal; lia.
Qed.

Lemma traverse_spec {X Y : Type} (f : X -> option Y) (l : list X) (l' : list Y) :
  traverse f l = Some l' ->
  length l' = length l /\
  (forall i a, nth_error l i = Some a -> exists b, f a = Some b /\ nth_error l' i = Some b).
Proof.
  revert l'; induction l as [|a l IH]; intros l' H; simpl in H.
  - inversion H; subst. split; [reflexivity|]. intros [|i] a' Hn; discriminate Hn.
  - destruct (f a) as [b|] eqn:Efa; [|discriminate H].
    destruct (traverse f l) as [bs|] eqn:Etr; [|discriminate H].
    inversion H; subst l'. destruct (IH bs eq_refl) as [Hlen Hnth].
    split; [simpl; congruence|].
    intros [|i] a' Hn; simpl in Hn.
    + inversion Hn; subst a'. exists b. split; [assumption|reflexivity].
    + simpl. apply Hnth. assumption.
Qed.

Lemma traverse_total {X Y : Type} (f : X -> option Y) (l : list X) :
  (forall a, In a l -> exists b, f a = Some b) -> exists l', traverse f l = Some l'.
Proof.
  induction l as [|a l IH]; intros H; simpl.
  - exists []. reflexivity.
  - destruct (H a (or_introl eq_refl)) as [b Hb]. rewrite Hb.
    destruct IH as [bs Hbs]. { intros a' Ha'. apply H. right. assumption. }
    rewrite Hbs. exists (b :: bs). reflexivity.
Qed.

Lemma traverse_map {X Y : Type} (f : X -> option Y) (g : X -> Y) (l : list X) :
  (forall a, In a l -> f a = Some (g a)) -> traverse f l = Some (map g l).
Proof.
  induction l as [|a l IH]; intros H; simpl.
  - reflexivity.
  - rewrite (H a (or_introl eq_refl)). rewrite IH; [reflexivity|].
    intros a' Ha'. apply H. right. assumption.
Qed.

Lemma index_of_nth {X : Type} (eqb : X -> X -> bool)
  (Heq : forall a b, eqb a b = true <-> a = b) (l : list X) :
  NoDup l -> forall i a, nth_error l i = Some a -> index_of eqb a l = Some i.
Proof.
  induction l as [|x l IH]; intros Hnd i a Hn.
  - destruct i; discriminate Hn.
  - apply NoDup_cons_iff in Hnd. destruct Hnd as [Hnotin Hnd].
    destruct i as [|i]; simpl in Hn |- *.
    + inversion Hn; subst x. rewrite (proj2 (Heq a a) eq_refl). reflexivity.
    + destruct (eqb a x) eqn:E.
      * apply Heq in E. subst x. exfalso. apply Hnotin. eapply nth_error_In. eassumption.
      * rewrite (IH Hnd i a Hn). reflexivity.
Qed.

Lemma traverse_by_nth {X Y : Type} (f : X -> option Y) (m : list X) (l' : list Y) :
  length l' = length m ->
  (forall i b, nth_error l' i = Some b -> exists a, nth_error m i = Some a /\ f a = Some b) ->
  traverse f m = Some l'.
Proof.
  revert l'; induction m as [|a m IH]; intros l' Hlen H.
  - destruct l'; [reflexivity|discriminate Hlen].
  - destruct l' as [|b l']; [discriminate Hlen|]. simpl.
    destruct (H 0 b eq_refl) as [a' [Ha' Hfa]]. simpl in Ha'. inversion Ha'; subst a'.
    rewrite Hfa. rewrite (IH l').
    + reflexivity.
    + simpl in Hlen. congruence.
    + intros i b' Hb'. apply (H (S i) b'). exact Hb'.
Qed.

Lemma traverse_map_id {X Y : Type} (f : Y -> option X) (h : X -> Y) (l : list X) :
  (forall a, In a l -> f (h a) = Some a) -> traverse f (map h l) = Some l.
Proof.
  induction l as [|a l IH]; intros H; simpl.
  - reflexivity.
  - rewrite (H a (or_introl eq_refl)). rewrite IH; [reflexivity|].
    intros a' Ha'. apply H. right. assumption.
Qed.

Lemma get2_iff {X : Type} (m : list (list X)) (i j : nat) (v : X) :
  get2 m i j = Some v <-> exists row, nth_error m i = Some row /\ nth_error row j = Some v.
Proof.
  unfold get2. split.
  - destruct (nth_error m i) as [row|]; [|discriminate]. intros H. exists row. split; [reflexivity|assumption].
  - intros [row [H1 H2]]. rewrite H1. assumption.
Qed.

(* ---------- the model ---------- *)

Section NetcdfProofs.
Context {N L T V F A : Type}.
Context (eqbN : N -> N -> bool) (eqbL : L -> L -> bool) (str : T -> L) (nanV : V) (zeroF : F).
Hypothesis eqbN_spec : forall a b, eqbN a b = true <-> a = b.
Hypothesis eqbL_spec : forall a b, eqbL a b = true <-> a = b.

Notation res := (@result T V F A).
Notation rss := (@results N T V F A).
Notation twr := (@tower N V).
Notation dset := (@dataset N L V F A).
Notation assoc' := (assoc eqbN).
Notation steps' := (steps_of eqbN).
Notation asm_gen := (assemble_gen eqbN str nanV zeroF).
Notation asm := (assemble eqbN str nanV zeroF).
Notation uval := (ustar_val nanV).

Lemma eqbN_refl (a : N) : eqbN a a = true.
Proof. apply eqbN_spec. reflexivity. Qed.

Lemma assoc_nth (rs : rss) :
  NoDup (names rs) -> forall ti nm l, nth_error rs ti = Some (nm, l) -> assoc' nm rs = Some l.
Proof.
  induction rs as [|[k v] rs IH]; intros Hnd ti nm l Hn.
  - destruct ti; discriminate Hn.
  - simpl in Hnd. apply NoDup_cons_iff in Hnd. destruct Hnd as [Hnotin Hnd].
    destruct ti as [|ti]; simpl in Hn |- *.
    + inversion Hn; subst. rewrite eqbN_refl. reflexivity.
    + destruct (eqbN nm k) eqn:E.
      * apply eqbN_spec in E. subst k. exfalso. apply Hnotin.
        apply nth_error_In in Hn. apply (in_map fst) in Hn. exact Hn.
      * eapply IH; eassumption.
Qed.

Lemma assoc_In (rs : rss) nm l : assoc' nm rs = Some l -> In (nm, l) rs.
Proof.
  induction rs as [|[k v] rs IH]; simpl; intros H.
  - discriminate H.
  - destruct (eqbN nm k) eqn:E.
    + apply eqbN_spec in E. inversion H; subst. left. reflexivity.
    + right. apply IH. assumption.
Qed.

Lemma assoc_names (rs : rss) nm : In nm (names rs) -> exists l, assoc' nm rs = Some l.
Proof.
  induction rs as [|[k v] rs IH]; simpl; intros H.
  - contradiction.
  - destruct (eqbN nm k) eqn:E.
    + exists v. reflexivity.
    + destruct H as [H|H].
      * subst k. rewrite eqbN_refl in E. discriminate E.
      * apply IH. assumption.
Qed.

Lemma tower_by_name_sound (tws : list twr) nm tw :
  tower_by_name eqbN nm tws = Some tw -> In tw tws /\ tw_name tw = nm.
Proof.
  induction tws as [|t tws IH]; simpl; intros H.
  - discriminate H.
  - destruct (tower_by_name eqbN nm tws) as [t'|] eqn:E.
    + inversion H; subst t'. destruct (IH eq_refl) as [Hin Hnm]. split; [right; assumption|assumption].
    + destruct (eqbN nm (tw_name t)) eqn:E2; [|discriminate H].
      inversion H; subst t. apply eqbN_spec in E2. split; [left; reflexivity|symmetry; assumption].
Qed.

Lemma tower_by_name_complete (tws : list twr) nm :
  In nm (map (@tw_name N V) tws) -> exists tw, tower_by_name eqbN nm tws = Some tw.
Proof.
  induction tws as [|t tws IH]; simpl; intros H.
  - contradiction.
  - destruct (tower_by_name eqbN nm tws) as [t'|] eqn:E.
    + exists t'. reflexivity.
    + destruct H as [H|H].
      * rewrite <- H. rewrite eqbN_refl. exists t. reflexivity.
      * destruct (IH H) as [tw Htw]. discriminate Htw.
Qed.

Lemma tower_name_unique (tws : list twr) t1 t2 :
  NoDup (map (@tw_name N V) tws) -> In t1 tws -> In t2 tws -> tw_name t1 = tw_name t2 -> t1 = t2.
Proof.
  induction tws as [|t tws IH]; simpl; intros Hnd H1 H2 Hnm.
  - contradiction.
  - apply NoDup_cons_iff in Hnd. destruct Hnd as [Hnotin Hnd].
    destruct H1 as [H1|H1], H2 as [H2|H2].
    + congruence.
    + subst t1. exfalso. apply Hnotin. rewrite Hnm. apply in_map. assumption.
    + subst t2. exfalso. apply Hnotin. rewrite <- Hnm. apply in_map. assumption.
    + apply IH; assumption.
Qed.

(* inversion of a successful assembly *)
Lemma asm_gen_inv labels (rs : rss) (tws : list twr) (d : dset) :
  asm_gen labels rs tws = Some d ->
  exists n0 l0 rest r0 l0' x y z tl,
    rs = (n0, l0) :: rest /\ l0 = r0 :: l0' /\
    (forall nm, In nm (names rs) -> length (steps' rs nm) <= length l0) /\
    x_of (r_3d r0) (r_X r0) = Some x /\ y_of (r_3d r0) (r_Y r0) = Some y /\
    zopt (r_3d r0) (r_Z r0) = Some z /\ labels (names rs) tws = Some tl /\
    d = mkDs x y z (map (fun r => str (r_stamp r)) l0) (names rs)
          (data eqbN zeroF (@r_flx T V F A) rs (length l0)) (data eqbN zeroF (@r_conc T V F A) rs (length l0))
          (map uval l0) (map (@r_mol T V F A) l0) (map (@r_ws T V F A) l0) (map (@r_wd T V F A) l0)
          (map (@tw_lat N V) tl) (map (@tw_lon N V) tl) (map (@tw_zm N V) tl).
Proof.
  unfold assemble_gen. intros H.
  destruct rs as [|[n0 l0] rest]; simpl names in H; [discriminate H|].
  cbv beta iota zeta in H.
  assert (Hs0 : steps' ((n0, l0) :: rest) n0 = l0).
  { unfold steps_of. simpl. rewrite eqbN_refl. reflexivity. }
  rewrite Hs0 in H.
  destruct l0 as [|r0 l0']; [discriminate H|].
  destruct (existsb _ _) eqn:Eex in H; [discriminate H|].
  destruct (x_of (r_3d r0) (r_X r0)) as [x|] eqn:Ex; [|discriminate H].
  destruct (y_of (r_3d r0) (r_Y r0)) as [y|] eqn:Ey; [|discriminate H].
  destruct (zopt (r_3d r0) (r_Z r0)) as [z|] eqn:Ez; [|discriminate H].
  destruct (labels _ tws) as [tl|] eqn:El; [|discriminate H].
  inversion H; subst d; clear H.
  exists n0, (r0 :: l0'), rest, r0, l0', x, y, z, tl.
  split; [reflexivity|]. split; [reflexivity|].
  split.
  { intros nm' Hin'.
    destruct (le_lt_dec (length (steps' ((n0, r0 :: l0') :: rest) nm')) (length (r0 :: l0'))) as [Hle'|Hlt']; [assumption|exfalso].
    assert (Hex : existsb (fun nm0 => Nat.ltb (length (r0 :: l0')) (length (steps' ((n0, r0 :: l0') :: rest) nm0)))
                    (names ((n0, r0 :: l0') :: rest)) = true).
    { apply existsb_exists. exists nm'. split; [assumption|]. apply Nat.ltb_lt. assumption. }
    simpl names in Hex. rewrite Hex in Eex. discriminate Eex. }
  split; [assumption|]. split; [assumption|]. split; [assumption|]. split; [reflexivity|].
  reflexivity.
Qed.


(* ---------- coordinates of meshgrid-built grids ---------- *)

Lemma coords_3d (xs ys zs : list A) :
  xs <> [] -> ys <> [] -> zs <> [] ->
  x_of true (mesh3_X xs ys zs) = Some xs /\
  y_of true (mesh3_Y xs ys zs) = Some ys /\
  z_of (mesh3_Z xs ys zs) = Some zs.
Proof.
  intros Hx Hy Hz.
  destruct xs as [|x0 xs']; [contradiction|].
  destruct ys as [|y0 ys']; [contradiction|].
  destruct zs as [|z0 zs']; [contradiction|].
  split; [reflexivity|]. split.
  - unfold y_of, mesh3_Y. cbn [map].
    change (traverse (@hd_error A) (map (fun y : A => map (fun _ : A => y) (x0 :: xs')) (y0 :: ys')) = Some (y0 :: ys')).
    apply traverse_map_id. intros a _. reflexivity.
  - unfold z_of, mesh3_Z. apply traverse_map_id. intros a _. reflexivity.
Qed.

Lemma coords_2d (xs ys : list A) :
  xs <> [] -> ys <> [] ->
  x_of false (mesh2_X xs ys) = Some xs /\ y_of false (mesh2_Y xs ys) = Some ys /\
  x_of false (M1 xs) = Some xs /\ y_of false (M1 ys) = Some ys.
Proof.
  intros Hx Hy.
  destruct xs as [|x0 xs']; [contradiction|].
  destruct ys as [|y0 ys']; [contradiction|].
  split; [reflexivity|]. split; [|split; reflexivity].
  unfold y_of, mesh2_Y. apply traverse_map_id. intros a _. reflexivity.
Qed.

Lemma coords_spec (xs ys zs : list A) :
  xs <> [] -> ys <> [] ->
  (zs <> [] ->
   x_of true (mesh3_X xs ys zs) = Some xs /\ y_of true (mesh3_Y xs ys zs) = Some ys /\
   z_of (mesh3_Z xs ys zs) = Some zs) /\
  (x_of false (mesh2_X xs ys) = Some xs /\ y_of false (mesh2_Y xs ys) = Some ys /\
   x_of false (M1 xs) = Some xs /\ y_of false (M1 ys) = Some ys).
Proof.
  intros Hx Hy. split.
  - intros Hz. apply coords_3d; assumption.
  - apply coords_2d; assumption.
Qed.

(* ---------- the arrays ---------- *)

Lemma data_get2 sel (rs : rss) n t ti nm :
  t < n -> nth_error (names rs) ti = Some nm ->
  get2 (data eqbN zeroF sel rs n) t ti = Some (block eqbN zeroF sel rs t nm).
Proof.
  intros Ht Hn. unfold get2, data.
  rewrite nth_error_map_o. rewrite nth_error_seq_lt by assumption. simpl.
  rewrite nth_error_map_o. rewrite Hn. reflexivity.
Qed.

Lemma data_shape sel (rs : rss) n :
  length (data eqbN zeroF sel rs n) = n /\
  forall row, In row (data eqbN zeroF sel rs n) -> length row = length rs.
Proof.
  unfold data. split.
  - rewrite map_length. apply seq_length.
  - intros row Hin. apply in_map_iff in Hin. destruct Hin as [t [Ht _]]. subst row.
    rewrite map_length. unfold names. apply map_length.
Qed.

Lemma names_nth (rs : rss) ti nm l : nth_error rs ti = Some (nm, l) -> nth_error (names rs) ti = Some nm.
Proof. intros H. unfold names. rewrite nth_error_map_o. rewrite H. reflexivity. Qed.

Lemma steps_nth (rs : rss) ti nm l :
  NoDup (names rs) -> nth_error rs ti = Some (nm, l) -> steps' rs nm = l.
Proof. intros Hnd H. unfold steps_of. rewrite (assoc_nth rs Hnd ti nm l H). reflexivity. Qed.

Definition asm_facts (rs : rss) (d : dset) : Prop :=
  exists n0 l0 rest r0 l0',
    rs = (n0, l0) :: rest /\ l0 = r0 :: l0' /\
    length (d_fp d) = length l0 /\ length (d_conc d) = length l0 /\
    (forall row, In row (d_fp d) -> length row = length rs) /\
    (forall row, In row (d_conc d) -> length row = length rs) /\
    (forall ti nm l t r, nth_error rs ti = Some (nm, l) -> nth_error l t = Some r ->
       get2 (d_fp d) t ti = Some (r_flx r) /\ get2 (d_conc d) t ti = Some (r_conc r)) /\
    (forall ti nm l t, nth_error rs ti = Some (nm, l) -> length l <= t < length l0 ->
       get2 (d_fp d) t ti = Some zeroF /\ get2 (d_conc d) t ti = Some zeroF) /\
    x_of (r_3d r0) (r_X r0) = Some (d_x d) /\ y_of (r_3d r0) (r_Y r0) = Some (d_y d) /\
    (r_3d r0 = true -> exists z, z_of (r_Z r0) = Some z /\ d_z d = Some z) /\
    (r_3d r0 = false -> d_z d = None) /\
    d_tower d = names rs /\ d_time d = map (fun r => str (r_stamp r)) l0 /\
    d_ustar d = map uval l0 /\ d_mol d = map (@r_mol T V F A) l0 /\
    d_ws d = map (@r_ws T V F A) l0 /\ d_wd d = map (@r_wd T V F A) l0.

Lemma assembly_spec (rs : rss) (tws : list twr) (d : dset) :
  NoDup (names rs) -> asm rs tws = Some d -> asm_facts rs d.
Proof.
  intros Hnd H. unfold assemble in H.
  destruct (asm_gen_inv _ rs tws d H) as
    [n0 [l0 [rest [r0 [l0' [x [y [z [tl [Hrs [Hl0 [Hbound [Ex [Ey [Ez [El Hd]]]]]]]]]]]]]]]].
  exists n0, l0, rest, r0, l0'.
  split; [assumption|]. split; [assumption|].
  rewrite Hd. cbn [d_x d_y d_z d_time d_tower d_fp d_conc d_ustar d_mol d_ws d_wd].
  destruct (data_shape (@r_flx T V F A) rs (length l0)) as [Hlf Hrf].
  destruct (data_shape (@r_conc T V F A) rs (length l0)) as [Hlc Hrc].
  split; [assumption|]. split; [assumption|]. split; [assumption|]. split; [assumption|].
  assert (Hlen : forall ti nm l, nth_error rs ti = Some (nm, l) -> length l <= length l0).
  { intros ti nm l Hn. rewrite <- (steps_nth rs ti nm l Hnd Hn). apply Hbound.
    eapply nth_error_In. eapply names_nth. eassumption. }
  split.
  { intros ti nm l t r Hn Ht.
    assert (Htl : t < length l0).
    { apply Nat.lt_le_trans with (length l); [|eapply Hlen; eassumption].
      apply nth_error_Some. rewrite Ht. discriminate. }
    rewrite (data_get2 _ rs _ t ti nm Htl (names_nth rs ti nm l Hn)).
    rewrite (data_get2 _ rs _ t ti nm Htl (names_nth rs ti nm l Hn)).
    unfold block. rewrite (steps_nth rs ti nm l Hnd Hn). rewrite Ht. split; reflexivity. }
  split.
  { intros ti nm l t Hn [Ht1 Ht2].
    rewrite (data_get2 _ rs _ t ti nm Ht2 (names_nth rs ti nm l Hn)).
    rewrite (data_get2 _ rs _ t ti nm Ht2 (names_nth rs ti nm l Hn)).
    unfold block. rewrite (steps_nth rs ti nm l Hnd Hn).
    assert (Hnone : nth_error l t = None) by (apply nth_error_None; assumption).
    rewrite Hnone. split; reflexivity. }
  split; [assumption|]. split; [assumption|].
  split.
  { intros H3d. rewrite H3d in Ez. unfold zopt in Ez.
    destruct (z_of (r_Z r0)) as [zz|]; [|discriminate Ez].
    simpl in Ez. inversion Ez; subst z. exists zz. split; reflexivity. }
  split.
  { intros H3d. rewrite H3d in Ez. unfold zopt in Ez. inversion Ez. reflexivity. }
  repeat split; reflexivity.
Qed.

(* ---------- labels ---------- *)

Definition labels_facts (rs : rss) (tws : list twr) (d : dset) : Prop :=
  d_tower d = names rs /\
  length (d_lat d) = length rs /\ length (d_lon d) = length rs /\ length (d_zm d) = length rs /\
  (forall ti nm, nth_error (d_tower d) ti = Some nm ->
     exists tw, In tw tws /\ tw_name tw = nm /\
       nth_error (d_lat d) ti = Some (tw_lat tw) /\
       nth_error (d_lon d) ti = Some (tw_lon tw) /\
       nth_error (d_zm d) ti = Some (tw_zm tw)) /\
  (NoDup (map (@tw_name N V) tws) ->
   forall ti nm tw, nth_error (d_tower d) ti = Some nm -> In tw tws -> tw_name tw = nm ->
       nth_error (d_lat d) ti = Some (tw_lat tw) /\
       nth_error (d_lon d) ti = Some (tw_lon tw) /\
       nth_error (d_zm d) ti = Some (tw_zm tw)).

Lemma labels_spec (rs : rss) (tws : list twr) (d : dset) :
  asm rs tws = Some d -> labels_facts rs tws d.
Proof.
  intros H. unfold assemble in H.
  destruct (asm_gen_inv _ rs tws d H) as
    [n0 [l0 [rest [r0 [l0' [x [y [z [tl [Hrs [Hl0 [Hbound [Ex [Ey [Ez [El Hd]]]]]]]]]]]]]]]].
  unfold labels_by_name in El. destruct (traverse_spec _ _ _ El) as [Hlen Hnth].
  assert (Hln : length (names rs) = length rs) by (unfold names; apply map_length).
  assert (Hmain : forall ti nm, nth_error (names rs) ti = Some nm ->
     exists tw, In tw tws /\ tw_name tw = nm /\
       nth_error (map (@tw_lat N V) tl) ti = Some (tw_lat tw) /\
       nth_error (map (@tw_lon N V) tl) ti = Some (tw_lon tw) /\
       nth_error (map (@tw_zm N V) tl) ti = Some (tw_zm tw)).
  { intros ti nm Hn. destruct (Hnth ti nm Hn) as [tw [Htw Htl]].
    destruct (tower_by_name_sound tws nm tw Htw) as [Hin Hnm].
    exists tw. split; [assumption|]. split; [assumption|].
    rewrite !nth_error_map_o. rewrite Htl. repeat split; reflexivity. }
  unfold labels_facts. rewrite Hd. cbn [d_tower d_lat d_lon d_zm].
  split; [reflexivity|].
  split; [rewrite map_length; congruence|].
  split; [rewrite map_length; congruence|].
  split; [rewrite map_length; congruence|].
  split; [exact Hmain|].
  intros Hnd ti nm tw Hn Hin Hnm.
  destruct (Hmain ti nm Hn) as [tw' [Hin' [Hnm' [Hla [Hlo Hz]]]]].
  assert (Heq : tw' = tw).
  { apply (tower_name_unique tws tw' tw Hnd Hin' Hin). congruence. }
  subst tw'. split; [assumption|]. split; assumption.
Qed.

Lemma save_succeeds (rs : rss) (tws : list twr) n0 r0 l0' rest :
  rs = (n0, r0 :: l0') :: rest ->
  (forall nm l, In (nm, l) rs -> length l <= length (r0 :: l0')) ->
  (forall nm, In nm (names rs) -> In nm (map (@tw_name N V) tws)) ->
  x_of (r_3d r0) (r_X r0) <> None -> y_of (r_3d r0) (r_Y r0) <> None ->
  (r_3d r0 = true -> z_of (r_Z r0) <> None) ->
  exists d, asm rs tws = Some d.
Proof.
  intros Hrs Hbound Hcfg Hx Hy Hz.
  unfold assemble, assemble_gen. rewrite Hrs. simpl names. cbv beta iota zeta.
  assert (Hs0 : steps' ((n0, r0 :: l0') :: rest) n0 = r0 :: l0').
  { unfold steps_of. simpl. rewrite eqbN_refl. reflexivity. }
  rewrite Hs0.
  destruct (existsb _ _) eqn:Eex.
  { exfalso. apply existsb_exists in Eex. destruct Eex as [nm [Hin Hlt]].
    apply Nat.ltb_lt in Hlt. unfold steps_of in Hlt.
    destruct (assoc' nm ((n0, r0 :: l0') :: rest)) as [l|] eqn:Eas.
    - apply assoc_In in Eas. rewrite <- Hrs in Eas. apply Hbound in Eas. lia.
    - simpl in Hlt. lia. }
  destruct (x_of (r_3d r0) (r_X r0)) as [x|]; [|contradiction Hx; reflexivity].
  destruct (y_of (r_3d r0) (r_Y r0)) as [y|]; [|contradiction Hy; reflexivity].
  assert (Hzo : exists z, zopt (r_3d r0) (r_Z r0) = Some z).
  { unfold zopt. destruct (r_3d r0).
    - destruct (z_of (r_Z r0)) as [zz|]; [|contradiction (Hz eq_refl); reflexivity].
      exists (Some zz). reflexivity.
    - exists None. reflexivity. }
  destruct Hzo as [z Ez]. rewrite Ez.
  destruct (traverse_total (fun nm => tower_by_name eqbN nm tws) (n0 :: names rest)) as [tl Htl].
  { intros nm Hin. apply tower_by_name_complete. apply Hcfg. rewrite Hrs. exact Hin. }
  unfold labels_by_name. rewrite Htl. eexists. reflexivity.
Qed.

(* ---------- selection ---------- *)

Lemma select_tower_spec (rs : rss) (tws : list twr) (d : dset) ti nm l :
  NoDup (names rs) -> asm rs tws = Some d ->
  nth_error rs ti = Some (nm, l) ->
  (forall nm' l', In (nm', l') rs -> length l' = length l) ->
  exists s tw, sel_tower eqbN d nm = Some s /\
    ts_fp s = map (@r_flx T V F A) l /\ ts_conc s = map (@r_conc T V F A) l /\
    In tw tws /\ tw_name tw = nm /\
    ts_lat s = tw_lat tw /\ ts_lon s = tw_lon tw /\ ts_zm s = tw_zm tw.
Proof.
  intros Hnd H Hn Hrect.
  destruct (assembly_spec rs tws d Hnd H) as
    (n0' & l0x & rest' & r0 & l0' & Hrs & Hl0 & Hlf & Hlc & Hrf & Hrc & Hblk & Hzero & Ex & Ey & Hz3 & Hz2 & Htow & Htime & Hu & Hm & Hw & Hwd).
  destruct (labels_spec rs tws d H) as (_ & _ & _ & _ & Hlab & _).
  assert (Hll : length l0x = length l).
  { apply Hrect with n0'. rewrite Hrs. left. reflexivity. }
  assert (Hnm : nth_error (d_tower d) ti = Some nm) by (rewrite Htow; eapply names_nth; eassumption).
  destruct (Hlab ti nm Hnm) as [tw [Hin [Htn [Hla [Hlo Hz]]]]].
  unfold sel_tower.
  rewrite (index_of_nth eqbN eqbN_spec (d_tower d)) with (i := ti); [|rewrite Htow; assumption|assumption].
  rewrite (traverse_by_nth (fun row => nth_error row ti) (d_fp d) (map (@r_flx T V F A) l)).
  2:{ rewrite map_length. congruence. }
  2:{ intros t b Hb. rewrite nth_error_map_o in Hb.
      destruct (nth_error l t) as [r|] eqn:Er; [|discriminate Hb]. simpl in Hb. inversion Hb; subst b.
      destruct (Hblk ti nm l t r Hn Er) as [Hf _]. apply get2_iff in Hf. exact Hf. }
  rewrite (traverse_by_nth (fun row => nth_error row ti) (d_conc d) (map (@r_conc T V F A) l)).
  2:{ rewrite map_length. congruence. }
  2:{ intros t b Hb. rewrite nth_error_map_o in Hb.
      destruct (nth_error l t) as [r|] eqn:Er; [|discriminate Hb]. simpl in Hb. inversion Hb; subst b.
      destruct (Hblk ti nm l t r Hn Er) as [_ Hc]. apply get2_iff in Hc. exact Hc. }
  rewrite Hla, Hlo, Hz.
  eexists. exists tw. split; [reflexivity|]. cbn [ts_fp ts_conc ts_lat ts_lon ts_zm].
  repeat (split; [first [reflexivity | assumption]|]). reflexivity.
Qed.

Lemma select_time_spec (rs : rss) (tws : list twr) (d : dset) n0 l0 rest t rt :
  rs = (n0, l0) :: rest -> NoDup (names rs) ->
  NoDup (map (fun r => str (@r_stamp T V F A r)) l0) ->
  asm rs tws = Some d -> nth_error l0 t = Some rt ->
  exists s, sel_time eqbL d (str (r_stamp rt)) = Some s /\
    tm_ustar s = uval rt /\ tm_mol s = r_mol rt /\ tm_ws s = r_ws rt /\ tm_wd s = r_wd rt /\
    length (tm_fp s) = length rs /\ length (tm_conc s) = length rs /\
    forall ti nm l r, nth_error rs ti = Some (nm, l) -> nth_error l t = Some r ->
      nth_error (tm_fp s) ti = Some (r_flx r) /\ nth_error (tm_conc s) ti = Some (r_conc r).
Proof.
  intros Hrs0 Hnd Hndl H Ht.
  destruct (assembly_spec rs tws d Hnd H) as
    (n0' & l0x & rest' & r0 & l0' & Hrs & Hl0 & Hlf & Hlc & Hrf & Hrc & Hblk & Hzero & Ex & Ey & Hz3 & Hz2 & Htow & Htime & Hu & Hm & Hw & Hwd).
  assert (Hsame : l0x = l0) by (rewrite Hrs0 in Hrs; inversion Hrs; reflexivity).
  subst l0.
  assert (Htl : t < length l0x) by (apply nth_error_Some; rewrite Ht; discriminate).
  unfold sel_time.
  rewrite (index_of_nth eqbL eqbL_spec (d_time d)) with (i := t).
  2:{ rewrite Htime. assumption. }
  2:{ rewrite Htime. rewrite nth_error_map_o. rewrite Ht. reflexivity. }
  destruct (nth_error (d_fp d) t) as [rowf|] eqn:Erf.
  2:{ exfalso. apply nth_error_None in Erf. lia. }
  destruct (nth_error (d_conc d) t) as [rowc|] eqn:Erc.
  2:{ exfalso. apply nth_error_None in Erc. lia. }
  rewrite Hu, Hm, Hw, Hwd. rewrite !nth_error_map_o. rewrite Ht. simpl.
  eexists. split; [reflexivity|]. cbn [tm_fp tm_conc tm_ustar tm_mol tm_ws tm_wd].
  split; [reflexivity|]. split; [reflexivity|]. split; [reflexivity|]. split; [reflexivity|].
  split; [apply Hrf; eapply nth_error_In; eassumption|].
  split; [apply Hrc; eapply nth_error_In; eassumption|].
  intros ti nm l r Hn Hr.
  destruct (Hblk ti nm l t r Hn Hr) as [Hf Hc].
  unfold get2 in Hf, Hc. rewrite Erf in Hf. rewrite Erc in Hc. split; assumption.
Qed.

Lemma select_block_spec (rs : rss) (tws : list twr) (d : dset) n0 l0 rest ti nm l t rt r :
  rs = (n0, l0) :: rest -> NoDup (names rs) ->
  NoDup (map (fun r => str (@r_stamp T V F A r)) l0) ->
  asm rs tws = Some d ->
  nth_error rs ti = Some (nm, l) -> nth_error l0 t = Some rt -> nth_error l t = Some r ->
  sel_block eqbN eqbL d nm (str (r_stamp rt)) = Some (r_flx r, r_conc r).
Proof.
  intros Hrs0 Hnd Hndl H Hn Ht Hr.
  destruct (assembly_spec rs tws d Hnd H) as
    (n0' & l0x & rest' & r0 & l0' & Hrs & Hl0 & Hlf & Hlc & Hrf & Hrc & Hblk & Hzero & Ex & Ey & Hz3 & Hz2 & Htow & Htime & Hu & Hm & Hw & Hwd).
  assert (Hsame : l0x = l0) by (rewrite Hrs0 in Hrs; inversion Hrs; reflexivity).
  subst l0.
  unfold sel_block.
  rewrite (index_of_nth eqbN eqbN_spec (d_tower d)) with (i := ti).
  2:{ rewrite Htow. assumption. }
  2:{ rewrite Htow. eapply names_nth. eassumption. }
  rewrite (index_of_nth eqbL eqbL_spec (d_time d)) with (i := t).
  2:{ rewrite Htime. assumption. }
  2:{ rewrite Htime. rewrite nth_error_map_o. rewrite Ht. reflexivity. }
  destruct (Hblk ti nm l t r Hn Hr) as [Hf Hc]. rewrite Hf, Hc. reflexivity.
Qed.

(* ---------- through the library: save then load ---------- *)

Section Library.
Context {file : Type} (write : dset -> file) (read : file -> dset).
Hypothesis read_write : forall d, read (write d) = d.

Lemma save_load (rs : rss) (tws : list twr) (f : file) :
  save eqbN str nanV zeroF write rs tws = Some f -> asm rs tws = Some (load read f).
Proof.
  unfold save, load. destruct (asm rs tws) as [d|]; simpl; intros H; [|discriminate H].
  inversion H. rewrite read_write. reflexivity.
Qed.

Notation save' := (save eqbN str nanV zeroF write).

Lemma C18_roundtrip_l (rs : rss) (tws : list twr) (f : file) :
  save' rs tws = Some f -> asm rs tws = Some (load read f).
Proof. exact (save_load rs tws f). Qed.

Lemma C18_assembly_l (rs : rss) (tws : list twr) (f : file) :
  NoDup (names rs) -> save' rs tws = Some f -> asm_facts rs (load read f).
Proof.
  intros Hnd H. apply assembly_spec with tws; [assumption|]. apply save_load. assumption.
Qed.

Lemma C18_labels_l (rs : rss) (tws : list twr) (f : file) :
  save' rs tws = Some f -> labels_facts rs tws (load read f).
Proof. intros H. apply labels_spec. apply save_load. assumption. Qed.

Lemma C18_save_succeeds_l (rs : rss) (tws : list twr) n0 r0 l0' rest :
  rs = (n0, r0 :: l0') :: rest ->
  (forall nm l, In (nm, l) rs -> length l <= length (r0 :: l0')) ->
  (forall nm, In nm (names rs) -> In nm (map (@tw_name N V) tws)) ->
  x_of (r_3d r0) (r_X r0) <> None -> y_of (r_3d r0) (r_Y r0) <> None ->
  (r_3d r0 = true -> z_of (r_Z r0) <> None) ->
  exists f, save' rs tws = Some f.
Proof.
  intros Hrs Hb Hc Hx Hy Hz.
  destruct (save_succeeds rs tws n0 r0 l0' rest Hrs Hb Hc Hx Hy Hz) as [d Hd].
  unfold save. rewrite Hd. exists (write d). reflexivity.
Qed.

Lemma C18_select_l (rs : rss) (tws : list twr) (f : file) n0 l0 rest :
  rs = (n0, l0) :: rest -> NoDup (names rs) -> save' rs tws = Some f ->
  (* by tower name *)
  (forall ti nm l, nth_error rs ti = Some (nm, l) ->
     (forall nm' l', In (nm', l') rs -> length l' = length l) ->
     exists s tw, sel_tower eqbN (load read f) nm = Some s /\
       ts_fp s = map (@r_flx T V F A) l /\ ts_conc s = map (@r_conc T V F A) l /\
       In tw tws /\ tw_name tw = nm /\
       ts_lat s = tw_lat tw /\ ts_lon s = tw_lon tw /\ ts_zm s = tw_zm tw) /\
  (* by time label *)
  (NoDup (map (fun r => str (@r_stamp T V F A r)) l0) ->
   forall t rt, nth_error l0 t = Some rt ->
     exists s, sel_time eqbL (load read f) (str (r_stamp rt)) = Some s /\
       tm_ustar s = uval rt /\ tm_mol s = r_mol rt /\ tm_ws s = r_ws rt /\ tm_wd s = r_wd rt /\
       length (tm_fp s) = length rs /\ length (tm_conc s) = length rs /\
       forall ti nm l r, nth_error rs ti = Some (nm, l) -> nth_error l t = Some r ->
         nth_error (tm_fp s) ti = Some (r_flx r) /\ nth_error (tm_conc s) ti = Some (r_conc r)) /\
  (* by both *)
  (NoDup (map (fun r => str (@r_stamp T V F A r)) l0) ->
   forall ti nm l t rt r, nth_error rs ti = Some (nm, l) -> nth_error l0 t = Some rt -> nth_error l t = Some r ->
     sel_block eqbN eqbL (load read f) nm (str (r_stamp rt)) = Some (r_flx r, r_conc r)).
Proof.
  intros Hrs Hnd H. apply save_load in H.
  split; [|split].
  - intros ti nm l Hn Hrect. apply (select_tower_spec rs tws _ ti nm l Hnd H Hn Hrect).
  - intros Hndl t rt Ht. apply (select_time_spec rs tws _ n0 l0 rest t rt Hrs Hnd Hndl H Ht).
  - intros Hndl ti nm l t rt r Hn Ht Hr.
    apply (select_block_spec rs tws _ n0 l0 rest ti nm l t rt r Hrs Hnd Hndl H Hn Ht Hr).
Qed.

End Library.

End NetcdfProofs.

(* ---------- the ORIGINAL positional labelling is refuted ---------- *)

Definition wres (k : nat) : @result nat nat nat nat :=
  mkRes (M1 [0]) (M1 [0]) (M1 []) false (10 + k) (20 + k) 0 (Some 1) 2 3 4.
Definition wtowers : list (@tower nat nat) := [mkTower 1 51 81 2; mkTower 2 52 82 3; mkTower 3 53 83 4].
Definition wrev : @results nat nat nat nat nat := [(3, [wres 3]); (2, [wres 2]); (1, [wres 1])].
Definition wsub : @results nat nat nat nat nat := [(2, [wres 2]); (3, [wres 3])].

Lemma labels_orig_refuted :
  (exists d,
     NoDup (names wrev) /\ NoDup (map (@tw_name nat nat) wtowers) /\
     names wrev = rev (map (@tw_name nat nat) wtowers) /\
     assemble_orig Nat.eqb (fun t : nat => t) 0 0 wrev wtowers = Some d /\
     exists ti nm tw, nth_error (d_tower d) ti = Some nm /\ In tw wtowers /\ tw_name tw = nm /\
        nth_error (d_lat d) ti <> Some (tw_lat tw)) /\
  (NoDup (names wsub) /\ incl (names wsub) (map (@tw_name nat nat) wtowers) /\
   assemble_orig Nat.eqb (fun t : nat => t) 0 0 wsub wtowers = None /\
   assemble Nat.eqb (fun t : nat => t) 0 0 wsub wtowers <> None).
Proof.
  split.
  - eexists. split; [|split; [|split; [|split]]].
    + vm_compute. repeat constructor; simpl; intuition discriminate.
    + vm_compute. repeat constructor; simpl; intuition discriminate.
    + reflexivity.
    + vm_compute. reflexivity.
    + exists 0, 3, (mkTower 3 53 83 4). vm_compute.
      split; [reflexivity|]. split; [right; right; left; reflexivity|]. split; [reflexivity|].
      intros H. discriminate H.
  - split; [|split; [|split]].
    + vm_compute. repeat constructor; simpl; intuition discriminate.
    + vm_compute. intros a Ha. simpl in Ha. simpl. intuition.
    + vm_compute. reflexivity.
    + vm_compute. intros H. discriminate H.
Qed.
