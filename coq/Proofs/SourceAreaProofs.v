(* Lemmas about Model/SourceArea.v (exact rationals; no axioms). *)
From Coq Require Import List Arith QArith Qabs Bool ZArith Lia Lqa Permutation.
From BL Require Import Model.SourceArea Model.SourceAreaExec.
Import ListNotations.
Open Scope Q_scope.

(* ------------------------------------------------------------------ sums *)

Lemma sumQ_app a b : sumQ (a ++ b) == sumQ a + sumQ b.
Proof. induction a as [|x a IH]; simpl; [lra|]. rewrite IH. lra. Qed.

Lemma sumQ_nonneg l : nonneg l -> 0 <= sumQ l.
Proof. induction 1 as [|x l Hx _ IH]; simpl; lra. Qed.

Lemma sumQ_perm a b : Permutation a b -> sumQ a == sumQ b.
Proof. induction 1 as [|x a b _ IH|x y a|a b c _ IH1 _ IH2]; simpl; lra. Qed.

Lemma nth_nonneg f i : nonneg f -> 0 <= nth i f 0.
Proof.
  intros H. revert i. induction H as [|x l Hx _ IH]; intros [|i]; simpl; try lra. apply IH.
Qed.

Lemma gather_nonneg f idx : nonneg f -> nonneg (gather f idx).
Proof. intros H. unfold gather, nonneg. apply Forall_forall. intros x Hx.
  apply in_map_iff in Hx. destruct Hx as [i [<- _]]. apply nth_nonneg, H. Qed.

Lemma gather_length f idx : length (gather f idx) = length idx.
Proof. apply map_length. Qed.

Lemma gather_app f a b : gather f (a ++ b) = gather f a ++ gather f b.
Proof. apply map_app. Qed.

Lemma gather_seq f : gather f (seq 0 (length f)) = f.
Proof.
  unfold gather. induction f as [|x f IH]; [reflexivity|].
  cbn [length seq map nth]. f_equal. rewrite <- seq_shift, map_map. exact IH.
Qed.

Lemma gather_nth f idx k : (k < length idx)%nat -> nth k (gather f idx) 0 = nth (nth k idx 0%nat) f 0.
Proof.
  intros H. unfold gather.
  rewrite (nth_indep _ 0 (nth 0%nat f 0)) by (rewrite map_length; exact H).
  change (nth 0%nat f 0) with ((fun i => nth i f 0) 0%nat). apply map_nth.
Qed.

Lemma sum_over_perm f a b : Permutation a b -> sum_over f a == sum_over f b.
Proof. intros H. apply sumQ_perm. apply Permutation_map, H. Qed.

Lemma sum_over_app f a b : sum_over f (a ++ b) == sum_over f a + sum_over f b.
Proof. unfold sum_over. rewrite gather_app. apply sumQ_app. Qed.

Lemma sum_over_nonneg f a : nonneg f -> 0 <= sum_over f a.
Proof. intros H. apply sumQ_nonneg, gather_nonneg, H. Qed.

Lemma sum_over_cons f c a : sum_over f (c :: a) == nth c f 0 + sum_over f a.
Proof. unfold sum_over. simpl. lra. Qed.

Lemma sum_over_all f : sum_over f (seq 0 (length f)) == sumQ f.
Proof. unfold sum_over. rewrite gather_seq. lra. Qed.

Lemma sum_filter_le f p a : nonneg f -> sum_over f (filter p a) <= sum_over f a.
Proof.
  intros H. induction a as [|x a IH]; simpl; [unfold sum_over; simpl; lra|].
  pose proof (nth_nonneg f x H) as Hx.
  pose proof (sum_over_cons f x a) as E1. pose proof (sum_over_cons f x (filter p a)) as E2.
  destruct (p x); lra.
Qed.

Lemma sum_filter_split f p a :
  sum_over f a == sum_over f (filter p a) + sum_over f (filter (fun i => negb (p i)) a).
Proof.
  induction a as [|x a IH]; simpl; [unfold sum_over; simpl; lra|].
  pose proof (sum_over_cons f x a) as E1. pose proof (sum_over_cons f x (filter p a)) as E2.
  pose proof (sum_over_cons f x (filter (fun i => negb (p i)) a)) as E3.
  destruct (p x); simpl; lra.
Qed.

Lemma filter_none {A} (p : A -> bool) l : (forall x, In x l -> p x = false) -> filter p l = [].
Proof.
  induction l as [|x l IH]; intros H; simpl; [reflexivity|].
  rewrite (H x) by (left; reflexivity). apply IH. intros y Hy. apply H. right; exact Hy.
Qed.

Lemma filter_all {A} (p : A -> bool) l : (forall x, In x l -> p x = true) -> filter p l = l.
Proof.
  induction l as [|x l IH]; intros H; simpl; [reflexivity|].
  rewrite (H x) by (left; reflexivity). f_equal. apply IH. intros y Hy. apply H. right; exact Hy.
Qed.

Lemma Permutation_filter {A} (p : A -> bool) a b : Permutation a b -> Permutation (filter p a) (filter p b).
Proof.
  induction 1 as [|x a b _ IH|x y a|a b c _ IH1 _ IH2]; simpl.
  - constructor.
  - destruct (p x); [constructor|]; exact IH.
  - destruct (p x), (p y); try apply Permutation_refl. apply perm_swap.
  - eapply Permutation_trans; eassumption.
Qed.

(* ------------------------------------------------------------------ firstn / skipn / nth *)

Lemma in_firstn_nth {A} (d : A) m l x : In x (firstn m l) -> exists j, (j < m)%nat /\ (j < length l)%nat /\ nth j l d = x.
Proof.
  revert l. induction m as [|m IH]; intros [|y l] H; simpl in H; try contradiction.
  destruct H as [->|H].
  - exists 0%nat. simpl. repeat split; lia.
  - destruct (IH l H) as [j [H1 [H2 H3]]]. exists (S j). simpl. repeat split; try lia. exact H3.
Qed.

Lemma in_skipn_nth {A} (d : A) m l x : In x (skipn m l) -> exists j, (m <= j)%nat /\ (j < length l)%nat /\ nth j l d = x.
Proof.
  revert l. induction m as [|m IH]; intros l H.
  - simpl in H. destruct (In_nth l x d H) as [j [H1 H2]]. exists j. repeat split; try lia. exact H2.
  - destruct l as [|y l]; simpl in H; [contradiction|].
    destruct (IH l H) as [j [H1 [H2 H3]]]. exists (S j). simpl. repeat split; try lia. exact H3.
Qed.

Lemma in_firstn_in {A} m (l : list A) x : In x (firstn m l) -> In x l.
Proof.
  revert l. induction m as [|m IH]; intros [|y l] H; simpl in H; try contradiction.
  destruct H as [->|H]; [left; reflexivity|right; apply IH, H].
Qed.

Lemma NoDup_firstn {A} m (l : list A) : NoDup l -> NoDup (firstn m l).
Proof.
  intros H. revert m. induction H as [|x l Hx Hl IH]; intros [|m]; simpl; try constructor.
  - intros C. apply Hx. eapply in_firstn_in, C.
  - apply IH.
Qed.

Lemma split_at {A} (d : A) k l : (k < length l)%nat -> l = firstn k l ++ nth k l d :: skipn (S k) l.
Proof.
  revert l. induction k as [|k IH]; intros [|y l] H; simpl in H; try lia; simpl.
  - reflexivity.
  - f_equal. apply IH. lia.
Qed.

Lemma sumQ_firstn_S l k : (k < length l)%nat -> sumQ (firstn (S k) l) == sumQ (firstn k l) + nth k l 0.
Proof.
  revert l. induction k as [|k IH]; intros [|y l] H; simpl in H; try lia.
  - simpl. lra.
  - change (firstn (S (S k)) (y :: l)) with (y :: firstn (S k) l).
    change (firstn (S k) (y :: l)) with (y :: firstn k l).
    cbn [sumQ fold_right nth]. fold (sumQ (firstn (S k) l)). fold (sumQ (firstn k l)).
    rewrite IH by lia. lra.
Qed.

Lemma nonneg_firstn l k : nonneg l -> nonneg (firstn k l).
Proof.
  intros H. revert k. induction H as [|x l Hx Hl IH]; intros [|k]; simpl; try constructor; auto.
  apply IH.
Qed.

Lemma sumQ_firstn_mono l i j : nonneg l -> (i <= j)%nat -> sumQ (firstn i l) <= sumQ (firstn j l).
Proof.
  intros Hl. revert i j. induction Hl as [|x l Hx Hl IH]; intros i j Hij.
  - rewrite !firstn_nil. lra.
  - destruct i as [|i]; destruct j as [|j]; try lia; simpl.
    + lra.
    + fold (sumQ (firstn j l)). pose proof (sumQ_nonneg _ (nonneg_firstn l j Hl)). lra.
    + fold (sumQ (firstn i l)). fold (sumQ (firstn j l)). specialize (IH i j ltac:(lia)). lra.
Qed.

Lemma sumQ_firstn_all l k : (length l <= k)%nat -> sumQ (firstn k l) == sumQ l.
Proof. intros H. rewrite firstn_all2 by exact H. lra. Qed.

(* ------------------------------------------------------------------ cumsum, shift *)

Lemma cumsum_from_length acc l : length (cumsum_from acc l) = length l.
Proof. revert acc. induction l as [|x l IH]; intros acc; simpl; [reflexivity|]. rewrite IH. reflexivity. Qed.

Lemma cumsum_from_nth acc l k : (k < length l)%nat ->
  nth k (cumsum_from acc l) 0 == acc + sumQ (firstn (S k) l).
Proof.
  revert acc k. induction l as [|x l IH]; intros acc k H; simpl in H; [lia|].
  destruct k as [|k].
  - simpl. lra.
  - cbn [cumsum_from nth]. rewrite IH by lia.
    change (firstn (S (S k)) (x :: l)) with (x :: firstn (S k) l). cbn [sumQ fold_right].
    fold (sumQ (firstn (S k) l)). lra.
Qed.

Lemma cumsum_nth l k : (k < length l)%nat -> nth k (cumsum l) 0 == sumQ (firstn (S k) l).
Proof. intros H. unfold cumsum. rewrite cumsum_from_nth by exact H. lra. Qed.

Lemma removelast_nth {A} (d : A) l k : (S k < length l)%nat -> nth k (removelast l) d = nth k l d.
Proof.
  revert k. induction l as [|x l IH]; intros k H; simpl in H; [lia|].
  destruct l as [|y l]; [simpl in H; lia|].
  destruct k as [|k]; [reflexivity|].
  change (removelast (x :: y :: l)) with (x :: removelast (y :: l)). cbn [nth]. apply IH. simpl. simpl in H. lia.
Qed.

Lemma removelast_length {A} (l : list A) : length (removelast l) = (length l - 1)%nat.
Proof.
  induction l as [|x l IH]; [reflexivity|]. destruct l as [|y l]; [reflexivity|].
  change (removelast (x :: y :: l)) with (x :: removelast (y :: l)). cbn [length]. rewrite IH. simpl. lia.
Qed.

Lemma shift_length l : length (shift l) = length l.
Proof. destruct l as [|x l]; [reflexivity|]. unfold shift. cbn [length]. rewrite removelast_length. simpl. lia. Qed.

Lemma shift_cumsum_nth l k : (k < length l)%nat -> nth k (shift (cumsum l)) 0 == sumQ (firstn k l).
Proof.
  intros H. destruct l as [|x l]; [simpl in H; lia|].
  unfold cumsum. cbn [cumsum_from shift].
  destruct k as [|k]; [simpl; lra|].
  cbn [nth]. rewrite removelast_nth.
  2:{ cbn [length]. rewrite cumsum_from_length. simpl in H. lia. }
  change ((0 + x) :: cumsum_from (0 + x) l) with (cumsum_from 0 (x :: l)).
  rewrite cumsum_from_nth by (simpl in *; lia).
  lra.
Qed.

Lemma last_nth {A} (d : A) l : last l d = nth (length l - 1) l d.
Proof.
  induction l as [|x l IH]; [reflexivity|]. destruct l as [|y l]; [reflexivity|].
  change (last (x :: y :: l) d) with (last (y :: l) d). rewrite IH. simpl. rewrite Nat.sub_0_r. reflexivity.
Qed.

(* ------------------------------------------------------------------ scatter *)

Lemma upd_length l i v : length (upd l i v) = length l.
Proof. revert i. induction l as [|x l IH]; intros [|i]; simpl; try reflexivity. rewrite IH. reflexivity. Qed.

Lemma upd_same l i v d : (i < length l)%nat -> nth i (upd l i v) d = v.
Proof. revert i. induction l as [|x l IH]; intros [|i] H; simpl in *; try lia; [reflexivity|]. apply IH. lia. Qed.

Lemma upd_other l i j v d : i <> j -> nth j (upd l i v) d = nth j l d.
Proof.
  revert i j. induction l as [|x l IH]; intros [|i] [|j] H; simpl; try reflexivity; try congruence.
  apply IH. congruence.
Qed.

Definition scat (acc : list Q) (idx : list nat) (vals : list Q) : list Q :=
  fold_left (fun acc iv => upd acc (fst iv) (snd iv)) (combine idx vals) acc.

Lemma scat_length idx : forall vals acc, length (scat acc idx vals) = length acc.
Proof.
  unfold scat. induction idx as [|i idx IH]; intros [|v vals] acc; simpl; try reflexivity.
  rewrite IH. apply upd_length.
Qed.

Lemma scat_notin idx : forall vals acc j d, ~ In j idx -> nth j (scat acc idx vals) d = nth j acc d.
Proof.
  unfold scat. induction idx as [|i idx IH]; intros [|v vals] acc j d H; simpl; try reflexivity.
  rewrite IH by (intros C; apply H; right; exact C).
  apply upd_other. intros ->. apply H. left; reflexivity.
Qed.

Lemma scat_nth idx : forall vals acc k d,
  NoDup idx -> length vals = length idx -> (forall i, In i idx -> (i < length acc)%nat) ->
  (k < length idx)%nat -> nth (nth k idx 0%nat) (scat acc idx vals) d = nth k vals d.
Proof.
  induction idx as [|i idx IH]; intros [|v vals] acc k d Hnd Hlen Hin Hk; simpl in *; try lia.
  inversion Hnd as [|? ? Hni Hnd']; subst.
  destruct k as [|k].
  - change (scat acc (i :: idx) (v :: vals)) with (scat (upd acc i v) idx vals).
    rewrite scat_notin by exact Hni. apply upd_same. apply Hin. left; reflexivity.
  - change (scat acc (i :: idx) (v :: vals)) with (scat (upd acc i v) idx vals).
    apply IH; try assumption; try lia.
    intros j Hj. rewrite upd_length. apply Hin. right; exact Hj.
Qed.

(* ------------------------------------------------------------------ permutations of cells *)

Section Perm.
Variable n : nat.
Variable order : list nat.
Hypothesis Hperm : Permutation order (seq 0 n).

Lemma perm_length : length order = n.
Proof. rewrite (Permutation_length Hperm). apply seq_length. Qed.

Lemma perm_NoDup : NoDup order.
Proof. apply (Permutation_NoDup (Permutation_sym Hperm)). apply seq_NoDup. Qed.

Lemma perm_lt i : In i order -> (i < n)%nat.
Proof. intros H. apply (Permutation_in _ Hperm) in H. apply in_seq in H. lia. Qed.

Lemma perm_nth_lt k : (k < n)%nat -> (nth k order 0 < n)%nat.
Proof. intros H. apply perm_lt. apply nth_In. rewrite perm_length. exact H. Qed.

Lemma perm_pos c : (c < n)%nat -> exists k, (k < n)%nat /\ nth k order 0%nat = c.
Proof.
  intros H. assert (Hin : In c order).
  { apply (Permutation_in _ (Permutation_sym Hperm)). apply in_seq. lia. }
  destruct (In_nth order c 0%nat Hin) as [k [H1 H2]]. exists k. rewrite perm_length in H1. auto.
Qed.

Lemma perm_inj i j : (i < n)%nat -> (j < n)%nat -> nth i order 0%nat = nth j order 0%nat -> i = j.
Proof.
  intros Hi Hj. apply (proj1 (NoDup_nth order 0%nat) perm_NoDup); rewrite perm_length; assumption.
Qed.
End Perm.

(* ------------------------------------------------------------------ get_source_area: value at a position *)

Lemma gsa_length f order : length (get_source_area f order) = length order.
Proof. unfold get_source_area, scatter. fold (scat (repeat 0 (length order)) order (shift (cumsum (gather f order)))).
  rewrite scat_length. apply repeat_length. Qed.

Lemma gsa_at_pos f order k : Permutation order (seq 0 (length f)) -> (k < length f)%nat ->
  nth (nth k order 0%nat) (get_source_area f order) 0 == sumQ (firstn k (gather f order)).
Proof.
  intros Hp Hk. pose proof (perm_length _ _ Hp) as Hl.
  unfold get_source_area, scatter.
  fold (scat (repeat 0 (length order)) order (shift (cumsum (gather f order)))).
  rewrite scat_nth.
  - apply shift_cumsum_nth. rewrite gather_length. lia.
  - apply (perm_NoDup _ _ Hp).
  - rewrite shift_length. unfold cumsum. rewrite cumsum_from_length. apply gather_length.
  - intros i Hi. rewrite repeat_length, Hl. apply (perm_lt _ _ Hp), Hi.
  - lia.
Qed.

Lemma firstn_gather f order k : firstn k (gather f order) = gather f (firstn k order).
Proof. apply firstn_map. Qed.

(* ------------------------------------------------------------------ the decomposition around a position *)

Section Around.
Variables (f g : list Q) (order : list nat).
Hypothesis Hlen : length g = length f.
Hypothesis Hf : nonneg f.
Hypothesis Hs : sorts_desc g order.

Let n := length f.

Lemma Hp_f : Permutation order (seq 0 (length f)).
Proof. destruct Hs as [H _]. rewrite Hlen in H. exact H. Qed.

Lemma desc_pos i j : (i <= j)%nat -> (j < length f)%nat ->
  nth (nth j order 0%nat) g 0 <= nth (nth i order 0%nat) g 0.
Proof.
  intros Hij Hj. destruct Hs as [_ Hd]. pose proof (perm_length _ _ Hp_f) as Hl.
  specialize (Hd i j Hij). rewrite gather_length in Hd. specialize (Hd ltac:(lia)).
  rewrite !gather_nth in Hd by lia. exact Hd.
Qed.

Variable k : nat.
Hypothesis Hk : (k < length f)%nat.
Let c := nth k order 0%nat.
Let P := firstn k order.
Let R := skipn (S k) order.

Lemma order_split : order = P ++ c :: R.
Proof. apply split_at. rewrite (perm_length _ _ Hp_f). exact Hk. Qed.

Lemma value_is_sum_P : nth c (get_source_area f order) 0 == sum_over f P.
Proof. unfold c. rewrite gsa_at_pos by (try apply Hp_f; exact Hk). rewrite firstn_gather. unfold sum_over, P. lra. Qed.

Lemma P_spec x : In x P -> (x < length f)%nat /\ x <> c /\ nth c g 0 <= nth x g 0.
Proof.
  intros H. pose proof (perm_length _ _ Hp_f) as Hl.
  destruct (in_firstn_nth 0%nat _ _ _ H) as [j [H1 [H2 H3]]]. subst x.
  split; [apply (perm_nth_lt _ _ Hp_f); lia|]. split.
  - intros E. apply (perm_inj _ _ Hp_f) in E; lia.
  - apply desc_pos; lia.
Qed.

Lemma R_spec x : In x R -> (x < length f)%nat /\ x <> c /\ nth x g 0 <= nth c g 0.
Proof.
  intros H. pose proof (perm_length _ _ Hp_f) as Hl.
  destruct (in_skipn_nth 0%nat _ _ _ H) as [j [H1 [H2 H3]]]. subst x.
  split; [apply (perm_nth_lt _ _ Hp_f); lia|]. split.
  - intros E. apply (perm_inj _ _ Hp_f) in E; lia.
  - apply desc_pos; lia.
Qed.

Definition gt_c (i : nat) : bool := Qlt_bool (nth c g 0) (nth i g 0).
Definition geo_c (i : nat) : bool := negb (Nat.eqb i c) && Qle_bool (nth c g 0) (nth i g 0).

Lemma Qlt_bool_iff a b : Qlt_bool a b = true <-> a < b.
Proof.
  unfold Qlt_bool. rewrite negb_true_iff. split; intros H.
  - destruct (Qlt_le_dec a b) as [L|L]; [exact L|]. apply Qle_bool_iff in L. congruence.
  - destruct (Qle_bool b a) eqn:E; [|reflexivity]. apply Qle_bool_iff in E. lra.
Qed.

Lemma Qlt_bool_false a b : Qlt_bool a b = false <-> b <= a.
Proof.
  unfold Qlt_bool. rewrite negb_false_iff. apply Qle_bool_iff.
Qed.

Lemma S_gt_eq : S_gt f g c == sum_over f (filter gt_c P).
Proof.
  unfold S_gt. fold gt_c.
  rewrite (sum_over_perm f _ _ (Permutation_filter gt_c _ _ (Permutation_sym Hp_f))).
  rewrite order_split at 1. rewrite filter_app. cbn [filter].
  assert (Hc : gt_c c = false) by (apply Qlt_bool_false; lra).
  rewrite Hc.
  rewrite (filter_none gt_c R).
  2:{ intros x Hx. apply Qlt_bool_false. apply R_spec, Hx. }
  rewrite app_nil_r. lra.
Qed.

Lemma S_ge_other_eq : S_ge_other f g c == sum_over f P + sum_over f (filter geo_c R).
Proof.
  unfold S_ge_other. fold geo_c.
  rewrite (sum_over_perm f _ _ (Permutation_filter geo_c _ _ (Permutation_sym Hp_f))).
  rewrite order_split at 1. rewrite filter_app. cbn [filter].
  assert (Hc : geo_c c = false) by (unfold geo_c; rewrite Nat.eqb_refl; reflexivity).
  rewrite Hc.
  rewrite (filter_all geo_c P).
  2:{ intros x Hx. destruct (P_spec x Hx) as [_ [H1 H2]]. unfold geo_c.
      apply andb_true_iff. split.
      - apply negb_true_iff, Nat.eqb_neq, H1.
      - apply Qle_bool_iff, H2. }
  apply sum_over_app.
Qed.

Lemma bounds_at_pos :
  S_gt f g c <= nth c (get_source_area f order) 0 /\
  nth c (get_source_area f order) 0 <= S_ge_other f g c.
Proof.
  rewrite value_is_sum_P, S_gt_eq, S_ge_other_eq. split.
  - apply sum_filter_le, Hf.
  - pose proof (sum_over_nonneg f (filter geo_c R) Hf). lra.
Qed.

(* exact form: the value is the sum over the strictly larger cells plus the sum over SOME of
   the other cells tied with c *)
Lemma exact_at_pos :
  exists T, NoDup T /\
    (forall i, In i T -> (i < length f)%nat /\ i <> c /\ nth i g 0 == nth c g 0) /\
    nth c (get_source_area f order) 0 == S_gt f g c + sum_over f T.
Proof.
  exists (filter (fun i => negb (gt_c i)) P). split; [|split].
  - apply NoDup_filter. unfold P.
    apply NoDup_firstn. apply (perm_NoDup _ _ Hp_f).
  - intros i Hi. apply filter_In in Hi. destruct Hi as [Hi Hn].
    destruct (P_spec i Hi) as [H1 [H2 H3]]. split; [exact H1|]. split; [exact H2|].
    apply negb_true_iff in Hn. apply Qlt_bool_false in Hn. lra.
  - rewrite value_is_sum_P, S_gt_eq. apply sum_filter_split.
Qed.

Lemma range_at_pos :
  0 <= nth c (get_source_area f order) 0 /\
  nth c (get_source_area f order) 0 <= sumQ f - nth c f 0.
Proof.
  rewrite value_is_sum_P. split; [apply sum_over_nonneg, Hf|].
  rewrite <- sum_over_all. rewrite (sum_over_perm f _ _ (Permutation_sym Hp_f)).
  rewrite order_split at 1. rewrite sum_over_app, sum_over_cons.
  pose proof (sum_over_nonneg f R Hf). lra.
Qed.

End Around.

(* ------------------------------------------------------------------ cell-level statements *)

Lemma sorts_perm_f (f g : list Q) order : length g = length f -> sorts_desc g order -> Permutation order (seq 0 (length f)).
Proof. intros Hl [H _]. rewrite Hl in H. exact H. Qed.

Theorem rescaled_shape (f g : list Q) order : length g = length f -> sorts_desc g order ->
  length (get_source_area f order) = length f.
Proof. intros Hl Hs. rewrite gsa_length. apply (perm_length _ _ (sorts_perm_f f g order Hl Hs)). Qed.

Theorem rescaled_bounds f g order : length g = length f -> nonneg f -> sorts_desc g order ->
  forall c, (c < length f)%nat ->
  S_gt f g c <= nth c (get_source_area f order) 0 /\
  nth c (get_source_area f order) 0 <= S_ge_other f g c.
Proof.
  intros Hl Hf Hs c Hc.
  destruct (perm_pos _ _ (sorts_perm_f f g order Hl Hs) c Hc) as [k [Hk <-]].
  apply bounds_at_pos; assumption.
Qed.

Theorem rescaled_exact f g order : length g = length f -> nonneg f -> sorts_desc g order ->
  forall c, (c < length f)%nat ->
  exists T, NoDup T /\
    (forall i, In i T -> (i < length f)%nat /\ i <> c /\ nth i g 0 == nth c g 0) /\
    nth c (get_source_area f order) 0 == S_gt f g c + sum_over f T.
Proof.
  intros Hl Hf Hs c Hc.
  destruct (perm_pos _ _ (sorts_perm_f f g order Hl Hs) c Hc) as [k [Hk <-]].
  apply exact_at_pos; assumption.
Qed.

Theorem rescaled_range f g order : length g = length f -> nonneg f -> sorts_desc g order ->
  forall c, (c < length f)%nat ->
  0 <= nth c (get_source_area f order) 0 /\
  nth c (get_source_area f order) 0 <= sumQ f - nth c f 0 /\
  nth c (get_source_area f order) 0 <= sumQ f /\
  (0 < nth c f 0 -> nth c (get_source_area f order) 0 < sumQ f).
Proof.
  intros Hl Hf Hs c Hc.
  destruct (perm_pos _ _ (sorts_perm_f f g order Hl Hs) c Hc) as [k [Hk <-]].
  destruct (range_at_pos f g order Hl Hf Hs k Hk) as [H1 H2].
  pose proof (nth_nonneg f (nth k order 0%nat) Hf) as H3.
  split; [exact H1|]. split; [exact H2|]. split; [lra|]. intros H4. lra.
Qed.

Theorem rescaled_antitone f g order : length g = length f -> nonneg f -> sorts_desc g order ->
  forall a b, (a < length f)%nat -> (b < length f)%nat -> nth a g 0 < nth b g 0 ->
  nth b (get_source_area f order) 0 + nth b f 0 <= nth a (get_source_area f order) 0.
Proof.
  intros Hl Hf Hs a b Ha Hb Hab.
  pose proof (sorts_perm_f f g order Hl Hs) as Hp.
  pose proof (perm_length _ _ Hp) as Hlen.
  destruct (perm_pos _ _ Hp a Ha) as [ka [Hka Ea]].
  destruct (perm_pos _ _ Hp b Hb) as [kb [Hkb Eb]].
  assert (Hlt : (kb < ka)%nat).
  { destruct (le_lt_dec ka kb) as [L|L]; [|exact L]. exfalso.
    pose proof (desc_pos f g order Hl Hs ka kb L Hkb) as D. rewrite Ea, Eb in D. lra. }
  rewrite <- Ea, <- Eb at 1.
  rewrite !gsa_at_pos by assumption.
  pose proof (sumQ_firstn_S (gather f order) kb ltac:(rewrite gather_length; lia)) as E1.
  rewrite gather_nth in E1 by lia. rewrite Eb in E1.
  pose proof (sumQ_firstn_mono (gather f order) (S kb) ka (gather_nonneg f order Hf) ltac:(lia)) as E2.
  lra.
Qed.

(* ------------------------------------------------------------------ strictly increasing transformations of g *)

Lemma nth_map_lt {A B} (F : A -> B) l k d d' : (k < length l)%nat -> nth k (map F l) d' = F (nth k l d).
Proof. intros H. rewrite (nth_indep _ d' (F d)) by (rewrite map_length; exact H). apply map_nth. Qed.

Section Transform.
Variable h : Q -> Q.
Hypothesis h_proper : forall x y, x == y -> h x == h y.
Hypothesis h_incr : forall x y, x < y -> h x < h y.

Lemma h_le x y : x <= y -> h x <= h y.
Proof. intros H. apply Qle_lteq in H. destruct H as [H|H]; [apply Qlt_le_weak, h_incr, H|]. rewrite (h_proper _ _ H). lra. Qed.

Lemma h_le_inv x y : h x <= h y -> x <= y.
Proof. intros H. destruct (Qlt_le_dec y x) as [L|L]; [|exact L]. apply h_incr in L. lra. Qed.

Lemma sorts_desc_transform g order : sorts_desc g order <-> sorts_desc (map h g) order.
Proof.
  unfold sorts_desc. rewrite map_length.
  split; intros [Hp Hd]; (split; [exact Hp|]); pose proof (perm_length _ _ Hp) as Hl;
    intros i j Hij Hj; rewrite gather_length in Hj;
    specialize (Hd i j Hij); rewrite gather_length in Hd; specialize (Hd Hj);
    rewrite !gather_nth in * by lia.
  - rewrite !(nth_map_lt h g _ 0 0) by (apply (perm_nth_lt _ _ Hp); lia). apply h_le, Hd.
  - rewrite !(nth_map_lt h g _ 0 0) in Hd by (apply (perm_nth_lt _ _ Hp); lia). apply h_le_inv, Hd.
Qed.
End Transform.

Definition untied (g : list Q) (c : nat) : Prop :=
  forall i, (i < length g)%nat -> i <> c -> ~ nth i g 0 == nth c g 0.

Lemma untied_value f g order : length g = length f -> nonneg f -> sorts_desc g order ->
  forall c, (c < length f)%nat -> untied g c -> nth c (get_source_area f order) 0 == S_gt f g c.
Proof.
  intros Hl Hf Hs c Hc Hu.
  destruct (rescaled_exact f g order Hl Hf Hs c Hc) as [T [_ [HT E]]].
  destruct T as [|i T].
  - rewrite E. unfold sum_over. simpl. lra.
  - exfalso. destruct (HT i (or_introl eq_refl)) as [H1 [H2 H3]]. apply (Hu i); try assumption. lia.
Qed.

Theorem transform_invariant f g (h : Q -> Q) o1 o2 :
  length g = length f -> nonneg f ->
  (forall x y, x == y -> h x == h y) -> (forall x y, x < y -> h x < h y) ->
  sorts_desc g o1 -> sorts_desc (map h g) o2 ->
  sorts_desc (map h g) o1 /\ sorts_desc g o2 /\
  forall c, (c < length f)%nat ->
    (S_gt f g c <= nth c (get_source_area f o1) 0 /\ nth c (get_source_area f o1) 0 <= S_ge_other f g c) /\
    (S_gt f g c <= nth c (get_source_area f o2) 0 /\ nth c (get_source_area f o2) 0 <= S_ge_other f g c) /\
    (untied g c -> nth c (get_source_area f o1) 0 == nth c (get_source_area f o2) 0).
Proof.
  intros Hl Hf Hp Hi H1 H2.
  assert (H1' : sorts_desc (map h g) o1) by (exact (proj1 (sorts_desc_transform h Hp Hi g o1) H1)).
  assert (H2' : sorts_desc g o2) by (exact (proj2 (sorts_desc_transform h Hp Hi g o2) H2)).
  split; [exact H1'|]. split; [exact H2'|].
  intros c Hc. split; [apply rescaled_bounds; assumption|]. split; [apply rescaled_bounds; assumption|].
  intros Hu. rewrite (untied_value f g o1) by assumption. rewrite (untied_value f g o2) by assumption. lra.
Qed.

(* ------------------------------------------------------------------ a common permutation of the cells *)

Lemma map_nth_seq {A} (d : A) l : map (fun i => nth i l d) (seq 0 (length l)) = l.
Proof.
  induction l as [|x l IH]; [reflexivity|].
  cbn [length seq map nth]. f_equal. rewrite <- seq_shift, map_map. exact IH.
Qed.

Definition compose_perm (pi order' : list nat) : list nat := map (fun k => nth k pi 0%nat) order'.

Lemma gather_compose x pi order' : (forall k, In k order' -> (k < length pi)%nat) ->
  gather x (compose_perm pi order') = gather (gather x pi) order'.
Proof.
  intros H. unfold compose_perm, gather at 1 3. rewrite map_map. apply map_ext_in.
  intros k Hk. symmetry. apply gather_nth. apply H, Hk.
Qed.

Theorem permutation_equivariant f g pi order' :
  length g = length f -> Permutation pi (seq 0 (length f)) ->
  sorts_desc (gather g pi) order' ->
  sorts_desc g (compose_perm pi order') /\
  forall i, (i < length f)%nat ->
    nth i (get_source_area (gather f pi) order') 0 ==
    nth (nth i pi 0%nat) (get_source_area f (compose_perm pi order')) 0.
Proof.
  intros Hl Hpi [Hp' Hd'].
  pose proof (perm_length _ _ Hpi) as Lpi.
  rewrite gather_length, Lpi in Hp'.
  pose proof (perm_length _ _ Hp') as Lo'.
  assert (Hin : forall k, In k order' -> (k < length pi)%nat).
  { intros k Hk. rewrite Lpi. apply (perm_lt _ _ Hp'), Hk. }
  assert (Hp : Permutation (compose_perm pi order') (seq 0 (length f))).
  { unfold compose_perm. eapply Permutation_trans; [apply Permutation_map, Hp'|].
    rewrite <- Lpi at 1. rewrite map_nth_seq. exact Hpi. }
  split.
  - split; [rewrite Hl; exact Hp|]. rewrite gather_compose by exact Hin. exact Hd'.
  - intros i Hi. destruct (perm_pos _ _ Hp' i Hi) as [k [Hk Ek]].
    assert (E : nth i pi 0%nat = nth k (compose_perm pi order') 0%nat).
    { unfold compose_perm. rewrite (nth_map_lt _ order' k 0%nat 0%nat) by lia. rewrite Ek. reflexivity. }
    rewrite E. rewrite <- Ek at 1.
    rewrite gsa_at_pos by (rewrite ?gather_length, ?Lpi; assumption).
    rewrite gsa_at_pos by assumption.
    rewrite gather_compose by exact Hin. lra.
Qed.

(* ------------------------------------------------------------------ searchsorted *)

Lemma ss_le_length a v : (searchsorted_left a v <= length a)%nat.
Proof. induction a as [|x a IH]; simpl; [lia|]. destruct (Qle_bool v x); simpl; lia. Qed.

Lemma ss_lt a v : forall j, (j < searchsorted_left a v)%nat -> nth j a 0 < v.
Proof.
  induction a as [|x a IH]; intros j H; simpl in H; [lia|].
  destruct (Qle_bool v x) eqn:E; [lia|].
  destruct j as [|j]; simpl.
  - destruct (Qlt_le_dec x v) as [L|L]; [exact L|]. apply Qle_bool_iff in L. congruence.
  - apply IH. lia.
Qed.

Lemma ss_ge a v : (searchsorted_left a v < length a)%nat -> v <= nth (searchsorted_left a v) a 0.
Proof.
  induction a as [|x a IH]; intros H; simpl in H; [lia|]. simpl.
  destruct (Qle_bool v x) eqn:E.
  - apply Qle_bool_iff, E.
  - simpl. apply IH. simpl in H. rewrite ?E in H. lia.
Qed.

Lemma ss_upper a v j : (j < length a)%nat -> v <= nth j a 0 -> (searchsorted_left a v <= j)%nat.
Proof.
  intros Hj Hv. destruct (le_lt_dec (searchsorted_left a v) j) as [L|L]; [exact L|].
  apply ss_lt in L. lra.
Qed.

Lemma ss_mono a v1 v2 : v1 <= v2 -> (searchsorted_left a v1 <= searchsorted_left a v2)%nat.
Proof.
  intros H. induction a as [|x a IH]; simpl; [lia|].
  destruct (Qle_bool v1 x) eqn:E1; [lia|].
  destruct (Qle_bool v2 x) eqn:E2; [|lia].
  apply Qle_bool_iff in E2. assert (L : v1 <= x) by lra. apply Qle_bool_iff in L. congruence.
Qed.

(* numpy's binary search returns the same index on a non-decreasing array *)
Definition asc (a : list Q) : Prop := forall i j, (i <= j)%nat -> (j < length a)%nat -> nth i a 0 <= nth j a 0.

Lemma bsearch_spec a v : asc a -> forall fuel lo hi,
  (lo <= hi)%nat -> (hi <= length a)%nat -> (hi - lo < fuel)%nat ->
  (forall j, (j < lo)%nat -> nth j a 0 < v) ->
  (forall j, (hi <= j)%nat -> (j < length a)%nat -> v <= nth j a 0) ->
  bsearch_left fuel a v lo hi = searchsorted_left a v.
Proof.
  intros Ha. induction fuel as [|fuel IH]; intros lo hi H1 H2 H3 Hlo Hhi; [lia|].
  cbn [bsearch_left]. destruct (lo <? hi)%nat eqn:E.
  - apply Nat.ltb_lt in E.
    assert (Hm : (lo <= lo + (hi - lo) / 2)%nat /\ (lo + (hi - lo) / 2 < hi)%nat).
    { pose proof (Nat.div_lt_upper_bound (hi - lo) 2 (hi - lo) ltac:(lia) ltac:(lia)). lia. }
    set (mid := (lo + (hi - lo) / 2)%nat) in *.
    destruct (Qlt_bool (nth mid a 0) v) eqn:C.
    + apply Qlt_bool_iff in C. apply IH; try lia.
      * intros j Hj. destruct (le_lt_dec lo j) as [L|L]; [|apply Hlo, L].
        assert (nth j a 0 <= nth mid a 0) by (apply Ha; lia). lra.
      * exact Hhi.
    + apply Qlt_bool_false in C. apply IH; try lia.
      * exact Hlo.
      * intros j Hj Hj2. assert (nth mid a 0 <= nth j a 0) by (apply Ha; lia). lra.
  - apply Nat.ltb_ge in E. assert (lo = hi) by lia. subst hi.
    apply Nat.le_antisymm.
    + destruct (le_lt_dec lo (searchsorted_left a v)) as [L|L]; [exact L|]. exfalso.
      pose proof (ss_le_length a v).
      assert (v <= nth (searchsorted_left a v) a 0) by (apply ss_ge; lia).
      assert (nth (searchsorted_left a v) a 0 < v) by (apply Hlo, L). lra.
    + destruct (le_lt_dec (searchsorted_left a v) lo) as [L|L]; [exact L|]. exfalso.
      assert (nth lo a 0 < v) by (apply ss_lt, L).
      pose proof (ss_le_length a v).
      assert (v <= nth lo a 0) by (apply Hhi; lia). lra.
Qed.

Lemma searchsorted_bin_eq a v : asc a -> searchsorted_left_bin a v = searchsorted_left a v.
Proof.
  intros Ha. unfold searchsorted_left_bin. apply bsearch_spec;
    [exact Ha|lia|lia|lia|intros j Hj; lia|intros j Hj1 Hj2; lia].
Qed.

(* ------------------------------------------------------------------ percentile *)

Lemma pf_unfold flat idx cell p : flat <> [] ->
  percentile_flat flat idx cell p =
  let sorted_vals := gather flat idx in
  let cs := map (fun x => x * cell) (cumsum sorted_vals) in
  let k := searchsorted_left cs (p * last cs 0) in
  Some (nth (Nat.min k (length sorted_vals - 1)) sorted_vals 0, (inject_Z (Z.of_nat k) + 1) * cell).
Proof. intros H. destruct flat as [|x r]; [congruence|reflexivity]. Qed.

Section Pct.
Variables (flat : list Q) (idx : list nat) (cell : Q).
Let sorted := gather flat idx.
Let cs := map (fun x => x * cell) (cumsum sorted).

Hypothesis Hne : flat <> [].
Hypothesis Hnn : nonneg flat.
Hypothesis Hs : sorts_desc flat idx.
Hypothesis Hcell : 0 <= cell.

Let n := length flat.

Lemma pct_n_pos : (0 < n)%nat.
Proof. unfold n. destruct flat; [congruence|simpl; lia]. Qed.

Lemma pct_perm : Permutation idx (seq 0 n).
Proof. apply Hs. Qed.

Lemma pct_len_sorted : length sorted = n.
Proof. unfold sorted. rewrite gather_length. apply (perm_length _ _ pct_perm). Qed.

Lemma pct_len_cs : length cs = n.
Proof. unfold cs, cumsum. rewrite map_length, cumsum_from_length. apply pct_len_sorted. Qed.

Lemma pct_cs_nth j : (j < n)%nat -> nth j cs 0 == sumQ (firstn (S j) sorted) * cell.
Proof.
  intros H. unfold cs. rewrite (nth_map_lt (fun x => x * cell) _ j 0 0).
  2:{ unfold cumsum. rewrite cumsum_from_length, pct_len_sorted. exact H. }
  rewrite cumsum_nth by (rewrite pct_len_sorted; exact H). lra.
Qed.

Lemma pct_sum_sorted : sumQ sorted == sumQ flat.
Proof.
  unfold sorted. fold (sum_over flat idx). rewrite (sum_over_perm flat _ _ pct_perm). apply sum_over_all.
Qed.

Lemma pct_total : last cs 0 == sumQ flat * cell.
Proof.
  rewrite last_nth, pct_len_cs. pose proof pct_n_pos.
  rewrite pct_cs_nth by lia. replace (S (n - 1)) with n by lia.
  rewrite sumQ_firstn_all by (rewrite pct_len_sorted; lia). rewrite pct_sum_sorted. lra.
Qed.

Lemma pct_total_nonneg : 0 <= last cs 0.
Proof. rewrite pct_total. pose proof (sumQ_nonneg flat Hnn). apply Qmult_le_0_compat; assumption. Qed.

Lemma pct_sorted_nonneg : nonneg sorted.
Proof. apply gather_nonneg, Hnn. Qed.

Lemma pct_desc i j : (i <= j)%nat -> (j < n)%nat -> nth j sorted 0 <= nth i sorted 0.
Proof. intros Hij Hj. destruct Hs as [_ Hd]. apply Hd; [exact Hij|]. fold sorted. rewrite pct_len_sorted. exact Hj. Qed.

Variable p : Q.
Let k := searchsorted_left cs (p * last cs 0).

Lemma pct_unfold : percentile_flat flat idx cell p =
  Some (nth (Nat.min k (n - 1)) sorted 0, (inject_Z (Z.of_nat k) + 1) * cell).
Proof.
  rewrite (pf_unfold flat idx cell p Hne). cbv zeta.
  fold sorted. fold cs. fold k. rewrite pct_len_sorted. reflexivity.
Qed.

Lemma pct_k_lt : p <= 1 -> (k < n)%nat.
Proof.
  intros Hp. pose proof pct_n_pos. pose proof pct_total_nonneg as Ht.
  assert (k <= n - 1)%nat; [|lia].
  apply ss_upper; [rewrite pct_len_cs; lia|].
  rewrite <- pct_len_cs, <- last_nth.
  assert (0 <= (1 - p) * last cs 0) by (apply Qmult_le_0_compat; lra). lra.
Qed.

Hypothesis Hcpos : 0 < cell.

Lemma pct_reaches : (k < n)%nat -> p * sumQ flat <= sumQ (firstn (S k) sorted).
Proof.
  intros Hk. pose proof (ss_ge cs (p * last cs 0)) as H. fold k in H.
  rewrite pct_len_cs in H. specialize (H Hk). rewrite pct_cs_nth in H by exact Hk.
  rewrite pct_total in H.
  apply (Qmult_le_r _ _ cell Hcpos). lra.
Qed.

Lemma pct_not_before m : (1 <= m <= k)%nat -> sumQ (firstn m sorted) < p * sumQ flat.
Proof.
  intros Hm. pose proof (ss_le_length cs (p * last cs 0)) as Hle. fold k in Hle. rewrite pct_len_cs in Hle.
  pose proof (ss_lt cs (p * last cs 0) (m - 1)%nat) as H. fold k in H. specialize (H ltac:(lia)).
  rewrite pct_cs_nth in H by lia. replace (S (m - 1)) with m in H by lia.
  rewrite pct_total in H.
  apply (Qmult_lt_r _ _ cell Hcpos). lra.
Qed.

End Pct.

Lemma inject_Z_S k : inject_Z (Z.of_nat (S k)) == inject_Z (Z.of_nat k) + 1.
Proof. rewrite Nat2Z.inj_succ, <- Z.add_1_r, inject_Z_plus. reflexivity. Qed.

Lemma length_firstn_le {A} m (l : list A) : (m <= length l)%nat -> length (firstn m l) = m.
Proof. intros H. rewrite firstn_length. lia. Qed.

Theorem percentile_least flat idx cell p :
  flat <> [] -> nonneg flat -> sorts_desc flat idx -> 0 < cell -> 0 <= p <= 1 ->
  exists k level area,
    percentile_flat flat idx cell p = Some (level, area) /\
    (k < length flat)%nat /\
    NoDup (firstn (S k) idx) /\ length (firstn (S k) idx) = S k /\
    (forall i, In i (firstn (S k) idx) -> (i < length flat)%nat) /\
    area == inject_Z (Z.of_nat (S k)) * cell /\
    p * sumQ flat <= sum_over flat (firstn (S k) idx) /\
    (forall m, (1 <= m <= k)%nat -> sum_over flat (firstn m idx) < p * sumQ flat) /\
    (0 < p * sumQ flat -> forall m, (m <= k)%nat -> sum_over flat (firstn m idx) < p * sumQ flat) /\
    In (nth k idx 0%nat) (firstn (S k) idx) /\ level = nth (nth k idx 0%nat) flat 0 /\
    (forall i, In i (firstn (S k) idx) -> level <= nth i flat 0) /\
    (forall i, (i < length flat)%nat -> ~ In i (firstn (S k) idx) -> nth i flat 0 <= level).
Proof.
  intros Hne Hnn Hs Hc [Hp0 Hp1].
  pose proof (pct_k_lt flat idx cell Hne Hnn Hs (Qlt_le_weak _ _ Hc) p Hp1) as Hk.
  set (k := searchsorted_left (map (fun x => x * cell) (cumsum (gather flat idx)))
              (p * last (map (fun x => x * cell) (cumsum (gather flat idx))) 0)) in *.
  pose proof (proj1 Hs) as Hperm. pose proof (perm_length _ _ Hperm) as Hlen.
  exists k, (nth (nth k idx 0%nat) flat 0), ((inject_Z (Z.of_nat k) + 1) * cell).
  split.
  { rewrite (pct_unfold flat idx cell Hne Hs p). fold k. rewrite Nat.min_l by lia.
    rewrite gather_nth by lia. reflexivity. }
  split; [exact Hk|].
  split; [apply NoDup_firstn, (perm_NoDup _ _ Hperm)|].
  split; [apply length_firstn_le; lia|].
  split; [intros i Hi; apply (perm_lt _ _ Hperm); eapply in_firstn_in, Hi|].
  split; [rewrite inject_Z_S; reflexivity|].
  split.
  { unfold sum_over. rewrite <- firstn_gather.
    apply (pct_reaches flat idx cell Hne Hnn Hs p Hc Hk). }
  split.
  { intros m Hm. unfold sum_over. rewrite <- firstn_gather.
    apply (pct_not_before flat idx cell Hne Hnn Hs p Hc m Hm). }
  split.
  { intros Hpos m Hm. destruct m as [|m]; [unfold sum_over; simpl; exact Hpos|].
    unfold sum_over. rewrite <- firstn_gather.
    apply (pct_not_before flat idx cell Hne Hnn Hs p Hc (S m)). lia. }
  assert (Hin : In (nth k idx 0%nat) (firstn (S k) idx)).
  { rewrite (split_at 0%nat k idx) at 2 by lia.
    rewrite firstn_app, length_firstn_le by lia. replace (S k - k)%nat with 1%nat by lia.
    apply in_or_app. right. simpl. left. reflexivity. }
  split; [exact Hin|]. split; [reflexivity|].
  split.
  - intros i Hi. destruct (in_firstn_nth 0%nat _ _ _ Hi) as [j [Hj1 [Hj2 <-]]].
    pose proof (pct_desc flat idx Hs j k ltac:(lia) Hk) as D.
    rewrite !gather_nth in D by lia. exact D.
  - intros i Hi Hni. destruct (perm_pos _ _ Hperm i Hi) as [j [Hj <-]].
    destruct (le_lt_dec j k) as [L|L].
    + exfalso. apply Hni. rewrite <- (firstn_skipn (S k) idx) at 1.
      rewrite app_nth1 by (rewrite length_firstn_le; lia). apply nth_In. rewrite length_firstn_le; lia.
    + pose proof (pct_desc flat idx Hs k j ltac:(lia) Hj) as D.
      rewrite !gather_nth in D by lia. exact D.
Qed.

Theorem percentile_monotone flat idx cell p1 p2 l1 a1 l2 a2 :
  nonneg flat -> sorts_desc flat idx -> 0 <= cell -> p1 <= p2 ->
  percentile_flat flat idx cell p1 = Some (l1, a1) ->
  percentile_flat flat idx cell p2 = Some (l2, a2) ->
  a1 <= a2 /\ l2 <= l1.
Proof.
  intros Hnn Hs Hc Hp E1 E2.
  assert (Hne : flat <> []) by (intros ->; discriminate).
  rewrite (pct_unfold flat idx cell Hne Hs) in E1, E2.
  injection E1 as <- <-. injection E2 as <- <-.
  pose proof (pct_total_nonneg flat idx cell Hne Hnn Hs Hc) as Ht.
  assert (Hn : (0 < length flat)%nat) by (destruct flat; [congruence|simpl; lia]).
  set (cs := map (fun x => x * cell) (cumsum (gather flat idx))) in *.
  assert (Hk : Nat.le (searchsorted_left cs (p1 * last cs 0)) (searchsorted_left cs (p2 * last cs 0))).
  { apply ss_mono. assert (0 <= (p2 - p1) * last cs 0) by (apply Qmult_le_0_compat; lra). lra. }
  split.
  - apply Qmult_le_compat_r; [|exact Hc].
    apply inj_le in Hk. rewrite Zle_Qle in Hk. lra.
  - apply (pct_desc flat idx Hs); lia.
Qed.

(* ------------------------------------------------------------------ scaling *)

Section Scale.
Variable s : Q.
Hypothesis Hs : 0 < s.
Definition R_s (x y : Q) : Prop := y == s * x.

Lemma nth_scale l : forall i, R_s (nth i l 0) (nth i (map (Qmult s) l) 0).
Proof. unfold R_s. induction l as [|x l IH]; intros [|i]; simpl; try lra. apply IH. Qed.

Lemma F2_gather flat idx : Forall2 R_s (gather flat idx) (gather (map (Qmult s) flat) idx).
Proof. induction idx as [|i idx IH]; simpl; constructor; [apply nth_scale|exact IH]. Qed.

Lemma F2_cumsum_from l l' : Forall2 R_s l l' -> forall acc acc', R_s acc acc' ->
  Forall2 R_s (cumsum_from acc l) (cumsum_from acc' l').
Proof.
  induction 1 as [|x y l l' Hxy _ IH]; intros acc acc' Ha; simpl; constructor.
  - unfold R_s in *. lra.
  - apply IH. unfold R_s in *. lra.
Qed.

Lemma F2_map_mul c l l' : Forall2 R_s l l' -> Forall2 R_s (map (fun x => x * c) l) (map (fun x => x * c) l').
Proof. induction 1 as [|x y l l' Hxy _ IH]; simpl; constructor; [|exact IH]. unfold R_s in *. rewrite Hxy. ring. Qed.

Lemma F2_last l l' : Forall2 R_s l l' -> R_s (last l 0) (last l' 0).
Proof.
  induction 1 as [|x y l l' Hxy Hl IH]; [unfold R_s; simpl; lra|].
  destruct Hl as [|x2 y2 l l' H2 Hl]; [exact Hxy|]. exact IH.
Qed.

Lemma F2_nth l l' : Forall2 R_s l l' -> forall i, R_s (nth i l 0) (nth i l' 0).
Proof. induction 1 as [|x y l l' Hxy _ IH]; intros [|i]; simpl; try (unfold R_s; lra); auto. Qed.

Lemma F2_length l l' : Forall2 R_s l l' -> length l = length l'.
Proof. induction 1; simpl; congruence. Qed.

Lemma F2_ss a a' : Forall2 R_s a a' -> forall v v', R_s v v' ->
  searchsorted_left a' v' = searchsorted_left a v.
Proof.
  induction 1 as [|x y a a' Hxy _ IH]; intros v v' Hv; simpl; [reflexivity|].
  unfold R_s in Hxy, Hv.
  destruct (Qle_bool v x) eqn:E; destruct (Qle_bool v' y) eqn:E'.
  - reflexivity.
  - exfalso. apply Qle_bool_iff in E. assert (L : v' <= y).
    { rewrite Hxy, Hv. apply Qmult_le_l; assumption. }
    apply Qle_bool_iff in L. congruence.
  - exfalso. apply Qle_bool_iff in E'. rewrite Hxy, Hv in E'. apply Qmult_le_l in E'; [|exact Hs].
    apply Qle_bool_iff in E'. congruence.
  - f_equal. apply IH. exact Hv.
Qed.

Theorem percentile_scaling flat idx cell p :
  match percentile_flat flat idx cell p, percentile_flat (map (Qmult s) flat) idx cell p with
  | Some (l, a), Some (l', a') => l' == s * l /\ a' == a
  | None, None => True
  | _, _ => False
  end.
Proof.
  destruct flat as [|x r]; [exact I|].
  set (flat := x :: r). change (map (Qmult s) flat) with (s * x :: map (Qmult s) r).
  unfold percentile_flat. change (s * x :: map (Qmult s) r) with (map (Qmult s) flat).
  pose proof (F2_gather flat idx) as G.
  assert (C : Forall2 R_s (map (fun x => x * cell) (cumsum (gather flat idx)))
                          (map (fun x => x * cell) (cumsum (gather (map (Qmult s) flat) idx)))).
  { apply F2_map_mul. apply F2_cumsum_from; [exact G|]. unfold R_s. lra. }
  assert (T : R_s (p * last (map (fun x => x * cell) (cumsum (gather flat idx))) 0)
                  (p * last (map (fun x => x * cell) (cumsum (gather (map (Qmult s) flat) idx))) 0)).
  { pose proof (F2_last _ _ C) as L. unfold R_s in *. rewrite L. ring. }
  rewrite (F2_ss _ _ C _ _ T). rewrite <- (F2_length _ _ G).
  split; [apply (F2_nth _ _ G)|reflexivity].
Qed.

Lemma scale_sorts flat idx : sorts_desc flat idx -> sorts_desc (map (Qmult s) flat) idx.
Proof.
  apply sorts_desc_transform.
  - intros x y H. rewrite H. reflexivity.
  - intros x y H. apply Qmult_lt_l; assumption.
Qed.
End Scale.

(* ------------------------------------------------------------------ boolean checkers used by the correspondence *)

Lemma is_perm_b_sound n order : is_perm_b n order = true -> Permutation order (seq 0 n).
Proof.
  unfold is_perm_b. intros H. apply andb_true_iff in H. destruct H as [H1 H2].
  apply Nat.eqb_eq in H1. apply Permutation_sym.
  apply NoDup_Permutation_bis; [apply seq_NoDup|rewrite seq_length; lia|].
  intros i Hi. rewrite forallb_forall in H2. specialize (H2 i Hi).
  apply existsb_exists in H2. destruct H2 as [j [Hj E]]. apply Nat.eqb_eq in E. subst j. exact Hj.
Qed.

Lemma desc_b_sound l : desc_b l = true -> desc l.
Proof.
  induction l as [|x l IH]; intros H i j Hij Hj; [simpl in Hj; lia|].
  assert (Hl : desc_b l = true /\ (forall y, nth 0 l x = y -> y <= x)).
  { destruct l as [|y l]; [split; [reflexivity|intros y <-; simpl; lra]|].
    cbn [desc_b] in H. apply andb_true_iff in H. destruct H as [H1 H2]. split; [exact H2|].
    intros z <-. simpl. apply Qle_bool_iff, H1. }
  destruct Hl as [Hl Hh]. specialize (IH Hl).
  destruct j as [|j]; [replace i with 0%nat by lia; lra|].
  destruct i as [|i].
  - cbn [nth]. simpl in Hj.
    assert (H0 : nth 0 l 0 <= x).
    { destruct l as [|y l]; [simpl in Hj; lia|]. apply (Hh y). reflexivity. }
    assert (nth j l 0 <= nth 0 l 0) by (apply IH; lia). lra.
  - cbn [nth]. apply IH; simpl in Hj; lia.
Qed.

Lemma sorts_desc_b_sound x order : sorts_desc_b x order = true -> sorts_desc x order.
Proof.
  unfold sorts_desc_b. intros H. apply andb_true_iff in H. destruct H as [H1 H2].
  split; [apply is_perm_b_sound, H1|apply desc_b_sound, H2].
Qed.

(* the cumulative sums the percentile search runs over are non-decreasing, so numpy's binary
   search and the linear specification agree *)
Lemma cs_asc flat idx cell : nonneg flat -> 0 <= cell -> asc (map (fun x => x * cell) (cumsum (gather flat idx))).
Proof.
  intros Hnn Hc i j Hij Hj. rewrite map_length in Hj. unfold cumsum in Hj. rewrite cumsum_from_length in Hj.
  rewrite !(nth_map_lt (fun x => x * cell) _ _ 0 0) by (unfold cumsum; rewrite cumsum_from_length; lia).
  rewrite !cumsum_nth by lia.
  apply Qmult_le_compat_r; [|exact Hc].
  apply sumQ_firstn_mono; [apply gather_nonneg, Hnn|lia].
Qed.

Theorem percentile_bin_eq flat idx cell p : nonneg flat -> 0 <= cell ->
  percentile_flat_bin flat idx cell p = percentile_flat flat idx cell p.
Proof.
  intros Hnn Hc. unfold percentile_flat_bin, percentile_flat. destruct flat as [|x r]; [reflexivity|].
  rewrite searchsorted_bin_eq by (apply cs_asc; assumption). reflexivity.
Qed.

(* ------------------------------------------------------------------ no set of fewer cells reaches the target *)

Lemma sum_over_le_const f L l : (forall i, In i l -> nth i f 0 <= L) ->
  sum_over f l <= inject_Z (Z.of_nat (length l)) * L.
Proof.
  induction l as [|x l IH]; intros H; [unfold sum_over, inject_Z; simpl; lra|].
  pose proof (sum_over_cons f x l) as E. cbn [length]. pose proof (inject_Z_S (length l)) as E2.
  assert (nth x f 0 <= L) by (apply H; left; reflexivity).
  assert (sum_over f l <= inject_Z (Z.of_nat (length l)) * L) by (apply IH; intros i Hi; apply H; right; exact Hi).
  rewrite E, E2. lra.
Qed.

Lemma sum_over_ge_const f L l : (forall i, In i l -> L <= nth i f 0) ->
  inject_Z (Z.of_nat (length l)) * L <= sum_over f l.
Proof.
  induction l as [|x l IH]; intros H; [unfold sum_over, inject_Z; simpl; lra|].
  pose proof (sum_over_cons f x l) as E. cbn [length]. pose proof (inject_Z_S (length l)) as E2.
  assert (L <= nth x f 0) by (apply H; left; reflexivity).
  assert (inject_Z (Z.of_nat (length l)) * L <= sum_over f l) by (apply IH; intros i Hi; apply H; right; exact Hi).
  rewrite E, E2. lra.
Qed.

Lemma filter_length_split {A} (p : A -> bool) l :
  length l = (length (filter p l) + length (filter (fun x => negb (p x)) l))%nat.
Proof. induction l as [|x l IH]; [reflexivity|]. simpl. destruct (p x); simpl; lia. Qed.

Definition mem (l : list nat) (i : nat) : bool := existsb (Nat.eqb i) l.

Lemma mem_iff l i : mem l i = true <-> In i l.
Proof.
  unfold mem. rewrite existsb_exists. split.
  - intros [j [Hj E]]. apply Nat.eqb_eq in E. subst. exact Hj.
  - intros H. exists i. split; [exact H|apply Nat.eqb_refl].
Qed.

Section TopMax.
Variables (flat : list Q) (idx : list nat).
Hypothesis Hs : sorts_desc flat idx.

Lemma top_ge k : (k < length flat)%nat -> forall i, In i (firstn (S k) idx) ->
  nth (nth k idx 0%nat) flat 0 <= nth i flat 0.
Proof.
  intros Hk i Hi. pose proof (proj1 Hs) as Hperm. pose proof (perm_length _ _ Hperm) as Hlen.
  destruct (in_firstn_nth 0%nat _ _ _ Hi) as [j [Hj1 [Hj2 <-]]].
  pose proof (pct_desc flat idx Hs j k ltac:(lia) Hk) as D.
  rewrite !gather_nth in D by lia. exact D.
Qed.

Lemma rest_le k : (k < length flat)%nat -> forall i, (i < length flat)%nat -> ~ In i (firstn (S k) idx) ->
  nth i flat 0 <= nth (nth k idx 0%nat) flat 0.
Proof.
  intros Hk i Hi Hni. pose proof (proj1 Hs) as Hperm. pose proof (perm_length _ _ Hperm) as Hlen.
  destruct (perm_pos _ _ Hperm i Hi) as [j [Hj <-]].
  destruct (le_lt_dec j k) as [L|L].
  - exfalso. apply Hni. rewrite <- (firstn_skipn (S k) idx) at 1.
    rewrite app_nth1 by (rewrite length_firstn_le; lia). apply nth_In. rewrite length_firstn_le; lia.
  - pose proof (pct_desc flat idx Hs k j ltac:(lia) Hj) as D.
    rewrite !gather_nth in D by lia. exact D.
Qed.

(* the m highest-valued cells carry at least as much as any m distinct cells *)
Theorem top_m_max T : NoDup T -> (forall i, In i T -> (i < length flat)%nat) ->
  sum_over flat T <= sum_over flat (firstn (length T) idx).
Proof.
  intros Hnd Hin. pose proof (proj1 Hs) as Hperm. pose proof (perm_length _ _ Hperm) as Hlen.
  assert (Hm : (length T <= length flat)%nat).
  { rewrite <- (seq_length (length flat) 0). apply NoDup_incl_length; [exact Hnd|].
    intros i Hi. apply in_seq. specialize (Hin i Hi). lia. }
  destruct (length T) as [|k] eqn:Em.
  { destruct T; [|discriminate]. unfold sum_over. simpl. lra. }
  set (top := firstn (S k) idx).
  set (L := nth (nth k idx 0%nat) flat 0).
  assert (Ltop : length top = S k) by (apply length_firstn_le; lia).
  assert (NDtop : NoDup top) by (apply NoDup_firstn, (perm_NoDup _ _ Hperm)).
  pose proof (sum_filter_split flat (mem top) T) as ET.
  pose proof (sum_filter_split flat (mem T) top) as Etop.
  assert (PAC : Permutation (filter (mem top) T) (filter (mem T) top)).
  { apply NoDup_Permutation; [apply NoDup_filter, Hnd|apply NoDup_filter, NDtop|].
    intros x. rewrite !filter_In, !mem_iff. tauto. }
  pose proof (sum_over_perm flat _ _ PAC) as EAC.
  pose proof (Permutation_length PAC) as LAC.
  pose proof (filter_length_split (mem top) T) as LT.
  pose proof (filter_length_split (mem T) top) as Lt.
  assert (LBD : length (filter (fun x => negb (mem top x)) T) = length (filter (fun x => negb (mem T x)) top)) by lia.
  assert (HB : sum_over flat (filter (fun x => negb (mem top x)) T)
               <= inject_Z (Z.of_nat (length (filter (fun x => negb (mem top x)) T))) * L).
  { apply sum_over_le_const. intros i Hi. apply filter_In in Hi. destruct Hi as [Hi1 Hi2].
    apply (rest_le k); [lia|apply Hin, Hi1|].
    intros C. apply mem_iff in C. unfold top in Hi2. rewrite C in Hi2. discriminate. }
  assert (HD : inject_Z (Z.of_nat (length (filter (fun x => negb (mem T x)) top))) * L
               <= sum_over flat (filter (fun x => negb (mem T x)) top)).
  { apply sum_over_ge_const. intros i Hi. apply filter_In in Hi. destruct Hi as [Hi1 _].
    apply (top_ge k); [lia|exact Hi1]. }
  rewrite LBD in HB. fold top. lra.
Qed.
End TopMax.

Theorem percentile_fewest flat idx cell p level area :
  flat <> [] -> nonneg flat -> sorts_desc flat idx -> 0 < cell -> 0 <= p <= 1 ->
  percentile_flat flat idx cell p = Some (level, area) ->
  forall T, NoDup T -> (forall i, In i T -> (i < length flat)%nat) -> T <> [] ->
    p * sumQ flat <= sum_over flat T ->
    area <= inject_Z (Z.of_nat (length T)) * cell.
Proof.
  intros Hne Hnn Hs Hc Hp E T Hnd Hin HT Hreach.
  destruct (percentile_least flat idx cell p Hne Hnn Hs Hc Hp)
    as [k [lv [ar [E' [Hk [_ [_ [_ [Har [_ [Hmin _]]]]]]]]]]].
  rewrite E in E'. injection E' as <- <-.
  destruct (le_lt_dec (S k) (length T)) as [L|L].
  - rewrite Har. apply Qmult_le_compat_r; [|lra].
    apply inj_le in L. rewrite Zle_Qle in L. exact L.
  - exfalso. assert (Hm : (1 <= length T <= k)%nat).
    { destruct T; [congruence|simpl in *; lia]. }
    pose proof (Hmin (length T) Hm) as H1.
    pose proof (top_m_max flat idx Hs T Hnd Hin) as H2. lra.
Qed.
