(* C08, the centroid clause on cardinal winds: a footprint computed for a wind ALONG A GRID AXIS is
   mirror-symmetric about the grid line through the tower, cell by cell; hence its first moment
   across the wind, taken about the tower over any window centred on the tower, vanishes: the centre
   of mass lies exactly on the wind axis.

   y part (wind along x: v = 0 at every node, i.e. wind direction 90 or 270 degrees):
   Proofs/C07Mirror.v proves that mirroring the request in y (rows reversed, v negated, tower
   reflected with the cells) mirrors the footprint.  With v = 0 the mirrored profiles ARE the
   profiles, the source values do not enter in footprint mode, and the reflected tower is the tower
   moved by whole cells: here the per-mode lemmas of C07Mirror are recombined directly so that the
   reflection is about the tower's own row, rows j and j' with  j + j' = 2*ym/dy  (mod nye, the
   padded row count) - for EVERY halo (not only the periodic domain), tower on a grid row (2*ym/dy
   even) or half way between two rows (odd).
   Forms, as in C07: without the unpaired (Nyquist) row of the retained set; defect identity; exact
   for an odd retained count; and additionally exact for the FULL spectrum (nly = nye) with the tower
   on a grid row - the unpaired row -nye/2 is then its own mirror image.
   x part: the same with the axes exchanged (u = 0: wind direction 0 or 180 degrees). *)
From Coq Require Import ZArith List Field Ring Lia Bool Arith.
From BL Require Import Base.Ops Base.Laws Model.Solver Proofs.Sums Proofs.StepProofs Proofs.ModeProofs Proofs.Dft Proofs.SpecProofs Proofs.C04Proofs Proofs.C06Proofs Proofs.C07Proofs Proofs.C07Array Proofs.C07Mirror.
Import ListNotations.
Set Default Proof Using "All".

(* a = b (mod n) as an explicit multiple *)
Lemma mod_eq_multiple (a b n : Z) : (n <> 0)%Z -> (a mod n = b mod n)%Z -> exists c, (a = b + n * c)%Z.
Proof.
  intros Hn E. exists (a / n - b / n)%Z.
  pose proof (Z.div_mod a n Hn) as Ha. pose proof (Z.div_mod b n Hn) as Hb. lia.
Qed.

Section C08A.
Variable O : Ops.
Hypothesis L : Laws O.
Notation C := (C O).
Notation "0" := (c0 O) : ops_scope. Notation "1" := (c1 O) : ops_scope.
Infix "+" := (cadd O) : ops_scope. Infix "*" := (cmul O) : ops_scope.
Infix "-" := (csub O) : ops_scope. Infix "/" := (cdiv O) : ops_scope.
Notation "- x" := (copp O x) : ops_scope.
Local Open Scope ops_scope.
Add Field OFc8a : (L_field O L).
Notation ofZ := (cofZ O).
Notation ofN n := (cofZ O (Z.of_nat n)).
Notation args := (args O).
Notation geom := (geom O).

(* ---------------------------------------------------------------- the hypotheses *)

(* no wind across the x axis / across the y axis, at every node of the column *)
Definition no_v (a : args) : Prop := forall x, In x (p_v O (a_prof O a)) -> x = 0.
Definition no_u (a : args) : Prop := forall x, In x (p_u O (a_prof O a)) -> x = 0.

(* the tower lies m half-cells from row 0 / column 0: on grid row m/2 when m is even *)
Definition tower_y (a : args) (g : geom) (m : Z) : Prop := (1 + 1) * a_ym O a = ofZ m * g_dy O g.
Definition tower_x (a : args) (g : geom) (m : Z) : Prop := (1 + 1) * a_xm O a = ofZ m * g_dx O g.

(* rows j and j' are mirror images of each other about the tower, on the padded periodic grid *)
Definition mirror_rows (g : geom) (m : Z) (j j' : nat) : Prop :=
  ((Z.of_nat j + Z.of_nat j') mod Z.of_nat (g_nye O g) = m mod Z.of_nat (g_nye O g))%Z.
Definition mirror_cols (g : geom) (m : Z) (i i' : nat) : Prop :=
  ((Z.of_nat i + Z.of_nat i') mod Z.of_nat (g_nxe O g) = m mod Z.of_nat (g_nxe O g))%Z.

Lemma map_opp_zero (l : list C) : (forall x, In x l -> x = 0) -> map (copp O) l = l.
Proof.
  induction l as [|x l IH]; intros H; [reflexivity|]. cbn [map].
  rewrite IH by (intros y Hy; apply H; right; exact Hy).
  rewrite (H x) by (left; reflexivity). f_equal. ring.
Qed.

Lemma mirror_y_prof_fix a : no_v a -> mirror_y_prof O (a_prof O a) = a_prof O a.
Proof.
  intros Hv. unfold mirror_y_prof. rewrite (map_opp_zero _ Hv). destruct (a_prof O a); reflexivity.
Qed.

Lemma mirror_prof_fix a : no_u a -> mirror_prof O (a_prof O a) = a_prof O a.
Proof.
  intros Hu. unfold mirror_prof. rewrite (map_opp_zero _ Hu). destruct (a_prof O a); reflexivity.
Qed.

Lemma ofZ_neg_sum (m : Z) (p : nat) : ofZ (- (m + 2 * Z.of_nat p)) = - ofZ m - (1 + 1) * ofN p.
Proof.
  rewrite (L_ofZ_opp O L), (L_ofZ_add O L), (L_ofZ_mul O L), (ofZ_2 O L). ring.
Qed.

(* ================================================================ y: wind along x *)

(* with v = 0 the spectrum of the y-mirrored request is the spectrum of the request (footprint mode) *)
Lemma spectrum_mirror_y_id a g tx ty :
  a_footprint O a = true -> no_v a ->
  spectrum O (mirror_y_args O a) g tx ty = spectrum O a g tx ty.
Proof.
  intros Hfp Hv.
  assert (Hq : forall t1 t2, q0_hat O (mirror_y_args O a) g t1 t2 = q0_hat O a g t1 t2).
  { intros t1 t2. unfold q0_hat. change (a_footprint O (mirror_y_args O a)) with (a_footprint O a).
    rewrite Hfp. reflexivity. }
  assert (Hm : forall t1 t2 qh, mode_levels_q O (mirror_y_args O a) g t1 t2 qh = mode_levels_q O a g t1 t2 qh).
  { intros t1 t2 qh. unfold mode_levels_q.
    change (a_z O (mirror_y_args O a)) with (a_z O a).
    change (a_levels O (mirror_y_args O a)) with (a_levels O a).
    change (a_analytic O (mirror_y_args O a)) with (a_analytic O a).
    change (rho O (mirror_y_args O a)) with (rho O a).
    change (a_prof O (mirror_y_args O a)) with (mirror_y_prof O (a_prof O a)).
    rewrite (mirror_y_prof_fix a Hv). reflexivity. }
  unfold spectrum, mean_levels, mode_levels. rewrite !Hq.
  change (a_p000 O (mirror_y_args O a)) with (a_p000 O a).
  change (mean_levels_q O (mirror_y_args O a) g) with (mean_levels_q O a g).
  destruct tx, ty; try reflexivity; apply Hm.
Qed.

(* ... hence the spectrum is even in the y-frequency *)
Lemma spectrum_even_y a g tx ty :
  a_footprint O a = true -> no_v a -> (ty < g_nly O g)%nat -> (2 * ty <> g_nly O g)%nat ->
  spectrum O a g tx (nidx (g_nly O g) ty) = spectrum O a g tx ty.
Proof.
  intros Hfp Hv Hty Hny.
  rewrite <- (spectrum_mirror_y_fp O L a g tx ty Hfp Hty Hny). symmetry.
  apply spectrum_mirror_y_id; assumption.
Qed.

(* the footprint phase shift at the mirrored frequency *)
Lemma shift_even_y a g tx ty ty' m :
  a_footprint O a = true -> g_dy O g <> 0 -> g_nye O g <> 0%nat -> tower_y a g m ->
  fftfreq (g_nly O g) ty' = (- fftfreq (g_nly O g) ty)%Z ->
  shift O a g tx ty' = shift O a g tx ty
     * root O (g_nye O g) (fftfreq (g_nly O g) ty * - (m + 2 * Z.of_nat (g_py O g)))%Z.
Proof.
  intros Hfp Hdy Hye0 Htow Hf. unfold tower_y in Htow.
  unfold shift. rewrite Hfp, Hf.
  set (ky := fftfreq (g_nly O g) ty).
  set (lx := wavenumber O (g_dx O g) (g_nxe O g) (fftfreq (g_nlx O g) tx)).
  rewrite (wavenumber_opp O L). set (ly := wavenumber O (g_dy O g) (g_nye O g) ky).
  unfold cis, shift_arg_fp.
  assert (E : ofZ (- (m + 2 * Z.of_nat (g_py O g))) * g_dy O g
              = - ((1 + 1) * a_ym O a) - (1 + 1) * ofN (g_py O g) * g_dy O g).
  { rewrite ofZ_neg_sum, Htow. ring. }
  replace (ci O * (lx * (a_xm O a + ofN (g_px O g) * g_dx O g) + - ly * (a_ym O a + ofN (g_py O g) * g_dy O g)))
    with (ci O * (lx * (a_xm O a + ofN (g_px O g) * g_dx O g) + ly * (a_ym O a + ofN (g_py O g) * g_dy O g))
          + ci O * (ly * (ofZ (- (m + 2 * Z.of_nat (g_py O g))) * g_dy O g))) by (rewrite E; ring).
  rewrite (L_exp_add O L). f_equal. subst ly.
  apply (wavenumber_cell O L); assumption.
Qed.

(* one mode's contribution at row J of the padded grid = the mirrored mode's contribution at row J' *)
Lemma term_axis_y a g sel k i J J' tx ty m :
  a_footprint O a = true -> no_v a -> g_dy O g <> 0 -> g_nye O g <> 0%nat -> tower_y a g m ->
  (ty < g_nly O g)%nat -> (2 * ty <> g_nly O g)%nat ->
  (exists c, Z.of_nat J + Z.of_nat J' = m + 2 * Z.of_nat (g_py O g) + Z.of_nat (g_nye O g) * c)%Z ->
  term O a g sel k i J (tx, nidx (g_nly O g) ty) = term O a g sel k i J' (tx, ty).
Proof.
  intros Hfp Hv Hdy Hye0 Htow Hty Hny [c Hc].
  pose proof (fftfreq_nidx _ _ Hty Hny) as Hf.
  unfold term. cbn [fst snd]. rewrite Hfp.
  rewrite (spectrum_even_y a g tx ty Hfp Hv Hty Hny).
  rewrite (shift_even_y a g tx ty _ m Hfp Hdy Hye0 Htow Hf).
  rewrite Hf. set (kx := fftfreq (g_nlx O g) tx). set (ky := fftfreq (g_nly O g) ty).
  rewrite !(cis_phase_neg O L), Z.opp_involutive.
  set (S := sel _). set (sh := shift O a g tx ty). set (Rx := root O (g_nxe O g) _).
  transitivity (S * sh * (root O (g_nye O g) (ky * - (m + 2 * Z.of_nat (g_py O g)))%Z
                          * root O (g_nye O g) (ky * Z.of_nat J)%Z) * Rx); [ring|].
  rewrite <- (root_add O L).
  replace (ky * - (m + 2 * Z.of_nat (g_py O g)) + ky * Z.of_nat J)%Z
    with (- ky * Z.of_nat J' + Z.of_nat (g_nye O g) * (ky * c))%Z by lia.
  rewrite (root_period O L) by exact Hye0. ring.
Qed.

(* synthesis from a table filtered by a predicate on the y-frequency *)
Lemma synth_filter_y (P : Z -> bool) a g sel k i j :
  (forall pq s, sel (fst pq * s, snd pq * s) = sel pq * s) ->
  (k < length (a_levels O a))%nat ->
  synth O a g sel (filter (fun e => P (snd (fst e))) (table O a g)) k i j
  = cre O (csum O (map (fun ty => csum O (map (fun tx =>
        if P (fftfreq (g_nly O g) ty) then term O a g sel k i j (tx, ty) else 0)
      (seq 0 (g_nlx O g)))) (seq 0 (g_nly O g)))).
Proof.
  intros Hsel Hk. unfold synth, table.
  rewrite filter_map_comm, map_map, (csum_filter O L). cbn [fst snd]. f_equal.
  unfold modes_of.
  rewrite (csum_modes_nested O L (fun t => if P (fftfreq (g_nly O g) (snd t)) then _ else 0)).
  apply (csum_map_ext O L). intros ty _. apply (csum_map_ext O L). intros tx _. cbn [fst snd].
  destruct (P _); [|reflexivity]. unfold term. cbn [fst snd].
  set (sp := spectrum O a g tx ty). set (s := shift O a g tx ty).
  set (fs := fun pq : C * C => (fst pq * s, snd pq * s)).
  rewrite (nth_indep _ (0, 0) (fs (0, 0))) by (rewrite map_length; subst sp; rewrite (spectrum_length O L); exact Hk).
  rewrite map_nth. subst fs. cbv beta. rewrite Hsel. reflexivity.
Qed.

Lemma padded_rows g m j j' :
  g_nye O g <> 0%nat -> mirror_rows g m j j' ->
  exists c, (Z.of_nat (j + g_py O g) + Z.of_nat (j' + g_py O g)
             = m + 2 * Z.of_nat (g_py O g) + Z.of_nat (g_nye O g) * c)%Z.
Proof.
  intros Hye0 Hm. unfold mirror_rows in Hm.
  destruct (mod_eq_multiple _ _ (Z.of_nat (g_nye O g)) ltac:(lia) Hm) as [c Hc].
  exists c. lia.
Qed.

(* THE SYMMETRY, without the unpaired row of the retained set *)
Theorem axis_y_cells (a : args) (g : geom) sel k j j' i m :
  (forall pq s, sel (fst pq * s, snd pq * s) = sel pq * s) ->
  geometry O a = inl g -> a_footprint O a = true -> no_v a -> g_dy O g <> 0 -> tower_y a g m ->
  (k < length (a_levels O a))%nat -> (j < g_ny O g)%nat -> (j' < g_ny O g)%nat -> (i < g_nx O g)%nat ->
  mirror_rows g m j j' ->
  get3 O (field O a g sel (table_noNyq_y O a g)) k j i
  = get3 O (field O a g sel (table_noNyq_y O a g)) k j' i.
Proof.
  intros Hsel Hg Hfp Hv Hdy Htow Hk Hj Hj' Hi Hm.
  destruct (geometry_inv O L a g Hg) as (_ & _ & _ & _ & _ & _ & Eye & _).
  assert (Hye0 : g_nye O g <> 0%nat) by lia.
  pose proof (padded_rows g m j j' Hye0 Hm) as Hc.
  rewrite !(field_get O L a g) by assumption.
  rewrite !(synth_noNyq_y O L) by assumption.
  f_equal.
  rewrite <- (csum_reflect O L (g_nly O g) (fun ty => csum O (map (fun tx =>
     if keepf (g_nly O g) (fftfreq (g_nly O g) ty)
     then term O a g sel k (i + g_px O g) (j + g_py O g) (tx, ty) else 0)
     (seq 0 (g_nlx O g))))).
  apply (csum_map_ext O L). intros ty Hty. apply in_seq in Hty.
  apply (csum_map_ext O L). intros tx _.
  rewrite keepf_nidx by lia.
  destruct (keepf (g_nly O g) (fftfreq (g_nly O g) ty)) eqn:Ekeep; [|reflexivity].
  apply keepf_spec in Ekeep; [|lia].
  apply (term_axis_y a g sel k (i + g_px O g) (j + g_py O g) (j' + g_py O g) tx ty m); try assumption. lia.
Qed.

(* odd retained count: the returned array itself *)
Theorem axis_y_cells_odd (a : args) (g : geom) sel k j j' i m :
  (forall pq s, sel (fst pq * s, snd pq * s) = sel pq * s) ->
  geometry O a = inl g -> a_footprint O a = true -> no_v a -> g_dy O g <> 0 -> tower_y a g m ->
  Nat.odd (g_nly O g) = true ->
  (k < length (a_levels O a))%nat -> (j < g_ny O g)%nat -> (j' < g_ny O g)%nat -> (i < g_nx O g)%nat ->
  mirror_rows g m j j' ->
  get3 O (field O a g sel (table O a g)) k j i = get3 O (field O a g sel (table O a g)) k j' i.
Proof.
  intros Hsel Hg Hfp Hv Hdy Htow Ho Hk Hj Hj' Hi Hm.
  rewrite <- !(table_noNyq_y_odd O L a g Ho). apply (axis_y_cells a g sel k j j' i m); assumption.
Qed.

(* the asymmetry of the returned array is the asymmetry of the unpaired row's contribution alone *)
Theorem axis_y_cells_defect (a : args) (g : geom) sel k j j' i m :
  (forall pq s, sel (fst pq * s, snd pq * s) = sel pq * s) ->
  geometry O a = inl g -> a_footprint O a = true -> no_v a -> g_dy O g <> 0 -> tower_y a g m ->
  (k < length (a_levels O a))%nat -> (j < g_ny O g)%nat -> (j' < g_ny O g)%nat -> (i < g_nx O g)%nat ->
  mirror_rows g m j j' ->
  get3 O (field O a g sel (table O a g)) k j i - get3 O (field O a g sel (table O a g)) k j' i
  = get3 O (field O a g sel (table_Nyq_y O a g)) k j i - get3 O (field O a g sel (table_Nyq_y O a g)) k j' i.
Proof.
  intros Hsel Hg Hfp Hv Hdy Htow Hk Hj Hj' Hi Hm.
  rewrite (field_Nyq_y_split O L a g sel k j i) by assumption.
  rewrite (field_Nyq_y_split O L a g sel k j' i) by assumption.
  rewrite (axis_y_cells a g sel k j j' i m) by assumption. ring.
Qed.

(* full spectrum and the tower on a grid row: the unpaired row -nye/2 is its own mirror image *)
Lemma term_Nyq_y a g sel k i J J' tx ty m :
  (2 * fftfreq (g_nly O g) ty = - Z.of_nat (g_nye O g))%Z -> g_nye O g <> 0%nat -> Z.even m = true ->
  (exists c, Z.of_nat J + Z.of_nat J' = m + 2 * Z.of_nat (g_py O g) + Z.of_nat (g_nye O g) * c)%Z ->
  term O a g sel k i J (tx, ty) = term O a g sel k i J' (tx, ty).
Proof.
  intros Hnyq Hye0 Hev [c Hc]. apply Z.even_spec in Hev. destruct Hev as [h Hh].
  unfold term. cbn [fst snd].
  set (kx := fftfreq (g_nlx O g) tx). set (ky := fftfreq (g_nly O g) ty) in *.
  assert (Hroot : forall s : Z, root O (g_nye O g) (s * ky * Z.of_nat J) = root O (g_nye O g) (s * ky * Z.of_nat J')).
  { intros s.
    replace (s * ky * Z.of_nat J)%Z
      with (s * ky * Z.of_nat J' + Z.of_nat (g_nye O g) * (s * (ky * c - h - Z.of_nat (g_py O g) + Z.of_nat J')))%Z by nia.
    apply (root_period O L). exact Hye0. }
  destruct (a_footprint O a).
  - rewrite !(cis_phase_neg O L).
    replace (- ky * Z.of_nat J)%Z with (-1 * ky * Z.of_nat J)%Z by lia.
    replace (- ky * Z.of_nat J')%Z with (-1 * ky * Z.of_nat J')%Z by lia.
    rewrite (Hroot (-1)%Z). reflexivity.
  - rewrite !(cis_phase O L).
    replace (ky * Z.of_nat J)%Z with (1 * ky * Z.of_nat J)%Z by lia.
    replace (ky * Z.of_nat J')%Z with (1 * ky * Z.of_nat J')%Z by lia.
    rewrite (Hroot 1%Z). reflexivity.
Qed.

Theorem axis_y_cells_full (a : args) (g : geom) sel k j j' i m :
  (forall pq s, sel (fst pq * s, snd pq * s) = sel pq * s) ->
  geometry O a = inl g -> a_footprint O a = true -> no_v a -> g_dy O g <> 0 -> tower_y a g m ->
  g_nly O g = g_nye O g -> Z.even m = true ->
  (k < length (a_levels O a))%nat -> (j < g_ny O g)%nat -> (j' < g_ny O g)%nat -> (i < g_nx O g)%nat ->
  mirror_rows g m j j' ->
  get3 O (field O a g sel (table O a g)) k j i = get3 O (field O a g sel (table O a g)) k j' i.
Proof.
  intros Hsel Hg Hfp Hv Hdy Htow Hfull Hev Hk Hj Hj' Hi Hm.
  destruct (geometry_inv O L a g Hg) as (_ & _ & _ & _ & _ & _ & Eye & _).
  assert (Hye0 : g_nye O g <> 0%nat) by lia.
  pose proof (padded_rows g m j j' Hye0 Hm) as Hc.
  rewrite (field_Nyq_y_split O L a g sel k j i) by assumption.
  rewrite (field_Nyq_y_split O L a g sel k j' i) by assumption.
  rewrite (axis_y_cells a g sel k j j' i m) by assumption. f_equal.
  rewrite !(field_get O L a g) by assumption.
  unfold table_Nyq_y.
  rewrite !(synth_filter_y (fun ky => negb (keepf (g_nly O g) ky))) by assumption.
  f_equal. apply (csum_map_ext O L). intros ty Hty. apply (csum_map_ext O L). intros tx _.
  destruct (keepf (g_nly O g) (fftfreq (g_nly O g) ty)) eqn:Ekeep; cbn [negb]; [reflexivity|].
  unfold keepf in Ekeep. apply negb_false_iff, Z.eqb_eq in Ekeep. rewrite Hfull in Ekeep at 2.
  apply (term_Nyq_y a g sel k (i + g_px O g) (j + g_py O g) (j' + g_py O g) tx ty m); assumption.
Qed.

(* ================================================================ x: wind along y *)

Lemma spectrum_mirror_x_id a g tx ty :
  a_footprint O a = true -> no_u a ->
  spectrum O (mirror_args O a) g tx ty = spectrum O a g tx ty.
Proof.
  intros Hfp Hu.
  assert (Hq : forall t1 t2, q0_hat O (mirror_args O a) g t1 t2 = q0_hat O a g t1 t2).
  { intros t1 t2. unfold q0_hat. change (a_footprint O (mirror_args O a)) with (a_footprint O a).
    rewrite Hfp. reflexivity. }
  assert (Hm : forall t1 t2 qh, mode_levels_q O (mirror_args O a) g t1 t2 qh = mode_levels_q O a g t1 t2 qh).
  { intros t1 t2 qh. unfold mode_levels_q.
    change (a_z O (mirror_args O a)) with (a_z O a).
    change (a_levels O (mirror_args O a)) with (a_levels O a).
    change (a_analytic O (mirror_args O a)) with (a_analytic O a).
    change (rho O (mirror_args O a)) with (rho O a).
    change (a_prof O (mirror_args O a)) with (mirror_prof O (a_prof O a)).
    rewrite (mirror_prof_fix a Hu). reflexivity. }
  unfold spectrum, mean_levels, mode_levels. rewrite !Hq.
  change (a_p000 O (mirror_args O a)) with (a_p000 O a).
  change (mean_levels_q O (mirror_args O a) g) with (mean_levels_q O a g).
  destruct tx, ty; try reflexivity; apply Hm.
Qed.

Lemma spectrum_even_x a g tx ty :
  a_footprint O a = true -> no_u a -> (tx < g_nlx O g)%nat -> (2 * tx <> g_nlx O g)%nat ->
  spectrum O a g (nidx (g_nlx O g) tx) ty = spectrum O a g tx ty.
Proof.
  intros Hfp Hu Htx Hny.
  rewrite <- (spectrum_mirror_fp O L a g tx ty Hfp Htx Hny). symmetry.
  apply spectrum_mirror_x_id; assumption.
Qed.

Lemma shift_even_x a g tx tx' ty m :
  a_footprint O a = true -> g_dx O g <> 0 -> g_nxe O g <> 0%nat -> tower_x a g m ->
  fftfreq (g_nlx O g) tx' = (- fftfreq (g_nlx O g) tx)%Z ->
  shift O a g tx' ty = shift O a g tx ty
     * root O (g_nxe O g) (fftfreq (g_nlx O g) tx * - (m + 2 * Z.of_nat (g_px O g)))%Z.
Proof.
  intros Hfp Hdx Hxe0 Htow Hf. unfold tower_x in Htow.
  unfold shift. rewrite Hfp, Hf.
  set (kx := fftfreq (g_nlx O g) tx).
  set (ly := wavenumber O (g_dy O g) (g_nye O g) (fftfreq (g_nly O g) ty)).
  rewrite (wavenumber_opp O L). set (lx := wavenumber O (g_dx O g) (g_nxe O g) kx).
  unfold cis, shift_arg_fp.
  assert (E : ofZ (- (m + 2 * Z.of_nat (g_px O g))) * g_dx O g
              = - ((1 + 1) * a_xm O a) - (1 + 1) * ofN (g_px O g) * g_dx O g).
  { rewrite ofZ_neg_sum, Htow. ring. }
  replace (ci O * (- lx * (a_xm O a + ofN (g_px O g) * g_dx O g) + ly * (a_ym O a + ofN (g_py O g) * g_dy O g)))
    with (ci O * (lx * (a_xm O a + ofN (g_px O g) * g_dx O g) + ly * (a_ym O a + ofN (g_py O g) * g_dy O g))
          + ci O * (lx * (ofZ (- (m + 2 * Z.of_nat (g_px O g))) * g_dx O g))) by (rewrite E; ring).
  rewrite (L_exp_add O L). f_equal. subst lx.
  apply (wavenumber_cell O L); assumption.
Qed.

Lemma term_axis_x a g sel k I I' j tx ty m :
  a_footprint O a = true -> no_u a -> g_dx O g <> 0 -> g_nxe O g <> 0%nat -> tower_x a g m ->
  (tx < g_nlx O g)%nat -> (2 * tx <> g_nlx O g)%nat ->
  (exists c, Z.of_nat I + Z.of_nat I' = m + 2 * Z.of_nat (g_px O g) + Z.of_nat (g_nxe O g) * c)%Z ->
  term O a g sel k I j (nidx (g_nlx O g) tx, ty) = term O a g sel k I' j (tx, ty).
Proof.
  intros Hfp Hu Hdx Hxe0 Htow Htx Hny [c Hc].
  pose proof (fftfreq_nidx _ _ Htx Hny) as Hf.
  unfold term. cbn [fst snd]. rewrite Hfp.
  rewrite (spectrum_even_x a g tx ty Hfp Hu Htx Hny).
  rewrite (shift_even_x a g tx _ ty m Hfp Hdx Hxe0 Htow Hf).
  rewrite Hf. set (kx := fftfreq (g_nlx O g) tx). set (ky := fftfreq (g_nly O g) ty).
  rewrite !(cis_phase_neg O L), Z.opp_involutive.
  set (S := sel _). set (sh := shift O a g tx ty). set (Ry := root O (g_nye O g) _).
  transitivity (S * sh * Ry * (root O (g_nxe O g) (kx * - (m + 2 * Z.of_nat (g_px O g)))%Z
                               * root O (g_nxe O g) (kx * Z.of_nat I)%Z)); [ring|].
  rewrite <- (root_add O L).
  replace (kx * - (m + 2 * Z.of_nat (g_px O g)) + kx * Z.of_nat I)%Z
    with (- kx * Z.of_nat I' + Z.of_nat (g_nxe O g) * (kx * c))%Z by lia.
  rewrite (root_period O L) by exact Hxe0. ring.
Qed.

Lemma synth_filter_x (P : Z -> bool) a g sel k i j :
  (forall pq s, sel (fst pq * s, snd pq * s) = sel pq * s) ->
  (k < length (a_levels O a))%nat ->
  synth O a g sel (filter (fun e => P (fst (fst e))) (table O a g)) k i j
  = cre O (csum O (map (fun ty => csum O (map (fun tx =>
        if P (fftfreq (g_nlx O g) tx) then term O a g sel k i j (tx, ty) else 0)
      (seq 0 (g_nlx O g)))) (seq 0 (g_nly O g)))).
Proof.
  intros Hsel Hk. unfold synth, table.
  rewrite filter_map_comm, map_map, (csum_filter O L). cbn [fst snd]. f_equal.
  unfold modes_of.
  rewrite (csum_modes_nested O L (fun t => if P (fftfreq (g_nlx O g) (fst t)) then _ else 0)).
  apply (csum_map_ext O L). intros ty _. apply (csum_map_ext O L). intros tx _. cbn [fst snd].
  destruct (P _); [|reflexivity]. unfold term. cbn [fst snd].
  set (sp := spectrum O a g tx ty). set (s := shift O a g tx ty).
  set (fs := fun pq : C * C => (fst pq * s, snd pq * s)).
  rewrite (nth_indep _ (0, 0) (fs (0, 0))) by (rewrite map_length; subst sp; rewrite (spectrum_length O L); exact Hk).
  rewrite map_nth. subst fs. cbv beta. rewrite Hsel. reflexivity.
Qed.

Lemma padded_cols g m i i' :
  g_nxe O g <> 0%nat -> mirror_cols g m i i' ->
  exists c, (Z.of_nat (i + g_px O g) + Z.of_nat (i' + g_px O g)
             = m + 2 * Z.of_nat (g_px O g) + Z.of_nat (g_nxe O g) * c)%Z.
Proof.
  intros Hxe0 Hm. unfold mirror_cols in Hm.
  destruct (mod_eq_multiple _ _ (Z.of_nat (g_nxe O g)) ltac:(lia) Hm) as [c Hc].
  exists c. lia.
Qed.

Theorem axis_x_cells (a : args) (g : geom) sel k j i i' m :
  (forall pq s, sel (fst pq * s, snd pq * s) = sel pq * s) ->
  geometry O a = inl g -> a_footprint O a = true -> no_u a -> g_dx O g <> 0 -> tower_x a g m ->
  (k < length (a_levels O a))%nat -> (j < g_ny O g)%nat -> (i < g_nx O g)%nat -> (i' < g_nx O g)%nat ->
  mirror_cols g m i i' ->
  get3 O (field O a g sel (table_noNyq O a g)) k j i
  = get3 O (field O a g sel (table_noNyq O a g)) k j i'.
Proof.
  intros Hsel Hg Hfp Hu Hdx Htow Hk Hj Hi Hi' Hm.
  destruct (geometry_inv O L a g Hg) as (_ & _ & _ & _ & _ & Exe & _).
  assert (Hxe0 : g_nxe O g <> 0%nat) by lia.
  pose proof (padded_cols g m i i' Hxe0 Hm) as Hc.
  rewrite !(field_get O L a g) by assumption.
  rewrite !(synth_noNyq O L) by assumption.
  f_equal. apply (csum_map_ext O L). intros ty _.
  rewrite <- (csum_reflect O L (g_nlx O g) (fun tx =>
     if keepf (g_nlx O g) (fftfreq (g_nlx O g) tx)
     then term O a g sel k (i + g_px O g) (j + g_py O g) (tx, ty) else 0)).
  apply (csum_map_ext O L). intros tx Htx. apply in_seq in Htx.
  rewrite keepf_nidx by lia.
  destruct (keepf (g_nlx O g) (fftfreq (g_nlx O g) tx)) eqn:Ekeep; [|reflexivity].
  apply keepf_spec in Ekeep; [|lia].
  apply (term_axis_x a g sel k (i + g_px O g) (i' + g_px O g) (j + g_py O g) tx ty m); try assumption. lia.
Qed.

Theorem axis_x_cells_odd (a : args) (g : geom) sel k j i i' m :
  (forall pq s, sel (fst pq * s, snd pq * s) = sel pq * s) ->
  geometry O a = inl g -> a_footprint O a = true -> no_u a -> g_dx O g <> 0 -> tower_x a g m ->
  Nat.odd (g_nlx O g) = true ->
  (k < length (a_levels O a))%nat -> (j < g_ny O g)%nat -> (i < g_nx O g)%nat -> (i' < g_nx O g)%nat ->
  mirror_cols g m i i' ->
  get3 O (field O a g sel (table O a g)) k j i = get3 O (field O a g sel (table O a g)) k j i'.
Proof.
  intros Hsel Hg Hfp Hu Hdx Htow Ho Hk Hj Hi Hi' Hm.
  rewrite <- !(table_noNyq_odd O L a g Ho). apply (axis_x_cells a g sel k j i i' m); assumption.
Qed.

Theorem axis_x_cells_defect (a : args) (g : geom) sel k j i i' m :
  (forall pq s, sel (fst pq * s, snd pq * s) = sel pq * s) ->
  geometry O a = inl g -> a_footprint O a = true -> no_u a -> g_dx O g <> 0 -> tower_x a g m ->
  (k < length (a_levels O a))%nat -> (j < g_ny O g)%nat -> (i < g_nx O g)%nat -> (i' < g_nx O g)%nat ->
  mirror_cols g m i i' ->
  get3 O (field O a g sel (table O a g)) k j i - get3 O (field O a g sel (table O a g)) k j i'
  = get3 O (field O a g sel (table_Nyq O a g)) k j i - get3 O (field O a g sel (table_Nyq O a g)) k j i'.
Proof.
  intros Hsel Hg Hfp Hu Hdx Htow Hk Hj Hi Hi' Hm.
  rewrite (field_Nyq_split O L a g sel k j i) by assumption.
  rewrite (field_Nyq_split O L a g sel k j i') by assumption.
  rewrite (axis_x_cells a g sel k j i i' m) by assumption. ring.
Qed.

Lemma term_Nyq_x a g sel k I I' j tx ty m :
  (2 * fftfreq (g_nlx O g) tx = - Z.of_nat (g_nxe O g))%Z -> g_nxe O g <> 0%nat -> Z.even m = true ->
  (exists c, Z.of_nat I + Z.of_nat I' = m + 2 * Z.of_nat (g_px O g) + Z.of_nat (g_nxe O g) * c)%Z ->
  term O a g sel k I j (tx, ty) = term O a g sel k I' j (tx, ty).
Proof.
  intros Hnyq Hxe0 Hev [c Hc]. apply Z.even_spec in Hev. destruct Hev as [h Hh].
  unfold term. cbn [fst snd].
  set (kx := fftfreq (g_nlx O g) tx) in *. set (ky := fftfreq (g_nly O g) ty).
  assert (Hroot : forall s : Z, root O (g_nxe O g) (s * kx * Z.of_nat I) = root O (g_nxe O g) (s * kx * Z.of_nat I')).
  { intros s.
    replace (s * kx * Z.of_nat I)%Z
      with (s * kx * Z.of_nat I' + Z.of_nat (g_nxe O g) * (s * (kx * c - h - Z.of_nat (g_px O g) + Z.of_nat I')))%Z by nia.
    apply (root_period O L). exact Hxe0. }
  destruct (a_footprint O a).
  - rewrite !(cis_phase_neg O L).
    replace (- kx * Z.of_nat I)%Z with (-1 * kx * Z.of_nat I)%Z by lia.
    replace (- kx * Z.of_nat I')%Z with (-1 * kx * Z.of_nat I')%Z by lia.
    rewrite (Hroot (-1)%Z). reflexivity.
  - rewrite !(cis_phase O L).
    replace (kx * Z.of_nat I)%Z with (1 * kx * Z.of_nat I)%Z by lia.
    replace (kx * Z.of_nat I')%Z with (1 * kx * Z.of_nat I')%Z by lia.
    rewrite (Hroot 1%Z). reflexivity.
Qed.

Theorem axis_x_cells_full (a : args) (g : geom) sel k j i i' m :
  (forall pq s, sel (fst pq * s, snd pq * s) = sel pq * s) ->
  geometry O a = inl g -> a_footprint O a = true -> no_u a -> g_dx O g <> 0 -> tower_x a g m ->
  g_nlx O g = g_nxe O g -> Z.even m = true ->
  (k < length (a_levels O a))%nat -> (j < g_ny O g)%nat -> (i < g_nx O g)%nat -> (i' < g_nx O g)%nat ->
  mirror_cols g m i i' ->
  get3 O (field O a g sel (table O a g)) k j i = get3 O (field O a g sel (table O a g)) k j i'.
Proof.
  intros Hsel Hg Hfp Hu Hdx Htow Hfull Hev Hk Hj Hi Hi' Hm.
  destruct (geometry_inv O L a g Hg) as (_ & _ & _ & _ & _ & Exe & _).
  assert (Hxe0 : g_nxe O g <> 0%nat) by lia.
  pose proof (padded_cols g m i i' Hxe0 Hm) as Hc.
  rewrite (field_Nyq_split O L a g sel k j i) by assumption.
  rewrite (field_Nyq_split O L a g sel k j i') by assumption.
  rewrite (axis_x_cells a g sel k j i i' m) by assumption. f_equal.
  rewrite !(field_get O L a g) by assumption.
  unfold table_Nyq.
  rewrite !(synth_filter_x (fun kx => negb (keepf (g_nlx O g) kx))) by assumption.
  f_equal. apply (csum_map_ext O L). intros ty _. apply (csum_map_ext O L). intros tx _.
  destruct (keepf (g_nlx O g) (fftfreq (g_nlx O g) tx)) eqn:Ekeep; cbn [negb]; [reflexivity|].
  unfold keepf in Ekeep. apply negb_false_iff, Z.eqb_eq in Ekeep. rewrite Hfull in Ekeep at 2.
  apply (term_Nyq_x a g sel k (i + g_px O g) (i' + g_px O g) (j + g_py O g) tx ty m); assumption.
Qed.

(* ================================================================ first moment across the wind *)

(* sum of w(d) over the window d = -r .. r *)
Definition wsum (r : nat) (w : Z -> C) : C :=
  csum O (map (fun t => w (Z.of_nat t - Z.of_nat r)%Z) (seq 0 (2 * r + 1))).

Lemma wsum_ext r w1 w2 :
  (forall d, (- Z.of_nat r <= d <= Z.of_nat r)%Z -> w1 d = w2 d) -> wsum r w1 = wsum r w2.
Proof.
  intros H. unfold wsum. apply (csum_map_ext O L). intros t Ht. apply in_seq in Ht. apply H. lia.
Qed.

Lemma wsum_add r w1 w2 : wsum r (fun d => w1 d + w2 d) = wsum r w1 + wsum r w2.
Proof. unfold wsum. apply (csum_map_add O L). Qed.

Lemma wsum_scale r s w : wsum r (fun d => s * w d) = s * wsum r w.
Proof. unfold wsum. apply (csum_map_scale O L). Qed.

(* an even weight times the signed distance sums to zero over a centred window *)
Lemma wsum_odd_zero r (S : Z -> C) :
  (forall d, (- Z.of_nat r <= d <= Z.of_nat r)%Z -> S (- d)%Z = S d) ->
  wsum r (fun d => ofZ d * S d) = 0.
Proof.
  intros Hev. set (X := wsum r (fun d => ofZ d * S d)).
  assert (H2 : X + X = 0).
  { unfold X at 1. unfold wsum.
    rewrite <- (csum_rev O L (2 * r + 1) (fun t => ofZ (Z.of_nat t - Z.of_nat r) * S (Z.of_nat t - Z.of_nat r)%Z)).
    unfold X, wsum. rewrite <- (csum_map_add O L).
    rewrite <- (csum_map_zero O L (seq 0 (2 * r + 1))). apply (csum_map_ext O L).
    intros t Ht. apply in_seq in Ht.
    replace (Z.of_nat (2 * r + 1 - 1 - t) - Z.of_nat r)%Z with (- (Z.of_nat t - Z.of_nat r))%Z by lia.
    rewrite Hev by lia. rewrite (L_ofZ_opp O L). ring. }
  transitivity (1 / (1 + 1) * (X + X)); [field; apply (two_nz O L)|]. rewrite H2. ring.
Qed.

Lemma cyc_mirror (n jm : nat) (d : Z) : n <> 0%nat ->
  ((Z.of_nat (cyc n jm (- d)) + Z.of_nat (cyc n jm d)) mod Z.of_nat n = (2 * Z.of_nat jm) mod Z.of_nat n)%Z.
Proof.
  intros Hn. unfold cyc. rewrite !Z2Nat.id by (apply Z.mod_pos_bound; lia).
  rewrite <- Zplus_mod. f_equal. lia.
Qed.

Lemma tower_on_row a g (jm : nat) : tower_y a g (2 * Z.of_nat jm) -> a_ym O a = ofN jm * g_dy O g.
Proof.
  unfold tower_y. rewrite (L_ofZ_mul O L), (ofZ_2 O L). intros H.
  transitivity (1 / (1 + 1) * ((1 + 1) * a_ym O a)); [field; apply (two_nz O L)|].
  rewrite H. field. apply (two_nz O L).
Qed.

Lemma tower_on_col a g (im : nat) : tower_x a g (2 * Z.of_nat im) -> a_xm O a = ofN im * g_dx O g.
Proof.
  unfold tower_x. rewrite (L_ofZ_mul O L), (ofZ_2 O L). intros H.
  transitivity (1 / (1 + 1) * ((1 + 1) * a_xm O a)); [field; apply (two_nz O L)|].
  rewrite H. field. apply (two_nz O L).
Qed.

(* any array that is mirror-symmetric about row jm: the moment of the rows jm-r .. jm+r (cyclically,
   on the padded grid; every row of the window must be a row of the returned array) about row jm,
   summed over an arbitrary set of columns, vanishes; in coordinates: sum y_j S_j = ym sum S_j *)
Lemma moment_rows (g : geom) (F : list (list (list C))) (k jm r : nat) (cols : list nat) :
  g_nye O g <> 0%nat ->
  (forall j j' i, (j < g_ny O g)%nat -> (j' < g_ny O g)%nat -> (i < g_nx O g)%nat ->
     mirror_rows g (2 * Z.of_nat jm) j j' -> get3 O F k j i = get3 O F k j' i) ->
  (forall d, (- Z.of_nat r <= d <= Z.of_nat r)%Z -> (cyc (g_nye O g) jm d < g_ny O g)%nat) ->
  (forall i, In i cols -> (i < g_nx O g)%nat) ->
  let S := fun d : Z => csum O (map (fun i => get3 O F k (cyc (g_nye O g) jm d) i) cols) in
  wsum r (fun d => ofZ d * S d) = 0 /\
  (forall ym dy, ym = ofN jm * dy ->
     wsum r (fun d => ofZ (Z.of_nat jm + d) * dy * S d) = ym * wsum r S).
Proof.
  intros Hye0 Hsym Hwin Hcols S.
  assert (H0 : wsum r (fun d => ofZ d * S d) = 0).
  { apply wsum_odd_zero. intros d Hd. unfold S. apply (csum_map_ext O L). intros i Hi.
    apply Hsym; [apply Hwin; lia|apply Hwin; lia|apply Hcols; exact Hi|].
    unfold mirror_rows. apply cyc_mirror. exact Hye0. }
  split; [exact H0|]. intros ym dy ->.
  rewrite (wsum_ext r _ (fun d => dy * (ofZ d * S d) + (ofN jm * dy) * S d)).
  2:{ intros d _. rewrite (L_ofZ_add O L). ring. }
  rewrite wsum_add, !wsum_scale, H0. ring.
Qed.

Lemma moment_cols (g : geom) (F : list (list (list C))) (k im r : nat) (rows : list nat) :
  g_nxe O g <> 0%nat ->
  (forall j i i', (j < g_ny O g)%nat -> (i < g_nx O g)%nat -> (i' < g_nx O g)%nat ->
     mirror_cols g (2 * Z.of_nat im) i i' -> get3 O F k j i = get3 O F k j i') ->
  (forall d, (- Z.of_nat r <= d <= Z.of_nat r)%Z -> (cyc (g_nxe O g) im d < g_nx O g)%nat) ->
  (forall j, In j rows -> (j < g_ny O g)%nat) ->
  let S := fun d : Z => csum O (map (fun j => get3 O F k j (cyc (g_nxe O g) im d)) rows) in
  wsum r (fun d => ofZ d * S d) = 0 /\
  (forall xm dx, xm = ofN im * dx ->
     wsum r (fun d => ofZ (Z.of_nat im + d) * dx * S d) = xm * wsum r S).
Proof.
  intros Hxe0 Hsym Hwin Hrows S.
  assert (H0 : wsum r (fun d => ofZ d * S d) = 0).
  { apply wsum_odd_zero. intros d Hd. unfold S. apply (csum_map_ext O L). intros j Hj.
    apply Hsym; [apply Hrows; exact Hj|apply Hwin; lia|apply Hwin; lia|].
    unfold mirror_cols. apply cyc_mirror. exact Hxe0. }
  split; [exact H0|]. intros xm dx ->.
  rewrite (wsum_ext r _ (fun d => dx * (ofZ d * S d) + (ofN im * dx) * S d)).
  2:{ intros d _. rewrite (L_ofZ_add O L). ring. }
  rewrite wsum_add, !wsum_scale, H0. ring.
Qed.

(* when the RETURNED array is exactly symmetric: odd retained count, or the full spectrum *)
Definition exact_y (g : geom) : Prop := Nat.odd (g_nly O g) = true \/ g_nly O g = g_nye O g.
Definition exact_x (g : geom) : Prop := Nat.odd (g_nlx O g) = true \/ g_nlx O g = g_nxe O g.

Lemma even_double (n : nat) : Z.even (2 * Z.of_nat n) = true.
Proof. rewrite Z.even_mul. reflexivity. Qed.

Theorem centroid_rows (a : args) (g : geom) sel k jm r cols :
  (forall pq s, sel (fst pq * s, snd pq * s) = sel pq * s) ->
  geometry O a = inl g -> a_footprint O a = true -> no_v a -> g_dy O g <> 0 ->
  tower_y a g (2 * Z.of_nat jm) -> exact_y g ->
  (k < length (a_levels O a))%nat ->
  (forall d, (- Z.of_nat r <= d <= Z.of_nat r)%Z -> (cyc (g_nye O g) jm d < g_ny O g)%nat) ->
  (forall i, In i cols -> (i < g_nx O g)%nat) ->
  let S := fun d : Z => csum O (map (fun i =>
              get3 O (field O a g sel (table O a g)) k (cyc (g_nye O g) jm d) i) cols) in
  wsum r (fun d => ofZ d * S d) = 0 /\
  wsum r (fun d => ofZ (Z.of_nat jm + d) * g_dy O g * S d) = a_ym O a * wsum r S.
Proof.
  intros Hsel Hg Hfp Hv Hdy Htow Hex Hk Hwin Hcols.
  assert (Hye0 : g_nye O g <> 0%nat).
  { destruct (geometry_inv O L a g Hg) as (_ & _ & _ & _ & _ & _ & Eye & _).
    pose proof (Hwin 0%Z ltac:(lia)). lia. }
  destruct (moment_rows g (field O a g sel (table O a g)) k jm r cols Hye0) as [H0 H1]; try assumption.
  - intros j j' i Hj Hj' Hi Hm. destruct Hex as [Ho|Hfull].
    + apply (axis_y_cells_odd a g sel k j j' i (2 * Z.of_nat jm)); assumption.
    + apply (axis_y_cells_full a g sel k j j' i (2 * Z.of_nat jm)); try assumption. apply even_double.
  - split; [exact H0|]. apply H1. apply tower_on_row. exact Htow.
Qed.

Theorem centroid_rows_noNyq (a : args) (g : geom) sel k jm r cols :
  (forall pq s, sel (fst pq * s, snd pq * s) = sel pq * s) ->
  geometry O a = inl g -> a_footprint O a = true -> no_v a -> g_dy O g <> 0 ->
  tower_y a g (2 * Z.of_nat jm) ->
  (k < length (a_levels O a))%nat ->
  (forall d, (- Z.of_nat r <= d <= Z.of_nat r)%Z -> (cyc (g_nye O g) jm d < g_ny O g)%nat) ->
  (forall i, In i cols -> (i < g_nx O g)%nat) ->
  let S := fun d : Z => csum O (map (fun i =>
              get3 O (field O a g sel (table_noNyq_y O a g)) k (cyc (g_nye O g) jm d) i) cols) in
  wsum r (fun d => ofZ d * S d) = 0 /\
  wsum r (fun d => ofZ (Z.of_nat jm + d) * g_dy O g * S d) = a_ym O a * wsum r S.
Proof.
  intros Hsel Hg Hfp Hv Hdy Htow Hk Hwin Hcols.
  assert (Hye0 : g_nye O g <> 0%nat).
  { destruct (geometry_inv O L a g Hg) as (_ & _ & _ & _ & _ & _ & Eye & _).
    pose proof (Hwin 0%Z ltac:(lia)). lia. }
  destruct (moment_rows g (field O a g sel (table_noNyq_y O a g)) k jm r cols Hye0) as [H0 H1]; try assumption.
  - intros j j' i Hj Hj' Hi Hm. apply (axis_y_cells a g sel k j j' i (2 * Z.of_nat jm)); assumption.
  - split; [exact H0|]. apply H1. apply tower_on_row. exact Htow.
Qed.

Theorem centroid_cols (a : args) (g : geom) sel k im r rows :
  (forall pq s, sel (fst pq * s, snd pq * s) = sel pq * s) ->
  geometry O a = inl g -> a_footprint O a = true -> no_u a -> g_dx O g <> 0 ->
  tower_x a g (2 * Z.of_nat im) -> exact_x g ->
  (k < length (a_levels O a))%nat ->
  (forall d, (- Z.of_nat r <= d <= Z.of_nat r)%Z -> (cyc (g_nxe O g) im d < g_nx O g)%nat) ->
  (forall j, In j rows -> (j < g_ny O g)%nat) ->
  let S := fun d : Z => csum O (map (fun j =>
              get3 O (field O a g sel (table O a g)) k j (cyc (g_nxe O g) im d)) rows) in
  wsum r (fun d => ofZ d * S d) = 0 /\
  wsum r (fun d => ofZ (Z.of_nat im + d) * g_dx O g * S d) = a_xm O a * wsum r S.
Proof.
  intros Hsel Hg Hfp Hu Hdx Htow Hex Hk Hwin Hrows.
  assert (Hxe0 : g_nxe O g <> 0%nat).
  { destruct (geometry_inv O L a g Hg) as (_ & _ & _ & _ & _ & Exe & _).
    pose proof (Hwin 0%Z ltac:(lia)). lia. }
  destruct (moment_cols g (field O a g sel (table O a g)) k im r rows Hxe0) as [H0 H1]; try assumption.
  - intros j i i' Hj Hi Hi' Hm. destruct Hex as [Ho|Hfull].
    + apply (axis_x_cells_odd a g sel k j i i' (2 * Z.of_nat im)); assumption.
    + apply (axis_x_cells_full a g sel k j i i' (2 * Z.of_nat im)); try assumption. apply even_double.
  - split; [exact H0|]. apply H1. apply tower_on_col. exact Htow.
Qed.

Theorem centroid_cols_noNyq (a : args) (g : geom) sel k im r rows :
  (forall pq s, sel (fst pq * s, snd pq * s) = sel pq * s) ->
  geometry O a = inl g -> a_footprint O a = true -> no_u a -> g_dx O g <> 0 ->
  tower_x a g (2 * Z.of_nat im) ->
  (k < length (a_levels O a))%nat ->
  (forall d, (- Z.of_nat r <= d <= Z.of_nat r)%Z -> (cyc (g_nxe O g) im d < g_nx O g)%nat) ->
  (forall j, In j rows -> (j < g_ny O g)%nat) ->
  let S := fun d : Z => csum O (map (fun j =>
              get3 O (field O a g sel (table_noNyq O a g)) k j (cyc (g_nxe O g) im d)) rows) in
  wsum r (fun d => ofZ d * S d) = 0 /\
  wsum r (fun d => ofZ (Z.of_nat im + d) * g_dx O g * S d) = a_xm O a * wsum r S.
Proof.
  intros Hsel Hg Hfp Hu Hdx Htow Hk Hwin Hrows.
  assert (Hxe0 : g_nxe O g <> 0%nat).
  { destruct (geometry_inv O L a g Hg) as (_ & _ & _ & _ & _ & Exe & _).
    pose proof (Hwin 0%Z ltac:(lia)). lia. }
  destruct (moment_cols g (field O a g sel (table_noNyq O a g)) k im r rows Hxe0) as [H0 H1]; try assumption.
  - intros j i i' Hj Hi Hi' Hm. apply (axis_x_cells a g sel k j i i' (2 * Z.of_nat im)); assumption.
  - split; [exact H0|]. apply H1. apply tower_on_col. exact Htow.
Qed.

(* ================================================================ any tower position: window j0 .. j0+n-1 with 2 j0 + n - 1 = m *)

(* sum of w(j) over the rows j = j0 .. j0 + n - 1 *)
Definition rsum (j0 : Z) (n : nat) (w : Z -> C) : C :=
  csum O (map (fun t => w (j0 + Z.of_nat t)%Z) (seq 0 n)).

Lemma rsum_ext j0 n w1 w2 :
  (forall j, (j0 <= j < j0 + Z.of_nat n)%Z -> w1 j = w2 j) -> rsum j0 n w1 = rsum j0 n w2.
Proof.
  intros H. unfold rsum. apply (csum_map_ext O L). intros t Ht. apply in_seq in Ht. apply H. lia.
Qed.

Lemma rsum_add j0 n w1 w2 : rsum j0 n (fun j => w1 j + w2 j) = rsum j0 n w1 + rsum j0 n w2.
Proof. unfold rsum. apply (csum_map_add O L). Qed.

Lemma rsum_scale j0 n s w : rsum j0 n (fun j => s * w j) = s * rsum j0 n w.
Proof. unfold rsum. apply (csum_map_scale O L). Qed.

Lemma rsum_odd_zero j0 n m (S : Z -> C) :
  (2 * j0 + Z.of_nat n - 1 = m)%Z ->
  (forall j, (j0 <= j < j0 + Z.of_nat n)%Z -> S (m - j)%Z = S j) ->
  rsum j0 n (fun j => ofZ (2 * j - m) * S j) = 0.
Proof.
  intros Hm Hev. set (X := rsum j0 n (fun j => ofZ (2 * j - m) * S j)).
  assert (H2 : X + X = 0).
  { unfold X at 1. unfold rsum.
    rewrite <- (csum_rev O L n (fun t => ofZ (2 * (j0 + Z.of_nat t) - m) * S (j0 + Z.of_nat t)%Z)).
    unfold X, rsum. rewrite <- (csum_map_add O L).
    rewrite <- (csum_map_zero O L (seq 0 n)). apply (csum_map_ext O L).
    intros t Ht. apply in_seq in Ht.
    replace (j0 + Z.of_nat (n - 1 - t))%Z with (m - (j0 + Z.of_nat t))%Z by lia.
    rewrite Hev by lia.
    replace (2 * (m - (j0 + Z.of_nat t)) - m)%Z with (- (2 * (j0 + Z.of_nat t) - m))%Z by lia.
    rewrite (L_ofZ_opp O L). ring. }
  transitivity (1 / (1 + 1) * (X + X)); [field; apply (two_nz O L)|]. rewrite H2. ring.
Qed.

Lemma cyc0_mirror (n : nat) (m j : Z) : n <> 0%nat ->
  ((Z.of_nat (cyc n 0 (m - j)) + Z.of_nat (cyc n 0 j)) mod Z.of_nat n = m mod Z.of_nat n)%Z.
Proof.
  intros Hn. unfold cyc. rewrite !Z2Nat.id by (apply Z.mod_pos_bound; lia).
  rewrite <- Zplus_mod. f_equal. lia.
Qed.

(* rows j0 .. j0+n-1 (cyclically on the padded grid), a window symmetric about the tower: 2 j0 + n - 1 = m;
   sum (2 j - m) S_j = 0, and in coordinates sum y_j S_j = ym sum S_j whenever 2 ym = m dy *)
Lemma moment_rows_any (g : geom) (F : list (list (list C))) (k : nat) (j0 : Z) (n : nat) (m : Z) (cols : list nat) :
  g_nye O g <> 0%nat -> (2 * j0 + Z.of_nat n - 1 = m)%Z ->
  (forall j j' i, (j < g_ny O g)%nat -> (j' < g_ny O g)%nat -> (i < g_nx O g)%nat ->
     mirror_rows g m j j' -> get3 O F k j i = get3 O F k j' i) ->
  (forall j, (j0 <= j < j0 + Z.of_nat n)%Z -> (cyc (g_nye O g) 0 j < g_ny O g)%nat) ->
  (forall i, In i cols -> (i < g_nx O g)%nat) ->
  let S := fun j : Z => csum O (map (fun i => get3 O F k (cyc (g_nye O g) 0 j) i) cols) in
  rsum j0 n (fun j => ofZ (2 * j - m) * S j) = 0 /\
  (forall ym dy, (1 + 1) * ym = ofZ m * dy ->
     rsum j0 n (fun j => ofZ j * dy * S j) = ym * rsum j0 n S).
Proof.
  intros Hye0 Hm Hsym Hwin Hcols S.
  assert (H0 : rsum j0 n (fun j => ofZ (2 * j - m) * S j) = 0).
  { apply (rsum_odd_zero j0 n m S Hm). intros j Hj. unfold S. apply (csum_map_ext O L). intros i Hi.
    apply Hsym; [apply Hwin; lia|apply Hwin; lia|apply Hcols; exact Hi|].
    unfold mirror_rows. apply cyc0_mirror. exact Hye0. }
  split; [exact H0|]. intros ym dy Hy.
  assert (E : (1 + 1) * rsum j0 n (fun j => ofZ j * dy * S j) = (1 + 1) * (ym * rsum j0 n S)).
  { rewrite <- rsum_scale.
    rewrite (rsum_ext j0 n _ (fun j => dy * (ofZ (2 * j - m) * S j) + (ofZ m * dy) * S j)).
    2:{ intros j _. unfold Z.sub. rewrite (L_ofZ_add O L), (L_ofZ_mul O L), (L_ofZ_opp O L), (ofZ_2 O L). ring. }
    rewrite rsum_add, !rsum_scale, H0, <- Hy. ring. }
  transitivity (1 / (1 + 1) * ((1 + 1) * rsum j0 n (fun j => ofZ j * dy * S j))); [field; apply (two_nz O L)|].
  rewrite E. field. apply (two_nz O L).
Qed.

Lemma moment_cols_any (g : geom) (F : list (list (list C))) (k : nat) (i0 : Z) (n : nat) (m : Z) (rows : list nat) :
  g_nxe O g <> 0%nat -> (2 * i0 + Z.of_nat n - 1 = m)%Z ->
  (forall j i i', (j < g_ny O g)%nat -> (i < g_nx O g)%nat -> (i' < g_nx O g)%nat ->
     mirror_cols g m i i' -> get3 O F k j i = get3 O F k j i') ->
  (forall i, (i0 <= i < i0 + Z.of_nat n)%Z -> (cyc (g_nxe O g) 0 i < g_nx O g)%nat) ->
  (forall j, In j rows -> (j < g_ny O g)%nat) ->
  let S := fun i : Z => csum O (map (fun j => get3 O F k j (cyc (g_nxe O g) 0 i)) rows) in
  rsum i0 n (fun i => ofZ (2 * i - m) * S i) = 0 /\
  (forall xm dx, (1 + 1) * xm = ofZ m * dx ->
     rsum i0 n (fun i => ofZ i * dx * S i) = xm * rsum i0 n S).
Proof.
  intros Hxe0 Hm Hsym Hwin Hrows S.
  assert (H0 : rsum i0 n (fun i => ofZ (2 * i - m) * S i) = 0).
  { apply (rsum_odd_zero i0 n m S Hm). intros i Hi. unfold S. apply (csum_map_ext O L). intros j Hj.
    apply Hsym; [apply Hrows; exact Hj|apply Hwin; lia|apply Hwin; lia|].
    unfold mirror_cols. apply cyc0_mirror. exact Hxe0. }
  split; [exact H0|]. intros xm dx Hx.
  assert (E : (1 + 1) * rsum i0 n (fun i => ofZ i * dx * S i) = (1 + 1) * (xm * rsum i0 n S)).
  { rewrite <- rsum_scale.
    rewrite (rsum_ext i0 n _ (fun i => dx * (ofZ (2 * i - m) * S i) + (ofZ m * dx) * S i)).
    2:{ intros i _. unfold Z.sub. rewrite (L_ofZ_add O L), (L_ofZ_mul O L), (L_ofZ_opp O L), (ofZ_2 O L). ring. }
    rewrite rsum_add, !rsum_scale, H0, <- Hx. ring. }
  transitivity (1 / (1 + 1) * ((1 + 1) * rsum i0 n (fun i => ofZ i * dx * S i))); [field; apply (two_nz O L)|].
  rewrite E. field. apply (two_nz O L).
Qed.

(* the returned array is exactly symmetric: odd retained count, or full spectrum with the tower on a grid line *)
Definition exact_y_at (g : geom) (m : Z) : Prop :=
  Nat.odd (g_nly O g) = true \/ (g_nly O g = g_nye O g /\ Z.even m = true).
Definition exact_x_at (g : geom) (m : Z) : Prop :=
  Nat.odd (g_nlx O g) = true \/ (g_nlx O g = g_nxe O g /\ Z.even m = true).

Theorem centroid_rows_any (a : args) (g : geom) sel k j0 n m cols :
  (forall pq s, sel (fst pq * s, snd pq * s) = sel pq * s) ->
  geometry O a = inl g -> a_footprint O a = true -> no_v a -> g_dy O g <> 0 ->
  tower_y a g m -> exact_y_at g m -> (2 * j0 + Z.of_nat n - 1 = m)%Z -> n <> 0%nat ->
  (k < length (a_levels O a))%nat ->
  (forall j, (j0 <= j < j0 + Z.of_nat n)%Z -> (cyc (g_nye O g) 0 j < g_ny O g)%nat) ->
  (forall i, In i cols -> (i < g_nx O g)%nat) ->
  let S := fun j : Z => csum O (map (fun i =>
              get3 O (field O a g sel (table O a g)) k (cyc (g_nye O g) 0 j) i) cols) in
  rsum j0 n (fun j => ofZ (2 * j - m) * S j) = 0 /\
  rsum j0 n (fun j => ofZ j * g_dy O g * S j) = a_ym O a * rsum j0 n S.
Proof.
  intros Hsel Hg Hfp Hv Hdy Htow Hex Hm Hn Hk Hwin Hcols.
  assert (Hye0 : g_nye O g <> 0%nat).
  { destruct (geometry_inv O L a g Hg) as (_ & _ & _ & _ & _ & _ & Eye & _).
    pose proof (Hwin j0 ltac:(lia)). lia. }
  destruct (moment_rows_any g (field O a g sel (table O a g)) k j0 n m cols Hye0 Hm) as [H0 H1]; try assumption.
  - intros j j' i Hj Hj' Hi Hmr. destruct Hex as [Ho|[Hfull Hev]].
    + apply (axis_y_cells_odd a g sel k j j' i m); assumption.
    + apply (axis_y_cells_full a g sel k j j' i m); assumption.
  - split; [exact H0|]. apply H1. exact Htow.
Qed.

Theorem centroid_rows_any_noNyq (a : args) (g : geom) sel k j0 n m cols :
  (forall pq s, sel (fst pq * s, snd pq * s) = sel pq * s) ->
  geometry O a = inl g -> a_footprint O a = true -> no_v a -> g_dy O g <> 0 ->
  tower_y a g m -> (2 * j0 + Z.of_nat n - 1 = m)%Z -> n <> 0%nat ->
  (k < length (a_levels O a))%nat ->
  (forall j, (j0 <= j < j0 + Z.of_nat n)%Z -> (cyc (g_nye O g) 0 j < g_ny O g)%nat) ->
  (forall i, In i cols -> (i < g_nx O g)%nat) ->
  let S := fun j : Z => csum O (map (fun i =>
              get3 O (field O a g sel (table_noNyq_y O a g)) k (cyc (g_nye O g) 0 j) i) cols) in
  rsum j0 n (fun j => ofZ (2 * j - m) * S j) = 0 /\
  rsum j0 n (fun j => ofZ j * g_dy O g * S j) = a_ym O a * rsum j0 n S.
Proof.
  intros Hsel Hg Hfp Hv Hdy Htow Hm Hn Hk Hwin Hcols.
  assert (Hye0 : g_nye O g <> 0%nat).
  { destruct (geometry_inv O L a g Hg) as (_ & _ & _ & _ & _ & _ & Eye & _).
    pose proof (Hwin j0 ltac:(lia)). lia. }
  destruct (moment_rows_any g (field O a g sel (table_noNyq_y O a g)) k j0 n m cols Hye0 Hm) as [H0 H1]; try assumption.
  - intros j j' i Hj Hj' Hi Hmr. apply (axis_y_cells a g sel k j j' i m); assumption.
  - split; [exact H0|]. apply H1. exact Htow.
Qed.

Theorem centroid_cols_any (a : args) (g : geom) sel k i0 n m rows :
  (forall pq s, sel (fst pq * s, snd pq * s) = sel pq * s) ->
  geometry O a = inl g -> a_footprint O a = true -> no_u a -> g_dx O g <> 0 ->
  tower_x a g m -> exact_x_at g m -> (2 * i0 + Z.of_nat n - 1 = m)%Z -> n <> 0%nat ->
  (k < length (a_levels O a))%nat ->
  (forall i, (i0 <= i < i0 + Z.of_nat n)%Z -> (cyc (g_nxe O g) 0 i < g_nx O g)%nat) ->
  (forall j, In j rows -> (j < g_ny O g)%nat) ->
  let S := fun i : Z => csum O (map (fun j =>
              get3 O (field O a g sel (table O a g)) k j (cyc (g_nxe O g) 0 i)) rows) in
  rsum i0 n (fun i => ofZ (2 * i - m) * S i) = 0 /\
  rsum i0 n (fun i => ofZ i * g_dx O g * S i) = a_xm O a * rsum i0 n S.
Proof.
  intros Hsel Hg Hfp Hu Hdx Htow Hex Hm Hn Hk Hwin Hrows.
  assert (Hxe0 : g_nxe O g <> 0%nat).
  { destruct (geometry_inv O L a g Hg) as (_ & _ & _ & _ & _ & Exe & _).
    pose proof (Hwin i0 ltac:(lia)). lia. }
  destruct (moment_cols_any g (field O a g sel (table O a g)) k i0 n m rows Hxe0 Hm) as [H0 H1]; try assumption.
  - intros j i i' Hj Hi Hi' Hmc. destruct Hex as [Ho|[Hfull Hev]].
    + apply (axis_x_cells_odd a g sel k j i i' m); assumption.
    + apply (axis_x_cells_full a g sel k j i i' m); assumption.
  - split; [exact H0|]. apply H1. exact Htow.
Qed.

Theorem centroid_cols_any_noNyq (a : args) (g : geom) sel k i0 n m rows :
  (forall pq s, sel (fst pq * s, snd pq * s) = sel pq * s) ->
  geometry O a = inl g -> a_footprint O a = true -> no_u a -> g_dx O g <> 0 ->
  tower_x a g m -> (2 * i0 + Z.of_nat n - 1 = m)%Z -> n <> 0%nat ->
  (k < length (a_levels O a))%nat ->
  (forall i, (i0 <= i < i0 + Z.of_nat n)%Z -> (cyc (g_nxe O g) 0 i < g_nx O g)%nat) ->
  (forall j, In j rows -> (j < g_ny O g)%nat) ->
  let S := fun i : Z => csum O (map (fun j =>
              get3 O (field O a g sel (table_noNyq O a g)) k j (cyc (g_nxe O g) 0 i)) rows) in
  rsum i0 n (fun i => ofZ (2 * i - m) * S i) = 0 /\
  rsum i0 n (fun i => ofZ i * g_dx O g * S i) = a_xm O a * rsum i0 n S.
Proof.
  intros Hsel Hg Hfp Hu Hdx Htow Hm Hn Hk Hwin Hrows.
  assert (Hxe0 : g_nxe O g <> 0%nat).
  { destruct (geometry_inv O L a g Hg) as (_ & _ & _ & _ & _ & Exe & _).
    pose proof (Hwin i0 ltac:(lia)). lia. }
  destruct (moment_cols_any g (field O a g sel (table_noNyq O a g)) k i0 n m rows Hxe0 Hm) as [H0 H1]; try assumption.
  - intros j i i' Hj Hi Hi' Hmc. apply (axis_x_cells a g sel k j i i' m); assumption.
  - split; [exact H0|]. apply H1. exact Htow.
Qed.

(* ================================================================ the hypotheses are satisfiable *)

(* a 4 x 3 request (3 columns, 4 rows), no halo, wind along x, tower on grid row 1, all modes retained *)
Definition ex_args : args :=
  mkArgs O [[1; 1; 1]; [1; 1; 1]; [1; 1; 1]; [1; 1; 1]] [1; 1 + 1]
         (mkProf O [1; 1] [0; 0] [1; 1] [1; 1] [1; 1])
         (ofZ 3) (ofZ 4) [1%nat] 4%nat 4%nat 1 1 0 true false (Some 0) false.
Definition ex_geom : geom := mkGeom O 3 4 2 (ofZ 3 / ofN 3) (ofZ 4 / ofN 4) 0 0 3 4 3 4.

Lemma ex_cell (n : Z) : n <> 0%Z -> ofZ n / ofZ n = 1.
Proof. intros Hn. field. apply (L_char0 O L). exact Hn. Qed.

Lemma axis_example :
  geometry O ex_args = inl ex_geom /\ a_footprint O ex_args = true /\ no_v ex_args /\
  g_dy O ex_geom <> 0 /\ tower_y ex_args ex_geom 2 /\ exact_y ex_geom /\
  mirror_rows ex_geom 2 0 2 /\ mirror_rows ex_geom 2 3 3 /\ (0 < length (a_levels O ex_args))%nat /\
  (forall d, (-1 <= d <= 1)%Z -> (cyc (g_nye O ex_geom) 1 d < g_ny O ex_geom)%nat).
Proof.
  assert (Hz : forall x, ctrunc O (0 / x) = 0%Z).
  { intros x. replace (0 / x) with 0 by (rewrite (Fdiv_def (L_field O L)); ring). apply (L_trunc_0 O L). }
  split; [|split; [|split; [|split; [|split; [|split; [|split; [|split; [|split]]]]]]]].
  - unfold geometry, ex_args. cbn [a_nlx a_nly a_q0 a_z a_xmx a_ymx a_halo a_levels Nat.odd negb orb length hd].
    rewrite !Hz. reflexivity.
  - reflexivity.
  - intros x [<-|[<-|[]]]; reflexivity.
  - cbn [g_dy ex_geom]. change (Z.of_nat 4) with 4%Z. rewrite ex_cell by discriminate. apply (one_nz O L).
  - unfold tower_y. cbn [a_ym ex_args g_dy ex_geom]. change (Z.of_nat 4) with 4%Z.
    rewrite ex_cell by discriminate. rewrite (ofZ_2 O L). ring.
  - right. reflexivity.
  - reflexivity.
  - reflexivity.
  - cbn. lia.
  - intros d Hd. unfold ex_geom. cbn [g_nye g_ny]. apply (cyc_lt O L). lia.
Qed.

(* the same request with the tower half way between rows 1 and 2 (m = 3): rows 1 and 2 are mirror images, the window
   of rows 1..2 is centred on the tower *)
Definition ex_args_half : args := with_meas O ex_args 1 (ofZ 3 / ofZ 2).

Lemma axis_example_half :
  geometry O ex_args_half = inl ex_geom /\ a_footprint O ex_args_half = true /\ no_v ex_args_half /\
  tower_y ex_args_half ex_geom 3 /\ mirror_rows ex_geom 3 1 2 /\ (2 * 1 + Z.of_nat 2 - 1 = 3)%Z /\
  (forall j, (1 <= j < 1 + Z.of_nat 2)%Z -> (cyc (g_nye O ex_geom) 0 j < g_ny O ex_geom)%nat).
Proof.
  destruct axis_example as (Hg & Hfp & Hv & _).
  split; [|split; [|split; [|split; [|split; [|split]]]]].
  - rewrite <- Hg. apply (geometry_shape_only O L); reflexivity.
  - reflexivity.
  - exact Hv.
  - unfold tower_y. cbn [a_ym ex_args_half with_meas g_dy ex_geom]. change (Z.of_nat 4) with 4%Z.
    rewrite ex_cell by discriminate. rewrite (ofZ_2 O L), (ofZ_3 O L). field. apply (two_nz O L).
  - reflexivity.
  - reflexivity.
  - intros j Hj. unfold ex_geom. cbn [g_nye g_ny]. apply (cyc_lt O L). lia.
Qed.

(* the theorems applied to the example: rows 0 and 2 of the returned flux footprint coincide, and the first moment
   of rows 0..2 about the tower row 1 vanishes *)
Lemma axis_example_applied :
  (forall i, (i < 3)%nat ->
     get3 O (field O ex_args ex_geom snd (table O ex_args ex_geom)) 0 0 i
     = get3 O (field O ex_args ex_geom snd (table O ex_args ex_geom)) 0 2 i) /\
  wsum 1 (fun d => ofZ d * csum O (map (fun i =>
     get3 O (field O ex_args ex_geom snd (table O ex_args ex_geom)) 0 (cyc 4 1 d) i) [0; 1; 2]%nat)) = 0.
Proof.
  destruct axis_example as (Hg & Hfp & Hv & Hdy & Htow & Hex & Hm02 & _ & Hk & Hwin).
  split.
  - intros i Hi. apply (axis_y_cells_full ex_args ex_geom snd 0 0 2 i 2); try assumption; try reflexivity.
    + cbn. lia.
    + cbn. lia.
  - apply (centroid_rows ex_args ex_geom snd 0 1 1 [0; 1; 2]%nat); try assumption; try reflexivity.
    intros i [<-|[<-|[<-|[]]]]; cbn; lia.
Qed.

End C08A.
