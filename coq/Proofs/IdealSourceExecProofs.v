(* The rational twin of the indicator shapes (Model/IdealSourceExec.v) decides the real model (Model/IdealSource.v). *)
From Coq Require Import QArith Qreals Reals String List Bool Arith Lia Lra.
From BL Require Import Model.IdealSource Model.IdealSourceExec Proofs.IdealSourceProofs.
Import ListNotations.
Open Scope R_scope.

Lemma Q2R_inject_Z : forall z, Q2R (inject_Z z) = IZR z.
Proof. intro z. unfold Q2R, inject_Z. simpl. rewrite Rinv_1, Rmult_1_r. reflexivity. Qed.

Lemma Q2R_nat : forall n, Q2R (inject_Z (Z.of_nat n)) = INR n.
Proof. intro n. rewrite Q2R_inject_Z, INR_IZR_INZ. reflexivity. Qed.

Lemma Q2R_0 : Q2R 0 = 0.
Proof. unfold Q2R. simpl. lra. Qed.

Lemma Q2R_1 : Q2R 1 = 1.
Proof. unfold Q2R. simpl. lra. Qed.

Lemma Q2R_2 : Q2R 2 = 2.
Proof. unfold Q2R. simpl. lra. Qed.

Lemma Q2R_12 : Q2R 12 = 12.
Proof. unfold Q2R. simpl. lra. Qed.

Lemma Q2R_neq0 : forall q, Q2R q <> 0 -> ~ (q == 0)%Q.
Proof. intros q H E. apply Qeq_eqR in E. rewrite Q2R_0 in E. exact (H E). Qed.

Lemma Q2R_qabs : forall q, Q2R (qabs q) = Rabs (Q2R q).
Proof.
  intro q. unfold qabs. destruct (Qle_bool 0 q) eqn:E.
  - apply Qle_bool_iff in E. apply Qle_Rle in E. rewrite Q2R_0 in E. rewrite Rabs_right by lra. reflexivity.
  - assert (L : (q < 0)%Q).
    { apply Qnot_le_lt. intro H. apply Qle_bool_iff in H. rewrite H in E. discriminate. }
    apply Qlt_Rlt in L. rewrite Q2R_0 in L. rewrite Q2R_opp, Rabs_left by lra. reflexivity.
Qed.

Lemma qltb_spec : forall a b, qltb a b = true <-> Q2R a < Q2R b.
Proof.
  intros a b. unfold qltb. split; intro H.
  - apply negb_true_iff in H. apply Qlt_Rlt. apply Qnot_le_lt. intro K. apply Qle_bool_iff in K. rewrite K in H. discriminate.
  - apply negb_true_iff. destruct (Qle_bool b a) eqn:E; [ | reflexivity ].
    apply Qle_bool_iff in E. apply Qle_Rle in E. lra.
Qed.

Lemma ind_qltb : forall a b, (if Rlt_dec (Q2R a) (Q2R b) then 1 else 0) = (if qltb a b then 1 else 0).
Proof.
  intros a b. destruct (Rlt_dec (Q2R a) (Q2R b)) as [H|H]; destruct (qltb a b) eqn:E; try reflexivity; exfalso.
  - apply qltb_spec in H. rewrite H in E. discriminate.
  - apply qltb_spec in E. exact (H E).
Qed.

Lemma Q2R_div12 : forall q, Q2R (q / 12) = Q2R q / 12.
Proof. intro q. rewrite Q2R_div by (apply Q2R_neq0; rewrite Q2R_12; lra). rewrite Q2R_12. reflexivity. Qed.

Lemma Q2R_div2 : forall q, Q2R (q / 2) = Q2R q / 2.
Proof. intro q. rewrite Q2R_div by (apply Q2R_neq0; rewrite Q2R_2; lra). rewrite Q2R_2. reflexivity. Qed.

Lemma Q2R_linspace : forall a b n i, Q2R (q_linspace a b n i) = np_linspace (Q2R a) (Q2R b) n i.
Proof.
  intros a b n i. unfold q_linspace, np_linspace.
  destruct n as [|[|n]]; try reflexivity.
  assert (Hd : Q2R (inject_Z (Z.of_nat (S (S n))) - 1) = INR (S (S n)) - 1).
  { rewrite Q2R_minus, Q2R_nat, Q2R_1. reflexivity. }
  assert (Hp : 0 < INR (S (S n)) - 1) by (apply INR_ge2; lia).
  rewrite Q2R_plus, Q2R_mult, Q2R_nat, Q2R_div by (apply Q2R_neq0; rewrite Hd; lra).
  rewrite Hd, Q2R_minus. reflexivity.
Qed.

Definition loc_Q2R (loc : option (Q * Q)) : option (R * R) :=
  match loc with
  | None => None
  | Some p => Some (Q2R (fst p), Q2R (snd p))
  end.

Lemma Q2R_loc : forall xmx ymx loc,
  fst (ideal_loc (Q2R xmx) (Q2R ymx) (loc_Q2R loc)) = Q2R (fst (q_loc xmx ymx loc)) /\
  snd (ideal_loc (Q2R xmx) (Q2R ymx) (loc_Q2R loc)) = Q2R (snd (q_loc xmx ymx loc)).
Proof. intros xmx ymx [[a b]|]; simpl; [ split; reflexivity | rewrite !Q2R_div2; split; reflexivity ]. Qed.

Lemma diamond_Q : forall xmx xs ys X Y,
  ideal_diamond (Q2R xmx) (Q2R xs) (Q2R ys) (Q2R X) (Q2R Y) = if q_diamond xmx xs ys X Y then 1 else 0.
Proof.
  intros. unfold ideal_diamond, q_diamond, ideal_l1, ideal_R0.
  rewrite <- ind_qltb, Q2R_plus, !Q2R_qabs, !Q2R_minus, Q2R_div12. reflexivity.
Qed.

Lemma circle_Q : forall xmx xs ys X Y,
  ideal_circle (Q2R xmx) (Q2R xs) (Q2R ys) (Q2R X) (Q2R Y) = if q_circle xmx xs ys X Y then 1 else 0.
Proof.
  intros. unfold ideal_circle, q_circle, ideal_R0.
  set (s := ideal_rsq (Q2R xs) (Q2R ys) (Q2R X) (Q2R Y)).
  assert (Hs : Q2R ((X - xs) * (X - xs) + (Y - ys) * (Y - ys)) = s).
  { unfold s, ideal_rsq. rewrite Q2R_plus, !Q2R_mult, !Q2R_minus. reflexivity. }
  assert (Hs0 : 0 <= s) by apply rsq_nonneg.
  assert (Hr : Q2R (xmx / 12 * (xmx / 12)) = Q2R xmx / 12 * (Q2R xmx / 12)) by (rewrite Q2R_mult, Q2R_div12; reflexivity).
  destruct (qltb 0 (xmx / 12)) eqn:E0.
  - apply qltb_spec in E0. rewrite Q2R_0, Q2R_div12 in E0. simpl andb.
    rewrite <- ind_qltb, Hs, Hr.
    destruct (Rlt_dec (sqrt s) (Q2R xmx / 12)) as [H|H]; destruct (Rlt_dec s (Q2R xmx / 12 * (Q2R xmx / 12))) as [K|K]; try reflexivity; exfalso.
    + apply K. apply sqrt_lt_iff_sq; assumption.
    + apply H. apply sqrt_lt_iff_sq; assumption.
  - simpl andb. destruct (Rlt_dec (sqrt s) (Q2R xmx / 12)) as [H|H]; [ exfalso | reflexivity ].
    assert (P : 0 < Q2R xmx / 12) by (pose proof (sqrt_pos s); lra).
    assert (T : qltb 0 (xmx / 12) = true) by (apply qltb_spec; rewrite Q2R_0, Q2R_div12; exact P).
    rewrite T in E0. discriminate.
Qed.

Lemma indicator_Q : forall shape nx xmx xs ys X Y, shape <> "point"%string ->
  ideal_value shape nx (Q2R xmx) (Q2R xs) (Q2R ys) (Q2R X) (Q2R Y) = if q_indicator shape xmx xs ys X Y then 1 else 0.
Proof.
  intros shape nx xmx xs ys X Y Hp. unfold ideal_value, q_indicator.
  apply String.eqb_neq in Hp. rewrite Hp, diamond_Q, circle_Q.
  destruct (String.eqb shape "diamond"); destruct (String.eqb shape "circle"); reflexivity.
Qed.

(* the rational pattern decides the real field, cell by cell, for every shape string but "point" *)
Lemma source_cell_Q : forall shape nx ny xmx ymx loc j i, shape <> "point"%string ->
  ideal_source_cell shape nx ny (Q2R xmx) (Q2R ymx) (loc_Q2R loc) j i =
  if q_source_cell shape nx ny xmx ymx loc j i then 1 else 0.
Proof.
  intros shape nx ny xmx ymx loc j i Hp. unfold ideal_source_cell, ideal_cell, q_source_cell, ideal_x, ideal_y.
  destruct (Q2R_loc xmx ymx loc) as [E1 E2]. rewrite E1, E2.
  assert (EX : np_linspace 0 (Q2R xmx) nx i = Q2R (q_linspace 0 xmx nx i)) by (rewrite Q2R_linspace, Q2R_0; reflexivity).
  assert (EY : np_linspace 0 (Q2R ymx) ny j = Q2R (q_linspace 0 ymx ny j)) by (rewrite Q2R_linspace, Q2R_0; reflexivity).
  rewrite EX, EY. apply indicator_Q. exact Hp.
Qed.

(* no disagreement reported = the observed rows are the model's rows wherever a 0 / 1 was observed *)
Lemma bad_in_row_nil : forall m o j i0, bad_in_row j i0 m o = [] ->
  length m = length o /\ forall k, (k < length m)%nat -> agree_cell (nth k m false) (nth k o 2%Z) = true.
Proof.
  induction m as [|b m IH]; intros [|z o] j i0 H; simpl in H; try discriminate.
  - split; [ reflexivity | intros k Hk; simpl in Hk; lia ].
  - apply app_eq_nil in H. destruct H as [H1 H2]. destruct (IH o j (i0 + 1)%Z H2) as [L A].
    split; [ simpl; rewrite L; reflexivity | ].
    intros [|k] Hk; simpl.
    + destruct (agree_cell b z); [ reflexivity | discriminate ].
    + apply A. simpl in Hk. lia.
Qed.

Lemma bad_in_rows_nil : forall m o j0, bad_in_rows j0 m o = [] ->
  length m = length o /\
  forall j, (j < length m)%nat -> length (nth j m []) = length (nth j o []) /\
    forall k, (k < length (nth j m []))%nat -> agree_cell (nth k (nth j m []) false) (nth k (nth j o []) 2%Z) = true.
Proof.
  induction m as [|r m IH]; intros [|s o] j0 H; simpl in H; try discriminate.
  - split; [ reflexivity | intros j Hj; simpl in Hj; lia ].
  - apply app_eq_nil in H. destruct H as [H1 H2]. destruct (IH o (j0 + 1)%Z H2) as [L A].
    split; [ simpl; rewrite L; reflexivity | ].
    intros [|j] Hj; simpl.
    + exact (bad_in_row_nil r s j0 0%Z H1).
    + apply A. simpl in Hj. lia.
Qed.

Lemma q_source_nth : forall shape nx ny xmx ymx loc j i, (j < ny)%nat -> (i < nx)%nat ->
  nth i (nth j (q_source shape nx ny xmx ymx loc) []) false = q_source_cell shape nx ny xmx ymx loc j i.
Proof.
  intros shape nx ny xmx ymx loc j i Hj Hi. unfold q_source.
  rewrite (nth_indep _ [] (map (fun i0 => q_source_cell shape nx ny xmx ymx loc 0%nat i0) (seq 0 nx)))
    by (rewrite map_length, seq_length; exact Hj).
  rewrite (map_nth (fun j0 => map (fun i0 => q_source_cell shape nx ny xmx ymx loc j0 i0) (seq 0 nx)) (seq 0 ny) 0%nat j).
  rewrite seq_nth by exact Hj. simpl.
  rewrite (nth_indep _ false (q_source_cell shape nx ny xmx ymx loc j 0%nat))
    by (rewrite map_length, seq_length; exact Hi).
  rewrite (map_nth (fun i0 => q_source_cell shape nx ny xmx ymx loc j i0) (seq 0 nx) 0%nat i).
  rewrite seq_nth by exact Hi. reflexivity.
Qed.

(* what an empty answer of the in-Coq comparison means, in terms of the REAL model *)
Lemma disagreements_nil_sound : forall shape nx ny xmx ymx loc obs, shape <> "point"%string ->
  ideal_disagreements shape nx ny xmx ymx loc obs = [] ->
  length obs = ny /\
  forall j i, (j < ny)%nat -> (i < nx)%nat ->
    length (nth j obs []) = nx /\
    (nth i (nth j obs []) 2%Z = 1%Z -> ideal_source_cell shape nx ny (Q2R xmx) (Q2R ymx) (loc_Q2R loc) j i = 1) /\
    (nth i (nth j obs []) 2%Z = 0%Z -> ideal_source_cell shape nx ny (Q2R xmx) (Q2R ymx) (loc_Q2R loc) j i = 0).
Proof.
  intros shape nx ny xmx ymx loc obs Hp H. unfold ideal_disagreements in H.
  destruct (bad_in_rows_nil _ _ _ H) as [L A].
  assert (Lm : length (q_source shape nx ny xmx ymx loc) = ny) by (unfold q_source; rewrite map_length, seq_length; reflexivity).
  split; [ rewrite <- L; exact Lm | ].
  intros j i Hj Hi. rewrite Lm in A. destruct (A j Hj) as [Lr Ar].
  assert (Lmr : length (nth j (q_source shape nx ny xmx ymx loc) []) = nx).
  { unfold q_source.
    rewrite (nth_indep _ [] (map (fun i0 => q_source_cell shape nx ny xmx ymx loc 0%nat i0) (seq 0 nx)))
      by (rewrite map_length, seq_length; exact Hj).
    rewrite (map_nth (fun j0 => map (fun i0 => q_source_cell shape nx ny xmx ymx loc j0 i0) (seq 0 nx)) (seq 0 ny) 0%nat j).
    rewrite map_length, seq_length. reflexivity. }
  split; [ rewrite <- Lr; exact Lmr | ].
  rewrite Lmr in Ar. specialize (Ar i Hi). rewrite q_source_nth in Ar by assumption.
  rewrite source_cell_Q by exact Hp.
  split; intro E; rewrite E in Ar; simpl in Ar.
  - rewrite Ar. reflexivity.
  - apply negb_true_iff in Ar. rewrite Ar. reflexivity.
Qed.
