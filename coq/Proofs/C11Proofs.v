(* C11: the result keeps the input grid for every size parity, halo and mode count; outcome is a
   correctly shaped result or an error; retaining fewer modes leaves every retained component
   unchanged; requesting more modes than the padded grid holds is the same as requesting all. *)
From Coq Require Import ZArith List Field Ring Lia Bool Arith.
From BL Require Import Base.Ops Base.Laws Model.Solver Proofs.Sums Proofs.StepProofs Proofs.ModeProofs Proofs.SpecProofs Proofs.Plumbing.
Import ListNotations.
Set Default Proof Using "All".

Section C11.
Variable O : Ops.
Hypothesis L : Laws O.
Notation C := (C O).
Notation "0" := (c0 O) : ops_scope. Notation "1" := (c1 O) : ops_scope.
Infix "+" := (cadd O) : ops_scope. Infix "*" := (cmul O) : ops_scope.
Infix "-" := (csub O) : ops_scope. Infix "/" := (cdiv O) : ops_scope.
Local Open Scope ops_scope.
Notation ofN n := (cofZ O (Z.of_nat n)).
Notation args := (args O).
Notation geom := (geom O).

(* the model's frequency map is the one the code's shift/slice/pad arithmetic realises *)
Lemma fftfreq_is_zfftfreq n t : fftfreq n t = zfftfreq (Z.of_nat n) (Z.of_nat t).
Proof. reflexivity. Qed.

(* ---------------------------------------------------------------- shape or error *)

Theorem shape_or_error (a : args) :
  (exists e, solve O a = inr e) \/
  (exists r, solve O a = inl r /\
     let ny := length (a_q0 O a) in let nx := length (hd [] (a_q0 O a)) in let nl := length (a_levels O a) in
     length (r_conc O r) = nl /\ length (r_flx O r) = nl /\
     (forall s, In s (r_conc O r) -> length s = ny /\ forall row, In row s -> length row = nx) /\
     (forall s, In s (r_flx O r) -> length s = ny /\ forall row, In row s -> length row = nx) /\
     r_x O r = map (fun i => ofN i * (a_xmx O a / ofN nx)) (seq 0 nx) /\
     r_y O r = map (fun j => ofN j * (a_ymx O a / ofN ny)) (seq 0 ny) /\
     r_z O r = map (fun l => nth0 O (a_z O a) l) (a_levels O a) /\
     r_shape O r = squeeze_shape [nl; ny; nx]).
Proof.
  destruct (solve O a) as [r|e] eqn:Hr; [right|left; exists e; reflexivity].
  exists r. split; [reflexivity|].
  destruct (solve_inv O L a r Hr) as (g & Hg & Hc & Hf & Hz & Hx & Hy & Hs).
  destruct (geometry_inv O L a g Hg) as (Hny & Hnx & _).
  cbv zeta. rewrite <- Hny, <- Hnx.
  assert (Hfield : forall sel tab, length (field O a g sel tab) = length (a_levels O a) /\
     forall s, In s (field O a g sel tab) -> length s = g_ny O g /\ forall row, In row s -> length row = g_nx O g).
  { intros sel tab. unfold field. split; [rewrite map_length, seq_length; reflexivity|].
    intros s Hin. apply in_map_iff in Hin. destruct Hin as (l & <- & _).
    split; [rewrite map_length, seq_length; reflexivity|].
    intros row Hrow. apply in_map_iff in Hrow. destruct Hrow as (j & <- & _).
    rewrite map_length, seq_length. reflexivity. }
  rewrite Hc, Hf.
  destruct (Hfield fst (table O a g)) as [A1 A2]. destruct (Hfield snd (table O a g)) as [B1 B2].
  split; [exact A1|]. split; [exact B1|]. split; [exact A2|]. split; [exact B2|].
  split; [exact Hx|]. split; [exact Hy|]. split; [exact Hz|]. exact Hs.
Qed.

(* which requests are rejected *)
Theorem error_iff (a : args) :
  (solve O a = inr ModesOdd <-> Nat.odd (a_nlx O a) || Nat.odd (a_nly O a) = true) /\
  (forall r, solve O a = inl r -> Nat.odd (a_nlx O a) || Nat.odd (a_nly O a) = false /\
      forall l, In l (a_levels O a) -> (l < length (a_z O a))%nat).
Proof.
  split.
  - unfold solve, geometry. destruct (Nat.odd (a_nlx O a) || Nat.odd (a_nly O a)); [split; reflexivity|].
    split; [|discriminate].
    destruct ((_ <? 0)%Z || (_ <? 0)%Z); [discriminate|].
    destruct ((_ <? a_nlx O a)%nat || (_ <? a_nly O a)%nat);
      (destruct (existsb _ (a_levels O a)); discriminate).
  - intros r Hr. destruct (solve_inv O L a r Hr) as (g & Hg & _).
    destruct (geometry_inv O L a g Hg) as (_ & _ & Hnz & _ & _ & _ & _ & Hlv).
    split; [|intros l Hl; rewrite <- Hnz; apply Hlv; exact Hl].
    revert Hg. unfold geometry. destruct (Nat.odd (a_nlx O a) || Nat.odd (a_nly O a)); [discriminate|reflexivity].
Qed.

(* ---------------------------------------------------------------- clamp *)

Definition with_modes (a : args) (nlx nly : nat) : args :=
  mkArgs O (a_q0 O a) (a_z O a) (a_prof O a) (a_xmx O a) (a_ymx O a) (a_levels O a) nlx nly
         (a_xm O a) (a_ym O a) (a_p000 O a) (a_footprint O a) (a_analytic O a) (a_halo O a) (a_single O a).

(* requesting more modes than the padded grid holds retains exactly as many as it holds *)
Theorem clamp_geometry (a : args) (g : geom) :
  geometry O a = inl g ->
  ((g_nxe O g < a_nlx O a)%nat \/ (g_nye O g < a_nly O a)%nat) ->
  g_nlx O g = g_nxe O g /\ g_nly O g = g_nye O g.
Proof.
  unfold geometry.
  destruct (Nat.odd (a_nlx O a) || Nat.odd (a_nly O a)); [discriminate|].
  destruct ((_ <? 0)%Z || (_ <? 0)%Z); [discriminate|].
  destruct ((_ <? a_nlx O a)%nat || (_ <? a_nly O a)%nat) eqn:E;
    (destruct (existsb _ (a_levels O a)); [discriminate|]); intros H; injection H as <-;
    cbn [g_nlx g_nly g_nxe g_nye]; intros Hgt.
  - split; reflexivity.
  - apply orb_false_iff in E. destruct E as [E1 E2]. apply Nat.ltb_ge in E1. apply Nat.ltb_ge in E2. lia.
Qed.

(* and then the whole result equals that of requesting exactly (nxe, nye), when those are even
   (an odd request is rejected before the clamp) *)
Theorem clamp_solve (a : args) (g : geom) :
  geometry O a = inl g ->
  ((g_nxe O g < a_nlx O a)%nat \/ (g_nye O g < a_nly O a)%nat) ->
  Nat.odd (g_nxe O g) || Nat.odd (g_nye O g) = false ->
  solve O (with_modes a (g_nxe O g) (g_nye O g)) = solve O a.
Proof.
  intros Hg Hgt Heven.
  destruct (clamp_geometry a g Hg Hgt) as [Ex Ey].
  assert (Hg' : geometry O (with_modes a (g_nxe O g) (g_nye O g)) = inl g).
  { revert Hg. unfold geometry. cbn [a_nlx a_nly a_q0 a_z a_xmx a_ymx a_halo a_levels with_modes].
    rewrite Heven.
    destruct (Nat.odd (a_nlx O a) || Nat.odd (a_nly O a)); [discriminate|].
    destruct ((_ <? 0)%Z || (_ <? 0)%Z); [discriminate|].
    destruct ((_ <? a_nlx O a)%nat || (_ <? a_nly O a)%nat) eqn:E;
      (destruct (existsb _ (a_levels O a)); [discriminate|]); intros H; injection H as <-;
      cbn [g_nxe g_nye g_nlx g_nly] in *.
    - rewrite !Nat.ltb_irrefl. reflexivity.
    - rewrite !Nat.ltb_irrefl. cbn [orb]. f_equal. f_equal; congruence. }
  unfold solve. rewrite Hg, Hg'. reflexivity.
Qed.

Theorem clamp_both (a : args) (g : geom) :
  geometry O a = inl g ->
  ((g_nxe O g < a_nlx O a)%nat \/ (g_nye O g < a_nly O a)%nat) ->
  (g_nlx O g = g_nxe O g /\ g_nly O g = g_nye O g) /\
  (Nat.odd (g_nxe O g) || Nat.odd (g_nye O g) = false ->
   solve O (with_modes a (g_nxe O g) (g_nye O g)) = solve O a).
Proof. intros Hg Hgt. split; [exact (clamp_geometry a g Hg Hgt)|exact (clamp_solve a g Hg Hgt)]. Qed.

(* ---------------------------------------------------------------- low-pass *)

Definition geom_modes (g : geom) (nlx nly : nat) : geom :=
  mkGeom O (g_nx O g) (g_ny O g) (g_nz O g) (g_dx O g) (g_dy O g) (g_px O g) (g_py O g) (g_nxe O g) (g_nye O g) nlx nly.

Lemma fftfreq_zero_iff n t : (t < n)%nat -> fftfreq n t = 0%Z <-> t = 0%nat.
Proof.
  intros Ht. split.
  - intros E. destruct t as [|t]; [reflexivity|]. exfalso.
    destruct (fftfreq_bounds O L n (S t)) as [Hnz _]; [lia|]. apply Hnz. exact E.
  - intros ->. apply (fftfreq_0 O L).
Qed.

(* a component retained under two different mode counts has the same amplitude, shift and
   frequency under both: truncation removes components, it never alters the retained ones *)
Theorem lowpass (a : args) (g : geom) nlx' nly' tx ty tx' ty' :
  (tx < g_nlx O g)%nat -> (ty < g_nly O g)%nat -> (tx' < nlx')%nat -> (ty' < nly')%nat ->
  fftfreq (g_nlx O g) tx = fftfreq nlx' tx' -> fftfreq (g_nly O g) ty = fftfreq nly' ty' ->
  spectrum O a g tx ty = spectrum O (with_modes a nlx' nly') (geom_modes g nlx' nly') tx' ty' /\
  shift O a g tx ty = shift O (with_modes a nlx' nly') (geom_modes g nlx' nly') tx' ty'.
Proof.
  intros Hx Hy Hx' Hy' Ex Ey.
  assert (Zx : tx = 0%nat <-> tx' = 0%nat).
  { rewrite <- (fftfreq_zero_iff (g_nlx O g) tx Hx), <- (fftfreq_zero_iff nlx' tx' Hx'), Ex. reflexivity. }
  assert (Zy : ty = 0%nat <-> ty' = 0%nat).
  { rewrite <- (fftfreq_zero_iff (g_nly O g) ty Hy), <- (fftfreq_zero_iff nly' ty' Hy'), Ey. reflexivity. }
  split.
  - unfold spectrum, mode_levels, mean_levels, mode_levels_q, mean_levels_q, q0_hat.
    cbn [geom_modes with_modes g_nlx g_nly g_dx g_dy g_nxe g_nye g_nz g_nx g_ny g_px g_py
         a_footprint a_analytic a_prof a_z a_levels a_single a_p000 a_q0].
    destruct tx as [|tx]; destruct ty as [|ty]; destruct tx' as [|tx']; destruct ty' as [|ty'];
      try (exfalso; lia); try (destruct Zx; discriminate); try (destruct Zy; discriminate).
    + unfold rho. cbn [a_single with_modes]. rewrite !(fftfreq_0 O L).
      unfold src_hat. cbn [a_q0 with_modes g_nx g_ny g_px g_py g_nxe g_nye geom_modes]. reflexivity.
    + unfold rho, src_hat. cbn [a_single a_q0 with_modes g_nx g_ny g_px g_py g_nxe g_nye geom_modes].
      rewrite <- Ex, <- Ey. reflexivity.
    + unfold rho, src_hat. cbn [a_single a_q0 with_modes g_nx g_ny g_px g_py g_nxe g_nye geom_modes].
      rewrite <- Ex, <- Ey. reflexivity.
    + unfold rho, src_hat. cbn [a_single a_q0 with_modes g_nx g_ny g_px g_py g_nxe g_nye geom_modes].
      rewrite <- Ex, <- Ey. reflexivity.
  - unfold shift. cbn [geom_modes with_modes g_nlx g_nly g_dx g_dy g_nxe g_nye g_px g_py
                       a_footprint a_xm a_ym a_xmx a_ymx].
    rewrite <- Ex, <- Ey. reflexivity.
Qed.

End C11.
