(* C03: on the full periodic domain (no halo cells cropped away) the horizontal sum of every
   level of the flux is nx*ny times the mean-mode flux amplitude, and that of the concentration
   nx*ny times (background - mean flux * vertical resistance); hence flux conservation level by
   level and unit footprint mass. *)
From Coq Require Import ZArith List Field Ring Lia Bool Arith.
From BL Require Import Base.Ops Base.Laws Model.Solver Proofs.Sums Proofs.StepProofs Proofs.ModeProofs Proofs.Dft Proofs.SpecProofs Proofs.C04Proofs.
Import ListNotations.
Set Default Proof Using "All".

Section C03.
Variable O : Ops.
Hypothesis L : Laws O.
Notation C := (C O).
Notation "0" := (c0 O) : ops_scope. Notation "1" := (c1 O) : ops_scope.
Infix "+" := (cadd O) : ops_scope. Infix "*" := (cmul O) : ops_scope.
Infix "-" := (csub O) : ops_scope. Infix "/" := (cdiv O) : ops_scope.
Notation "- x" := (copp O x) : ops_scope.
Local Open Scope ops_scope.
Add Field OFc3 : (L_field O L).
Notation ofZ := (cofZ O).
Notation ofN n := (cofZ O (Z.of_nat n)).
Notation args := (args O).
Notation geom := (geom O).

(* horizontal sum of slot k of a field *)
Definition hsum (F : list (list (list C))) (ny nx k : nat) : C :=
  csum O (map (fun j => csum O (map (fun i => get3 O F k j i) (seq 0 nx))) (seq 0 ny)).

(* the clamp guarantees that no more modes are retained than the padded grid holds *)
Lemma geometry_clamp a g : geometry O a = inl g ->
  (g_nlx O g <= g_nxe O g)%nat /\ (g_nly O g <= g_nye O g)%nat.
Proof.
  unfold geometry.
  destruct (Nat.odd (a_nlx O a) || Nat.odd (a_nly O a)); [discriminate|].
  destruct ((_ <? 0)%Z || (_ <? 0)%Z); [discriminate|].
  destruct ((_ <? a_nlx O a)%nat || (_ <? a_nly O a)%nat) eqn:E;
    (destruct (existsb _ (a_levels O a)); [discriminate|]); intros H; injection H as <-;
    cbn [g_nlx g_nly g_nxe g_nye].
  - lia.
  - apply orb_false_iff in E. destruct E as [E1 E2]. apply Nat.ltb_ge in E1. apply Nat.ltb_ge in E2. lia.
Qed.

(* sum over the periodic domain of one mode's phase factor *)
Lemma phase_sum (g : geom) (sgn : bool) kx ky :
  g_nxe O g <> 0%nat -> g_nye O g <> 0%nat ->
  csum O (map (fun j => csum O (map (fun i =>
      cis O (if sgn then - phase O g kx ky i j else phase O g kx ky i j)) (seq 0 (g_nxe O g)))) (seq 0 (g_nye O g)))
  = (if Z.eqb (ky mod Z.of_nat (g_nye O g)) 0 then ofN (g_nye O g) else 0)
    * (if Z.eqb (kx mod Z.of_nat (g_nxe O g)) 0 then ofN (g_nxe O g) else 0).
Proof.
  intros Hx Hy.
  destruct sgn.
  - rewrite (csum_map_ext O L _ (fun j => root O (g_nye O g) ((- ky) * Z.of_nat j)
        * csum O (map (fun i => root O (g_nxe O g) ((- kx) * Z.of_nat i)) (seq 0 (g_nxe O g))))).
    2:{ intros j _. rewrite <- (csum_map_scale O L). apply (csum_map_ext O L). intros i _.
        apply (cis_phase_neg O L). }
    rewrite (csum_map_scale_r O L), !(ortho O L) by assumption.
    replace ((- ky) mod Z.of_nat (g_nye O g) =? 0)%Z with (ky mod Z.of_nat (g_nye O g) =? 0)%Z.
    2:{ destruct (Z.eqb_spec (ky mod Z.of_nat (g_nye O g)) 0) as [E|E].
        - symmetry. apply Z.eqb_eq. apply Z.mod_opp_l_z; [lia|exact E].
        - symmetry. apply Z.eqb_neq. intros E'. apply E.
          replace ky with (- - ky)%Z by lia. apply Z.mod_opp_l_z; [lia|exact E']. }
    replace ((- kx) mod Z.of_nat (g_nxe O g) =? 0)%Z with (kx mod Z.of_nat (g_nxe O g) =? 0)%Z.
    2:{ destruct (Z.eqb_spec (kx mod Z.of_nat (g_nxe O g)) 0) as [E|E].
        - symmetry. apply Z.eqb_eq. apply Z.mod_opp_l_z; [lia|exact E].
        - symmetry. apply Z.eqb_neq. intros E'. apply E.
          replace kx with (- - kx)%Z by lia. apply Z.mod_opp_l_z; [lia|exact E']. }
    reflexivity.
  - rewrite (csum_map_ext O L _ (fun j => root O (g_nye O g) (ky * Z.of_nat j)
        * csum O (map (fun i => root O (g_nxe O g) (kx * Z.of_nat i)) (seq 0 (g_nxe O g))))).
    2:{ intros j _. rewrite <- (csum_map_scale O L). apply (csum_map_ext O L). intros i _.
        apply (cis_phase O L). }
    rewrite (csum_map_scale_r O L), !(ortho O L) by assumption. reflexivity.
Qed.

(* a retained non-mean mode has a frequency pair that is not (0,0) modulo the padded grid *)
Lemma nonmean_nonzero g t :
  (g_nlx O g <= g_nxe O g)%nat -> (g_nly O g <= g_nye O g)%nat ->
  In t (modes_of O g) -> t <> (0%nat, 0%nat) ->
  (Z.eqb (fftfreq (g_nly O g) (snd t) mod Z.of_nat (g_nye O g)) 0
   && Z.eqb (fftfreq (g_nlx O g) (fst t) mod Z.of_nat (g_nxe O g)) 0) = false.
Proof.
  intros Hcx Hcy Hin Hne. apply (modes_of_in O L) in Hin. destruct Hin as [Hx Hy].
  destruct t as [tx ty]. cbn [fst snd] in *.
  apply andb_false_iff.
  destruct tx as [|tx].
  - destruct ty as [|ty]; [exfalso; apply Hne; reflexivity|].
    left. apply Z.eqb_neq. destruct (fftfreq_bounds O L (g_nly O g) (S ty)) as [Hnz Hb]; [lia|].
    intros E. apply Z.mod_divide in E; [|lia]. destruct E as [c Ec].
    assert (c = 0)%Z by nia. subst c. lia.
  - right. apply Z.eqb_neq. destruct (fftfreq_bounds O L (g_nlx O g) (S tx)) as [Hnz Hb]; [lia|].
    intros E. apply Z.mod_divide in E; [|lia]. destruct E as [c Ec].
    assert (c = 0)%Z by nia. subst c. lia.
Qed.

Section Means.
Variables (a : args) (g : geom).
Hypothesis Hwf : wf O a.
Hypothesis Hg : geometry O a = inl g.
Hypothesis Hdouble : a_single O a = false.
Hypothesis Hpx : g_px O g = 0%nat.
Hypothesis Hpy : g_py O g = 0%nat.
Hypothesis Hnx : g_nx O g <> 0%nat.
Hypothesis Hny : g_ny O g <> 0%nat.
Hypothesis Hlx : (0 < g_nlx O g)%nat.
Hypothesis Hly : (0 < g_nly O g)%nat.

Lemma nxe_nx : g_nxe O g = g_nx O g /\ g_nye O g = g_ny O g.
Proof. destruct (geometry_inv O L a g Hg) as (_ & _ & _ & _ & _ & Hxe & Hye & _). lia. Qed.

(* horizontal sum = nx*ny * cre(mean-mode amplitude) *)
Lemma hsum_mean sel k :
  (forall pq s, sel (fst pq * s, snd pq * s) = sel pq * s) ->
  (k < length (a_levels O a))%nat ->
  hsum (field O a g sel (table O a g)) (g_ny O g) (g_nx O g) k
  = cre O (ofN (g_ny O g) * ofN (g_nx O g) * sel (amp O a g (0%nat, 0%nat) k)).
Proof.
  intros Hsel Hk. destruct nxe_nx as [Exe Eye]. destruct (geometry_clamp a g Hg) as [Hcx Hcy].
  unfold hsum.
  rewrite (csum_map_ext O L _ (fun j => cre O (csum O (map (fun i =>
             csum O (map (term O a g sel k i j) (modes_of O g))) (seq 0 (g_nx O g)))))).
  2:{ intros j Hj. apply in_seq in Hj. rewrite (cre_csum_map O L).
      apply (csum_map_ext O L). intros i Hi. apply in_seq in Hi.
      rewrite (field_get O L), (synth_table O L) by (try assumption; lia).
      rewrite Hpx, Hpy, !Nat.add_0_r. reflexivity. }
  rewrite <- (cre_csum_map O L). f_equal.
  (* exchange: sum over modes outermost *)
  rewrite (csum_map_ext O L _ (fun j => csum O (map (fun t => csum O (map (fun i => term O a g sel k i j t) (seq 0 (g_nx O g)))) (modes_of O g)))).
  2:{ intros j _. apply (csum_swap O L). }
  rewrite (csum_swap O L).
  destruct (modes_of_split O L g Hlx Hly) as (rest & Emodes & Hrest).
  assert (Hin : forall t, In t rest -> In t (modes_of O g)) by (intros t Ht; rewrite Emodes; right; exact Ht).
  rewrite Emodes. cbn [map csum].
  (* every mode: amplitude * phase sum *)
  assert (Hmode : forall t,
    csum O (map (fun j => csum O (map (fun i => term O a g sel k i j t) (seq 0 (g_nx O g)))) (seq 0 (g_ny O g)))
    = sel (nth k (spectrum O a g (fst t) (snd t)) (0, 0)) * shift O a g (fst t) (snd t)
      * ((if Z.eqb (fftfreq (g_nly O g) (snd t) mod Z.of_nat (g_nye O g)) 0 then ofN (g_nye O g) else 0)
         * (if Z.eqb (fftfreq (g_nlx O g) (fst t) mod Z.of_nat (g_nxe O g)) 0 then ofN (g_nxe O g) else 0))).
  { intros t. unfold term.
    rewrite <- (phase_sum g (a_footprint O a)) by (rewrite ?Exe, ?Eye; assumption).
    rewrite Exe, Eye. rewrite <- (csum_map_scale O L). apply (csum_map_ext O L). intros j _.
    rewrite <- (csum_map_scale O L). apply (csum_map_ext O L). intros i _.
    destruct (a_footprint O a); reflexivity. }
  rewrite Hmode. cbn [fst snd]. rewrite !(fftfreq_0 O L), !Z.mod_0_l by lia. cbn [Z.eqb].
  rewrite (shift_mean O L).
  rewrite (csum_map_ext O L _ (fun _ => 0) rest).
  2:{ intros t Ht. rewrite Hmode.
      pose proof (nonmean_nonzero g t Hcx Hcy (Hin t Ht) (Hrest t Ht)) as Hz.
      apply andb_false_iff in Hz. destruct Hz as [Hz|Hz]; rewrite Hz; ring. }
  rewrite (csum_map_zero O L).
  change (nth k (spectrum O a g 0%nat 0%nat) (0, 0))
    with (nth k (spectrum O a g (fst (0%nat, 0%nat)) (snd (0%nat, 0%nat))) (0, 0)).
  rewrite (spectrum_amp O L a g (0%nat, 0%nat) k Hwf Hg Hdouble Hk).
  rewrite Exe, Eye. ring.
Qed.

End Means.

(* C03, flux: the horizontal sum of the flux at every level is nx*ny * cre(q00), q00 the mean
   amplitude of the (padded) source in dispersion mode and 1/(nx*ny) in footprint mode *)
Theorem flux_sum (a : args) (g : geom) k :
  wf O a -> geometry O a = inl g -> a_single O a = false ->
  g_px O g = 0%nat -> g_py O g = 0%nat -> g_nx O g <> 0%nat -> g_ny O g <> 0%nat ->
  (0 < g_nlx O g)%nat -> (0 < g_nly O g)%nat -> (k < length (a_levels O a))%nat ->
  hsum (field O a g snd (table O a g)) (g_ny O g) (g_nx O g) k
  = cre O (ofN (g_ny O g) * ofN (g_nx O g) * q0_hat O a g 0%nat 0%nat).
Proof.
  intros Hwf Hg Hd Hpx Hpy Hnx Hny Hlx Hly Hk.
  rewrite (hsum_mean a g Hwf Hg Hd Hpx Hpy Hnx Hny Hlx Hly snd k) by (try assumption; reflexivity).
  reflexivity.
Qed.

Theorem conc_sum (a : args) (g : geom) k :
  wf O a -> geometry O a = inl g -> a_single O a = false ->
  g_px O g = 0%nat -> g_py O g = 0%nat -> g_nx O g <> 0%nat -> g_ny O g <> 0%nat ->
  (0 < g_nlx O g)%nat -> (0 < g_nly O g)%nat -> (k < length (a_levels O a))%nat ->
  hsum (field O a g fst (table O a g)) (g_ny O g) (g_nx O g) k
  = cre O (ofN (g_ny O g) * ofN (g_nx O g)
           * (a_p000 O a - q0_hat O a g 0%nat 0%nat * resist O a g (nth k (a_levels O a) 0%nat))).
Proof.
  intros Hwf Hg Hd Hpx Hpy Hnx Hny Hlx Hly Hk.
  rewrite (hsum_mean a g Hwf Hg Hd Hpx Hpy Hnx Hny Hlx Hly fst k) by (try assumption; reflexivity).
  reflexivity.
Qed.

(* footprint mode: the weights sum to exactly one at every level *)
Theorem footprint_mass (a : args) (g : geom) k :
  wf O a -> geometry O a = inl g -> a_single O a = false -> a_footprint O a = true ->
  g_px O g = 0%nat -> g_py O g = 0%nat -> g_nx O g <> 0%nat -> g_ny O g <> 0%nat ->
  (0 < g_nlx O g)%nat -> (0 < g_nly O g)%nat -> (k < length (a_levels O a))%nat ->
  hsum (field O a g snd (table O a g)) (g_ny O g) (g_nx O g) k = 1.
Proof.
  intros Hwf Hg Hd Hfp Hpx Hpy Hnx Hny Hlx Hly Hk.
  rewrite (flux_sum a g k) by assumption. unfold q0_hat. rewrite Hfp.
  destruct (geometry_inv O L a g Hg) as (_ & _ & _ & _ & _ & Hxe & Hye & _).
  rewrite Hxe, Hye, Hpx, Hpy, !Nat.mul_0_r, !Nat.add_0_r.
  replace (ofN (g_ny O g) * ofN (g_nx O g) * (1 / ofN (g_nx O g) / ofN (g_ny O g))) with (ofZ 1).
  - rewrite (L_re_ofZ O L), (L_ofZ_1 O L). reflexivity.
  - rewrite (L_ofZ_1 O L). field. split; apply (ofN_nz O L); assumption.
Qed.

(* dispersion mode: q00 is the mean of the source over the periodic domain *)
Theorem source_mean (a : args) (g : geom) :
  wf O a -> geometry O a = inl g -> a_footprint O a = false ->
  g_px O g = 0%nat -> g_py O g = 0%nat ->
  ofN (g_ny O g) * ofN (g_nx O g) * q0_hat O a g 0%nat 0%nat
  = (ofN (g_ny O g) * ofN (g_nx O g)) * (1 / ofN (g_nx O g) / ofN (g_ny O g))
    * csum O (map (fun j => csum O (map (fun i => cellq O (a_q0 O a) j i) (seq 0 (g_nx O g)))) (seq 0 (g_ny O g))).
Proof.
  intros Hwf Hg Hfp Hpx Hpy. unfold q0_hat. rewrite Hfp, !(fftfreq_0 O L).
  rewrite (src_hat_index O L a g _ _ Hwf Hg).
  destruct (geometry_inv O L a g Hg) as (_ & _ & _ & _ & _ & Hxe & Hye & _).
  rewrite Hxe, Hye, Hpx, Hpy, !Nat.mul_0_r, !Nat.add_0_r.
  rewrite (csum_map_ext O L _ (fun j => csum O (map (fun i => cellq O (a_q0 O a) j i) (seq 0 (g_nx O g))))).
  2:{ intros j _. apply (csum_map_ext O L). intros i _. rewrite (phase_0 O L).
      replace (- 0) with 0 by ring. rewrite (cis_0 O L). ring. }
  ring.
Qed.

End C03.
