(* C03, last clause: a halo of a given width is exactly equivalent to the caller zero-padding the
   source by the same whole number of cells (px = int(halo/dx), py = int(halo/dy)), enlarging the
   domain accordingly, solving with halo = 0 and cropping the result. *)
From Coq Require Import ZArith List Field Ring Lia Bool Arith.
From BL Require Import Base.Ops Base.Laws Model.Solver Proofs.Sums Proofs.StepProofs Proofs.ModeProofs Proofs.Dft Proofs.SpecProofs Proofs.C04Proofs.
Import ListNotations.
Set Default Proof Using "All".

Section Halo.
Variable O : Ops.
Hypothesis L : Laws O.
Notation C := (C O).
Notation "0" := (c0 O) : ops_scope. Notation "1" := (c1 O) : ops_scope.
Infix "+" := (cadd O) : ops_scope. Infix "*" := (cmul O) : ops_scope.
Infix "-" := (csub O) : ops_scope. Infix "/" := (cdiv O) : ops_scope.
Notation "- x" := (copp O x) : ops_scope.
Local Open Scope ops_scope.
Add Field OFh : (L_field O L).
Notation ofZ := (cofZ O).
Notation ofN n := (cofZ O (Z.of_nat n)).
Notation args := (args O).
Notation geom := (geom O).

(* ---------------------------------------------------------------- windowed sums *)

Lemma csum_seq_from (n : nat) : forall (a : nat) (F : nat -> C),
  csum O (map (fun i => F (i - a)%nat) (seq a n)) = csum O (map F (seq 0 n)).
Proof.
  induction n as [|n IH]; intros a F; [reflexivity|].
  cbn [seq map csum]. rewrite Nat.sub_diag. f_equal.
  replace (seq 1 n) with (map S (seq 0 n)) by (apply seq_shift).
  rewrite (map_map S F).
  rewrite <- (IH (S a) (fun m => F (S m))).
  apply (csum_map_ext O L). intros i Hi. apply in_seq in Hi. f_equal. lia.
Qed.

Lemma csum_window (a n b : nat) (F : nat -> C) :
  csum O (map (fun i => if (a <=? i)%nat && (i <? a + n)%nat then F (i - a)%nat else 0) (seq 0 (a + n + b)))
  = csum O (map F (seq 0 n)).
Proof.
  rewrite !seq_app, !map_app, !(csum_app O L). cbn [plus].
  rewrite (csum_map_ext O L _ (fun _ => 0) (seq 0 a)).
  2:{ intros i Hi. apply in_seq in Hi. replace (a <=? i)%nat with false by (symmetry; apply Nat.leb_gt; lia). reflexivity. }
  rewrite (csum_map_ext O L _ (fun _ => 0) (seq (a + n) b)).
  2:{ intros i Hi. apply in_seq in Hi. replace (i <? a + n)%nat with false by (symmetry; apply Nat.ltb_ge; lia).
      rewrite andb_false_r. reflexivity. }
  rewrite !(csum_map_zero O L).
  rewrite (csum_map_ext O L _ (fun i => F (i - a)%nat) (seq a n)).
  2:{ intros i Hi. apply in_seq in Hi.
      replace (a <=? i)%nat with true by (symmetry; apply Nat.leb_le; lia).
      replace (i <? a + n)%nat with true by (symmetry; apply Nat.ltb_lt; lia). reflexivity. }
  rewrite csum_seq_from. ring.
Qed.

(* ---------------------------------------------------------------- padding *)

Definition pad_row (px : nat) (row : list C) : list C := zeros O px ++ row ++ zeros O px.
Definition pad2 (px py nx : nat) (q : list (list C)) : list (list C) :=
  repeat (zeros O (nx + 2 * px)) py ++ map (pad_row px) q ++ repeat (zeros O (nx + 2 * px)) py.

Lemma nth_repeat_lt {A} (x d : A) m k : (k < m)%nat -> nth k (repeat x m) d = x.
Proof. intros H. rewrite (nth_indep _ d x) by (rewrite repeat_length; exact H). apply nth_repeat. Qed.

Lemma nth_zeros n i : nth i (zeros O n) 0 = 0.
Proof. unfold zeros. destruct (Nat.lt_ge_cases i n); [apply nth_repeat|apply nth_overflow; rewrite repeat_length; lia]. Qed.

Lemma pad_row_length px row : length (pad_row px row) = (length row + 2 * px)%nat.
Proof. unfold pad_row. rewrite !app_length, !(zeros_length O L). lia. Qed.

Lemma pad_row_nth px row i :
  nth i (pad_row px row) 0 = if (px <=? i)%nat && (i <? px + length row)%nat then nth (i - px) row 0 else 0.
Proof.
  unfold pad_row.
  destruct (Nat.lt_ge_cases i px) as [H1|H1].
  - rewrite app_nth1 by (rewrite (zeros_length O L); exact H1).
    replace (px <=? i)%nat with false by (symmetry; apply Nat.leb_gt; lia). apply nth_zeros.
  - rewrite app_nth2 by (rewrite (zeros_length O L); exact H1). rewrite (zeros_length O L).
    replace (px <=? i)%nat with true by (symmetry; apply Nat.leb_le; lia). cbn [andb].
    destruct (Nat.lt_ge_cases (i - px) (length row)) as [H2|H2].
    + rewrite app_nth1 by exact H2. replace (i <? px + length row)%nat with true by (symmetry; apply Nat.ltb_lt; lia). reflexivity.
    + rewrite app_nth2 by exact H2. replace (i <? px + length row)%nat with false by (symmetry; apply Nat.ltb_ge; lia). apply nth_zeros.
Qed.

Lemma cellq_pad2 px py nx (q : list (list C)) j i :
  (forall row, In row q -> length row = nx) ->
  cellq O (pad2 px py nx q) j i
  = if ((py <=? j)%nat && (j <? py + length q)%nat) && ((px <=? i)%nat && (i <? px + nx)%nat)
    then cellq O q (j - py) (i - px) else 0.
Proof.
  intros Hrect. unfold cellq, pad2.
  destruct (Nat.lt_ge_cases j py) as [H1|H1].
  - rewrite app_nth1 by (rewrite repeat_length; exact H1). rewrite (nth_repeat_lt _ _ _ _ H1).
    replace (py <=? j)%nat with false by (symmetry; apply Nat.leb_gt; lia). cbn [andb]. apply nth_zeros.
  - rewrite app_nth2 by (rewrite repeat_length; exact H1). rewrite repeat_length.
    replace (py <=? j)%nat with true by (symmetry; apply Nat.leb_le; lia). cbn [andb].
    destruct (Nat.lt_ge_cases (j - py) (length q)) as [H2|H2].
    + rewrite app_nth1 by (rewrite map_length; exact H2).
      replace (j <? py + length q)%nat with true by (symmetry; apply Nat.ltb_lt; lia). cbn [andb].
      rewrite (map_nth_lt (pad_row px) q (j - py) [] []) by exact H2.
      rewrite pad_row_nth. rewrite (Hrect (nth (j - py) q [])) by (apply nth_In; exact H2). reflexivity.
    + rewrite app_nth2 by (rewrite map_length; exact H2).
      replace (j <? py + length q)%nat with false by (symmetry; apply Nat.ltb_ge; lia). cbn [andb].
      destruct (Nat.lt_ge_cases (j - py - length (map (pad_row px) q)) py) as [H3|H3].
      * rewrite (nth_repeat_lt _ _ _ _ H3). apply nth_zeros.
      * rewrite (nth_overflow (repeat _ _)) by (rewrite repeat_length; exact H3). destruct i; reflexivity.
Qed.

Lemma pad2_length px py nx q : length (pad2 px py nx q) = (length q + 2 * py)%nat.
Proof. unfold pad2. rewrite !app_length, !repeat_length, map_length. lia. Qed.

Lemma pad2_rows px py nx q row :
  (forall r, In r q -> length r = nx) -> In row (pad2 px py nx q) -> length row = (nx + 2 * px)%nat.
Proof.
  intros Hrect Hin. unfold pad2 in Hin. apply in_app_or in Hin. destruct Hin as [Hin|Hin].
  - apply repeat_spec in Hin. subst row. apply (zeros_length O L).
  - apply in_app_or in Hin. destruct Hin as [Hin|Hin].
    + apply in_map_iff in Hin. destruct Hin as (r & <- & Hr). rewrite pad_row_length, (Hrect r Hr). reflexivity.
    + apply repeat_spec in Hin. subst row. apply (zeros_length O L).
Qed.

Lemma pad2_hd px py nx q : q <> [] -> (forall r, In r q -> length r = nx) ->
  length (hd [] (pad2 px py nx q)) = (nx + 2 * px)%nat.
Proof.
  intros Hne Hrect. apply (pad2_rows px py nx q); [exact Hrect|].
  unfold pad2. destruct py as [|py]; cbn [repeat app].
  - destruct q as [|r q]; [congruence|]. cbn. left. reflexivity.
  - left. reflexivity.
Qed.

(* ---------------------------------------------------------------- the padded request *)

Definition padded_req (a : args) (g : geom) : args :=
  mkArgs O (pad2 (g_px O g) (g_py O g) (g_nx O g) (a_q0 O a)) (a_z O a) (a_prof O a)
         (ofN (g_nxe O g) * g_dx O g) (ofN (g_nye O g) * g_dy O g) (a_levels O a) (a_nlx O a) (a_nly O a)
         (if a_footprint O a then a_xm O a + ofN (g_px O g) * g_dx O g else a_xm O a)
         (if a_footprint O a then a_ym O a + ofN (g_py O g) * g_dy O g else a_ym O a)
         (a_p000 O a) (a_footprint O a) (a_analytic O a) (Some 0) (a_single O a).

Definition padded_geom (g : geom) : geom :=
  mkGeom O (g_nxe O g) (g_nye O g) (g_nz O g) (g_dx O g) (g_dy O g) 0%nat 0%nat (g_nxe O g) (g_nye O g)
         (g_nlx O g) (g_nly O g).

(* what else geometry fixes: parity, levels, clamp *)
Lemma geometry_inv2 a g : geometry O a = inl g ->
  Nat.odd (a_nlx O a) || Nat.odd (a_nly O a) = false /\
  existsb (fun l => (length (a_z O a) <=? l)%nat) (a_levels O a) = false /\
  (g_nlx O g, g_nly O g) = (if (g_nxe O g <? a_nlx O a)%nat || (g_nye O g <? a_nly O a)%nat
                            then (g_nxe O g, g_nye O g) else (a_nlx O a, a_nly O a)).
Proof.
  unfold geometry.
  destruct (Nat.odd (a_nlx O a) || Nat.odd (a_nly O a)); [discriminate|].
  destruct ((_ <? 0)%Z || (_ <? 0)%Z); [discriminate|].
  destruct ((_ <? a_nlx O a)%nat || (_ <? a_nly O a)%nat) eqn:E;
    (destruct (existsb _ (a_levels O a)); [discriminate|]); intros H; injection H as <-;
    cbn [g_nlx g_nly g_nxe g_nye]; cbn [Nat.mul] in E; rewrite E; repeat split; reflexivity.
Qed.

Lemma padded_geometry a g :
  wf O a -> geometry O a = inl g -> g_nx O g <> 0%nat -> g_ny O g <> 0%nat ->
  geometry O (padded_req a g) = inl (padded_geom g).
Proof.
  intros Hwf Hg Hnx Hny.
  destruct (geometry_inv O L a g Hg) as (Eny & Enx & Enz & Edx & Edy & Exe & Eye & _).
  destruct (geometry_inv2 a g Hg) as (Hodd & Hlv & Hclamp).
  assert (Hq : a_q0 O a <> []) by (intros E; rewrite E in Eny; cbn in Eny; lia).
  assert (Hrect : forall r, In r (a_q0 O a) -> length r = g_nx O g) by (intros r Hr; rewrite Enx; apply (wf_rect O a Hwf r Hr)).
  unfold geometry. cbn [a_nlx a_nly a_q0 a_z a_xmx a_ymx a_halo a_levels padded_req].
  rewrite Hodd, Hlv, pad2_length, (pad2_hd _ _ _ _ Hq Hrect), <- Eny, <- Exe, <- Eye.
  assert (Hx0 : ofN (g_nxe O g) <> 0) by (apply (ofN_nz O L); lia).
  assert (Hy0 : ofN (g_nye O g) <> 0) by (apply (ofN_nz O L); lia).
  replace (ofN (g_nxe O g) * g_dx O g / ofN (g_nxe O g)) with (g_dx O g) by (field; exact Hx0).
  replace (ofN (g_nye O g) * g_dy O g / ofN (g_nye O g)) with (g_dy O g) by (field; exact Hy0).
  replace (0 / g_dx O g) with 0 by (rewrite (Fdiv_def (L_field O L)); ring).
  replace (0 / g_dy O g) with 0 by (rewrite (Fdiv_def (L_field O L)); ring).
  rewrite (L_trunc_0 O L). cbn [Z.ltb orb Z.to_nat Nat.mul Nat.add].
  rewrite !Nat.add_0_r.
  change ((0 <? 0)%Z) with false. cbn [orb]. rewrite <- Enz.
  destruct ((g_nxe O g <? a_nlx O a)%nat || (g_nye O g <? a_nly O a)%nat);
    injection Hclamp as Hcx Hcy; unfold padded_geom; rewrite Hcx, Hcy; reflexivity.
Qed.

Lemma wf_padded a g : wf O a -> geometry O a = inl g -> g_ny O g <> 0%nat -> wf O (padded_req a g).
Proof.
  intros Hwf Hg Hny. destruct (geometry_inv O L a g Hg) as (Eny & Enx & _).
  assert (Hq : a_q0 O a <> []) by (intros E; rewrite E in Eny; cbn in Eny; lia).
  assert (Hrect : forall r, In r (a_q0 O a) -> length r = g_nx O g) by (intros r Hr; rewrite Enx; apply (wf_rect O a Hwf r Hr)).
  destruct Hwf as [A B C0 D E F]. constructor; try assumption.
  cbn [a_q0 padded_req]. intros row Hin.
  rewrite (pad2_rows _ _ _ _ row Hrect Hin). symmetry. apply pad2_hd; assumption.
Qed.

(* source amplitude of the padded request = that of the original one *)
Lemma src_hat_padded a g kx ky :
  wf O a -> geometry O a = inl g -> g_nx O g <> 0%nat -> g_ny O g <> 0%nat ->
  src_hat O (padded_req a g) (padded_geom g) kx ky = src_hat O a g kx ky.
Proof.
  intros Hwf Hg Hnx Hny.
  destruct (geometry_inv O L a g Hg) as (Eny & Enx & _ & _ & _ & Exe & Eye & _).
  assert (Hrect : forall r, In r (a_q0 O a) -> length r = g_nx O g) by (intros r Hr; rewrite Enx; apply (wf_rect O a Hwf r Hr)).
  rewrite (src_hat_index O L _ _ kx ky (wf_padded a g Hwf Hg Hny) (padded_geometry a g Hwf Hg Hnx Hny)).
  rewrite (src_hat_index O L a g kx ky Hwf Hg).
  cbn [g_nxe g_nye g_nx g_ny g_px g_py padded_geom a_q0 padded_req]. f_equal.
  rewrite Eye at 1. replace (g_ny O g + 2 * g_py O g)%nat with (g_py O g + g_ny O g + g_py O g)%nat by lia.
  rewrite <- (csum_window (g_py O g) (g_ny O g) (g_py O g)
     (fun j => csum O (map (fun i => cellq O (a_q0 O a) j i * cis O (- phase O g kx ky (i + g_px O g) (j + g_py O g))) (seq 0 (g_nx O g))))).
  apply (csum_map_ext O L). intros j Hj. apply in_seq in Hj.
  destruct ((g_py O g <=? j)%nat && (j <? g_py O g + g_ny O g)%nat) eqn:Ej.
  - apply andb_true_iff in Ej. destruct Ej as [Ej1 Ej2]. apply Nat.leb_le in Ej1. apply Nat.ltb_lt in Ej2.
    rewrite Exe. replace (g_nx O g + 2 * g_px O g)%nat with (g_px O g + g_nx O g + g_px O g)%nat by lia.
    rewrite <- (csum_window (g_px O g) (g_nx O g) (g_px O g)
       (fun i => cellq O (a_q0 O a) (j - g_py O g) i * cis O (- phase O g kx ky (i + g_px O g) (j - g_py O g + g_py O g)))).
    apply (csum_map_ext O L). intros i Hi. apply in_seq in Hi.
    rewrite (cellq_pad2 _ _ _ _ j i Hrect), <- Eny.
    replace ((g_py O g <=? j)%nat && (j <? g_py O g + g_ny O g)%nat) with true
      by (symmetry; apply andb_true_iff; split; [apply Nat.leb_le|apply Nat.ltb_lt]; lia). cbn [andb].
    destruct ((g_px O g <=? i)%nat && (i <? g_px O g + g_nx O g)%nat) eqn:Ei; [|ring].
    apply andb_true_iff in Ei. destruct Ei as [Ei1 Ei2]. apply Nat.leb_le in Ei1. apply Nat.ltb_lt in Ei2.
    rewrite !Nat.add_0_r. replace (i - g_px O g + g_px O g)%nat with i by lia.
    replace (j - g_py O g + g_py O g)%nat with j by lia.
    unfold phase. cbn [g_nxe g_nye padded_geom]. reflexivity.
  - rewrite (csum_map_ext O L _ (fun _ => 0)); [apply (csum_map_zero O L)|].
    intros i _. rewrite (cellq_pad2 _ _ _ _ j i Hrect), <- Eny, Ej. cbn [andb]. ring.
Qed.

(* C03: the cropped result of the padded request is the result of the original request *)
Theorem halo_is_padding (a : args) (g : geom) sel k j i :
  (forall pq s, sel (fst pq * s, snd pq * s) = sel pq * s) ->
  wf O a -> geometry O a = inl g -> g_nx O g <> 0%nat -> g_ny O g <> 0%nat ->
  (a_footprint O a = false -> a_xm O a = 0 /\ a_ym O a = 0) ->
  (k < length (a_levels O a))%nat -> (j < g_ny O g)%nat -> (i < g_nx O g)%nat ->
  get3 O (field O a g sel (table O a g)) k j i
  = get3 O (field O (padded_req a g) (padded_geom g) sel (table O (padded_req a g) (padded_geom g))) k
         (j + g_py O g) (i + g_px O g).
Proof.
  intros Hsel Hwf Hg Hnx Hny Hmeas Hk Hj Hi.
  destruct (geometry_inv O L a g Hg) as (_ & _ & _ & _ & _ & Exe & Eye & _).
  rewrite (field_get O L a g) by assumption.
  rewrite (field_get O L (padded_req a g) (padded_geom g)) by (cbn [a_levels padded_req g_nx g_ny padded_geom]; try assumption; lia).
  rewrite !(synth_table O L) by (cbn [a_levels padded_req]; assumption).
  cbn [g_px g_py padded_geom]. rewrite !Nat.add_0_r.
  f_equal. change (modes_of O (padded_geom g)) with (modes_of O g).
  apply (csum_map_ext O L). intros t _. unfold term.
  change (a_footprint O (padded_req a g)) with (a_footprint O a).
  change (phase O (padded_geom g)) with (phase O g).
  change (g_nlx O (padded_geom g)) with (g_nlx O g). change (g_nly O (padded_geom g)) with (g_nly O g).
  f_equal. f_equal.
  - (* amplitudes *)
    f_equal. f_equal. unfold spectrum, mode_levels, mean_levels.
    assert (Hq0 : forall tx ty, q0_hat O (padded_req a g) (padded_geom g) tx ty = q0_hat O a g tx ty).
    { intros tx ty. unfold q0_hat. change (a_footprint O (padded_req a g)) with (a_footprint O a).
      destruct (a_footprint O a); [reflexivity|].
      change (g_nlx O (padded_geom g)) with (g_nlx O g). change (g_nly O (padded_geom g)) with (g_nly O g).
      apply src_hat_padded; assumption. }
    destruct (fst t) as [|tx]; destruct (snd t) as [|ty]; rewrite Hq0; reflexivity.
  - (* shift *)
    unfold shift. change (a_footprint O (padded_req a g)) with (a_footprint O a).
    cbn [g_dx g_dy g_nxe g_nye g_nlx g_nly g_px g_py padded_geom a_xm a_ym a_xmx a_ymx padded_req].
    destruct (a_footprint O a) eqn:Hfp.
    + unfold cis, shift_arg_fp. f_equal. f_equal. change (Z.of_nat 0) with 0%Z. rewrite (L_ofZ_0 O L). ring.
    + destruct (Hmeas eq_refl) as [Hx0 Hy0]. rewrite Hx0, Hy0.
      replace (0 * 0 + 0 * 0) with 0 by ring. rewrite (L_ltb_irrefl O L). reflexivity.
Qed.

End Halo.
