(* List facts used by Bridge/DriversBridge.v: the loop shapes the driver translator (harness/py2coq_drivers.py)
   emits - `xs.append(e)` inside `for` loops as fold_left with a snoc, comprehensions as map / flat_map, dict
   comprehensions as dict_of_pairs over a map, the `idx += n` regrouping loop as a fold over a pair - brought to
   the forms Model/Drivers.v is written in.  Nothing here depends on the generated file. *)
From Coq Require Import List Arith Lia.
From BL Require Import Model.Drivers.
Import ListNotations.

Section L0.
Context {B C : Type}.

(* for x in l: acc.append(f x) *)
Lemma fold_snoc (f : B -> C) (l : list B) : forall acc,
  fold_left (fun acc x => acc ++ [f x]) l acc = acc ++ map f l.
Proof.
  induction l as [|x l IH]; intros acc; simpl; [rewrite app_nil_r; reflexivity|].
  rewrite IH, <- app_assoc. reflexivity.
Qed.

End L0.

Section L.
Context {A B C : Type}.

Lemma fold_left_ext_in (f g : A -> B -> A) (l : list B) : forall a,
  (forall a x, In x l -> f a x = g a x) -> fold_left f l a = fold_left g l a.
Proof.
  induction l as [|x l IH]; intros a H; simpl; [reflexivity|].
  rewrite (H a x (or_introl eq_refl)). apply IH. intros a' y Hy. apply H. right. exact Hy.
Qed.

Lemma fold_left_ext (f g : A -> B -> A) (l : list B) a :
  (forall a x, f a x = g a x) -> fold_left f l a = fold_left g l a.
Proof. intros H. apply fold_left_ext_in. intros a' x _. apply H. Qed.

(* for x in l: for y in h x: acc.append(g x y) *)
Lemma fold_fold_snoc {D : Type} (g : B -> D -> C) (h : B -> list D) (l : list B) : forall acc,
  fold_left (fun acc x => fold_left (fun acc y => acc ++ [g x y]) (h x) acc) l acc =
  acc ++ flat_map (fun x => map (g x) (h x)) l.
Proof.
  induction l as [|x l IH]; intros acc; simpl; [rewrite app_nil_r; reflexivity|].
  rewrite IH, fold_snoc, <- app_assoc. reflexivity.
Qed.

Lemma map_flat_map {D : Type} (f : C -> D) (g : B -> list C) (l : list B) :
  map f (flat_map g l) = flat_map (fun x => map f (g x)) l.
Proof. induction l as [|x l IH]; simpl; [reflexivity|]. rewrite map_app, IH. reflexivity. Qed.

Lemma flat_map_ext' (f g : B -> list C) (l : list B) :
  (forall x, f x = g x) -> flat_map f l = flat_map g l.
Proof. intros H. induction l as [|x l IH]; simpl; [reflexivity|]. rewrite H, IH. reflexivity. Qed.

(* for name, res in pairs: (name, res) *)
Lemma map_repair (l : list (B * C)) : map (fun p => let '(a, b) := p in (a, b)) l = l.
Proof. induction l as [|[a b] l IH]; simpl; [reflexivity|]. rewrite IH. reflexivity. Qed.

Lemma fold_left_map (f : A -> C -> A) (g : B -> C) (l : list B) : forall a,
  fold_left f (map g l) a = fold_left (fun a x => f a (g x)) l a.
Proof. induction l as [|x l IH]; intros a; simpl; [reflexivity|]. apply IH. Qed.
End L.

Section D.
Context {Tw N R : Type}.
Variable name : Tw -> N.
Variable N_eq_dec : forall a b : N, {a = b} + {a <> b}.

(* {fst (g x): snd (g x) for x in l}  =  d = {}; for x in l: d[fst (g x)] = snd (g x) *)
Lemma dict_of_pairs_map {X V : Type} (g : X -> N * V) (l : list X) :
  dict_of_pairs N_eq_dec (map g l) =
  fold_left (fun d x => dict_set N_eq_dec d (fst (g x)) (snd (g x))) l [].
Proof. unfold dict_of_pairs. rewrite fold_left_map. reflexivity. Qed.

(* the regrouping loop of strategy "both" with the running index carried in the loop state:
     for tower in towers: results[tower.name] = flat[idx : idx + n]; idx += n
   (the slice written as firstn (idx + n - idx) (skipn idx flat)) is Model/Drivers.chunk_loop *)
Lemma chunk_fold (n : nat) (flat : list R) (towers : list Tw) : forall d idx,
  fold_left (fun st tw => let '(res, idx) := st in
               (dict_set N_eq_dec res (name tw) (firstn (idx + n - idx) (skipn idx flat)), idx + n))
            towers (d, idx) =
  (chunk_loop name N_eq_dec n towers idx flat d, idx + length towers * n).
Proof.
  induction towers as [|tw r IH]; intros d idx; simpl.
  - rewrite Nat.add_0_r. reflexivity.
  - rewrite IH. replace (idx + n - idx) with n by lia. f_equal. lia.
Qed.

(* the same regrouping written with the tower number:
     {tower.name: flat[k * n : k * n + n] for k, tower in enumerate(towers)}
   (as the translator emits it: dict_of_pairs over a map, normalised by dict_of_pairs_map) *)
Lemma chunk_loop_enumerate (n : nat) (flat : list R) (towers : list Tw) : forall d k0,
  fold_left (fun d p => dict_set N_eq_dec d
               (fst (let '(k, tw) := p in (name tw, firstn (k * n + n - k * n) (skipn (k * n) flat))))
               (snd (let '(k, tw) := p in (name tw, firstn (k * n + n - k * n) (skipn (k * n) flat)))))
            (combine (seq k0 (length towers)) towers) d =
  chunk_loop name N_eq_dec n towers (k0 * n) flat d.
Proof.
  induction towers as [|tw r IH]; intros d k0; [reflexivity|].
  cbn [length seq combine fold_left fst snd chunk_loop]. rewrite IH.
  replace (k0 * n + n - k0 * n) with n by lia. replace (S k0 * n) with (k0 * n + n) by lia. reflexivity.
Qed.
End D.
