(* C12: concrete instances used by the non-vacuity Examples of Properties/C12.v (definitions, and the one computation that needs more than `exact`). *)
From Coq Require Import List Arith Bool ZArith PrimFloat.
From BL Require Import Base.Ops Base.FloatOps Model.Solver Model.SolverExec Model.Runtime.
Import ListNotations.
Close Scope float_scope.

Definition ex_flat (x : nat) : nat := x.

Definition ex_fft_src (t x : nat) : nat := 2 * x + 1.

Definition ex_closed (x q : nat) : nat := x + 3 * q.

Definition ex_kernel (par : bool) (n x q : nat) (b : bool) : nat := x * q + (if b then 7 else 5).

Definition ex_combine (x q k1 k2 : nat) : nat := k1 + 2 * k2 + q.

Definition ex_fft_out (t x m : nat) (b : bool) : nat := if b then m + x else 2 * m.

Definition ex_history : list (op nat) :=
  [Solve nat (mkSargs nat 3 false false Returns); SetThreads nat 4; Solve nat (mkSargs nat 3 false false Returns);
   Solve nat (mkSargs nat 5 false true Returns); ResetMgr nat; Solve nat (mkSargs nat 2 true false Returns);
   Solve nat (mkSargs nat 9 false false RaisesAfterSource);
   SetThreads nat 1; Solve nat (mkSargs nat 3 false false Returns); SetThreads nat 8; ResetMgr nat;
   Solve nat (mkSargs nat 4 false false RaisesBefore); Solve nat (mkSargs nat 5 false true Returns)].

Definition bad_kernel (par : bool) (n x q : nat) (b : bool) : nat := if par then 1 else 0.

Definition bad_fft_src (t x : nat) : nat := t.

Definition IdRoundOps : Ops :=
  mkOps (C FloatOps) (c0 FloatOps) (c1 FloatOps) (cadd FloatOps) (cmul FloatOps) (csub FloatOps) (cdiv FloatOps)
        (copp FloatOps) (cinv FloatOps) (ci FloatOps) (cofZ FloatOps) (cpi FloatOps) (csqrt FloatOps)
        (cexp FloatOps) (cre FloatOps) (fun x => x) (ctrunc FloatOps) (cltb FloatOps).

Definition ex_args (single : bool) : args FloatOps :=
  mkArgs FloatOps (R2 [[1; 0.5]; [0.25; 2]]%float) (R1 [0.5; 1; 1.75]%float)
    (mkProf FloatOps (R1 [1; 1.5; 2]%float) (R1 [0.5; 0.5; 0.25]%float) (R1 [0.5; 0.75; 1]%float)
            (R1 [0.5; 0.75; 1]%float) (R1 [0.25; 0.625; 0.875]%float))
    (fr 4%float) (fr 3%float) [2%nat] 2%nat 2%nat (fr 0%float) (fr 0%float) (fr 0%float)
    false false (Some (fr 0%float)) single.

Definition cell000 (r : result FloatOps + error) : float :=
  match r with
  | inl r => match r_flx FloatOps r with ((x :: _) :: _) :: _ => fst x | _ => PrimFloat.nan end
  | inr _ => PrimFloat.nan
  end.

Lemma precision_flag_is_read :
  solve FloatOps (mkArgs FloatOps (a_q0 _ (ex_args false)) (a_z _ (ex_args false)) (a_prof _ (ex_args false))
                   (a_xmx _ (ex_args false)) (a_ymx _ (ex_args false)) (a_levels _ (ex_args false))
                   (a_nlx _ (ex_args false)) (a_nly _ (ex_args false)) (a_xm _ (ex_args false)) (a_ym _ (ex_args false))
                   (a_p000 _ (ex_args false)) (a_footprint _ (ex_args false)) (a_analytic _ (ex_args false))
                   (a_halo _ (ex_args false)) true)
  <> solve FloatOps (ex_args false).
Proof.
  intros H.
  assert (E : PrimFloat.eqb (cell000 (solve FloatOps (ex_args true))) (cell000 (solve FloatOps (ex_args false))) = false)
    by (vm_compute; reflexivity).
  change (solve FloatOps (ex_args true) = solve FloatOps (ex_args false)) in H.
  rewrite H in E.
  assert (E2 : PrimFloat.eqb (cell000 (solve FloatOps (ex_args false))) (cell000 (solve FloatOps (ex_args false))) = true)
    by (vm_compute; reflexivity).
  rewrite E2 in E. discriminate E.
Qed.
