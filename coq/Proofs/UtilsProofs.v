(* point_measurement as the double index sum, and reciprocity (C02) phrased with it. *)
From Coq Require Import ZArith List Field Ring Lia.
From BL Require Import Base.Ops Base.Laws Model.Solver Model.Utils Proofs.Sums Proofs.SpecProofs
  Proofs.C04Proofs Proofs.C02Proofs.
Import ListNotations.
Set Default Proof Using "All".

Section UtilsProofs.
Variable O : Ops.
Hypothesis L : Laws O.
Notation C := (C O).
Notation "0" := (c0 O) : ops_scope.
Infix "+" := (cadd O) : ops_scope. Infix "*" := (cmul O) : ops_scope.
Local Open Scope ops_scope.

Lemma csum_combine_idx {A B} (h : A * B -> C) (dA : A) (dB : B) : forall (l1 : list A) (l2 : list B),
  length l1 = length l2 ->
  csum O (map h (combine l1 l2)) = csum O (map (fun k => h (nth k l1 dA, nth k l2 dB)) (seq 0 (length l1))).
Proof.
  induction l1 as [|x l1 IH]; intros l2 Hl; destruct l2 as [|y l2]; try discriminate Hl; [reflexivity|].
  cbn [combine map csum length seq]. rewrite IH by (cbn [length] in Hl; lia).
  f_equal. rewrite <- seq_shift, map_map. reflexivity.
Qed.

Lemma nth_In_len {A} (l : list A) k d : (k < length l)%nat -> In (nth k l d) l.
Proof. apply nth_In. Qed.

(* for equally shaped ny x nx arrays, point_measurement is the sum over all cells of f*g *)
Lemma point_measurement_cells (f g : list (list C)) (ny nx : nat) :
  length f = ny -> length g = ny ->
  (forall row, In row f -> length row = nx) -> (forall row, In row g -> length row = nx) ->
  point_measurement O f g
  = csum O (map (fun j => csum O (map (fun i => cellq O f j i * cellq O g j i) (seq 0 nx))) (seq 0 ny)).
Proof.
  intros Hf Hg Rf Rg. unfold point_measurement.
  rewrite (csum_combine_idx _ [] []) by congruence.
  rewrite Hf. apply (csum_map_ext O L). intros j Hj. apply in_seq in Hj. cbn [fst snd].
  assert (Hrf : length (nth j f []) = nx) by (apply Rf, nth_In; lia).
  assert (Hrg : length (nth j g []) = nx) by (apply Rg, nth_In; lia).
  rewrite (csum_combine_idx _ 0 0) by congruence.
  rewrite Hrf. reflexivity.
Qed.

Lemma field_slot_shape a g sel tab k :
  (k < length (a_levels O a))%nat ->
  length (nth k (field O a g sel tab) []) = g_ny O g /\
  (forall row, In row (nth k (field O a g sel tab) []) -> length row = g_nx O g).
Proof.
  intros Hk. unfold field.
  set (f3 := fun l : nat => _).
  rewrite (nth_indep _ [] (f3 0%nat)) by (rewrite map_length, seq_length; exact Hk).
  rewrite map_nth, seq_nth by exact Hk. subst f3. cbv beta. split.
  - rewrite map_length, seq_length. reflexivity.
  - intros row Hin. apply in_map_iff in Hin. destruct Hin as [j [<- _]].
    rewrite map_length, seq_length. reflexivity.
Qed.

Lemma cellq_slot F k j i : cellq O (nth k F []) j i = get3 O F k j i.
Proof. reflexivity. Qed.

(* C02 phrased with the package's own helper: point_measurement(q, footprint[k]) is the forward
   flux at the tower, point_measurement(q, Green's function[k]) the forward concentration above
   background *)
Theorem reciprocity_point_measurement (a : args O) (g : geom O) (im jm : nat) (p : C) :
  wf O a -> a_single O a = false ->
  (forall j i, cre O (cellq O (a_q0 O a) j i) = cellq O (a_q0 O a) j i) ->
  geometry O (fp_req O a (cofZ O (Z.of_nat im) * g_dx O g) (cofZ O (Z.of_nat jm) * g_dy O g)) = inl g ->
  g_dx O g <> c0 O -> g_dy O g <> c0 O -> g_nxe O g <> 0%nat -> g_nye O g <> 0%nat ->
  (0 < g_nlx O g)%nat -> (0 < g_nly O g)%nat -> (im < g_nx O g)%nat -> (jm < g_ny O g)%nat ->
  forall k, (k < length (a_levels O a))%nat ->
  let afp := fp_req O a (cofZ O (Z.of_nat im) * g_dx O g) (cofZ O (Z.of_nat jm) * g_dy O g) in
  let afw := fw_req O a p in
  (point_measurement O (a_q0 O a) (nth k (field O afp g snd (table O afp g)) [])
   = get3 O (field O afw g snd (table O afw g)) k jm im)
  /\
  (point_measurement O (a_q0 O a) (nth k (field O afp g fst (table O afp g)) [])
   = csub O (get3 O (field O afw g fst (table O afw g)) k jm im) (cre O p)).
Proof.
  intros Hwf Hd Hre Hg Hdx Hdy Hnxe Hnye Hlx Hly Him Hjm k Hk afp afw.
  pose proof (reciprocity O L a g im jm p Hwf Hd Hre Hg Hdx Hdy Hnxe Hnye Hlx Hly Him Hjm k Hk) as [R1 R2].
  destruct (geometry_inv O L _ _ Hg) as [Hny [Hnx _]].
  cbn [a_q0 fp_req] in Hny, Hnx.
  assert (Hrect : forall row, In row (a_q0 O a) -> length row = g_nx O g).
  { intros row Hin. rewrite Hnx. apply (wf_rect O a Hwf). exact Hin. }
  assert (Hkfp : (k < length (a_levels O afp))%nat) by exact Hk.
  destruct (field_slot_shape afp g snd (table O afp g) k Hkfp) as [S1 S1r].
  destruct (field_slot_shape afp g fst (table O afp g) k Hkfp) as [S2 S2r].
  split.
  - rewrite (point_measurement_cells _ _ (g_ny O g) (g_nx O g)) by (try assumption; symmetry; exact Hny).
    exact R1.
  - rewrite (point_measurement_cells _ _ (g_ny O g) (g_nx O g)) by (try assumption; symmetry; exact Hny).
    exact R2.
Qed.

End UtilsProofs.
