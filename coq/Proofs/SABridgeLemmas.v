(* Lemmas about the primitives of Model/SADesc.v (the array-program language of C20's tie B): what the interpreter's
   dynamic checks and store operations amount to on the inputs of the property's quantifier.  Proved once; the
   bridge (Bridge/SABridge.v) evaluates the GENERATED programs symbolically and closes the side conditions with these. *)
From Coq Require Import String List Arith ZArith QArith Qabs Bool Permutation Lia.
From BL Require Import Model.SourceArea Model.SADesc Proofs.SourceAreaProofs.
Import ListNotations.
Open Scope list_scope.
Open Scope Q_scope.

(* ------------------------------------------------------------------ lengths *)

Lemma cumsum_length l : length (cumsum l) = length l.
Proof. unfold cumsum. apply cumsum_from_length. Qed.

Lemma scatter_into_length acc idx vals : length (scatter_into acc idx vals) = length acc.
Proof. exact (scat_length idx vals acc). Qed.

Lemma cast_list_same dt l : cast_list dt dt l = l.
Proof. destruct dt; reflexivity. Qed.

Lemma cast_list_length dst src l : length (cast_list dst src l) = length l.
Proof. destruct dst, src; simpl; try reflexivity. apply map_length. Qed.

(* ------------------------------------------------------------------ argsort *)

Lemma sorts_asc_length x o : sorts_asc x o -> length o = length x.
Proof. intros [Hp _]. rewrite (Permutation_length Hp). apply seq_length. Qed.

Lemma sorts_asc_rev_perm x o n : sorts_asc x o -> n = length x -> Permutation (rev o) (seq 0 n).
Proof. intros [Hp _] ->. eapply Permutation_trans; [apply Permutation_sym, Permutation_rev|exact Hp]. Qed.

Lemma argsort_length argsort x : argsort_ok argsort -> length (argsort x) = length x.
Proof. intros H. apply sorts_asc_length, H. Qed.

Lemma argsort_rev_perm argsort x : argsort_ok argsort -> Permutation (rev (argsort x)) (seq 0 (length x)).
Proof. intros H. destruct (H x) as [Hp _]. eapply Permutation_trans; [apply Permutation_sym, Permutation_rev|exact Hp]. Qed.

Lemma gather_rev x o : gather x (rev o) = rev (gather x o).
Proof. unfold gather. apply map_rev. Qed.

(* the order the programs use, np.argsort(x)[::-1], satisfies the hypothesis of every theorem of C20 *)
Lemma sorts_asc_rev_desc x o : sorts_asc x o -> sorts_desc x (rev o).
Proof.
  intros [Hp Ha]. split.
  - eapply Permutation_trans; [apply Permutation_sym, Permutation_rev|exact Hp].
  - rewrite gather_rev. intros i j Hij Hj. rewrite rev_length in Hj.
    rewrite !rev_nth by lia. apply Ha; lia.
Qed.

Lemma argsort_rev_sorts_desc argsort x : argsort_ok argsort -> sorts_desc x (rev (argsort x)).
Proof. intros H. apply sorts_asc_rev_desc, H. Qed.

(* ------------------------------------------------------------------ index checks *)

Lemma in_range_perm n o : Permutation o (seq 0 n) -> in_range n o = true.
Proof.
  intros Hp. unfold in_range. apply forallb_forall. intros i Hi.
  apply Nat.ltb_lt. apply (perm_lt _ _ Hp), Hi.
Qed.

(* ------------------------------------------------------------------ slices *)

Lemma slice_all_but_last l : slice_list l None (Some (-1)%Z) = removelast l.
Proof.
  unfold slice_list, norm_bound. cbn [Z.ltb Z.compare].
  rewrite Nat.sub_0_r, skipn_O.
  replace (Z.to_nat (Z.max 0 (-1 + Z.of_nat (length l)))) with (pred (length l)) by lia.
  symmetry. apply removelast_firstn_len.
Qed.

(* M = zeros(n); M[1:] = c[:-1]  is the model's shift *)
Lemma set_slice_shift l :
  set_slice_list (repeat 0 (length l)) (Some 1%Z) None (slice_list l None (Some (-1)%Z)) = Some (shift l).
Proof.
  rewrite slice_all_but_last. unfold set_slice_list, norm_bound. rewrite repeat_length.
  cbn [Z.ltb Z.compare]. change (Z.to_nat 1) with 1%nat.
  destruct l as [|x r].
  - reflexivity.
  - assert (Hl : length (removelast (x :: r)) = length r).
    { rewrite removelast_length. simpl. lia. }
    replace (Nat.min 1 (length (x :: r))) with 1%nat by (simpl; lia).
    replace (length (x :: r) - 1)%nat with (length r) by (simpl; lia).
    rewrite Hl, Nat.eqb_refl.
    replace (1 + length r)%nat with (length (repeat 0 (length (x :: r)))) by (rewrite repeat_length; reflexivity).
    rewrite skipn_all, app_nil_r. reflexivity.
Qed.

(* ------------------------------------------------------------------ scatter into an uninitialised buffer *)

Lemma nth_ext_Q (a b : list Q) : length a = length b -> (forall k, (k < length a)%nat -> nth k a 0 = nth k b 0) -> a = b.
Proof. intros Hl H. apply (nth_ext a b 0 0 Hl). exact H. Qed.

(* over a permutation of all cells every cell is written: the initial contents do not matter *)
Lemma scatter_into_perm n o vals acc1 acc2 :
  Permutation o (seq 0 n) -> length vals = n -> length acc1 = n -> length acc2 = n ->
  scatter_into acc1 o vals = scatter_into acc2 o vals.
Proof.
  intros Hp Hv H1 H2. pose proof (perm_length _ _ Hp) as Hl.
  apply nth_ext_Q.
  - rewrite !scatter_into_length. congruence.
  - intros c Hc. rewrite scatter_into_length, H1 in Hc.
    destruct (perm_pos _ _ Hp c Hc) as [k [Hk Hkc]]. subst c.
    change (nth (nth k o 0%nat) (scat acc1 o vals) 0 = nth (nth k o 0%nat) (scat acc2 o vals) 0).
    rewrite !scat_nth; try reflexivity; try (apply (perm_NoDup _ _ Hp)); try lia.
    + intros i Hi. rewrite H2. apply (perm_lt _ _ Hp), Hi.
    + intros i Hi. rewrite H1. apply (perm_lt _ _ Hp), Hi.
Qed.

Lemma scatter_into_junk junk o vals :
  Permutation o (seq 0 (length o)) -> length vals = length o ->
  scatter_into (repeat junk (length o)) o vals = scatter (length o) o vals.
Proof.
  intros Hp Hv. unfold scatter.
  change (fold_left (fun acc iv => upd acc (fst iv) (snd iv)) (combine o vals) (repeat 0 (length o)))
    with (scatter_into (repeat 0 (length o)) o vals).
  apply (scatter_into_perm (length o)); try assumption; apply repeat_length.
Qed.

(* ------------------------------------------------------------------ integer indices *)

Lemma norm_index_pos n z : (0 <= z < Z.of_nat n)%Z -> norm_index n z = Some (Z.to_nat z).
Proof.
  intros H. unfold norm_index.
  replace (z <? 0)%Z with false by (symmetry; apply Z.ltb_ge; lia).
  replace ((0 <=? z) && (z <? Z.of_nat n))%Z with true; [reflexivity|].
  symmetry. apply andb_true_intro. split; [apply Z.leb_le|apply Z.ltb_lt]; lia.
Qed.

(* x[-1] on a non-empty axis *)
Lemma norm_index_last n : (0 < n)%nat -> norm_index n (-1)%Z = Some (n - 1)%nat.
Proof.
  intros H. unfold norm_index. cbn [Z.ltb Z.compare].
  replace ((0 <=? -1 + Z.of_nat n) && (-1 + Z.of_nat n <? Z.of_nat n))%Z with true.
  - f_equal. lia.
  - symmetry. apply andb_true_intro. split; [apply Z.leb_le|apply Z.ltb_lt]; lia.
Qed.

(* x[min(k, len(x) - 1)] *)
Lemma norm_index_min n k : (0 < n)%nat ->
  norm_index n (Z.min (Z.of_nat k) (Z.of_nat n - 1)) = Some (Nat.min k (n - 1)).
Proof.
  intros H. rewrite norm_index_pos by lia. f_equal. lia.
Qed.

Lemma nth_last_n n (l : list Q) : length l = n -> nth (n - 1) l 0 = last l 0.
Proof. intros <-. symmetry. apply last_nth. Qed.

Lemma inject_Z_plus1 z : inject_Z (z + 1) = inject_Z z + 1.
Proof. unfold inject_Z, Qplus. cbn [Qnum Qden]. rewrite Z.mul_1_r. reflexivity. Qed.

(* ------------------------------------------------------------------ nested lists as C-ordered buffers *)

Lemma chunk_concat {A} m (rows : list (list A)) : forall i,
  Forall (fun r => length r = m) rows -> (i < length rows)%nat ->
  firstn m (skipn (i * m) (concat rows)) = nth i rows [].
Proof.
  induction rows as [|r rows IH]; intros i Hr Hi; simpl in Hi; [lia|].
  inversion Hr as [|? ? Hlen Hr']; subst. destruct i as [|i]; simpl.
  - rewrite firstn_app, firstn_all, Nat.sub_diag, firstn_O, app_nil_r. reflexivity.
  - rewrite skipn_app, skipn_all2 by lia.
    replace (length r + i * length r - length r)%nat with (i * length r)%nat by lia.
    simpl. apply IH; [exact Hr'|lia].
Qed.

Lemma rect3_nth ny nx L i : rect3 ny nx L -> (i < length L)%nat ->
  length (nth i L []) = ny /\ rect2 nx (nth i L []).
Proof.
  intros H Hi. unfold rect3 in H. rewrite Forall_forall in H. apply H. apply nth_In. exact Hi.
Qed.

Lemma rect2_hd nx rows : rect2 nx rows -> rows <> [] -> length (hd [] rows) = nx.
Proof. intros H Hne. destruct rows as [|r rows]; [congruence|]. inversion H; subst. reflexivity. Qed.

(* shape of the level-th slice of a rectangular 3-D array *)
Lemma shape_slice L i : rect (A3 L) -> (i < length L)%nat ->
  shape_of (A2 (nth i L [])) = [length (hd [] L); length (hd [] (hd [] L))].
Proof.
  intros H Hi. simpl in H. destruct (rect3_nth _ _ _ _ H Hi) as [H1 H2].
  assert (H0 : (0 < length L)%nat) by lia.
  destruct (rect3_nth _ _ _ 0%nat H H0) as [H3 H4].
  replace (nth 0 L []) with (hd [] L) in H3, H4 by (destruct L; reflexivity).
  simpl. rewrite H1. f_equal. f_equal.
  destruct (nth i L []) as [|r rows] eqn:E.
  - simpl in H1. destruct (hd [] L) as [|r0 rows0]; [reflexivity|simpl in H1; lia].
  - simpl. inversion H2 as [|? ? Hr0 ?]; subst. exact Hr0.
Qed.

(* x[i] on the first axis of a rectangular 3-D array is the i-th level *)
Lemma index_A3 dt L z : rect (A3 L) -> (0 <= z < Z.of_nat (length L))%Z ->
  index_int (VArr dt [length L; length (hd [] L); length (hd [] (hd [] L))] (concat (map (@concat Q) L))) z
  = Some (VArr dt [length (nth (Z.to_nat z) L []); length (hd [] (nth (Z.to_nat z) L []))]
            (concat (nth (Z.to_nat z) L []))).
Proof.
  intros H Hz. assert (Hi : (Z.to_nat z < length L)%nat) by lia.
  pose proof (shape_slice L _ H Hi) as Hsh. simpl in Hsh. injection Hsh as Hs1 Hs2.
  unfold index_int. rewrite norm_index_pos by exact Hz. rewrite Hs1, Hs2. f_equal. f_equal.
  set (ny := length (hd [] L)). set (nx := length (hd [] (hd [] L))).
  rewrite (chunk_concat (prod_shape [ny; nx]) (map (@concat Q) L)).
  - change (@nil Q) with (concat (@nil (list Q))). apply map_nth.
  - simpl in H. apply Forall_map. unfold rect3 in H. rewrite Forall_forall in *. intros rows Hin.
    destruct (H rows Hin) as [Hl Hr]. fold ny in Hl. fold nx in Hr.
    unfold prod_shape. simpl. rewrite Nat.mul_1_r. rewrite <- Hl.
    clear - Hr. induction Hr as [|r rows Hlen Hr IH]; simpl; [reflexivity|].
    rewrite app_length, IH, Hlen. reflexivity.
  - rewrite map_length. exact Hi.
Qed.

(* x[i, j] on a rectangular 2-D array *)
Lemma index2_A2 dt rows zi zj : rect (A2 rows) ->
  (0 <= zi < Z.of_nat (length rows))%Z -> (0 <= zj < Z.of_nat (length (hd [] rows)))%Z ->
  match index_int (VArr dt [length rows; length (hd [] rows)] (concat rows)) zi with
  | Some w => index_int w zj
  | None => None
  end = Some (VNum (nth (Z.to_nat zj) (nth (Z.to_nat zi) rows []) 0)).
Proof.
  intros H Hi Hj. unfold index_int at 1. rewrite norm_index_pos by exact Hi.
  unfold index_int. rewrite norm_index_pos by exact Hj.
  unfold prod_shape. simpl fold_right. rewrite Nat.mul_1_r.
  rewrite chunk_concat; [reflexivity|exact H|lia].
Qed.

(* x[i] on a 1-D array *)
Lemma index_A1 dt l z : (0 <= z < Z.of_nat (length l))%Z ->
  index_int (VArr dt [length l] l) z = Some (VNum (nth (Z.to_nat z) l 0)).
Proof. intros H. unfold index_int. rewrite norm_index_pos by exact H. reflexivity. Qed.

(* ------------------------------------------------------------------ the store of get_source_area *)

(* g_rescaled = empty(n); g_rescaled[order] = shift(cumsum(f[order]))  is the model's get_source_area, whatever the
   uninitialised buffer contained *)
Lemma gsa_of_scatter_into junk f o n : Permutation o (seq 0 n) ->
  scatter_into (repeat junk n) o (shift (cumsum (gather f o))) = get_source_area f o.
Proof.
  intros Hp. pose proof (perm_length _ _ Hp) as Hl. subst n.
  rewrite scatter_into_junk; [reflexivity|exact Hp|].
  rewrite shift_length, cumsum_length, gather_length. reflexivity.
Qed.

Lemma argsort_rev_perm_n argsort x n : argsort_ok argsort -> n = length x ->
  Permutation (rev (argsort x)) (seq 0 n).
Proof. intros H ->. apply argsort_rev_perm, H. Qed.

(* ------------------------------------------------------------------ 1-D reads of the percentile code *)

Lemma index_1d_last dt n l : length l = n -> (0 < n)%nat ->
  index_int (VArr dt [n] l) (-1)%Z = Some (VNum (last l 0)).
Proof. intros Hl Hn. unfold index_int. rewrite norm_index_last by exact Hn. rewrite (nth_last_n n l Hl). reflexivity. Qed.

Lemma index_1d_min dt n l k : (0 < n)%nat ->
  index_int (VArr dt [n] l) (Z.min (Z.of_nat k) (Z.of_nat n - 1)) = Some (VNum (nth (Nat.min k (n - 1)) l 0)).
Proof. intros Hn. unfold index_int. rewrite norm_index_min by exact Hn. reflexivity. Qed.

Lemma index_1d_none dt l z : index_int (VArr dt [0%nat] l) z = None.
Proof.
  unfold index_int, norm_index. cbn [Z.of_nat].
  destruct (z <? 0)%Z eqn:E.
  - rewrite Z.add_0_r. replace (0 <=? z)%Z with false; [reflexivity|]. symmetry. apply Z.leb_gt. apply Z.ltb_lt. exact E.
  - replace (z <? 0)%Z with false. rewrite andb_false_r. reflexivity.
Qed.

(* ------------------------------------------------------------------ _maybe_slice_level keeps arrays rectangular *)

Lemma rect_slice L i : rect (A3 L) -> (i < length L)%nat -> rect (A2 (nth i L [])).
Proof.
  intros H Hi. pose proof (shape_slice L i H Hi) as Hsh. simpl in Hsh. injection Hsh as _ H2.
  simpl in H. destruct (rect3_nth _ _ _ _ H Hi) as [_ Hr]. simpl. rewrite H2. exact Hr.
Qed.

Lemma slice_level_rect flx X Y Zv level fld X' Y' :
  rect flx -> rect X -> rect Y -> level_ok flx X Y Zv level ->
  slice_level flx X Y level = Some (fld, X', Y') -> rect fld /\ rect X' /\ rect Y'.
Proof.
  intros Rf RX RY Hok Hs. destruct flx as [l|rows|L].
  - injection Hs as <- <- <-. auto.
  - injection Hs as <- <- <-. auto.
  - destruct Hok as [HL Hok]. simpl in Hs.
    destruct X as [xl|xrows|XL].
    + injection Hs as <- <- <-. split; [apply rect_slice; assumption|auto].
    + injection Hs as <- <- <-. split; [apply rect_slice; assumption|auto].
    + destruct Y as [yl|yrows|YL]; try discriminate.
      destruct Hok as (HX & HY & _). injection Hs as <- <- <-.
      repeat split; apply rect_slice; assumption.
Qed.
